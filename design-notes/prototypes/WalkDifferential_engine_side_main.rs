#![allow(dead_code, unused_imports, clippy::all)]
#[macro_use]
extern crate strum_macros;
extern crate derive_more;
mod bench; mod board; mod evaluate; mod logger; mod search; mod uci;
use board::Board;
use board::piece::Color;
use std::io::Write;
fn main() {
    let args: Vec<String> = std::env::args().collect();
    let games: u64 = args.get(1).and_then(|s| s.parse().ok()).unwrap_or(100);
    let mut seed: u64 = args.get(2).and_then(|s| s.parse().ok()).unwrap_or(12345);
    let out = std::io::stdout(); let mut out = std::io::BufWriter::new(out.lock());
    let fens = ["startpos",
      "r3k2r/p1ppqpb1/bn2pnp1/3PN3/1p2P3/2N2Q1p/PPPBBPPP/R3K2R w KQkq - 0 1",
      "8/2p5/3p4/KP5r/1R3p1k/8/4P1P1/8 w - - 0 1",
      "r3k2r/Pppp1ppp/1b3nbN/nP6/BBP1P3/q4N2/Pp1P2PP/R2Q1RK1 w kq - 0 1",
      "rnbq1k1r/pp1Pbppp/2p5/8/2B5/8/PPP1NnPP/RNBQK2R w KQ - 1 8",
      "4k3/P6P/8/8/8/8/p6p/4K3 w - - 0 1",
      "r3k2r/8/8/8/8/8/8/R3K2R w KQkq - 0 1"];
    for g in 0..games {
        let fen = fens[(g as usize) % fens.len()];
        let mut b = if fen == "startpos" { Board::default() } else { Board::from_fen(fen) };
        writeln!(out, "N {}", fen).unwrap();
        for _ in 0..160 {
            let mut legal = b.get_legal_moves();
            let mut names: Vec<String> = legal.iter().map(|m| m.to_notation()).collect();
            names.sort();
            writeln!(out, "L {}", names.join(" ")).unwrap();
            writeln!(out, "C {} {}", b.is_in_check(Color::White), b.is_in_check(Color::Black)).unwrap();
            writeln!(out, "S {} {} {}", b.get_halfmove_clock(), b.fullmove_counter, if b.current_turn == Color::White {"w"} else {"b"}).unwrap();
            if legal.is_empty() || b.get_halfmove_clock() >= 100 { break; }
            seed ^= seed << 13; seed ^= seed >> 7; seed ^= seed << 17;
            legal.sort_by_key(|m| m.to_notation());
            let pick = (seed % legal.len() as u64) as usize;
            writeln!(out, "M {}", legal[pick].to_notation()).unwrap();
            b.make_move(legal[pick]);
        }
    }
}
