import RulesProto
open Rules

def sqName (s : Nat) : String :=
  String.ofList [Char.ofNat ('a'.toNat + s % 8), Char.ofNat ('1'.toNat + s / 8)]
def promoCh : Kind → String | .queen => "q" | .rook => "r" | .bishop => "b" | .knight => "n" | _ => "?"
def Rules.Move.name (m : Move) : String := sqName m.src ++ sqName m.dst ++ (match m.promo with | some k => promoCh k | none => "")

def sortStrs (l : List String) : List String := (l.toArray.qsort (· < ·)).toList

partial def loop (h : IO.FS.Stream) (p : Pos) (line games mism : Nat) : IO (Nat × Nat × Nat) := do
  let s ← h.getLine
  if s.isEmpty then return (line, games, mism)
  let s := s.trimAscii.toString
  let tag := s.take 1 |>.toString
  let rest := (s.drop 2).toString
  match tag with
  | "N" =>
    let p' := if rest == "startpos" then ofFen "rnbqkbnr/pppppppp/8/8/8/8/PPPPPPPP/RNBQKBNR w KQkq - 0 1" else ofFen rest
    loop h p' (line+1) (games+1) mism
  | "L" =>
    let mine := " ".intercalate (sortStrs ((legalMoves p).map Move.name))
    if mine != rest then
      IO.println s!"line {line}: LEGAL MISMATCH\n impl: {rest}\n spec: {mine}"
      loop h p (line+1) games (mism+1)
    else loop h p (line+1) games mism
  | "C" =>
    let mine := s!"{inCheck p .white} {inCheck p .black}"
    if mine != rest then
      IO.println s!"line {line}: CHECK MISMATCH impl: {rest} spec: {mine}"
      loop h p (line+1) games (mism+1)
    else loop h p (line+1) games mism
  | "S" =>
    let mine := s!"{p.half} {p.full} {if p.turn == .white then "w" else "b"}"
    if mine != rest then
      IO.println s!"line {line}: STATE MISMATCH impl: {rest} spec: {mine}"
      loop h p (line+1) games (mism+1)
    else loop h p (line+1) games mism
  | "M" =>
    match (legalMoves p).find? (fun m => m.name == rest) with
    | some m => loop h (apply p m) (line+1) games mism
    | none => IO.println s!"line {line}: move {rest} not legal in spec"; loop h p (line+1) games (mism+1)
  | _ => loop h p (line+1) games mism

def main : IO Unit := do
  let (lines, games, mism) ← loop (← IO.getStdin) default 0 0 0
  IO.println s!"lines={lines} games={games} mismatches={mism}"
