-- prototype: mate-soundness of fail-hard alpha-beta + PVS + transposition table + arbitrary aborts / path-dependent draws
-- abstract positions; the table is keyed by position (i.e. key injectivity assumed)
namespace TTP

inductive Bound | exact | lower | upper deriving DecidableEq
structure Entry where
  score : Int
  depth : Nat
  bound : Bound

variable {P : Type} [DecidableEq P]

structure Game (P : Type) where
  moves : P → List P          -- legal successors
  caps  : P → List P          -- legal capture successors
  caps_sub : ∀ p c, c ∈ caps p → c ∈ moves p
  inCheck : P → Bool
  eval : P → Int

abbrev MAXS : Int := 32767
abbrev MINS : Int := -32768
abbrev WIN : Int := MAXS - 255      -- 32512
abbrev LOSS : Int := MINS + 256     -- -32512

structure St (P : Type) where
  tt  : P → Option Entry
  ctr : Nat                    -- index into the oracle of nondeterministic decisions

def St.put (s : St P) (p : P) (e : Entry) : St P := { s with tt := fun q => if q = p then some e else s.tt q }
def St.tick (s : St P) : St P := { s with ctr := s.ctr + 1 }

mutual
inductive Lost (G : Game P) : P → Prop
  | mate {p} : G.moves p = [] → G.inCheck p = true → Lost G p
  | all {p} : G.moves p ≠ [] → (∀ c, c ∈ G.moves p → Won G c) → Lost G p
inductive Won (G : Game P) : P → Prop
  | some {p} (c : P) : c ∈ G.moves p → Lost G c → Won G p
end

def Sound (G : Game P) (tt : P → Option Entry) : Prop :=
  ∀ p e, tt p = some e →
    ((e.bound = .exact ∨ e.bound = .lower) → e.score ≥ WIN → Won G p) ∧
    ((e.bound = .exact ∨ e.bound = .upper) → e.score ≤ LOSS → Lost G p)

def Claim (G : Game P) (p : P) (a b r : Int) : Prop :=
  (r > a → r ≥ WIN → Won G p) ∧ (r < b → r ≤ LOSS → Lost G p)

/-- result of a move loop -/
inductive Loop (P : Type) | cut (st : St P) | done (alpha : Int) (st : St P)

/-- the PVS loop of `alpha_beta`; `rec` searches a child -/
def abKids (rec : P → Int → Int → St P → Int × St P) (p : P) (d : Nat) :
    List P → Int → Int → Bool → St P → Loop P
  | [], a, _, _, st => .done a st
  | k :: ks, a, b, pvs, st =>
    let (r0, st) := if pvs then rec k (-a - 1) (-a) st else rec k (-b) (-a) st
    let sc0 := -r0
    let (sc, st) := if pvs && (a < sc0 && sc0 < b) then
        let (r1, st) := rec k (-b) (-a) st; (-r1, st) else (sc0, st)
    if sc ≥ b then .cut (st.put p ⟨sc, d, .lower⟩)
    else if sc > a then abKids rec p d ks sc b true st
    else abKids rec p d ks a b pvs st

def qKids (rec : P → Int → Int → St P → Int × St P) :
    List P → Int → Int → St P → Loop P
  | [], a, _, st => .done a st
  | k :: ks, a, b, st =>
    let (r, st) := rec k (-b) (-a) st
    let sc := -r
    if sc ≥ b then .cut st
    else if sc > a then qKids rec ks sc b st
    else qKids rec ks a b st

def quiesce (G : Game P) (ω : Nat → Bool) : Nat → P → Int → Int → St P → Int × St P
  | 0, _, _, _, st => (0, st)
  | fuel+1, p, a, b, st =>
    if ω st.ctr then (0, st.tick) else
    let st := st.tick
    let s := G.eval p
    if s ≥ b then (b, st) else
    let a := if s > a then s else a
    match qKids (quiesce G ω fuel) (G.caps p) a b st with
    | .cut st => (b, st)
    | .done a st => (a, st)

def ab (G : Game P) (ω : Nat → Bool) : Nat → P → Int → Int → Nat → Nat → St P → Int × St P
  | 0, _, _, _, _, _, st => (0, st)                       -- ply cap
  | fuel+1, p, a0, b0, depth, ply, st =>
    if ω st.ctr then (0, st.tick) else                   -- stop / limit: dummy score
    let st := st.tick
    if ω st.ctr then (0, st.tick) else                   -- fifty-move or repetition (path dependent)
    let st := st.tick
    -- table probe
    let probe : Option (Int × Int) ⊕ Int :=
      match st.tt p with
      | some e =>
        if e.depth ≥ depth then
          match e.bound with
          | .exact => .inr e.score
          | .lower => if max a0 e.score ≥ b0 then .inr e.score else .inl (some (max a0 e.score, b0))
          | .upper => if a0 ≥ min b0 e.score then .inr e.score else .inl (some (a0, min b0 e.score))
        else .inl none
      | none => .inl none
    match probe with
    | .inr s => (s, st)
    | .inl w =>
      let a := (w.map (·.1)).getD a0
      let b := (w.map (·.2)).getD b0
      let depth := if G.inCheck p then depth + 1 else depth
      if depth = 0 then quiesce G ω fuel p a b st else
      if G.moves p = [] then (if G.inCheck p then (MINS + ply, st) else (0, st)) else
      match abKids (fun c x y s => ab G ω fuel c x y (depth - 1) (ply + 1) s) p depth (G.moves p) a b false st with
      | .cut st => (b, st)
      | .done alpha st =>
        (alpha, st.put p ⟨alpha, depth, if alpha ≤ a0 then .upper else .exact⟩)


def RecSpec (G : Game P) (rec : P → Int → Int → St P → Int × St P) : Prop :=
  ∀ c x y st, x < y → Sound G st.tt → Claim G c x y (rec c x y st).1 ∧ Sound G (rec c x y st).2.tt

theorem sound_put {G : Game P} {st : St P} {p : P} {e : Entry} (hs : Sound G st.tt)
    (h1 : (e.bound = .exact ∨ e.bound = .lower) → e.score ≥ WIN → Won G p)
    (h2 : (e.bound = .exact ∨ e.bound = .upper) → e.score ≤ LOSS → Lost G p) :
    Sound G (st.put p e).tt := by
  intro q e' hq
  simp only [St.put] at hq
  split at hq
  · cases hq; subst_vars; exact ⟨h1, h2⟩
  · exact hs q e' hq

theorem abKids_spec {G : Game P} {rec} (hrec : RecSpec G rec) (p : P) (d : Nat) :
    ∀ (ks : List P) (a b : Int) (pvs : Bool) (st : St P),
      (∀ c ∈ ks, c ∈ G.moves p) → a < b → Sound G st.tt →
      match abKids rec p d ks a b pvs st with
      | .cut st' => (b ≥ WIN → Won G p) ∧ Sound G st'.tt
      | .done alpha st' => a ≤ alpha ∧ alpha < b ∧ (alpha > a → alpha ≥ WIN → Won G p) ∧
                           (alpha ≤ LOSS → ∀ c ∈ ks, Won G c) ∧ Sound G st'.tt := by
  intro ks
  induction ks with
  | nil => intro a b pvs st _ hab hs; simp [abKids]; exact ⟨hab, hs⟩
  | cons k ks ih =>
    intro a b pvs st hsub hab hs
    have hk : k ∈ G.moves p := hsub k List.mem_cons_self
    have hsub' : ∀ c ∈ ks, c ∈ G.moves p := fun c hc => hsub c (List.mem_cons_of_mem _ hc)
    -- the (possibly two) child searches produce a final score sc and state st2 with these facts:
    have key : ∃ sc st2, Sound G st2.tt ∧
        (sc > a → sc ≥ WIN → Won G p) ∧ (sc < b → sc ≤ a ∨ True) ∧
        (sc < b → sc ≤ LOSS → Won G k) ∧
        abKids rec p d (k :: ks) a b pvs st =
          (if sc ≥ b then Loop.cut (st2.put p ⟨sc, d, .lower⟩)
           else if sc > a then abKids rec p d ks sc b true st2
           else abKids rec p d ks a b pvs st2) := by
      cases pvs with
      | false =>
        have h := hrec k (-b) (-a) st (by omega) hs
        refine ⟨-(rec k (-b) (-a) st).1, (rec k (-b) (-a) st).2, h.2, ?_, ?_, ?_, ?_⟩
        · intro h1 h2; exact Won.some k hk (h.1.2 (by omega) (by unfold WIN LOSS MAXS MINS at *; omega))
        · intro _; right; trivial
        · intro h1 h2; exact h.1.1 (by omega) (by unfold WIN LOSS MAXS MINS at *; omega)
        · simp [abKids]
      | true =>
        have h0 := hrec k (-a - 1) (-a) st (by omega) hs
        by_cases hre : a < -(rec k (-a - 1) (-a) st).1 ∧ -(rec k (-a - 1) (-a) st).1 < b
        · have h1 := hrec k (-b) (-a) (rec k (-a - 1) (-a) st).2 (by omega) h0.2
          refine ⟨-(rec k (-b) (-a) (rec k (-a - 1) (-a) st).2).1, (rec k (-b) (-a) (rec k (-a - 1) (-a) st).2).2, h1.2, ?_, ?_, ?_, ?_⟩
          · intro g1 g2; exact Won.some k hk (h1.1.2 (by omega) (by unfold WIN LOSS MAXS MINS at *; omega))
          · intro _; right; trivial
          · intro g1 g2; exact h1.1.1 (by omega) (by unfold WIN LOSS MAXS MINS at *; omega)
          · simp [abKids, hre.1, hre.2]
        · refine ⟨-(rec k (-a - 1) (-a) st).1, (rec k (-a - 1) (-a) st).2, h0.2, ?_, ?_, ?_, ?_⟩
          · intro g1 g2; exact Won.some k hk (h0.1.2 (by omega) (by unfold WIN LOSS MAXS MINS at *; omega))
          · intro _; right; trivial
          · intro g1 g2
            -- no re-search and below b: then sc0 ≤ a, so r0 ≥ -a > -a-1
            have : -(rec k (-a - 1) (-a) st).1 ≤ a := by omega
            exact h0.1.1 (by omega) (by unfold WIN LOSS MAXS MINS at *; omega)
          · have : ¬ (a < -(rec k (-a - 1) (-a) st).1 ∧ -(rec k (-a - 1) (-a) st).1 < b) := hre
            simp only [abKids]
            have hdec : (true && (decide (a < -(rec k (-a - 1) (-a) st).1) && decide (-(rec k (-a - 1) (-a) st).1 < b))) = false := by
              simp; omega
            simp [hdec]
    obtain ⟨sc, st2, hs2, hW, _, hK, heq⟩ := key
    rw [heq]
    by_cases hcut : sc ≥ b
    · simp only [hcut, ↓reduceIte]
      refine ⟨fun hb => hW (by omega) (by omega), ?_⟩
      apply sound_put hs2
      · intro _ h; exact hW (by omega) h
      · intro h; simp at h
    · simp only [hcut, ↓reduceIte]
      by_cases hgt : sc > a
      · simp only [hgt, ↓reduceIte]
        have := ih sc b true st2 hsub' (by omega) hs2
        revert this
        cases abKids rec p d ks sc b true st2 with
        | cut st' => exact id
        | done alpha st' =>
          intro ⟨g1, g2, g3, g4, g5⟩
          refine ⟨by omega, g2, ?_, ?_, g5⟩
          · intro _ hwin
            by_cases he : alpha > sc
            · exact g3 he hwin
            · have : alpha = sc := by omega
              exact hW hgt (by omega)
          · intro hl c hc
            cases hc with
            | head => exact hK (by omega) (by omega)
            | tail _ hc => exact g4 hl c hc
      · simp only [hgt, ↓reduceIte]
        have := ih a b pvs st2 hsub' hab hs2
        revert this
        cases abKids rec p d ks a b pvs st2 with
        | cut st' => exact id
        | done alpha st' =>
          intro ⟨g1, g2, g3, g4, g5⟩
          refine ⟨g1, g2, g3, ?_, g5⟩
          intro hl c hc
          cases hc with
          | head => exact hK (by omega) (by omega)
          | tail _ hc => exact g4 hl c hc


theorem qKids_spec {G : Game P} {rec} (hrec : RecSpec G rec) (p : P) :
    ∀ (ks : List P) (a b : Int) (st : St P),
      (∀ c ∈ ks, c ∈ G.moves p) → a < b → Sound G st.tt →
      match qKids rec ks a b st with
      | .cut st' => (b ≥ WIN → Won G p) ∧ Sound G st'.tt
      | .done alpha st' => a ≤ alpha ∧ alpha < b ∧ (alpha > a → alpha ≥ WIN → Won G p) ∧ Sound G st'.tt := by
  intro ks
  induction ks with
  | nil => intro a b st _ hab hs; simp [qKids]; exact ⟨hab, hs⟩
  | cons k ks ih =>
    intro a b st hsub hab hs
    have hk : k ∈ G.moves p := hsub k List.mem_cons_self
    have hsub' : ∀ c ∈ ks, c ∈ G.moves p := fun c hc => hsub c (List.mem_cons_of_mem _ hc)
    have h := hrec k (-b) (-a) st (by omega) hs
    have hW : -(rec k (-b) (-a) st).1 > a → -(rec k (-b) (-a) st).1 ≥ WIN → Won G p := by
      intro h1 h2; exact Won.some k hk (h.1.2 (by omega) (by unfold WIN LOSS MAXS MINS at *; omega))
    simp only [qKids]
    by_cases hcut : -(rec k (-b) (-a) st).1 ≥ b
    · simp only [hcut, ↓reduceIte]
      exact ⟨fun hb => hW (by omega) (by omega), h.2⟩
    · simp only [hcut, ↓reduceIte]
      by_cases hgt : -(rec k (-b) (-a) st).1 > a
      · simp only [hgt, ↓reduceIte]
        have := ih (-(rec k (-b) (-a) st).1) b (rec k (-b) (-a) st).2 hsub' (by omega) h.2
        revert this
        cases qKids rec ks (-(rec k (-b) (-a) st).1) b (rec k (-b) (-a) st).2 with
        | cut st' => exact id
        | done alpha st' =>
          intro ⟨g1, g2, g3, g5⟩
          refine ⟨by omega, g2, ?_, g5⟩
          intro _ hwin
          by_cases he : alpha > -(rec k (-b) (-a) st).1
          · exact g3 he hwin
          · have : alpha = -(rec k (-b) (-a) st).1 := by omega
            exact hW hgt (by omega)
      · simp only [hgt, ↓reduceIte]
        exact ih a b (rec k (-b) (-a) st).2 hsub' hab h.2

theorem tick_tt (st : St P) : st.tick.tt = st.tt := rfl

theorem quiesce_spec (G : Game P) (ω : Nat → Bool) (hev : ∀ p, LOSS < G.eval p ∧ G.eval p < WIN) :
    ∀ fuel, RecSpec G (quiesce G ω fuel) := by
  intro fuel
  induction fuel with
  | zero => intro c x y st _ hs; simp [quiesce, Claim, hs]; unfold WIN LOSS MAXS MINS; omega
  | succ fuel ih =>
    intro p a b st hab hs
    simp only [quiesce]
    split
    · simp [Claim, tick_tt, hs]; unfold WIN LOSS MAXS MINS; omega
    · have hev' := hev p
      split
      · -- stand-pat cutoff
        refine ⟨⟨?_, ?_⟩, by simpa [tick_tt] using hs⟩
        · intro _ h2; exfalso; omega
        · intro h1; omega
      · rename_i hnc
        have hlt : (if G.eval p > a then G.eval p else a) < b := by split <;> omega
        have hq := qKids_spec ih p (G.caps p) (if G.eval p > a then G.eval p else a) b st.tick
            (fun c hc => G.caps_sub p c hc) hlt (by simpa [tick_tt] using hs)
        revert hq
        cases qKids (quiesce G ω fuel) (G.caps p) (if G.eval p > a then G.eval p else a) b st.tick with
        | cut st' =>
          intro ⟨g1, g2⟩
          dsimp only
          exact ⟨⟨fun _ h => g1 h, fun h _ => by omega⟩, g2⟩
        | done alpha st' =>
          intro ⟨g1, g2, g3, g4⟩
          dsimp only
          refine ⟨⟨?_, ?_⟩, g4⟩
          · intro h1 h2
            apply g3 _ h2
            split at g1 <;> split <;> omega
          · intro _ h2; exfalso
            split at g1 <;> omega

theorem ab_spec (G : Game P) (ω : Nat → Bool) (hev : ∀ p, LOSS < G.eval p ∧ G.eval p < WIN) :
    ∀ fuel depth ply, 1 ≤ ply → ply + fuel ≤ 256 →
      RecSpec G (fun c x y st => ab G ω fuel c x y depth ply st) := by
  intro fuel
  induction fuel with
  | zero => intro d ply _ _ c x y st _ hs; simp [ab, Claim, hs]; unfold WIN LOSS MAXS MINS; omega
  | succ fuel ih =>
    intro depth ply hply hfuel p a0 b0 st hab hs
    simp only [ab]
    split
    · simp [Claim, tick_tt, hs]; unfold WIN LOSS MAXS MINS; omega
    · split
      · simp [Claim, tick_tt, hs]; unfold WIN LOSS MAXS MINS; omega
      · -- after the two oracle ticks the table is unchanged
        have hs2 : Sound G st.tick.tick.tt := by simpa [tick_tt] using hs
        generalize hst : st.tick.tick = st2 at *
        -- analyse the probe
        split
        · -- early return with the entry's score
          rename_i s hprobe
          refine ⟨?_, hs2⟩
          split at hprobe
          · rename_i e he
            have hse := hs2 p e he
            split at hprobe
            · split at hprobe
              · cases hprobe; exact ⟨fun _ h => hse.1 (Or.inl ‹_›) h, fun _ h => hse.2 (Or.inl ‹_›) h⟩
              · split at hprobe
                · cases hprobe
                  refine ⟨fun _ h => hse.1 (Or.inr ‹_›) h, fun h _ => ?_⟩
                  exfalso; omega
                · cases hprobe
              · split at hprobe
                · cases hprobe
                  refine ⟨fun h _ => ?_, fun _ h => hse.2 (Or.inr ‹_›) h⟩
                  exfalso; omega
                · cases hprobe
            · cases hprobe
          · cases hprobe
        · rename_i w hprobe
          -- adjusted window
          have hwin : a0 ≤ (w.map (·.1)).getD a0 ∧ (w.map (·.2)).getD b0 ≤ b0 ∧
              (w.map (·.1)).getD a0 < (w.map (·.2)).getD b0 ∧
              ((w.map (·.1)).getD a0 > a0 → (w.map (·.1)).getD a0 ≥ WIN → Won G p) ∧
              ((w.map (·.2)).getD b0 < b0 → (w.map (·.2)).getD b0 ≤ LOSS → Lost G p) := by
            split at hprobe
            · rename_i e he
              have hse := hs2 p e he
              split at hprobe
              · split at hprobe
                · cases hprobe
                · split at hprobe
                  · cases hprobe
                  · cases hprobe
                    simp only [Option.map_some, Option.getD_some]
                    refine ⟨by omega, by omega, by omega, ?_, by omega⟩
                    intro h1 h2
                    have : max a0 e.score = e.score := by omega
                    exact hse.1 (Or.inr ‹_›) (by omega)
                · split at hprobe
                  · cases hprobe
                  · cases hprobe
                    simp only [Option.map_some, Option.getD_some]
                    refine ⟨by omega, by omega, by omega, by omega, ?_⟩
                    intro h1 h2
                    have : min b0 e.score = e.score := by omega
                    exact hse.2 (Or.inr ‹_›) (by omega)
              · cases hprobe; refine ⟨by simp, by simp, by simpa using hab, by simp, by simp⟩
            · cases hprobe; refine ⟨by simp, by simp, by simpa using hab, by simp, by simp⟩
          generalize (w.map (·.1)).getD a0 = a at *
          generalize (w.map (·.2)).getD b0 = b at *
          obtain ⟨ha, hb, hab', hWa, hLb⟩ := hwin
          generalize hdep : (if G.inCheck p = true then depth + 1 else depth) = dep
          by_cases hd0 : dep = 0
          · -- quiescence
            simp only [hd0, ↓reduceIte]
            have hq := quiesce_spec G ω hev fuel p a b st2 hab' hs2
            refine ⟨⟨?_, ?_⟩, hq.2⟩
            · intro h1 h2
              by_cases h : (quiesce G ω fuel p a b st2).1 > a
              · exact hq.1.1 h h2
              · exact hWa (by omega) (by omega)
            · intro h1 h2
              by_cases h : (quiesce G ω fuel p a b st2).1 < b
              · exact hq.1.2 h h2
              · exact hLb (by omega) (by omega)
          · simp only [hd0, ↓reduceIte]
            by_cases hm : G.moves p = []
            · -- no legal moves
              simp only [hm, ↓reduceIte]
              by_cases hc : G.inCheck p = true
              · simp only [hc, ↓reduceIte]
                refine ⟨⟨?_, ?_⟩, hs2⟩
                · intro _ h; exfalso; unfold WIN MAXS MINS at *; omega
                · intro _ _; exact Lost.mate hm hc
              · simp only [hc]
                refine ⟨⟨?_, ?_⟩, hs2⟩
                · intro _ h; exfalso; unfold WIN MAXS at *; simp at h
                · intro _ h; exfalso; unfold LOSS MINS at *; simp at h
            · simp only [hm, ↓reduceIte]
              have hrec : RecSpec G (fun c x y s => ab G ω fuel c x y (dep - 1) (ply + 1) s) :=
                ih (dep - 1) (ply + 1) (by omega) (by omega)
              have hk := abKids_spec hrec p dep (G.moves p) a b false st2 (fun c hc => hc) hab' hs2
              revert hk
              cases abKids (fun c x y s => ab G ω fuel c x y (dep - 1) (ply + 1) s) p dep (G.moves p) a b false st2 with
              | cut st' =>
                intro ⟨g1, g2⟩
                dsimp only
                refine ⟨⟨fun _ h => g1 h, fun h1 h2 => hLb h1 h2⟩, g2⟩
              | done alpha st' =>
                intro ⟨g1, g2, g3, g4, g5⟩
                dsimp only
                have hW : alpha > a0 → alpha ≥ WIN → Won G p := by
                  intro h1 h2
                  by_cases h : alpha > a
                  · exact g3 h h2
                  · exact hWa (by omega) (by omega)
                have hL : alpha ≤ LOSS → Lost G p := fun h => Lost.all hm (g4 h)
                refine ⟨⟨hW, fun _ h => hL h⟩, ?_⟩
                apply sound_put g5
                · intro hb h
                  simp only at hb h
                  split at hb
                  · simp at hb
                  · exact hW (by omega) h
                · intro _ h; exact hL h

#print axioms ab_spec
end TTP
