-- prototype: every submask of m (below 2^n) is in the computed list `subs`
def subs (m : Nat) : Nat → List Nat
  | 0 => [0]
  | i+1 => let r := subs m i
           if m.testBit i then r ++ r.map (· + 2^i) else r

theorem mem_subs (m : Nat) : ∀ (n x : Nat), x < 2^n → x &&& m = x → x ∈ subs m n := by
  intro n
  induction n with
  | zero => intro x hx _; simp at hx; simp [subs, hx]
  | succ n ih =>
    intro x hx hsub
    simp only [subs]
    by_cases hb : x.testBit n
    · -- top bit set: x = x' + 2^n with x' < 2^n
      have hm : m.testBit n = true := by
        have := congrArg (fun v => v.testBit n) hsub
        simp [Nat.testBit_and, hb] at this
        exact this
      simp only [hm, ↓reduceIte, List.mem_append, List.mem_map]
      right
      refine ⟨x - 2^n, ?_, ?_⟩
      · have hge : 2^n ≤ x := Nat.ge_two_pow_of_testBit hb
        apply ih
        · have : 2^(n+1) = 2^n + 2^n := by rw [Nat.pow_succ]; omega
          omega
        · apply Nat.eq_of_testBit_eq
          intro j
          have hj := congrArg (fun v => v.testBit j) hsub
          simp only [Nat.testBit_and] at hj ⊢
          by_cases hjn : j = n
          · subst hjn
            have : (x - 2^j).testBit j = false := by
              have hlt : x - 2^j < 2^j := by
                have : 2^(j+1) = 2^j + 2^j := by rw [Nat.pow_succ]; omega
                omega
              exact Nat.testBit_lt_two_pow hlt
            simp [this]
          · have hxe : (x - 2^n).testBit j = x.testBit j := by
              have hx2 : x = (x - 2^n) + 2^n := by omega
              by_cases hlt : j < n
              · conv => rhs; rw [hx2]
                rw [Nat.add_comm, Nat.testBit_two_pow_add_gt hlt]
              · have hgt : n < j := by omega
                have h1 : x.testBit j = false := Nat.testBit_lt_two_pow (Nat.lt_of_lt_of_le hx (Nat.pow_le_pow_right (by omega) (by omega)))
                have h2 : (x - 2^n).testBit j = false := Nat.testBit_lt_two_pow (Nat.lt_of_le_of_lt (Nat.sub_le _ _) (Nat.lt_of_lt_of_le hx (Nat.pow_le_pow_right (by omega) (by omega))))
                rw [h1, h2]
            rw [hxe]; exact hj
      · have hge : 2^n ≤ x := Nat.ge_two_pow_of_testBit hb
        omega
    · have hb' : x.testBit n = false := by simpa using hb
      have hlt : x < 2^n := by
        apply Nat.lt_pow_two_of_testBit
        intro i hi
        by_cases hin : i = n
        · subst hin; exact hb'
        · exact Nat.testBit_lt_two_pow (Nat.lt_of_lt_of_le hx (Nat.pow_le_pow_right (by omega) (by omega)))
      have := ih x hlt hsub
      split
      · exact List.mem_append_left _ this
      · exact this
#print axioms mem_subs
example : subs 0b1010 4 = [0, 2, 8, 10] := by decide
