-- prototype: interleaving model of Uci input thread vs search thread (current code)
namespace Conc
inductive Cmd | go (infinite : Bool) | stop | isready deriving DecidableEq, Repr
inductive Pc | spawned | started | printed | stopped | exited deriving DecidableEq, Repr
inductive Out | bestmove | readyok | rejected deriving DecidableEq, Repr

structure St where
  script  : List Cmd
  thread  : Option Pc      -- at most one live search thread (a second go is rejected)
  running : Bool           -- the shared AtomicBool of the current Search
  infinite : Bool
  nodesAfterStop : Nat     -- node steps taken while a stop has been processed for this search
  stopSeen : Bool
  out : List Out
deriving Repr

def init (s : List Cmd) : St := ⟨s, none, false, false, 0, false, []⟩

inductive Lbl | main | search (finish : Bool) deriving DecidableEq, Repr

/-- `startStoresTrue` = current code (Search::search calls self.start()) -/
def step (startStoresTrue : Bool) (s : St) : Lbl → Option St
  | .main => match s.script with
    | [] => none
    | .isready :: r => some { s with script := r, out := s.out ++ [.readyok] }
    | .stop :: r => some { s with script := r, running := if s.thread.isSome then false else s.running,
                                   stopSeen := s.thread.isSome && s.thread != some .exited }
    | .go inf :: r =>
      match s.thread with
      | some pc => if pc != .exited then some { s with script := r, out := s.out ++ [.rejected] }
                   else some { s with script := r, thread := some .spawned, running := true, infinite := inf, stopSeen := false, nodesAfterStop := 0 }
      | none => some { s with script := r, thread := some .spawned, running := true, infinite := inf, stopSeen := false, nodesAfterStop := 0 }
  | .search fin => match s.thread with
    | some .spawned => some { s with thread := some .started, running := if startStoresTrue then true else s.running }
    | some .started =>
        if !s.running || (fin && !s.infinite) then some { s with thread := some .printed, out := s.out ++ [.bestmove] }
        else some { s with nodesAfterStop := if s.stopSeen then s.nodesAfterStop + 1 else s.nodesAfterStop }
    | some .printed => some { s with thread := some .stopped, running := false }
    | some .stopped => some { s with thread := some .exited }
    | _ => none

def run (b : Bool) (s : St) : List Lbl → Option St
  | [] => some s
  | l :: ls => (step b s l).bind (run b · ls)

-- witness: stop processed before the search thread's start() => search keeps running (3 node steps and counting)
theorem stop_lost_witness :
    ((run true (init [.go true, .stop]) [.main, .main, .search false, .search false, .search false, .search false]).map
      (fun s => (s.nodesAfterStop, s.out))) = some (3, []) := by decide
-- with the start() store removed the same schedule prints bestmove at once
theorem stop_honoured_fixed :
    ((run false (init [.go true, .stop]) [.main, .main, .search false, .search false]).map
      (fun s => (s.nodesAfterStop, s.out))) = some (0, [.bestmove]) := by decide
-- witness: go right after bestmove is rejected
theorem go_dropped_witness :
    ((run true (init [.go false, .go false]) [.main, .search true, .search true, .main]).map (·.out))
      = some [.bestmove, .rejected] := by decide
end Conc
