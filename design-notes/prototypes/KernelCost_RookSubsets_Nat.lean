-- feasibility: kernel evaluation of rook magic table check for one square
namespace Exp

abbrev BB := Nat  -- always kept < 2^64

def M64 : Nat := 2^64
def fileA : Nat := 0x0101010101010101
def fileH : Nat := 0x8080808080808080
def rank1 : Nat := 0xff
def rank8 : Nat := 0xff00000000000000

def shl (a n : Nat) : Nat := (a <<< n) % M64
def bnot (a : Nat) : Nat := M64 - 1 - a

def rayN (i : Nat) : Nat := shl 0x0101010101010100 i
def rayS (i : Nat) : Nat := 0x0080808080808080 >>> (63 - i)
def rayE (i : Nat) : Nat := 2 * ((1 <<< (i ||| 7)) - (1 <<< i))
def rayW (i : Nat) : Nat := (1 <<< i) - (1 <<< (i &&& 56))

def rookMask (i : Nat) : Nat :=
  (rayN i &&& bnot rank8) ||| (rayE i &&& bnot fileH) ||| (rayS i &&& bnot rank1) ||| (rayW i &&& bnot fileA)

def ctz (fuel : Nat) (x : Nat) (acc : Nat) : Nat :=
  match fuel with
  | 0 => acc
  | f+1 => if x % 2 == 1 then acc else ctz f (x / 2) (acc+1)

def bsf (x : Nat) : Nat := ctz 64 x 0
def bsr (x : Nat) : Nat := Nat.log2 x

def slow (sq occ : Nat) : Nat :=
  let n := rayN sq; let e := rayE sq; let s := rayS sq; let w := rayW sq
  let a := n ||| e ||| s ||| w
  let a := if n &&& occ != 0 then a &&& bnot (rayN (bsf (n &&& occ))) else a
  let a := if e &&& occ != 0 then a &&& bnot (rayE (bsf (e &&& occ))) else a
  let a := if s &&& occ != 0 then a &&& bnot (rayS (bsr (s &&& occ))) else a
  let a := if w &&& occ != 0 then a &&& bnot (rayW (bsr (w &&& occ))) else a
  a

-- blockers from index: deposit bits of idx into mask positions
def pdep (fuel : Nat) (idx mask : Nat) (acc : Nat) : Nat :=
  match fuel with
  | 0 => acc
  | f+1 =>
    if mask == 0 then acc else
    let low := mask &&& (mask ^^^ (mask - 1))  -- lowest set bit
    let acc := if idx % 2 == 1 then acc ||| low else acc
    pdep f (idx / 2) (mask &&& (mask - 1)) acc

def magicA1 : Nat := 0xa8002c000108020
def hash (magic bits b : Nat) : Nat := ((b * magic) % M64) >>> (64 - bits)

def loopAll (n : Nat) (f : Nat → Bool) : Bool :=
  match n with
  | 0 => true
  | k+1 => f k && loopAll k f

def checkBase (sq magic bits : Nat) : Bool :=
  loopAll (2^bits) fun idx =>
    let b := pdep 64 idx (rookMask sq) 0
    (hash magic bits b) < 4096 && slow sq b != 0
end Exp
open Exp
set_option maxRecDepth 100000 in
theorem base_ok : checkBase 0 magicA1 12 = true := by decide +kernel
