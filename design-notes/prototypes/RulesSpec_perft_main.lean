import RulesProto
open Rules
def cases : List (String × String × List Nat) := [
  ("start", "rnbqkbnr/pppppppp/8/8/8/8/PPPPPPPP/RNBQKBNR w KQkq - 0 1", [20, 400, 8902, 197281]),
  ("kiwipete", "r3k2r/p1ppqpb1/bn2pnp1/3PN3/1p2P3/2N2Q1p/PPPBBPPP/R3K2R w KQkq - 0 1", [48, 2039, 97862]),
  ("pos3", "8/2p5/3p4/KP5r/1R3p1k/8/4P1P1/8 w - - 0 1", [14, 191, 2812, 43238]),
  ("pos4", "r3k2r/Pppp1ppp/1b3nbN/nP6/BBP1P3/q4N2/Pp1P2PP/R2Q1RK1 w kq - 0 1", [6, 264, 9467]),
  ("pos5", "rnbq1k1r/pp1Pbppp/2p5/8/2B5/8/PPP1NnPP/RNBQK2R w KQ - 1 8", [44, 1486, 62379]),
  ("pos6", "r4rk1/1pp1qppp/p1np1n2/2b1p1B1/2B1P1b1/P1NP1N2/1PP1QPPP/R4RK1 w - - 0 10", [46, 2079, 89890])]
def main : IO Unit := do
  for (name, fen, exp) in cases do
    let p := ofFen fen
    let mut d := 1
    for e in exp do
      let t0 ← IO.monoMsNow
      let n := perft p d
      let t1 ← IO.monoMsNow
      IO.println s!"{name} perft {d} = {n} expected {e} {if n == e then "OK" else "MISMATCH"} ({t1 - t0} ms)"
      d := d + 1
