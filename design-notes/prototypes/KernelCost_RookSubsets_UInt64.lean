namespace ExpU
abbrev BB := UInt64
def fileA : BB := 0x0101010101010101
def fileH : BB := 0x8080808080808080
def rank1 : BB := 0xff
def rank8 : BB := 0xff00000000000000

def rayN (i : BB) : BB := (0x0101010101010100 : BB) <<< i
def rayS (i : BB) : BB := (0x0080808080808080 : BB) >>> (63 - i)
def rayE (i : BB) : BB := 2 * (((1:BB) <<< (i ||| 7)) - ((1:BB) <<< i))
def rayW (i : BB) : BB := ((1:BB) <<< i) - ((1:BB) <<< (i &&& 56))

def rookMask (i : BB) : BB :=
  (rayN i &&& ~~~ rank8) ||| (rayE i &&& ~~~ fileH) ||| (rayS i &&& ~~~ rank1) ||| (rayW i &&& ~~~ fileA)

def ctz (fuel : Nat) (x : BB) (acc : BB) : BB :=
  match fuel with
  | 0 => acc
  | f+1 => if x &&& 1 == 1 then acc else ctz f (x >>> 1) (acc+1)
def bsf (x : BB) : BB := ctz 64 x 0
def bsr (x : BB) : BB := (Nat.log2 x.toNat).toUInt64

def slow (sq occ : BB) : BB :=
  let n := rayN sq; let e := rayE sq; let s := rayS sq; let w := rayW sq
  let a := n ||| e ||| s ||| w
  let a := if n &&& occ != 0 then a &&& ~~~ (rayN (bsf (n &&& occ))) else a
  let a := if e &&& occ != 0 then a &&& ~~~ (rayE (bsf (e &&& occ))) else a
  let a := if s &&& occ != 0 then a &&& ~~~ (rayS (bsr (s &&& occ))) else a
  let a := if w &&& occ != 0 then a &&& ~~~ (rayW (bsr (w &&& occ))) else a
  a

def pdep (fuel : Nat) (idx mask : BB) (acc : BB) : BB :=
  match fuel with
  | 0 => acc
  | f+1 =>
    if mask == 0 then acc else
    let low := mask &&& (mask ^^^ (mask - 1))
    let acc := if idx &&& 1 == 1 then acc ||| low else acc
    pdep f (idx >>> 1) (mask &&& (mask - 1)) acc

def magicA1 : BB := 0xa8002c000108020
def hash (magic bits b : BB) : BB := (b * magic) >>> (64 - bits)

def loopAll (n : Nat) (f : Nat → Bool) : Bool :=
  match n with
  | 0 => true
  | k+1 => f k && loopAll k f

def checkBase (sq magic bits : BB) (n : Nat) : Bool :=
  loopAll n fun idx =>
    let b := pdep 64 idx.toUInt64 (rookMask sq) 0
    (hash magic bits b) < 4096 && slow sq b != 0
end ExpU
open ExpU
set_option maxRecDepth 100000 in
theorem base_ok : checkBase 0 magicA1 12 512 = true := by decide +kernel
