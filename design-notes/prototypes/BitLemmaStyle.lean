theorem t1 (x m : BitVec 64) (h : x &&& m = m) : (x &&& ~~~m) ||| m = x := by
  ext i hi
  have := congrArg (fun v => v.getLsbD i) h
  simp at this ⊢
  cases hx : x.getLsbD i <;> cases hm : m.getLsbD i <;> simp_all

theorem t1u (x m : UInt64) (h : x &&& m = m) : (x &&& ~~~m) ||| m = x := by
  have h' : x.toBitVec &&& m.toBitVec = m.toBitVec := by
    simpa using congrArg UInt64.toBitVec h
  apply UInt64.toBitVec_inj.mp
  simp
  exact t1 _ _ h'

theorem t2 (x m : BitVec 64) (h : x &&& m = 0) : (x ||| m) &&& ~~~m = x := by
  ext i hi
  have := congrArg (fun v => v.getLsbD i) h
  simp at this ⊢
  cases hx : x.getLsbD i <;> cases hm : m.getLsbD i <;> simp_all

theorem x1 (a b c : UInt64) : (a ^^^ b) ^^^ b = a := by
  simp [UInt64.xor_assoc]

#print axioms t1
#print axioms t1u
