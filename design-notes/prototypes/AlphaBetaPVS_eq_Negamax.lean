-- prototype: fail-hard alpha-beta with PVS re-search vs negamax on abstract trees
inductive T where
  | leaf (v : Int) : T
  | inner (k : T) (kids : List T) : T
  | quiet (stand : Int) (kids : List T) : T

namespace T

mutual
def val : T → Int
  | leaf v => v
  | inner k ks => valKids ks (- val k)
  | quiet s ks => valKids ks s
def valKids : List T → Int → Int
  | [], acc => acc
  | k :: ks, a => valKids ks (max a (- val k))
end

mutual
def ab : T → Int → Int → Int
  | leaf v, _, _ => v
  | inner k ks, a, b => abKids (k :: ks) a b false
  | quiet s ks, a, b => if s ≥ b then b else qKids ks (max a s) b
def abKids : List T → Int → Int → Bool → Int
  | [], a, _, _ => a
  | k :: ks, a, b, pvs =>
    let sc0 := if pvs then - ab k (-a - 1) (-a) else - ab k (-b) (-a)
    let sc := if pvs && (a < sc0 && sc0 < b) then - ab k (-b) (-a) else sc0
    if sc ≥ b then b
    else if sc > a then abKids ks sc b true
    else abKids ks a b pvs
def qKids : List T → Int → Int → Int
  | [], a, _ => a
  | k :: ks, a, b =>
    let sc := - ab k (-b) (-a)
    if sc ≥ b then b
    else if sc > a then qKids ks sc b
    else qKids ks a b
end

/-- the bound invariant for a returned value r under window (a,b) -/
def Good (v a b r : Int) : Prop :=
  (r ≤ a → v ≤ r) ∧ (r ≥ b → v ≥ r) ∧ (a < r ∧ r < b → v = r)

theorem valKids_ge (ks : List T) (a : Int) : a ≤ valKids ks a := by
  induction ks generalizing a with
  | nil => simp [valKids]
  | cons k ks ih => simp only [valKids]; have := ih (max a (- val k)); omega

mutual
theorem ab_good : ∀ (t : T) (a b : Int), a < b → Good (val t) a b (ab t a b)
  | leaf v, a, b, h => by simp [ab, val, Good]
  | inner k ks, a, b, h => by
      have := abKids_eq (k :: ks) a b false h
      simp only [ab, val]
      rw [this]
      simp only [valKids]
      have hge := valKids_ge ks (max a (- val k))
      -- val = valKids ks (-val k); relation between valKids ks (max a x) and valKids ks x
      have hrel := valKids_max ks a (- val k)
      unfold Good; omega
  | quiet s ks, a, b, h => by
      simp only [ab, val]
      split
      · have := valKids_ge ks s; unfold Good; omega
      · have hlt : max a s < b := by omega
        have := qKids_eq ks (max a s) b hlt
        rw [this]
        have hrel := valKids_max ks a s
        have hge := valKids_ge ks (max a s)
        unfold Good; omega
theorem abKids_eq : ∀ (ks : List T) (a b : Int) (pvs : Bool), a < b →
    abKids ks a b pvs = min b (valKids ks a)
  | [], a, b, pvs, h => by simp [abKids, valKids]; omega
  | k :: ks, a, b, pvs, h => by
      have g1 := ab_good k (-b) (-a) (by omega)
      have g0 := ab_good k (-a - 1) (-a) (by omega)
      have hge := fun x => valKids_ge ks x
      simp only [abKids, valKids]
      unfold Good at g0 g1
      cases pvs
      · simp only [Bool.false_eq_true, ↓reduceIte, Bool.false_and]
        split
        · have := hge (max a (- val k)); omega
        · split
          · have : max a (- val k) = - ab k (-b) (-a) := by omega
            rw [this]; exact abKids_eq ks _ b true (by omega)
          · have : max a (- val k) = a := by omega
            rw [this]; exact abKids_eq ks a b false h
      · simp only [↓reduceIte, Bool.true_and]
        split
        · -- re-search happened
          rename_i hc
          simp only [Bool.and_eq_true, decide_eq_true_eq] at hc
          split
          · have := hge (max a (- val k)); omega
          · split
            · have : max a (- val k) = - ab k (-b) (-a) := by omega
              rw [this]; exact abKids_eq ks _ b true (by omega)
            · have : max a (- val k) = a := by omega
              rw [this]; exact abKids_eq ks a b true h
        · rename_i hc
          simp only [Bool.and_eq_true, decide_eq_true_eq, not_and, Int.not_lt] at hc
          split
          · have := hge (max a (- val k)); omega
          · split
            · have : max a (- val k) = - ab k (-a - 1) (-a) := by omega
              rw [this]; exact abKids_eq ks _ b true (by omega)
            · have : max a (- val k) = a := by omega
              rw [this]; exact abKids_eq ks a b true h
theorem qKids_eq : ∀ (ks : List T) (a b : Int), a < b →
    qKids ks a b = min b (valKids ks a)
  | [], a, b, h => by simp [qKids, valKids]; omega
  | k :: ks, a, b, h => by
      have g1 := ab_good k (-b) (-a) (by omega)
      have hge := fun x => valKids_ge ks x
      simp only [qKids, valKids]
      unfold Good at g1
      split
      · have := hge (max a (- val k)); omega
      · split
        · have : max a (- val k) = - ab k (-b) (-a) := by omega
          rw [this]; exact qKids_eq ks _ b (by omega)
        · have : max a (- val k) = a := by omega
          rw [this]; exact qKids_eq ks a b h
theorem valKids_max : ∀ (ks : List T) (a x : Int), valKids ks (max a x) = max a (valKids ks x)
  | [], a, x => by simp [valKids]
  | k :: ks, a, x => by
      simp only [valKids]
      have : max (max a x) (- val k) = max a (max x (- val k)) := by omega
      rw [this]; exact valKids_max ks a _
end

end T
#print axioms T.ab_good
#print axioms T.abKids_eq
theorem T.root_exact (k : T) (ks : List T) (lo hi : Int) (h : lo < hi)
   (hv : lo < (T.inner k ks).val ∧ (T.inner k ks).val < hi) :
   T.ab (T.inner k ks) lo hi = (T.inner k ks).val := by
  have := T.ab_good (T.inner k ks) lo hi h
  unfold T.Good at this; omega
