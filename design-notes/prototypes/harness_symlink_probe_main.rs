#![allow(dead_code, unused_imports, clippy::all)]
#[macro_use]
extern crate strum_macros;
extern crate derive_more;
mod bench; mod board; mod evaluate; mod logger; mod search; mod uci;
use board::Board;
fn main() {
    let mut b = Board::default();
    for m in ["g1f3","g8f6","f3g1","f6g8"] { let p = b.find_move(m).unwrap(); b.make_move(p); }
    let k = b.zkey;
    let snap = b.clone();
    println!("reached before: {}", b.position_reached(k));
    let _ = b.get_legal_moves();
    println!("reached after get_legal_moves: {}  equal={}", b.position_reached(k), b == snap);
    // ep from FEN then make/unmake
    let mut c = Board::from_fen("rnbqkbnr/ppp1pppp/8/8/3pP3/8/PPPP1PPP/RNBQKBNR b KQkq e3 0 3");
    let s2 = c.clone();
    let mv = c.get_legal_moves();
    println!("ep fen: {} moves, equal after={}", mv.len(), c == s2);
    println!("{:?}", mv.iter().filter(|m| m.en_passant).map(|m| m.to_notation()).collect::<Vec<_>>());
}
