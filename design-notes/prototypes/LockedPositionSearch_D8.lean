import RulesProto
open Rules
/-! random local search for a position where the side to move (white) has NO pseudo-legal move -/

structure Rng where s : UInt64
def Rng.next (r : Rng) : Rng × UInt64 :=
  let x := r.s
  let x := x ^^^ (x <<< 13); let x := x ^^^ (x >>> 7); let x := x ^^^ (x <<< 17)
  (⟨x⟩, x)
def Rng.below (r : Rng) (n : Nat) : Rng × Nat := let (r, x) := r.next; (r, x.toNat % n)

def countKind (b : Array (Option Piece)) (c : Color) (k : Kind) : Nat :=
  b.foldl (fun n o => if o == some ⟨c, k⟩ then n + 1 else n) 0

def bishopsOk (b : Array (Option Piece)) (c : Color) : Bool :=
  let sqs := (List.range 64).filter fun s => b.getD s none == some ⟨c, .bishop⟩
  match sqs with
  | [] => true | [_] => true
  | [x, y] => ((x % 8 + x / 8) % 2) != ((y % 8 + y / 8) % 2)
  | _ => false

def valid (p : Pos) : Bool :=
  let b := p.board
  countKind b .white .king == 1 && countKind b .black .king == 1 &&
  countKind b .white .pawn ≤ 8 && countKind b .black .pawn ≤ 8 &&
  countKind b .white .queen ≤ 1 && countKind b .black .queen ≤ 1 &&
  countKind b .white .rook ≤ 2 && countKind b .black .rook ≤ 2 &&
  countKind b .white .knight ≤ 2 && countKind b .black .knight ≤ 2 &&
  bishopsOk b .white && bishopsOk b .black &&
  (List.range 8).all (fun f => (b.getD f none).map (·.kind) != some .pawn && (b.getD (56+f) none).map (·.kind) != some .pawn) &&
  !inCheck p .black

def mkPos (b : Array (Option Piece)) : Pos :=
  { board := b, turn := .white, wk := false, wq := false, bk := false, bq := false, ep := none, half := 0, full := 40 }

def cost (p : Pos) : Nat := (pseudoMoves p).length

def kinds : Array Kind := #[.pawn, .pawn, .pawn, .knight, .bishop, .rook, .queen]

def mutate (r : Rng) (b : Array (Option Piece)) : Rng × Array (Option Piece) :=
  let (r, t) := r.below 5
  let (r, s) := r.below 64
  match t with
  | 0 => (r, b.setIfInBounds s none)                                   -- clear
  | 1 => let (r, k) := r.below kinds.size; (r, b.setIfInBounds s (some ⟨.white, kinds[k]!⟩))
  | 2 => let (r, k) := r.below kinds.size; (r, b.setIfInBounds s (some ⟨.black, kinds[k]!⟩))
  | _ => -- move a piece to another square
    let (r, d) := r.below 64
    let x := b.getD s none
    if x.isNone then (r, b) else (r, (b.setIfInBounds s (b.getD d none)).setIfInBounds d x)

partial def anneal (r : Rng) (b : Array (Option Piece)) (c : Nat) (iters : Nat) (best : Nat) : IO (Option (Array (Option Piece))) := do
  if c == 0 then return some b
  if iters == 0 then return none
  let (r, b') := mutate r b
  let p' := mkPos b'
  if !valid p' then anneal r b c (iters - 1) best
  else
    let c' := cost p'
    let (r, x) := r.below 1000
    -- accept improvements, and sometimes small regressions
    if c' ≤ c || (c' ≤ c + 1 && x < 60) then anneal r b' c' (iters - 1) (min best c')
    else anneal r b c (iters - 1) best

def render (b : Array (Option Piece)) : String := Id.run do
  let mut out := ""
  for rr in [0:8] do
    let r := 7 - rr
    let mut empties := 0
    for f in [0:8] do
      match b.getD (r*8+f) none with
      | none => empties := empties + 1
      | some pc =>
        if empties > 0 then out := out ++ toString empties; empties := 0
        let ch := match pc.kind with | .pawn => 'p' | .knight => 'n' | .bishop => 'b' | .rook => 'r' | .queen => 'q' | .king => 'k'
        out := out.push (if pc.color == .white then ch.toUpper else ch)
    if empties > 0 then out := out ++ toString empties
    if r > 0 then out := out.push '/'
  return out ++ " w - - 0 40"

def main (args : List String) : IO Unit := do
  let seed := (args.head? >>= String.toNat?).getD 1
  let tries := (args.getD 1 "20").toNat!
  for t in [0:tries] do
    let start := (ofFen "7k/8/8/8/8/8/8/K7 w - - 0 1").board
    let res ← anneal ⟨(seed * 1000003 + t * 7919 + 88172645463325252).toUInt64⟩ start (cost (mkPos start)) 400000 1000
    match res with
    | some b => IO.println s!"FOUND: {render b}  pseudo={(pseudoMoves (mkPos b)).length} legal={(legalMoves (mkPos b)).length} incheck={inCheck (mkPos b) .white}"
    | none => pure ()
