-- prototype: "last writer wins + no destructive collision" lemma for magic table fill
def fillL (h v : Nat → Nat) (l : List Nat) (t : Array Nat) : Array Nat :=
  l.foldl (fun t i => t.set! (h i) (v i)) t

theorem fillL_size (h v : Nat → Nat) (l : List Nat) (t : Array Nat) : (fillL h v l t).size = t.size := by
  induction l generalizing t with
  | nil => rfl
  | cons a l ih => simp [fillL, List.foldl] at *; rw [ih]; simp

theorem fillL_get (h v : Nat → Nat) (l : List Nat) (t : Array Nat)
    (hb : ∀ i ∈ l, h i < t.size)
    (hc : ∀ i ∈ l, ∀ j ∈ l, h i = h j → v i = v j) :
    ∀ i ∈ l, (fillL h v l t)[h i]! = v i := by
  induction l generalizing t with
  | nil => intro i hi; cases hi
  | cons a l ih =>
    intro i hi
    simp only [fillL, List.foldl]
    have hb' : ∀ i ∈ l, h i < (t.set! (h a) (v a)).size := by
      intro i hi; simp; exact hb i (List.mem_cons_of_mem _ hi)
    have hc' : ∀ i ∈ l, ∀ j ∈ l, h i = h j → v i = v j :=
      fun i hi j hj => hc i (List.mem_cons_of_mem _ hi) j (List.mem_cons_of_mem _ hj)
    by_cases hil : i ∈ l
    · exact ih _ hb' hc' i hil
    · -- i = a and no later writer... need: later writers with same hash have same value, else untouched
      have hia : i = a := by cases hi with | head => rfl | tail _ h' => exact absurd h' hil
      subst hia
      -- general fact: result at slot k is either v j for some j ∈ l with h j = k, or the initial slot
      have key : ∀ (l : List Nat) (t : Array Nat) (k : Nat),
          (∃ j ∈ l, h j = k ∧ (fillL h v l t)[k]! = v j) ∨ (fillL h v l t)[k]! = t[k]! := by
        intro l
        induction l with
        | nil => intro t k; right; rfl
        | cons b l ih2 =>
          intro t k
          simp only [fillL, List.foldl]
          rcases ih2 (t.set! (h b) (v b)) k with ⟨j, hj, hjk, hv⟩ | hr
          · left; exact ⟨j, List.mem_cons_of_mem _ hj, hjk, hv⟩
          · by_cases hbk : h b = k
            · by_cases hlt : k < t.size
              · left; refine ⟨b, List.mem_cons_self, hbk, ?_⟩
                simp only [fillL] at hr; rw [hr]; subst hbk; simp [hlt]
              · right; simp only [fillL] at hr; rw [hr]; subst hbk
                simp [Array.set!, Array.setIfInBounds, hlt]
            · right; simp only [fillL] at hr; rw [hr]
              simp [Array.set!, Array.getElem!_eq_getD, Array.getD_eq_getD_getElem?, Array.getElem?_setIfInBounds, hbk]
      rcases key l (t.set! (h i) (v i)) (h i) with ⟨j, hj, hjk, hv⟩ | hr
      · simp only [fillL] at hv; rw [hv]
        exact (hc i List.mem_cons_self j (List.mem_cons_of_mem _ hj) hjk.symm).symm
      · simp only [fillL] at hr; rw [hr]
        have := hb i List.mem_cons_self
        simp [this]
#print axioms fillL_get
