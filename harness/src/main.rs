//! Correspondence harness: compiles the engine's own modules (symlinked from /repo/src) in-process
//! with `--cfg rce_verif` and emits one line per operation / observation for the Lean driver.
#![allow(dead_code, unused_imports, clippy::all, clippy::pedantic, clippy::nursery)]
#[macro_use]
extern crate strum_macros;
extern crate derive_more;

mod bench;
mod board;
mod evaluate;
mod logger;
mod search;
mod uci;

mod hx;

pub fn bench_fens() -> Vec<&'static str> {
    Vec::new()
}

fn main() {
    let args: Vec<String> = std::env::args().collect();
    let cmd = args.get(1).map(String::as_str).unwrap_or("");
    let rest: Vec<String> = args.iter().skip(2).cloned().collect();
    match cmd {
        "zobrist" => hx::tables::zobrist(),
        "tables" => hx::tables::tables(&rest),
        "walk" => hx::walk::walk(&rest),
        "fen" => hx::walk::fen_stream(&rest),
        "search" => hx::searchx::search_stream(&rest),
        "uci" => hx::ucix::uci_stream(&rest),
        "seedcheck" => hx::walk::seedcheck(),
        _ => {
            eprintln!("usage: rce_harness zobrist|tables|walk|fen|search|uci ...");
            std::process::exit(2);
        }
    }
}
