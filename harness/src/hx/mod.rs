pub mod searchx;
pub mod tables;
pub mod ucix;
pub mod walk;

use crate::board::piece::{Color, Kind};
use crate::board::square::Square;
use crate::board::{Board, Ply};

/// splitmix64: every random choice of the harness derives from one seed
pub struct Rng(pub u64);
impl Rng {
    pub fn next(&mut self) -> u64 {
        self.0 = self.0.wrapping_add(0x9E37_79B9_7F4A_7C15);
        let mut z = self.0;
        z = (z ^ (z >> 30)).wrapping_mul(0xBF58_476D_1CE4_E5B9);
        z = (z ^ (z >> 27)).wrapping_mul(0x94D0_49BB_1331_11EB);
        z ^ (z >> 31)
    }
    pub fn below(&mut self, n: u64) -> u64 {
        if n == 0 {
            0
        } else {
            self.next() % n
        }
    }
}

pub fn arg<T: std::str::FromStr>(args: &[String], name: &str, default: T) -> T {
    let key = format!("--{name}");
    args.iter()
        .position(|a| *a == key)
        .and_then(|i| args.get(i + 1))
        .and_then(|v| v.parse().ok())
        .unwrap_or(default)
}

pub fn arg_str(args: &[String], name: &str) -> Option<String> {
    let key = format!("--{name}");
    args.iter().position(|a| *a == key).and_then(|i| args.get(i + 1)).cloned()
}

pub const KINDS: [fn(Color) -> Kind; 6] = [
    Kind::Pawn,
    Kind::King,
    Kind::Queen,
    Kind::Rook,
    Kind::Bishop,
    Kind::Knight,
];

pub fn kind_of_code(code: usize) -> Kind {
    let c = if code < 6 { Color::White } else { Color::Black };
    KINDS[code % 6](c)
}

pub fn kind_code(k: Kind) -> usize {
    usize::from(k.get_color()) * 6 + usize::from(k)
}

/// `start:dest:piece:captured:promoted:flags` (no clock / rights: those belong to the undo record)
pub fn move_fields(p: &Ply) -> String {
    let oc = |k: Option<Kind>| k.map_or("-".to_string(), |k| kind_code(k).to_string());
    format!(
        "{}:{}:{}:{}:{}:{}{}{}",
        p.start.u8(),
        p.dest.u8(),
        kind_code(p.piece),
        oc(p.captured_piece),
        oc(p.promoted_to),
        u8::from(p.is_castles),
        u8::from(p.en_passant),
        u8::from(p.is_double_pawn_push)
    )
}

/// FEN of a board, rendered by the harness through the public accessors only
pub fn render_fen(b: &Board) -> String {
    use crate::board::ply::castling::{CastlingKind, CastlingStatus};
    let mut s = String::new();
    for rank in (0..8u8).rev() {
        let mut empty = 0;
        for file in 0..8u8 {
            match b.get_piece(Square { rank, file }) {
                None => empty += 1,
                Some(k) => {
                    if empty > 0 {
                        s.push_str(&empty.to_string());
                        empty = 0;
                    }
                    let ch = match usize::from(k) {
                        0 => 'p',
                        1 => 'k',
                        2 => 'q',
                        3 => 'r',
                        4 => 'b',
                        _ => 'n',
                    };
                    s.push(if k.get_color() == Color::White { ch.to_ascii_uppercase() } else { ch });
                }
            }
        }
        if empty > 0 {
            s.push_str(&empty.to_string());
        }
        if rank > 0 {
            s.push('/');
        }
    }
    s.push(' ');
    s.push(if b.current_turn == Color::White { 'w' } else { 'b' });
    s.push(' ');
    let mut c = String::new();
    if b.castle_status(CastlingKind::WhiteKingside) == CastlingStatus::Available {
        c.push('K');
    }
    if b.castle_status(CastlingKind::WhiteQueenside) == CastlingStatus::Available {
        c.push('Q');
    }
    if b.castle_status(CastlingKind::BlackKingside) == CastlingStatus::Available {
        c.push('k');
    }
    if b.castle_status(CastlingKind::BlackQueenside) == CastlingStatus::Available {
        c.push('q');
    }
    if c.is_empty() {
        c.push('-');
    }
    s.push_str(&c);
    s.push(' ');
    match crate::board::verif::en_passant_file(b) {
        None => s.push('-'),
        Some(f) => {
            s.push((b'a' + f) as char);
            s.push(if b.current_turn == Color::White { '6' } else { '3' });
        }
    }
    s.push_str(&format!(" {} {}", b.get_halfmove_clock(), b.fullmove_counter));
    s
}

/// FEN placement field of a 64-square grid (index = rank * 8 + file, rank 0 = first rank)
pub fn grid_placement(grid: &[Option<char>; 64]) -> String {
    let mut fen = String::new();
    for rank in (0..8).rev() {
        let mut e = 0;
        for file in 0..8 {
            match grid[rank * 8 + file] {
                None => e += 1,
                Some(c) => {
                    if e > 0 {
                        fen.push_str(&e.to_string());
                        e = 0;
                    }
                    fen.push(c);
                }
            }
        }
        if e > 0 {
            fen.push_str(&e.to_string());
        }
        if rank > 0 {
            fen.push('/');
        }
    }
    fen
}
