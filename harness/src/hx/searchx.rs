use super::*;
pub fn search_stream(_args: &[String]) {}
