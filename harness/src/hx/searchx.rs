//! `search`: runs the real `Search::search` in-process under deterministic limits and emits everything
//! observable: the engine's own info / bestmove lines, every cache insert seen by the observer hook,
//! the final counters and a checksum of the cache.
use super::*;
use crate::board::transposition_table::{Bounds, TTEntry, TRANSPOSITION_TABLE};
use crate::board::verif as bv;
use crate::evaluate::simple_evaluator::SimpleEvaluator;
use crate::search::limits::SearchLimits;
use crate::search::verif as sv;
use crate::search::Search;
use std::sync::atomic::Ordering;

fn bound_code(b: Bounds) -> u64 {
    match b {
        Bounds::Exact => 0,
        Bounds::Lower => 1,
        Bounds::Upper => 2,
    }
}

fn ply_hash(p: &Ply) -> u64 {
    let oc = |k: Option<Kind>| k.map_or(12u64, |k| kind_code(k) as u64);
    let mut h: u64 = u64::from(p.start.u8());
    h = h * 64 + u64::from(p.dest.u8());
    h = h * 13 + kind_code(p.piece) as u64;
    h = h * 13 + oc(p.captured_piece);
    h = h * 13 + oc(p.promoted_to);
    h = h * 8 + u64::from(p.is_castles) * 4 + u64::from(p.en_passant) * 2 + u64::from(p.is_double_pawn_push);
    h
}

fn entry_hash(key: u64, e: &TTEntry) -> u64 {
    let mut h = key;
    h = h.wrapping_mul(0x100_0000_01B3).wrapping_add((i64::from(e.score) + 32768) as u64);
    h = h.wrapping_mul(0x100_0000_01B3).wrapping_add(u64::from(e.depth));
    h = h.wrapping_mul(0x100_0000_01B3).wrapping_add(bound_code(e.bound));
    h = h.wrapping_mul(0x100_0000_01B3).wrapping_add(ply_hash(&e.best_ply));
    h
}

fn tt_summary() -> (usize, u64) {
    let tt = TRANSPOSITION_TABLE.read().unwrap();
    let mut sum = 0u64;
    for (k, e) in tt.iter() {
        sum = sum.wrapping_add(entry_hash(bv::key_u64(*k), e));
    }
    (tt.len(), sum)
}

pub struct Case {
    pub fen: String,
    pub moves: Vec<String>,
    pub depth: u8,
    pub nodes: Option<u64>,
    pub stop: u64,
    pub cache: &'static str, // fresh | keep | off
    pub tag: String,
    /// time limits `[wtime, btime, winc, binc, movetime]` (ms) and the virtual-clock divisor (0 = the real clock, no time limits)
    pub tc: [Option<u64>; 5],
    pub vdiv: u64,
}

pub const NO_TC: [Option<u64>; 5] = [None; 5];
const TC_NAMES: [&str; 5] = ["wtime", "btime", "winc", "binc", "movetime"];

pub fn setup_board(fen: &str, moves: &[String]) -> Option<Board> {
    let mut b = Board::from_fen(fen);
    for m in moves {
        let p = b.find_move(m).ok()?;
        b.make_move(p);
    }
    Some(b)
}

pub fn run_case(c: &Case) {
    let _ = run_case_best(c);
}

/// a silent run with a node limit: does the engine need more than `cap` nodes for this depth with the cache neutralised?
/// (used only to drop cases that are too heavy for a stream; nothing of the run is compared)
fn heavier_than(fen: &str, depth: u8, cap: u64) -> bool {
    heavier_than_with(fen, depth, cap, true)
}

fn heavier_than_with(fen: &str, depth: u8, cap: u64, cache_off: bool) -> bool {
    let Some(board) = setup_board(fen, &[]) else {
        return true;
    };
    println!("S calibration probe");
    TRANSPOSITION_TABLE.write().unwrap().clear();
    sv::CACHE_OFF.store(cache_off, Ordering::Relaxed);
    sv::STOP_AT_POLL.store(u64::MAX, Ordering::Relaxed);
    *sv::RECORDER.lock().unwrap() = None;
    let limits = SearchLimits::new().nodes(Some(cap)).depth(Some(depth));
    let mut search = Search::new(&board, Some(limits));
    let _ = std::panic::catch_unwind(std::panic::AssertUnwindSafe(|| {
        search.search(&SimpleEvaluator, Some(depth));
    }));
    sv::STOP_AT_POLL.store(0, Ordering::Relaxed);
    sv::CACHE_OFF.store(false, Ordering::Relaxed);
    TRANSPOSITION_TABLE.write().unwrap().clear();
    println!("X calibration-end");
    search.get_nodes() >= cap
}

pub fn run_case_best(c: &Case) -> Option<Ply> {
    println!(
        "S fen=[{}] moves=[{}] depth={} nodes={} stop={} cache={}{}",
        c.fen,
        c.moves.join(" "),
        c.depth,
        c.nodes.map_or("-".to_string(), |n| n.to_string()),
        c.stop,
        c.cache,
        {
            let mut t = String::new();
            if c.vdiv > 0 {
                for (i, n) in TC_NAMES.iter().enumerate() {
                    if let Some(v) = c.tc[i] {
                        t.push_str(&format!(" {n}={v}"));
                    }
                }
                t.push_str(&format!(" vdiv={}", c.vdiv));
            }
            if !c.tag.is_empty() {
                t.push_str(&format!(" {}", c.tag));
            }
            t
        }
    );
    let Some(board) = setup_board(&c.fen, &c.moves) else {
        println!("X bad-case");
        return None;
    };
    if c.cache != "keep" {
        TRANSPOSITION_TABLE.write().unwrap().clear();
    }
    sv::CACHE_OFF.store(c.cache == "off", Ordering::Relaxed);
    sv::POLLS.store(0, Ordering::Relaxed);
    sv::STOP_AT_POLL.store(if c.stop == 0 { u64::MAX } else { c.stop }, Ordering::Relaxed);
    *sv::RECORDER.lock().unwrap() = if c.tag.contains("deep") { None } else { Some(Vec::new()) };
    // exactly what `Uci::go` builds for `go depth D [nodes N]`: the depth limit is in the limits too
    let mut limits = SearchLimits::new().nodes(c.nodes).depth(Some(c.depth));
    if c.vdiv > 0 {
        // exactly what `parse_go` builds for `go wtime .. btime .. winc .. binc .. movetime ..`, measured on the virtual clock
        let g = |i: usize| c.tc[i].map(u128::from);
        limits = limits.white_time(g(0)).black_time(g(1)).white_increment(g(2)).black_increment(g(3)).movetime(g(4));
    }
    sv::VCLOCK_CALLS.store(0, Ordering::Relaxed);
    sv::VCLOCK_DIV.store(c.vdiv, Ordering::Relaxed);
    // `bench` and the tests build their searches without limits and pass the depth to `search` alone; `go depth N` passes it both ways
    let mut search = if BENCH_PATH.load(Ordering::Relaxed) { Search::new(&board, None) } else { Search::new(&board, Some(limits)) };
    let outcome = std::panic::catch_unwind(std::panic::AssertUnwindSafe(|| {
        search.search(&SimpleEvaluator, Some(c.depth));
    }));
    sv::STOP_AT_POLL.store(0, Ordering::Relaxed);
    sv::CACHE_OFF.store(false, Ordering::Relaxed);
    let clock_calls = sv::VCLOCK_CALLS.load(Ordering::Relaxed);
    sv::VCLOCK_DIV.store(0, Ordering::Relaxed);
    let writes = sv::RECORDER.lock().unwrap().take().unwrap_or_default();
    if outcome.is_err() {
        println!("X panic");
    }
    if (c.nodes.is_some() || c.stop > 0) && c.cache == "fresh" {
        if let Some(full) = FULL_WRITES.lock().unwrap().as_ref() {
            for (i, w) in writes.iter().enumerate() {
                let id = write_id(w);
                if full.get(i) != Some(&id) {
                    println!("Q not-a-prefix index={i} written=[{id}] uninterrupted=[{}] writes={} of={}", full.get(i).map_or("-", String::as_str), writes.len(), full.len());
                    break;
                }
            }
        }
    }
    for w in &writes {
        println!(
            "W {} {:x} {} {} {} {} {} {} {}",
            w.site,
            bv::key_u64(w.key),
            w.entry.score,
            w.entry.depth,
            bound_code(w.entry.bound),
            move_fields(&w.entry.best_ply),
            w.nodes,
            u8::from(w.running),
            w.ply
        );
        if w.time_control {
            println!("V {} {}", w.virtual_ms.map_or("-".to_string(), |v| v.to_string()), w.timer.map_or("-".to_string(), |v| v.to_string()));
        }
    }
    // the search works on its own copy of the position and takes every move back: when a search that ran to its depth returns,
    // that board's key must be the root's again, which is the from-scratch key of the root position.  (A search that was cut
    // short abandons its working board in the middle of a line — by design: the abort path returns without taking the moves
    // back and the answer is read from the untouched original — so the check applies to uninterrupted searches only.)
    if outcome.is_ok() && c.nodes.is_none() && c.stop == 0 && c.vdiv == 0 {
        let (bk, rk) = (sv::board_key(&search), sv::root_key(&search));
        if bk != rk || rk != board.zkey || board.zkey != crate::board::zkey::ZKey::from(&board) {
            println!("K key-drift search_board={:x} search_root={:x} position={:x} from_scratch={:x}", bv::key_u64(bk), bv::key_u64(rk), bv::key_u64(board.zkey), bv::key_u64(crate::board::zkey::ZKey::from(&board)));
        }
    }
    let (n, sum) = tt_summary();
    let root = TRANSPOSITION_TABLE.read().unwrap().get(&board.zkey).copied();
    println!(
        "R nodes={} seldepth={} best={} score={} polls={} clockreads={} ttsize={} ttsum={:x} root={}",
        search.get_nodes(),
        sv::seldepth(&search),
        sv::best_move(&search).map_or("-".to_string(), |m| move_fields(&m)),
        sv::best_score(&search).map_or("-".to_string(), |s| s.to_string()),
        sv::POLLS.load(Ordering::Relaxed),
        if c.vdiv > 0 { clock_calls.to_string() } else { "-".to_string() },
        n,
        sum,
        root.map_or("-".to_string(), |e| format!("{}:{}:{}:{}", e.score, e.depth, bound_code(e.bound), move_fields(&e.best_ply)))
    );
    sv::best_move(&search).or_else(|| {
        let mut b = board.clone();
        b.get_legal_moves().first().copied()
    })
}

/// positions: seeds, bench FENs, and positions reached by random play (kept with their move history)
/// roots with exactly one legal move (in check and not), and roots without any (mated, stalemated)
/// the cache writes of the UNINTERRUPTED search of the case being cut short (budget / stop modes), in order: an interrupted search is
/// the same computation up to the interruption and writes nothing after it, so its writes must be a prefix of these
static FULL_WRITES: std::sync::Mutex<Option<Vec<String>>> = std::sync::Mutex::new(None);

fn write_id(w: &sv::Write) -> String {
    format!("{} {:x} {} {} {} {}", w.site, bv::key_u64(w.key), w.entry.score, w.entry.depth, bound_code(w.entry.bound), move_fields(&w.entry.best_ply))
}

/// when set, `run_case` builds the search the way `bench` does (`Search::new(board, None)`)
static BENCH_PATH: std::sync::atomic::AtomicBool = std::sync::atomic::AtomicBool::new(false);

pub const FORCED: [(&str, &str); 16] = [
    // a knight mates a king walled in by its own immobile men: the mated side has no pseudo-legal move AT ALL (one ply below the root)
    ("k7/8/8/8/6p1/3nr1P1/4P1PB/5BRK b - - 0 1", ""),
    ("7k/8/8/8/1p6/1P1rn3/BP1P4/KRB5 b - - 0 1", ""),
    ("5brk/4p1pb/3NR1p1/6P1/8/8/8/K7 w - - 0 1", ""),
    ("krb5/bp1p4/1p1RN3/1P6/8/8/8/7K w - - 0 1", ""),
    ("7k/8/8/8/8/8/5PP1/r5K1 w - - 0 1", ""),
    ("rnbqkbnr/pppppppp/8/8/8/8/PPPPPPPP/RNBQKBNR w KQkq - 0 1", "e2e4 f7f5 d1h5"),
    ("7k/7p/7P/8/8/8/8/K7 b - - 0 1", ""),
    ("8/8/8/8/8/5k2/4p3/4K3 w - - 0 1", ""),
    ("k7/8/1Q6/8/8/8/8/7K b - - 0 1", ""),
    ("rnb1kbnr/pppp1ppp/8/4p3/6Pq/5P2/PPPPP2P/RNBQKBNR w KQkq - 1 3", ""),
    // lines that run into a STALEMATE one or two plies below the root (the line ends before the depth is used up; a stalemated
    // node is never stored by the search itself): pawn on the seventh, queen too close to a cornered king, both colours
    ("5k2/5P2/4K3/8/8/8/8/8 w - - 0 1", ""),
    ("8/8/8/8/8/3k4/3p4/3K4 b - - 0 1", ""),
    ("7k/5K2/8/6Q1/8/8/8/8 w - - 0 1", ""),
    ("8/8/8/8/1q6/8/2k5/K7 b - - 0 1", ""),
    ("k7/P7/1K6/8/8/8/8/8 w - - 0 1", ""),
    ("8/8/8/8/8/6k1/7p/7K b - - 0 1", ""),
];

fn positions(rng: &mut Rng, n: usize, bench: bool) -> Vec<(String, Vec<String>)> {
    let mut seeds: Vec<(String, Vec<String>)> = vec![];
    for f in super::walk::SEEDS.iter() {
        seeds.push((f.to_string(), vec![]));
    }
    if bench {
        for f in crate::bench_fens() {
            seeds.push((f.to_string(), vec![]));
        }
    }
    // positions with a game history, as many as bare seeds (they are interleaved below, so that a small `count` gets both kinds)
    let mut v: Vec<(String, Vec<String>)> = vec![];
    while v.len() < n.max(2) {
        let fen = super::walk::SEEDS[rng.below(super::walk::SEEDS.len() as u64) as usize];
        let mut b = Board::from_fen(fen);
        let mut moves = vec![];
        let steps = 2 + rng.below(40);
        for _ in 0..steps {
            let legal = b.get_legal_moves();
            if legal.is_empty() {
                break;
            }
            // now and then shuffle back to create repetitions inside the history
            let hist = bv::history(&b);
            let m = if rng.below(5) == 0 && hist.len() >= 3 {
                let mine = hist[hist.len() - 2];
                legal
                    .iter()
                    .find(|m| m.start == mine.dest && m.dest == mine.start && m.captured_piece.is_none())
                    .copied()
                    .unwrap_or(legal[rng.below(legal.len() as u64) as usize])
            } else {
                legal[rng.below(legal.len() as u64) as usize]
            };
            moves.push(m.to_notation());
            b.make_move(m);
        }
        if b.get_legal_moves().is_empty() {
            continue;
        }
        // every third history ends with both sides shuffling a piece out and back: the ROOT itself then repeats the position of four plies earlier
        // every third one ends with only the first half of such a shuffle (each side one quiet move): the search itself can then complete the repetition two plies below the root
        let half = v.len() % 3 == 1;
        if v.len() % 3 == 0 || half {
            let quiet = |b: &mut Board, rng: &mut Rng| -> Option<Ply> {
                let l: Vec<Ply> = b.get_legal_moves().into_iter().filter(|m| m.captured_piece.is_none() && m.promoted_to.is_none() && !m.is_castles && !matches!(m.piece, Kind::Pawn(_))).collect();
                if l.is_empty() { None } else { Some(l[rng.below(l.len() as u64) as usize]) }
            };
            let back = |b: &mut Board, m: &Ply| -> Option<Ply> {
                b.get_legal_moves().into_iter().find(|x| x.start == m.dest && x.dest == m.start && x.captured_piece.is_none() && x.promoted_to.is_none())
            };
            let mut extra = vec![];
            let mut made = 0;
            let mut ok = false;
            if let Some(a) = quiet(&mut b, rng) {
                b.make_move(a);
                made += 1;
                extra.push(a.to_notation());
                if let Some(c) = quiet(&mut b, rng) {
                    b.make_move(c);
                    made += 1;
                    extra.push(c.to_notation());
                    if half {
                        ok = back(&mut b, &a).is_some();
                    } else if let Some(a2) = back(&mut b, &a) {
                        b.make_move(a2);
                        made += 1;
                        extra.push(a2.to_notation());
                        if let Some(c2) = back(&mut b, &c) {
                            b.make_move(c2);
                            made += 1;
                            extra.push(c2.to_notation());
                            ok = true;
                        }
                    }
                }
            }
            if ok && !b.get_legal_moves().is_empty() {
                moves.extend(extra);
            } else {
                for _ in 0..made {
                    b.unmake_move();
                }
            }
        }
        v.push((fen.to_string(), moves));
    }
    let mut out = vec![];
    let (mut i, mut j) = (0usize, 0usize);
    while out.len() < n.max(seeds.len()) && (i < seeds.len() || j < v.len()) {
        if i < seeds.len() {
            out.push(seeds[i].clone());
            i += 1;
        }
        if j < v.len() {
            out.push(v[j].clone());
            j += 1;
        }
    }
    out
}

/// a silent in-process run on the calling thread: (best move, score, nodes); the table is cleared first when `clear`
fn quiet_search(board: &Board, depth: u8, clear: bool) -> (String, String, u64) {
    if clear {
        TRANSPOSITION_TABLE.write().unwrap().clear();
    }
    sv::CACHE_OFF.store(false, Ordering::Relaxed);
    sv::STOP_AT_POLL.store(u64::MAX, Ordering::Relaxed);
    *sv::RECORDER.lock().unwrap() = None;
    let mut search = Search::new(board, Some(SearchLimits::new().depth(Some(depth))));
    let _ = std::panic::catch_unwind(std::panic::AssertUnwindSafe(|| {
        search.search(&SimpleEvaluator, Some(depth));
    }));
    sv::STOP_AT_POLL.store(0, Ordering::Relaxed);
    (
        sv::best_move(&search).map_or("-".to_string(), |m| m.to_notation()),
        sv::best_score(&search).map_or("-".to_string(), |s| s.to_string()),
        search.get_nodes(),
    )
}

/// `--mode chain`: does anything survive from one search into the next one on the same thread although the cache is cleared?
/// For a position A searched to depth d, every position B of A's tree at plies d-1 and d (all of them for d <= 2, a sample
/// for d = 3) is searched right after A (cache cleared in between) and the result is compared with B searched after B itself.
fn chain_mode(rng: &mut Rng, pos: &[(String, Vec<String>)], count: usize, maxdepth: u8, shard: usize, of: usize, arg_budget: u64) {
    for (i, (fen, moves)) in pos.iter().take(count).enumerate() {
        if i % of != shard {
            continue;
        }
        let Some(a) = setup_board(fen, moves) else { continue };
        let a = Board::from_fen(&render_fen(&a));
        let afen = render_fen(&a);
        for d in 1..=maxdepth.min(3) {
            // the descendants at plies d-1 and d
            let mut level: Vec<Board> = vec![a.clone()];
            let mut cands: Vec<Board> = vec![];
            for ply in 1..=d {
                let mut next = vec![];
                for b in &mut level {
                    for m in b.get_legal_moves() {
                        let mut c = b.clone();
                        c.make_move(m);
                        next.push(c);
                    }
                }
                if next.len() > 1200 {
                    // sample, keeping the order
                    let keep = 1200usize;
                    let mut picked = vec![];
                    let n = next.len();
                    for (k, c) in next.into_iter().enumerate() {
                        if rng.below(n as u64) < keep as u64 || k + 40 >= n {
                            picked.push(c);
                        }
                    }
                    next = picked;
                }
                if ply + 1 >= d {
                    cands.extend(next.iter().cloned());
                }
                level = next;
            }
            let mut pairs = 0u64;
            let mut differing = vec![];
            // an unbiased order, then as many pairs as a fixed budget of engine nodes pays for (deterministic: node counts are)
            for i in (1..cands.len()).rev() {
                let j = rng.below(i as u64 + 1) as usize;
                cands.swap(i, j);
            }
            let budget: u64 = arg_budget;
            let mut spent = 0u64;
            println!("S calibration chain");
            for b in &cands {
                if spent > budget {
                    break;
                }
                let mut bb = Board::from_fen(&render_fen(b));
                if bb.get_legal_moves().is_empty() {
                    continue;
                }
                let e = 1 + (pairs % 2) as u8;
                let warm = quiet_search(&bb, e, true);
                let reference = quiet_search(&bb, e, true);
                let first = quiet_search(&a, d, true);
                let got = quiet_search(&bb, e, true);
                spent += warm.2 + reference.2 + first.2 + got.2;
                pairs += 1;
                if got != reference {
                    differing.push((render_fen(&bb), e, reference, got));
                }
            }
            println!("X calibration-end");
            println!("D after=[{afen}] depth={d} pairs={pairs} differing={}", differing.len());
            for (bfen, e, r, g) in differing.iter().take(3) {
                println!("D! fen=[{bfen}] depth={e} after=[{afen}]:{d} alone={}:{}:{} after_other={}:{}:{}", r.0, r.1, r.2, g.0, g.1, g.2);
            }
        }
    }
}

/// `--mode plain|off|budget|stop|keep|file` `--count N` `--maxdepth D` `--shard i --of n --seed S`
pub fn search_stream(args: &[String]) {
    let mode = arg_str(args, "mode").unwrap_or_else(|| "plain".into());
    let count: usize = arg(args, "count", 40);
    let maxdepth: u8 = arg(args, "maxdepth", 3);
    let shard: usize = arg(args, "shard", 0);
    let of: usize = arg(args, "of", 1);
    let seed: u64 = arg(args, "seed", 1);
    let repeat: usize = arg(args, "repeat", 1);
    let mut rng = Rng(seed.wrapping_mul(0x1000_0000_01B3).wrapping_add(4242));
    let pos = positions(&mut rng, count, false);
    let mut idx = 0usize;
    let mut mine = |idx: &mut usize| {
        let r = *idx % of == shard;
        *idx += 1;
        r
    };
    match mode.as_str() {
        "fifty" => {
            // the fifty-move horizon inside the tree: positions with the half-move clock at 96..100 in which castling, captures,
            // pawn moves and promotions are available next to quiet moves; cache neutralised, so the root score is compared with
            // plain minimax (a clock-preserving castling move at 99 reaches a drawn node, an irreversible move does not)
            let bases = ["4rkr1/4p1p1/8/8/8/8/8/4K2R w K - 0 80", "r3k3/8/8/8/8/8/4P1P1/1R2K1R1 b q - 0 80", "r3k2r/8/8/8/8/8/8/R3K2R w KQkq - 0 60",
                "r3k2r/p1ppqpb1/bn2pnp1/3PN3/1p2P3/2N2Q1p/PPPBBPPP/R3K2R w KQkq - 0 40", "4k3/P7/8/8/8/8/7p/R3K3 w Q - 0 70", "r3k3/7P/8/8/8/8/p7/4K2R b q - 0 70",
                "4k2r/8/8/8/8/8/5PPP/4K2R b Kk - 0 50", "2kr3r/pp3ppp/8/8/8/8/PP3PPP/R3K2R w KQ - 0 33", "8/8/8/3k4/8/3K4/3R4/8 w - - 0 90", "r3k2r/8/8/8/8/8/8/R3K2R b KQkq - 0 60"];
            let mut n = 0usize;
            for base in bases.iter() {
                for clock in [96u32, 97, 98, 99, 100] {
                    for d in 1..=maxdepth {
                        n += 1;
                        if n > count * 50 || !mine(&mut idx) {
                            continue;
                        }
                        let f: Vec<&str> = base.split(' ').collect();
                        let fen = format!("{} {} {} {} {} {}", f[0], f[1], f[2], f[3], clock, f[5]);
                        let b = Board::from_fen(&fen);
                        if b.is_in_check(b.current_turn.opposite()) {
                            continue;
                        }
                        run_case(&Case { fen, moves: vec![], depth: d, nodes: None, stop: 0, cache: "off", tag: String::new(), tc: NO_TC, vdiv: 0 });
                    }
                }
            }
            // … and pawnless positions with a material imbalance (the side behind would love the draw): kings, one to three pieces of
            // the stronger side, at most one of the weaker, the clock at 95..99 — quiet moves three plies down complete the hundred
            let mut made = 0usize;
            let mut tries = 0u32;
            while made < count.min(48) && tries < 100_000 {
                tries += 1;
                let mut sq: Vec<usize> = (0..64).collect();
                for i in (1..64).rev() {
                    let j = rng.below(i as u64 + 1) as usize;
                    sq.swap(i, j);
                }
                let mut g: [Option<char>; 64] = [None; 64];
                g[sq[0]] = Some('K');
                g[sq[1]] = Some('k');
                let strong_white = rng.below(2) == 0;
                let strong = ['Q', 'R', 'B', 'N', 'R'];
                let ns = 1 + rng.below(3) as usize;
                for i in 0..ns {
                    let c = strong[rng.below(5) as usize];
                    g[sq[2 + i]] = Some(if strong_white { c } else { c.to_ascii_lowercase() });
                }
                if rng.below(2) == 0 {
                    let c = ['B', 'N', 'R'][rng.below(3) as usize];
                    g[sq[6]] = Some(if strong_white { c.to_ascii_lowercase() } else { c });
                }
                let turn = if rng.below(3) == 0 { strong_white } else { !strong_white }; // mostly the weaker side to move
                let fen = format!("{} {} - - {} 90", super::grid_placement(&g), if turn { "w" } else { "b" }, 95 + rng.below(5));
                let mut b = Board::from_fen(&fen);
                if b.is_in_check(b.current_turn.opposite()) || b.get_legal_moves().is_empty() {
                    continue;
                }
                made += 1;
                if !mine(&mut idx) {
                    continue;
                }
                for d in [3u8.min(maxdepth), maxdepth] {
                    if heavier_than_with(&fen, d, 30_000, true) {
                        println!("# heavy case dropped: depth {d} [{fen}]");
                        continue;
                    }
                    run_case(&Case { fen: fen.clone(), moves: vec![], depth: d, nodes: None, stop: 0, cache: "off", tag: String::new(), tc: NO_TC, vdiv: 0 });
                }
            }
        }
        "deepbudget" => {
            // roots whose FIRST generated move is not legal (the side to move is in check, or its lowest piece is pinned), searched
            // DEEP under node budgets spread from a few dozen to tens of thousands: whatever the iterations and re-searches were doing
            // when the budget ran out, the one bestmove must be a legal move.  Engine output only (`tag=deep`): the model is not run
            let mut roots: Vec<String> = vec![
                "rnb1kbnr/pppp1ppp/8/4p3/4PP1q/8/PPPP2PP/RNBQKBNR w KQkq - 1 3".to_string(),
                "4k3/8/8/8/8/8/8/rR3K2 w - - 0 1".to_string(),
                "6k1/1R3p2/6p1/2Bp3p/3P3q/P7/1P2rQ1K/5R2 w - - 5 45".to_string(),
                "r1bq1rk1/pp2bppp/2n1pn2/3p4/2PP4/2N1PN2/PP2BPPP/R1BQ1RK1 w - - 0 9".to_string(),
            ];
            let mut tries = 0u32;
            while roots.len() < count.max(8) && tries < 200_000 {
                tries += 1;
                let fen = super::walk::SEEDS[rng.below(super::walk::SEEDS.len() as u64) as usize];
                let mut b = Board::from_fen(fen);
                for _ in 0..(6 + rng.below(50)) {
                    let legal = b.get_legal_moves();
                    if legal.is_empty() {
                        break;
                    }
                    let checks: Vec<&Ply> = legal.iter().filter(|m| { let mut c = b.clone(); c.make_move(**m); c.is_in_check(c.current_turn) }).collect();
                    let m = if !checks.is_empty() && rng.below(2) == 0 { *checks[rng.below(checks.len() as u64) as usize] } else { legal[rng.below(legal.len() as u64) as usize] };
                    b.make_move(m);
                }
                let legal = b.get_legal_moves();
                if legal.is_empty() {
                    continue;
                }
                // keep it if the first generated (pseudo-legal) move is not a legal one
                let first = b.get_all_moves().first().copied();
                if first.is_some_and(|f| legal.iter().any(|m| m.to_notation() == f.to_notation())) {
                    continue;
                }
                roots.push(render_fen(&b));
            }
            for fen in roots.iter() {
                if !mine(&mut idx) {
                    continue;
                }
                let mut budget = 40u64;
                while budget < 40_000 {
                    run_case(&Case { fen: fen.clone(), moves: vec![], depth: maxdepth, nodes: Some(budget), stop: 0, cache: "fresh", tag: "tag=deep".to_string(), tc: NO_TC, vdiv: 0 });
                    budget = budget * 4 / 3 + 7 + rng.below(9);
                }
            }
        }
        "deepseed" => {
            // the seed positions (openings, middlegames, tactical set-ups) searched to a depth the Lean model is too slow for: only the
            // property-level checks on the engine's own output apply (info order and syntax, every PV legal by the rules, one legal
            // bestmove, the search board's key restored) — the model is not run (`tag=deep`)
            for (fen, moves) in pos.iter().take(count) {
                if !mine(&mut idx) {
                    continue;
                }
                if !moves.is_empty() {
                    continue;
                }
                if heavier_than_with(fen, maxdepth, 1_500_000, false) {
                    println!("# heavy case dropped: depth {maxdepth} [{fen}]");
                    continue;
                }
                run_case(&Case { fen: fen.clone(), moves: vec![], depth: maxdepth, nodes: None, stop: 0, cache: "fresh", tag: "tag=deep".to_string(), tc: NO_TC, vdiv: 0 });
            }
        }
        "deepend" => {
            // sparse, level endgames searched DEEP (the shuffling lines of such positions put repeated positions into the
            // principal variation from about depth 6 on): only the property-level checks on the engine's own output apply
            // (info syntax and order, every PV legal by the rules, one legal bestmove) — the model is not run (`tag=deep`)
            let value = |c: char| match c.to_ascii_lowercase() { 'q' => 9i32, 'r' => 5, 'b' | 'n' => 3, 'p' => 1, _ => 0 };
            let mut made = 0usize;
            let mut tries = 0u64;
            while made < count && tries < 400_000 {
                tries += 1;
                let Some(mut b) = random_sparse(&mut rng) else { continue };
                let fen = render_fen(&b);
                let placement = fen.split(' ').next().unwrap_or("");
                let bal: i32 = placement.chars().map(|c| if c.is_ascii_uppercase() { value(c) } else { -value(c) }).sum();
                if bal.abs() > 1 || b.get_legal_moves().is_empty() {
                    continue;
                }
                made += 1;
                if !mine(&mut idx) {
                    continue;
                }
                if heavier_than_with(&fen, maxdepth, 1_500_000, false) {
                    println!("# heavy case dropped: depth {maxdepth} [{fen}]");
                    continue;
                }
                run_case(&Case { fen, moves: vec![], depth: maxdepth, nodes: None, stop: 0, cache: "fresh", tag: "tag=deep".to_string(), tc: NO_TC, vdiv: 0 });
            }
        }
        "huge" => {
            // a process whose cache once held millions of entries: the same small searches from an emptied cache are run before
            // and after the cache is filled to `--entries` positions and cleared again, the way `bench` clears it.  Whatever a
            // very full cache leaves behind (allocation, counters, caps) must not change a fresh search.  The filling does not
            // search (a search that stores five million entries takes minutes): the keys of positions met on random games are
            // inserted directly with a copy of a real entry; only the engine's own runs are compared (`tag=deep`)
            let target: usize = arg(args, "entries", 4_500_000);
            let small = [("rnbqkbnr/pppppppp/8/8/8/8/PPPPPPPP/RNBQKBNR w KQkq - 0 1", 4u8), ("8/2p5/3p4/KP5r/1R3p1k/8/4P1P1/8 w - - 0 1", 5), ("r3k2r/p1ppqpb1/bn2pnp1/3PN3/1p2P3/2N2Q1p/PPPBBPPP/R3K2R w KQkq - 0 1", 3)];
            let frame = |_: ()| {
                for (fen, d) in small.iter() {
                    run_case(&Case { fen: fen.to_string(), moves: vec![], depth: *d, nodes: None, stop: 0, cache: "fresh", tag: "tag=deep".to_string(), tc: NO_TC, vdiv: 0 });
                }
            };
            // … and one LARGE search (more than half a million entries) on a brand-new map — what a fresh process has — and again at
            // the end on the cleared, grown map: the allocation must not matter either
            let big = |_: ()| {
                run_case(&Case { fen: "r3k2r/p1ppqpb1/bn2pnp1/3PN3/1p2P3/2N2Q1p/PPPBBPPP/R3K2R w KQkq - 0 1".to_string(), moves: vec![], depth: arg(args, "bigdepth", 8), nodes: None, stop: 0, cache: "fresh", tag: "tag=deep".to_string(), tc: NO_TC, vdiv: 0 });
            };
            if shard == 0 {
                *TRANSPOSITION_TABLE.write().unwrap() = Default::default();
                big(());
                *TRANSPOSITION_TABLE.write().unwrap() = Default::default();
                frame(());
                let entry = TRANSPOSITION_TABLE.read().unwrap().values().next().copied();
                if let Some(entry) = entry {
                    let mut tt = TRANSPOSITION_TABLE.write().unwrap();
                    tt.clear();
                    'fill: loop {
                        let fen = super::walk::SEEDS[rng.below(super::walk::SEEDS.len() as u64) as usize];
                        let mut b = Board::from_fen(fen);
                        for _ in 0..200 {
                            let moves = b.get_all_moves();
                            if moves.is_empty() {
                                break;
                            }
                            // pseudo-legal moves are good enough: only the keys matter
                            b.make_move(moves[rng.below(moves.len() as u64) as usize]);
                            tt.insert(b.zkey, entry);
                            if tt.len() >= target {
                                break 'fill;
                            }
                        }
                    }
                    println!("# huge session: {} cache entries before the cache is cleared", tt.len());
                    tt.clear();
                }
                frame(());
                big(());
            }
        }
        "matechain" => {
            // the cache holds the results of a search of the PARENT position (a game in progress): Q is searched to depth 4 or 5,
            // then — cache kept — a position P one move below Q in which the side to move can mate at once, given as a bare FEN
            let mut made = 0usize;
            let mut tries = 0u64;
            while made < count && tries < 2_000_000 {
                tries += 1;
                let q = match rng.below(3) {
                    0 => random_sparse(&mut rng),
                    1 => random_profile(&mut rng, 3),
                    _ => random_profile(&mut rng, 4),
                };
                let Some(mut q) = q else { continue };
                if q.get_halfmove_clock() > 60 || !mates_in_one(&mut q).is_empty() {
                    continue;
                }
                let mut found = None;
                for m in q.get_legal_moves() {
                    q.make_move(m);
                    let mut p = Board::from_fen(&render_fen(&q));
                    q.unmake_move();
                    let m1 = mates_in_one(&mut p);
                    if !m1.is_empty() {
                        found = Some((render_fen(&p), m1[0]));
                        break;
                    }
                }
                let Some((pfen, wit)) = found else { continue };
                made += 1;
                if !mine(&mut idx) {
                    continue;
                }
                let qfen = render_fen(&q);
                let dq = 4 + (made % 2) as u8;
                if heavier_than_with(&qfen, dq, 150_000, false) {
                    println!("# heavy case dropped: depth {dq} [{qfen}]");
                    continue;
                }
                run_case(&Case { fen: qfen, moves: vec![], depth: dq, nodes: None, stop: 0, cache: "fresh", tag: String::new(), tc: NO_TC, vdiv: 0 });
                for d in [3u8, 4, 3] {
                    run_case(&Case { fen: pfen.clone(), moves: vec![], depth: d.min(maxdepth.max(3)), nodes: None, stop: 0, cache: "keep", tag: format!("tag=m1 wit={}", wit.to_notation()), tc: NO_TC, vdiv: 0 });
                }
            }
        }
        "chain" => chain_mode(&mut rng, &pos, count, maxdepth, shard, of, arg(args, "budget", 3_000_000)),
        "file" => {
            // one case per line: fen | moves | depth | nodes | stop | cache
            let path = arg_str(args, "cases").unwrap_or_default();
            for line in std::fs::read_to_string(path).unwrap_or_default().lines() {
                let f: Vec<&str> = line.split('|').map(str::trim).collect();
                if f.len() < 6 || !mine(&mut idx) {
                    continue;
                }
                let cache = match f[5] {
                    "keep" => "keep",
                    "off" => "off",
                    _ => "fresh",
                };
                run_case(&Case {
                    fen: f[0].to_string(),
                    moves: f[1].split_whitespace().map(str::to_string).collect(),
                    depth: f[2].parse().unwrap_or(1),
                    nodes: f[3].parse().ok(),
                    stop: f[4].parse().unwrap_or(0),
                    cache,
                    tag: f.get(6).map(|x| x.to_string()).unwrap_or_default(),
                    // optional: `wtime,btime,winc,binc,movetime` (`-` = absent) and the virtual-clock divisor
                    tc: f.get(7).map_or(NO_TC, |x| {
                        let mut tc = NO_TC;
                        for (i, v) in x.split(',').take(5).enumerate() {
                            tc[i] = v.trim().parse().ok();
                        }
                        tc
                    }),
                    vdiv: f.get(8).and_then(|x| x.parse().ok()).unwrap_or(0),
                });
            }
        }
        "plain" | "off" => {
            let forced: Vec<(String, Vec<String>)> = FORCED.iter().map(|(f, m)| (f.to_string(), m.split_whitespace().map(str::to_string).collect())).collect();
            for (fen, moves) in forced.iter().chain(pos.iter().take(count)) {
                if !mine(&mut idx) {
                    continue;
                }
                let d = 1 + (rng.below(u64::from(maxdepth))) as u8;
                for depth in [d, maxdepth] {
                    for _ in 0..repeat {
                        run_case(&Case { fen: fen.clone(), moves: moves.clone(), depth, nodes: None, stop: 0, cache: if mode == "off" { "off" } else { "fresh" }, tag: String::new(), tc: NO_TC, vdiv: 0 });
                    }
                }
            }
        }
        "budget" | "stop" => {
            // every budget / poll index 1..=N for the full depth-`maxdepth` search of each position
            let step: u64 = arg(args, "step", 1);
            for (fen, moves) in pos.iter().take(count) {
                if !mine(&mut idx) {
                    continue;
                }
                // size of the full search
                TRANSPOSITION_TABLE.write().unwrap().clear();
                let Some(board) = setup_board(fen, moves) else { continue };
                sv::POLLS.store(0, Ordering::Relaxed);
                sv::STOP_AT_POLL.store(u64::MAX, Ordering::Relaxed);
                let mut s = Search::new(&board, Some(SearchLimits::new().depth(Some(maxdepth))));
                // silence is not possible: the engine prints; mark the calibration run so the driver skips it
                println!("S calibration");
                *sv::RECORDER.lock().unwrap() = Some(Vec::new());
                s.search(&SimpleEvaluator, Some(maxdepth));
                let full = sv::RECORDER.lock().unwrap().take().unwrap_or_default();
                *FULL_WRITES.lock().unwrap() = Some(full.iter().map(write_id).collect());
                let total = if mode == "budget" { s.get_nodes() } else { sv::POLLS.load(Ordering::Relaxed) };
                sv::STOP_AT_POLL.store(0, Ordering::Relaxed);
                println!("X calibration-end total={total}");
                let maxcases: u64 = arg(args, "maxcases", 200);
                let step = step.max(total.div_ceil(maxcases.max(1)));
                let off = rng.below(step);
                let mut k = 1 + off;
                while k <= total + 1 {
                    let (nodes, stop) = if mode == "budget" { (Some(k), 0) } else { (None, k) };
                    run_case(&Case { fen: fen.clone(), moves: moves.clone(), depth: maxdepth, nodes, stop, cache: "fresh", tag: String::new(), tc: NO_TC, vdiv: 0 });
                    k += step;
                }
                *FULL_WRITES.lock().unwrap() = None;
            }
        }
        "keep" => {
            // earlier completed searches of the same position at other depths, in several orders, cache kept
            for (fen, moves) in pos.iter().take(count) {
                if !mine(&mut idx) {
                    continue;
                }
                let mut depths: Vec<u8> = (1..=maxdepth).collect();
                for i in (1..depths.len()).rev() {
                    let j = rng.below(i as u64 + 1) as usize;
                    depths.swap(i, j);
                }
                let mut first = true;
                for d in depths {
                    run_case(&Case { fen: fen.clone(), moves: moves.clone(), depth: d, nodes: None, stop: 0, cache: if first { "fresh" } else { "keep" }, tag: String::new(), tc: NO_TC, vdiv: 0 });
                    first = false;
                }
            }
        }
        "mate" => mate_mode(&mut rng, count, maxdepth, shard, of, false),
        "mateoff" => mate_mode(&mut rng, count, maxdepth, shard, of, true),
        "clock" => {
            // game-clock interruptions at reproducible points: virtual time = clock consultations / vdiv, timer = clock / 20
            let maxcases: u64 = arg(args, "maxcases", 120);
            for (fen, moves) in pos.iter().take(count) {
                if !mine(&mut idx) {
                    continue;
                }
                // size of the full search in clock consultations
                println!("S calibration");
                TRANSPOSITION_TABLE.write().unwrap().clear();
                let Some(board) = setup_board(fen, moves) else { println!("X calibration-end total=0"); continue };
                sv::VCLOCK_CALLS.store(0, Ordering::Relaxed);
                sv::VCLOCK_DIV.store(u64::MAX, Ordering::Relaxed);
                let mut s = Search::new(&board, Some(SearchLimits::new().white_time(Some(u128::MAX / 4)).black_time(Some(u128::MAX / 4)).depth(Some(maxdepth))));
                s.search(&SimpleEvaluator, Some(maxdepth));
                let total = sv::VCLOCK_CALLS.load(Ordering::Relaxed);
                sv::VCLOCK_DIV.store(0, Ordering::Relaxed);
                println!("X calibration-end total={total}");
                let step = total.div_ceil(maxcases.max(1)).max(1);
                let mut k = 1 + rng.below(step);
                while k <= total + 1 {
                    // vdiv = 1: one virtual millisecond per consultation; timer = clock / 20 = k  =>  expires at the (k+1)-th consultation
                    // the mover's allowance is time / 20 + inc / 2; three flavours reach the same allowance k:
                    // both clocks equal; the mover's own clock and increment with very different ones for the opponent; movetime
                    let white = board.current_turn == Color::White;
                    let tc = match rng.below(6) {
                        0 => [Some(20 * k), Some(20 * k), None, None, None],
                        // one-sided: only the mover's clock (and perhaps increment) is given — `go wtime 1000` is a complete command
                        4 => {
                            let a = if rng.below(2) == 0 { 0 } else { rng.below(k + 1) };
                            let (mt, mi) = (Some(20 * (k - a) + rng.below(20)), if a == 0 { None } else { Some(2 * a + rng.below(2)) });
                            if white { [mt, None, mi, None, None] } else { [None, mt, None, mi, None] }
                        }
                        // … or only the opponent's: the mover's own allowance is then zero
                        5 => {
                            let (ot, oi) = (Some(20 * (k + rng.below(50))), if rng.below(2) == 0 { None } else { Some(rng.below(100)) });
                            if white { [None, ot, None, oi, None] } else { [ot, None, oi, None, None] }
                        }
                        1 | 2 => {
                            let a = rng.below(k + 1);
                            let (mt, mi) = (Some(20 * (k - a) + rng.below(20)), Some(2 * a + rng.below(2)));
                            let (ot, oi) = (Some(20 * (k + 1 + rng.below(5000))), Some(2 * (a + 1 + rng.below(3000))));
                            let (ot, oi) = if rng.below(3) == 0 { (Some(rng.below(20 * k + 1) / 2), Some(0)) } else { (ot, oi) };
                            if white { [mt, ot, mi, oi, None] } else { [ot, mt, oi, mi, None] }
                        }
                        _ => [None, None, None, None, Some(k)],
                    };
                    run_case(&Case { fen: fen.clone(), moves: moves.clone(), depth: maxdepth, nodes: None, stop: 0, cache: "fresh", tag: String::new(), tc, vdiv: 1 });
                    k += step;
                }
            }
        }
        "deep" => {
            // few, large searches (hundreds of thousands of cached entries) repeated in ONE process from an emptied cache:
            // only the implementation's own runs are compared with each other (the driver skips the model for `tag=deep`)
            let busy = [
                "3qr2k/1p3rbp/2p3p1/p7/P2pBNn1/1P3n2/6P1/B1Q1RR1K b - - 1 30",
                "r3k2r/p1ppqpb1/bn2pnp1/3PN3/1p2P3/2N2Q1p/PPPBBPPP/R3K2R w KQkq - 0 1",
                "r1bq1rk1/pp2b1pp/n1pp1n2/3P1p2/2P1p3/2N1P2N/PP2BPPP/R1BQ1RK1 b - - 2 10",
                "4r2k/1p3rbp/2p1N1p1/p3n3/P2NB1nq/1P6/4R1P1/B1Q2RK1 b - - 4 32",
            ];
            for fen in busy.iter().take(count) {
                if !mine(&mut idx) {
                    continue;
                }
                for _ in 0..repeat.max(2) {
                    run_case(&Case { fen: fen.to_string(), moves: vec![], depth: maxdepth, nodes: None, stop: 0, cache: "fresh", tag: "tag=deep".to_string(), tc: NO_TC, vdiv: 0 });
                }
            }
        }
        "xcheck" => {
            // open positions with several queens: long chains of checks answered by checks (extensions on both sides);
            // every case is run twice in a row in this process, only the implementation's own runs are compared
            let mut made = 0usize;
            while made < count {
                let Some(b) = random_profile(&mut rng, 1) else { continue };
                made += 1;
                if !mine(&mut idx) {
                    continue;
                }
                let fen = render_fen(&b);
                let d = 2 + (made % usize::from(maxdepth.max(2) - 1)) as u8;
                for _ in 0..repeat.max(2) {
                    run_case(&Case { fen: fen.clone(), moves: vec![], depth: d, nodes: None, stop: 0, cache: "fresh", tag: "tag=deep".to_string(), tc: NO_TC, vdiv: 0 });
                }
                // … and once more the way `bench` searches (no limits object, the depth given to `search` only): same position, same
                // depth, empty cache — the same result
                BENCH_PATH.store(true, Ordering::Relaxed);
                run_case(&Case { fen: fen.clone(), moves: vec![], depth: d, nodes: None, stop: 0, cache: "fresh", tag: "tag=deep".to_string(), tc: NO_TC, vdiv: 0 });
                BENCH_PATH.store(false, Ordering::Relaxed);
            }
        }
        "promo" => {
            // pawns one or two steps from promotion next to capturable pieces, material far from balanced, cache neutralised:
            // capture-promotions inside the quiescence search, root score vs plain minimax (C11)
            let mut made = 0usize;
            while made < count {
                let Some(mut b) = random_profile(&mut rng, 2) else { continue };
                if b.get_legal_moves().is_empty() {
                    continue;
                }
                made += 1;
                if !mine(&mut idx) {
                    continue;
                }
                let fen = render_fen(&b);
                for d in 1..=maxdepth {
                    run_case(&Case { fen: fen.clone(), moves: vec![], depth: d, nodes: None, stop: 0, cache: "off", tag: String::new(), tc: NO_TC, vdiv: 0 });
                }
            }
        }
        "kb" => {
            // a full search of a position, then — cache kept — searches of positions two plies further on (which the first
            // search met as inner nodes) cut short inside their first iteration by tiny node budgets and early stops:
            // whatever the cache says about such a position, the answer must be one of its legal moves
            for (fen, moves0) in pos.iter().take(count) {
                if !mine(&mut idx) {
                    continue;
                }
                run_case(&Case { fen: fen.clone(), moves: moves0.clone(), depth: maxdepth, nodes: None, stop: 0, cache: "fresh", tag: String::new(), tc: NO_TC, vdiv: 0 });
                let Some(mut b) = setup_board(fen, moves0) else { continue };
                let first = b.get_legal_moves();
                let mut tried = 0;
                for m1 in first.iter().take(12) {
                    b.make_move(*m1);
                    let replies = b.get_legal_moves();
                    // prefer replies that give check or leave a pinned / checked side to move
                    let mut pick: Option<Ply> = None;
                    for m2 in &replies {
                        b.make_move(*m2);
                        let chk = b.is_in_check(b.current_turn);
                        b.unmake_move();
                        if chk {
                            pick = Some(*m2);
                            break;
                        }
                    }
                    let pick = pick.or_else(|| if replies.is_empty() { None } else { Some(replies[rng.below(replies.len() as u64) as usize]) });
                    b.unmake_move();
                    let Some(m2) = pick else { continue };
                    let mut mv = moves0.clone();
                    mv.push(m1.to_notation());
                    mv.push(m2.to_notation());
                    let (nodes, stop) = match tried % 4 {
                        0 => (Some(1), 0),
                        1 => (Some(2), 0),
                        2 => (None, 1),
                        _ => (Some(3 + rng.below(6)), 0),
                    };
                    run_case(&Case { fen: fen.clone(), moves: mv.clone(), depth: maxdepth, nodes, stop, cache: "keep", tag: String::new(), tc: NO_TC, vdiv: 0 });
                    // … and every other time a complete, SHALLOWER search of the same position on the warm cache (which may hold a deeper
                    // entry for this very root, with a move that is not legal here): every depth up to the limit must still be reported
                    if tried % 2 == 0 && maxdepth > 2 {
                        run_case(&Case { fen: fen.clone(), moves: mv, depth: maxdepth - 2, nodes: None, stop: 0, cache: "keep", tag: String::new(), tc: NO_TC, vdiv: 0 });
                    }
                    tried += 1;
                    if tried >= 6 {
                        break;
                    }
                }
            }
        }
        "minelost" => {
            // exploration aid (not part of any check): bare king to move against heavy pieces; report searches whose answer
            // allows a mate in one although another legal move does not
            let mut tried = 0u64;
            let mut hits = 0u64;
            while (tried as usize) < count {
                let Some(mut b) = random_profile(&mut rng, 3) else { continue };
                tried += 1;
                if (tried as usize) % of != shard {
                    continue;
                }
                let legal = b.get_legal_moves();
                let mut unsafe_moves = vec![];
                let mut safe = 0;
                for m in &legal {
                    b.make_move(*m);
                    let bad = !mates_in_one(&mut b).is_empty();
                    b.unmake_move();
                    if bad { unsafe_moves.push(*m) } else { safe += 1 }
                }
                if unsafe_moves.is_empty() || safe == 0 {
                    continue;
                }
                let fen = render_fen(&b);
                for d in 1..=maxdepth {
                    TRANSPOSITION_TABLE.write().unwrap().clear();
                    *sv::RECORDER.lock().unwrap() = None;
                    sv::STOP_AT_POLL.store(u64::MAX, Ordering::Relaxed);
                    let mut s = Search::new(&b, Some(SearchLimits::new().depth(Some(d))));
                    s.search(&SimpleEvaluator, Some(d));
                    sv::STOP_AT_POLL.store(0, Ordering::Relaxed);
                    if let Some(bm) = sv::best_move(&s) {
                        if unsafe_moves.iter().any(|u| u.to_notation() == bm.to_notation()) {
                            hits += 1;
                            println!("HIT depth={d} fen=[{fen}] chosen={} safe_moves={safe} unsafe={}", bm.to_notation(), unsafe_moves.len());
                        }
                    }
                }
            }
            println!("MINED tried={tried} hits={hits}");
        }
        "retro" => {
            // analysis stepping BACKWARDS: a position in which the side to move has a single legal move, after which the opponent
            // mates at once; the position after the forced move is searched first, then — cache kept — the position itself
            // (the cached verdict on the only line is the extreme score: window edges, empty move lists and fallbacks meet here)
            let mut made = 0usize;
            let mut tries = 0u64;
            while made < count && tries < 3_000_000 {
                tries += 1;
                let b0 = match rng.below(3) {
                    0 => random_sparse(&mut rng),
                    1 => random_profile(&mut rng, 3),
                    _ => random_profile(&mut rng, 1),
                };
                let Some(mut b) = b0 else { continue };
                let legal = b.get_legal_moves();
                if legal.len() != 1 {
                    continue;
                }
                b.make_move(legal[0]);
                let mates = !mates_in_one(&mut b).is_empty();
                b.unmake_move();
                if !mates {
                    continue;
                }
                made += 1;
                if !mine(&mut idx) {
                    continue;
                }
                let fen = render_fen(&b);
                let d = 2 + (made % 2) as u8;
                run_case(&Case { fen: fen.clone(), moves: vec![legal[0].to_notation()], depth: d, nodes: None, stop: 0, cache: "fresh", tag: String::new(), tc: NO_TC, vdiv: 0 });
                for dd in [d, d + 1, 1] {
                    run_case(&Case { fen: fen.clone(), moves: vec![], depth: dd, nodes: None, stop: 0, cache: "keep", tag: String::new(), tc: NO_TC, vdiv: 0 });
                }
            }
        }
        "game" => {
            // a game as a GUI plays it: search, play the answer, a random reply, search again — the cache is kept throughout
            let plies: usize = arg(args, "plies", 8);
            for (fen, moves0) in pos.iter().take(count) {
                if !mine(&mut idx) {
                    continue;
                }
                let mut moves = moves0.clone();
                for step in 0..plies {
                    let Some(mut b) = setup_board(fen, &moves) else { break };
                    if b.get_legal_moves().is_empty() || b.get_halfmove_clock() >= 98 {
                        break;
                    }
                    let d = if step % 2 == 0 { maxdepth } else { maxdepth.saturating_sub(1).max(1) };
                    let best = run_case_best(&Case { fen: fen.clone(), moves: moves.clone(), depth: d, nodes: None, stop: 0, cache: if step == 0 { "fresh" } else { "keep" }, tag: String::new(), tc: NO_TC, vdiv: 0 });
                    let Some(bm) = best else { break };
                    moves.push(bm.to_notation());
                    b.make_move(bm);
                    let replies = b.get_legal_moves();
                    if replies.is_empty() {
                        break;
                    }
                    let r = replies[rng.below(replies.len() as u64) as usize];
                    moves.push(r.to_notation());
                }
            }
        }
        _ => {}
    }
    println!("END");
}

// ---------------------------------------------------------------------------------------------
// `--mode mate`: positions with a mate in one, a forced mate in two, or an avoidable mate-in-one threat,
// mined by brute force with the engine's own move generator (the driver re-verifies each witness on the rules spec)

fn mates_in_one(b: &mut Board) -> Vec<Ply> {
    let mut out = vec![];
    for m in b.get_legal_moves() {
        b.make_move(m);
        let mated = b.get_legal_moves().is_empty() && b.is_in_check(b.current_turn);
        b.unmake_move();
        if mated {
            out.push(m);
        }
    }
    out
}

/// a move after which every reply allows a mate in one (and there is at least one reply)
fn forced_mate_in_two(b: &mut Board) -> Option<Ply> {
    for m in b.get_legal_moves() {
        b.make_move(m);
        let replies = b.get_legal_moves();
        let mut all = !replies.is_empty();
        for r in replies {
            b.make_move(r);
            let ok = !mates_in_one(b).is_empty();
            b.unmake_move();
            if !ok {
                all = false;
                break;
            }
        }
        b.unmake_move();
        if all {
            return Some(m);
        }
    }
    None
}

/// (a move that allows the opponent a mate in one, a move that does not)
fn avoidable_threat(b: &mut Board) -> Option<(Ply, Ply)> {
    let mut bad = None;
    let mut good = None;
    for m in b.get_legal_moves() {
        b.make_move(m);
        let threat = !mates_in_one(b).is_empty();
        b.unmake_move();
        if threat {
            bad.get_or_insert(m);
        } else {
            good.get_or_insert(m);
        }
    }
    match (bad, good) {
        (Some(x), Some(y)) => Some((x, y)),
        _ => None,
    }
}

fn random_sparse(rng: &mut Rng) -> Option<Board> {
    // kings plus 2..5 random pieces; pawns not on the back ranks; side not to move not in check
    let mut sq: Vec<u8> = (0..64).collect();
    for i in (1..64).rev() {
        let j = rng.below(i as u64 + 1) as usize;
        sq.swap(i, j);
    }
    let mut grid = [None::<(char)>; 64];
    grid[sq[0] as usize] = Some('K');
    grid[sq[1] as usize] = Some('k');
    let n = 2 + rng.below(4) as usize;
    let pcs = ['Q', 'R', 'R', 'B', 'N', 'P', 'q', 'r', 'r', 'b', 'n', 'p', 'Q', 'R'];
    for i in 0..n {
        let c = pcs[rng.below(pcs.len() as u64) as usize];
        let s = sq[2 + i] as usize;
        if (c == 'P' || c == 'p') && (s / 8 == 0 || s / 8 == 7) {
            continue;
        }
        grid[s] = Some(c);
    }
    let mut fen = String::new();
    for rank in (0..8).rev() {
        let mut e = 0;
        for file in 0..8 {
            match grid[rank * 8 + file] {
                None => e += 1,
                Some(c) => {
                    if e > 0 {
                        fen.push_str(&e.to_string());
                        e = 0;
                    }
                    fen.push(c);
                }
            }
        }
        if e > 0 {
            fen.push_str(&e.to_string());
        }
        if rank > 0 {
            fen.push('/');
        }
    }
    let turn = if rng.below(2) == 0 { "w" } else { "b" };
    let fen = format!("{fen} {turn} - - 0 1");
    let b = Board::from_fen(&fen);
    // kings not adjacent and the side that is not to move not in check
    let other = b.current_turn.opposite();
    if b.is_in_check(other) {
        return None;
    }
    Some(b)
}

/// profile 1: kings, two queens each, up to two more pieces each, no pawns (cross-checks);
/// profile 2: kings, one to three far-advanced pawns for one side with enemy pieces on the promotion rank next to them, a few heavy pieces
fn random_profile(rng: &mut Rng, profile: u8) -> Option<Board> {
    let mut sq: Vec<usize> = (0..64).collect();
    for i in (1..64).rev() {
        let j = rng.below(i as u64 + 1) as usize;
        sq.swap(i, j);
    }
    let mut grid = [None::<char>; 64];
    let mut next = 0usize;
    let mut place = |grid: &mut [Option<char>; 64], c: char, want: Option<usize>| {
        if let Some(s) = want {
            if grid[s].is_none() {
                grid[s] = Some(c);
                return;
            }
        }
        while next < 64 {
            let s = sq[next];
            next += 1;
            if grid[s].is_none() && !((c == 'P' || c == 'p') && (s / 8 == 0 || s / 8 == 7)) {
                grid[s] = Some(c);
                return;
            }
        }
    };
    if profile == 4 {
        // castling available to the side to move, the enemy king close to the files the rook lands on, a few helpers: castling
        // that gives check or mates (the check comes from the ROOK's new square, not from the piece "that moved")
        let white = rng.below(2) == 0;
        let (k, r, ek, back) = if white { ('K', 'R', 'k', 0usize) } else { ('k', 'r', 'K', 7usize) };
        grid[back * 8 + 4] = Some(k);
        let both = rng.below(3) == 0;
        let kingside = rng.below(2) == 0;
        if both || kingside {
            grid[back * 8 + 7] = Some(r);
        }
        if both || !kingside {
            grid[back * 8] = Some(r);
        }
        // enemy king two to four ranks away on the d / f file or next to it
        let file = [2usize, 3, 4, 5, 6][rng.below(5) as usize];
        let dist = 2 + rng.below(3) as usize;
        let er = if white { dist } else { 7 - dist };
        if grid[er * 8 + file].is_some() {
            return None;
        }
        grid[er * 8 + file] = Some(ek);
        let helpers: [char; 6] = if white { ['Q', 'B', 'N', 'P', 'R', 'p'] } else { ['q', 'b', 'n', 'p', 'r', 'P'] };
        for _ in 0..(1 + rng.below(4)) {
            place(&mut grid, helpers[rng.below(6) as usize], None);
        }
        let rights: String = match (white, both, kingside) {
            (true, true, _) => "KQ".into(),
            (true, false, true) => "K".into(),
            (true, false, false) => "Q".into(),
            (false, true, _) => "kq".into(),
            (false, false, true) => "k".into(),
            (false, false, false) => "q".into(),
        };
        let fen = format!("{} {} {} - 0 1", grid_placement(&grid), if white { "w" } else { "b" }, rights);
        let b = Board::from_fen(&fen);
        if b.get_piece_count(Kind::King(Color::White)) != 1 || b.get_piece_count(Kind::King(Color::Black)) != 1 || b.is_in_check(b.current_turn.opposite()) {
            return None;
        }
        return Some(b);
    }
    if profile == 3 {
        // a bare king to move against two or three heavy pieces: usually lost in a move or two, with some moves losing at once
        // and others a move later (mate scores of different lengths meet in the cache)
        let white_bare = rng.below(2) == 0;
        let heavy: &[char] = match rng.below(4) {
            0 => &['q', 'r'],
            1 => &['r', 'r'],
            2 => &['q', 'q'],
            _ => &['q', 'r', 'b'],
        };
        place(&mut grid, 'K', None);
        place(&mut grid, 'k', None);
        for c in heavy {
            place(&mut grid, if white_bare { *c } else { c.to_ascii_uppercase() }, None);
        }
        let fen = format!("{} {} - - 0 1", grid_placement(&grid), if white_bare { "w" } else { "b" });
        let b = Board::from_fen(&fen);
        if b.is_in_check(b.current_turn.opposite()) {
            return None;
        }
        return Some(b);
    }
    if profile == 1 {
        for c in ['K', 'k', 'Q', 'Q', 'q', 'q'] {
            place(&mut grid, c, None);
        }
        let extra = ['R', 'B', 'N', 'r', 'b', 'n', 'Q', 'q'];
        for _ in 0..rng.below(5) {
            place(&mut grid, extra[rng.below(extra.len() as u64) as usize], None);
        }
    } else {
        let white = rng.below(2) == 0; // the side with the advanced pawns
        let (pawn, rank, last) = if white { ('P', 5 + rng.below(2) as usize, 7usize) } else { ('p', 2 - rng.below(2) as usize, 0usize) };
        let victims = if white { ['n', 'b', 'r', 'q'] } else { ['N', 'B', 'R', 'Q'] };
        for _ in 0..1 + rng.below(3) {
            let f = rng.below(8) as usize;
            place(&mut grid, pawn, Some(rank * 8 + f));
            for df in [-1i32, 1] {
                let g = f as i32 + df;
                if (0..8).contains(&g) && rng.below(3) != 0 {
                    place(&mut grid, victims[rng.below(4) as usize], Some(last * 8 + g as usize));
                }
            }
        }
        place(&mut grid, 'K', None);
        place(&mut grid, 'k', None);
        let heavy = if white { ['q', 'r', 'r', 'Q', 'n', 'b'] } else { ['Q', 'R', 'R', 'q', 'N', 'B'] };
        for _ in 0..rng.below(4) {
            place(&mut grid, heavy[rng.below(heavy.len() as u64) as usize], None);
        }
    }
    if grid.iter().filter(|c| **c == Some('K')).count() != 1 || grid.iter().filter(|c| **c == Some('k')).count() != 1 {
        return None;
    }
    let turn = if rng.below(2) == 0 { "w" } else { "b" };
    let fen = format!("{} {turn} - - 0 1", grid_placement(&grid));
    let b = Board::from_fen(&fen);
    if b.is_in_check(b.current_turn.opposite()) {
        return None;
    }
    Some(b)
}

/// a set-up in which an en-passant capture uncovers a diagonal attack THROUGH THE SQUARE OF THE CAPTURED PAWN on a cornered king
/// (white to move; the caller mirrors colours): bishop or queen on the long diagonal, own pawn beside the pawn that has just made
/// its double step, the enemy king in the corner behind it, random furniture around
fn ep_discovery_setup(rng: &mut Rng) -> Option<Board> {
    let mut g: [Option<char>; 64] = [None; 64];
    let sq = |f: usize, r: usize| r * 8 + f;
    // diagonal a1-h8: victim pawn on e5 (came from e7), capturer on d5 or f5, slider on a1 / b2 / c3, king on h8 (or g7 with the slider check through f6)
    g[sq(4, 4)] = Some('p');
    let cap_file = if rng.below(2) == 0 { 3 } else { 5 };
    g[sq(cap_file, 4)] = Some('P');
    let sl = [sq(0, 0), sq(1, 1), sq(2, 2)][rng.below(3) as usize];
    g[sl] = Some(if rng.below(3) == 0 { 'Q' } else { 'B' });
    g[sq(7, 7)] = Some('k');
    // the king's neighbours: own men more often than not
    for (f, r, opts) in [(6usize, 7usize, "brnq "), (7, 6, "pp b "), (6, 6, "    p")] {
        let c = opts.chars().nth(rng.below(opts.len() as u64) as usize).unwrap_or(' ');
        if c != ' ' && g[sq(f, r)].is_none() {
            g[sq(f, r)] = Some(c);
        }
    }
    // the white king somewhere harmless, a few more men
    let free: Vec<usize> = (0..64).filter(|s| g[*s].is_none() && *s != sq(4, 5) && *s != sq(4, 6) && *s != sq(5, 5) && *s != sq(3, 3)).collect();
    g[free[rng.below(free.len() as u64) as usize]] = Some('K');
    for _ in 0..rng.below(5) {
        let s = rng.below(64) as usize;
        let c = ['n', 'p', 'P', 'R', 'N', 'r', 'b'][rng.below(7) as usize];
        if g[s].is_none() && s != sq(4, 5) && s != sq(4, 6) && !((c == 'p' || c == 'P') && (s / 8 == 0 || s / 8 == 7)) {
            g[s] = Some(c);
        }
    }
    let fen = format!("{} w - e6 0 {}", super::grid_placement(&g), 2 + rng.below(40));
    let white = Board::from_fen(&fen);
    let b = if rng.below(2) == 0 { white } else { Board::from_fen(&super::walk::mirror_fen_pub(&fen)) };
    if b.is_in_check(b.current_turn.opposite()) || b.get_piece_count(Kind::King(Color::White)) != 1 || b.get_piece_count(Kind::King(Color::Black)) != 1 {
        return None;
    }
    Some(b)
}

/// endings with minor pieces only (plus, sometimes, one pawn): a king in or next to a corner, the other king a knight's move or
/// two squares away, the minor pieces nearby, the cornered side's own man often next to its king (smothering).  Mates in one
/// with two knights, bishop and knight, two bishops, or one minor piece against a king hemmed in by its own piece — the
/// positions an "insufficient material" shortcut gets wrong
fn minor_ending_setup(rng: &mut Rng) -> Option<Board> {
    let mut g: [Option<char>; 64] = [None; 64];
    let sq = |f: i32, r: i32| (r * 8 + f) as usize;
    let on = |f: i32, r: i32| (0..8).contains(&f) && (0..8).contains(&r);
    // the cornered (black, mirrored later) king: the corner itself or a neighbour of it
    let (cf, cr) = [(7, 7), (0, 7), (7, 0), (0, 0)][rng.below(4) as usize];
    let (kf, kr) = loop {
        let f = cf + [0, -1, 1, 0][rng.below(4) as usize];
        let r = cr + [0, 0, 0, if cr == 7 { -1 } else { 1 }][rng.below(4) as usize];
        if on(f, r) {
            break (f, r);
        }
    };
    g[sq(kf, kr)] = Some('k');
    // the attacking king two squares away (opposition or a knight's move)
    let offs = [(0, 2), (2, 0), (0, -2), (-2, 0), (1, 2), (2, 1), (-1, 2), (-2, 1), (1, -2), (2, -1), (-1, -2), (-2, -1), (2, 2), (-2, -2), (2, -2), (-2, 2)];
    let (of_, or_) = offs[rng.below(offs.len() as u64) as usize];
    if !on(kf + of_, kr + or_) {
        return None;
    }
    g[sq(kf + of_, kr + or_)] = Some('K');
    let near = |rng: &mut Rng, g: &[Option<char>; 64], reach: i32| -> Option<usize> {
        for _ in 0..20 {
            let f = kf + rng.below((2 * reach + 1) as u64) as i32 - reach;
            let r = kr + rng.below((2 * reach + 1) as u64) as i32 - reach;
            if on(f, r) && g[sq(f, r)].is_none() {
                return Some(sq(f, r));
            }
        }
        None
    };
    let attackers: &[char] = match rng.below(6) {
        0 => &['N', 'N'],
        1 => &['B', 'N'],
        2 => &['B', 'B'],
        3 => &['N'],
        4 => &['B'],
        _ => &['N', 'N', 'B'],
    };
    for c in attackers {
        let s = near(rng, &g, 3)?;
        g[s] = Some(*c);
    }
    // the cornered side's own men: none, one minor piece, or a pawn, usually right next to the king
    match rng.below(5) {
        0 => {}
        1 | 2 => {
            let s = near(rng, &g, 1)?;
            g[s] = Some(if rng.below(2) == 0 { 'n' } else { 'b' });
        }
        3 => {
            let s = near(rng, &g, 1)?;
            if s / 8 != 0 && s / 8 != 7 {
                g[s] = Some('p');
            }
        }
        _ => {
            let s = near(rng, &g, 2)?;
            g[s] = Some(if rng.below(2) == 0 { 'n' } else { 'b' });
        }
    }
    let fen = format!("{} {} - - 0 1", super::grid_placement(&g), if rng.below(4) == 0 { "b" } else { "w" });
    let white = Board::from_fen(&fen);
    let b = if rng.below(2) == 0 { white } else { Board::from_fen(&super::walk::mirror_fen_pub(&fen)) };
    if b.is_in_check(b.current_turn.opposite()) || b.get_piece_count(Kind::King(Color::White)) != 1 || b.get_piece_count(Kind::King(Color::Black)) != 1 {
        return None;
    }
    Some(b)
}

fn mate_mode(rng: &mut Rng, count: usize, maxdepth: u8, shard: usize, of: usize, cache_off: bool) {
    let mut found = 0usize;
    let mut tries = 0u64;
    let mut per_cat = [0usize; 3];
    while found < count && tries < 2_000_000 {
        tries += 1;
        // a sixth each: sparse random positions, bare king vs heavy pieces, castling set-ups next to the enemy king, random play from the
        // seeds, en-passant discoveries, minor-piece endings
        let src = rng.below(6);
        let mut b = if src == 5 {
            // minor pieces only: two knights, bishop and knight, one minor piece against a hemmed-in king
            match minor_ending_setup(rng) {
                Some(b) => b,
                None => continue,
            }
        } else if src == 0 {
            match random_sparse(rng) {
                Some(b) => b,
                None => continue,
            }
        } else if src == 1 {
            match random_profile(rng, 3) {
                Some(b) => b,
                None => continue,
            }
        } else if src == 3 {
            match random_profile(rng, 4) {
                Some(b) => b,
                None => continue,
            }
        } else if src == 4 {
            // en-passant captures that uncover a diagonal check through the captured pawn's square
            match ep_discovery_setup(rng) {
                Some(b) => b,
                None => continue,
            }
        } else {
            let fen = super::walk::SEEDS[rng.below(super::walk::SEEDS.len() as u64) as usize];
            let mut b = Board::from_fen(fen);
            for _ in 0..(4 + rng.below(50)) {
                let legal = b.get_legal_moves();
                if legal.is_empty() {
                    break;
                }
                let m = legal[rng.below(legal.len() as u64) as usize];
                b.make_move(m);
            }
            Board::from_fen(&render_fen(&b)) // no history, as the property says
        };
        if b.get_legal_moves().is_empty() || b.get_halfmove_clock() > 60 {
            continue;
        }
        let m1 = mates_in_one(&mut b);
        // from the en-passant set-ups keep the mates in one only when the en-passant capture is the ONLY mating move
        if src == 4 && !m1.is_empty() && !m1.iter().all(|m| m.en_passant) {
            continue;
        }
        let (cat, tag) = if !m1.is_empty() {
            (0, format!("tag=m1 wit={}", m1[0].to_notation()))
        } else if let Some(w) = forced_mate_in_two(&mut b) {
            (1, format!("tag=m2 wit={}", w.to_notation()))
        } else if let Some((_bad, good)) = avoidable_threat(&mut b) {
            (2, format!("tag=av wit={}", good.to_notation()))
        } else {
            continue;
        };
        // keep the three categories balanced
        if per_cat[cat] > found / 3 + 2 {
            continue;
        }
        per_cat[cat] += 1;
        found += 1;
        // consume the generator identically in every shard
        let mut depths: Vec<u8> = (1..=maxdepth.max(3)).collect();
        for i in (1..depths.len()).rev() {
            let j = rng.below(i as u64 + 1) as usize;
            depths.swap(i, j);
        }
        if (found - 1) % of != shard {
            continue;
        }
        let fen = render_fen(&b);
        if cache_off {
            // positions rich in forced mates of different lengths, cache neutralised: root score vs plain minimax (C11)
            for d in 2..=maxdepth.max(3) {
                // a handful of queen-heavy positions need a hundred thousand quiescence nodes even at depth 2 or 3: minutes in the model, nothing new
                if heavier_than(&fen, d, 30_000) {
                    println!("# heavy case dropped: depth {d} [{fen}]");
                    continue;
                }
                run_case(&Case { fen: fen.clone(), moves: vec![], depth: d, nodes: None, stop: 0, cache: "off", tag: String::new(), tc: NO_TC, vdiv: 0 });
            }
            continue;
        }
        // fresh at 3 and at the maximum depth, then after earlier searches at the other depths in a random order
        for d in [3u8, maxdepth.max(3)] {
            run_case(&Case { fen: fen.clone(), moves: vec![], depth: d, nodes: None, stop: 0, cache: "fresh", tag: tag.clone(), tc: NO_TC, vdiv: 0 });
        }
        let mut first = true;
        for d in depths {
            run_case(&Case { fen: fen.clone(), moves: vec![], depth: d, nodes: None, stop: 0, cache: if first { "fresh" } else { "keep" }, tag: tag.clone(), tc: NO_TC, vdiv: 0 });
            first = false;
        }
    }
}
