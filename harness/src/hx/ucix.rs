//! `uci`: generated sessions through the real parser (`UCICommand::new`) and the real command loop
//! (`Uci::uci_loop` reading from a buffer), observing the session position after every executed command.
use super::*;
use crate::board::verif as bv;
use crate::uci::verif as uv;

const VOCAB: [&str; 30] = [
    "uci", "isready", "ucinewgame", "stop", "setoption", "name", "value", "Hash", "Threads", "Move", "Overhead", "position",
    "startpos", "fen", "moves", "go", "depth", "nodes", "movetime", "wtime", "btime", "winc", "binc", "infinite",
    "searchmoves", "ponder", "movestogo", "mate", "e2e4", "quit",
];
const JUNK: [&str; 25] = [
    "", "-1", "0", "1", "255", "256", "18446744073709551616", "340282366920938463463374607431768211456", "+5", "1e3", "abc", "0x10", "e7e8k",
    "E2E4", "e2e9", "ä", "name", "value",
    // characters whose lower-case form has another UTF-8 length (an offset computed before lower-casing does not fit after it)
    "ȺȾ", "İ", "K", "ẞx", "ÉÄ", "Ω", "aȺ",
];

fn rand_game(rng: &mut Rng, fen: &str, max: u64) -> (Vec<String>, Vec<Board>) {
    let mut b = Board::from_fen(fen);
    let mut moves = vec![];
    let mut boards = vec![b.clone()];
    for _ in 0..rng.below(max + 1) {
        let legal = b.get_legal_moves();
        if legal.is_empty() {
            break;
        }
        // bias towards special moves
        let special: Vec<&Ply> = legal.iter().filter(|m| m.is_castles || m.en_passant || m.promoted_to.is_some()).collect();
        let m = if !special.is_empty() && rng.below(3) == 0 { *special[rng.below(special.len() as u64) as usize] } else { legal[rng.below(legal.len() as u64) as usize] };
        moves.push(m.to_notation());
        b.make_move(m);
        boards.push(b.clone());
    }
    (moves, boards)
}

/// a different ORDER of the same move strings that is also a legal game from `fen` (moves of one colour swapped among
/// themselves), if a few random tries find one; the two orders may or may not reach the same position
fn transposed(rng: &mut Rng, fen: &str, moves: &[String]) -> Option<Vec<String>> {
    if moves.len() < 3 {
        return None;
    }
    for _ in 0..40 {
        let mut t = moves.to_vec();
        let i = rng.below(t.len() as u64) as usize;
        let mut j = rng.below(t.len() as u64) as usize;
        if (i + j) % 2 == 1 {
            j = (j + 1) % t.len();
        }
        if i == j || t[i] == t[j] {
            continue;
        }
        t.swap(i, j);
        let mut b = Board::from_fen(fen);
        let mut ok = true;
        for m in &t {
            match b.get_legal_moves().iter().find(|x| &x.to_notation() == m) {
                Some(x) => {
                    let x = *x;
                    b.make_move(x);
                }
                None => {
                    ok = false;
                    break;
                }
            }
        }
        if ok {
            return Some(t);
        }
    }
    None
}

fn corrupt(rng: &mut Rng, moves: &mut Vec<String>, boards: &[Board]) {
    if moves.is_empty() {
        moves.push("e2e5".into());
        return;
    }
    let i = rng.below(moves.len() as u64) as usize;
    match rng.below(8) {
        7 => {
            // an over-long move token with multi-byte characters at odd byte offsets
            let mut t = moves[i].clone();
            for k in 0..(24 + rng.below(40)) {
                t.push(['é', '€', 'ß', '𝄞'][((k + rng.below(2)) % 4) as usize]);
            }
            moves[i] = t;
        }
        0 => moves[i] = "a1h8".into(),
        1 => moves[i] = format!("{}k", &moves[i][..4]),
        2 => moves[i] = moves[i].to_uppercase(),
        3 => {
            // castling written as king-takes-rook
            moves[i] = if boards[i].current_turn == Color::White { "e1h1".into() } else { "e8h8".into() }
        }
        4 => moves[i] = moves[i][..3].to_string(),
        5 => {
            // a promotion suffix on a non-promotion, or a missing one
            if moves[i].len() == 5 {
                moves[i] = moves[i][..4].to_string();
            } else {
                moves[i] = format!("{}q", moves[i]);
            }
        }
        _ => {
            // a move legal for the other side
            // the same placement with the other side to move (built through FEN, en-passant square cleared)
            let fen = render_fen(&boards[i]);
            let f: Vec<&str> = fen.split(' ').collect();
            let other = format!("{} {} {} - {} {}", f[0], if f[1] == "w" { "b" } else { "w" }, f[2], f[4], f[5]);
            let mut b = Board::from_fen(&other);
            if !b.is_in_check(b.current_turn.opposite()) {
                if let Some(m) = b.get_legal_moves().first() {
                    moves[i] = m.to_notation();
                }
            } else {
                moves[i] = "a1h8".into();
            }
        }
    }
}

fn position_line(rng: &mut Rng, corrupt_it: bool) -> String {
    let fen = super::walk::SEEDS[rng.below(super::walk::SEEDS.len() as u64) as usize];
    let start = rng.below(3) == 0;
    let base = if start { super::walk::SEEDS[0] } else { fen };
    let (mut moves, boards) = rand_game(rng, base, 24);
    if corrupt_it {
        corrupt(rng, &mut moves, &boards);
    }
    let head = if start { "position startpos".to_string() } else { format!("position fen {base}") };
    match rng.below(8) {
        0 => head,
        1 if !moves.is_empty() => format!("{head} {}", moves.join(" ")), // `moves` keyword forgotten
        _ => {
            if moves.is_empty() {
                head
            } else {
                format!("{head} moves {}", moves.join(" "))
            }
        }
    }
}

fn junk_line(rng: &mut Rng) -> String {
    // now and then a line that is blank but not empty
    if rng.below(40) == 0 {
        return [" ", "\t", "   ", " \t  \t", "\r", " \r"][rng.below(6) as usize].to_string();
    }
    let n = rng.below(7);
    let mut toks: Vec<String> = vec![];
    for _ in 0..n {
        if rng.below(3) == 0 {
            toks.push(JUNK[rng.below(JUNK.len() as u64) as usize].to_string());
        } else {
            toks.push(VOCAB[rng.below(VOCAB.len() as u64) as usize].to_string());
        }
    }
    // never a bare quit in the middle, never `position fen` with junk (FEN arguments are assumed valid), never a real `go`
    if rng.below(12) == 0 {
        // an over-long token with multi-byte characters at odd offsets (a byte-indexed cut can land inside one)
        let mut t = "x".repeat(1 + rng.below(4) as usize);
        for i in 0..(20 + rng.below(60)) {
            t.push(['é', 'ß', '€', '𝄞', 'a'][((i + rng.below(2)) % 5) as usize]);
        }
        toks.insert(rng.below(toks.len() as u64 + 1) as usize, t);
    }
    let line = toks.join(if rng.below(5) == 0 { "  \t " } else { " " });
    let t: Vec<&str> = line.split_whitespace().collect();
    if t.first() == Some(&"quit") || (t.first() == Some(&"position") && t.get(1) == Some(&"fen")) || t.first() == Some(&"go") {
        return format!("x{line}");
    }
    line
}

const EDGE_NUMS: [&str; 16] = ["0", "1", "2", "255", "256", "65535", "65536", "2147483647", "2147483648", "4294967295", "4294967296",
    "9223372036854775807", "9223372036854775808", "18446744073709551615", "18446744073709551616", "00"];

fn go_line(rng: &mut Rng) -> String {
    // only ever *parsed* in-process (P lines); never executed
    let keys = ["depth", "nodes", "movetime", "wtime", "btime", "winc", "binc", "infinite", "searchmoves", "ponder", "mate", "movestogo", "bogus"];
    let mut s = "go".to_string();
    for _ in 0..rng.below(6) {
        s.push(' ');
        s.push_str(keys[rng.below(keys.len() as u64) as usize]);
        if rng.below(4) != 0 {
            s.push(' ');
            match rng.below(6) {
                0 => s.push_str(JUNK[rng.below(JUNK.len() as u64) as usize]),
                // numbers on the edges of the integer types: zero divisors, off-by-one, overflow
                1 | 2 | 3 => s.push_str(EDGE_NUMS[rng.below(EDGE_NUMS.len() as u64) as usize]),
                _ => s.push_str(&rng.below(100_000).to_string()),
            }
        }
    }
    s
}

/// `--sessions N --shard i --of n --seed S`
pub fn uci_stream(args: &[String]) {
    let sessions: u64 = arg(args, "sessions", 100);
    let shard: u64 = arg(args, "shard", 0);
    let of: u64 = arg(args, "of", 1);
    let seed: u64 = arg(args, "seed", 1);
    let mut rng = Rng(seed.wrapping_mul(0x1000_0000_01B3).wrapping_add(991));
    for sidx in 0..sessions {
        let mut lines: Vec<String> = vec![];
        let n = 2 + rng.below(10);
        if rng.below(6) == 0 {
            // two DIFFERENT start positions from which the same move strings are legal (same placement, another move number /
            // clock, or `startpos` against its FEN), visited alternately with growing, shrinking and refused move lists and with
            // bare positions in between: whatever the engine remembers of the previous command must not leak into this one
            let fen = super::walk::SEEDS[rng.below(super::walk::SEEDS.len() as u64) as usize];
            let start = rng.below(2) == 0;
            let base = if start { super::walk::SEEDS[0] } else { fen };
            let f: Vec<&str> = base.split(' ').collect();
            let a = if start { "position startpos".to_string() } else { format!("position fen {base}") };
            let b = format!("position fen {} {} {} {} {} {}", f[0], f[1], f[2], f[3], rng.below(40), 2 + rng.below(90));
            let other = super::walk::SEEDS[rng.below(super::walk::SEEDS.len() as u64) as usize];
            let (moves, _) = rand_game(&mut rng, base, 10);
            let pre = |h: &str, k: usize| if k == 0 { h.to_string() } else { format!("{h} moves {}", moves[..k].join(" ")) };
            let mut k = moves.len().min(1 + rng.below(3) as usize);
            for _ in 0..(4 + rng.below(8)) {
                let h = if rng.below(2) == 0 { &a } else { &b };
                match rng.below(7) {
                    0 => lines.push(format!("{h} moves {} e9e9", moves[..k].join(" "))), // refused
                    1 => lines.push(format!("{h} moves zz")),                              // refused at once
                    2 => lines.push(format!("position fen {other}")),                      // a bare other position
                    3 => lines.push(h.to_string()),                                        // the bare start
                    4 => {
                        k = k.saturating_sub(1 + rng.below(2) as usize);
                        lines.push(pre(h, k));
                    }
                    _ => {
                        k = (k + 1 + rng.below(2) as usize).min(moves.len());
                        lines.push(pre(h, k));
                    }
                }
            }
        }
        if rng.below(4) == 0 {
            // the same move strings in another legal order (a transposition, or a different game made of the same strings):
            // sent right after each other, extended, shortened — the position must be the one of the list just sent
            let fen = super::walk::SEEDS[rng.below(super::walk::SEEDS.len() as u64) as usize];
            let start = rng.below(2) == 0;
            let base = if start { super::walk::SEEDS[0] } else { fen };
            let head = if start { "position startpos".to_string() } else { format!("position fen {base}") };
            let (moves, _) = rand_game(&mut rng, base, 9);
            if let Some(t) = transposed(&mut rng, base, &moves) {
                let line = |v: &[String]| if v.is_empty() { head.clone() } else { format!("{head} moves {}", v.join(" ")) };
                // continuations of the second order
                let mut ext = t.clone();
                let mut b = Board::from_fen(base);
                for m in &t {
                    if let Some(x) = b.get_legal_moves().iter().find(|x| &x.to_notation() == m).copied() {
                        b.make_move(x);
                    }
                }
                for _ in 0..2 {
                    let legal = b.get_legal_moves();
                    if legal.is_empty() {
                        break;
                    }
                    let x = legal[rng.below(legal.len() as u64) as usize];
                    ext.push(x.to_notation());
                    b.make_move(x);
                }
                lines.push(line(&moves));
                lines.push(line(&t));
                lines.push(line(&ext[..(t.len() + 1).min(ext.len())]));
                lines.push(line(&ext));
                lines.push(line(&moves));
                let mut back = moves.clone();
                back.extend(ext[t.len()..].iter().cloned()); // the continuation of the other order: legal or refused, as the rules say
                lines.push(line(&back));
                lines.push(line(&t[..t.len() - 1]));
            }
        }
        if rng.below(3) == 0 {
            // an incremental game: the same start with a growing move list, re-sent prefixes, and other commands in between
            let fen = super::walk::SEEDS[rng.below(super::walk::SEEDS.len() as u64) as usize];
            let start = rng.below(2) == 0;
            let base = if start { super::walk::SEEDS[0] } else { fen };
            let head = if start { "position startpos".to_string() } else { format!("position fen {base}") };
            let (moves, _) = rand_game(&mut rng, base, 14);
            let mut k = 0usize;
            while k <= moves.len() {
                // now and then the GUI re-sends the game from a FEN that differs from the first one in its two counters only
                // (same placement, side, rights, en-passant square): it is a different start position all the same
                let head = if !start && rng.below(4) == 0 {
                    let f: Vec<&str> = base.split(' ').collect();
                    format!("position fen {} {} {} {} {} {}", f[0], f[1], f[2], f[3], rng.below(60), 1 + rng.below(200))
                } else {
                    head.clone()
                };
                let l = if k == 0 { head.clone() } else { format!("{head} moves {}", moves[..k].join(" ")) };
                lines.push(l);
                match rng.below(6) {
                    0 => lines.push("ucinewgame".to_string()),
                    1 => lines.push("isready".to_string()),
                    2 => {
                        // re-send a shorter prefix (take-back in the GUI)
                        let j = rng.below(k as u64 + 1) as usize;
                        lines.push(if j == 0 { head.clone() } else { format!("{head} moves {}", moves[..j].join(" ")) });
                    }
                    3 => {
                        let c = rng.below(2) == 0;
                        lines.push(position_line(&mut rng, c));
                    }
                    _ => {}
                }
                k += 1 + rng.below(2) as usize;
            }
        }
        if sidx % 160 == 5 {
            // a very long game in ONE position line (thousands of bytes: past any line buffer of 4 KiB, 8 KiB, 16 KiB …), sent as a
            // whole, then one ply longer, then with the last token corrupted: the session position must be the end of the whole list
            let plies = [805usize, 812, 830, 1640, 1650, 3300, 6600][(sidx / 160 % 7) as usize];
            let start = rng.below(2) == 0;
            let head = if start { "position startpos".to_string() } else { format!("position fen {}", super::walk::SEEDS[0]) };
            let mut b = Board::from_fen(super::walk::SEEDS[0]);
            let mut moves: Vec<String> = vec![];
            while moves.len() < plies {
                let legal = b.get_legal_moves();
                if legal.is_empty() {
                    break;
                }
                // mostly quiet piece moves, so that the game goes on
                let quiet: Vec<&Ply> = legal.iter().filter(|m| m.captured_piece.is_none() && !matches!(m.piece, Kind::Pawn(_))).collect();
                let m = if !quiet.is_empty() && rng.below(8) != 0 { *quiet[rng.below(quiet.len() as u64) as usize] } else { legal[rng.below(legal.len() as u64) as usize] };
                moves.push(m.to_notation());
                b.make_move(m);
            }
            if moves.len() > 3 {
                lines.push(format!("{head} moves {}", moves[..moves.len() - 1].join(" ")));
                lines.push(format!("{head} moves {}", moves.join(" ")));
                lines.push(format!("{head} moves {} e2e9", moves.join(" ")));
                lines.push(format!("{head} moves {}", moves[..moves.len() / 2].join(" ")));
            }
        }
        for _ in 0..n {
            let l = match rng.below(10) {
                0 | 1 | 2 => position_line(&mut rng, false),
                3 | 4 => position_line(&mut rng, true),
                5 => "isready".to_string(),
                6 => "ucinewgame".to_string(),
                7 => {
                    let opts = ["setoption name ȺȾ value 1", "setoption name İ value x", "setoption name KK value 2", "setoption name ẞ Ⱥ value Ω", "setoption name aȺ", "setoption name x value ȺȾİ",
                        "setoption name Hash value 16", "setoption name value", "setoption value x name y", "setoption name Move Overhead value 30", "setoption name", "setoption", "setoption name Threads", "setoption name A value", "stop", "uci",
                        "position", "position fen", "position fen 8/8/8/8/8/8/8/8 w - -", "position fen rnbqkbnr/pppppppp/8/8/8/8/PPPPPPPP/RNBQKBNR w KQkq -", "setoption x name", "setoption Hash name", "setoption value name",
                        "position moves e2e4", "position startpos moves", "position startpos e2e4", "setoption name Hash value", "isready extra tokens"];
                    opts[rng.below(opts.len() as u64) as usize].to_string()
                }
                _ => junk_line(&mut rng),
            };
            lines.push(l);
        }
        lines.push("isready".to_string());
        if rng.below(2) == 0 {
            lines.push("quit".to_string());
            lines.push("isready".to_string()); // never reached
        }
        // the in-process loop always ends through `quit` (end of input is exercised on the real binary)
        lines.push("quit".to_string());
        if sidx % of != shard {
            continue;
        }
        println!("U {sidx}");
        // parser verdict per line (plus a few go lines that are parsed but never run)
        let mut parse_only = lines.clone();
        for _ in 0..4 {
            parse_only.push(go_line(&mut rng));
        }
        for l in &parse_only {
            let fields: Vec<&str> = l.trim().split_whitespace().collect();
            let verdict = std::panic::catch_unwind(|| uv::parse_kind(&fields)).unwrap_or_else(|_| "panic".to_string());
            println!("I {l}");
            println!("P {verdict}");
        }
        // the real loop over the executable lines
        println!("E {}", lines.len());
        *uv::BOARD_LOG.lock().unwrap() = Some(Vec::new());
        let input = lines.join("\n") + "\n";
        let outcome = std::panic::catch_unwind(|| uv::run_session(input.as_bytes()));
        let log = uv::BOARD_LOG.lock().unwrap().take().unwrap_or_default();
        for d in &log {
            println!("B {d}");
        }
        match outcome {
            Ok(fin) => println!("F {fin}"),
            Err(_) => println!("X panic"),
        }
    }
    println!("END");
}
