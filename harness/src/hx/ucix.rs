use super::*;
pub fn uci_stream(_args: &[String]) {}
