//! `walk`: systematic and random position walks; one observation block per position.
//! `fen`: generated FEN family loaded through `Board::from_fen`.
use super::*;
use crate::board::verif as bv;
use crate::evaluate::simple_evaluator::SimpleEvaluator;
use crate::evaluate::Evaluator;
use std::io::Write;

pub const SEEDS: [&str; 50] = [
    "rnbqkbnr/pppppppp/8/8/8/8/PPPPPPPP/RNBQKBNR w KQkq - 0 1",
    "r3k2r/p1ppqpb1/bn2pnp1/3PN3/1p2P3/2N2Q1p/PPPBBPPP/R3K2R w KQkq - 0 1",
    "8/2p5/3p4/KP5r/1R3p1k/8/4P1P1/8 w - - 0 1",
    "r3k2r/Pppp1ppp/1b3nbN/nP6/BBP1P3/q4N2/Pp1P2PP/R2Q1RK1 w kq - 0 1",
    "r2q1rk1/pP1p2pp/Q4n2/bbp1p3/Np6/1B3NBn/pPPP1PPP/R3K2R b KQ - 0 1",
    "rnbq1k1r/pp1Pbppp/2p5/8/2B5/8/PPP1NnPP/RNBQK2R w KQ - 1 8",
    "r4rk1/1pp1qppp/p1np1n2/2b1p1B1/2B1P1b1/P1NP1N2/1PP1QPPP/R4RK1 w - - 0 10",
    "4k3/P6P/8/8/8/8/p6p/4K3 w - - 0 1",
    "r3k2r/8/8/8/8/8/8/R3K2R w KQkq - 0 1",
    "r3k2r/8/8/8/8/8/8/R3K2R b KQkq - 0 1",
    "8/8/8/8/k2Pp2Q/8/8/3K4 b - d3 0 1",
    "8/8/8/2k5/2pP4/8/B7/4K3 b - d3 0 3",
    "3k4/3p4/8/K1P4r/8/8/8/8 b - - 0 1",
    "8/8/4k3/8/2p5/8/B2P2K1/8 w - - 0 1",
    "8/8/1k6/2b5/2pP4/8/5K2/8 b - d3 0 1",
    "5k2/8/8/8/8/8/8/4K2R w K - 0 1",
    "3k4/8/8/8/8/8/8/R3K3 w Q - 0 1",
    "r3k2r/1b4bq/8/8/8/8/7B/R3K2R w KQkq - 0 1",
    "r3k2r/8/3Q4/8/8/5q2/8/R3K2R b KQkq - 0 1",
    "2K2r2/4P3/8/8/8/8/8/3k4 w - - 0 1",
    "8/8/1P2K3/8/2n5/1q6/8/5k2 b - - 0 1",
    "4k3/1P6/8/8/8/8/K7/8 w - - 0 1",
    "8/P1k5/K7/8/8/8/8/8 w - - 0 1",
    "K1k5/8/P7/8/8/8/8/8 w - - 0 1",
    "8/k1P5/8/1K6/8/8/8/8 w - - 0 1",
    "8/8/2k5/5q2/5n2/8/5K2/8 b - - 0 1",
    "rnb1kbnr/pp1pp1pp/1qp2p2/8/Q1P5/N7/PP1PPPPP/1RB1KBNR b Kkq - 2 4",
    "r1bqkb1r/pppp1ppp/2n2n2/4p2Q/2B1P3/8/PPPP1PPP/RNB1K1NR w KQkq - 4 4",
    "rnbqkb1r/ppppp1pp/7n/4Pp2/8/8/PPPP1PPP/RNBQKBNR w KQkq f6 0 3",
    "r1b1k2r/ppppnppp/2n2q2/2b5/3NP3/2P1B3/PP3PPP/RN1QKB1R w KQkq - 3 7",
    "8/5bk1/8/2Pp4/8/1K6/8/8 w - d6 0 1",
    "8/8/8/8/1k3p1R/8/4P3/4K3 w - - 0 1",
    "4k2r/8/8/8/8/8/8/4K2R w Kk - 98 70",
    "r1bq1rk1/pp2b1pp/n1pp1n2/3P1p2/2P1p3/2N1P2N/PP2BPPP/R1BQ1RK1 b - - 2 10",
    "1r2k2r/8/8/8/8/8/8/R3K2R w KQk - 0 1",
    "2r1k2r/8/8/8/8/8/8/R3K2R w KQk - 0 1",
    "r3k2r/8/8/8/8/8/1p4p1/R3K2R b KQkq - 0 1",
    "n1n5/PPPk4/8/8/8/8/4Kppp/5N1N b - - 0 1",
    "6b1/r1k3P1/5p2/4p3/4r1p1/2p3P1/2q1P1PB/5BRK b - - 0 39",
    "k7/8/8/3pP3/8/8/8/K3R3 w - d6 0 2",
    // every kind of piece that can take an unmoved rook on its corner while the right is still recorded
    "r3k2r/1K6/8/8/8/8/8/8 w kq - 0 1",
    "8/8/8/8/8/8/6k1/R3K2R b KQ - 0 1",
    "r3k2r/8/8/8/8/8/1B4B1/4K3 w kq - 0 1",
    "4k3/1b4b1/8/8/8/8/8/R3K2R b KQ - 0 1",
    "r3k2r/8/1N4N1/8/8/8/8/4K3 w kq - 0 1",
    "4k3/8/8/8/8/1n4n1/8/R3K2R b KQ - 0 1",
    "r3k2r/8/8/8/8/8/8/Q3K2Q w kq - 0 1",
    "q3k2q/8/8/8/8/8/8/R3K2R b KQ - 0 1",
    "r3k2r/1P4P1/8/8/8/8/8/4K3 w kq - 0 1",
    "4k3/8/8/8/8/8/1p4p1/R3K2R b KQ - 0 1",
];

pub fn mirror_fen_pub(fen: &str) -> String {
    mirror_fen(fen)
}

fn mirror_fen(fen: &str) -> String {
    let f: Vec<&str> = fen.split(' ').collect();
    let rows: Vec<String> = f[0]
        .split('/')
        .rev()
        .map(|r| {
            r.chars()
                .map(|c| if c.is_ascii_uppercase() { c.to_ascii_lowercase() } else { c.to_ascii_uppercase() })
                .collect()
        })
        .collect();
    let turn = if f[1] == "w" { "b" } else { "w" };
    let mut cs = String::new();
    for (a, b) in [('k', 'K'), ('q', 'Q'), ('K', 'k'), ('Q', 'q')] {
        if f[2].contains(a) {
            cs.push(b);
        }
    }
    if cs.is_empty() {
        cs.push('-');
    }
    let ep = if f[3] == "-" {
        "-".to_string()
    } else {
        let b = f[3].as_bytes();
        format!("{}{}", b[0] as char, if b[1] == b'6' { '3' } else { '6' })
    };
    format!("{} {} {} {} {} {}", rows.join("/"), turn, cs, ep, f[4], f[5])
}

/// (d) two pieces of the side to move pinned against their king along two different lines (every pair of the eight
///     directions, the pinned piece one or two steps from the king, every kind of pinned piece): a pinned piece may move along
///     ITS line only — never onto the other pin's line.
pub fn pin_fens() -> Vec<String> {
    let mut v = vec![];
    let dirs: [(i32, i32); 8] = [(1, 0), (-1, 0), (0, 1), (0, -1), (1, 1), (1, -1), (-1, 1), (-1, -1)];
    let (kr, kf) = (3i32, 3i32); // d4
    let at = |r: i32, f: i32| (r * 8 + f) as usize;
    for a in 0..8 {
        for b in (a + 1)..8 {
            for (ka, kb) in [('N', 'N'), ('N', 'B'), ('B', 'R'), ('R', 'N'), ('Q', 'N'), ('R', 'B'), ('Q', 'R'), ('B', 'Q'), ('P', 'N'), ('N', 'P')] {
                for (da, db) in [(1, 1), (1, 2), (2, 1), (2, 2)] {
                    let mut g = [None::<char>; 64];
                    g[at(kr, kf)] = Some('K');
                    for (d, kind, dist) in [(dirs[a], ka, da), (dirs[b], kb, db)] {
                        g[at(kr + d.0 * dist, kf + d.1 * dist)] = Some(kind);
                        let orth = d.0 == 0 || d.1 == 0;
                        g[at(kr + d.0 * 3, kf + d.1 * 3)] = Some(if orth { 'r' } else { 'b' });
                    }
                    // the other king on a square off all eight lines through d4
                    for ks in [57usize, 62, 47, 5, 2] {
                        if g[ks].is_none() {
                            g[ks] = Some('k');
                            break;
                        }
                    }
                    v.push(format!("{} w - - 0 1", grid_placement(&g)));
                }
            }
        }
    }
    v
}

/// (e) castling next to a line piece's business: the enemy king on the file of the castling rook's home square or of its
///     destination square, one enemy piece in between (so that the rook pins it before castling or after it, not both), every
///     kind of blocker; the caller plays every move of these positions one after the other ON THE SAME BOARD (castle, take
///     back, next move): whatever the board remembers about pins while the rook stood elsewhere must not leak.
pub fn castle_pin_fens() -> Vec<String> {
    let mut v = vec![];
    for white in [true, false] {
        // (rook home, rook destination after castling, right letter)
        let sides: [(usize, usize, &str); 2] = if white { [(0, 3, "Q"), (7, 5, "K")] } else { [(56, 59, "q"), (63, 61, "k")] };
        for (home, dest, right) in sides {
            for file_sq in [home, dest] {
                let file = file_sq % 8;
                for kdist in 4..8usize {
                    for bdist in 1..kdist {
                        for blocker in ['n', 'b', 'r', 'q', 'p'] {
                            // ranks counted from the castling side's back rank
                            let rank = |d: usize| if white { d } else { 7 - d };
                            if blocker == 'p' && (rank(bdist) == 0 || rank(bdist) == 7) {
                                continue;
                            }
                            let up = |c: char| if white { c } else { c.to_ascii_uppercase() };
                            let mut g = [None::<char>; 64];
                            g[if white { 4 } else { 60 }] = Some(if white { 'K' } else { 'k' });
                            g[home] = Some(if white { 'R' } else { 'r' });
                            g[rank(kdist) * 8 + file] = Some(up('k'));
                            g[rank(bdist) * 8 + file] = Some(up(blocker));
                            // a spare pawn of the castling side: quiet sibling moves that touch no line of either king
                            let spare = if white { if file == 7 { 8 } else { 15 } } else if file == 7 { 48 } else { 55 };
                            if g[spare].is_none() {
                                g[spare] = Some(if white { 'P' } else { 'p' });
                            }
                            // a spare enemy knight on a square that comes AFTER the enemy king in square order (the legality probes
                            // run in that order: what the last probes leave behind is what the next position inherits)
                            let spare_n = if white { if file == 7 { 56 } else { 63 } } else if right == "k" { 48 } else { 55 };
                            if g[spare_n].is_none() {
                                g[spare_n] = Some(up('n'));
                            }
                            v.push(format!("{} {} {} - 0 1", grid_placement(&g), if white { "w" } else { "b" }, right));
                        }
                    }
                }
            }
        }
    }
    v
}

/// (f) small endgames, placed at random but with the features endgame knowledge keys on: a bare king in or next to a corner,
///     pawns on the rook files, bishops of either square colour, every signature both ways round and with either side to move
pub fn endgame_fens(seed: u64) -> Vec<String> {
    let mut rng = Rng(seed.wrapping_mul(0x9E37_79B9_7F4A_7C15).wrapping_add(17));
    let sigs: [&str; 18] = ["B", "N", "BP", "NP", "BB", "NN", "BN", "P", "PP", "R", "Q", "RP", "BPP", "NPP", "RB", "RN", "QP", "BBP"];
    let corners = [0usize, 7, 56, 63, 1, 8, 6, 15, 48, 57, 55, 62, 9, 14, 49, 54];
    let mut v = vec![];
    for sig in sigs {
        for _ in 0..14 {
            let mut g = [None::<char>; 64];
            let bk = corners[rng.below(corners.len() as u64) as usize];
            g[bk] = Some('k');
            let mut put = |g: &mut [Option<char>; 64], c: char, rng: &mut Rng| {
                for _ in 0..200 {
                    let s = if c == 'P' {
                        // mostly rook files
                        let f = if rng.below(4) != 0 { [0usize, 7][rng.below(2) as usize] } else { rng.below(8) as usize };
                        (1 + rng.below(6) as usize) * 8 + f
                    } else {
                        rng.below(64) as usize
                    };
                    if g[s].is_none() {
                        g[s] = Some(c);
                        return;
                    }
                }
            };
            put(&mut g, 'K', &mut rng);
            for c in sig.chars() {
                put(&mut g, c, &mut rng);
            }
            for turn in ["w", "b"] {
                v.push(format!("{} {} - - 0 1", grid_placement(&g), turn));
            }
        }
    }
    v
}

/// (c) every piece kind of either colour on every square it can stand on, with bare kings, its owner to move: the caller
///     plays every move of these positions (the piece leaves the square, is captured on it when next to the enemy king,
///     kings step around it): every (kind, square) word of the incremental key is added or removed at least once.
pub fn piece_square_fens() -> Vec<String> {
    let mut v = vec![];
    for (c, white) in [('Q', true), ('R', true), ('B', true), ('N', true), ('P', true), ('K', true), ('q', false), ('r', false), ('b', false), ('n', false), ('p', false), ('k', false)] {
        for sq in 0..64usize {
            if (c == 'P' || c == 'p') && (sq / 8 == 0 || sq / 8 == 7) {
                continue;
            }
            let mut g = [None::<char>; 64];
            g[sq] = Some(c);
            if c == 'K' || c == 'k' {
                // the other king far away
                let other = if sq / 8 < 4 { 60 } else { 4 };
                g[other] = Some(if c == 'K' { 'k' } else { 'K' });
            } else {
                let wk = if sq == 4 { 3 } else { 4 };
                let bk = if sq == 60 { 59 } else { 60 };
                g[wk] = Some('K');
                g[bk] = Some('k');
            }
            v.push(format!("{} {} - - 0 1", grid_placement(&g), if white { "w" } else { "b" }));
        }
    }
    v
}

/// Structured families that random play rarely reaches (white-to-move form; the caller adds the colour-flipped twin):
/// (a) the castling set-up with one extra enemy piece of every kind on every free square (castling out of, through
///     and into every kind of attack, incl. pawn attacks on every path square);
/// (b) an en-passant capture available on every file, with one or two capturing pawns, with the king safe, with the
///     king on the capture rank facing a rook or queen behind the two pawns, and with a bishop behind the captured pawn.
pub fn matrix_fens() -> Vec<String> {
    let mut v = vec![];
    let put = |g: &mut [Option<char>; 64], sq: usize, c: char| g[sq] = Some(c);
    for extra in ['p', 'n', 'b', 'r', 'q'] {
        for sq in 0..64usize {
            let mut g = [None::<char>; 64];
            for (s, c) in [(0, 'R'), (4, 'K'), (7, 'R'), (56, 'r'), (60, 'k'), (63, 'r')] {
                put(&mut g, s, c);
            }
            if g[sq].is_some() || (extra == 'p' && (sq / 8 == 0 || sq / 8 == 7)) {
                continue;
            }
            put(&mut g, sq, extra);
            v.push(format!("{} w KQkq - 0 1", grid_placement(&g)));
        }
    }
    for f in 0..8usize {
        for pawns in 1..=3u8 {
            // bit 0: capturer on the left, bit 1: capturer on the right
            if (pawns & 1 != 0 && f == 0) || (pawns & 2 != 0 && f == 7) {
                continue;
            }
            for setup in 0..5u8 {
                let mut g = [None::<char>; 64];
                put(&mut g, 32 + f, 'p'); // the pawn that has just advanced two squares to the fifth rank
                if pawns & 1 != 0 {
                    put(&mut g, 32 + f - 1, 'P');
                }
                if pawns & 2 != 0 {
                    put(&mut g, 32 + f + 1, 'P');
                }
                let free = |g: &[Option<char>; 64], s: usize| g[s].is_none();
                match setup {
                    0 => {
                        put(&mut g, 4, 'K');
                        put(&mut g, 60, 'k');
                    }
                    1 | 2 => {
                        // king and a rook / queen on the two ends of the capture rank
                        let (ks, rs) = if setup == 1 { (32, 39) } else { (39, 32) };
                        if !free(&g, ks) || !free(&g, rs) {
                            continue;
                        }
                        put(&mut g, ks, 'K');
                        put(&mut g, rs, if f % 2 == 0 { 'r' } else { 'q' });
                        put(&mut g, 60, 'k');
                    }
                    3 => {
                        // king one step diagonally below the pawn to be captured, bishop one step diagonally above it on the same diagonal
                        if f == 0 || f == 7 {
                            continue;
                        }
                        let (ks, bs) = (32 + f - 8 - 1, 32 + f + 8 + 1);
                        if !free(&g, ks) || !free(&g, bs) {
                            continue;
                        }
                        put(&mut g, ks, 'K');
                        put(&mut g, bs, 'b');
                        put(&mut g, 63 - 7 * usize::from(f >= 4), 'k');
                    }
                    _ => {
                        // the capturing pawn itself pinned on its file by a rook
                        let cf = if pawns & 1 != 0 { f - 1 } else { f + 1 };
                        let (ks, rs) = (8 + cf, 56 + cf);
                        put(&mut g, ks, 'K');
                        put(&mut g, rs, 'r');
                        put(&mut g, if cf == 4 { 62 } else { 60 }, 'k');
                    }
                }
                let file = (b'a' + f as u8) as char;
                v.push(format!("{} w - {}6 0 1", grid_placement(&g), file));
            }
        }
    }
    v
}

fn swapped_fen(fen: &str) -> String {
    let f: Vec<&str> = fen.split(' ').collect();
    let turn = if f[1] == "w" { "b" } else { "w" };
    format!("{} {} {} - {} {}", f[0], turn, f[2], f[4], f[5])
}

pub struct Emit<W: Write> {
    pub out: W,
    pub positions: u64,
    pub perturb_every: u64,
    pub seen: Vec<crate::board::zkey::ZKey>,
}

impl<W: Write> Emit<W> {
    /// the observation block of one position
    pub fn block(&mut self, b: &mut Board) {
        self.positions += 1;
        let before = bv::dump(b);
        writeln!(self.out, "D {before}").unwrap();
        // the repetition record through the public API only: which of the keys seen in this game count as reached
        let k = b.zkey;
        if !self.seen.contains(&k) {
            self.seen.push(k);
        }
        let mut reached: Vec<u64> = self.seen.iter().filter(|k| b.position_reached(**k)).map(|k| bv::key_u64(*k)).collect();
        reached.sort_unstable();
        let r: Vec<String> = reached.iter().map(|x| format!("{x:x}")).collect();
        writeln!(self.out, "H {}", r.join(",")).unwrap();
        let all = b.get_all_moves();
        let g: Vec<String> = all.iter().map(move_fields).collect();
        writeln!(self.out, "G {}", g.join(" ")).unwrap();
        let legal = b.get_legal_moves();
        let l: Vec<String> = legal.iter().map(|m| format!("{}={}", m.to_notation(), move_fields(m))).collect();
        writeln!(self.out, "L {}", l.join(" ")).unwrap();
        // the move orderer on this position's generated list, with a cache move and two killers picked from the list itself
        // (the orderer must hand out every generated move exactly once, the cached move first, in the model's order)
        if !all.is_empty() {
            use crate::board::transposition_table::{Bounds, TTEntry, TRANSPOSITION_TABLE};
            
            let n = all.len();
            let p = self.positions as usize;
            let (tm, k1, k2) = (all[(p * 7) % n], all[(p * 3 + 1) % n], all[(p * 5 + 2) % n]);
            let with_tt = p % 3 != 0;
            if with_tt {
                TRANSPOSITION_TABLE.write().unwrap().insert(b.zkey, TTEntry { score: 0, depth: 1, bound: Bounds::Exact, best_ply: tm });
            }
            let killers = [Some(k1), if p % 2 == 0 { Some(k2) } else { None }];
            let ordered: Vec<String> = crate::search::verif::order_moves(&all, b.zkey, &killers).iter().map(move_fields).collect();
            if with_tt {
                TRANSPOSITION_TABLE.write().unwrap().remove(&b.zkey);
            }
            writeln!(
                self.out,
                "O {} {} {} | {}",
                if with_tt { move_fields(&tm) } else { "-".to_string() },
                move_fields(&k1),
                if p % 2 == 0 { move_fields(&k2) } else { "-".to_string() },
                ordered.join(" ")
            )
            .unwrap();
        }
        let after = bv::dump(b);
        if after == before {
            writeln!(self.out, "A same").unwrap();
        } else {
            writeln!(self.out, "A {after}").unwrap();
        }
        writeln!(
            self.out,
            "C {} {} {:x} {:x}",
            u8::from(b.is_in_check(Color::White)),
            u8::from(b.is_in_check(Color::Black)),
            bv::attacked_squares(b, Color::White),
            bv::attacked_squares(b, Color::Black)
        )
        .unwrap();
        let fen = render_fen(b);
        let mut reload = Board::from_fen(&fen);
        let mut mir = Board::from_fen(&mirror_fen(&fen));
        let mut swp = Board::from_fen(&swapped_fen(&fen));
        writeln!(
            self.out,
            "K {:x} {:x} {} {} {} | {}",
            bv::scratch_key(b),
            bv::key_u64(reload.zkey),
            SimpleEvaluator.evaluate(b),
            SimpleEvaluator.evaluate(&mut mir),
            SimpleEvaluator.evaluate(&mut swp),
            fen
        )
        .unwrap();
        // the evaluation must be a function of the position: the live board (with whatever it remembers of the path that
        // led here) and a fresh load of the same position must agree
        writeln!(self.out, "Y {} {} block", SimpleEvaluator.evaluate(b), SimpleEvaluator.evaluate(&mut reload)).unwrap();
        let _ = &mut reload;
        if self.perturb_every > 0 && self.positions % self.perturb_every == 0 {
            self.perturb(b);
        }
    }

    /// every single-component perturbation of `b`: content of each square (12 other contents), side to move,
    /// each castling right, every other en-passant file value; reports how many changed the from-scratch key
    pub fn perturb(&mut self, b: &Board) {
        use crate::board::ply::castling::{CastlingKind, CastlingStatus};
        let k0 = bv::scratch_key(b);
        // the key the engine is USING for this position (cache, repetition record): a one-component change must not land on it either
        let k1 = bv::key_u64(b.zkey);
        let (mut total, mut changed, mut acc) = (0u64, 0u64, 0u64);
        let mut fails: Vec<String> = vec![];
        let mut deltas: Vec<(u64, String)> = vec![];
        let mut purity: Vec<(i16, i16, String)> = vec![];
        let mut note = |k: u64, what: String, total: &mut u64, changed: &mut u64, acc: &mut u64| {
            *total += 1;
            deltas.push((k ^ k0, what.clone()));
            *acc ^= k.rotate_left((*total % 64) as u32);
            if k != k0 && k != k1 {
                *changed += 1;
            } else if fails.len() < 4 {
                fails.push(if k == k0 { what } else { format!("{what}=live-key") });
            }
        };
        for sq in 0..64u8 {
            let square = Square::from(sq);
            let cur = b.get_piece(square);
            for code in 0..13usize {
                let newc = if code == 12 { None } else { Some(kind_of_code(code)) };
                if newc == cur {
                    continue;
                }
                let mut b2 = b.clone();
                if let Some(k) = cur {
                    b2.remove_piece(square, k);
                }
                if let Some(k) = newc {
                    b2.add_piece(square, k);
                }
                note(bv::scratch_key(&b2), format!("sq{sq}:{code}"), &mut total, &mut changed, &mut acc);
                // one kind substituted for another of the same colour on a copy of the live board (the occupancy does not change):
                // the copy's evaluation must be that of a fresh load of the same position
                if let (Some(c0), Some(c1)) = (cur, newc) {
                    let pawn_back = matches!(c1, Kind::Pawn(_)) && (sq / 8 == 0 || sq / 8 == 7);
                    if c0.get_color() == c1.get_color() && !matches!(c0, Kind::King(_)) && !matches!(c1, Kind::King(_)) && !pawn_back && purity.len() < 8 {
                        let live = SimpleEvaluator.evaluate(&mut b2);
                        let fresh = SimpleEvaluator.evaluate(&mut Board::from_fen(&render_fen(&b2)));
                        purity.push((live, fresh, format!("sq{sq}:{code}")));
                    }
                }
            }
        }
        {
            let mut b2 = b.clone();
            b2.current_turn = b2.current_turn.opposite();
            note(bv::scratch_key(&b2), "turn".into(), &mut total, &mut changed, &mut acc);
        }
        for ck in [CastlingKind::WhiteKingside, CastlingKind::WhiteQueenside, CastlingKind::BlackKingside, CastlingKind::BlackQueenside] {
            let mut b2 = b.clone();
            let avail = b.castle_status(ck) == CastlingStatus::Available;
            bv::set_castling(&mut b2, ck, !avail);
            note(bv::scratch_key(&b2), format!("right{}", usize::from(ck)), &mut total, &mut changed, &mut acc);
        }
        let cur = bv::en_passant_file(b);
        for f in 0..9u8 {
            let newf = if f == 8 { None } else { Some(f) };
            if newf == cur {
                continue;
            }
            let mut b2 = b.clone();
            bv::set_en_passant_file(&mut b2, newf);
            note(bv::scratch_key(&b2), format!("ep{f}"), &mut total, &mut changed, &mut acc);
        }
        // two different one-component changes must not move the key by the same amount (else changing both gives the key back)
        deltas.sort();
        for w in deltas.windows(2) {
            if w[0].0 == w[1].0 && w[0].0 != 0 && fails.len() < 6 {
                fails.push(format!("alias:{}={}", w[0].1, w[1].1));
            }
        }
        writeln!(self.out, "P {total} {changed} {acc:x} {}", fails.join(",")).unwrap();
        for (live, fresh, what) in purity {
            writeln!(self.out, "Y {live} {fresh} {what}").unwrap();
        }
    }
}

fn pick(rng: &mut Rng, legal: &[Ply]) -> Ply {
    // bias towards the rare kinds of move so that castling / ep / promotion are exercised
    let special: Vec<&Ply> = legal
        .iter()
        .filter(|m| m.is_castles || m.en_passant || m.promoted_to.is_some() || m.is_double_pawn_push)
        .collect();
    if !special.is_empty() && rng.below(4) == 0 {
        return *special[rng.below(special.len() as u64) as usize];
    }
    let caps: Vec<&Ply> = legal.iter().filter(|m| m.captured_piece.is_some()).collect();
    if !caps.is_empty() && rng.below(5) == 0 {
        return *caps[rng.below(caps.len() as u64) as usize];
    }
    legal[rng.below(legal.len() as u64) as usize]
}

fn dfs<W: Write>(e: &mut Emit<W>, b: &mut Board, depth: u32) {
    e.block(b);
    if depth == 0 {
        return;
    }
    for m in b.get_legal_moves() {
        writeln!(e.out, "M {}", move_fields(&m)).unwrap();
        b.make_move(m);
        dfs(e, b, depth - 1);
        b.unmake_move();
        writeln!(e.out, "U").unwrap();
        writeln!(e.out, "D {}", bv::dump(b)).unwrap();
    }
}

/// one ply of descent, the moves tried in REVERSE generation order on the same board (so that the moves generated first
/// are tried after the ones generated last have been made and taken back)
fn dfs_reversed<W: Write>(e: &mut Emit<W>, b: &mut Board) {
    let mut moves = b.get_legal_moves();
    moves.reverse();
    for m in moves {
        writeln!(e.out, "M {}", move_fields(&m)).unwrap();
        b.make_move(m);
        e.block(b);
        b.unmake_move();
        writeln!(e.out, "U").unwrap();
        writeln!(e.out, "D {}", bv::dump(b)).unwrap();
    }
}

/// `--games N --plies P --dfs D --dfs-seeds K --shard i --of n --seed S`
pub fn walk(args: &[String]) {
    let games: u64 = arg(args, "games", 50);
    let plies: u64 = arg(args, "plies", 120);
    let dfs_depth: u32 = arg(args, "dfs", 2);
    let dfs_seeds: usize = arg(args, "dfs-seeds", SEEDS.len());
    let shard: u64 = arg(args, "shard", 0);
    let of: u64 = arg(args, "of", 1);
    let seed: u64 = arg(args, "seed", 1);
    let mut rng = Rng(seed.wrapping_mul(0x1000_0000_01B3).wrapping_add(shard));
    let out = std::io::stdout();
    let mut e = Emit { out: std::io::BufWriter::with_capacity(1 << 20, out.lock()), positions: 0, perturb_every: arg(args, "perturb-every", 16), seen: vec![] };

    // corpus of minimised past failures first (one FEN + moves per line)
    if let Some(path) = arg_str(args, "corpus") {
        if let Ok(text) = std::fs::read_to_string(path) {
            for (i, line) in text.lines().enumerate() {
                if (i as u64) % of != shard || line.trim().is_empty() || line.starts_with('#') {
                    continue;
                }
                let (fen, moves) = line.split_once(" moves ").unwrap_or((line, ""));
                writeln!(e.out, "N {fen}").unwrap();
        e.seen.clear();
                let mut b = Board::from_fen(fen);
                e.block(&mut b);
                for mv in moves.split_whitespace() {
                    if let Ok(m) = b.find_move(mv) {
                        writeln!(e.out, "M {}", move_fields(&m)).unwrap();
                        b.make_move(m);
                        e.block(&mut b);
                    } else {
                        break;
                    }
                }
            }
        }
    }

    // one extra root given on the command line (replays, experiments): descent in both move orders
    if let Some(fen) = arg_str(args, "dfs-fen") {
        if shard == 0 {
            let fen = fen.replace('_', " ");
            writeln!(e.out, "N {fen}").unwrap();
            e.seen.clear();
            let mut b = Board::from_fen(&fen);
            dfs(&mut e, &mut b, dfs_depth.max(1));
            dfs_reversed(&mut e, &mut b);
        }
    }

    // exhaustive descents
    for (i, fen) in SEEDS.iter().take(dfs_seeds).enumerate() {
        if (i as u64) % of != shard {
            continue;
        }
        writeln!(e.out, "N {fen}").unwrap();
        e.seen.clear();
        let mut b = Board::from_fen(fen);
        dfs(&mut e, &mut b, dfs_depth);
    }

    // structured families, both colours; a member that is not a position of a legal game (the side that has just moved in check) is dropped
    if arg::<u64>(args, "matrix", 1) == 1 {
        let mut idx = 0u64;
        let crowded = ["R6R/3Q4/1Q4Q1/4Q3/2Q4Q/Q4Q2/pp1Q4/kBNN1KB1 w - - 0 1".to_string(),
            "QQQN1brk/3QQ1pp/1Q3ppp/Q6Q/2Q2Q2/Q6Q/1Q4Q1/KQ1QQ1Q1 w - - 0 1".to_string(),
            "3Q4/1Q4Q1/4Q3/2Q4R/Q4Q2/3Q4/1Q4Rp/1K1BBNNk w - - 0 1".to_string()];
        for fen in matrix_fens().into_iter().chain(pin_fens()).chain(endgame_fens(seed)).chain(crowded) {
            for fen in [fen.clone(), mirror_fen(&fen)] {
                idx += 1;
                if idx % of != shard {
                    continue;
                }
                let mut b = Board::from_fen(&fen);
                if b.is_in_check(b.current_turn.opposite()) {
                    continue;
                }
                writeln!(e.out, "N {fen}").unwrap();
                e.seen.clear();
                e.block(&mut b);
            }
        }
    }

    // a rook that stands on (or promotes on) the OPPONENT's corner while its own side still holds castling rights: leaving that
    // corner must not touch them (only a rook leaving its own home corner revokes a right); explored three plies deep
    if arg::<u64>(args, "matrix", 1) == 1 && shard == 1 % of {
        for fen in ["R7/7k/8/8/8/8/8/R3K2R w KQ - 0 1", "7R/k7/8/8/8/8/8/R3K2R w KQ - 0 1", "r3k2r/8/8/8/8/8/7K/r7 b kq - 0 1", "r3k2r/8/8/8/8/8/K7/7r b kq - 0 1",
            "4k3/P7/8/8/8/8/8/R3K2R w KQ - 0 1", "4k3/7P/8/8/8/8/8/R3K2R w KQ - 0 1", "r3k2r/8/8/8/8/8/p7/4K3 b kq - 0 1", "r3k2r/8/8/8/8/8/7p/4K3 b kq - 0 1"] {
            let mut b = Board::from_fen(fen);
            writeln!(e.out, "N {fen}").unwrap();
            e.seen.clear();
            dfs(&mut e, &mut b, if fen.contains('P') || fen.contains('p') { 3 } else { 1 });
        }
    }

    if arg::<u64>(args, "matrix", 1) == 1 {
        let mut idx = 0u64;
        for fen in piece_square_fens().into_iter().chain(castle_pin_fens()) {
            idx += 1;
            if idx % of != shard {
                continue;
            }
            let mut b = Board::from_fen(&fen);
            if b.is_in_check(b.current_turn.opposite()) {
                continue;
            }
            writeln!(e.out, "N {fen}").unwrap();
            e.seen.clear();
            dfs(&mut e, &mut b, 1);
            if fen.contains(" w K ") || fen.contains(" w Q ") || fen.contains(" b k ") || fen.contains(" b q ") {
                dfs_reversed(&mut e, &mut b);
            }
        }
    }

    if shard + 1 == of && arg(args, "long", 4300u64) > 0 {
        long_distinct_game(&mut e, &mut rng, arg(args, "long", 4300u64) as usize);
    }
    // random games with nested excursions, reloads through FEN and deliberate repetitions
    for g in 0..games {
        if g % of != shard {
            continue;
        }
        let fen = SEEDS[(rng.below(SEEDS.len() as u64)) as usize];
        writeln!(e.out, "N {fen}").unwrap();
        e.seen.clear();
        let mut b = Board::from_fen(fen);
        let mut depth_stack: u64 = 0;
        let mut ply = 0;
        while ply < plies {
            e.block(&mut b);
            let legal = b.get_legal_moves();
            if legal.is_empty() {
                break;
            }
            let r = rng.below(100);
            if r < 6 && depth_stack > 0 {
                // take back
                b.unmake_move();
                depth_stack -= 1;
                writeln!(e.out, "U").unwrap();
                writeln!(e.out, "D {}", bv::dump(&b)).unwrap();
                continue;
            }
            if r < 9 {
                // continue from a FEN reload of the current position (history forgotten)
                let fen = render_fen(&b);
                writeln!(e.out, "N {fen}").unwrap();
        e.seen.clear();
                b = Board::from_fen(&fen);
                depth_stack = 0;
                continue;
            }
            if r == 14 && depth_stack + 32 < 4000 {
                // a long shuffle: both sides move a piece out and back, seven times over — the same position comes up for the
                // eighth time (counts that saturate, are clamped or are decremented once too often show here)
                let quiet = |b: &mut Board| -> Option<Ply> {
                    b.get_legal_moves().into_iter().find(|m| m.captured_piece.is_none() && m.promoted_to.is_none() && !m.is_castles && !matches!(m.piece, Kind::Pawn(_)) && !matches!(m.piece, Kind::King(_)) && !matches!(m.piece, Kind::Rook(_)))
                };
                let back = |b: &mut Board, m: &Ply| -> Option<Ply> {
                    b.get_legal_moves().into_iter().find(|x| x.start == m.dest && x.dest == m.start && x.captured_piece.is_none() && x.promoted_to.is_none())
                };
                if b.get_halfmove_clock() < 60 {
                    let mut ok = true;
                    'outer: for _ in 0..7 {
                        let Some(a) = quiet(&mut b) else { ok = false; break };
                        writeln!(e.out, "M {}", move_fields(&a)).unwrap();
                        b.make_move(a);
                        depth_stack += 1;
                        e.block(&mut b);
                        let Some(c) = quiet(&mut b) else { ok = false; break };
                        writeln!(e.out, "M {}", move_fields(&c)).unwrap();
                        b.make_move(c);
                        depth_stack += 1;
                        e.block(&mut b);
                        for m in [a, c] {
                            let Some(x) = back(&mut b, &m) else { ok = false; break 'outer };
                            writeln!(e.out, "M {}", move_fields(&x)).unwrap();
                            b.make_move(x);
                            depth_stack += 1;
                            e.block(&mut b);
                        }
                    }
                    let _ = ok;
                    ply += 28;
                    continue;
                }
            }
            if r < 14 {
                // knight / king shuffle to create repeated positions: try to undo the last own move geometrically
                let hist = bv::history(&b);
                if hist.len() >= 3 {
                    let mine = hist[hist.len() - 2];
                    let back = legal.iter().find(|m| {
                        m.start == mine.dest && m.dest == mine.start && m.captured_piece.is_none() && m.promoted_to.is_none()
                    });
                    if let Some(m) = back {
                        let m = *m;
                        writeln!(e.out, "M {}", move_fields(&m)).unwrap();
                        b.make_move(m);
                        depth_stack += 1;
                        ply += 1;
                        continue;
                    }
                }
            }
            let m = pick(&mut rng, &legal);
            writeln!(e.out, "M {}", move_fields(&m)).unwrap();
            b.make_move(m);
            depth_stack += 1;
            ply += 1;
            if b.get_halfmove_clock() >= 120 {
                break;
            }
        }
        // unwind completely: every take-back must restore the recorded state
        while depth_stack > 0 {
            b.unmake_move();
            depth_stack -= 1;
            writeln!(e.out, "U").unwrap();
            writeln!(e.out, "D {}", bv::dump(&b)).unwrap();
        }
    }
    writeln!(e.out, "END {}", e.positions).unwrap();
}

/// one very long game of reversible moves that visits thousands of DISTINCT positions (kings and rooks behind untouched pawn
/// walls), then an irreversible move, a few more moves and take-backs: whatever bounds, trims or resets the record of earlier
/// positions shows in the state dumps (which are written only now and then: a dump is as long as the game)
fn long_distinct_game<W: Write>(e: &mut Emit<W>, rng: &mut Rng, plies: usize) {
    let fen = "r3k2r/pppppppp/8/8/8/8/PPPPPPPP/R3K2R w KQkq - 0 1";
    writeln!(e.out, "N {fen}").unwrap();
    e.seen.clear();
    let mut b = Board::from_fen(fen);
    e.block(&mut b);
    let mut seen = std::collections::HashSet::new();
    seen.insert(bv::key_u64(b.zkey));
    let mut made = 0usize;
    for ply in 0..plies {
        let legal: Vec<Ply> = b
            .get_legal_moves()
            .into_iter()
            .filter(|m| m.captured_piece.is_none() && m.promoted_to.is_none() && !matches!(m.piece, Kind::Pawn(_)))
            .collect();
        if legal.is_empty() {
            break;
        }
        let off = rng.below(legal.len() as u64) as usize;
        let mut pick = legal[off];
        for k in 0..legal.len() {
            let m = legal[(off + k) % legal.len()];
            b.make_move(m);
            let fresh = !seen.contains(&bv::key_u64(b.zkey));
            b.unmake_move();
            if fresh {
                pick = m;
                break;
            }
        }
        writeln!(e.out, "m {}", move_fields(&pick)).unwrap();
        // the position left behind belongs to the record from now on (`block` would have noted it)
        if seen.insert(bv::key_u64(b.zkey)) || !e.seen.contains(&b.zkey) {
            if !e.seen.contains(&b.zkey) {
                e.seen.push(b.zkey);
            }
        }
        b.make_move(pick);
        made += 1;
        seen.insert(bv::key_u64(b.zkey));
        if ply % 1500 == 1499 {
            e.block(&mut b);
        }
    }
    e.block(&mut b);
    // an irreversible move, then on with full blocks
    for step in 0..12 {
        let legal = b.get_legal_moves();
        let m = if step == 0 { legal.iter().find(|m| matches!(m.piece, Kind::Pawn(_))).copied() } else { legal.first().copied() };
        let Some(m) = m else { break };
        writeln!(e.out, "M {}", move_fields(&m)).unwrap();
        b.make_move(m);
        made += 1;
        e.block(&mut b);
    }
    for _ in 0..made.min(40) {
        b.unmake_move();
        writeln!(e.out, "U").unwrap();
        writeln!(e.out, "D {}", bv::dump(&b)).unwrap();
    }
    writeln!(e.out, "# long game: {} distinct positions", seen.len()).unwrap();
}

/// `fen`: a generated family of FEN strings (variants of positions met on random walks)
pub fn fen_stream(args: &[String]) {
    let count: u64 = arg(args, "count", 2000);
    let shard: u64 = arg(args, "shard", 0);
    let of: u64 = arg(args, "of", 1);
    let seed: u64 = arg(args, "seed", 1);
    let mut rng = Rng(seed.wrapping_mul(0x1000_0000_01B3).wrapping_add(shard).wrapping_add(77));
    let out = std::io::stdout();
    let mut e = Emit { out: std::io::BufWriter::with_capacity(1 << 20, out.lock()), positions: 0, perturb_every: arg(args, "perturb-every", 16), seen: vec![] };
    // a fixed family first: rows that are full of one kind of piece on ranks where play rarely puts them, digit runs
    // split in unusual ways (`44`, `1111`-style rows are valid FEN), full boards without a digit
    if shard == 0 {
        let mut special: Vec<String> = vec![];
        for r in 1..7usize {
            for (row, kings) in [("PPPPPPPP", true), ("pppppppp", true), ("NNNNNNNN", true), ("qqqqqqqq", true), ("RBRBRBRB", true), ("p1p1p1p1", true), ("1P1P1P1P", true)] {
                let _ = kings;
                let mut rows: Vec<String> = vec!["8".to_string(); 8];
                rows[0] = "4k3".to_string();
                rows[7] = "4K3".to_string();
                rows[7 - r] = row.to_string(); // rank r+1
                let fen = format!("{} w - - 0 1", rows.join("/"));
                let b = Board::from_fen(&fen);
                if b.is_in_check(b.current_turn.opposite()) {
                    special.push(format!("{} b - - 0 1", rows.join("/")));
                } else {
                    special.push(fen);
                }
            }
        }
        special.push("rnbqkbnr/8/pppppppp/8/8/PPPPPPPP/8/RNBQKBNR w KQkq - 0 9".to_string());
        special.push("rnbqkbnr/8/8/pppppppp/PPPPPPPP/8/8/RNBQKBNR w KQkq - 0 9".to_string());
        special.push("4k3/8/44/8/8/3P4/8/4K3 w - - 0 1".to_string());
        special.push("4k3/8/8/11111111/8/2P5/8/4K3 w - - 0 1".to_string());
        special.push("4k3/8/8/1p6/8/8/8/4K3 w - - 0 1".to_string());
        // several pawns of the side that just made the double step on the en-passant file (doubled, tripled, quadrupled), a
        // capturer on either side: whatever the loader reconstructs about the last move must describe THE pushed pawn
        for file in 0..8usize {
            for extra in 1..=3usize {
                for side in [-1i32, 1] {
                    let cf = file as i32 + side;
                    if !(0..8).contains(&cf) {
                        continue;
                    }
                    for white_pushed in [false, true] {
                        let mut g: [Option<char>; 64] = [None; 64];
                        let kf = if file < 4 { 7 } else { 0 };
                        g[kf] = Some('K');
                        g[56 + kf] = Some('k');
                        if white_pushed {
                            g[3 * 8 + file] = Some('P'); // the pawn that went e2-e4
                            for k in 0..extra {
                                g[(4 + k) * 8 + file] = Some('P');
                            }
                            g[3 * 8 + cf as usize] = Some('p');
                            special.push(format!("{} b - {}3 0 30", super::grid_placement(&g), (b'a' + file as u8) as char));
                        } else {
                            g[4 * 8 + file] = Some('p'); // the pawn that went e7-e5
                            for k in 0..extra {
                                g[(3 - k) * 8 + file] = Some('p');
                            }
                            g[4 * 8 + cf as usize] = Some('P');
                            special.push(format!("{} w - {}6 0 30", super::grid_placement(&g), (b'a' + file as u8) as char));
                        }
                    }
                }
            }
        }
        // twins: the same squares occupied by the same colours, the same material, two pieces of one colour exchanged —
        // loaded right after each other (whatever a loader remembers of the previous position must not leak into the next)
        for (a, b2) in [("8/8/4k3/8/8/2N2B2/8/4K3 w - - 0 1", "8/8/4k3/8/8/2B2N2/8/4K3 w - - 0 1"),
            ("r3k2r/8/8/8/8/8/8/R3K2R w KQkq - 0 1", "r3k2r/8/8/8/8/8/8/R3K2R w KQkq - 0 1"),
            ("rnbqkbnr/pppppppp/8/8/8/8/PPPPPPPP/RNBQKBNR w KQkq - 0 1", "rbnqkbnr/pppppppp/8/8/8/8/PPPPPPPP/RNBQKBNR w KQkq - 0 1"),
            ("rnbqkbnr/pppppppp/8/8/8/8/PPPPPPPP/RNBQKBNR w KQkq - 0 1", "rnbqkbnr/pppppppp/8/8/8/8/PPPPPPPP/RNQBKBNR w KQkq - 0 1"),
            ("4k3/2q2r2/8/8/8/8/2Q2R2/4K3 b - - 3 9", "4k3/2r2q2/8/8/8/8/2Q2R2/4K3 b - - 3 9"),
            ("4k3/2q2r2/8/8/8/8/2Q2R2/4K3 b - - 3 9", "4k3/2q2r2/8/8/8/8/2R2Q2/4K3 b - - 3 9"),
            ("4k3/8/8/3pP3/8/8/2B1N3/4K3 w - d6 0 5", "4k3/8/8/3pP3/8/8/2N1B3/4K3 w - d6 0 5")] {
            special.push(a.to_string());
            special.push(b2.to_string());
            special.push(a.to_string());
        }
        // well-known placements with every subset of the castling rights and either side to move (pieces back home after an
        // excursion: the start position without some rights is a different position from the start position; a loader that
        // recognises a placement must not forget the rest of the position)
        for placement in ["rnbqkbnr/pppppppp/8/8/8/8/PPPPPPPP/RNBQKBNR", "r3k2r/8/8/8/8/8/8/R3K2R",
            "r3k2r/p1ppqpb1/bn2pnp1/3PN3/1p2P3/2N2Q1p/PPPBBPPP/R3K2R", "r3k2r/pppppppp/8/8/8/8/PPPPPPPP/R3K2R"] {
            for mask in 0..16u32 {
                let mut r = String::new();
                for (bit, c) in [(1, 'K'), (2, 'Q'), (4, 'k'), (8, 'q')] {
                    if mask & bit != 0 {
                        r.push(c);
                    }
                }
                if r.is_empty() {
                    r.push('-');
                }
                for turn in ["w", "b"] {
                    special.push(format!("{placement} {turn} {r} - {} {}", mask % 7, 1 + mask));
                }
            }
        }
        // material far beyond any game (the evaluation's i16 arithmetic near its limits): 36 queens and 0..3 pawns against a bare
        // king, either colour, either side to move — evaluation, mirror and side-swapped twin are compared on these too
        for pawns in 0..4usize {
            for white in [true, false] {
                for turn in ["w", "b"] {
                    let mut g: [Option<char>; 64] = [None; 64];
                    let (q, p, own_k, other_k) = if white { ('Q', 'P', 'K', 'k') } else { ('q', 'p', 'k', 'K') };
                    let mut n = 0;
                    for sq in (0..64usize).rev() {
                        if n < 36 && sq >= 24 && sq < 64 {
                            g[if white { sq } else { 63 - sq }] = Some(q);
                            n += 1;
                        }
                    }
                    for k in 0..pawns {
                        g[if white { 16 + k } else { 63 - (16 + k) }] = Some(p);
                    }
                    g[if white { 0 } else { 63 }] = Some(own_k);
                    g[if white { 7 } else { 56 }] = Some(other_k);
                    special.push(format!("{} {turn} - - 0 1", super::grid_placement(&g)));
                }
            }
        }
        for text in special {
            let mut loaded = Board::from_fen(&text);
            if loaded.is_in_check(loaded.current_turn.opposite()) {
                continue;
            }
            writeln!(e.out, "N {text}").unwrap();
            e.seen.clear();
            e.block(&mut loaded);
        }
    }
    let mut n = 0;
    while n < count {
        let fen0 = SEEDS[(rng.below(SEEDS.len() as u64)) as usize];
        let mut b = Board::from_fen(fen0);
        let steps = rng.below(60);
        for _ in 0..steps {
            let legal = b.get_legal_moves();
            if legal.is_empty() {
                break;
            }
            let m = pick(&mut rng, &legal);
            b.make_move(m);
        }
        if n % of != shard {
            n += 1;
            continue;
        }
        n += 1;
        let fen = render_fen(&b);
        let f: Vec<&str> = fen.split(' ').collect();
        // vary: castling letter order, clocks, move number, 4-field form, extra blanks
        let mut cs: Vec<char> = f[2].chars().collect();
        for i in (1..cs.len()).rev() {
            let j = rng.below(i as u64 + 1) as usize;
            cs.swap(i, j);
        }
        let cs: String = cs.into_iter().collect();
        // mostly realistic clocks; now and then one far beyond the fifty-move horizon (a u8 would not hold it)
        let half = if rng.below(8) == 0 { 150 + rng.below(500) } else { rng.below(151) };
        // move numbers: mostly arbitrary; now and then the smallest ones (editors write 1 whatever the clock says) or a very large one
        // (not the last few a u16 holds: the engine's `+= 1` overflows there, which is outside what C03 / C07 speak about)
        let full = match rng.below(10) {
            0 => 1,
            1 => 2,
            2 => 65000 + rng.below(500),
            _ => 1 + rng.below(6000),
        };
        let variant = rng.below(4);
        let text = match variant {
            0 => format!("{} {} {} {}", f[0], f[1], cs, f[3]),
            1 => format!("{}  {} {}   {} {} {}", f[0], f[1], cs, f[3], half, full),
            _ => format!("{} {} {} {} {} {}", f[0], f[1], cs, f[3], half, full),
        };
        writeln!(e.out, "N {text}").unwrap();
        e.seen.clear();
        let mut loaded = Board::from_fen(&text);
        e.block(&mut loaded);
        // play a few moves from the loaded position
        for _ in 0..rng.below(6) {
            let legal = loaded.get_legal_moves();
            if legal.is_empty() {
                break;
            }
            let m = pick(&mut rng, &legal);
            writeln!(e.out, "M {}", move_fields(&m)).unwrap();
            loaded.make_move(m);
            e.block(&mut loaded);
        }
    }
    writeln!(e.out, "END {}", e.positions).unwrap();
}

/// every seed must be a position of a legal game: one king each, the side not to move not in check
pub fn seedcheck() {
    let mut bad = 0;
    for fen in SEEDS.iter() {
        let b = Board::from_fen(fen);
        let wk = b.get_piece_count(Kind::King(Color::White));
        let bk = b.get_piece_count(Kind::King(Color::Black));
        if wk != 1 || bk != 1 || b.is_in_check(b.current_turn.opposite()) {
            println!("BAD SEED {fen}");
            bad += 1;
        }
    }
    println!("seedcheck: {} seeds, {} bad", SEEDS.len(), bad);
    if bad > 0 {
        std::process::exit(1);
    }
}
