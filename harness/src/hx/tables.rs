//! `zobrist`: the 781 Zobrist words read through the public `ZKey` API.
//! `tables`: rays, leaper tables and slider lookups for the C06 correspondence.
use super::*;
use crate::board::ply::castling::CastlingKind;
use crate::board::square::rays::{Rays, RAYS};
use crate::board::zkey::ZKey;
use std::io::Write;

fn word(f: impl Fn(&mut ZKey)) -> u64 {
    let mut k = ZKey::new();
    f(&mut k);
    crate::board::verif::key_u64(k)
}

pub fn zobrist() {
    let out = std::io::stdout();
    let mut out = std::io::BufWriter::new(out.lock());
    for code in 0..12usize {
        for sq in 0..64u8 {
            let w = word(|k| k.add_or_remove_piece(kind_of_code(code), Square::from(sq)));
            writeln!(out, "Z p {code} {sq} {w:x}").unwrap();
        }
    }
    let kinds = [
        CastlingKind::WhiteKingside,
        CastlingKind::WhiteQueenside,
        CastlingKind::BlackKingside,
        CastlingKind::BlackQueenside,
    ];
    for (i, ck) in kinds.iter().enumerate() {
        let w = word(|k| k.change_castling_rights(*ck));
        writeln!(out, "Z c {i} {w:x}").unwrap();
    }
    for f in 0..8u8 {
        let w = word(|k| k.change_en_passant(f));
        writeln!(out, "Z e {f} {w:x}").unwrap();
    }
    let w = word(|k| k.change_turn());
    writeln!(out, "Z t {w:x}").unwrap();
}

/// all submasks of `m` (Carry-Rippler), including 0 and m
fn submasks(m: u64, mut f: impl FnMut(u64)) {
    let mut s: u64 = 0;
    loop {
        f(s);
        s = s.wrapping_sub(m) & m;
        if s == 0 {
            break;
        }
    }
}

fn line_mask(sq: u8, rook: bool) -> u64 {
    // every square on the piece's lines through `sq`, edge squares included, `sq` excluded
    let (r, f) = ((sq / 8) as i32, (sq % 8) as i32);
    let dirs: [(i32, i32); 4] = if rook { [(1, 0), (-1, 0), (0, 1), (0, -1)] } else { [(1, 1), (1, -1), (-1, 1), (-1, -1)] };
    let mut m = 0u64;
    for (dr, df) in dirs {
        let (mut rr, mut ff) = (r + dr, f + df);
        while (0..8).contains(&rr) && (0..8).contains(&ff) {
            m |= 1u64 << (rr * 8 + ff);
            rr += dr;
            ff += df;
        }
    }
    m
}

fn inner(m: u64, sq: u8, rook: bool) -> u64 {
    // the relevant-occupancy subset: drop the last square of each ray
    let (r, f) = ((sq / 8) as i32, (sq % 8) as i32);
    let dirs: [(i32, i32); 4] = if rook { [(1, 0), (-1, 0), (0, 1), (0, -1)] } else { [(1, 1), (1, -1), (-1, 1), (-1, -1)] };
    let mut out = m;
    for (dr, df) in dirs {
        let (mut rr, mut ff) = (r + dr, f + df);
        let mut last: Option<i32> = None;
        while (0..8).contains(&rr) && (0..8).contains(&ff) {
            last = Some(rr * 8 + ff);
            rr += dr;
            ff += df;
        }
        if let Some(l) = last {
            out &= !(1u64 << l);
        }
    }
    out
}

/// `--mode relevant|lines|random` `--count N` `--seed S`
pub fn tables(args: &[String]) {
    let mode = arg_str(args, "mode").unwrap_or_else(|| "relevant".into());
    let count: u64 = arg(args, "count", 20000);
    let mut rng = Rng(arg(args, "seed", 1u64));
    let out = std::io::stdout();
    let mut out = std::io::BufWriter::new(out.lock());
    let mut b = Board::default();

    // rays
    let rays = RAYS.get_or_init(Rays::new).rays;
    for sq in 0..64usize {
        for d in 0..8usize {
            writeln!(out, "R {sq} {d} {:x}", u64::from(rays[sq][d])).unwrap();
        }
    }
    // leapers: kind codes pawn 0 / 6, king 1, knight 5 (occupancy is irrelevant: use two different ones)
    for code in [0usize, 6, 1, 7, 5, 11] {
        for sq in 0..64u8 {
            for occ in [0u64, u64::MAX] {
                crate::board::verif::set_all_pieces(&mut b, occ);
                let a = u64::from(kind_of_code(code).get_attacks(Square::from(sq), &b));
                writeln!(out, "K {code} {sq} {occ:x} {a:x}").unwrap();
            }
        }
    }
    // sliders
    let mut emit = |out: &mut dyn Write, b: &mut Board, code: usize, sq: u8, occ: u64| {
        crate::board::verif::set_all_pieces(b, occ);
        let a = u64::from(kind_of_code(code).get_attacks(Square::from(sq), b));
        writeln!(out, "K {code} {sq} {occ:x} {a:x}").unwrap();
    };
    match mode.as_str() {
        "relevant" | "lines" => {
            for sq in 0..64u8 {
                for (code, rook) in [(3usize, true), (4usize, false)] {
                    let lm = line_mask(sq, rook);
                    let m = if mode == "relevant" { inner(lm, sq, rook) } else { lm };
                    submasks(m, |s| emit(&mut out, &mut b, code, sq, s));
                }
            }
        }
        _ => {}
    }
    // random full-board occupancies through rook / bishop / queen (and the wrapper functions)
    for i in 0..count {
        let sq = (rng.below(64)) as u8;
        let mut occ = rng.next();
        match i % 4 {
            1 => occ &= rng.next(),
            2 => occ |= rng.next(),
            3 => occ &= rng.next() & rng.next(),
            _ => {}
        }
        for code in [2usize, 3, 4, 8, 9, 10] {
            emit(&mut out, &mut b, code, sq, occ);
        }
        let r = u64::from(crate::board::piece::rook::Rook::get_attacks_wrapper(Square::from(sq), occ.into()));
        let bi = u64::from(crate::board::piece::bishop::Bishop::get_attacks_wrapper(Square::from(sq), occ.into()));
        let q = u64::from(crate::board::piece::queen::Queen::get_attacks(Square::from(sq), occ.into()));
        writeln!(out, "W {sq} {occ:x} {r:x} {bi:x} {q:x}").unwrap();
    }
}
