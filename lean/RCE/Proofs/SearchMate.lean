import RCE.Proofs.SearchDefs
/-! # C12 — mate soundness of the cached search (proof file)

The full statements (`tt_mate_sound_statement`, `mate_score_sound_statement`) are FALSE for the model
as written (counterexamples at the end of this file); the `_partial` variants carry two explicit extra
hypotheses: no legal root move mates at once (`NoMateInOne`) and the initial cache holds no score
`≤ −32767` or `≥ 32767` (`StrictScores`). -/
namespace RCE.Proofs.SearchMate
open RCE.Search RCE.Proofs.SearchDefs

set_option linter.unusedSectionVars false
set_option linter.unusedVariables false

variable {P M : Type} [DecidableEq M]

/-! ## move ordering emits exactly the members of its input -/

theorem mem_swap {α : Type} (t : List α) (i : Nat) (x h : α) (hx : t[i]? = some x) (y : α) :
    (y = x ∨ y ∈ t.set i h) ↔ (y = h ∨ y ∈ t) := by
  induction t generalizing i with
  | nil => simp at hx
  | cons a t ih =>
    cases i with
    | zero =>
      simp only [List.getElem?_cons_zero, Option.some.injEq] at hx
      subst hx
      simp only [List.set_cons_zero, List.mem_cons]
      constructor
      · rintro (h1 | h1 | h1)
        · exact Or.inr (Or.inl h1)
        · exact Or.inl h1
        · exact Or.inr (Or.inr h1)
      · rintro (h1 | h1 | h1)
        · exact Or.inr (Or.inl h1)
        · exact Or.inl h1
        · exact Or.inr (Or.inr h1)
    | succ i =>
      simp only [List.getElem?_cons_succ] at hx
      have := ih i hx
      simp only [List.set_cons_succ, List.mem_cons]
      constructor
      · rintro (h1 | h1 | h1)
        · rcases this.1 (Or.inl h1) with h2 | h2
          · exact Or.inl h2
          · exact Or.inr (Or.inr h2)
        · exact Or.inr (Or.inl h1)
        · rcases this.1 (Or.inr h1) with h2 | h2
          · exact Or.inl h2
          · exact Or.inr (Or.inr h2)
      · rintro (h1 | h1 | h1)
        · rcases this.2 (Or.inl h1) with h2 | h2
          · exact Or.inl h2
          · exact Or.inr (Or.inr h2)
        · exact Or.inr (Or.inl h1)
        · rcases this.2 (Or.inr h1) with h2 | h2
          · exact Or.inl h2
          · exact Or.inr (Or.inr h2)

theorem mem_orderAux (n : Nat) : ∀ (l : List (M × Nat)), l.length ≤ n →
    ∀ y, y ∈ orderAux n l ↔ ∃ s, (y, s) ∈ l := by
  induction n with
  | zero =>
    intro l hl y
    have : l = [] := List.eq_nil_of_length_eq_zero (by omega)
    subst this; simp [orderAux]
  | succ n ih =>
    intro l hl y
    cases l with
    | nil => simp [orderAux]
    | cons h t =>
      have hl' : t.length ≤ n := by simp at hl; omega
      have base : y ∈ h.1 :: orderAux n t ↔ ∃ s, (y, s) ∈ h :: t := by
        simp only [List.mem_cons, ih t hl' y]
        constructor
        · rintro (h1 | ⟨s, hs⟩)
          · exact ⟨h.2, Or.inl (by rw [h1])⟩
          · exact ⟨s, Or.inr hs⟩
        · rintro ⟨s, h1 | h1⟩
          · left; rw [← h1]
          · exact Or.inr ⟨s, h1⟩
      simp only [orderAux]
      split
      · exact base
      · split
        · rename_i x hx
          have hlen : (t.set (firstMaxIdx (h :: t) - 1) h).length ≤ n := by simpa using hl'
          simp only [List.mem_cons, ih _ hlen y]
          constructor
          · rintro (h1 | ⟨s, hs⟩)
            · have := (mem_swap t _ x h hx x).1 (Or.inl rfl)
              refine ⟨x.2, ?_⟩
              rw [h1]
              rcases this with h2 | h2
              · exact Or.inl h2
              · exact Or.inr h2
            · have := (mem_swap t _ x h hx (y, s)).1 (Or.inr hs)
              exact ⟨s, this⟩
          · rintro ⟨s, hs⟩
            rcases (mem_swap t _ x h hx (y, s)).2 hs with h2 | h2
            · left; rw [← h2]
            · exact Or.inr ⟨s, h2⟩
        · exact base

theorem mem_orderMoves (G : Game P M) (tm : Option M) (k : Option M × Option M) (ms : List M) (y : M) :
    y ∈ orderMoves G tm k ms ↔ y ∈ ms := by
  unfold orderMoves
  rw [mem_orderAux _ _ (by simp)]
  simp only [List.mem_map, Prod.mk.injEq]
  constructor
  · rintro ⟨s, m, hm, h1, _⟩; rw [← h1]; exact hm
  · intro h; exact ⟨_, y, h, rfl, rfl⟩


/-! ## invariants -/

/-- the returned value `r` of a node searched with window `(a, b)` -/
def Claim (G : Game P M) (p : P) (a b r : Int) : Prop :=
  (r > a → r ≥ 32512 → Won G p) ∧ (r < b → r ≤ -32512 → Lost G p)

def Rng (r : Int) : Prop := -32767 < r ∧ r < 32767

/-- no cached score is `≤ −32767` or `≥ 32767` -/
def StrictScores (tt : Table M) : Prop := ∀ (k : UInt64) (e : Entry M), tt[k]? = some e → -32767 < e.score ∧ e.score < 32767

def TInv (G : Game P M) (tt : Table M) : Prop := MateSound G tt ∧ StrictScores tt

def Mated (G : Game P M) (c : P) : Prop := legalMovesOf G c = [] ∧ G.inCheck c = true

/-- no legal move of `p` mates at once -/
def NoMateInOne (G : Game P M) (p : P) : Prop := ∀ m, m ∈ legalMovesOf G p → ¬ Mated G (G.play p m)

def Frame (st st' : St M) : Prop := st'.ply = st.ply ∧ st'.bestMove = st.bestMove ∧ st'.bestScore = st.bestScore

theorem Frame.refl (st : St M) : Frame st st := ⟨rfl, rfl, rfl⟩
theorem Frame.trans {a b c : St M} (h1 : Frame a b) (h2 : Frame b c) : Frame a c :=
  ⟨h2.1.trans h1.1, h2.2.1.trans h1.2.1, h2.2.2.trans h1.2.2⟩

theorem abortCheck_tt (env : Env) (st : St M) : (abortCheck env st).2.tt = st.tt := by
  unfold abortCheck poll limitsExceeded
  dsimp only
  repeat' split
  all_goals rfl

theorem abortCheck_frame (env : Env) (st : St M) : Frame st (abortCheck env st).2 := by
  unfold abortCheck poll limitsExceeded Frame
  dsimp only
  repeat' split
  all_goals exact ⟨rfl, rfl, rfl⟩

theorem storeKillers_tt (G : Game P M) (m : M) (st : St M) : (storeKillers G m st).tt = st.tt := by
  unfold storeKillers; dsimp only; repeat' split
  all_goals rfl

theorem storeKillers_frame (G : Game P M) (m : M) (st : St M) : Frame st (storeKillers G m st) := by
  unfold storeKillers Frame; dsimp only; repeat' split
  all_goals exact ⟨rfl, rfl, rfl⟩

theorem insert_frame (st : St M) (k : UInt64) (e : Entry M) (site : Nat) : Frame st (st.insert k e site) :=
  ⟨rfl, rfl, rfl⟩

theorem tinv_empty (G : Game P M) : TInv G ({} : Table M) := by
  constructor
  · intro p e h; simp at h
  · intro k e h; simp at h

theorem tinv_insert {G : Game P M} (hk : KeyMate G) {tt : Table M} (hT : TInv G tt) (p : P) (e : Entry M)
    (h1 : (e.bound = .exact ∨ e.bound = .lower) → e.score ≥ 32512 → Won G p)
    (h2 : (e.bound = .exact ∨ e.bound = .upper) → e.score ≤ -32512 → Lost G p)
    (h3 : Rng e.score) : TInv G (tt.insert (G.key p) e) := by
  constructor
  · intro q e' hq
    rw [Std.HashMap.getElem?_insert] at hq
    split at hq
    · rename_i heq
      have heq' : G.key p = G.key q := by simpa using heq
      cases hq
      have := hk p q heq'
      constructor
      · intro hb hs; exact this.1 (h1 hb (by simp only [MAXS] at hs; omega))
      · intro hb hs; exact this.2 (h2 hb (by simp only [MINS] at hs; omega))
    · exact hT.1 q e' hq
  · intro k e' hq
    rw [Std.HashMap.getElem?_insert] at hq
    split at hq
    · cases hq; exact h3
    · exact hT.2 k e' hq

theorem probe_inl {G : Game P M} {tt : Table M} (hT : TInv G tt) (p : P) (depth : Nat) (a0 b0 s : Int)
    (hab : a0 < b0) (h : probe tt (G.key p) depth a0 b0 = .inl s) : Claim G p a0 b0 s ∧ Rng s := by
  unfold probe at h
  split at h
  · rename_i e he
    have hse := hT.1 p e he
    have hr := hT.2 _ e he
    simp only [MAXS, MINS] at hse
    split at h
    · split at h
      · rename_i hb
        cases h
        exact ⟨⟨fun _ h => hse.1 (Or.inl hb) (by omega), fun _ h => hse.2 (Or.inl hb) (by omega)⟩, hr⟩
      · rename_i hb
        dsimp only at h
        split at h
        · cases h
          refine ⟨⟨fun _ h => hse.1 (Or.inr hb) (by omega), fun h _ => ?_⟩, hr⟩
          exfalso; omega
        · cases h
      · rename_i hb
        dsimp only at h
        split at h
        · cases h
          refine ⟨⟨fun h _ => ?_, fun _ h => hse.2 (Or.inr hb) (by omega)⟩, hr⟩
          exfalso; omega
        · cases h
    · cases h
  · cases h

theorem probe_inr {G : Game P M} {tt : Table M} (hT : TInv G tt) (p : P) (depth : Nat) (a0 b0 a b : Int)
    (hab : a0 < b0) (h : probe tt (G.key p) depth a0 b0 = .inr (a, b)) :
    a0 ≤ a ∧ b ≤ b0 ∧ a < b ∧ (a > a0 → a ≥ 32512 → Won G p) ∧ (b < b0 → b ≤ -32512 → Lost G p) := by
  unfold probe at h
  split at h
  · rename_i e he
    have hse := hT.1 p e he
    simp only [MAXS, MINS] at hse
    split at h
    · split at h
      · cases h
      · rename_i hb
        dsimp only at h
        split at h
        · cases h
        · cases h
          refine ⟨by omega, by omega, by omega, ?_, by omega⟩
          intro g1 g2
          exact hse.1 (Or.inr hb) (by omega)
      · rename_i hb
        dsimp only at h
        split at h
        · cases h
        · cases h
          refine ⟨by omega, by omega, by omega, by omega, ?_⟩
          intro g1 g2
          exact hse.2 (Or.inr hb) (by omega)
    · cases h; exact ⟨by omega, by omega, hab, by omega, by omega⟩
  · cases h; exact ⟨by omega, by omega, hab, by omega, by omega⟩

def RecSpec (G : Game P M) (root : P) (F : Nat) (rec : P → Int → Int → Nat → St M → Int × St M) : Prop :=
  ∀ c x y d st, Reach G root c → -32767 ≤ x → x < y → y ≤ 32767 → 1 ≤ st.ply → st.ply + F ≤ 256 →
    (st.ply = 1 → ¬ Mated G c) → TInv G st.tt →
    Claim G c x y (rec c x y d st).1 ∧ Rng (rec c x y d st).1 ∧ TInv G (rec c x y d st).2.tt ∧
      Frame st (rec c x y d st).2

theorem satNeg_eq {a : Int} (h1 : -32768 < a) (h2 : a ≤ 32767) : satNeg a = -a := by
  have g1 : ¬ (-a > MAXS) := by simp only [MAXS]; omega
  have g2 : ¬ (-a < MINS) := by simp only [MINS]; omega
  unfold satNeg satI16
  rw [if_neg g1, if_neg g2]

theorem satNeg_min : satNeg (-32768) = 32767 := by decide

theorem satNeg_of_rng {r : Int} (h : Rng r) : satNeg r = -r := satNeg_eq (by unfold Rng at h; omega) (by unfold Rng at h; omega)

/-- the upper end of a child window -/
theorem satNeg_alpha {a : Int} (h1 : -32768 ≤ a) (h2 : a ≤ 32766) :
    -32766 ≤ satNeg a ∧ satNeg a ≤ 32767 ∧ (-32768 < a → satNeg a = -a) ∧ (a = -32768 → satNeg a = 32767) := by
  by_cases h : a = -32768
  · subst h; rw [satNeg_min]; omega
  · rw [satNeg_eq (by omega) (by omega)]; omega

theorem pvsChild_spec {G : Game P M} {root : P} {F : Nat} {rec} (hrec : RecSpec G root F rec) (p : P) (m : M)
    (hp : Reach G root p) (hm : m ∈ G.allMoves p)
    (a b : Int) (depth : Nat) (pvs upd : Bool) (st : St M)
    (ha : -32768 ≤ a) (hab : a < b) (hb : b ≤ 32767) (hb' : -32767 < b)
    (hply : st.ply + 1 + F ≤ 256) (hmate : st.ply = 0 → ¬ Mated G (G.play p m)) (hT : TInv G st.tt) :
    Rng (pvsChild G rec p m a b depth pvs upd st).1 ∧
    ((pvsChild G rec p m a b depth pvs upd st).1 > a → (pvsChild G rec p m a b depth pvs upd st).1 ≥ 32512 →
      Lost G (G.play p m)) ∧
    ((pvsChild G rec p m a b depth pvs upd st).1 < b → (pvsChild G rec p m a b depth pvs upd st).1 ≤ -32512 →
      Won G (G.play p m)) ∧
    TInv G (pvsChild G rec p m a b depth pvs upd st).2.tt ∧ Frame st (pvsChild G rec p m a b depth pvs upd st).2 := by
  have hc : Reach G root (G.play p m) := Reach.step hp hm
  -- the state handed to the child
  obtain ⟨st1, hst1, h1ply, h1tt, h1bm, h1bs⟩ : ∃ st1 : St M,
      st1 = (if upd then { ({ st with nodes := st.nodes + 1, ply := st.ply + 1 } : St M) with
                seldepth := max st.seldepth (st.ply + 1) }
              else { st with nodes := st.nodes + 1, ply := st.ply + 1 }) ∧
      st1.ply = st.ply + 1 ∧ st1.tt = st.tt ∧ st1.bestMove = st.bestMove ∧ st1.bestScore = st.bestScore := by
    refine ⟨_, rfl, ?_, ?_, ?_, ?_⟩ <;> split <;> rfl
  have hT1 : TInv G st1.tt := h1tt ▸ hT
  have hsb : satNeg b = -b := satNeg_eq (by omega) hb
  obtain ⟨hy1, hy2, hy3, hy4⟩ := satNeg_alpha ha (by omega : a ≤ 32766)
  have hmate1 : st1.ply = 1 → ¬ Mated G (G.play p m) := fun h => hmate (by omega)
  unfold pvsChild
  dsimp only
  rw [← hst1, hsb]
  generalize satNeg a = y at *
  cases pvs with
  | false =>
    simp only [Bool.false_eq_true, ↓reduceIte]
    have h := hrec (G.play p m) (-b) y (depth - 1) st1 hc (by omega) (by omega) (by omega) (by omega) (by omega) hmate1 hT1
    obtain ⟨hcl, hr, hT2, hF⟩ := h
    rw [satNeg_of_rng hr]
    unfold Rng at hr
    refine ⟨⟨by omega, by omega⟩, ?_, ?_, hT2, ?_⟩
    · intro g1 g2; exact hcl.2 (by omega) (by omega)
    · intro g1 g2; exact hcl.1 (by omega) (by omega)
    · exact ⟨by simp [hF.1, h1ply], hF.2.1.trans h1bm, hF.2.2.trans h1bs⟩
  | true =>
    simp only [↓reduceIte]
    have h0 := hrec (G.play p m) (y - 1) y (depth - 1) st1 hc (by omega) (by omega) (by omega) (by omega) (by omega) hmate1 hT1
    generalize rec (G.play p m) (y - 1) y (depth - 1) st1 = res0 at *
    obtain ⟨r0, st2⟩ := res0
    dsimp only at h0 ⊢
    obtain ⟨hcl0, hr0, hT2, hF0⟩ := h0
    rw [satNeg_of_rng hr0]
    unfold Rng at hr0
    by_cases hre : a < -r0 ∧ -r0 < b
    · have hd : (decide (a < -r0) && decide (-r0 < b)) = true := by simp [hre.1, hre.2]
      simp only [hd, ↓reduceIte]
      have h := hrec (G.play p m) (-b) y (depth - 1) st2 hc (by omega) (by omega) (by omega)
        (by rw [hF0.1]; omega) (by rw [hF0.1]; omega) (fun h => hmate1 (by rw [← hF0.1]; exact h)) hT2
      generalize rec (G.play p m) (-b) y (depth - 1) st2 = res1 at *
      obtain ⟨r, st3⟩ := res1
      dsimp only at h ⊢
      obtain ⟨hcl, hr, hT3, hF⟩ := h
      rw [satNeg_of_rng hr]
      unfold Rng at hr
      refine ⟨⟨by omega, by omega⟩, ?_, ?_, hT3, ?_⟩
      · intro g1 g2; exact hcl.2 (by omega) (by omega)
      · intro g1 g2; exact hcl.1 (by omega) (by omega)
      · exact ⟨by simp [hF.1, hF0.1, h1ply], (hF.2.1.trans hF0.2.1).trans h1bm, (hF.2.2.trans hF0.2.2).trans h1bs⟩
    · have hd : (decide (a < -r0) && decide (-r0 < b)) = false := by
        simp only [Bool.and_eq_false_imp, decide_eq_true_eq, decide_eq_false_iff_not]
        intro g; exact fun g2 => hre ⟨g, g2⟩
      simp only [hd, Bool.false_eq_true, ↓reduceIte]
      refine ⟨⟨by omega, by omega⟩, ?_, ?_, hT2, ?_⟩
      · intro g1 g2; exact hcl0.2 (by omega) (by omega)
      · intro g1 g2; exact hcl0.1 (by omega) (by omega)
      · exact ⟨by simp [hF0.1, h1ply], hF0.2.1.trans h1bm, hF0.2.2.trans h1bs⟩

def AbPost (G : Game P M) (p : P) (ks : List M) (a b : Int) (n : Nat) (st : St M) : Loop M → Prop
  | .abort st' => TInv G st'.tt ∧ Frame st st'
  | .cut st' => (b ≥ 32512 → Won G p) ∧ b < 32767 ∧ TInv G st'.tt ∧ Frame st st'
  | .done alpha best n' st' => a ≤ alpha ∧ alpha < b ∧ (alpha > a → alpha ≥ 32512 → Won G p) ∧
      (alpha ≤ -32512 → ∀ m ∈ ks, G.legal p m = true → Won G (G.play p m)) ∧
      n' = n + (ks.filter (G.legal p)).length ∧ (n' ≠ n → -32767 < alpha) ∧ TInv G st'.tt ∧ Frame st st'

theorem mem_legalMovesOf {G : Game P M} {p : P} {m : M} (h1 : m ∈ G.allMoves p) (h2 : G.legal p m = true) :
    m ∈ legalMovesOf G p := by
  unfold legalMovesOf; exact List.mem_filter.2 ⟨h1, h2⟩

theorem abKids_spec {G : Game P M} (hk : KeyMate G) {root : P} {F : Nat} {rec} (hrec : RecSpec G root F rec)
    (env : Env) (p : P) (hp : Reach G root p) (depth : Nat) :
    ∀ (ks : List M) (a b : Int) (best : M) (pvs : Bool) (n : Nat) (st : St M),
      (∀ m ∈ ks, m ∈ G.allMoves p) → -32767 ≤ a → a < b → b ≤ 32767 → 1 ≤ st.ply → st.ply + 1 + F ≤ 256 →
      TInv G st.tt → AbPost G p ks a b n st (abKids env G rec p depth ks a b best pvs n st) := by
  intro ks
  induction ks with
  | nil =>
    intro a b best pvs n st _ ha hab hb _ _ hT
    simp only [abKids, AbPost, List.filter_nil, List.length_nil, Nat.add_zero, ne_eq, not_true_eq_false,
      List.not_mem_nil, false_imp_iff, implies_true, true_and]
    exact ⟨Int.le_refl _, hab, fun h => absurd h (Int.lt_irrefl _), hT, Frame.refl _⟩
  | cons m ks ih =>
    intro a b best pvs n st hsub ha hab hb hply1 hply hT
    have hm : m ∈ G.allMoves p := hsub m List.mem_cons_self
    have hsub' : ∀ c ∈ ks, c ∈ G.allMoves p := fun c hc => hsub c (List.mem_cons_of_mem _ hc)
    unfold abKids
    by_cases hl : G.legal p m = true
    · simp only [hl, Bool.not_true, Bool.false_eq_true, ↓reduceIte]
      have hpc := pvsChild_spec hrec p m hp hm a b depth pvs true st (by omega) hab hb (by omega) hply
        (fun h => by omega) hT
      generalize pvsChild G rec p m a b depth pvs true st = res at *
      obtain ⟨sc, st1⟩ := res
      dsimp only at hpc ⊢
      obtain ⟨hr, hL, hW, hT1, hF1⟩ := hpc
      have hact := abortCheck_tt env st1
      have hacf := abortCheck_frame env st1
      generalize abortCheck env st1 = res2 at *
      obtain ⟨ab, st2⟩ := res2
      dsimp only at hact hacf ⊢
      have hT2 : TInv G st2.tt := hact ▸ hT1
      have hF2 : Frame st st2 := hF1.trans hacf
      have hWp : sc > a → sc ≥ 32512 → Won G p := fun g1 g2 => Won.some m (mem_legalMovesOf hm hl) (hL g1 g2)
      unfold Rng at hr
      by_cases hab2 : ab = true
      · simp only [hab2, ↓reduceIte, AbPost]; exact ⟨hT2, hF2⟩
      · simp only [hab2, Bool.false_eq_true, ↓reduceIte]
        by_cases hcut : sc ≥ b
        · simp only [hcut, ↓reduceIte, AbPost]
          refine ⟨fun g => hWp (by omega) (by omega), by omega, ?_, ?_⟩
          · rw [storeKillers_tt]
            exact tinv_insert hk hT2 p _ (fun _ g => hWp (by omega) g) (fun g => by simp at g) ⟨hr.1, hr.2⟩
          · exact (hF2.trans (insert_frame _ _ _ _)).trans (storeKillers_frame _ _ _)
        · simp only [hcut, ↓reduceIte]
          by_cases hgt : sc > a
          · simp only [hgt, ↓reduceIte]
            have := ih sc b m true (n + 1) st2 hsub' (by omega) (by omega) hb (by rw [hF2.1]; exact hply1)
              (by rw [hF2.1]; exact hply) hT2
            revert this
            cases abKids env G rec p depth ks sc b m true (n + 1) st2 with
            | abort st' => intro ⟨g1, g2⟩; exact ⟨g1, hF2.trans g2⟩
            | cut st' => intro ⟨g1, g2, g3, g4⟩; exact ⟨g1, g2, g3, hF2.trans g4⟩
            | done alpha best' n' st' =>
              intro ⟨g1, g2, g3, g4, g5, g6, g7, g8⟩
              refine ⟨by omega, g2, ?_, ?_, ?_, fun _ => by omega, g7, hF2.trans g8⟩
              · intro _ hwin
                by_cases he : alpha > sc
                · exact g3 he hwin
                · exact hWp hgt (by omega)
              · intro hlo c hc hlc
                cases hc with
                | head => exact hW (by omega) (by omega)
                | tail _ hc => exact g4 hlo c hc hlc
              · simp only [List.filter_cons, hl, ↓reduceIte, List.length_cons]; omega
          · simp only [hgt, ↓reduceIte]
            have := ih a b best pvs (n + 1) st2 hsub' ha hab hb (by rw [hF2.1]; exact hply1)
              (by rw [hF2.1]; exact hply) hT2
            revert this
            cases abKids env G rec p depth ks a b best pvs (n + 1) st2 with
            | abort st' => intro ⟨g1, g2⟩; exact ⟨g1, hF2.trans g2⟩
            | cut st' => intro ⟨g1, g2, g3, g4⟩; exact ⟨g1, g2, g3, hF2.trans g4⟩
            | done alpha best' n' st' =>
              intro ⟨g1, g2, g3, g4, g5, g6, g7, g8⟩
              refine ⟨g1, g2, g3, ?_, ?_, fun _ => by omega, g7, hF2.trans g8⟩
              · intro hlo c hc hlc
                cases hc with
                | head => exact hW (by omega) (by omega)
                | tail _ hc => exact g4 hlo c hc hlc
              · simp only [List.filter_cons, hl, ↓reduceIte, List.length_cons]; omega
    · simp only [hl, Bool.not_false, ↓reduceIte]
      have := ih a b best pvs n st hsub' ha hab hb hply1 hply hT
      revert this
      cases abKids env G rec p depth ks a b best pvs n st with
      | abort st' => exact id
      | cut st' => exact id
      | done alpha best' n' st' =>
        intro ⟨g1, g2, g3, g4, g5, g6, g7, g8⟩
        refine ⟨g1, g2, g3, ?_, ?_, g6, g7, g8⟩
        · intro hlo c hc hlc
          cases hc with
          | head => exact absurd hlc hl
          | tail _ hc => exact g4 hlo c hc hlc
        · simp only [List.filter_cons, hl, Bool.false_eq_true, ↓reduceIte]; exact g5

def RecSpecQ (G : Game P M) (root : P) (rec : P → Int → Int → St M → Int × St M) : Prop :=
  ∀ c x y st, Reach G root c → -32767 ≤ x → x < y → y ≤ 32767 → TInv G st.tt →
    Claim G c x y (rec c x y st).1 ∧ Rng (rec c x y st).1 ∧ TInv G (rec c x y st).2.tt ∧ Frame st (rec c x y st).2

def QPost (G : Game P M) (p : P) (a b : Int) (st : St M) : QLoop M → Prop
  | .cut st' => (b ≥ 32512 → Won G p) ∧ b < 32767 ∧ TInv G st'.tt ∧ Frame st st'
  | .done alpha st' => a ≤ alpha ∧ alpha < b ∧ (alpha > a → alpha ≥ 32512 → Won G p) ∧ TInv G st'.tt ∧ Frame st st'

theorem qKids_spec {G : Game P M} {root : P} {rec} (hrec : RecSpecQ G root rec) (p : P) (hp : Reach G root p) :
    ∀ (ks : List M) (a b : Int) (st : St M),
      (∀ m ∈ ks, m ∈ G.allMoves p) → -32767 ≤ a → a < b → b ≤ 32767 → TInv G st.tt →
      QPost G p a b st (qKids G rec p ks a b st) := by
  intro ks
  induction ks with
  | nil =>
    intro a b st _ ha hab hb hT
    simp only [qKids, QPost]
    exact ⟨Int.le_refl _, hab, fun h => absurd h (Int.lt_irrefl _), hT, Frame.refl _⟩
  | cons m ks ih =>
    intro a b st hsub ha hab hb hT
    have hm : m ∈ G.allMoves p := hsub m List.mem_cons_self
    have hsub' : ∀ c ∈ ks, c ∈ G.allMoves p := fun c hc => hsub c (List.mem_cons_of_mem _ hc)
    unfold qKids
    by_cases hl : G.legal p m = true
    · simp only [hl, Bool.not_true, Bool.false_eq_true, ↓reduceIte]
      rw [satNeg_eq (by omega : -32768 < a) (by omega), satNeg_eq (by omega : -32768 < b) hb]
      generalize hst1 : ({ tt := st.tt, nodes := st.nodes + 1, ply := st.ply + 1, seldepth := max st.seldepth (st.ply + 1), killers := st.killers, running := st.running, polls := st.polls, clockReads := st.clockReads, bestMove := st.bestMove, bestScore := st.bestScore, writes := st.writes, aborted := st.aborted } : St M) = st1
      have h1 : st1.tt = st.tt ∧ st1.ply = st.ply + 1 ∧ st1.bestMove = st.bestMove ∧ st1.bestScore = st.bestScore := by
        subst hst1; exact ⟨rfl, rfl, rfl, rfl⟩
      have h := hrec (G.play p m) (-b) (-a) st1 (Reach.step hp hm) (by omega) (by omega) (by omega) (h1.1 ▸ hT)
      generalize rec (G.play p m) (-b) (-a) st1 = res at *
      obtain ⟨r, st2⟩ := res
      dsimp only at h ⊢
      obtain ⟨hcl, hr, hT2, hF⟩ := h
      rw [satNeg_of_rng hr]
      unfold Rng at hr
      have hF2 : Frame st ({ st2 with ply := st2.ply - 1 } : St M) :=
        ⟨by simp [hF.1, h1.2.1], hF.2.1.trans h1.2.2.1, hF.2.2.trans h1.2.2.2⟩
      have hWp : -r > a → -r ≥ 32512 → Won G p := fun g1 g2 =>
        Won.some m (mem_legalMovesOf hm hl) (hcl.2 (by omega) (by omega))
      by_cases hcut : -r ≥ b
      · simp only [hcut, ↓reduceIte, QPost]
        exact ⟨fun g => hWp (by omega) (by omega), by omega, hT2, hF2⟩
      · simp only [hcut, ↓reduceIte]
        by_cases hgt : -r > a
        · simp only [hgt, ↓reduceIte]
          have := ih (-r) b _ hsub' (by omega) (by omega) hb (show TInv G ({ st2 with ply := st2.ply - 1 } : St M).tt from hT2)
          revert this
          generalize qKids G rec p ks (-r) b _ = out
          cases out with
          | cut st' => intro ⟨g1, g2, g3, g4⟩; exact ⟨g1, g2, g3, hF2.trans g4⟩
          | done alpha st' =>
            intro ⟨g1, g2, g3, g4, g5⟩
            refine ⟨by omega, g2, ?_, g4, hF2.trans g5⟩
            intro _ hwin
            by_cases he : alpha > -r
            · exact g3 he hwin
            · exact hWp hgt (by omega)
        · simp only [hgt, ↓reduceIte]
          have := ih a b _ hsub' ha hab hb (show TInv G ({ st2 with ply := st2.ply - 1 } : St M).tt from hT2)
          revert this
          generalize qKids G rec p ks a b _ = out
          cases out with
          | cut st' => intro ⟨g1, g2, g3, g4⟩; exact ⟨g1, g2, g3, hF2.trans g4⟩
          | done alpha st' =>
            intro ⟨g1, g2, g3, g4, g5⟩
            exact ⟨g1, g2, g3, g4, hF2.trans g5⟩
    · simp only [hl, Bool.not_false, ↓reduceIte]
      exact ih a b st hsub' ha hab hb hT

theorem claim_zero (G : Game P M) (p : P) (a b : Int) : Claim G p a b 0 :=
  ⟨fun _ h => absurd h (by omega), fun _ h => absurd h (by omega)⟩

theorem rng_zero : Rng 0 := ⟨by omega, by omega⟩

theorem quiesce_spec {G : Game P M} (root : P) (he : EvalBoundedFrom G root) (env : Env) :
    ∀ fuel, RecSpecQ G root (quiesce env G fuel) := by
  intro fuel
  induction fuel with
  | zero =>
    intro c x y st _ _ _ _ hT
    exact ⟨claim_zero _ _ _ _, rng_zero, hT, Frame.refl _⟩
  | succ fuel ih =>
    intro p a b st hp ha hab hb hT
    have hev := he p hp
    unfold quiesce
    have hact := abortCheck_tt env st
    have hacf := abortCheck_frame env st
    generalize abortCheck env st = res at *
    obtain ⟨ab, st1⟩ := res
    dsimp only at hact hacf ⊢
    have hT1 : TInv G st1.tt := hact ▸ hT
    by_cases hab1 : ab = true
    · simp only [hab1, ↓reduceIte]
      exact ⟨claim_zero _ _ _ _, rng_zero, hT1, hacf⟩
    · simp only [hab1, Bool.false_eq_true, ↓reduceIte]
      by_cases hsp : G.eval p ≥ b
      · simp only [hsp, ↓reduceIte]
        exact ⟨⟨fun _ h => by omega, fun h _ => by omega⟩, ⟨by omega, by omega⟩, hT1, hacf⟩
      · simp only [hsp, ↓reduceIte]
        generalize ha' : (if G.eval p > a then G.eval p else a) = a'
        have ha1 : a ≤ a' ∧ G.eval p ≤ a' ∧ a' < b ∧ (a' > a → a' = G.eval p) := by
          subst ha'; split <;> omega
        have hq := qKids_spec ih p hp
          (orderMoves G ((st1.tt[G.key p]?).map (·.best)) (st1.killers.getD st1.ply (none, none))
            ((G.allMoves p).filter G.isCapture)) a' b st1
          (fun m hm => (List.mem_filter.1 ((mem_orderMoves _ _ _ _ _).1 hm)).1) (by omega) (by omega) hb hT1
        revert hq
        generalize qKids G (quiesce env G fuel) p _ a' b st1 = out
        cases out with
        | cut st' =>
          intro ⟨g1, g2, g3, g4⟩
          dsimp only
          exact ⟨⟨fun _ h => g1 h, fun h _ => by omega⟩, ⟨by omega, g2⟩, g3, hacf.trans g4⟩
        | done alpha st' =>
          intro ⟨g1, g2, g3, g4, g5⟩
          dsimp only
          refine ⟨⟨?_, fun _ h => by omega⟩, ⟨by omega, by omega⟩, g4, hacf.trans g5⟩
          intro h1 h2
          exact g3 (by omega) h2

theorem legal_nil_of_filter {G : Game P M} {p : P} {tm : Option M} {k : Option M × Option M}
    (h : ((orderMoves G tm k (G.allMoves p)).filter (G.legal p)).length = 0) : legalMovesOf G p = [] := by
  have h' := List.eq_nil_of_length_eq_zero h
  unfold legalMovesOf
  rw [List.filter_eq_nil_iff] at h' ⊢
  intro m hm
  exact h' m ((mem_orderMoves _ _ _ _ _).2 hm)

theorem legal_ne_nil_of_filter {G : Game P M} {p : P} {tm : Option M} {k : Option M × Option M}
    (h : ((orderMoves G tm k (G.allMoves p)).filter (G.legal p)).length ≠ 0) : legalMovesOf G p ≠ [] := by
  intro h2
  apply h
  unfold legalMovesOf at h2
  rw [List.length_eq_zero_iff]
  rw [List.filter_eq_nil_iff] at h2 ⊢
  intro m hm
  exact h2 m ((mem_orderMoves _ _ _ _ _).1 hm)

theorem mem_ordered_of_legal {G : Game P M} {p : P} {tm : Option M} {k : Option M × Option M} {m : M}
    (h : m ∈ legalMovesOf G p) : m ∈ orderMoves G tm k (G.allMoves p) ∧ G.legal p m = true := by
  unfold legalMovesOf at h
  have := List.mem_filter.1 h
  exact ⟨(mem_orderMoves _ _ _ _ _).2 this.1, this.2⟩

theorem ab_spec {G : Game P M} (hk : KeyMate G) (root : P) (he : EvalBoundedFrom G root) (env : Env) :
    ∀ fuel, RecSpec G root fuel (ab env G fuel) := by
  intro fuel
  induction fuel with
  | zero =>
    intro c x y d st _ _ _ _ _ _ _ hT
    exact ⟨claim_zero _ _ _ _, rng_zero, hT, Frame.refl _⟩
  | succ fuel ih =>
    intro p a0 b0 depth st hp ha hab hb hply1 hply hmate hT
    unfold ab
    have hact := abortCheck_tt env st
    have hacf := abortCheck_frame env st
    generalize abortCheck env st = res at *
    obtain ⟨ab1, st1⟩ := res
    dsimp only at hact hacf ⊢
    have hT1 : TInv G st1.tt := hact ▸ hT
    by_cases hab1 : ab1 = true
    · simp only [hab1, ↓reduceIte]
      exact ⟨claim_zero _ _ _ _, rng_zero, hT1, hacf⟩
    simp only [hab1, Bool.false_eq_true, ↓reduceIte]
    by_cases hfif : G.fifty p = true
    · simp only [hfif, ↓reduceIte]
      exact ⟨claim_zero _ _ _ _, rng_zero, hT1, hacf⟩
    simp only [hfif, Bool.false_eq_true, ↓reduceIte]
    by_cases hrep : G.repeated p = true
    · simp only [hrep, ↓reduceIte]
      exact ⟨claim_zero _ _ _ _, rng_zero, hT1, hacf⟩
    simp only [hrep, Bool.false_eq_true, ↓reduceIte]
    -- the cache switch
    generalize hst2 : (if env.cacheOff = true then ({ st1 with tt := {} } : St M) else st1) = st2
    have h2 : TInv G st2.tt ∧ Frame st st2 := by
      subst hst2
      split
      · exact ⟨tinv_empty G, hacf⟩
      · exact ⟨hT1, hacf⟩
    obtain ⟨hT2, hF2⟩ := h2
    rcases hpr : probe st2.tt (G.key p) depth a0 b0 with s | ⟨a, b⟩
    · dsimp only
      have := probe_inl hT2 p depth a0 b0 s hab hpr
      exact ⟨this.1, this.2, hT2, hF2⟩
    · dsimp only
      obtain ⟨haa, hbb, hab', hWa, hLb⟩ := probe_inr hT2 p depth a0 b0 a b hab hpr
      generalize hdep : (if G.inCheck p = true then depth + 1 else depth) = dep
      by_cases hd0 : dep = 0
      · simp only [hd0, ↓reduceIte]
        have hq := quiesce_spec root he env (fuel + 1) p a b st2 hp (by omega) hab' (by omega) hT2
        obtain ⟨hcl, hr, hT3, hF3⟩ := hq
        refine ⟨⟨?_, ?_⟩, hr, hT3, hF2.trans hF3⟩
        · intro h1 h2
          by_cases h : (quiesce env G (fuel + 1) p a b st2).1 > a
          · exact hcl.1 h h2
          · exact hWa (by omega) (by omega)
        · intro h1 h2
          by_cases h : (quiesce env G (fuel + 1) p a b st2).1 < b
          · exact hcl.2 h h2
          · exact hLb (by omega) (by omega)
      · simp only [hd0, ↓reduceIte]
        have hkids := abKids_spec hk ih env p hp dep
          (orderMoves G ((st2.tt[G.key p]?).map (·.best)) (st2.killers.getD st2.ply (none, none)) (G.allMoves p))
          a b ((G.allMoves p).headD G.defaultMove) false 0 st2
          (fun m hm => (mem_orderMoves _ _ _ _ _).1 hm) (by omega) hab' (by omega)
          (by rw [hF2.1]; exact hply1) (by rw [hF2.1]; omega) hT2
        revert hkids
        generalize abKids env G (ab env G fuel) p dep _ a b _ false 0 st2 = out
        cases out with
        | abort st' =>
          intro ⟨g1, g2⟩
          exact ⟨claim_zero _ _ _ _, rng_zero, g1, hF2.trans g2⟩
        | cut st' =>
          intro ⟨g1, g2, g3, g4⟩
          dsimp only
          exact ⟨⟨fun _ h => g1 h, fun h1 h2 => hLb (by omega) h2⟩, ⟨by omega, g2⟩, g3, hF2.trans g4⟩
        | done alpha best n st' =>
          intro ⟨g1, g2, g3, g4, g5, g6, g7, g8⟩
          dsimp only
          have hF' : Frame st st' := hF2.trans g8
          have g5' := g5
          rw [Nat.zero_add] at g5'
          by_cases hn : n = 0
          · simp only [hn, ↓reduceIte]
            have hnil : legalMovesOf G p = [] := legal_nil_of_filter (g5'.symm.trans hn)
            by_cases hc : G.inCheck p = true
            · simp only [hc, ↓reduceIte]
              have hply2 : 2 ≤ st'.ply ∧ st'.ply ≤ 255 := by
                rw [hF'.1]
                have : st.ply ≠ 1 := fun h => hmate h ⟨hnil, hc⟩
                omega
              refine ⟨⟨fun _ h => ?_, fun _ _ => Lost.mate hnil hc⟩, ⟨?_, ?_⟩, g7, hF'⟩
              · exfalso; simp only [MINS] at h; omega
              · simp only [MINS]; omega
              · simp only [MINS]; omega
            · simp only [hc, Bool.false_eq_true, ↓reduceIte]
              exact ⟨claim_zero _ _ _ _, rng_zero, g7, hF'⟩
          · simp only [hn, ↓reduceIte]
            have hW : alpha > a0 → alpha ≥ 32512 → Won G p := by
              intro h1 h2
              by_cases h : alpha > a
              · exact g3 h h2
              · exact hWa (by omega) (by omega)
            have hL : alpha ≤ -32512 → Lost G p := fun h =>
              Lost.all (legal_ne_nil_of_filter (fun h => hn (g5'.trans h))) (fun m hm =>
                g4 h m (mem_ordered_of_legal hm).1 (List.mem_filter.1 hm).2)
            have hra : Rng alpha := ⟨g6 (by omega), by omega⟩
            refine ⟨⟨hW, fun _ h => hL h⟩, hra, ?_, hF'.trans (insert_frame _ _ _ _)⟩
            apply tinv_insert hk g7 p _ _ (fun _ h => hL h) hra
            intro hb2 h
            dsimp only at hb2 h
            split at hb2
            · simp at hb2
            · exact hW (by omega) h

/-- a reported winning mate score is backed by a forced mate after the reported move -/
def RootInv (G : Game P M) (p : P) (st : St M) : Prop :=
  ∀ s m, st.bestScore = some s → st.bestMove = some m → s ≥ 32512 → Lost G (G.play p m)

def Good (G : Game P M) (p : P) (alpha : Int) (best : M) : Prop :=
  alpha ≥ 32512 → best ∈ legalMovesOf G p ∧ Lost G (G.play p best)

theorem RootInv.frame {G : Game P M} {p : P} {st st' : St M} (h : RootInv G p st) (hF : Frame st st') :
    RootInv G p st' := by
  intro s m h1 h2 h3
  exact h s m (hF.2.2 ▸ h1) (hF.2.1 ▸ h2) h3

def RootPost (G : Game P M) (p : P) (ks : List M) (a : Int) (n : Nat) (st : St M) : RootLoop M → Prop
  | .abort st' => TInv G st'.tt ∧ st'.ply = st.ply ∧ RootInv G p st'
  | .done alpha best n' st' => a ≤ alpha ∧ alpha < 32767 ∧ Good G p alpha best ∧
      (alpha ≤ -32512 → ∀ m ∈ ks, G.legal p m = true → Won G (G.play p m)) ∧
      n' = n + (ks.filter (G.legal p)).length ∧ (n' ≠ n → -32767 < alpha) ∧ TInv G st'.tt ∧ Frame st st'

theorem rootKids_spec {G : Game P M} {p : P} {rec} (hrec : RecSpec G p 255 rec) (hno : NoMateInOne G p)
    (env : Env) (depth : Nat) :
    ∀ (ks : List M) (a : Int) (best : M) (pvs : Bool) (n : Nat) (st : St M),
      (∀ m ∈ ks, m ∈ G.allMoves p) → -32768 ≤ a → a < 32767 → Good G p a best → st.ply = 0 →
      TInv G st.tt → RootInv G p st → RootPost G p ks a n st (rootKids env G rec p depth ks a best pvs n st) := by
  intro ks
  induction ks with
  | nil =>
    intro a best pvs n st _ ha hb hg _ hT _
    simp only [rootKids, RootPost, List.filter_nil, List.length_nil, Nat.add_zero, ne_eq, not_true_eq_false,
      List.not_mem_nil, false_imp_iff, implies_true, true_and]
    exact ⟨Int.le_refl _, hb, hg, hT, Frame.refl _⟩
  | cons m ks ih =>
    intro a best pvs n st hsub ha hb hg hply hT hR
    have hm : m ∈ G.allMoves p := hsub m List.mem_cons_self
    have hsub' : ∀ c ∈ ks, c ∈ G.allMoves p := fun c hc => hsub c (List.mem_cons_of_mem _ hc)
    unfold rootKids
    by_cases hl : G.legal p m = true
    · simp only [hl, Bool.not_true, Bool.false_eq_true, ↓reduceIte]
      have hM : MAXS = 32767 := rfl
      rw [hM]
      have hml := mem_legalMovesOf hm hl
      have hpc := pvsChild_spec hrec p m Reach.refl hm a 32767 depth pvs false st ha hb (by omega) (by omega)
        (by omega) (fun _ => hno m hml) hT
      generalize pvsChild G rec p m a 32767 depth pvs false st = res at *
      obtain ⟨sc, st1⟩ := res
      dsimp only at hpc ⊢
      obtain ⟨hr, hL, hW, hT1, hF1⟩ := hpc
      have hact := abortCheck_tt env st1
      have hacf := abortCheck_frame env st1
      generalize abortCheck env st1 = res2 at *
      obtain ⟨ab, st2⟩ := res2
      dsimp only at hact hacf ⊢
      have hT2 : TInv G st2.tt := hact ▸ hT1
      have hF2 : Frame st st2 := hF1.trans hacf
      have hR2 : RootInv G p st2 := hR.frame hF2
      unfold Rng at hr
      by_cases hab2 : ab = true
      · simp only [hab2, ↓reduceIte, RootPost]
        split
        · refine ⟨hT2, hF2.1, ?_⟩
          intro s m' h1 h2 h3
          simp only [Option.some.injEq] at h1 h2
          subst h1 h2
          exact (hg h3).2
        · exact ⟨hT2, hF2.1, hR2⟩
      · simp only [hab2, Bool.false_eq_true, ↓reduceIte]
        by_cases hgt : sc > a
        · simp only [hgt, ↓reduceIte]
          have hg' : Good G p sc m := fun g => ⟨hml, hL hgt g⟩
          have := ih sc m true (n + 1) st2 hsub' (by omega) (by omega) hg' (by rw [hF2.1]; exact hply) hT2 hR2
          revert this
          cases rootKids env G rec p depth ks sc m true (n + 1) st2 with
          | abort st' => intro ⟨g1, g2, g3⟩; exact ⟨g1, g2.trans hF2.1, g3⟩
          | done alpha best' n' st' =>
            intro ⟨g1, g2, g3, g4, g5, g6, g7, g8⟩
            refine ⟨by omega, g2, g3, ?_, ?_, fun _ => by omega, g7, hF2.trans g8⟩
            · intro hlo c hc hlc
              cases hc with
              | head => exact hW (by omega) (by omega)
              | tail _ hc => exact g4 hlo c hc hlc
            · simp only [List.filter_cons, hl, ↓reduceIte, List.length_cons]; omega
        · simp only [hgt, ↓reduceIte]
          have := ih a best pvs (n + 1) st2 hsub' ha hb hg (by rw [hF2.1]; exact hply) hT2 hR2
          revert this
          cases rootKids env G rec p depth ks a best pvs (n + 1) st2 with
          | abort st' => intro ⟨g1, g2, g3⟩; exact ⟨g1, g2.trans hF2.1, g3⟩
          | done alpha best' n' st' =>
            intro ⟨g1, g2, g3, g4, g5, g6, g7, g8⟩
            refine ⟨g1, g2, g3, ?_, ?_, fun _ => by omega, g7, hF2.trans g8⟩
            · intro hlo c hc hlc
              cases hc with
              | head => exact hW (by omega) (by omega)
              | tail _ hc => exact g4 hlo c hc hlc
            · simp only [List.filter_cons, hl, ↓reduceIte, List.length_cons]; omega
    · simp only [hl, Bool.not_false, ↓reduceIte]
      have := ih a best pvs n st hsub' ha hb hg hply hT hR
      revert this
      cases rootKids env G rec p depth ks a best pvs n st with
      | abort st' => exact id
      | done alpha best' n' st' =>
        intro ⟨g1, g2, g3, g4, g5, g6, g7, g8⟩
        refine ⟨g1, g2, g3, ?_, ?_, g6, g7, g8⟩
        · intro hlo c hc hlc
          cases hc with
          | head => exact absurd hlc hl
          | tail _ hc => exact g4 hlo c hc hlc
        · simp only [List.filter_cons, hl, Bool.false_eq_true, ↓reduceIte]; exact g5

def RootSt (G : Game P M) (p : P) (st : St M) : Prop := TInv G st.tt ∧ st.ply = 0 ∧ RootInv G p st

theorem abStart_spec {G : Game P M} (hk : KeyMate G) (p : P) (he : EvalBoundedFrom G p) (hno : NoMateInOne G p)
    (env : Env) (depth : Nat) (st : St M) (h : RootSt G p st) : RootSt G p (abStart env G p depth st) := by
  obtain ⟨hT, hply, hR⟩ := h
  unfold abStart
  dsimp only
  split
  · exact ⟨hT, hply, hR⟩
  · rename_i m0 ms hmoves
    have hM : MINS = -32768 := rfl
    rw [hM]
    have hkids := rootKids_spec (ab_spec hk p he env 255) hno env depth
      (orderMoves G ((st.tt[G.key p]?).map (·.best)) (st.killers.getD st.ply (none, none)) (G.allMoves p))
      (-32768) m0 false 0 st (fun m hm => (mem_orderMoves _ _ _ _ _).1 hm) (by omega) (by omega)
      (fun g => absurd g (by omega)) hply hT hR
    revert hkids
    generalize rootKids env G (ab env G 255) p depth _ (-32768) m0 false 0 st = out
    cases out with
    | abort st' => intro ⟨g1, g2, g3⟩; exact ⟨g1, g2.trans hply, g3⟩
    | done alpha best n st' =>
      intro ⟨g1, g2, g3, g4, g5, g6, g7, g8⟩
      dsimp only
      have hR' : RootInv G p st' := hR.frame g8
      by_cases hn : n = 0
      · simp only [hn, ↓reduceIte]; exact ⟨g7, g8.1.trans hply, hR'⟩
      · simp only [hn, ↓reduceIte]
        have hact := abortCheck_tt env st'
        have hacf := abortCheck_frame env st'
        generalize abortCheck env st' = res2 at *
        obtain ⟨ab, st2⟩ := res2
        dsimp only at hact hacf ⊢
        by_cases hab2 : ab = true
        · simp only [hab2, ↓reduceIte]
          exact ⟨hact ▸ g7, (hacf.1.trans g8.1).trans hply, hR'.frame hacf⟩
        · simp only [hab2, Bool.false_eq_true, ↓reduceIte]
          have g5' := g5
          rw [Nat.zero_add] at g5'
          refine ⟨?_, (hacf.1.trans g8.1).trans hply, ?_⟩
          · show TInv G (st2.tt.insert (G.key p) _)
            rw [hact]
            apply tinv_insert hk g7 p _ _ _ ⟨g6 (by omega), g2⟩
            · intro _ h
              obtain ⟨h1, h2⟩ := g3 h
              exact Won.some best h1 h2
            · intro _ h
              exact Lost.all (legal_ne_nil_of_filter (fun h' => hn (g5'.trans h'))) (fun m hm =>
                g4 h m (mem_ordered_of_legal hm).1 (List.mem_filter.1 hm).2)
          · intro s m h1 h2 h3
            simp only [Option.some.injEq] at h1 h2
            subst h1 h2
            exact (g3 h3).2

theorem iterate_spec {G : Game P M} (hk : KeyMate G) (p : P) (he : EvalBoundedFrom G p) (hno : NoMateInOne G p)
    (env : Env) (maxDepth : Nat) :
    ∀ (fuel d : Nat) (st : St M) (infos : List (InfoLine M)), RootSt G p st →
      RootSt G p (iterate env G p maxDepth fuel d st infos).1 := by
  intro fuel
  induction fuel with
  | zero => intro d st infos h; exact h
  | succ fuel ih =>
    intro d st infos h
    unfold iterate
    dsimp only
    split
    · exact h
    · have h1 := abStart_spec hk p he hno env d st h
      generalize abStart env G p d st = st1 at *
      have hact := abortCheck_tt env st1
      have hacf := abortCheck_frame env st1
      generalize abortCheck env st1 = res2 at *
      obtain ⟨ab, st2⟩ := res2
      dsimp only at hact hacf ⊢
      have h2 : RootSt G p st2 := ⟨hact ▸ h1.1, hacf.1.trans h1.2.1, h1.2.2.frame hacf⟩
      split
      · exact h2
      · exact ih _ _ _ h2

theorem search_spec {G : Game P M} (hk : KeyMate G) (p : P) (he : EvalBoundedFrom G p) (hno : NoMateInOne G p)
    (env : Env) (maxDepth : Option Nat) (tt0 : Table M) (hs : MateSound G tt0) (hst : StrictScores tt0) :
    RootSt G p (search env G p maxDepth tt0).st := by
  have h0 : RootSt G p ({ tt := tt0 } : St M) := ⟨⟨hs, hst⟩, rfl, fun s m h => by simp at h⟩
  have := iterate_spec hk p he hno env (maxDepth.getD 255) (maxDepth.getD 255) 1 _ [] h0
  unfold search
  dsimp only
  exact this

/-! ## the statements of C12, and what is true of them -/

/-- C12, first clause, as specified.  FALSE for the model (see `tt_mate_sound_refuted`). -/
def tt_mate_sound_statement : Prop :=
  ∀ (P M : Type) [DecidableEq M] (env : Env) (G : Game P M) (p : P) (maxDepth : Option Nat) (tt0 : Table M),
    KeyMate G → EvalBoundedFrom G p → MateSound G tt0 → MateSound G (search env G p maxDepth tt0).st.tt

/-- C12, second clause, as specified.  FALSE for the model (see `mate_score_sound_refuted`). -/
def mate_score_sound_statement : Prop :=
  ∀ (P M : Type) [DecidableEq M] (env : Env) (G : Game P M) (p : P) (maxDepth : Option Nat) (tt0 : Table M),
    KeyMate G → EvalBoundedFrom G p → MateSound G tt0 → ∀ (s : Int) (m : M),
    (search env G p maxDepth tt0).st.bestScore = some s → s ≥ MAXS - 255 →
    (search env G p maxDepth tt0).st.bestMove = some m → Lost G (G.play p m)

/-- the search keeps the cache mate-sound — provided no legal root move mates at once and the initial
    cache holds no score `≤ −32767` / `≥ 32767` (each of the two alone is not enough) -/
theorem tt_mate_sound_partial (env : Env) (G : Game P M) (p : P) (maxDepth : Option Nat) (tt0 : Table M)
    (hk : KeyMate G) (he : EvalBoundedFrom G p) (hs : MateSound G tt0)
    (hno : NoMateInOne G p) (hst : StrictScores tt0) :
    MateSound G (search env G p maxDepth tt0).st.tt :=
  (search_spec hk p he hno env maxDepth tt0 hs hst).1.1

/-- under the same hypotheses the cache keeps its scores strictly inside `(−32767, 32767)` -/
theorem strict_scores_preserved (env : Env) (G : Game P M) (p : P) (maxDepth : Option Nat) (tt0 : Table M)
    (hk : KeyMate G) (he : EvalBoundedFrom G p) (hs : MateSound G tt0)
    (hno : NoMateInOne G p) (hst : StrictScores tt0) :
    StrictScores (search env G p maxDepth tt0).st.tt :=
  (search_spec hk p he hno env maxDepth tt0 hs hst).1.2

/-- a winning mate score for the root is backed by a forced mate after the chosen move — same provisos -/
theorem mate_score_sound_partial (env : Env) (G : Game P M) (p : P) (maxDepth : Option Nat) (tt0 : Table M)
    (hk : KeyMate G) (he : EvalBoundedFrom G p) (hs : MateSound G tt0)
    (hno : NoMateInOne G p) (hst : StrictScores tt0) (s : Int) (m : M)
    (hb : (search env G p maxDepth tt0).st.bestScore = some s) (hw : s ≥ MAXS - 255)
    (hm : (search env G p maxDepth tt0).st.bestMove = some m) :
    Lost G (G.play p m) :=
  (search_spec hk p he hno env maxDepth tt0 hs hst).2.2 s m hb hm (by simp only [MAXS] at hw; omega)

/-! ## counterexamples to the full statements

Root β is `MAXS = 32767`, which is also the score of a mate in one (`satNeg (MINS + 1)`).  Once the root's α has
reached `MAXS`, the remaining root moves are searched with the null window `(−32768, −32767)`; below it the windows
are EMPTY: `(32767, 32767)`, then `(−32767, −32767)`, ….  In an empty window the fail-hard returns are no bounds at
all: quiescence stands pat with `β = −32767` for any position, its parent sees `32767 ≥ β = 32767`, cuts, and writes
`⟨32767, lower⟩` — "mate in one" — for an arbitrary position (site 2).

Positions and moves are `Fin 8` (a move is its target square), the key is injective, every evaluation is 0. -/
namespace Counter

def mkGame (moves : Fin 8 → List (Fin 8)) (chk : Fin 8 → Bool) : Game (Fin 8) (Fin 8) where
  allMoves := moves
  legal _ _ := true
  play _ m := m
  inCheck := chk
  eval _ := 0
  fifty _ := false
  repeated _ := false
  key p := UInt64.ofNat p.val
  isCapture _ := false
  isPromotion _ := false
  staticScore _ := 0
  defaultMove := 0

theorem key_inj (mv ck) : ∀ p q : Fin 8, (mkGame mv ck).key p = (mkGame mv ck).key q → p = q := by
  show ∀ p q : Fin 8, UInt64.ofNat p.val = UInt64.ofNat q.val → p = q
  decide

theorem keyMate (mv ck) : KeyMate (mkGame mv ck) := by
  intro p q h; cases key_inj mv ck p q h; exact ⟨id, id⟩

theorem evalBounded (mv ck) (p : Fin 8) : EvalBoundedFrom (mkGame mv ck) p := by
  intro q _; exact ⟨by show (-32511 : Int) ≤ 0; omega, by show (0 : Int) ≤ 32511; omega⟩

theorem legalMoves_eq (mv ck) (p : Fin 8) : legalMovesOf (mkGame mv ck) p = mv p := by
  show (mv p).filter (fun _ => true) = mv p
  simp

/-- 0 = root: 1 (mates at once), 2;  2 → 3 → 4;  4 has no move and is not in check -/
def G1 : Game (Fin 8) (Fin 8) :=
  mkGame (fun p => match p with | 0 => [1, 2] | 2 => [3] | 3 => [4] | _ => []) (fun p => p == 1)

theorem G1_not_won_3 : ¬ Won G1 3 := by
  intro h
  cases h with
  | some m hm hl =>
    rw [G1, legalMoves_eq] at hm
    simp only [List.mem_singleton] at hm
    subst hm
    cases hl with
    | mate _ hc => exact absurd hc (by decide)
    | all hne _ => rw [G1, legalMoves_eq] at hne; exact hne rfl

/-- depth 3, empty cache: the final cache says "position 3 is won (lower bound 32767)" -/
def r1 := search {} G1 0 (some 3) {}

/--
info: [(0, 32767, 3, RCE.Search.Bound.exact, 1),
 (2, -32767, 2, RCE.Search.Bound.lower, 3),
 (3, 32767, 1, RCE.Search.Bound.lower, 4)]
-/
#guard_msgs in
#eval r1.st.tt.toList.map fun (k, e) => (k, e.score, e.depth, e.bound, e.best)

/-- `tt_mate_sound_statement` fails, given the cache entry displayed by the `#eval` above -/
theorem tt_mate_sound_refuted
    (hrun : ∃ e, r1.st.tt[G1.key 3]? = some e ∧ e.bound = .lower ∧ e.score = 32767) :
    ¬ tt_mate_sound_statement := by
  intro h
  obtain ⟨e, h1, h2, h3⟩ := hrun
  have hs := h (Fin 8) (Fin 8) {} G1 0 (some 3) {} (keyMate _ _) (evalBounded _ _ _) (tinv_empty G1).1
  exact G1_not_won_3 ((hs 3 e h1).1 (Or.inr h2) (by rw [h3]; decide))

/-- info: true -/
#guard_msgs in
#eval (match r1.st.tt[G1.key 3]? with | some e => e.bound == Bound.lower && e.score == 32767 | none => false)

/-- 0 = root: 1, 2;  1 → 5 → 6 with 6 mated (so 1 is lost, in two);  2 → 3 (in check) → 4 (stalemate) -/
def G2 : Game (Fin 8) (Fin 8) :=
  mkGame (fun p => match p with | 0 => [1, 2] | 1 => [5] | 5 => [6] | 2 => [3] | 3 => [4] | _ => [])
    (fun p => p == 6 || p == 3)

/-- the initial cache: the (truly) lost position 1 with the score −32767, exact, depth 1 -/
def tt2 : Table (Fin 8) := ({} : Table (Fin 8)).insert (G2.key 1) ⟨-32767, 1, .exact, 5⟩

theorem G2_lost_1 : Lost G2 1 := by
  refine Lost.all (by rw [G2, legalMoves_eq]; exact List.cons_ne_nil _ _) ?_
  intro m hm
  rw [G2, legalMoves_eq] at hm
  simp only [List.mem_singleton] at hm
  subst hm
  refine Won.some (6 : Fin 8) (by rw [G2, legalMoves_eq]; exact List.mem_singleton.2 rfl) ?_
  exact Lost.mate (by rw [G2, legalMoves_eq]; rfl) (by decide)

theorem G2_mateSound : MateSound G2 tt2 := by
  intro p e h
  rw [tt2, Std.HashMap.getElem?_insert] at h
  split at h
  · rename_i heq
    have heq' : G2.key 1 = G2.key p := by simpa using heq
    have : (1 : Fin 8) = p := key_inj _ _ _ _ heq'
    subst this
    cases h
    exact ⟨fun _ hs => absurd hs (by decide), fun _ _ => G2_lost_1⟩
  · simp at h

theorem G2_noMateInOne : NoMateInOne G2 0 := by
  intro m hm hmated
  rw [G2, legalMoves_eq] at hm
  have hnil := hmated.1
  rw [G2, legalMoves_eq] at hnil
  simp only [List.mem_cons, List.not_mem_nil, or_false] at hm
  rcases hm with rfl | rfl
  · exact absurd hnil (by decide)
  · exact absurd hnil (by decide)

theorem G2_not_lost_2 : ¬ Lost G2 2 := by
  intro h
  cases h with
  | mate hnil _ => rw [G2, legalMoves_eq] at hnil; exact absurd hnil (by decide)
  | all _ hall =>
    have hw := hall 3 (by rw [G2, legalMoves_eq]; exact List.mem_singleton.2 rfl)
    cases hw with
    | some m hm hl =>
      rw [G2, legalMoves_eq] at hm
      change m ∈ [(4 : Fin 8)] at hm
      simp only [List.mem_singleton] at hm
      subst hm
      cases hl with
      | mate _ hc => exact absurd hc (by decide)
      | all hne _ => rw [G2, legalMoves_eq] at hne; exact hne rfl

/-- depth 3: iteration 2 plants `⟨32767, lower, depth 1⟩` for position 3 (the check extension makes it deep enough
    to be used), iteration 3 reads it in an ordinary window: "move 2 mates" -/
def r2 := search {} G2 0 (some 3) tt2

/-- info: (some 32767, some 2) -/
#guard_msgs in
#eval (r2.st.bestScore, r2.st.bestMove)

/-- `mate_score_sound_statement` fails, given the result displayed by the `#eval` above -/
theorem mate_score_sound_refuted (hrun : r2.st.bestScore = some 32767 ∧ r2.st.bestMove = some 2) :
    ¬ mate_score_sound_statement := by
  intro h
  exact G2_not_lost_2 (h (Fin 8) (Fin 8) {} G2 0 (some 3) tt2 (keyMate _ _) (evalBounded _ _ _) G2_mateSound
    32767 2 hrun.1 (by decide) hrun.2)

/-- the first counterexample has an empty initial cache (`StrictScores` holds, `NoMateInOne` fails); the second has
    no mate in one (`NoMateInOne` holds, `StrictScores` fails): neither proviso of the `_partial` theorems can be dropped -/
theorem G1_strict : StrictScores ({} : Table (Fin 8)) := (tinv_empty G1).2

end Counter

end RCE.Proofs.SearchMate
