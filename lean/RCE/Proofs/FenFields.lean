import RCE.Model.Fen
import RCE.Spec.FenRender
import RCE.Proofs.Abs
/-! C07, part 1: splitting the rendered FEN into its fields, and the reader's treatment of the
    side / castling / en-passant / counter fields. -/
namespace RCE.Proofs.FenFields
open RCE RCE.Proofs.Abs

/-! ### `splitWs` -/

def NoWs (l : List Char) : Prop := ∀ c ∈ l, isAsciiWs c = false

instance (l : List Char) : Decidable (NoWs l) := by unfold NoWs; infer_instance

theorem NoWs.nil : NoWs [] := by intro c h; cases h
theorem NoWs.cons {c : Char} {l : List Char} (h : isAsciiWs c = false) (hl : NoWs l) : NoWs (c :: l) := by
  intro d hd
  rcases List.mem_cons.mp hd with rfl | hd
  · exact h
  · exact hl d hd
theorem NoWs.append {a b : List Char} (ha : NoWs a) (hb : NoWs b) : NoWs (a ++ b) := by
  intro d hd
  rcases List.mem_append.mp hd with h | h
  · exact ha d h
  · exact hb d h

theorem splitWsAux_acc (s : List Char) : ∀ (cur : List Char) (acc : List (List Char)),
    splitWsAux s cur acc = acc.reverse ++ splitWsAux s cur [] := by
  induction s with
  | nil =>
    intro cur acc
    simp only [splitWsAux]
    split <;> simp
  | cons c cs ih =>
    intro cur acc
    simp only [splitWsAux]
    split
    · rw [ih [] (if cur.isEmpty = true then acc else cur.reverse :: acc),
        ih [] (if cur.isEmpty = true then [] else [cur.reverse])]
      split <;> simp
    · exact ih (c :: cur) acc

theorem splitWsAux_run (a : List Char) (ha : NoWs a) : ∀ (rest cur : List Char) (acc : List (List Char)),
    splitWsAux (a ++ rest) cur acc = splitWsAux rest (a.reverse ++ cur) acc := by
  induction a with
  | nil => intro rest cur acc; rfl
  | cons c cs ih =>
    intro rest cur acc
    have hc : isAsciiWs c = false := ha c (List.mem_cons_self)
    have hcs : NoWs cs := fun d hd => ha d (List.mem_cons_of_mem _ hd)
    show splitWsAux (c :: (cs ++ rest)) cur acc = _
    simp only [splitWsAux, hc, Bool.false_eq_true, if_false]
    rw [ih hcs]
    simp

theorem splitWs_cons (a b : List Char) (ha : NoWs a) (hne : a ≠ []) :
    splitWs (a ++ ' ' :: b) = a :: splitWs b := by
  unfold splitWs
  rw [splitWsAux_run a ha]
  have h1 : isAsciiWs ' ' = true := by decide
  simp only [splitWsAux, h1, if_true, List.append_nil]
  have h2 : a.reverse.isEmpty = false := by
    cases a with
    | nil => exact absurd rfl hne
    | cons x xs => simp
  rw [h2]
  simp only [Bool.false_eq_true, if_false, List.reverse_reverse]
  rw [splitWsAux_acc]; rfl

theorem splitWs_single (a : List Char) (ha : NoWs a) (hne : a ≠ []) : splitWs a = [a] := by
  unfold splitWs
  have := splitWsAux_run a ha [] [] []
  rw [List.append_nil] at this
  rw [this]
  have h2 : (a.reverse ++ []).isEmpty = false := by
    cases a with
    | nil => exact absurd rfl hne
    | cons x xs => simp
  simp only [splitWsAux, h2]
  simp

/-! ### counters -/

def pnStep (acc : Option Nat) (c : Char) : Option Nat :=
  match acc with
  | none => none
  | some n => if c.isDigit then some (n * 10 + (c.toNat - 48)) else none

theorem parseNat_eq (s : List Char) :
    parseNat? s = if s.isEmpty then none else s.foldl pnStep (some 0) := rfl

theorem parseNat_foldl (s : List Char) (hd : ∀ c ∈ s, c.isDigit = true) : ∀ n : Nat,
    s.foldl pnStep (some n) = some (Nat.ofDigitChars 10 s n) := by
  induction s with
  | nil => intro n; rfl
  | cons c cs ih =>
    intro n
    have hc : c.isDigit = true := hd c List.mem_cons_self
    simp only [List.foldl_cons, pnStep, hc, if_true]
    rw [ih (fun d h => hd d (List.mem_cons_of_mem _ h))]
    rw [Nat.ofDigitChars_cons, Nat.mul_comm]
    rfl

theorem renderNat_eq (n : Nat) : Rules.renderNat n = Nat.toDigits 10 n := by
  unfold Rules.renderNat
  rw [Nat.toString_eq_repr, Nat.toList_repr]

theorem parseNat_render (n : Nat) : parseNat? (Rules.renderNat n) = some n := by
  rw [renderNat_eq, parseNat_eq]
  have hne : (Nat.toDigits 10 n).isEmpty = false := by
    cases h : Nat.toDigits 10 n with
    | nil => exact absurd h Nat.toDigits_ne_nil
    | cons x xs => rfl
  rw [hne]
  simp only [Bool.false_eq_true, if_false]
  rw [parseNat_foldl _ (fun c hc => Nat.isDigit_of_mem_toDigits (by decide) (by decide) hc)]
  rw [Nat.ofDigitChars_ten_toDigits]

theorem parseU16_render (n : Nat) (h : n < 65536) : parseU16? (Rules.renderNat n) = some n := by
  unfold parseU16?
  rw [parseNat_render]
  simp [h]

theorem renderNat_ne (n : Nat) : Rules.renderNat n ≠ [] := by
  rw [renderNat_eq]; exact Nat.toDigits_ne_nil

theorem isDigit_noWs (c : Char) (h : c.isDigit = true) : isAsciiWs c = false := by
  have h1 : 48 ≤ c.toNat ∧ c.toNat ≤ 57 := by
    unfold Char.isDigit at h
    simp only [Bool.and_eq_true, decide_eq_true_eq, ge_iff_le, UInt32.le_iff_toNat_le] at h
    exact h
  unfold isAsciiWs
  have hne : ∀ d : Char, d.toNat < 48 → (c == d) = false := by
    intro d hd
    rw [beq_eq_false_iff_ne]
    intro e; subst e; omega
  rw [hne ' ' (by decide), hne '\t' (by decide), hne '\n' (by decide), hne '\x0c' (by decide),
    hne '\r' (by decide)]
  rfl

theorem renderNat_noWs (n : Nat) : NoWs (Rules.renderNat n) := by
  rw [renderNat_eq]
  intro c hc
  exact isDigit_noWs c (Nat.isDigit_of_mem_toDigits (by decide) (by decide) hc)

theorem parseU16_zero : parseU16? ['0'] = some 0 := by decide
theorem parseU16_one : parseU16? ['1'] = some 1 := by decide

/-! ### side -/

def sideChar (p : Rules.Pos) : Char := if p.turn == .white then 'w' else 'b'

def concColor : Rules.Color → Color | .white => .white | .black => .black

theorem abs_concColor (c : Rules.Color) : absColor (concColor c) = c := by cases c <;> rfl

theorem side_read (p : Rules.Pos) :
    (match [sideChar p].headD 'w' with
      | 'w' => some Color.white | 'b' => some Color.black | _ => none) = some (concColor p.turn) := by
  unfold sideChar
  cases p.turn <;> rfl

theorem side_noWs (p : Rules.Pos) : NoWs [sideChar p] := by
  unfold sideChar
  cases p.turn <;> decide

/-! ### castling -/

def readRights (f2 : List Char) : Option Rights :=
  f2.foldl (fun (acc : Option Rights) c => match acc with
    | none => none
    | some r => match c with
      | 'K' => some { r with wk := true } | 'k' => some { r with bk := true }
      | 'Q' => some { r with wq := true } | 'q' => some { r with bq := true }
      | '-' => some r | _ => none) (some ⟨false, false, false, false⟩)

theorem castling_read (p : Rules.Pos) :
    readRights (Rules.renderCastling p) = some ⟨p.wk, p.wq, p.bk, p.bq⟩ := by
  unfold Rules.renderCastling
  cases p.wk <;> cases p.wq <;> cases p.bk <;> cases p.bq <;> rfl

theorem castling_noWs (p : Rules.Pos) : NoWs (Rules.renderCastling p) := by
  unfold Rules.renderCastling
  cases p.wk <;> cases p.wq <;> cases p.bk <;> cases p.bq <;> decide

theorem castling_ne (p : Rules.Pos) : Rules.renderCastling p ≠ [] := by
  unfold Rules.renderCastling
  cases p.wk <;> cases p.wq <;> cases p.bk <;> cases p.bq <;> decide

/-! ### en passant -/

def readEp (f3 : List Char) : Option (Option Nat) :=
  match f3.headD '-' with
  | '-' => some (none : Option Nat)
  | c => if 'a' ≤ c ∧ c ≤ 'h' then some (some (c.toNat - 97)) else none

theorem ep_fin : ∀ f : Fin 8,
    readEp [Char.ofNat (97 + f.val)] = some (some f.val) ∧ isAsciiWs (Char.ofNat (97 + f.val)) = false := by
  decide

theorem ep_read (p : Rules.Pos) (hv : ∀ f, p.ep = some f → f < 8) : readEp (Rules.renderEp p) = some p.ep := by
  unfold Rules.renderEp
  cases h : p.ep with
  | none => rfl
  | some f => exact (ep_fin ⟨f, hv f h⟩).1

theorem ep_noWs (p : Rules.Pos) (hv : ∀ f, p.ep = some f → f < 8) : NoWs (Rules.renderEp p) := by
  unfold Rules.renderEp
  cases h : p.ep with
  | none => exact NoWs.cons (by decide) NoWs.nil
  | some f =>
    refine NoWs.cons (ep_fin ⟨f, hv f h⟩).2 (NoWs.cons ?_ NoWs.nil)
    cases p.turn <;> decide

theorem ep_ne (p : Rules.Pos) : Rules.renderEp p ≠ [] := by
  unfold Rules.renderEp
  cases p.ep <;> simp

end RCE.Proofs.FenFields
