import RCE.Model.Attacks
/-! The magic-table fill: "last writer wins, and there is no destructive collision". -/
namespace RCE.Proofs.Fill
open RCE

def fillL (h : Nat → Nat) (v : Nat → BB) (l : List Nat) (t : Array BB) : Array BB :=
  l.foldl (fun t i => t.setIfInBounds (h i) (v i)) t

theorem fillL_size (h : Nat → Nat) (v : Nat → BB) (l : List Nat) (t : Array BB) :
    (fillL h v l t).size = t.size := by
  induction l generalizing t with
  | nil => rfl
  | cons a l ih => simp only [fillL, List.foldl_cons] at *; rw [ih]; simp

/-- slot `k` after the fill is either the value of some writer hashing to `k`, or untouched -/
theorem fillL_slot (h : Nat → Nat) (v : Nat → BB) : ∀ (l : List Nat) (t : Array BB) (k : Nat),
    (∃ j ∈ l, h j = k ∧ (fillL h v l t)[k]? = some (v j)) ∨ (fillL h v l t)[k]? = t[k]? := by
  intro l
  induction l with
  | nil => intro t k; right; rfl
  | cons b l ih =>
    intro t k
    simp only [fillL, List.foldl_cons]
    rcases ih (t.setIfInBounds (h b) (v b)) k with ⟨j, hj, hjk, hv⟩ | hr
    · left; exact ⟨j, List.mem_cons_of_mem _ hj, hjk, hv⟩
    · simp only [fillL] at hr
      rw [hr, Array.getElem?_setIfInBounds]
      by_cases hbk : h b = k
      · by_cases hlt : h b < t.size
        · left; exact ⟨b, List.mem_cons_self, hbk, by simp [hbk]; omega⟩
        · right
          simp only [hbk, if_true]
          have : ¬ k < t.size := by omega
          simp [this]
      · right; simp [hbk]

theorem fillL_get (h : Nat → Nat) (v : Nat → BB) (l : List Nat) (t : Array BB)
    (hb : ∀ i ∈ l, h i < t.size)
    (hc : ∀ i ∈ l, ∀ j ∈ l, h i = h j → v i = v j) :
    ∀ i ∈ l, (fillL h v l t)[h i]? = some (v i) := by
  induction l generalizing t with
  | nil => intro i hi; cases hi
  | cons a l ih =>
    intro i hi
    have hb' : ∀ i ∈ l, h i < (t.setIfInBounds (h a) (v a)).size := by
      intro i hi; simp; exact hb i (List.mem_cons_of_mem _ hi)
    have hc' : ∀ i ∈ l, ∀ j ∈ l, h i = h j → v i = v j :=
      fun i hi j hj => hc i (List.mem_cons_of_mem _ hi) j (List.mem_cons_of_mem _ hj)
    by_cases hil : i ∈ l
    · exact ih _ hb' hc' i hil
    · have hia : i = a := by
        cases hi with
        | head => rfl
        | tail _ h' => exact absurd h' hil
      subst hia
      show (fillL h v l (t.setIfInBounds (h i) (v i)))[h i]? = some (v i)
      rcases fillL_slot h v l (t.setIfInBounds (h i) (v i)) (h i) with ⟨j, hj, hjk, hv⟩ | hr
      · rw [hv]
        rw [hc i List.mem_cons_self j (List.mem_cons_of_mem _ hj) hjk.symm]
      · rw [hr]
        have := hb i List.mem_cons_self
        simp [this]

/-- the fill lemma for `fillTable`, phrased over blocker boards -/
theorem fillTable_get (size bits : Nat) (magic mask : BB) (slow : BB → BB)
    (hb : ∀ idx, idx < 2 ^ bits → magicIndex (blockersFromIndex idx mask) magic bits < size)
    (hc : ∀ i, i < 2 ^ bits → ∀ j, j < 2 ^ bits →
      magicIndex (blockersFromIndex i mask) magic bits = magicIndex (blockersFromIndex j mask) magic bits →
      slow (blockersFromIndex i mask) = slow (blockersFromIndex j mask))
    (idx : Nat) (hidx : idx < 2 ^ bits) :
    (fillTable size bits magic mask slow)[magicIndex (blockersFromIndex idx mask) magic bits]?
      = some (slow (blockersFromIndex idx mask)) := by
  have := fillL_get (fun i => magicIndex (blockersFromIndex i mask) magic bits)
    (fun i => slow (blockersFromIndex i mask)) (List.range (2 ^ bits)) (Array.replicate size 0)
    (by intro i hi; simp; exact hb i (List.mem_range.mp hi))
    (by intro i hi j hj; exact hc i (List.mem_range.mp hi) j (List.mem_range.mp hj))
    idx (List.mem_range.mpr hidx)
  exact this

end RCE.Proofs.Fill
