import RCE.Proofs.SearchMateOne
/-! # "Once a 2-ply iteration has completed, the chosen move never allows a mate in one when some legal move avoids it" — with the cache on

**The clean statement is false** (`avoidable_mate_avoided_clean_statement`, refuted by `Counter.avoid_clean_refuted`).
Mate scores are relative to the ply of the node (`MINS + ply`) and cache entries are stored unadjusted, so an entry
written for a position at one ply and read for the same position at another ply misstates the distance to mate — in
both directions harmfully:
* stored at ply 1 (`32766`, the opponent mates at ply 2), read at ply 3 (truth `32764`): a move that loses one move later
  scores `−32766` as well, and the blunder searched before it keeps its place (`Counter.G5`, fresh cache, depth 2);
* stored at ply 5 (`32762`), read at ply 1: the blunder scores `−32762`, better than a move that is mated at ply 4
  (`Counter.G6`, fresh cache, depths 1–3).

**What is proved** (`avoidable_mate_avoided`, and `avoidable_mate_avoided_again` for any number of earlier searches of
the position, completed or interrupted): the statement under three extra hypotheses, each shown to be indispensable by
a counterexample that satisfies all the others —
* `PlyKeys` (no transposition of a "mate-in-one-for-the-opponent" root child to another ply; `Counter.G5`),
* `MatedKeysFresh2` (no writing node carries the key of a mated grandchild — the hypothesis of the first clause, one
  ply deeper; `Counter2.G8`),
* `NoDrawAtMate2` (those two positions are not declared draws before the mate test; `Counter2.G7`),
together with `NoMateInOne` (the root itself has no mate in one — the case of the first clause, where the windows
degenerate) and the existence of a safe move.

How it goes.  With no mate in one at the root all windows are proper and the soundness development of
`SearchMate.lean` applies to every node (`TInv` is kept).  On top of it a distance-exact claim is carried through
`ab` (`Claim2`, `ab_spec2`): a value `≥ 32766` inside the window is returned only by a ply-1 node whose side to move
mates at once, a value `≤ −32766` only by a mated node at ply 2 — together with the cache invariant `AInv2`
(`Dist`: entries with these scores say the same; `UK`: an entry for an unsafe root child is a lower bound or says
`≥ 32766`; `NME2`: nothing is stored for a mated grandchild) and a completeness clause (`RecSpec2`, third part): an
unsafe root child searched with depth `≥ 1` returns `≥ 32766` or `≥ β` unless the search is interrupted
(`abKids_B2`, `pvsChild_mated2`).  At the root (`rootKids_spec2`): a safe move scores `> −32766`, an unsafe move at
depth `≥ 2` scores `−32766` or does not exceed alpha, so the best move of a completed iteration of depth `≥ 2` is safe
with a score `> −32766`; an interrupted later iteration replaces it only by a move with a larger score, which is
safe again (`AbortBest`).  `iterate_spec2` puts the iterations together. -/
namespace RCE.Proofs.SearchMateAvoid
open RCE.Search RCE.Proofs.SearchDefs RCE.Proofs.SearchUnfold RCE.Proofs.SearchBest RCE.Proofs.SearchAbort
open RCE.Proofs.SearchMate (Mated TInv StrictScores Rng NoMateInOne Claim RecSpec)
open RCE.Proofs.SearchMateOne (Mates)

variable {P M : Type} [DecidableEq M]
set_option linter.unusedSectionVars false
set_option linter.unusedVariables false

/-! ## statement-level definitions -/

/-- the side to move in `q` has a mate in one -/
def HasMate1 (G : Game P M) (q : P) : Prop := ∃ r, Mates G q r

/-- after `m` the opponent has a mate in one -/
def AllowsMateInOne (G : Game P M) (p : P) (m : M) : Prop := ∃ r, Mates G (G.play p m) r

/-- a legal root move after which the opponent has no mate in one -/
def Safe (G : Game P M) (p : P) (m : M) : Prop := m ∈ legalMovesOf G p ∧ ¬ AllowsMateInOne G p m

/-- the positions of the search tree with their ply: reached from the root by exactly `k` legal moves -/
inductive At (G : Game P M) (p : P) : Nat → P → Prop
  | root : At G p 0 p
  | step {k : Nat} {q : P} {m : M} : At G p k q → m ∈ legalMovesOf G q → At G p (k + 1) (G.play q m)

/-- a node that `alpha_beta` declares a draw before it probes the cache -/
def Drawn (G : Game P M) (q : P) : Prop := G.fifty q = true ∨ G.repeated q = true

theorem At.reach {G : Game P M} {p : P} {k : Nat} {q : P} (h : At G p k q) : Reach G p q := by
  induction h with
  | root => exact Reach.refl
  | step _ hm ih => exact Reach.step ih (List.mem_filter.1 hm).1

theorem At.zero {G : Game P M} {p : P} {q : P} (h : At G p 0 q) : q = p := by
  cases h; rfl

theorem At.one {G : Game P M} {p : P} {q : P} (h : At G p 1 q) : ∃ u, u ∈ legalMovesOf G p ∧ q = G.play p u := by
  cases h with
  | step h0 hm =>
    cases h0
    exact ⟨_, hm, rfl⟩

/-! ## the hypotheses on keys and draws -/

/-- the key of a root child in which the opponent mates at once is carried, among the nodes of the tree that reach
    their cache probe, only by nodes at ply 1 in which the side to move mates at once -/
def PlyKeys (G : Game P M) (p : P) : Prop :=
  ∀ u, u ∈ legalMovesOf G p → AllowsMateInOne G p u → ∀ k q, At G p k q → G.key q = G.key (G.play p u) →
    (k = 1 ∧ HasMate1 G q) ∨ (k ≠ 0 ∧ Drawn G q)

/-- no writing node of the tree (the root included) carries the key of a mated grandchild of the root -/
def MatedKeysFresh2 (G : Game P M) (p : P) : Prop :=
  ∀ u r, u ∈ legalMovesOf G p → Mates G (G.play p u) r → ∀ k q, At G p k q →
    G.key q = G.key (G.play (G.play p u) r) → legalMovesOf G q = [] ∨ (k ≠ 0 ∧ Drawn G q)

/-- neither a root child in which the opponent mates at once nor the mated grandchild is declared a draw -/
def NoDrawAtMate2 (G : Game P M) (p : P) : Prop :=
  ∀ u r, u ∈ legalMovesOf G p → Mates G (G.play p u) r →
    ¬ Drawn G (G.play p u) ∧ ¬ Drawn G (G.play (G.play p u) r)

/-! ## the cache invariant -/

/-- distance-exact reading of the two extreme scores: `≥ 32766` (exact or lower bound) only for a ply-1 node whose
    side to move mates at once; `≤ −32766` (exact or upper bound) never -/
def Dist (G : Game P M) (p : P) (tt : Table M) : Prop :=
  ∀ k q e, At G p k q → ¬ Drawn G q → tt[G.key q]? = some e →
    ((e.bound = .exact ∨ e.bound = .lower) → e.score ≥ 32766 → k = 1 ∧ HasMate1 G q) ∧
    ((e.bound = .exact ∨ e.bound = .upper) → e.score ≤ -32766 → False)

/-- an entry for a root child in which the opponent mates at once says so, or is a lower bound -/
def UK (G : Game P M) (p : P) (tt : Table M) : Prop :=
  ∀ u, u ∈ legalMovesOf G p → AllowsMateInOne G p u → ∀ e, tt[G.key (G.play p u)]? = some e →
    e.bound = .lower ∨ e.score ≥ 32766

/-- nothing is stored for a mated grandchild of the root -/
def NME2 (G : Game P M) (p : P) (tt : Table M) : Prop :=
  ∀ u r, u ∈ legalMovesOf G p → Mates G (G.play p u) r → tt[G.key (G.play (G.play p u) r)]? = none

structure AInv2 (G : Game P M) (p : P) (tt : Table M) : Prop where
  dist : Dist G p tt
  uk : UK G p tt
  nme : NME2 G p tt

/-- the cache invariant of `avoidable_mate_avoided`: clean in the sense of `SearchMate.lean`, plus `AInv2` -/
def AvoidInv (G : Game P M) (p : P) (tt : Table M) : Prop := TInv G tt ∧ AInv2 G p tt

theorem ainv2_empty (G : Game P M) (p : P) : AInv2 G p ({} : Table M) :=
  ⟨fun k q e _ _ h => by simp at h, fun u _ _ e h => by simp at h, fun u r _ _ => by simp⟩

theorem avoidInv_empty (G : Game P M) (p : P) : AvoidInv G p ({} : Table M) :=
  ⟨SearchMate.tinv_empty G, ainv2_empty G p⟩

theorem ainv2_insert {G : Game P M} {p : P} (hP : PlyKeys G p) (hK : MatedKeysFresh2 G p) {tt : Table M}
    (h : AInv2 G p tt) {k0 : Nat} {q0 : P} (hq0 : At G p k0 q0) (hnd : k0 ≠ 0 → ¬ Drawn G q0)
    (hleg : legalMovesOf G q0 ≠ []) (e : Entry M)
    (h1 : (e.bound = .exact ∨ e.bound = .lower) → e.score ≥ 32766 → k0 = 1 ∧ HasMate1 G q0)
    (h2 : (e.bound = .exact ∨ e.bound = .upper) → e.score ≤ -32766 → False)
    (h3 : k0 = 1 → HasMate1 G q0 → e.bound = .lower ∨ e.score ≥ 32766) :
    AInv2 G p (tt.insert (G.key q0) e) := by
  refine ⟨?_, ?_, ?_⟩
  · intro k q e' hq hndq he'
    rw [Std.HashMap.getElem?_insert] at he'
    split at he'
    · rename_i heq
      have heq' : G.key q0 = G.key q := by simpa using heq
      cases he'
      refine ⟨?_, h2⟩
      intro hb hs
      obtain ⟨hk0, hm0⟩ := h1 hb hs
      subst hk0
      obtain ⟨u, hu, rfl⟩ := hq0.one
      rcases hP u hu hm0 k q hq heq'.symm with h | h
      · exact h
      · exact absurd h.2 hndq
    · exact h.dist k q e' hq hndq he'
  · intro u hu hun e' he'
    rw [Std.HashMap.getElem?_insert] at he'
    split at he'
    · rename_i heq
      have heq' : G.key q0 = G.key (G.play p u) := by simpa using heq
      cases he'
      rcases hP u hu hun k0 q0 hq0 heq' with hh | hh
      · exact h3 hh.1 hh.2
      · exact absurd hh.2 (hnd hh.1)
    · exact h.uk u hu hun e' he'
  · intro u r hu hr
    rw [Std.HashMap.getElem?_insert]
    split
    · rename_i heq
      have heq' : G.key q0 = G.key (G.play (G.play p u) r) := by simpa using heq
      rcases hK u r hu hr k0 q0 hq0 heq' with hh | hh
      · exact absurd hh hleg
      · exact absurd hh.2 (hnd hh.1)
    · exact h.nme u r hu hr

/-! ## the sharpened claim about returned values -/

/-- the value `r` returned by a node at ply `k` searched with the window `(a, b)`: above `a` it is `≥ 32766` only at
    ply 1 with a mate in one; below `b` it is `≤ −32766` only for a mated node at ply 2 -/
def Claim2 (G : Game P M) (k : Nat) (q : P) (a b r : Int) : Prop :=
  (r > a → r ≥ 32766 → k = 1 ∧ HasMate1 G q) ∧ (r < b → r ≤ -32766 → k = 2 ∧ Mated G q)

theorem claim2_zero (G : Game P M) (k : Nat) (q : P) (a b : Int) : Claim2 G k q a b 0 :=
  ⟨fun _ h => absurd h (by omega), fun _ h => absurd h (by omega)⟩

/-- quiescence never returns an extreme value inside its window -/
def ClaimQ (a b r : Int) : Prop := (r > a → r < 32766) ∧ (r < b → r > -32766)

theorem probe_inl2 {G : Game P M} {root : P} {tt : Table M} (hD : Dist G root tt) {k : Nat} {q : P}
    (hq : At G root k q) (hnd : ¬ Drawn G q) (depth : Nat) (a0 b0 s : Int)
    (hab : a0 < b0) (h : probe tt (G.key q) depth a0 b0 = .inl s) : Claim2 G k q a0 b0 s := by
  unfold probe at h
  split at h
  · rename_i e he
    have hse := hD k q e hq hnd he
    split at h
    · split at h
      · rename_i hb
        cases h
        exact ⟨fun _ h => hse.1 (Or.inl hb) h, fun _ h => (hse.2 (Or.inl hb) h).elim⟩
      · rename_i hb
        dsimp only at h
        split at h
        · cases h
          refine ⟨fun _ h => hse.1 (Or.inr hb) h, fun h _ => ?_⟩
          exfalso; omega
        · cases h
      · rename_i hb
        dsimp only at h
        split at h
        · cases h
          refine ⟨fun h _ => ?_, fun _ h => (hse.2 (Or.inr hb) h).elim⟩
          exfalso; omega
        · cases h
    · cases h
  · cases h

theorem probe_inr2 {G : Game P M} {root : P} {tt : Table M} (hD : Dist G root tt) {k : Nat} {q : P}
    (hq : At G root k q) (hnd : ¬ Drawn G q) (depth : Nat) (a0 b0 a b : Int)
    (hab : a0 < b0) (h : probe tt (G.key q) depth a0 b0 = .inr (a, b)) :
    (a > a0 → a ≥ 32766 → k = 1 ∧ HasMate1 G q) ∧ (b < b0 → b ≤ -32766 → False) := by
  unfold probe at h
  split at h
  · rename_i e he
    have hse := hD k q e hq hnd he
    split at h
    · split at h
      · cases h
      · rename_i hb
        dsimp only at h
        split at h
        · cases h
        · cases h
          refine ⟨?_, by omega⟩
          intro g1 g2
          exact hse.1 (Or.inr hb) (by omega)
      · rename_i hb
        dsimp only at h
        split at h
        · cases h
        · cases h
          refine ⟨by omega, ?_⟩
          intro g1 g2
          exact hse.2 (Or.inr hb) (by omega)
    · cases h; exact ⟨by omega, by omega⟩
  · cases h; exact ⟨by omega, by omega⟩

theorem probe_inl_B {tt : Table M} {key : UInt64} (hU : ∀ e, tt[key]? = some e → e.bound = .lower ∨ e.score ≥ 32766)
    (depth : Nat) (a0 b0 s : Int) (hab : a0 < b0) (h : probe tt key depth a0 b0 = .inl s) : s ≥ 32766 ∨ s ≥ b0 := by
  unfold probe at h
  split at h
  · rename_i e he
    have hu := hU e he
    split at h
    · split at h
      · rename_i hb
        cases h
        rcases hu with hu | hu
        · rw [hb] at hu; cases hu
        · exact .inl hu
      · rename_i hb
        dsimp only at h
        split at h
        · cases h
          right; omega
        · cases h
      · rename_i hb
        dsimp only at h
        split at h
        · cases h
          rcases hu with hu | hu
          · rw [hb] at hu; cases hu
          · exact .inl hu
        · cases h
    · cases h
  · cases h

theorem probe_inr_B {tt : Table M} {key : UInt64} (hU : ∀ e, tt[key]? = some e → e.bound = .lower ∨ e.score ≥ 32766)
    (depth : Nat) (a0 b0 a b : Int) (h : probe tt key depth a0 b0 = .inr (a, b)) : b ≥ 32766 ∨ b ≥ b0 := by
  unfold probe at h
  split at h
  · rename_i e he
    have hu := hU e he
    split at h
    · split at h
      · cases h
      · rename_i hb
        dsimp only at h
        split at h
        · cases h
        · cases h
          right; omega
      · rename_i hb
        dsimp only at h
        split at h
        · cases h
        · cases h
          rcases hu with hu | hu
          · rw [hb] at hu; cases hu
          · omega
    · cases h; right; omega
  · cases h; right; omega

/-! ## the specification of a child search -/

def RecSpec2 (env : Env) (G : Game P M) (root : P) (F : Nat) (rec : P → Int → Int → Nat → St M → Int × St M) : Prop :=
  ∀ c x y d st, At G root st.ply c → -32767 ≤ x → x < y → y ≤ 32767 → 1 ≤ st.ply → st.ply + F = 256 →
    TInv G st.tt → AInv2 G root st.tt →
    Claim2 G st.ply c x y (rec c x y d st).1 ∧ AInv2 G root (rec c x y d st).2.tt ∧
    (st.ply = 1 → HasMate1 G c → (1 ≤ d ∨ G.inCheck c = true) →
      Interrupted env (rec c x y d st).2 ∨ (rec c x y d st).1 ≥ 32766 ∨ (rec c x y d st).1 ≥ y)

theorem not_mated_ply1 {G : Game P M} {root : P} (hno : NoMateInOne G root) {c : P} (h : At G root 1 c) : ¬ Mated G c := by
  obtain ⟨u, hu, rfl⟩ := h.one
  exact hno u hu

theorem pvsChild_spec2 {env : Env} {G : Game P M} {root : P} (hno : NoMateInOne G root) {F : Nat}
    {rec : P → Int → Int → Nat → St M → Int × St M}
    (hrec : RecSpec G root F rec) (hrec2 : RecSpec2 env G root F rec) (p : P) (m : M)
    (a b : Int) (depth : Nat) (pvs upd : Bool) (st : St M) (hp : At G root st.ply p) (hm : m ∈ legalMovesOf G p)
    (ha : -32768 ≤ a) (hab : a < b) (hb : b ≤ 32767) (hb' : -32767 < b)
    (hply : st.ply + 1 + F = 256) (hT : TInv G st.tt) (hA : AInv2 G root st.tt) :
    ((pvsChild G rec p m a b depth pvs upd st).1 > a → (pvsChild G rec p m a b depth pvs upd st).1 ≥ 32766 →
      st.ply = 1 ∧ Mated G (G.play p m)) ∧
    ((pvsChild G rec p m a b depth pvs upd st).1 < b → (pvsChild G rec p m a b depth pvs upd st).1 ≤ -32766 →
      st.ply = 0 ∧ HasMate1 G (G.play p m)) ∧
    AInv2 G root (pvsChild G rec p m a b depth pvs upd st).2.tt := by
  have hcA : At G root (st.ply + 1) (G.play p m) := At.step hp hm
  have hc : Reach G root (G.play p m) := hcA.reach
  obtain ⟨st1, hst1, h1ply, h1tt⟩ : ∃ st1 : St M,
      st1 = (if upd then { ({ st with nodes := st.nodes + 1, ply := st.ply + 1 } : St M) with
                seldepth := max st.seldepth (st.ply + 1) }
              else { st with nodes := st.nodes + 1, ply := st.ply + 1 }) ∧
      st1.ply = st.ply + 1 ∧ st1.tt = st.tt := by
    refine ⟨_, rfl, ?_, ?_⟩ <;> split <;> rfl
  have hT1 : TInv G st1.tt := h1tt ▸ hT
  have hA1 : AInv2 G root st1.tt := h1tt ▸ hA
  have hcA1 : At G root st1.ply (G.play p m) := by rw [h1ply]; exact hcA
  have hsb : satNeg b = -b := SearchMate.satNeg_eq (by omega) hb
  obtain ⟨hy1, hy2, hy3, hy4⟩ := SearchMate.satNeg_alpha ha (by omega : a ≤ 32766)
  have hmate1 : ∀ s : St M, s.ply = st1.ply → s.ply = 1 → ¬ Mated G (G.play p m) := by
    intro s h1 h2
    exact not_mated_ply1 hno (by rw [← h2, h1]; exact hcA1)
  unfold pvsChild
  dsimp only
  rw [← hst1, hsb]
  generalize satNeg a = y at *
  cases pvs with
  | false =>
    simp only [Bool.false_eq_true, ↓reduceIte]
    have h := hrec (G.play p m) (-b) y (depth - 1) st1 hc (by omega) (by omega) (by omega) (by omega) (by omega)
      (hmate1 st1 rfl) hT1
    have h2 := hrec2 (G.play p m) (-b) y (depth - 1) st1 hcA1 (by omega) (by omega) (by omega) (by omega) (by omega)
      hT1 hA1
    obtain ⟨hcl, hr, hT2, hF⟩ := h
    obtain ⟨hcl2, hA2, _⟩ := h2
    rw [SearchMate.satNeg_of_rng hr]
    unfold Rng at hr
    refine ⟨?_, ?_, hA2⟩
    · intro g1 g2
      have := hcl2.2 (by omega) (by omega)
      exact ⟨by omega, this.2⟩
    · intro g1 g2
      have := hcl2.1 (by omega) (by omega)
      exact ⟨by omega, this.2⟩
  | true =>
    simp only [↓reduceIte]
    have h0 := hrec (G.play p m) (y - 1) y (depth - 1) st1 hc (by omega) (by omega) (by omega) (by omega) (by omega)
      (hmate1 st1 rfl) hT1
    have h02 := hrec2 (G.play p m) (y - 1) y (depth - 1) st1 hcA1 (by omega) (by omega) (by omega) (by omega) (by omega)
      hT1 hA1
    generalize rec (G.play p m) (y - 1) y (depth - 1) st1 = res0 at *
    obtain ⟨r0, st2⟩ := res0
    dsimp only at h0 h02 ⊢
    obtain ⟨hcl0, hr0, hT2, hF0⟩ := h0
    obtain ⟨hcl02, hA2, _⟩ := h02
    rw [SearchMate.satNeg_of_rng hr0]
    unfold Rng at hr0
    have hply2 : st2.ply = st1.ply := hF0.1
    by_cases hre : a < -r0 ∧ -r0 < b
    · have hd : (decide (a < -r0) && decide (-r0 < b)) = true := by simp [hre.1, hre.2]
      simp only [hd, ↓reduceIte]
      have h := hrec (G.play p m) (-b) y (depth - 1) st2 hc (by omega) (by omega) (by omega)
        (by rw [hply2]; omega) (by rw [hply2]; omega) (hmate1 st2 hply2) hT2
      have h2 := hrec2 (G.play p m) (-b) y (depth - 1) st2 (by rw [hply2]; exact hcA1) (by omega) (by omega) (by omega)
        (by rw [hply2]; omega) (by rw [hply2]; omega) hT2 hA2
      generalize rec (G.play p m) (-b) y (depth - 1) st2 = res1 at *
      obtain ⟨r, st3⟩ := res1
      dsimp only at h h2 ⊢
      obtain ⟨hcl, hr, hT3, hF⟩ := h
      obtain ⟨hcl2, hA3, _⟩ := h2
      rw [SearchMate.satNeg_of_rng hr]
      unfold Rng at hr
      refine ⟨?_, ?_, hA3⟩
      · intro g1 g2
        have := hcl2.2 (by omega) (by omega)
        exact ⟨by omega, this.2⟩
      · intro g1 g2
        have := hcl2.1 (by omega) (by omega)
        exact ⟨by omega, this.2⟩
    · have hd : (decide (a < -r0) && decide (-r0 < b)) = false := by
        simp only [Bool.and_eq_false_imp, decide_eq_true_eq, decide_eq_false_iff_not]
        intro g; exact fun g2 => hre ⟨g, g2⟩
      simp only [hd, Bool.false_eq_true, ↓reduceIte]
      refine ⟨?_, ?_, hA2⟩
      · intro g1 g2
        have := hcl02.2 (by omega) (by omega)
        exact ⟨by omega, this.2⟩
      · intro g1 g2
        have := hcl02.1 (by omega) (by omega)
        exact ⟨by omega, this.2⟩

/-! ## quiescence -/

def RecSpecQ2 (G : Game P M) (root : P) (rec : P → Int → Int → St M → Int × St M) : Prop :=
  ∀ c x y st, Reach G root c → -32767 ≤ x → x < y → y ≤ 32767 → TInv G st.tt → ClaimQ x y (rec c x y st).1

def QPost2 (a b : Int) : QLoop M → Prop
  | .cut _ => b < 32766
  | .done alpha _ => a ≤ alpha ∧ (alpha > a → alpha < 32766)

theorem qKids_spec2 {G : Game P M} {root : P} {rec : P → Int → Int → St M → Int × St M}
    (hrec : SearchMate.RecSpecQ G root rec) (hrec2 : RecSpecQ2 G root rec) (p : P) (hp : Reach G root p) :
    ∀ (ks : List M) (a b : Int) (st : St M),
      (∀ m ∈ ks, m ∈ G.allMoves p) → -32767 ≤ a → a < b → b ≤ 32767 → TInv G st.tt →
      QPost2 a b (qKids G rec p ks a b st) := by
  intro ks
  induction ks with
  | nil =>
    intro a b st _ ha hab hb hT
    simp only [qKids, QPost2]
    exact ⟨Int.le_refl _, fun h => absurd h (Int.lt_irrefl _)⟩
  | cons m ks ih =>
    intro a b st hsub ha hab hb hT
    have hm : m ∈ G.allMoves p := hsub m List.mem_cons_self
    have hsub' : ∀ c ∈ ks, c ∈ G.allMoves p := fun c hc => hsub c (List.mem_cons_of_mem _ hc)
    unfold qKids
    by_cases hl : G.legal p m = true
    · simp only [hl, Bool.not_true, Bool.false_eq_true, ↓reduceIte]
      rw [SearchMate.satNeg_eq (by omega : -32768 < a) (by omega), SearchMate.satNeg_eq (by omega : -32768 < b) hb]
      generalize hst1 : ({ tt := st.tt, nodes := st.nodes + 1, ply := st.ply + 1, seldepth := max st.seldepth (st.ply + 1), killers := st.killers, running := st.running, polls := st.polls, clockReads := st.clockReads, bestMove := st.bestMove, bestScore := st.bestScore, writes := st.writes, aborted := st.aborted } : St M) = st1
      have h1 : st1.tt = st.tt := by subst hst1; rfl
      have h := hrec (G.play p m) (-b) (-a) st1 (Reach.step hp hm) (by omega) (by omega) (by omega) (h1 ▸ hT)
      have h2 := hrec2 (G.play p m) (-b) (-a) st1 (Reach.step hp hm) (by omega) (by omega) (by omega) (h1 ▸ hT)
      generalize rec (G.play p m) (-b) (-a) st1 = res at *
      obtain ⟨r, st2⟩ := res
      dsimp only at h h2 ⊢
      obtain ⟨hcl, hr, hT2, hF⟩ := h
      rw [SearchMate.satNeg_of_rng hr]
      unfold Rng at hr
      unfold ClaimQ at h2
      by_cases hcut : -r ≥ b
      · simp only [hcut, ↓reduceIte, QPost2]
        have := h2.2
        omega
      · simp only [hcut, ↓reduceIte]
        by_cases hgt : -r > a
        · simp only [hgt, ↓reduceIte]
          have := ih (-r) b _ hsub' (by omega) (by omega) hb (show TInv G ({ st2 with ply := st2.ply - 1 } : St M).tt from hT2)
          revert this
          generalize qKids G rec p ks (-r) b _ = out
          cases out with
          | cut st' => exact id
          | done alpha st' =>
            intro ⟨g1, g2⟩
            refine ⟨by omega, ?_⟩
            intro _
            by_cases he : alpha > -r
            · exact g2 he
            · have := h2.2
              omega
        · simp only [hgt, ↓reduceIte]
          have := ih a b _ hsub' ha hab hb (show TInv G ({ st2 with ply := st2.ply - 1 } : St M).tt from hT2)
          revert this
          generalize qKids G rec p ks a b _ = out
          cases out with
          | cut st' => exact id
          | done alpha st' => exact id
    · simp only [hl, Bool.not_false, ↓reduceIte]
      exact ih a b st hsub' ha hab hb hT

theorem claimQ_zero (a b : Int) : ClaimQ a b 0 := ⟨fun _ => by omega, fun _ => by omega⟩

theorem quiesce_spec2 {G : Game P M} (root : P) (he : EvalBoundedFrom G root) (env : Env) :
    ∀ fuel, RecSpecQ2 G root (quiesce env G fuel) := by
  intro fuel
  induction fuel with
  | zero =>
    intro c x y st _ _ _ _ hT
    exact claimQ_zero _ _
  | succ fuel ih =>
    intro p a b st hp ha hab hb hT
    have hev := he p hp
    unfold quiesce
    have hact := SearchMate.abortCheck_tt env st
    generalize abortCheck env st = res at *
    obtain ⟨ab, st1⟩ := res
    dsimp only at hact ⊢
    have hT1 : TInv G st1.tt := hact ▸ hT
    by_cases hab1 : ab = true
    · simp only [hab1, ↓reduceIte]
      exact claimQ_zero _ _
    · simp only [hab1, Bool.false_eq_true, ↓reduceIte]
      by_cases hsp : G.eval p ≥ b
      · simp only [hsp, ↓reduceIte]
        exact ⟨fun _ => by omega, fun h => by omega⟩
      · simp only [hsp, ↓reduceIte]
        generalize ha' : (if G.eval p > a then G.eval p else a) = a'
        have ha1 : a ≤ a' ∧ G.eval p ≤ a' ∧ a' < b ∧ (a' > a → a' = G.eval p) := by
          subst ha'; split <;> omega
        have hq := qKids_spec2 (SearchMate.quiesce_spec root he env fuel) ih p hp
          (orderMoves G ((st1.tt[G.key p]?).map (·.best)) (st1.killers.getD st1.ply (none, none))
            ((G.allMoves p).filter G.isCapture)) a' b st1
          (fun m hm => (List.mem_filter.1 ((SearchMate.mem_orderMoves _ _ _ _ _).1 hm)).1) (by omega) (by omega) hb hT1
        revert hq
        generalize qKids G (quiesce env G fuel) p _ a' b st1 = out
        cases out with
        | cut st' =>
          intro g1
          dsimp only
          exact ⟨fun _ => g1, fun h => by omega⟩
        | done alpha st' =>
          intro ⟨g1, g2⟩
          dsimp only
          refine ⟨fun h => ?_, fun _ => by omega⟩
          by_cases h' : alpha > a'
          · exact g2 h'
          · omega

/-! ## the move loop of an inner node -/

def AbPost2 (G : Game P M) (root p : P) (k : Nat) (a b : Int) (n : Nat) : Loop M → Prop
  | .abort st' => AInv2 G root st'.tt
  | .cut st' => (b ≥ 32766 → k = 1 ∧ HasMate1 G p) ∧ AInv2 G root st'.tt
  | .done alpha best n' st' => a ≤ alpha ∧ (alpha > a → alpha ≥ 32766 → k = 1 ∧ HasMate1 G p) ∧
      (alpha ≤ -32766 → n' = n) ∧ AInv2 G root st'.tt

theorem abKids_spec2 {env : Env} {G : Game P M} {root : P} (hno : NoMateInOne G root) (hP : PlyKeys G root)
    (hK : MatedKeysFresh2 G root) {F : Nat} {rec : P → Int → Int → Nat → St M → Int × St M}
    (hrec : RecSpec G root F rec) (hrec2 : RecSpec2 env G root F rec)
    (p : P) (k : Nat) (hp : At G root k p) (hnd : ¬ Drawn G p) (depth : Nat) :
    ∀ (ks : List M) (a b : Int) (best : M) (pvs : Bool) (n : Nat) (st : St M),
      (∀ m ∈ ks, m ∈ G.allMoves p) → -32767 ≤ a → a < b → b ≤ 32767 → st.ply = k → 1 ≤ k → k + 1 + F = 256 →
      TInv G st.tt → AInv2 G root st.tt →
      AbPost2 G root p k a b n (abKids env G rec p depth ks a b best pvs n st) := by
  intro ks
  induction ks with
  | nil =>
    intro a b best pvs n st _ ha hab hb _ _ _ hT hA
    simp only [abKids, AbPost2]
    exact ⟨Int.le_refl _, fun h => absurd h (Int.lt_irrefl _), fun _ => trivial, hA⟩
  | cons m ks ih =>
    intro a b best pvs n st hsub ha hab hb hplyk hk1 hply hT hA
    have hm : m ∈ G.allMoves p := hsub m List.mem_cons_self
    have hsub' : ∀ c ∈ ks, c ∈ G.allMoves p := fun c hc => hsub c (List.mem_cons_of_mem _ hc)
    unfold abKids
    by_cases hl : G.legal p m = true
    · simp only [hl, Bool.not_true, Bool.false_eq_true, ↓reduceIte]
      have hml : m ∈ legalMovesOf G p := SearchMate.mem_legalMovesOf hm hl
      have hpc := SearchMate.pvsChild_spec hrec p m hp.reach hm a b depth pvs true st (by omega) hab hb (by omega)
        (by omega) (fun h => by omega) hT
      have hpc2 := pvsChild_spec2 hno hrec hrec2 p m a b depth pvs true st (by rw [hplyk]; exact hp) hml (by omega) hab hb
        (by omega) (by omega) hT hA
      generalize pvsChild G rec p m a b depth pvs true st = res at *
      obtain ⟨sc, st1⟩ := res
      dsimp only at hpc hpc2 ⊢
      obtain ⟨hr, _, _, hT1, hF1⟩ := hpc
      obtain ⟨hW2, hL2, hA1⟩ := hpc2
      have hact := SearchMate.abortCheck_tt env st1
      have hacf := SearchMate.abortCheck_frame env st1
      generalize abortCheck env st1 = res2 at *
      obtain ⟨ab, st2⟩ := res2
      dsimp only at hact hacf ⊢
      have hT2 : TInv G st2.tt := hact ▸ hT1
      have hA2 : AInv2 G root st2.tt := hact ▸ hA1
      have hply2 : st2.ply = k := (hacf.1.trans hF1.1).trans hplyk
      have hWp : sc > a → sc ≥ 32766 → k = 1 ∧ HasMate1 G p := by
        intro g1 g2
        obtain ⟨h1, h2⟩ := hW2 g1 g2
        exact ⟨by omega, m, hml, h2⟩
      have hLp : sc < b → sc ≤ -32766 → False := by
        intro g1 g2
        have := (hL2 g1 g2).1
        omega
      unfold Rng at hr
      by_cases hab2 : ab = true
      · simp only [hab2, ↓reduceIte, AbPost2]; exact hA2
      · simp only [hab2, Bool.false_eq_true, ↓reduceIte]
        by_cases hcut : sc ≥ b
        · simp only [hcut, ↓reduceIte, AbPost2]
          refine ⟨fun g => hWp (by omega) (by omega), ?_⟩
          rw [SearchMate.storeKillers_tt]
          exact ainv2_insert hP hK hA2 hp (fun _ => hnd) (fun h => by rw [h] at hml; exact absurd hml List.not_mem_nil) _
            (fun _ g => hWp (by omega) g) (fun g => by simp at g) (fun _ _ => .inl rfl)
        · simp only [hcut, ↓reduceIte]
          by_cases hgt : sc > a
          · simp only [hgt, ↓reduceIte]
            have := ih sc b m true (n + 1) st2 hsub' (by omega) (by omega) hb hply2 hk1 hply hT2 hA2
            revert this
            cases abKids env G rec p depth ks sc b m true (n + 1) st2 with
            | abort st' => exact id
            | cut st' => exact id
            | done alpha best' n' st' =>
              intro ⟨g1, g2, g3, g4⟩
              refine ⟨by omega, ?_, ?_, g4⟩
              · intro _ hwin
                by_cases he : alpha > sc
                · exact g2 he hwin
                · exact hWp hgt (by omega)
              · intro hlo
                exact (hLp (by omega) (by omega)).elim
          · simp only [hgt, ↓reduceIte]
            have := ih a b best pvs (n + 1) st2 hsub' ha hab hb hply2 hk1 hply hT2 hA2
            revert this
            cases abKids env G rec p depth ks a b best pvs (n + 1) st2 with
            | abort st' => exact id
            | cut st' => exact id
            | done alpha best' n' st' =>
              intro ⟨g1, g2, g3, g4⟩
              refine ⟨g1, g2, ?_, g4⟩
              intro hlo
              have := g3 hlo
              exact (hLp (by omega) (by omega)).elim
    · simp only [hl, Bool.not_false, ↓reduceIte]
      exact ih a b best pvs n st hsub' ha hab hb hplyk hk1 hply hT hA

/-! ## the search of a mated grandchild, and the loop of a root child in which the opponent mates at once -/

def RecMated (env : Env) (G : Game P M) (rec : P → Int → Int → Nat → St M → Int × St M) : Prop :=
  ∀ g x y d st, st.ply = 2 → Mated G g → ¬ Drawn G g → st.tt[G.key g]? = none →
    (rec g x y d st).2.tt = st.tt ∧ (rec g x y d st).2.ply = 2 ∧
    ((rec g x y d st).1 = -32766 ∨ Interrupted env (rec g x y d st).2)

def RecInt (env : Env) (rec : P → Int → Int → Nat → St M → Int × St M) : Prop :=
  ∀ g x y d st, Interrupted env st → Interrupted env (rec g x y d st).2

theorem ab_recInt (env : Env) (hc : MonoClock env) (G : Game P M) (fuel : Nat) : RecInt env (ab env G fuel) :=
  fun g x y d st h => (no_nodes_after_abort' env G fuel g x y d st hc h).2.2.2

theorem not_drawn {G : Game P M} {q : P} (h : ¬ Drawn G q) : G.fifty q = false ∧ G.repeated q = false := by
  unfold Drawn at h
  cases h1 : G.fifty q <;> cases h2 : G.repeated q <;> simp [h1, h2] at h ⊢

theorem ab_recMated (env : Env) (hc : MonoClock env) (hoff : env.cacheOff = false) (G : Game P M) (fuel : Nat) :
    RecMated env G (ab env G (fuel + 1)) := by
  intro g x y d st hply hM hnd hnone
  obtain ⟨hf, hr⟩ := not_drawn hnd
  rw [SearchMateOne.ab_mated env hoff G g hM hf hr fuel x y d st hnone]
  have hfr := abortCheck_frame env st
  by_cases hA : (abortCheck env st).1 = true
  · rw [if_pos hA]
    exact ⟨hfr.1, hfr.2.2.1.trans hply, .inr (abortCheck_interrupts' env st hc (by omega) hA)⟩
  · rw [if_neg hA]
    refine ⟨hfr.1, hfr.2.2.1.trans hply, .inl ?_⟩
    show MINS + ((abortCheck env st).2.ply : Int) = -32766
    rw [hfr.2.2.1, hply]
    decide

theorem satNeg_m32766 : satNeg (-32766) = 32766 := by decide

theorem pvsChild_mated2 {env : Env} {G : Game P M} {rec : P → Int → Int → Nat → St M → Int × St M}
    (hmat : RecMated env G rec) (hint : RecInt env rec) (p : P) (m : M) (hM : Mated G (G.play p m))
    (hnd : ¬ Drawn G (G.play p m)) (a b : Int) (depth : Nat) (pvs upd : Bool) (st : St M) (hply : st.ply = 1)
    (hnone : st.tt[G.key (G.play p m)]? = none) :
    (pvsChild G rec p m a b depth pvs upd st).1 = 32766 ∨
      Interrupted env (pvsChild G rec p m a b depth pvs upd st).2 := by
  rw [pvsChild_eq]
  show (pvsCore rec (G.play p m) a b depth pvs (enter upd st)).1 = 32766 ∨
    Interrupted env (leave (pvsCore rec (G.play p m) a b depth pvs (enter upd st)).2)
  have hp1 : (enter upd st).ply = 2 := by rw [enter_ply, hply]
  have hn1 : (enter upd st).tt[G.key (G.play p m)]? = none := by rw [enter_tt]; exact hnone
  unfold pvsCore
  cases pvs with
  | false =>
    simp only [Bool.false_eq_true, if_false]
    obtain ⟨_, _, h3⟩ := hmat (G.play p m) (satNeg b) (satNeg a) (depth - 1) (enter upd st) hp1 hM hnd hn1
    rcases h3 with h3 | h3
    · left; rw [h3]; exact satNeg_m32766
    · right; exact SearchMateOne.interrupted_leave h3
  | true =>
    simp only [if_true]
    obtain ⟨h1, h2, h3⟩ := hmat (G.play p m) (satNeg a - 1) (satNeg a) (depth - 1) (enter upd st) hp1 hM hnd hn1
    split
    · rcases h3 with h3 | h3
      · obtain ⟨_, _, k3⟩ := hmat (G.play p m) (satNeg b) (satNeg a) (depth - 1) _ h2 hM hnd (by rw [h1]; exact hn1)
        rcases k3 with k3 | k3
        · left; show satNeg _ = 32766; rw [k3]; exact satNeg_m32766
        · right; exact SearchMateOne.interrupted_leave k3
      · right; exact SearchMateOne.interrupted_leave (hint _ _ _ _ _ h3)
    · rcases h3 with h3 | h3
      · left; show satNeg _ = 32766; rw [h3]; exact satNeg_m32766
      · right; exact SearchMateOne.interrupted_leave h3

def BPost (env : Env) : Loop M → Prop
  | .abort st' => Interrupted env st'
  | .cut _ => True
  | .done alpha _ _ _ => alpha ≥ 32766

theorem abKids_B2 {env : Env} (hc : MonoClock env) {G : Game P M} {root : P} (hno : NoMateInOne G root)
    (hD : NoDrawAtMate2 G root) {F : Nat} {rec : P → Int → Int → Nat → St M → Int × St M}
    (hrec : RecSpec G root F rec) (hrec2 : RecSpec2 env G root F rec) (hmat : RecMated env G rec) (hint : RecInt env rec)
    (u : M) (hu : u ∈ legalMovesOf G root) (depth : Nat) :
    ∀ (ks : List M) (a b : Int) (best : M) (pvs : Bool) (n : Nat) (st : St M),
      (∀ m ∈ ks, m ∈ G.allMoves (G.play root u)) → -32767 ≤ a → a < b → b ≤ 32767 → st.ply = 1 → 2 + F = 256 →
      TInv G st.tt → AInv2 G root st.tt → (a ≥ 32766 ∨ ∃ r ∈ ks, Mates G (G.play root u) r) →
      BPost env (abKids env G rec (G.play root u) depth ks a b best pvs n st) := by
  have hp : At G root 1 (G.play root u) := At.step At.root hu
  intro ks
  induction ks with
  | nil =>
    intro a b best pvs n st _ ha hab hb _ _ hT hA hex
    rw [abKids_nil]
    rcases hex with h | ⟨r, hr, _⟩
    · exact h
    · exact absurd hr List.not_mem_nil
  | cons m ks ih =>
    intro a b best pvs n st hsub ha hab hb hply1 hply hT hA hex
    have hm : m ∈ G.allMoves (G.play root u) := hsub m List.mem_cons_self
    have hsub' : ∀ c ∈ ks, c ∈ G.allMoves (G.play root u) := fun c hc => hsub c (List.mem_cons_of_mem _ hc)
    rw [abKids_cons]
    by_cases hl : G.legal (G.play root u) m = true
    · simp only [hl, Bool.not_true, Bool.false_eq_true, if_false]
      have hml : m ∈ legalMovesOf G (G.play root u) := SearchMate.mem_legalMovesOf hm hl
      have hpc := SearchMate.pvsChild_spec hrec (G.play root u) m hp.reach hm a b depth pvs true st (by omega) hab hb
        (by omega) (by omega) (fun h => by omega) hT
      have hpc2 := pvsChild_spec2 hno hrec hrec2 (G.play root u) m a b depth pvs true st (by rw [hply1]; exact hp) hml
        (by omega) hab hb (by omega) (by omega) hT hA
      have hmt : Mates G (G.play root u) m → (pvsChild G rec (G.play root u) m a b depth pvs true st).1 = 32766 ∨
          Interrupted env (pvsChild G rec (G.play root u) m a b depth pvs true st).2 := fun hmm =>
        pvsChild_mated2 hmat hint (G.play root u) m hmm.2 (hD u m hu hmm).2 a b depth pvs true st hply1 (hA.nme u m hu hmm)
      obtain ⟨hr, _, _, hT1, hF1⟩ := hpc
      obtain ⟨_, _, hA1⟩ := hpc2
      have hfr := abortCheck_frame env (pvsChild G rec (G.play root u) m a b depth pvs true st).2
      have hply1' : (pvsChild G rec (G.play root u) m a b depth pvs true st).2.ply = 1 := hF1.1.trans hply1
      have hT2 : TInv G (abortCheck env (pvsChild G rec (G.play root u) m a b depth pvs true st).2).2.tt := by
        rw [hfr.1]; exact hT1
      have hA2 : AInv2 G root (abortCheck env (pvsChild G rec (G.play root u) m a b depth pvs true st).2).2.tt := by
        rw [hfr.1]; exact hA1
      have hply2 : (abortCheck env (pvsChild G rec (G.play root u) m a b depth pvs true st).2).2.ply = 1 :=
        hfr.2.2.1.trans hply1'
      unfold Rng at hr
      by_cases hab2 : (abortCheck env (pvsChild G rec (G.play root u) m a b depth pvs true st).2).1 = true
      · rw [if_pos hab2]
        exact abortCheck_interrupts' env _ hc (by omega) hab2
      · rw [if_neg hab2]
        have hmt' : Mates G (G.play root u) m → (pvsChild G rec (G.play root u) m a b depth pvs true st).1 = 32766 := by
          intro hmm
          rcases hmt hmm with h | h
          · exact h
          · exact absurd (abortCheck_of_interrupted env _ hc h) hab2
        split
        · trivial
        · split
          · rename_i hgt
            refine ih _ b m true (n + 1) _ hsub' (by omega) (by omega) hb hply2 hply hT2 hA2 ?_
            rcases hex with h | ⟨r, hr', hrm⟩
            · left; omega
            · rcases List.mem_cons.1 hr' with rfl | hr'
              · left; rw [hmt' hrm]; omega
              · exact .inr ⟨r, hr', hrm⟩
          · rename_i hgt
            refine ih a b best pvs (n + 1) _ hsub' ha hab hb hply2 hply hT2 hA2 ?_
            rcases hex with h | ⟨r, hr', hrm⟩
            · left; exact h
            · rcases List.mem_cons.1 hr' with rfl | hr'
              · left
                have := hmt' hrm
                omega
              · exact .inr ⟨r, hr', hrm⟩
    · simp only [hl, Bool.not_false, if_true]
      refine ih a b best pvs n st hsub' ha hab hb hply1 hply hT hA ?_
      rcases hex with h | ⟨r, hr', hrm⟩
      · exact .inl h
      · rcases List.mem_cons.1 hr' with rfl | hr'
        · exact absurd (List.mem_filter.1 hrm.1).2 hl
        · exact .inr ⟨r, hr', hrm⟩

/-! ## `alpha_beta` below the root -/

theorem hasMate1_nodraw {G : Game P M} {root : P} (hD : NoDrawAtMate2 G root) {c : P} (h : At G root 1 c)
    (hm : HasMate1 G c) : ¬ Drawn G c := by
  obtain ⟨u, hu, rfl⟩ := h.one
  obtain ⟨r, hr⟩ := hm
  exact (hD u r hu hr).1

theorem ab_spec2 {env : Env} (hc : MonoClock env) (hoff : env.cacheOff = false) {G : Game P M} (hk : KeyMate G) (root : P)
    (he : EvalBoundedFrom G root) (hno : NoMateInOne G root) (hP : PlyKeys G root) (hK : MatedKeysFresh2 G root)
    (hD : NoDrawAtMate2 G root) : ∀ fuel, RecSpec2 env G root fuel (ab env G fuel) := by
  intro fuel
  induction fuel with
  | zero =>
    intro c x y d st _ _ _ _ _ hply _ hA
    exact ⟨claim2_zero _ _ _ _ _, hA, fun h => by omega⟩
  | succ fuel ih =>
    intro p a0 b0 depth st hp ha hab hb hply1 hply hT hA
    have hold := SearchMate.ab_spec hk root he env
    have hmate : st.ply = 1 → ¬ Mated G p := fun h => not_mated_ply1 hno (h ▸ hp)
    have hnd1 : st.ply = 1 → HasMate1 G p → ¬ Drawn G p := fun h hm => hasMate1_nodraw hD (h ▸ hp) hm
    have hint : st.ply = 1 → (abortCheck env st).1 = true → Interrupted env (abortCheck env st).2 :=
      fun h => abortCheck_interrupts' env st hc (by omega)
    unfold ab
    have hact := SearchMate.abortCheck_tt env st
    have hacf := SearchMate.abortCheck_frame env st
    generalize abortCheck env st = res at *
    obtain ⟨ab1, st1⟩ := res
    dsimp only at hact hacf hint ⊢
    have hT1 : TInv G st1.tt := hact ▸ hT
    have hA1 : AInv2 G root st1.tt := hact ▸ hA
    by_cases hab1 : ab1 = true
    · simp only [hab1, ↓reduceIte]
      exact ⟨claim2_zero _ _ _ _ _, hA1, fun h _ _ => .inl (hint h hab1)⟩
    simp only [hab1, Bool.false_eq_true, ↓reduceIte]
    by_cases hfif : G.fifty p = true
    · simp only [hfif, ↓reduceIte]
      exact ⟨claim2_zero _ _ _ _ _, hA1, fun h hm _ => absurd (.inl hfif) (hnd1 h hm)⟩
    simp only [hfif, Bool.false_eq_true, ↓reduceIte]
    by_cases hrep : G.repeated p = true
    · simp only [hrep, ↓reduceIte]
      exact ⟨claim2_zero _ _ _ _ _, hA1, fun h hm _ => absurd (.inr hrep) (hnd1 h hm)⟩
    simp only [hrep, Bool.false_eq_true, ↓reduceIte]
    have hnd : ¬ Drawn G p := fun h => h.elim hfif hrep
    simp only [hoff, Bool.false_eq_true, ↓reduceIte]
    have hU1 : st.ply = 1 → HasMate1 G p → ∀ e, st1.tt[G.key p]? = some e → e.bound = .lower ∨ e.score ≥ 32766 := by
      intro h hm e hE
      obtain ⟨u, hu, rfl⟩ := (h ▸ hp : At G root 1 p).one
      exact hA1.uk u hu hm e hE
    rcases hpr : probe st1.tt (G.key p) depth a0 b0 with s | ⟨a, b⟩
    · dsimp only
      refine ⟨probe_inl2 hA1.dist hp hnd depth a0 b0 s hab hpr, hA1, ?_⟩
      intro h hm _
      exact .inr (probe_inl_B (hU1 h hm) depth a0 b0 s hab hpr)
    · dsimp only
      obtain ⟨haa, hbb, hab', _, _⟩ := SearchMate.probe_inr hT1 p depth a0 b0 a b hab hpr
      obtain ⟨hWa, hLb⟩ := probe_inr2 hA1.dist hp hnd depth a0 b0 a b hab hpr
      generalize hdep : (if G.inCheck p = true then depth + 1 else depth) = dep
      by_cases hd0 : dep = 0
      · simp only [hd0, ↓reduceIte]
        have hq := quiesce_spec2 root he env (fuel + 1) p a b st1 hp.reach (by omega) hab' (by omega) hT1
        have hqt := SearchMateOne.quiesce_tt env G (fuel + 1) p a b st1
        unfold ClaimQ at hq
        refine ⟨⟨?_, ?_⟩, by rw [hqt]; exact hA1, ?_⟩
        · intro h1 h2
          by_cases h : (quiesce env G (fuel + 1) p a b st1).1 > a
          · have := hq.1 h; omega
          · exact hWa (by omega) (by omega)
        · intro h1 h2
          by_cases h : (quiesce env G (fuel + 1) p a b st1).1 < b
          · have := hq.2 h; omega
          · exact (hLb (by omega) (by omega)).elim
        · intro _ _ hdd
          exfalso
          subst hdep
          split at hd0
          · omega
          · rename_i hci
            rcases hdd with h | h
            · omega
            · exact hci h
      · simp only [hd0, ↓reduceIte]
        have hsubm : ∀ m ∈ orderMoves G ((st1.tt[G.key p]?).map (·.best)) (st1.killers.getD st1.ply (none, none))
            (G.allMoves p), m ∈ G.allMoves p := fun m hm => (SearchMate.mem_orderMoves _ _ _ _ _).1 hm
        have hply1' : st1.ply = st.ply := hacf.1
        have hkO := SearchMate.abKids_spec hk (hold fuel) env p hp.reach dep _ a b ((G.allMoves p).headD G.defaultMove)
          false 0 st1 hsubm (by omega) hab' (by omega) (by rw [hply1']; exact hply1) (by rw [hply1']; omega) hT1
        have hk2 := abKids_spec2 (env := env) hno hP hK (hold fuel) ih p st.ply hp hnd dep _ a b
          ((G.allMoves p).headD G.defaultMove) false 0 st1 hsubm (by omega) hab' (by omega) hply1' hply1 (by omega) hT1 hA1
        have hkB : st.ply = 1 → HasMate1 G p → BPost env (abKids env G (ab env G fuel) p dep
            (orderMoves G ((st1.tt[G.key p]?).map (·.best)) (st1.killers.getD st1.ply (none, none)) (G.allMoves p))
            a b ((G.allMoves p).headD G.defaultMove) false 0 st1) := by
          intro h hm
          obtain ⟨u, hu, rfl⟩ := (h ▸ hp : At G root 1 p).one
          obtain ⟨r, hr⟩ := hm
          cases fuel with
          | zero => omega
          | succ f =>
            exact abKids_B2 hc hno hD (hold (f + 1)) ih (ab_recMated env hc hoff G f) (ab_recInt env hc G (f + 1)) u hu dep
              _ a b _ false 0 st1 hsubm (by omega) hab' (by omega) (hply1'.trans h) (by omega) hT1 hA1
              (.inr ⟨r, (SearchMate.mem_ordered_of_legal hr.1).1, hr⟩)
        revert hkO hk2 hkB
        generalize abKids env G (ab env G fuel) p dep _ a b _ false 0 st1 = out
        cases out with
        | abort st' =>
          intro ⟨g1, g2⟩ hA' hB
          exact ⟨claim2_zero _ _ _ _ _, hA', fun h hm _ => .inl (hB h hm)⟩
        | cut st' =>
          intro ⟨g1, g2, g3, g4⟩ ⟨k1, hA'⟩ hB
          dsimp only
          refine ⟨⟨fun h1 h2 => k1 h2, fun h1 h2 => (hLb (by omega) h2).elim⟩, hA', ?_⟩
          intro h hm _
          exact .inr (probe_inr_B (hU1 h hm) depth a0 b0 a b hpr)
        | done alpha best n st' =>
          intro ⟨g1, g2, g3, g4, g5, g6, g7, g8⟩ ⟨j1, j2, j3, hA'⟩ hB
          dsimp only
          have hF' : st'.ply = st.ply := g8.1.trans hacf.1
          have g5' := g5
          rw [Nat.zero_add] at g5'
          by_cases hn : n = 0
          · simp only [hn, ↓reduceIte]
            have hnil : legalMovesOf G p = [] := SearchMate.legal_nil_of_filter (g5'.symm.trans hn)
            have hBno : st.ply = 1 → HasMate1 G p → False := by
              intro _ ⟨r, hr⟩
              have := hr.1
              rw [hnil] at this
              exact absurd this List.not_mem_nil
            by_cases hcI : G.inCheck p = true
            · simp only [hcI, ↓reduceIte]
              refine ⟨⟨fun _ h => ?_, fun _ h => ?_⟩, hA', fun h hm _ => (hBno h hm).elim⟩
              · exfalso; simp only [MINS] at h; omega
              · have : st.ply ≠ 1 := fun h' => hmate h' ⟨hnil, hcI⟩
                simp only [MINS] at h
                exact ⟨by omega, hnil, hcI⟩
            · simp only [hcI, Bool.false_eq_true, ↓reduceIte]
              exact ⟨claim2_zero _ _ _ _ _, hA', fun h hm _ => (hBno h hm).elim⟩
          · simp only [hn, ↓reduceIte]
            have hlne : legalMovesOf G p ≠ [] := SearchMate.legal_ne_nil_of_filter (fun h => hn (g5'.trans h))
            have hW : alpha > a0 → alpha ≥ 32766 → st.ply = 1 ∧ HasMate1 G p := by
              intro h1 h2
              by_cases h : alpha > a
              · exact j2 h h2
              · exact hWa (by omega) (by omega)
            have hLo : alpha ≤ -32766 → False := fun h => hn (j3 h)
            refine ⟨⟨hW, fun _ h => (hLo h).elim⟩, ?_, ?_⟩
            · show AInv2 G root (st'.tt.insert (G.key p) _)
              refine ainv2_insert hP hK hA' hp (fun _ => hnd) hlne _ ?_ (fun _ h => hLo h) ?_
              · intro hb2 h
                dsimp only at hb2 h
                split at hb2
                · simp at hb2
                · exact hW (by omega) h
              · intro h hm
                exact .inr (hB h hm)
            · intro h hm _
              exact .inr (.inl (hB h hm))

/-! ## the root -/

/-- a root move after which the opponent mates at once, searched to depth `≥ 2`: unless the search is interrupted,
    its score is `≤ −32766` or does not exceed alpha -/
theorem pvsChild_rootB {env : Env} {G : Game P M} {root : P} (hno : NoMateInOne G root)
    {rec : P → Int → Int → Nat → St M → Int × St M}
    (hrec : RecSpec G root 255 rec) (hrec2 : RecSpec2 env G root 255 rec) (u : M) (hu : u ∈ legalMovesOf G root)
    (hun : AllowsMateInOne G root u) (a : Int) (depth : Nat) (hd : 2 ≤ depth) (pvs upd : Bool) (st : St M)
    (hply : st.ply = 0) (ha : -32768 ≤ a) (hb : a < 32767) (hT : TInv G st.tt) (hA : AInv2 G root st.tt) :
    Interrupted env (pvsChild G rec root u a MAXS depth pvs upd st).2 ∨
    (pvsChild G rec root u a MAXS depth pvs upd st).1 ≤ -32766 ∨ (pvsChild G rec root u a MAXS depth pvs upd st).1 ≤ a := by
  have hM : MAXS = 32767 := rfl
  rw [hM]
  have hcA : At G root 1 (G.play root u) := At.step At.root hu
  have hc : Reach G root (G.play root u) := hcA.reach
  have hm1 : HasMate1 G (G.play root u) := hun
  obtain ⟨st1, hst1, h1ply, h1tt⟩ : ∃ st1 : St M,
      st1 = (if upd then { ({ st with nodes := st.nodes + 1, ply := st.ply + 1 } : St M) with
                seldepth := max st.seldepth (st.ply + 1) }
              else { st with nodes := st.nodes + 1, ply := st.ply + 1 }) ∧
      st1.ply = 1 ∧ st1.tt = st.tt := by
    refine ⟨_, rfl, ?_, ?_⟩ <;> split <;> first | rfl | (show st.ply + 1 = 1; omega)
  have hT1 : TInv G st1.tt := h1tt ▸ hT
  have hA1 : AInv2 G root st1.tt := h1tt ▸ hA
  have hcA1 : At G root st1.ply (G.play root u) := by rw [h1ply]; exact hcA
  have hsb : satNeg 32767 = -32767 := by decide
  obtain ⟨hy1, hy2, hy3, hy4⟩ := SearchMate.satNeg_alpha ha (by omega : a ≤ 32766)
  have hnm : ¬ Mated G (G.play root u) := hno u hu
  have hle : ∀ s : St M, Interrupted env s → Interrupted env ({ s with ply := s.ply - 1 } : St M) :=
    fun s h => h.mono ⟨Nat.le_refl _, Nat.le_refl _, id⟩
  unfold pvsChild
  dsimp only
  rw [← hst1, hsb]
  generalize satNeg a = y at *
  have hfin : ∀ r : Int, Rng r → (r ≥ 32766 ∨ r ≥ y) → (-r ≤ -32766 ∨ -r ≤ a) := by
    intro r hr h
    unfold Rng at hr
    by_cases h0 : a = -32768
    · have := hy4 h0; omega
    · have := hy3 (by omega); omega
  cases pvs with
  | false =>
    simp only [Bool.false_eq_true, ↓reduceIte]
    have h := hrec (G.play root u) (-32767) y (depth - 1) st1 hc (by omega) (by omega) (by omega) (by omega) (by omega)
      (fun _ => hnm) hT1
    have h2 := hrec2 (G.play root u) (-32767) y (depth - 1) st1 hcA1 (by omega) (by omega) (by omega) (by omega) (by omega)
      hT1 hA1
    obtain ⟨_, hr, _, _⟩ := h
    obtain ⟨_, _, hB⟩ := h2
    rw [SearchMate.satNeg_of_rng hr]
    rcases hB h1ply hm1 (.inl (by omega)) with hB | hB
    · exact .inl (hle _ hB)
    · exact .inr (hfin _ hr hB)
  | true =>
    simp only [↓reduceIte]
    have h0 := hrec (G.play root u) (y - 1) y (depth - 1) st1 hc (by omega) (by omega) (by omega) (by omega) (by omega)
      (fun _ => hnm) hT1
    have h02 := hrec2 (G.play root u) (y - 1) y (depth - 1) st1 hcA1 (by omega) (by omega) (by omega) (by omega) (by omega)
      hT1 hA1
    have hB0 := h02.2.2 h1ply hm1 (.inl (by omega))
    generalize rec (G.play root u) (y - 1) y (depth - 1) st1 = res0 at *
    obtain ⟨r0, st2⟩ := res0
    dsimp only at h0 h02 hB0 ⊢
    obtain ⟨_, hr0, hT2, hF0⟩ := h0
    obtain ⟨_, hA2, _⟩ := h02
    rw [SearchMate.satNeg_of_rng hr0]
    have hply2 : st2.ply = 1 := hF0.1.trans h1ply
    by_cases hre : a < -r0 ∧ -r0 < 32767
    · have hdd : (decide (a < -r0) && decide (-r0 < 32767)) = true := by simp [hre.1, hre.2]
      simp only [hdd, ↓reduceIte]
      have h := hrec (G.play root u) (-32767) y (depth - 1) st2 hc (by omega) (by omega) (by omega)
        (by omega) (by omega) (fun _ => hnm) hT2
      have h2 := hrec2 (G.play root u) (-32767) y (depth - 1) st2 (by rw [hply2]; exact hcA) (by omega) (by omega) (by omega)
        (by omega) (by omega) hT2 hA2
      have hB1 := h2.2.2 hply2 hm1 (.inl (by omega))
      generalize rec (G.play root u) (-32767) y (depth - 1) st2 = res1 at *
      obtain ⟨r, st3⟩ := res1
      dsimp only at h hB1 ⊢
      obtain ⟨_, hr, _, _⟩ := h
      rw [SearchMate.satNeg_of_rng hr]
      rcases hB1 with hB | hB
      · exact .inl (hle _ hB)
      · exact .inr (hfin _ hr hB)
    · have hdd : (decide (a < -r0) && decide (-r0 < 32767)) = false := by
        simp only [Bool.and_eq_false_imp, decide_eq_true_eq, decide_eq_false_iff_not]
        intro g; exact fun g2 => hre ⟨g, g2⟩
      simp only [hdd, Bool.false_eq_true, ↓reduceIte]
      rcases hB0 with hB | hB
      · exact .inl (hle _ hB)
      · exact .inr (hfin _ hr0 hB)

theorem rootAbort_cases (alpha : Int) (best : M) (st : St M) :
    rootAbort alpha best st = st ∨
    (∃ s, st.bestScore = some s ∧ alpha > s ∧
      rootAbort alpha best st = { st with bestScore := some alpha, bestMove := some best }) := by
  unfold rootAbort
  cases hbs : st.bestScore with
  | none => left; simp
  | some s =>
    by_cases h : alpha > s
    · right
      refine ⟨s, rfl, h, ?_⟩
      simp [h]
    · left
      simp [h]

/-- what an interrupted iteration may do to the reported move -/
def AbortBest (G : Game P M) (p : P) (depth : Nat) (st st' : St M) : Prop :=
  (st'.bestMove = st.bestMove ∧ st'.bestScore = st.bestScore) ∨
  (∃ al b s, st'.bestMove = some b ∧ st'.bestScore = some al ∧ st.bestScore = some s ∧ al > s ∧
    (2 ≤ depth → al > -32766 → Safe G p b))

theorem AbortBest.of_eq {G : Game P M} {p : P} {depth : Nat} {st st2 st' : St M} (h1 : st2.bestMove = st.bestMove)
    (h2 : st2.bestScore = st.bestScore) (h : AbortBest G p depth st2 st') : AbortBest G p depth st st' := by
  rcases h with ⟨g1, g2⟩ | ⟨al, b, s, g1, g2, g3, g4, g5⟩
  · exact .inl ⟨g1.trans h1, g2.trans h2⟩
  · exact .inr ⟨al, b, s, g1, g2, h2 ▸ g3, g4, g5⟩

def RootPost2 (env : Env) (G : Game P M) (p : P) (depth : Nat) (ks : List M) (a : Int) (n : Nat) (st : St M) :
    RootLoop M → Prop
  | .abort st' => TInv G st'.tt ∧ AInv2 G p st'.tt ∧ st'.ply = 0 ∧ Interrupted env st' ∧ AbortBest G p depth st st'
  | .done alpha best n' st' => a ≤ alpha ∧ (alpha > a → alpha < 32766) ∧ (2 ≤ depth → alpha > -32766 → Safe G p best) ∧
      (alpha ≤ -32766 → ∀ m ∈ ks, G.legal p m = true → AllowsMateInOne G p m) ∧ n ≤ n' ∧
      ((∃ m ∈ ks, G.legal p m = true) → n < n') ∧
      TInv G st'.tt ∧ AInv2 G p st'.tt ∧ st'.ply = 0 ∧ st'.bestMove = st.bestMove ∧ st'.bestScore = st.bestScore

theorem rootKids_spec2 {env : Env} (hc : MonoClock env) {G : Game P M} {p : P} (hno : NoMateInOne G p)
    {rec : P → Int → Int → Nat → St M → Int × St M}
    (hrec : RecSpec G p 255 rec) (hrec2 : RecSpec2 env G p 255 rec) (depth : Nat) :
    ∀ (ks : List M) (a : Int) (best : M) (pvs : Bool) (n : Nat) (st : St M),
      (∀ m ∈ ks, m ∈ G.allMoves p) → -32768 ≤ a → a < 32767 → (2 ≤ depth → a > -32766 → Safe G p best) → st.ply = 0 →
      TInv G st.tt → AInv2 G p st.tt →
      RootPost2 env G p depth ks a n st (rootKids env G rec p depth ks a best pvs n st) := by
  intro ks
  induction ks with
  | nil =>
    intro a best pvs n st _ ha hb hg hply hT hA
    rw [rootKids_nil]
    refine ⟨Int.le_refl _, fun h => absurd h (Int.lt_irrefl _), hg, ?_, Nat.le_refl _, ?_, hT, hA, hply, rfl, rfl⟩
    · intro _ m hm; exact absurd hm List.not_mem_nil
    · rintro ⟨m, hm, _⟩; exact absurd hm List.not_mem_nil
  | cons m ks ih =>
    intro a best pvs n st hsub ha hb hg hply hT hA
    have hm : m ∈ G.allMoves p := hsub m List.mem_cons_self
    have hsub' : ∀ c ∈ ks, c ∈ G.allMoves p := fun c hc => hsub c (List.mem_cons_of_mem _ hc)
    rw [rootKids_cons]
    by_cases hl : G.legal p m = true
    · simp only [hl, Bool.not_true, Bool.false_eq_true, if_false]
      have hml : m ∈ legalMovesOf G p := SearchMate.mem_legalMovesOf hm hl
      have hM : MAXS = 32767 := rfl
      have hpc := SearchMate.pvsChild_spec hrec p m Reach.refl hm a 32767 depth pvs false st ha hb (by omega) (by omega)
        (by omega) (fun _ => hno m hml) hT
      have hpc2 := pvsChild_spec2 hno hrec hrec2 p m a 32767 depth pvs false st (by rw [hply]; exact At.root) hml ha hb
        (by omega) (by omega) (by omega) hT hA
      have hpB := fun hun hd => pvsChild_rootB hno hrec hrec2 m hml hun a depth hd pvs false st hply ha hb hT hA
      rw [hM] at hpB ⊢
      obtain ⟨hr, _, _, hT1, hF1⟩ := hpc
      obtain ⟨hW2, hL2, hA1⟩ := hpc2
      have hfr := abortCheck_frame env (pvsChild G rec p m a 32767 depth pvs false st).2
      have hT2 : TInv G (abortCheck env (pvsChild G rec p m a 32767 depth pvs false st).2).2.tt := by rw [hfr.1]; exact hT1
      have hA2 : AInv2 G p (abortCheck env (pvsChild G rec p m a 32767 depth pvs false st).2).2.tt := by rw [hfr.1]; exact hA1
      have hply1 : (pvsChild G rec p m a 32767 depth pvs false st).2.ply = 0 := hF1.1.trans hply
      have hply2 : (abortCheck env (pvsChild G rec p m a 32767 depth pvs false st).2).2.ply = 0 := hfr.2.2.1.trans hply1
      have hbm2 : (abortCheck env (pvsChild G rec p m a 32767 depth pvs false st).2).2.bestMove = st.bestMove :=
        hfr.2.2.2.2.2.1.trans hF1.2.1
      have hbs2 : (abortCheck env (pvsChild G rec p m a 32767 depth pvs false st).2).2.bestScore = st.bestScore :=
        hfr.2.2.2.2.2.2.1.trans hF1.2.2
      unfold Rng at hr
      have hlt : (pvsChild G rec p m a 32767 depth pvs false st).1 > a →
          (pvsChild G rec p m a 32767 depth pvs false st).1 < 32766 := by
        intro g
        by_cases g2 : (pvsChild G rec p m a 32767 depth pvs false st).1 ≥ 32766
        · have := (hW2 g g2).1; omega
        · omega
      have hun : (pvsChild G rec p m a 32767 depth pvs false st).1 ≤ -32766 → AllowsMateInOne G p m :=
        fun g => (hL2 (by omega) g).2
      by_cases hab2 : (abortCheck env (pvsChild G rec p m a 32767 depth pvs false st).2).1 = true
      · rw [if_pos hab2]
        have hI := abortCheck_interrupts' env _ hc (by omega) hab2
        refine ⟨?_, ?_, ?_, SearchPvNonempty.rootAbort_interrupted _ _ hI, ?_⟩
        · rw [(SearchMateOne.rootAbort_props a best _).1]; exact hT2
        · rw [(SearchMateOne.rootAbort_props a best _).1]; exact hA2
        · rw [(SearchMateOne.rootAbort_props a best _).2.1]; exact hply2
        · apply AbortBest.of_eq hbm2 hbs2
          rcases rootAbort_cases a best (abortCheck env (pvsChild G rec p m a 32767 depth pvs false st).2).2 with h | ⟨s, h1, h2, h3⟩
          · rw [h]; exact .inl ⟨rfl, rfl⟩
          · rw [h3]; exact .inr ⟨a, best, s, rfl, rfl, h1, h2, hg⟩
      · rw [if_neg hab2]
        have hnI : ¬ Interrupted env (pvsChild G rec p m a 32767 depth pvs false st).2 :=
          fun h => hab2 (abortCheck_of_interrupted env _ hc h)
        have hex : ∃ x ∈ m :: ks, G.legal p x = true := ⟨m, List.mem_cons_self, hl⟩
        split
        · rename_i hgt
          have hg' : 2 ≤ depth → (pvsChild G rec p m a 32767 depth pvs false st).1 > -32766 → Safe G p m := by
            intro hd hs
            refine ⟨hml, fun hu => ?_⟩
            rcases hpB hu hd with h | h | h
            · exact hnI h
            · omega
            · omega
          have := ih (pvsChild G rec p m a 32767 depth pvs false st).1 m true (n + 1) _ hsub' (by omega) (by omega) hg'
            hply2 hT2 hA2
          revert this
          generalize rootKids env G rec p depth ks _ m true (n + 1) _ = out
          cases out with
          | abort st' =>
            intro ⟨g1, g2, g3, g4, g5⟩
            exact ⟨g1, g2, g3, g4, g5.of_eq hbm2 hbs2⟩
          | done alpha best' n' st' =>
            intro ⟨g1, g2, g3, g4, g5, g6, g7, g8, g9, g10, g11⟩
            refine ⟨by omega, ?_, g3, ?_, by omega, fun _ => by omega, g7, g8, g9, g10.trans hbm2, g11.trans hbs2⟩
            · intro _
              by_cases he : alpha > (pvsChild G rec p m a 32767 depth pvs false st).1
              · exact g2 he
              · have := hlt hgt; omega
            · intro hlo c hc' hlc
              rcases List.mem_cons.1 hc' with rfl | hc'
              · exact hun (by omega)
              · exact g4 hlo c hc' hlc
        · rename_i hgt
          have := ih a best pvs (n + 1) _ hsub' ha hb hg hply2 hT2 hA2
          revert this
          generalize rootKids env G rec p depth ks a best pvs (n + 1) _ = out
          cases out with
          | abort st' =>
            intro ⟨g1, g2, g3, g4, g5⟩
            exact ⟨g1, g2, g3, g4, g5.of_eq hbm2 hbs2⟩
          | done alpha best' n' st' =>
            intro ⟨g1, g2, g3, g4, g5, g6, g7, g8, g9, g10, g11⟩
            refine ⟨g1, g2, g3, ?_, by omega, fun _ => by omega, g7, g8, g9, g10.trans hbm2, g11.trans hbs2⟩
            intro hlo c hc' hlc
            rcases List.mem_cons.1 hc' with rfl | hc'
            · exact hun (by omega)
            · exact g4 hlo c hc' hlc
    · simp only [hl, Bool.not_false, if_true]
      have := ih a best pvs n st hsub' ha hb hg hply hT hA
      revert this
      generalize rootKids env G rec p depth ks a best pvs n st = out
      cases out with
      | abort st' => exact id
      | done alpha best' n' st' =>
        intro ⟨g1, g2, g3, g4, g5, g6, g7, g8, g9, g10, g11⟩
        refine ⟨g1, g2, g3, ?_, g5, ?_, g7, g8, g9, g10, g11⟩
        · intro hlo c hc' hlc
          rcases List.mem_cons.1 hc' with rfl | hc'
          · exact absurd hlc hl
          · exact g4 hlo c hc' hlc
        · rintro ⟨x, hx, hxl⟩
          rcases List.mem_cons.1 hx with rfl | hx
          · exact absurd hxl hl
          · exact g6 ⟨x, hx, hxl⟩

/-! ## one iteration -/

/-- a completed iteration: the reported score is above `−32766`, and from depth 2 on the reported move is safe -/
def Completed (G : Game P M) (p : P) (depth : Nat) (st' : St M) : Prop :=
  ∃ al b, st'.bestMove = some b ∧ st'.bestScore = some al ∧ al > -32766 ∧ (2 ≤ depth → Safe G p b)

theorem abStart_spec2 {env : Env} (hc : MonoClock env) (hoff : env.cacheOff = false) {G : Game P M} (hk : KeyMate G) (p : P)
    (he : EvalBoundedFrom G p) (hno : NoMateInOne G p) (hP : PlyKeys G p) (hK : MatedKeysFresh2 G p)
    (hD : NoDrawAtMate2 G p) (hsafe : ∃ s, Safe G p s) (depth : Nat) (st : St M) (hply : st.ply = 0)
    (hT : TInv G st.tt) (hA : AInv2 G p st.tt) :
    (abStart env G p depth st).ply = 0 ∧ AInv2 G p (abStart env G p depth st).tt ∧
    ((Interrupted env (abStart env G p depth st) ∧ AbortBest G p depth st (abStart env G p depth st)) ∨
      Completed G p depth (abStart env G p depth st)) := by
  obtain ⟨s, hs, hsn⟩ := hsafe
  have hsall : s ∈ G.allMoves p := (List.mem_filter.1 hs).1
  have hsl : G.legal p s = true := (List.mem_filter.1 hs).2
  have hlne : legalMovesOf G p ≠ [] := fun h => by rw [h] at hs; exact absurd hs List.not_mem_nil
  rw [abStart_eq]
  split
  · rename_i heq
    rw [heq] at hsall
    exact absurd hsall List.not_mem_nil
  · rename_i m0 t _
    have hkids := rootKids_spec2 hc hno (SearchMate.ab_spec hk p he env 255) (ab_spec2 hc hoff hk p he hno hP hK hD 255) depth
      (orderMoves G ((st.tt[G.key p]?).map (·.best)) (st.killers.getD st.ply (none, none)) (G.allMoves p))
      MINS m0 false 0 st (fun m hm => (SearchMate.mem_orderMoves _ _ _ _ _).1 hm) (by decide) (by decide)
      (fun _ h => absurd h (by decide)) hply hT hA
    revert hkids
    generalize rootKids env G (ab env G 255) p depth _ MINS m0 false 0 st = out
    cases out with
    | abort st' =>
      intro ⟨g1, g2, g3, g4, g5⟩
      exact ⟨g3, g2, .inl ⟨g4, g5⟩⟩
    | done alpha best n st' =>
      intro ⟨g1, g2, g3, g4, g5, g6, g7, g8, g9, g10, g11⟩
      dsimp only
      have hn : ¬ (n = 0) := by
        have := g6 ⟨s, (SearchMate.mem_orderMoves _ _ _ _ _).2 hsall, hsl⟩
        omega
      rw [if_neg hn]
      have hlo : ¬ (alpha ≤ -32766) := fun h => hsn (g4 h s ((SearchMate.mem_orderMoves _ _ _ _ _).2 hsall) hsl)
      have hhi : alpha < 32766 := by
        by_cases h : alpha > MINS
        · exact g2 h
        · simp only [MINS] at h; omega
      unfold rootSave
      have hfr := abortCheck_frame env st'
      split
      · rename_i hab
        refine ⟨hfr.2.2.1.trans g9, by rw [hfr.1]; exact g8, .inl ⟨abortCheck_interrupts' env st' hc (by omega) hab, ?_⟩⟩
        exact .inl ⟨hfr.2.2.2.2.2.1.trans g10, hfr.2.2.2.2.2.2.1.trans g11⟩
      · refine ⟨hfr.2.2.1.trans g9, ?_, .inr ⟨alpha, best, rfl, rfl, by omega, fun hd => g3 hd (by omega)⟩⟩
        show AInv2 G p ((abortCheck env st').2.tt.insert (G.key p) _)
        rw [hfr.1]
        refine ainv2_insert hP hK g8 At.root (fun h => absurd rfl h) hlne _ ?_ ?_ ?_
        · intro _ h; exact absurd h (by show ¬ (alpha ≥ 32766); omega)
        · intro _ h; exact hlo h
        · intro h; exact absurd h (by omega)

/-! ## the iterations -/

/-- the state between iterations -/
def IterSt (G : Game P M) (p : P) (st : St M) : Prop :=
  st.ply = 0 ∧ TInv G st.tt ∧ AInv2 G p st.tt ∧ SearchMate.RootInv G p st

/-- the reported move is safe and its score is above `−32766` -/
def SafeSt (G : Game P M) (p : P) (st : St M) : Prop :=
  ∃ m s, st.bestMove = some m ∧ Safe G p m ∧ st.bestScore = some s ∧ s > -32766

theorem safeSt_of_abortBest {G : Game P M} {p : P} {depth : Nat} {st st' : St M} (hd : 2 ≤ depth) (h : SafeSt G p st)
    (ha : AbortBest G p depth st st') : SafeSt G p st' := by
  obtain ⟨m, s, h1, h2, h3, h4⟩ := h
  rcases ha with ⟨g1, g2⟩ | ⟨al, b, s', g1, g2, g3, g4, g5⟩
  · exact ⟨m, s, g1.trans h1, h2, g2.trans h3, h4⟩
  · rw [h3] at g3
    cases g3
    exact ⟨b, al, g1, g5 hd (by omega), g2, by omega⟩

theorem safeSt_of_completed {G : Game P M} {p : P} {depth : Nat} {st' : St M} (hd : 2 ≤ depth)
    (h : Completed G p depth st') : SafeSt G p st' := by
  obtain ⟨al, b, h1, h2, h3, h4⟩ := h
  exact ⟨b, al, h1, h4 hd, h2, h3⟩

theorem iterate_spec2 {env : Env} (hc : MonoClock env) (hoff : env.cacheOff = false) {G : Game P M} (hk : KeyMate G) (p : P)
    (he : EvalBoundedFrom G p) (hno : NoMateInOne G p) (hP : PlyKeys G p) (hK : MatedKeysFresh2 G p)
    (hD : NoDrawAtMate2 G p) (hsafe : ∃ s, Safe G p s) (md : Nat) :
    ∀ (fuel d : Nat) (st : St M) (infos : List (InfoLine M)), IterSt G p st → (3 ≤ d → SafeSt G p st) →
      (∀ i ∈ infos, i.depth < d) →
      IterSt G p (iterate env G p md fuel d st infos).1 ∧
      ((∃ i ∈ (iterate env G p md fuel d st infos).2, i.depth ≥ 2) → SafeSt G p (iterate env G p md fuel d st infos).1) := by
  intro fuel
  induction fuel with
  | zero =>
    intro d st infos hI hS hlt
    refine ⟨hI, ?_⟩
    rintro ⟨i, hi, h2⟩
    exact hS (by have := hlt i hi; omega)
  | succ fuel ih =>
    intro d st infos hI hS hlt
    have hbase : (∃ i ∈ infos, i.depth ≥ 2) → 3 ≤ d := by
      rintro ⟨i, hi, h2⟩
      have := hlt i hi
      omega
    rw [iterate_succ]
    split
    · exact ⟨hI, fun h => hS (hbase h)⟩
    · obtain ⟨hply, hT, hA, hR⟩ := hI
      have hold := SearchMate.abStart_spec hk p he hno env d st ⟨hT, hply, hR⟩
      have hnew := abStart_spec2 hc hoff hk p he hno hP hK hD hsafe d st hply hT hA
      have hfr := abortCheck_frame env (abStart env G p d st)
      have hI2 : IterSt G p (abortCheck env (abStart env G p d st)).2 := by
        refine ⟨hfr.2.2.1.trans hnew.1, by rw [hfr.1]; exact hold.1, by rw [hfr.1]; exact hnew.2.1, ?_⟩
        exact hold.2.2.frame ⟨hfr.2.2.1, hfr.2.2.2.2.2.1, hfr.2.2.2.2.2.2.1⟩
      have hSfr : SafeSt G p (abStart env G p d st) → SafeSt G p (abortCheck env (abStart env G p d st)).2 := by
        rintro ⟨m, s, h1, h2, h3, h4⟩
        exact ⟨m, s, hfr.2.2.2.2.2.1.trans h1, h2, hfr.2.2.2.2.2.2.1.trans h3, h4⟩
      simp only []
      split
      · refine ⟨hI2, fun h => hSfr ?_⟩
        have hd3 := hbase h
        rcases hnew.2.2 with ⟨_, hab⟩ | hcomp
        · exact safeSt_of_abortBest (by omega) (hS hd3) hab
        · exact safeSt_of_completed (by omega) hcomp
      · rename_i hab
        have hcomp : Completed G p d (abStart env G p d st) := by
          rcases hnew.2.2 with ⟨hint, _⟩ | hcomp
          · exact absurd (abortCheck_of_interrupted env _ hc hint) hab
          · exact hcomp
        apply ih (d + 1) _ _ hI2
        · intro h3
          exact hSfr (safeSt_of_completed (by omega) hcomp)
        · intro i hi
          rcases List.mem_append.1 hi with hi | hi
          · have := hlt i hi; omega
          · rw [List.mem_singleton] at hi
            subst hi
            show d < d + 1
            omega

/-! ## the theorem -/

/-- **Third clause of the mate property, with the cache on.**  For every game, root, depth limit, environment (any
    limits, stop point, monotone clock) and initial cache satisfying `AvoidInv` (the empty one does: `avoidInv_empty`;
    so does the cache left by any earlier search of the position under these hypotheses: second conjunct): if the root
    has no mate in one (otherwise the first clause, `SearchMateOne.mate_in_one_played`, applies), some legal move does not allow
    a mate in one, and an iteration of depth `≥ 2` completed (an info line of depth `≥ 2` was printed), then the chosen
    move does not allow a mate in one.

    Hypotheses beyond `MonoClock`, "cache on", `EvalBoundedFrom`, `KeyMate` (all as in `mate_in_one_played`):
    * `hP : PlyKeys G p` — the transposition hypothesis.  Mate scores are relative to the ply of the node and cache
      entries are stored unadjusted: an entry written for a root child `c` in which the opponent mates at once says
      `32766` at ply 1, but the same position stored from ply 3 or 5 says `32764` / `32762` ("a longer mate"), and read
      back at ply 1 it makes the blunder look better than a move that loses in two; read the other way (stored at
      ply 1, read at ply 3) it makes a safe move look like a mate in one.  `PlyKeys` excludes both: among the nodes of
      the tree that reach their cache probe, the key of such a `c` is carried only by ply-1 nodes in which the side to
      move mates at once.  Cannot be dropped: `Counter.avoid_without_plyKeys_refuted` (fresh cache, depth 2).
    * `hK : MatedKeysFresh2 G p` — as `MatedKeysFresh` in the first clause, one ply deeper: no writing node carries the
      key of a mated grandchild (an entry under that key answers the probe in place of the mate score).
    * `hD : NoDrawAtMate2 G p` — neither the position in which the opponent mates at once nor the mated position is
      declared a draw (fifty-move rule, repetition) before the mate test: `alpha_beta` returns 0 there, and the
      blunder scores as a draw.
    * `hno`, `hsafe` — the case distinction of the property. -/
theorem avoidable_mate_avoided (env : Env) (G : Game P M) (p : P) (maxDepth : Option Nat) (tt0 : Table M)
    (hc : MonoClock env) (hoff : env.cacheOff = false) (he : EvalBoundedFrom G p) (hk : KeyMate G)
    (hP : PlyKeys G p) (hK : MatedKeysFresh2 G p) (hD : NoDrawAtMate2 G p)
    (hno : NoMateInOne G p) (hsafe : ∃ s, Safe G p s) (hinv : AvoidInv G p tt0)
    (hdone : ∃ i ∈ (search env G p maxDepth tt0).infos, i.depth ≥ 2) :
    (∃ m, (search env G p maxDepth tt0).st.bestMove = some m ∧ Safe G p m) ∧
    AvoidInv G p (search env G p maxDepth tt0).st.tt := by
  have h0 : IterSt G p ({ tt := tt0 } : St M) := ⟨rfl, hinv.1, hinv.2, fun s m h => by simp at h⟩
  have key := iterate_spec2 hc hoff hk p he hno hP hK hD hsafe (maxDepth.getD 255) (maxDepth.getD 255) 1
    ({ tt := tt0 } : St M) [] h0 (fun h => by omega) (fun i hi => absurd hi List.not_mem_nil)
  obtain ⟨m, s, h1, h2, _, _⟩ := key.2 hdone
  exact ⟨⟨m, h1, h2⟩, key.1.2.1, key.1.2.2.1⟩

/-- the invariant is re-established by every search of the position, completed or not -/
theorem avoidInv_preserved (env : Env) (G : Game P M) (p : P) (maxDepth : Option Nat) (tt0 : Table M)
    (hc : MonoClock env) (hoff : env.cacheOff = false) (he : EvalBoundedFrom G p) (hk : KeyMate G)
    (hP : PlyKeys G p) (hK : MatedKeysFresh2 G p) (hD : NoDrawAtMate2 G p)
    (hno : NoMateInOne G p) (hsafe : ∃ s, Safe G p s) (hinv : AvoidInv G p tt0) :
    AvoidInv G p (search env G p maxDepth tt0).st.tt := by
  have h0 : IterSt G p ({ tt := tt0 } : St M) := ⟨rfl, hinv.1, hinv.2, fun s m h => by simp at h⟩
  have key := iterate_spec2 hc hoff hk p he hno hP hK hD hsafe (maxDepth.getD 255) (maxDepth.getD 255) 1
    ({ tt := tt0 } : St M) [] h0 (fun h => by omega) (fun i hi => absurd hi List.not_mem_nil)
  exact ⟨key.1.2.1, key.1.2.2.1⟩

/-- the move answered on the `bestmove` line -/
theorem avoidable_mate_answered (env : Env) (G : Game P M) (p : P) (maxDepth : Option Nat) (tt0 : Table M)
    (hc : MonoClock env) (hoff : env.cacheOff = false) (he : EvalBoundedFrom G p) (hk : KeyMate G)
    (hP : PlyKeys G p) (hK : MatedKeysFresh2 G p) (hD : NoDrawAtMate2 G p)
    (hno : NoMateInOne G p) (hsafe : ∃ s, Safe G p s) (hinv : AvoidInv G p tt0)
    (hdone : ∃ i ∈ (search env G p maxDepth tt0).infos, i.depth ≥ 2) :
    ∃ m, (search env G p maxDepth tt0).best = some m ∧ Safe G p m := by
  obtain ⟨m, h1, h2⟩ := (avoidable_mate_avoided env G p maxDepth tt0 hc hoff he hk hP hK hD hno hsafe hinv hdone).1
  refine ⟨m, ?_, h2⟩
  have h1' : (iterate env G p (maxDepth.getD 255) (maxDepth.getD 255) 1 ({ tt := tt0 } : St M) []).1.bestMove = some m := h1
  show (match (iterate env G p (maxDepth.getD 255) (maxDepth.getD 255) 1 ({ tt := tt0 } : St M) []).1.bestMove with
    | some m => some m
    | none => ((G.allMoves p).filter (G.legal p)).head?) = some m
  rw [h1']

/-! ## successive searches of the same position -/

open RCE.Proofs.SearchMateOne (Go cacheAfter)

/-- after any number of earlier searches of the position (any depths, limits, stop points; monotone clocks, cache on;
    completed or interrupted), starting from a cache that satisfies the invariant — the empty one, for instance — a
    further search that completes an iteration of depth `≥ 2` chooses a move that does not allow a mate in one -/
theorem avoidable_mate_avoided_again (G : Game P M) (p : P) (he : EvalBoundedFrom G p) (hk : KeyMate G)
    (hP : PlyKeys G p) (hK : MatedKeysFresh2 G p) (hD : NoDrawAtMate2 G p) (hno : NoMateInOne G p)
    (hsafe : ∃ s, Safe G p s) :
    ∀ (gs : List Go) (tt0 : Table M), AvoidInv G p tt0 → (∀ g ∈ gs, MonoClock g.env ∧ g.env.cacheOff = false) →
      AvoidInv G p (cacheAfter G p gs tt0) ∧
      ∀ (env : Env) (maxDepth : Option Nat), MonoClock env → env.cacheOff = false →
        (∃ i ∈ (search env G p maxDepth (cacheAfter G p gs tt0)).infos, i.depth ≥ 2) →
        ∃ m, (search env G p maxDepth (cacheAfter G p gs tt0)).st.bestMove = some m ∧ Safe G p m := by
  intro gs
  induction gs with
  | nil =>
    intro tt0 hinv _
    exact ⟨hinv, fun env md hc hoff hdone =>
      (avoidable_mate_avoided env G p md tt0 hc hoff he hk hP hK hD hno hsafe hinv hdone).1⟩
  | cons g gs ih =>
    intro tt0 hinv hgs
    have hg := hgs g List.mem_cons_self
    exact ih _ (avoidInv_preserved g.env G p g.maxDepth tt0 hg.1 hg.2 he hk hP hK hD hno hsafe hinv)
      (fun x hx => hgs x (List.mem_cons_of_mem _ hx))

/-- the first search of a position, from the empty cache -/
theorem avoidable_mate_avoided_first (env : Env) (G : Game P M) (p : P) (maxDepth : Option Nat)
    (hc : MonoClock env) (hoff : env.cacheOff = false) (he : EvalBoundedFrom G p) (hk : KeyMate G)
    (hP : PlyKeys G p) (hK : MatedKeysFresh2 G p) (hD : NoDrawAtMate2 G p)
    (hno : NoMateInOne G p) (hsafe : ∃ s, Safe G p s)
    (hdone : ∃ i ∈ (search env G p maxDepth {}).infos, i.depth ≥ 2) :
    ∃ m, (search env G p maxDepth {}).st.bestMove = some m ∧ Safe G p m :=
  (avoidable_mate_avoided env G p maxDepth {} hc hoff he hk hP hK hD hno hsafe (avoidInv_empty G p) hdone).1

/-- a mating move is safe -/
theorem safe_of_mates {G : Game P M} {p : P} {m : M} (h : Mates G p m) : Safe G p m := by
  refine ⟨h.1, ?_⟩
  rintro ⟨r, hr, _⟩
  rw [h.2.1] at hr
  exact absurd hr List.not_mem_nil

/-- first and third clause together, first search of a position: whether or not the root has a mate in one, once an
    iteration of depth `≥ 2` has completed the chosen move does not allow a mate in one if some legal move avoids it
    (hypotheses of `SearchMateOne.mate_in_one_played` and of `avoidable_mate_avoided`) -/
theorem avoidable_mate_avoided_first_any (env : Env) (G : Game P M) (p : P) (maxDepth : Option Nat)
    (hc : MonoClock env) (hoff : env.cacheOff = false) (he : EvalBoundedFrom G p) (hk : KeyMate G)
    (hK1 : SearchMateOne.MatedKeysFresh G p) (hD1 : SearchMateOne.NoDrawAtMate G p) (hO : SearchMateOne.OrderScoresOK G p)
    (hP : PlyKeys G p) (hK : MatedKeysFresh2 G p) (hD : NoDrawAtMate2 G p) (hsafe : ∃ s, Safe G p s)
    (hdone : ∃ i ∈ (search env G p maxDepth {}).infos, i.depth ≥ 2) :
    ∃ m, (search env G p maxDepth {}).st.bestMove = some m ∧ Safe G p m := by
  by_cases hex : ∃ m, Mates G p m
  · have hne : (search env G p maxDepth {}).infos ≠ [] := by
      obtain ⟨i, hi, _⟩ := hdone
      intro h; rw [h] at hi; exact absurd hi List.not_mem_nil
    obtain ⟨m, h1, h2⟩ := SearchMateOne.mate_in_one_played_first env G p maxDepth hc hoff he hk hK1 hD1 hO hex hne
    exact ⟨m, h1, safe_of_mates h2⟩
  · have hno : NoMateInOne G p := fun m hm hM => hex ⟨m, hm, hM⟩
    exact avoidable_mate_avoided_first env G p maxDepth hc hoff he hk hP hK hD hno hsafe hdone

/-! ## the statement without the transposition hypothesis is false -/

/-- the third clause as first proposed: only the hypotheses of the other search theorems, fresh cache.  FALSE
    (`Counter.avoid_clean_refuted`). -/
def avoidable_mate_avoided_clean_statement : Prop :=
  ∀ (P M : Type) [DecidableEq M] (env : Env) (G : Game P M) (p : P) (maxDepth : Option Nat),
    MonoClock env → env.cacheOff = false → EvalBoundedFrom G p → KeyMate G → NoMateInOne G p → (∃ s, Safe G p s) →
    (∃ i ∈ (search env G p maxDepth {}).infos, i.depth ≥ 2) →
    ∃ m, (search env G p maxDepth {}).st.bestMove = some m ∧ Safe G p m

/-- `avoidable_mate_avoided_first` without `PlyKeys` (all other hypotheses kept).  FALSE
    (`Counter.avoid_without_plyKeys_refuted`). -/
def avoidable_mate_avoided_no_plyKeys_statement : Prop :=
  ∀ (P M : Type) [DecidableEq M] (env : Env) (G : Game P M) (p : P) (maxDepth : Option Nat),
    MonoClock env → env.cacheOff = false → EvalBoundedFrom G p → KeyMate G → MatedKeysFresh2 G p → NoDrawAtMate2 G p →
    NoMateInOne G p → (∃ s, Safe G p s) → (∃ i ∈ (search env G p maxDepth {}).infos, i.depth ≥ 2) →
    ∃ m, (search env G p maxDepth {}).st.bestMove = some m ∧ Safe G p m

namespace Counter
open RCE.Proofs.SearchMate.Counter (mkGame key_inj keyMate evalBounded legalMoves_eq)
open RCE.Proofs.SearchMateOne.Counter (monoClock_default)

/-! ### a transposition between ply 1 and ply 3

0 = root: 1, 2.  1 → 3, and 3 is mated: the move 1 allows a mate in one.  2 → 4 (in check) → 1: the move 2 does not (the
opponent's only reply, 4, is no mate), although it loses as well, one move later — position 1 is reached again at
ply 3.  The key is injective.  Depth 2, empty cache: iteration 1 prefers the move 1 (both score 0); iteration 2 searches it
first, stores `⟨32766, exact⟩` for position 1 (mate at ply 2) and has alpha = −32766; then the move 2: position 4 is in
check, so its child — position 1 at ply 3 — is probed with depth 0 and the entry answers `32766` (the truth at ply 3
is `32764`), position 4 returns −32766, position 2 cuts at β = 32766, the root sees −32766, not above alpha.  The
completed depth-2 iteration reports the move 1. -/

def mv5 : Fin 8 → List (Fin 8) := fun p => match p with | 0 => [1, 2] | 1 => [3] | 2 => [4] | 4 => [1] | _ => []
def ck5 : Fin 8 → Bool := fun p => p == 3 || p == 4
def G5 : Game (Fin 8) (Fin 8) := mkGame mv5 ck5

theorem G5_legal (q : Fin 8) : legalMovesOf G5 q = mv5 q := legalMoves_eq mv5 ck5 q

theorem G5_not_drawn (q : Fin 8) : ¬ Drawn G5 q := fun h => h.elim Bool.false_ne_true Bool.false_ne_true

theorem G5_mated_3 : Mated G5 3 := ⟨by rw [G5_legal]; rfl, by decide⟩

theorem G5_unsafe_1 : ¬ Safe G5 0 1 := by
  intro h
  exact h.2 ⟨3, by rw [G5_legal]; exact List.mem_singleton.2 rfl, G5_mated_3⟩

theorem G5_safe_2 : Safe G5 0 2 := by
  refine ⟨by rw [G5_legal]; exact List.mem_cons_of_mem _ List.mem_cons_self, ?_⟩
  rintro ⟨r, hr, hm⟩
  rw [G5_legal] at hr
  change r ∈ [(4 : Fin 8)] at hr
  simp only [List.mem_singleton] at hr
  subst hr
  have := hm.1
  rw [G5_legal] at this
  exact absurd this (by decide)

theorem G5_noMateInOne : NoMateInOne G5 0 := by
  intro m hm hmated
  rw [G5_legal] at hm
  have hnil := hmated.1
  rw [G5_legal] at hnil
  change m ∈ [(1 : Fin 8), 2] at hm
  simp only [List.mem_cons, List.not_mem_nil, or_false] at hm
  rcases hm with rfl | rfl
  · exact absurd hnil (by decide)
  · exact absurd hnil (by decide)

theorem G5_matedKeysFresh2 : MatedKeysFresh2 G5 0 := by
  intro u r _ hr k q _ hkey
  have : q = G5.play (G5.play 0 u) r := key_inj _ _ _ _ hkey
  subst this
  exact .inl hr.2.1

theorem G5_noDraw : NoDrawAtMate2 G5 0 := fun _ _ _ _ => ⟨G5_not_drawn _, G5_not_drawn _⟩

def r5 := search {} G5 0 (some 2) {}

/--
info: ([1, 2],
 some 1,
 some (-32766),
 [(0, -32766, 2, RCE.Search.Bound.exact, 1),
  (1, 32766, 1, RCE.Search.Bound.exact, 3),
  (2, 32766, 1, RCE.Search.Bound.lower, 4),
  (4, -32766, 1, RCE.Search.Bound.upper, 1)])
-/
#guard_msgs in
#eval (r5.infos.map (·.depth), r5.st.bestMove, r5.st.bestScore,
  r5.st.tt.toList.map (fun (k, e) => (k, e.score, e.depth, e.bound, e.best)))

/-- `avoidable_mate_avoided_no_plyKeys_statement` fails, given the run displayed by the `#eval` above -/
theorem avoid_without_plyKeys_refuted (hrun : (∃ i ∈ r5.infos, i.depth ≥ 2) ∧ r5.st.bestMove = some 1) :
    ¬ avoidable_mate_avoided_no_plyKeys_statement := by
  intro h
  obtain ⟨m, h1, h2⟩ := h (Fin 8) (Fin 8) {} G5 0 (some 2) monoClock_default rfl (evalBounded _ _ _) (keyMate _ _)
    G5_matedKeysFresh2 G5_noDraw G5_noMateInOne ⟨2, G5_safe_2⟩ hrun.1
  have h1' : r5.st.bestMove = some m := h1
  rw [hrun.2] at h1'
  cases h1'
  exact G5_unsafe_1 h2

/-- so does the clean statement -/
theorem avoid_clean_refuted (hrun : (∃ i ∈ r5.infos, i.depth ≥ 2) ∧ r5.st.bestMove = some 1) :
    ¬ avoidable_mate_avoided_clean_statement := by
  intro h
  apply avoid_without_plyKeys_refuted hrun
  intro P M _ env G p md hc hoff he hk _ _ hno hsafe hdone
  exact h P M env G p md hc hoff he hk hno hsafe hdone

/-- `PlyKeys` is what fails in `G5`: position 1 occurs at ply 3 -/
theorem G5_not_plyKeys : ¬ PlyKeys G5 0 := by
  intro h
  have h1 : (1 : Fin 8) ∈ legalMovesOf G5 0 := by rw [G5_legal]; exact List.mem_cons_self
  have hat : At G5 0 3 1 :=
    At.step (q := 4) (m := 1)
      (At.step (q := 2) (m := 4)
        (At.step (q := 0) (m := 2) At.root (by rw [G5_legal]; exact List.mem_cons_of_mem _ List.mem_cons_self))
        (by rw [G5_legal]; exact List.mem_singleton.2 rfl))
      (by rw [G5_legal]; exact List.mem_singleton.2 rfl)
  rcases h 1 h1 ⟨3, by rw [G5_legal]; exact List.mem_singleton.2 rfl, G5_mated_3⟩ 3 1 hat rfl with h | h
  · exact absurd h.1 (by decide)
  · exact G5_not_drawn _ h.2

/-- the same game without the edge 4 → 1 and with position 4 not in check (a stalemate): depth 2 reports the safe move -/
def mv5' : Fin 8 → List (Fin 8) := fun p => match p with | 0 => [1, 2] | 1 => [3] | 2 => [4] | _ => []
def r5' := search {} (mkGame mv5' (fun p => p == 3)) 0 (some 2) {}

/-- info: ([1, 2], some 2, some 0) -/
#guard_msgs in
#eval (r5'.infos.map (·.depth), r5'.st.bestMove, r5'.st.bestScore)


/-- depth 1 is not enough (the reply is not searched): the same game at depth 1 reports the move 1 -/
def r5'' := search {} (mkGame mv5' (fun p => p == 3)) 0 (some 1) {}

/-- info: ([1], some 1, some 0) -/
#guard_msgs in
#eval (r5''.infos.map (·.depth), r5''.st.bestMove, r5''.st.bestScore)

/-! ### the other direction: an entry stored at ply 5 and read at ply 1

0 = root: 3, 1.  1 → 2, and 2 is mated: the move 1 allows a mate in one.  3 → 4, 9;  4 → 5 → 6 → 1 (position 1 again, at ply 5);
9 → 10 → 11 with 11 mated (ply 4).  Every position but the root is in check, so the extensions carry a depth-1 search to
the end of every line.  The move 3 is safe and worth −32764 (mated at ply 4).  Its first line stores `⟨32762, exact⟩` for
position 1 (mate at ply 6); the probe of position 1 at ply 1 returns it: the move 1 scores −32762 — "mated in three", in
truth mated in one — and is preferred.  Iterations 1 and 2 report it; in iteration 3 the entry is too shallow, the move 1
is searched first (`−32766`, stored for position 1), and then the entry misleads the other way as in `G5`: still the move 1. -/

def mv6 : Fin 16 → List (Fin 16) := fun p => match p with
  | 0 => [3, 1] | 1 => [2] | 3 => [4, 9] | 4 => [5] | 5 => [6] | 6 => [1] | 9 => [10] | 10 => [11] | _ => []

def G6 : Game (Fin 16) (Fin 16) where
  allMoves := mv6
  legal _ _ := true
  play _ m := m
  inCheck := fun p => p != 0
  eval _ := 0
  fifty _ := false
  repeated _ := false
  key p := UInt64.ofNat p.val
  isCapture _ := false
  isPromotion _ := false
  staticScore _ := 0
  defaultMove := 0

def r6 (d : Nat) := search {} G6 0 (some d) {}

/-- info: [([1], some 1, some (-32762)), ([1, 2], some 1, some (-32762)), ([1, 2, 3], some 1, some (-32766))] -/
#guard_msgs in
#eval [1, 2, 3].map fun d => ((r6 d).infos.map (·.depth), (r6 d).st.bestMove, (r6 d).st.bestScore)

end Counter

/-! ## the other two hypotheses cannot be dropped either -/

/-- `avoidable_mate_avoided_first` without `NoDrawAtMate2`.  FALSE (`Counter2.avoid_without_noDraw_refuted`). -/
def avoidable_mate_avoided_no_noDraw_statement : Prop :=
  ∀ (P M : Type) [DecidableEq M] (env : Env) (G : Game P M) (p : P) (maxDepth : Option Nat),
    MonoClock env → env.cacheOff = false → EvalBoundedFrom G p → KeyMate G → PlyKeys G p → MatedKeysFresh2 G p →
    NoMateInOne G p → (∃ s, Safe G p s) → (∃ i ∈ (search env G p maxDepth {}).infos, i.depth ≥ 2) →
    ∃ m, (search env G p maxDepth {}).st.bestMove = some m ∧ Safe G p m

/-- `avoidable_mate_avoided_first` without `MatedKeysFresh2`.  FALSE (`Counter2.avoid_without_fresh_refuted`). -/
def avoidable_mate_avoided_no_fresh_statement : Prop :=
  ∀ (P M : Type) [DecidableEq M] (env : Env) (G : Game P M) (p : P) (maxDepth : Option Nat),
    MonoClock env → env.cacheOff = false → EvalBoundedFrom G p → KeyMate G → PlyKeys G p → NoDrawAtMate2 G p →
    NoMateInOne G p → (∃ s, Safe G p s) → (∃ i ∈ (search env G p maxDepth {}).infos, i.depth ≥ 2) →
    ∃ m, (search env G p maxDepth {}).st.bestMove = some m ∧ Safe G p m

theorem At.inv {G : Game P M} {p : P} {k : Nat} {q : P} (h : At G p k q) :
    (k = 0 ∧ q = p) ∨ ∃ k' q' m, k = k' + 1 ∧ At G p k' q' ∧ m ∈ legalMovesOf G q' ∧ q = G.play q' m := by
  cases h with
  | root => exact .inl ⟨rfl, rfl⟩
  | step h0 hm => exact .inr ⟨_, _, _, rfl, h0, hm, rfl⟩

namespace Counter2
open RCE.Proofs.SearchMate.Counter (mkGame key_inj)
open RCE.Proofs.SearchMateOne.Counter (monoClock_default)

/-- in a game on `Fin 8` whose moves are their target squares, where only the root leads to square 1 and nothing
    leads to the root, square 1 occurs at ply 1 only -/
theorem at_one_only (G : Game (Fin 8) (Fin 8)) (hplay : ∀ q m, G.play q m = m)
    (hpar : ∀ q', (1 : Fin 8) ∈ legalMovesOf G q' → q' = 0) (hroot : ∀ q', (0 : Fin 8) ∉ legalMovesOf G q') :
    ∀ k, At G 0 k 1 → k = 1 := by
  intro k h
  rcases h.inv with ⟨_, h1⟩ | ⟨k', q', m, rfl, h0, hm, heq⟩
  · exact absurd h1 (by decide)
  · rw [hplay] at heq
    subst heq
    have := hpar q' hm
    subst this
    rcases h0.inv with ⟨h2, _⟩ | ⟨k'', q'', m', _, _, hm', heq'⟩
    · rw [h2]
    · rw [hplay] at heq'
      subst heq'
      exact absurd hm' (hroot q'')

/-! ### a repeated position

0 = root: 2, 1.  1 → 3, and 3 is mated; but position 1 counts as repeated, so `alpha_beta` returns 0 for it before looking
at its moves.  2 → 4, which the evaluation dislikes (−100 for the side to move) and which has no move (no check).
Depth 2: the move 2 scores −100, the move 1 scores 0 and is reported. -/

def mv7 : Fin 8 → List (Fin 8) := fun p => match p with | 0 => [2, 1] | 1 => [3] | 2 => [4] | _ => []
def G7 : Game (Fin 8) (Fin 8) :=
  { mkGame mv7 (fun p => p == 3) with repeated := fun p => p == 1, eval := fun p => if p = 4 then -100 else 0 }

theorem G7_legal (q : Fin 8) : legalMovesOf G7 q = mv7 q := by
  show (mv7 q).filter (fun _ => true) = mv7 q
  simp

theorem G7_key_inj : ∀ p q : Fin 8, G7.key p = G7.key q → p = q := key_inj mv7 (fun p => p == 3)

theorem G7_keyMate : KeyMate G7 := by
  intro p q h; cases G7_key_inj p q h; exact ⟨id, id⟩

theorem G7_evalBounded : EvalBoundedFrom G7 0 := by
  intro q _
  show (-32511 : Int) ≤ (if q = 4 then -100 else 0) ∧ (if q = 4 then (-100 : Int) else 0) ≤ 32511
  split <;> omega

theorem G7_mates_1_3 : Mates G7 1 3 :=
  ⟨by rw [G7_legal]; exact List.mem_singleton.2 rfl, by rw [G7_legal]; rfl, by decide⟩

theorem G7_unsafe_1 : ¬ Safe G7 0 1 := fun h => h.2 ⟨3, G7_mates_1_3⟩

theorem G7_safe_2 : Safe G7 0 2 := by
  refine ⟨by rw [G7_legal]; exact List.mem_cons_self, ?_⟩
  rintro ⟨r, hr, hm⟩
  rw [G7_legal] at hr
  change r ∈ [(4 : Fin 8)] at hr
  simp only [List.mem_singleton] at hr
  subst hr
  exact absurd hm.2 (by decide)

theorem G7_noMateInOne : NoMateInOne G7 0 := by
  intro m hm hmated
  rw [G7_legal] at hm
  have hnil := hmated.1
  rw [G7_legal] at hnil
  change m ∈ [(2 : Fin 8), 1] at hm
  simp only [List.mem_cons, List.not_mem_nil, or_false] at hm
  rcases hm with rfl | rfl
  · exact absurd hnil (by decide)
  · exact absurd hnil (by decide)

theorem G7_matedKeysFresh2 : MatedKeysFresh2 G7 0 := by
  intro u r _ hr k q _ hkey
  have : q = G7.play (G7.play 0 u) r := G7_key_inj _ _ hkey
  subst this
  exact .inl hr.2.1

theorem G7_plyKeys : PlyKeys G7 0 := by
  intro u hu hun k q hq hkey
  have hq1 : q = G7.play 0 u := G7_key_inj _ _ hkey
  have hu1 : u = 1 := by
    rw [G7_legal] at hu
    change u ∈ [(2 : Fin 8), 1] at hu
    simp only [List.mem_cons, List.not_mem_nil, or_false] at hu
    rcases hu with rfl | rfl
    · exact absurd hun G7_safe_2.2
    · rfl
  subst hu1
  have hq1' : q = 1 := hq1
  subst hq1'
  refine .inl ⟨at_one_only G7 (fun _ _ => rfl) ?_ ?_ k hq, 3, G7_mates_1_3⟩
  · intro q' h; rw [G7_legal] at h; revert q'; decide
  · intro q' h; rw [G7_legal] at h; revert q'; decide

def r7 := search {} G7 0 (some 2) {}

/-- info: ([1, 2], some 1, some 0) -/
#guard_msgs in
#eval (r7.infos.map (·.depth), r7.st.bestMove, r7.st.bestScore)

/-- `avoidable_mate_avoided_no_noDraw_statement` fails, given the run displayed by the `#eval` above -/
theorem avoid_without_noDraw_refuted (hrun : (∃ i ∈ r7.infos, i.depth ≥ 2) ∧ r7.st.bestMove = some 1) :
    ¬ avoidable_mate_avoided_no_noDraw_statement := by
  intro h
  obtain ⟨m, h1, h2⟩ := h (Fin 8) (Fin 8) {} G7 0 (some 2) monoClock_default rfl G7_evalBounded G7_keyMate
    G7_plyKeys G7_matedKeysFresh2 G7_noMateInOne ⟨2, G7_safe_2⟩ hrun.1
  have h1' : r7.st.bestMove = some m := h1
  rw [hrun.2] at h1'
  cases h1'
  exact G7_unsafe_1 h2

/-! ### a writing node with the key of the mated grandchild

0 = root: 2, 1.  1 → 3, and 3 is mated.  2 → 5, 4;  5 → 6 → 7 with 7 mated (5 is lost, in two), 4 has no move (no check); the
evaluation of 6 is −100 for the side to move.  Position 5 has the key of position 3: `KeyMate` holds (both are lost).
Depth 3: position 5, searched to depth 1, does not see the mate and stores `⟨100, exact, depth 1⟩` under the key of 3; the
move 2 scores 0.  Then the move 1: the probe of the mated position 3 returns 100, position 1 "loses 100", the move 1
scores 100 (1 after the null-window search) and is reported. -/

def mv8 : Fin 8 → List (Fin 8) :=
  fun p => match p with | 0 => [2, 1] | 1 => [3] | 2 => [5, 4] | 5 => [6] | 6 => [7] | _ => []
def G8 : Game (Fin 8) (Fin 8) :=
  { mkGame mv8 (fun p => p == 3 || p == 7) with
    key := fun p => if p = 5 then 3 else UInt64.ofNat p.val, eval := fun p => if p = 6 then -100 else 0 }

theorem G8_legal (q : Fin 8) : legalMovesOf G8 q = mv8 q := by
  show (mv8 q).filter (fun _ => true) = mv8 q
  simp

theorem G8_key_cases : ∀ p q : Fin 8, G8.key p = G8.key q → p = q ∨ (p = 3 ∧ q = 5) ∨ (p = 5 ∧ q = 3) := by
  show ∀ p q : Fin 8, (if p = 5 then (3 : UInt64) else UInt64.ofNat p.val) = (if q = 5 then 3 else UInt64.ofNat q.val) →
    p = q ∨ (p = 3 ∧ q = 5) ∨ (p = 5 ∧ q = 3)
  decide

theorem G8_lost_3 : Lost G8 3 := Lost.mate (by rw [G8_legal]; rfl) (by decide)
theorem G8_lost_7 : Lost G8 7 := Lost.mate (by rw [G8_legal]; rfl) (by decide)
theorem G8_lost_5 : Lost G8 5 := by
  refine Lost.all (by rw [G8_legal]; exact List.cons_ne_nil _ _) ?_
  intro m hm
  rw [G8_legal] at hm
  change m ∈ [(6 : Fin 8)] at hm
  simp only [List.mem_singleton] at hm
  subst hm
  exact Won.some (7 : Fin 8) (by rw [G8_legal]; exact List.mem_singleton.2 rfl) G8_lost_7

theorem G8_keyMate : KeyMate G8 := by
  intro p q h
  rcases G8_key_cases p q h with rfl | ⟨rfl, rfl⟩ | ⟨rfl, rfl⟩
  · exact ⟨id, id⟩
  · exact ⟨fun w => absurd w (SearchMateOne.not_won_of_lost G8_lost_3), fun _ => G8_lost_5⟩
  · exact ⟨fun w => absurd w (SearchMateOne.not_won_of_lost G8_lost_5), fun _ => G8_lost_3⟩

theorem G8_evalBounded : EvalBoundedFrom G8 0 := by
  intro q _
  show (-32511 : Int) ≤ (if q = 6 then -100 else 0) ∧ (if q = 6 then (-100 : Int) else 0) ≤ 32511
  split <;> omega

theorem G8_not_drawn (q : Fin 8) : ¬ Drawn G8 q := fun h => h.elim Bool.false_ne_true Bool.false_ne_true

theorem G8_mates_1_3 : Mates G8 1 3 :=
  ⟨by rw [G8_legal]; exact List.mem_singleton.2 rfl, by rw [G8_legal]; rfl, by decide⟩

theorem G8_unsafe_1 : ¬ Safe G8 0 1 := fun h => h.2 ⟨3, G8_mates_1_3⟩

theorem G8_safe_2 : Safe G8 0 2 := by
  refine ⟨by rw [G8_legal]; exact List.mem_cons_self, ?_⟩
  rintro ⟨r, hr, hm⟩
  rw [G8_legal] at hr
  change r ∈ [(5 : Fin 8), 4] at hr
  simp only [List.mem_cons, List.not_mem_nil, or_false] at hr
  rcases hr with rfl | rfl
  · have := hm.1
    rw [G8_legal] at this
    exact absurd this (by decide)
  · exact absurd hm.2 (by decide)

theorem G8_noMateInOne : NoMateInOne G8 0 := by
  intro m hm hmated
  rw [G8_legal] at hm
  have hnil := hmated.1
  rw [G8_legal] at hnil
  change m ∈ [(2 : Fin 8), 1] at hm
  simp only [List.mem_cons, List.not_mem_nil, or_false] at hm
  rcases hm with rfl | rfl
  · exact absurd hnil (by decide)
  · exact absurd hnil (by decide)

theorem G8_plyKeys : PlyKeys G8 0 := by
  intro u hu hun k q hq hkey
  have hu1 : u = 1 := by
    rw [G8_legal] at hu
    change u ∈ [(2 : Fin 8), 1] at hu
    simp only [List.mem_cons, List.not_mem_nil, or_false] at hu
    rcases hu with rfl | rfl
    · exact absurd hun G8_safe_2.2
    · rfl
  subst hu1
  have hq1 : q = 1 := by
    have hkey' : G8.key q = G8.key 1 := hkey
    rcases G8_key_cases q 1 hkey' with h | ⟨_, h⟩ | ⟨_, h⟩
    · exact h
    · exact absurd h (by decide)
    · exact absurd h (by decide)
  subst hq1
  refine .inl ⟨at_one_only G8 (fun _ _ => rfl) ?_ ?_ k hq, 3, G8_mates_1_3⟩
  · intro q' h; rw [G8_legal] at h; revert q'; decide
  · intro q' h; rw [G8_legal] at h; revert q'; decide

theorem G8_noDraw : NoDrawAtMate2 G8 0 := fun _ _ _ _ => ⟨G8_not_drawn _, G8_not_drawn _⟩

def r8 := search {} G8 0 (some 3) {}

/--
info: ([1, 2, 3],
 some 1,
 some 100,
 [(0, 100, 3, RCE.Search.Bound.exact, 1),
  (1, -100, 2, RCE.Search.Bound.exact, 3),
  (2, 0, 2, RCE.Search.Bound.exact, 4),
  (3, 100, 1, RCE.Search.Bound.exact, 6)])
-/
#guard_msgs in
#eval (r8.infos.map (·.depth), r8.st.bestMove, r8.st.bestScore,
  r8.st.tt.toList.map (fun (k, e) => (k, e.score, e.depth, e.bound, e.best)))

/-- `avoidable_mate_avoided_no_fresh_statement` fails, given the run displayed by the `#eval` above -/
theorem avoid_without_fresh_refuted (hrun : (∃ i ∈ r8.infos, i.depth ≥ 2) ∧ r8.st.bestMove = some 1) :
    ¬ avoidable_mate_avoided_no_fresh_statement := by
  intro h
  obtain ⟨m, h1, h2⟩ := h (Fin 8) (Fin 8) {} G8 0 (some 3) monoClock_default rfl G8_evalBounded G8_keyMate
    G8_plyKeys G8_noDraw G8_noMateInOne ⟨2, G8_safe_2⟩ hrun.1
  have h1' : r8.st.bestMove = some m := h1
  rw [hrun.2] at h1'
  cases h1'
  exact G8_unsafe_1 h2

end Counter2

end RCE.Proofs.SearchMateAvoid

#print axioms RCE.Proofs.SearchMateAvoid.avoidable_mate_avoided
#print axioms RCE.Proofs.SearchMateAvoid.avoidInv_preserved
#print axioms RCE.Proofs.SearchMateAvoid.avoidable_mate_answered
#print axioms RCE.Proofs.SearchMateAvoid.avoidable_mate_avoided_again
#print axioms RCE.Proofs.SearchMateAvoid.avoidable_mate_avoided_first
#print axioms RCE.Proofs.SearchMateAvoid.avoidInv_empty
#print axioms RCE.Proofs.SearchMateAvoid.avoidable_mate_avoided_first_any
#print axioms RCE.Proofs.SearchMateAvoid.Counter.avoid_without_plyKeys_refuted
#print axioms RCE.Proofs.SearchMateAvoid.Counter.avoid_clean_refuted
#print axioms RCE.Proofs.SearchMateAvoid.Counter.G5_not_plyKeys
#print axioms RCE.Proofs.SearchMateAvoid.Counter2.avoid_without_noDraw_refuted
#print axioms RCE.Proofs.SearchMateAvoid.Counter2.avoid_without_fresh_refuted
