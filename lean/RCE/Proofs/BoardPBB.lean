import RCE.Proofs.BoardBits
import RCE.Proofs.BoardWF
/-! `PieceBitboards` under its invariant: `pieceAt` is the bit test of the twelve boards, and
    `addPiece` / `removePiece` are point updates of the mailbox view. -/
namespace RCE.Proofs.BoardPBB
open RCE RCE.Proofs.BoardBits RCE.Proofs.BoardWF

/-- a square of the board -/
def IR (s : Square) : Prop := s.rank < 8 ∧ s.file < 8

instance (s : Square) : Decidable (IR s) := by unfold IR; infer_instance

set_option maxRecDepth 100000 in
theorem mask_fin : ∀ r f : Fin 8, Square.mask ⟨r.val, f.val⟩ = bit (r.val * 8 + f.val) := by decide +kernel

theorem mask_eq (s : Square) (h : IR s) : s.mask = bit s.idx := by
  obtain ⟨r, f⟩ := s
  exact mask_fin ⟨r, h.1⟩ ⟨f, h.2⟩

theorem idx_lt (s : Square) (h : IR s) : s.idx < 64 := by
  unfold Square.idx; unfold IR at h; omega

theorem get_set (p : PBB) (k j : Kind) (v : BB) : (p.set k v).get j = if j = k then v else p.get j := by
  rcases k with ⟨pk, c⟩; rcases j with ⟨pk', c'⟩
  cases pk <;> cases c <;> cases pk' <;> cases c' <;> rfl

theorem get_recompute (p : PBB) (c : Color) (j : Kind) : (p.recompute c).get j = p.get j := by
  rcases j with ⟨pk', c'⟩
  cases c <;> cases pk' <;> cases c' <;> rfl

def has (p : PBB) (k : Kind) (i : Nat) : Bool := testBit (p.get k) i


def pick (w bl : Bool) (f : Kind → Bool) : Except Unit (Option Kind) :=
  if w then
    if f ⟨.pawn, .white⟩ then .ok (some ⟨.pawn, .white⟩)
    else if f ⟨.king, .white⟩ then .ok (some ⟨.king, .white⟩)
    else if f ⟨.queen, .white⟩ then .ok (some ⟨.queen, .white⟩)
    else if f ⟨.rook, .white⟩ then .ok (some ⟨.rook, .white⟩)
    else if f ⟨.knight, .white⟩ then .ok (some ⟨.knight, .white⟩)
    else if f ⟨.bishop, .white⟩ then .ok (some ⟨.bishop, .white⟩)
    else .error ()
  else if bl then
    if f ⟨.pawn, .black⟩ then .ok (some ⟨.pawn, .black⟩)
    else if f ⟨.king, .black⟩ then .ok (some ⟨.king, .black⟩)
    else if f ⟨.queen, .black⟩ then .ok (some ⟨.queen, .black⟩)
    else if f ⟨.rook, .black⟩ then .ok (some ⟨.rook, .black⟩)
    else if f ⟨.knight, .black⟩ then .ok (some ⟨.knight, .black⟩)
    else if f ⟨.bishop, .black⟩ then .ok (some ⟨.bishop, .black⟩)
    else .error ()
  else .ok none

theorem pieceAt?_eq (p : PBB) (s : Square) (h : IR s) :
    p.pieceAt? s = pick (testBit p.white s.idx) (testBit p.black s.idx) (fun k => has p k s.idx) := by
  have hi := idx_lt s h
  simp only [PBB.pieceAt?, mask_eq s h, bit_and_ne_zero _ _ hi]
  rfl

theorem pick_some (w bl : Bool) (f : Kind → Bool) (k : Kind) (h : pick w bl f = .ok (some k)) : f k = true := by
  unfold pick at h
  repeat' split at h
  all_goals first | (injection h with h; injection h with h; subst h; assumption) | (simp at h)

/-- with the unions being the unions, the cascade never falls through -/
theorem pick_total (w bl : Bool) (f : Kind → Bool)
    (hw : w = (f ⟨.pawn, .white⟩ || f ⟨.knight, .white⟩ || f ⟨.bishop, .white⟩ || f ⟨.rook, .white⟩ || f ⟨.queen, .white⟩ || f ⟨.king, .white⟩))
    (hb : bl = (f ⟨.pawn, .black⟩ || f ⟨.knight, .black⟩ || f ⟨.bishop, .black⟩ || f ⟨.rook, .black⟩ || f ⟨.queen, .black⟩ || f ⟨.king, .black⟩)) :
    (∃ k, pick w bl f = .ok (some k)) ∨ (pick w bl f = .ok none ∧ ∀ k, f k = false) := by
  unfold pick
  repeat' split
  all_goals first
    | (left; exact ⟨_, rfl⟩)
    | (exfalso; simp_all; done)
    | (right; refine ⟨rfl, ?_⟩; rintro ⟨pk, c⟩; cases pk <;> cases c <;> simp_all)

theorem has_disjoint (p : PBB) (hw : PBB.WF p) (i : Nat) (hi : i < 64) (k k' : Kind)
    (h : has p k i = true) (h' : has p k' i = true) : k = k' := by
  by_cases e : k = k'
  · exact e
  · have := (eq_zero_iff _).mp (hw.disjoint k k' e) i hi
    rw [testBit_and _ _ _ hi] at this
    unfold has at h h'
    rw [h, h'] at this
    simp at this

theorem white_bits (p : PBB) (hw : PBB.WF p) (i : Nat) (hi : i < 64) :
    testBit p.white i = (has p ⟨.pawn, .white⟩ i || has p ⟨.knight, .white⟩ i || has p ⟨.bishop, .white⟩ i
      || has p ⟨.rook, .white⟩ i || has p ⟨.queen, .white⟩ i || has p ⟨.king, .white⟩ i) := by
  rw [hw.white]; simp only [testBit_or _ _ _ hi]; rfl

theorem black_bits (p : PBB) (hw : PBB.WF p) (i : Nat) (hi : i < 64) :
    testBit p.black i = (has p ⟨.pawn, .black⟩ i || has p ⟨.knight, .black⟩ i || has p ⟨.bishop, .black⟩ i
      || has p ⟨.rook, .black⟩ i || has p ⟨.queen, .black⟩ i || has p ⟨.king, .black⟩ i) := by
  rw [hw.black]; simp only [testBit_or _ _ _ hi]; rfl

theorem pieceAt_cases (p : PBB) (hw : PBB.WF p) (s : Square) (h : IR s) :
    (∃ k, p.pieceAt s = some k ∧ has p k s.idx = true) ∨ (p.pieceAt s = none ∧ ∀ k, has p k s.idx = false) := by
  have hi := idx_lt s h
  rcases pick_total _ _ (fun k => has p k s.idx) (white_bits p hw _ hi) (black_bits p hw _ hi) with ⟨k, hk⟩ | ⟨h1, h2⟩
  · left; refine ⟨k, ?_, pick_some _ _ _ _ hk⟩
    unfold PBB.pieceAt; rw [pieceAt?_eq p s h, hk]
  · right; refine ⟨?_, h2⟩
    unfold PBB.pieceAt; rw [pieceAt?_eq p s h, h1]

theorem pieceAt_iff (p : PBB) (hw : PBB.WF p) (s : Square) (h : IR s) (k : Kind) :
    p.pieceAt s = some k ↔ has p k s.idx = true := by
  have hi := idx_lt s h
  rcases pieceAt_cases p hw s h with ⟨k', h1, h2⟩ | ⟨h1, h2⟩
  · rw [h1]; constructor
    · intro e; injection e with e; subst e; exact h2
    · intro e; rw [has_disjoint p hw _ hi _ _ h2 e]
  · rw [h1, h2 k]; simp

theorem pieceAt_none_iff (p : PBB) (hw : PBB.WF p) (s : Square) (h : IR s) :
    p.pieceAt s = none ↔ ∀ k, has p k s.idx = false := by
  rcases pieceAt_cases p hw s h with ⟨k', h1, h2⟩ | ⟨h1, h2⟩
  · rw [h1]; constructor
    · intro e; cases e
    · intro e; rw [e k'] at h2; cases h2
  · rw [h1]; simp [h2]

theorem opt_ext {α} (a b : Option α) (h : ∀ j, a = some j ↔ b = some j) : a = b := by
  cases a with
  | none => cases b with
    | none => rfl
    | some y => exact ((h y).mpr rfl).symm ▸ rfl
  | some x => exact ((h x).mp rfl).symm

theorem wf_of_set (p : PBB) (hw : PBB.WF p) (k : Kind) (v : BB) (hd : ∀ j, j ≠ k → v &&& p.get j = 0) :
    PBB.WF ((p.set k v).recompute k.color) := by
  refine ⟨?_, ?_, ?_, ?_⟩
  · intro j j' hjj
    rw [get_recompute, get_recompute, get_set, get_set]
    by_cases h1 : j = k
    · have h2 : ¬ j' = k := fun e => hjj (h1.trans e.symm)
      rw [if_pos h1, if_neg h2]; exact hd j' h2
    · rw [if_neg h1]
      by_cases h2 : j' = k
      · rw [if_pos h2, UInt64.and_comm]; exact hd j h1
      · rw [if_neg h2]; exact hw.disjoint j j' hjj
  · rcases k with ⟨pk, c⟩; cases pk <;> cases c <;> first | rfl | exact hw.white
  · rcases k with ⟨pk, c⟩; cases pk <;> cases c <;> first | rfl | exact hw.black
  · rcases k with ⟨pk, c⟩; cases pk <;> cases c <;> rfl

theorem has_set (p : PBB) (k j : Kind) (v : BB) (i : Nat) :
    has ((p.set k v).recompute k.color) j i = if j = k then testBit v i else has p j i := by
  unfold has; rw [get_recompute, get_set]; split <;> rfl

theorem idx_inj (s s' : Square) (h : IR s) (h' : IR s') (e : s.idx = s'.idx) : s = s' := by
  obtain ⟨r, f⟩ := s; obtain ⟨r', f'⟩ := s'
  simp only [Square.idx, IR] at *
  have : r = r' := by omega
  have : f = f' := by omega
  subst_vars; rfl

theorem remove_ok (p : PBB) (hw : PBB.WF p) (s : Square) (h : IR s) (k : Kind) (hk : p.pieceAt s = some k) :
    PBB.WF (p.removePiece s k) ∧
    ∀ s', IR s' → (p.removePiece s k).pieceAt s' = if s' = s then none else p.pieceAt s' := by
  have hi := idx_lt s h
  have hks := (pieceAt_iff p hw s h k).mp hk
  have hwq : PBB.WF (p.removePiece s k) := by
    apply wf_of_set p hw
    intro j hj
    apply (eq_zero_iff _).mpr; intro i hi'
    have := (eq_zero_iff _).mp (hw.disjoint k j (Ne.symm hj)) i hi'
    rw [testBit_and _ _ _ hi'] at this
    rw [testBit_and _ _ _ hi', testBit_and _ _ _ hi']
    cases h1 : testBit (p.get k) i <;> cases h2 : testBit (p.get j) i <;> simp_all
  refine ⟨hwq, ?_⟩
  intro s' h'
  have hi' := idx_lt s' h'
  apply opt_ext; intro j
  rw [pieceAt_iff _ hwq s' h' j]
  unfold PBB.removePiece
  rw [has_set, mask_eq s h]
  by_cases e : s' = s
  · subst e
    rw [if_pos rfl]
    by_cases ej : j = k
    · subst ej; simp [testBit_and, testBit_not, testBit_bit, hi]
    · rw [if_neg ej]
      constructor
      · intro hj; exact absurd (has_disjoint p hw _ hi _ _ hj hks) ej
      · intro hj; cases hj
  · rw [if_neg e, pieceAt_iff p hw s' h' j]
    have hne : s'.idx ≠ s.idx := fun ee => e (idx_inj _ _ h' h ee)
    by_cases ej : j = k
    · subst ej; simp [testBit_and, testBit_not, testBit_bit, hi, hi', hne, has]
    · rw [if_neg ej]

theorem add_ok (p : PBB) (hw : PBB.WF p) (s : Square) (h : IR s) (k : Kind) (hk : p.pieceAt s = none) :
    PBB.WF (p.addPiece s k) ∧
    ∀ s', IR s' → (p.addPiece s k).pieceAt s' = if s' = s then some k else p.pieceAt s' := by
  have hi := idx_lt s h
  have hks := (pieceAt_none_iff p hw s h).mp hk
  have hwq : PBB.WF (p.addPiece s k) := by
    apply wf_of_set p hw
    intro j hj
    apply (eq_zero_iff _).mpr; intro i hi'
    have := (eq_zero_iff _).mp (hw.disjoint k j (Ne.symm hj)) i hi'
    rw [testBit_and _ _ _ hi'] at this
    rw [testBit_and _ _ _ hi', testBit_or _ _ _ hi', mask_eq s h, testBit_bit _ _ hi' hi]
    by_cases e : i = s.idx
    · subst e; have := hks j; unfold has at this; rw [this]; simp
    · simp [e]; simpa using this
  refine ⟨hwq, ?_⟩
  intro s' h'
  have hi' := idx_lt s' h'
  apply opt_ext; intro j
  rw [pieceAt_iff _ hwq s' h' j]
  unfold PBB.addPiece
  rw [has_set, mask_eq s h]
  by_cases e : s' = s
  · subst e
    rw [if_pos rfl]
    by_cases ej : j = k
    · subst ej; simp [testBit_or, testBit_bit, hi]
    · rw [if_neg ej, hks j]
      constructor
      · intro hj; cases hj
      · intro hj; injection hj with hj; exact absurd hj.symm ej
  · rw [if_neg e, pieceAt_iff p hw s' h' j]
    have hne : s'.idx ≠ s.idx := fun ee => e (idx_inj _ _ h' h ee)
    by_cases ej : j = k
    · subst ej; simp [testBit_or, testBit_bit, hi, hi', hne, has]
    · rw [if_neg ej]

theorem ofIdx_IR (i : Nat) (h : i < 64) : IR (Square.ofIdx i) := by
  unfold IR Square.ofIdx; simp only; omega
theorem ofIdx_idx (i : Nat) : (Square.ofIdx i).idx = i := by
  unfold Square.ofIdx Square.idx; simp only; omega
theorem ofIdx_of_idx (s : Square) (h : IR s) : Square.ofIdx s.idx = s := by
  apply idx_inj _ _ (ofIdx_IR _ (idx_lt s h)) h; exact ofIdx_idx _

theorem pbb_ext (p q : PBB) (hp : PBB.WF p) (hq : PBB.WF q)
    (h : ∀ s, IR s → p.pieceAt s = q.pieceAt s) : p = q := by
  have e : ∀ k, p.get k = q.get k := by
    intro k; apply eq_of_testBit; intro i hi
    have hs := ofIdx_IR i hi
    have h1 := pieceAt_iff p hp _ hs k
    have h2 := pieceAt_iff q hq _ hs k
    rw [h _ hs, ofIdx_idx] at h1
    rw [ofIdx_idx] at h2
    unfold has at h1 h2
    rw [Bool.eq_iff_iff]; exact h1.symm.trans h2
  have e1 : p.wp = q.wp := e ⟨.pawn, .white⟩
  have e2 : p.wk = q.wk := e ⟨.king, .white⟩
  have e3 : p.wq = q.wq := e ⟨.queen, .white⟩
  have e4 : p.wr = q.wr := e ⟨.rook, .white⟩
  have e5 : p.wb = q.wb := e ⟨.bishop, .white⟩
  have e6 : p.wn = q.wn := e ⟨.knight, .white⟩
  have f1 : p.bp = q.bp := e ⟨.pawn, .black⟩
  have f2 : p.bk = q.bk := e ⟨.king, .black⟩
  have f3 : p.bq = q.bq := e ⟨.queen, .black⟩
  have f4 : p.br = q.br := e ⟨.rook, .black⟩
  have f5 : p.bb = q.bb := e ⟨.bishop, .black⟩
  have f6 : p.bn = q.bn := e ⟨.knight, .black⟩
  have g1 : p.white = q.white := by rw [hp.white, hq.white, e1, e2, e3, e4, e5, e6]
  have g2 : p.black = q.black := by rw [hp.black, hq.black, f1, f2, f3, f4, f5, f6]
  have g3 : p.all = q.all := by rw [hp.all, hq.all, g1, g2]
  cases p; cases q; simp only [PBB.mk.injEq]
  exact ⟨e1, e2, e3, e4, e5, e6, f1, f2, f3, f4, f5, f6, g1, g2, g3⟩

end RCE.Proofs.BoardPBB
