import RCE.Proofs.SearchDefs
/-! Basic lemmas for C11: saturating negation, the abort check of an unlimited search, the move
    orderer yields a permutation, `maxList`, value ranges of the minimax spec. -/
namespace RCE.Proofs.SearchNegamax
open RCE.Search RCE.Proofs.SearchDefs

variable {P M : Type} [DecidableEq M]
set_option linter.unusedSectionVars false

/-! ### saturating negation -/

theorem satNeg_cases (x : Int) :
    (x ≤ -32768 ∧ satNeg x = 32767) ∨ (-32767 ≤ x ∧ x ≤ 32768 ∧ satNeg x = -x) ∨ (32769 ≤ x ∧ satNeg x = -32768) := by
  unfold satNeg satI16 MAXS MINS
  split
  · left; omega
  · split
    · right; right; omega
    · right; left; omega

theorem satNeg_eq_neg {x : Int} (h1 : -32767 ≤ x) (h2 : x ≤ 32767) : satNeg x = -x := by
  rcases satNeg_cases x with h | h | h <;> omega

theorem satNeg_le (x : Int) : satNeg x ≤ 32767 := by
  rcases satNeg_cases x with h | h | h <;> omega

theorem satNeg_ge (x : Int) : -32768 ≤ satNeg x := by
  rcases satNeg_cases x with h | h | h <;> omega

/-! ### the abort check when nothing limits the search -/

theorem abortCheck_unlimited {env : Env} (hu : Unlimited env) (st : St M) (hr : st.running = true) :
    ∃ st', abortCheck env st = (decide (st.ply = 255), st') ∧ st'.running = true ∧ st'.ply = st.ply ∧
      st'.bestScore = st.bestScore ∧ st'.bestMove = st.bestMove := by
  obtain ⟨h1, h2, h3, h4⟩ := hu
  by_cases hp : st.ply = 255
  · refine ⟨{ st with polls := st.polls + 1, running := st.running }, ?_, hr, rfl, rfl, rfl⟩
    simp [abortCheck, poll, h4, hr, hp]
  · refine ⟨{ st with polls := st.polls + 1, running := st.running, clockReads := st.clockReads + 1 }, ?_, hr, rfl, rfl, rfl⟩
    simp [abortCheck, poll, limitsExceeded, h1, h2, h3, h4, hr, hp]

/-! ### the move orderer yields a permutation -/

theorem perm_set_swap {α : Type} (h x : α) : ∀ (t : List α) (i : Nat), t[i]? = some x →
    List.Perm (x :: t.set i h) (h :: t)
  | [], i, hx => by simp at hx
  | y :: t, 0, hx => by
    simp at hx; subst hx
    simpa using List.Perm.swap h y t
  | y :: t, i + 1, hx => by
    simp at hx
    have ih := perm_set_swap h x t i hx
    simp only [List.set_cons_succ]
    exact (List.Perm.swap y x _).trans (((ih.cons y)).trans (List.Perm.swap h y t))

theorem orderAux_perm : ∀ (n : Nat) (l : List (M × Nat)), l.length = n →
    List.Perm (orderAux n l) (l.map Prod.fst)
  | 0, l, h => by
    have : l = [] := List.eq_nil_of_length_eq_zero h
    subst this; simp [orderAux]
  | n + 1, [], h => by simp at h
  | n + 1, hd :: t, h => by
    have ht : t.length = n := by simpa using h
    simp only [orderAux]
    split
    · simpa using (orderAux_perm n t ht)
    · split
      · rename_i x hx
        have ih := orderAux_perm n (t.set (firstMaxIdx (hd :: t) - 1) hd) (by simpa using ht)
        have hp := perm_set_swap hd x t _ hx
        have := (ih.cons x.1).trans (by simpa using hp.map Prod.fst)
        simpa using this
      · simpa using (orderAux_perm n t ht)

theorem orderMoves_perm (G : Game P M) (ttMove : Option M) (k : Option M × Option M) (ms : List M) :
    List.Perm (orderMoves G ttMove k ms) ms := by
  unfold orderMoves
  have := orderAux_perm ms.length (ms.map fun m => (m, scoreMove G ttMove k m)) (by simp)
  simpa [List.map_map, Function.comp_def] using this

/-! ### `maxList` -/

theorem maxList_nil (a : Int) : maxList a [] = a := rfl
theorem maxList_cons (a x : Int) (l : List Int) : maxList a (x :: l) = maxList (max a x) l := rfl

theorem maxList_perm {l l' : List Int} (h : List.Perm l l') : ∀ a, maxList a l = maxList a l' := by
  induction h with
  | nil => intro a; rfl
  | cons x _ ih => intro a; simp only [maxList_cons]; exact ih _
  | swap x y l =>
    intro a; simp only [maxList_cons]
    have : max (max a y) x = max (max a x) y := by omega
    rw [this]
  | trans _ _ ih1 ih2 => intro a; exact (ih1 a).trans (ih2 a)

theorem maxList_ge (l : List Int) : ∀ a, a ≤ maxList a l := by
  induction l with
  | nil => intro a; simp [maxList_nil]
  | cons x l ih => intro a; simp only [maxList_cons]; have := ih (max a x); omega

theorem maxList_max (l : List Int) : ∀ a b, maxList (max a b) l = max a (maxList b l) := by
  induction l with
  | nil => intro a b; rfl
  | cons x l ih =>
    intro a b; simp only [maxList_cons]
    have : max (max a b) x = max a (max b x) := by omega
    rw [this]; exact ih _ _

theorem maxList_le (l : List Int) (c : Int) (hl : ∀ x ∈ l, x ≤ c) : ∀ a, a ≤ c → maxList a l ≤ c := by
  induction l with
  | nil => intro a h; simpa [maxList_nil] using h
  | cons x l ih =>
    intro a h; simp only [maxList_cons]
    have hx := hl x List.mem_cons_self
    exact ih (fun y hy => hl y (List.mem_cons_of_mem _ hy)) _ (by omega)

theorem maxList_ge_mem (l : List Int) : ∀ a, ∀ x ∈ l, x ≤ maxList a l := by
  induction l with
  | nil => intro a x hx; simp at hx
  | cons y l ih =>
    intro a x hx; simp only [maxList_cons]
    rcases List.mem_cons.1 hx with h | h
    · subst h; have := maxList_ge l (max a x); omega
    · exact ih _ x h

/-! ### reachability and evaluation bounds -/

theorem reach_trans {G : Game P M} {p q r : P} (h1 : Reach G p q) (h2 : Reach G q r) : Reach G p r := by
  induction h2 with
  | refl => exact h1
  | step _ hm ih => exact Reach.step ih hm

theorem evalBounded_step {G : Game P M} {p : P} (h : EvalBoundedFrom G p) {m : M} (hm : m ∈ G.allMoves p) :
    EvalBoundedFrom G (G.play p m) :=
  fun q hq => h q (reach_trans (Reach.step Reach.refl hm) hq)

theorem mem_legalMovesOf {G : Game P M} {p : P} {m : M} :
    m ∈ legalMovesOf G p ↔ m ∈ G.allMoves p ∧ G.legal p m = true := by
  simp [legalMovesOf]

/-! ### value ranges -/

theorem nmQuiesce_range (G : Game P M) : ∀ (fuel : Nat) (p : P) (ply : Nat), EvalBoundedFrom G p →
    -32767 ≤ nmQuiesce G fuel p ply ∧ nmQuiesce G fuel p ply ≤ 32767
  | 0, p, ply, _ => by simp [nmQuiesce]
  | fuel + 1, p, ply, he => by
    simp only [nmQuiesce]
    split
    · omega
    · have hev := he p Reach.refl
      constructor
      · have := maxList_ge (((legalMovesOf G p).filter G.isCapture).map fun m => - nmQuiesce G fuel (G.play p m) (ply + 1)) (G.eval p)
        omega
      · apply maxList_le _ _ _ _ (by omega)
        intro x hx
        simp only [List.mem_map, List.mem_filter] at hx
        obtain ⟨m, ⟨hm, _⟩, rfl⟩ := hx
        have := nmQuiesce_range G fuel (G.play p m) (ply + 1) (evalBounded_step he (mem_legalMovesOf.1 hm).1)
        omega

/-- `negamax` one level unfolded, with the check extension named -/
theorem negamax_succ (G : Game P M) (fuel : Nat) (p : P) (depth ply : Nat) (dep : Nat)
    (hdep : dep = if G.inCheck p = true then depth + 1 else depth) :
    negamax G (fuel + 1) p depth ply =
      if ply = 255 then 0 else
      if (G.fifty p || G.repeated p) = true then 0 else
      if dep = 0 then nmQuiesce G (fuel + 1) p ply else
      if (legalMovesOf G p).isEmpty = true then (if G.inCheck p = true then MINS + ply else 0) else
      maxList MINS ((legalMovesOf G p).map fun m => - negamax G fuel (G.play p m) (dep - 1) (ply + 1)) := by
  subst hdep
  rw [negamax]
  cases legalMovesOf G p <;> simp

theorem negamax_range (G : Game P M) : ∀ (fuel : Nat) (p : P) (depth ply : Nat), EvalBoundedFrom G p →
    1 ≤ ply → ply ≤ 255 →
    -32767 ≤ negamax G fuel p depth ply ∧ negamax G fuel p depth ply ≤ 32767
  | 0, p, depth, ply, _, _, _ => by simp [negamax]
  | fuel + 1, p, depth, ply, he, h1, h2 => by
    rw [negamax_succ G fuel p depth ply _ rfl]
    generalize (if G.inCheck p = true then depth + 1 else depth) = dep
    split
    · omega
    · split
      · omega
      · split
        · exact nmQuiesce_range G _ p ply he
        · split
          · split
            · simp only [MINS]; omega
            · omega
          · rename_i hne
            have hmem : ∀ x ∈ (legalMovesOf G p).map (fun m => - negamax G fuel (G.play p m) (dep - 1) (ply + 1)),
                -32767 ≤ x ∧ x ≤ 32767 := by
              intro x hx
              simp only [List.mem_map] at hx
              obtain ⟨m, hm, rfl⟩ := hx
              have := negamax_range G fuel (G.play p m) (dep - 1) (ply + 1)
                (evalBounded_step he (mem_legalMovesOf.1 hm).1) (by omega) (by omega)
              omega
            constructor
            · cases hl : legalMovesOf G p with
              | nil => simp [hl] at hne
              | cons m ms' =>
                rw [hl] at hmem
                have hx := (hmem _ List.mem_cons_self).1
                simp only [] at hx
                have := maxList_ge_mem _ MINS _ (List.mem_cons_self (a := - negamax G fuel (G.play p m) (dep - 1) (ply + 1))
                  (l := ms'.map (fun m => - negamax G fuel (G.play p m) (dep - 1) (ply + 1))))
                simp only [List.map_cons]
                omega
            · exact maxList_le _ _ (fun x hx => (hmem x hx).2) _ (by unfold MINS; omega)

end RCE.Proofs.SearchNegamax
