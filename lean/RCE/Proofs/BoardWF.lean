import RCE.Model.Board
import RCE.Model.Fen
/-! The representation invariant of `Board` and the board-level lemmas behind C02 / C03 / C04. -/
namespace RCE.Proofs.BoardWF
open RCE

def allKinds : List Kind :=
  [⟨.pawn, .white⟩, ⟨.king, .white⟩, ⟨.queen, .white⟩, ⟨.rook, .white⟩, ⟨.bishop, .white⟩, ⟨.knight, .white⟩,
   ⟨.pawn, .black⟩, ⟨.king, .black⟩, ⟨.queen, .black⟩, ⟨.rook, .black⟩, ⟨.bishop, .black⟩, ⟨.knight, .black⟩]

/-- the twelve piece boards are pairwise disjoint and the three unions are the unions -/
structure PBB.WF (p : PBB) : Prop where
  disjoint : ∀ k k' : Kind, k ≠ k' → p.get k &&& p.get k' = 0
  white : p.white = p.wp ||| p.wn ||| p.wb ||| p.wr ||| p.wq ||| p.wk
  black : p.black = p.bp ||| p.bn ||| p.bb ||| p.br ||| p.bq ||| p.bk
  all : p.all = p.white ||| p.black

/-- a castling right that is still available means the rook stands on its home square.

    (The king is not mentioned here but in `KingsHome`: the invariant has to survive *every* generated move,
    and pseudo-legal generation includes capturing a king that was left in check — after
    `4k2r/8/8/8/8/8/8/4R1K1 w k -`, `Re1xe8` the right `k` is still recorded although e8 holds a white rook.
    So "the king stands on e8" is not an invariant of `make_move` over `get_all_moves`; "no king of that
    colour stands anywhere else" is.) -/
def RightsConsistent (b : Board) : Prop :=
  (b.rights.wk = true → b.pieceAt ⟨0, 7⟩ = some ⟨.rook, .white⟩) ∧
  (b.rights.wq = true → b.pieceAt ⟨0, 0⟩ = some ⟨.rook, .white⟩) ∧
  (b.rights.bk = true → b.pieceAt ⟨7, 7⟩ = some ⟨.rook, .black⟩) ∧
  (b.rights.bq = true → b.pieceAt ⟨7, 0⟩ = some ⟨.rook, .black⟩)

/-- while a side still has a castling right, none of its kings stands off the home square
    (together with "that side has a king" — true of every legal position — this is "the king is on e1 / e8") -/
def KingsHome (b : Board) : Prop :=
  ((b.rights.wk = true ∨ b.rights.wq = true) →
    ∀ s : Square, s.rank < 8 → s.file < 8 → b.pieceAt s = some ⟨.king, .white⟩ → s = ⟨0, 4⟩) ∧
  ((b.rights.bk = true ∨ b.rights.bq = true) →
    ∀ s : Square, s.rank < 8 → s.file < 8 → b.pieceAt s = some ⟨.king, .black⟩ → s = ⟨7, 4⟩)

/-- the en-passant file is the one recorded by the top undo record, the pawn that made the double
    step stands next to the en-passant rank and the square it skipped is empty -/
def EpConsistent (b : Board) : Prop :=
  b.ep = (if b.top.isDoublePush then some b.top.dest.file else none) ∧
  ∀ f, b.ep = some f → f < 8 ∧
    b.pieceAt ⟨if b.turn = .white then 4 else 3, f⟩ = some ⟨.pawn, b.turn.opp⟩ ∧
    b.pieceAt ⟨if b.turn = .white then 5 else 2, f⟩ = none

/-- the representation invariant -/
structure WF (b : Board) : Prop where
  bbs : PBB.WF b.bbs
  hist : b.history ≠ []
  rights : RightsConsistent b
  kings : KingsHome b
  ep : EpConsistent b

end RCE.Proofs.BoardWF
