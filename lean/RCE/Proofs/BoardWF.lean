import RCE.Model.Board
import RCE.Model.Fen
/-! The representation invariant of `Board` and the board-level lemmas behind C02 / C03 / C04. -/
namespace RCE.Proofs.BoardWF
open RCE

def allKinds : List Kind :=
  [⟨.pawn, .white⟩, ⟨.king, .white⟩, ⟨.queen, .white⟩, ⟨.rook, .white⟩, ⟨.bishop, .white⟩, ⟨.knight, .white⟩,
   ⟨.pawn, .black⟩, ⟨.king, .black⟩, ⟨.queen, .black⟩, ⟨.rook, .black⟩, ⟨.bishop, .black⟩, ⟨.knight, .black⟩]

/-- the twelve piece boards are pairwise disjoint and the three unions are the unions -/
structure PBB.WF (p : PBB) : Prop where
  disjoint : ∀ k k' : Kind, k ≠ k' → p.get k &&& p.get k' = 0
  white : p.white = p.wp ||| p.wn ||| p.wb ||| p.wr ||| p.wq ||| p.wk
  black : p.black = p.bp ||| p.bn ||| p.bb ||| p.br ||| p.bq ||| p.bk
  all : p.all = p.white ||| p.black

/-- a castling right that is still available means king and rook stand on their home squares -/
def RightsConsistent (b : Board) : Prop :=
  (b.rights.wk = true → b.pieceAt ⟨0, 4⟩ = some ⟨.king, .white⟩ ∧ b.pieceAt ⟨0, 7⟩ = some ⟨.rook, .white⟩) ∧
  (b.rights.wq = true → b.pieceAt ⟨0, 4⟩ = some ⟨.king, .white⟩ ∧ b.pieceAt ⟨0, 0⟩ = some ⟨.rook, .white⟩) ∧
  (b.rights.bk = true → b.pieceAt ⟨7, 4⟩ = some ⟨.king, .black⟩ ∧ b.pieceAt ⟨7, 7⟩ = some ⟨.rook, .black⟩) ∧
  (b.rights.bq = true → b.pieceAt ⟨7, 4⟩ = some ⟨.king, .black⟩ ∧ b.pieceAt ⟨7, 0⟩ = some ⟨.rook, .black⟩)

/-- the en-passant file is the one recorded by the top undo record, the pawn that made the double
    step stands next to the en-passant rank and the square it skipped is empty -/
def EpConsistent (b : Board) : Prop :=
  b.ep = (if b.top.isDoublePush then some b.top.dest.file else none) ∧
  ∀ f, b.ep = some f → f < 8 ∧
    b.pieceAt ⟨if b.turn = .white then 4 else 3, f⟩ = some ⟨.pawn, b.turn.opp⟩ ∧
    b.pieceAt ⟨if b.turn = .white then 5 else 2, f⟩ = none

/-- the representation invariant -/
structure WF (b : Board) : Prop where
  bbs : PBB.WF b.bbs
  hist : b.history ≠ []
  rights : RightsConsistent b
  ep : EpConsistent b

end RCE.Proofs.BoardWF
