import RCE.Proofs.SearchDefs
import RCE.Proofs.SearchUnfold
/-! Proofs for C14: the `info` lines of the search (depths 1..k, completeness under a pure depth limit,
    legality of every principal variation).

    One pass over the search establishes a frame relation `R env G st st'` between the state a routine
    receives and the state it returns: the ply is restored, `running` is untouched when nothing limits the
    search, and the cache keeps holding generated moves (given `KeyMoves`). -/
namespace RCE.Proofs.SearchInfo
open RCE.Search RCE.Proofs.SearchDefs

variable {P M : Type} [DecidableEq M]
set_option linter.unusedSectionVars false

/-! ### 1. depths of the info lines -/

theorem iterate_depths (env : Env) (G : Game P M) (p : P) (md : Nat) :
    ∀ (fuel d : Nat) (st : St M) (infos : List (InfoLine M)), 1 ≤ d →
      infos.map (·.depth) = List.range' 1 (d - 1) →
      ∃ k, d - 1 ≤ k ∧ k ≤ max (d - 1) md ∧
        (iterate env G p md fuel d st infos).2.map (·.depth) = List.range' 1 k := by
  intro fuel
  induction fuel with
  | zero =>
    intro d st infos _ h
    exact ⟨d - 1, Nat.le_refl _, Nat.le_max_left _ _, by simpa [iterate] using h⟩
  | succ fuel ih =>
    intro d st infos hd h
    simp only [iterate]
    split
    · exact ⟨d - 1, Nat.le_refl _, Nat.le_max_left _ _, h⟩
    · rename_i hle
      rcases hac : abortCheck env (abStart env G p d st) with ⟨a, st'⟩
      simp only
      cases a with
      | true => exact ⟨d - 1, Nat.le_refl _, Nat.le_max_left _ _, by simpa using h⟩
      | false =>
        simp only [Bool.false_eq_true, ↓reduceIte]
        have h' : (infos ++ [infoLine d st' (getPv G st'.tt d p)]).map (·.depth) = List.range' 1 (d + 1 - 1) := by
          rw [List.map_append, h, Nat.add_sub_cancel]
          have : d = (d - 1) + 1 := by omega
          conv => rhs; rw [this, List.range'_concat]
          simp [infoLine]; omega
        obtain ⟨k, hk1, hk2, hk3⟩ := ih (d + 1) st' _ (by omega) h'
        exact ⟨k, by omega, by omega, hk3⟩

theorem info_depths' (env : Env) (G : Game P M) (p : P) (maxDepth : Option Nat) (tt0 : Table M) :
    ∃ k, k ≤ maxDepth.getD 255 ∧ (search env G p maxDepth tt0).infos.map (·.depth) = List.range' 1 k := by
  obtain ⟨k, _, hk2, hk3⟩ := iterate_depths env G p (maxDepth.getD 255) (maxDepth.getD 255) 1 { tt := tt0 } [] (by omega) (by simp)
  refine ⟨k, by simpa using hk2, ?_⟩
  simp only [search]
  exact hk3

/-! ### 2. the frame relation -/

/-- what a routine may do to the parts of the state other than the ply -/
def Q (env : Env) (G : Game P M) (s t : St M) : Prop :=
  (Unlimited env → t.running = s.running) ∧ (KeyMoves G → TableMovesOK G s.tt → TableMovesOK G t.tt)

/-- the frame relation: ply restored, `running` kept (nothing limits the search), cache moves stay generated -/
def R (env : Env) (G : Game P M) (s t : St M) : Prop := t.ply = s.ply ∧ Q env G s t

theorem Q.refl (env : Env) (G : Game P M) (s : St M) : Q env G s s := ⟨fun _ => rfl, fun _ h => h⟩
theorem Q.trans {env : Env} {G : Game P M} {s t u : St M} (h1 : Q env G s t) (h2 : Q env G t u) : Q env G s u :=
  ⟨fun hu => (h2.1 hu).trans (h1.1 hu), fun hk h => h2.2 hk (h1.2 hk h)⟩
theorem R.refl (env : Env) (G : Game P M) (s : St M) : R env G s s := ⟨rfl, Q.refl env G s⟩
theorem R.trans {env : Env} {G : Game P M} {s t u : St M} (h1 : R env G s t) (h2 : R env G t u) : R env G s u :=
  ⟨h2.1.trans h1.1, h1.2.trans h2.2⟩
theorem Q.of_eq {env : Env} {G : Game P M} {s t : St M} (h2 : t.running = s.running) (h3 : t.tt = s.tt) :
    Q env G s t := ⟨fun _ => h2, fun _ h => by rw [h3]; exact h⟩
theorem R.of_eq {env : Env} {G : Game P M} {s t : St M} (h1 : t.ply = s.ply) (h2 : t.running = s.running)
    (h3 : t.tt = s.tt) : R env G s t := ⟨h1, Q.of_eq h2 h3⟩

theorem poll_ply (env : Env) (st : St M) : (poll env st).2.ply = st.ply := rfl
theorem poll_tt (env : Env) (st : St M) : (poll env st).2.tt = st.tt := rfl
theorem poll_running (env : Env) (st : St M) (hu : Unlimited env) :
    (poll env st).2.running = st.running ∧ (poll env st).1 = st.running := by
  simp [poll, hu.2.2.2]

theorem limitsExceeded_ply (env : Env) (st : St M) : (limitsExceeded env st).2.ply = st.ply := by
  unfold limitsExceeded
  repeat' (first | split | dsimp only)
  all_goals rfl
theorem limitsExceeded_tt (env : Env) (st : St M) : (limitsExceeded env st).2.tt = st.tt := by
  unfold limitsExceeded
  repeat' (first | split | dsimp only)
  all_goals rfl
theorem limitsExceeded_unl (env : Env) (st : St M) (hu : Unlimited env) :
    (limitsExceeded env st).2.running = st.running ∧ (limitsExceeded env st).1 = (st.ply == 255) := by
  obtain ⟨h1, h2, h3, _⟩ := hu
  unfold limitsExceeded
  by_cases h : st.ply = 255 <;> simp [h, h1, h2, h3]

theorem abortCheck_ply (env : Env) (st : St M) : (abortCheck env st).2.ply = st.ply := by
  unfold abortCheck
  simp only
  repeat' split
  all_goals simp [limitsExceeded_ply, poll_ply]
theorem abortCheck_tt (env : Env) (st : St M) : (abortCheck env st).2.tt = st.tt := by
  unfold abortCheck
  simp only
  repeat' split
  all_goals simp [limitsExceeded_tt, poll_tt]
theorem abortCheck_unl (env : Env) (st : St M) (hu : Unlimited env) :
    (abortCheck env st).2.running = st.running ∧
      (st.running = true → (abortCheck env st).1 = (st.ply == 255)) := by
  have hp := poll_running env st hu
  have hl := limitsExceeded_unl env (poll env st).2 hu
  unfold abortCheck
  simp only
  repeat' split
  all_goals simp_all [poll_ply]

theorem R_ite {env : Env} {G : Game P M} {s t : St M} {c : Prop} [Decidable c] (h : R env G s t) :
    R env G s (if c then t else s) := by
  split
  · exact h
  · exact R.refl _ _ _

theorem R_abortCheck (env : Env) (G : Game P M) (st : St M) : R env G st (abortCheck env st).2 :=
  ⟨abortCheck_ply env st, fun hu => (abortCheck_unl env st hu).1, fun _ h => by rw [abortCheck_tt]; exact h⟩

theorem tableOK_insert {G : Game P M} {tt : Table M} {p : P} {e : Entry M} (hk : KeyMoves G)
    (h : TableMovesOK G tt) (he : e.best ∈ G.allMoves p) : TableMovesOK G (tt.insert (G.key p) e) := by
  intro q e' hq
  rw [Std.HashMap.getElem?_insert] at hq
  split at hq
  · rename_i heq
    cases hq
    rw [← (hk p q (by simpa using heq)).1]; exact he
  · exact h q e' hq

theorem tableOK_empty (G : Game P M) : TableMovesOK G ({} : Table M) := by
  intro q e hq
  simp at hq

theorem R_insert (env : Env) (G : Game P M) (st : St M) (p : P) (e : Entry M) (site : Nat)
    (he : e.best ∈ G.allMoves p) : R env G st (st.insert (G.key p) e site) :=
  ⟨rfl, fun _ => rfl, fun hk h => tableOK_insert hk h he⟩

theorem R_storeKillers (env : Env) (G : Game P M) (m : M) (st : St M) : R env G st (storeKillers G m st) := by
  unfold storeKillers
  repeat' (first | split | dsimp only)
  all_goals exact R.of_eq rfl rfl rfl

/-! ### 3. the move orderer emits only moves it was given -/

theorem orderAux_mem : ∀ (n : Nat) (l : List (M × Nat)) (m : M), m ∈ orderAux n l → ∃ x ∈ l, x.1 = m := by
  intro n
  induction n with
  | zero => intro l m h; simp [orderAux] at h
  | succ n ih =>
    intro l m h
    cases l with
    | nil => simp [orderAux] at h
    | cons hd t =>
      simp only [orderAux] at h
      split at h
      · rcases List.mem_cons.1 h with h | h
        · exact ⟨hd, List.mem_cons_self, h.symm⟩
        · obtain ⟨x, hx, hxm⟩ := ih t m h
          exact ⟨x, List.mem_cons_of_mem _ hx, hxm⟩
      · split at h
        · rename_i x hx
          rcases List.mem_cons.1 h with h | h
          · exact ⟨x, List.mem_cons_of_mem _ (List.mem_of_getElem? hx), h.symm⟩
          · obtain ⟨y, hy, hym⟩ := ih _ m h
            rcases List.mem_or_eq_of_mem_set hy with hy | hy
            · exact ⟨y, List.mem_cons_of_mem _ hy, hym⟩
            · exact ⟨hd, List.mem_cons_self, hy ▸ hym⟩
        · rcases List.mem_cons.1 h with h | h
          · exact ⟨hd, List.mem_cons_self, h.symm⟩
          · obtain ⟨x, hx, hxm⟩ := ih t m h
            exact ⟨x, List.mem_cons_of_mem _ hx, hxm⟩

theorem orderMoves_mem (G : Game P M) (tm : Option M) (k : Option M × Option M) (ms : List M) (m : M)
    (h : m ∈ orderMoves G tm k ms) : m ∈ ms := by
  obtain ⟨x, hx, hxm⟩ := orderAux_mem _ _ m h
  obtain ⟨y, hy, rfl⟩ := List.mem_map.1 hx
  exact hxm ▸ hy

theorem orderMoves_nil (G : Game P M) (tm : Option M) (k : Option M × Option M) : orderMoves G tm k [] = [] := by
  simp [orderMoves, orderAux]

/-! ### 4. the frame relation holds for every routine of the search -/

-- (`QLoop.st`, `Loop.st`, `RootLoop.st`: the state carried by a loop result, defined in `SearchUnfold`)

theorem R_pvsChild (env : Env) (G : Game P M) (rec : P → Int → Int → Nat → St M → Int × St M)
    (hrec : ∀ c a b d s, R env G s (rec c a b d s).2)
    (p : P) (m : M) (alpha beta : Int) (depth : Nat) (pvs updSel : Bool) (st : St M) :
    R env G st (pvsChild G rec p m alpha beta depth pvs updSel st).2 := by
  -- the state handed to the child
  let st1 : St M := { st with nodes := st.nodes + 1, ply := st.ply + 1 }
  let st2 : St M := if updSel then { st1 with seldepth := max st1.seldepth st1.ply } else st1
  have h2 : st2.ply = st.ply + 1 ∧ Q env G st st2 := by
    cases updSel
    · exact ⟨rfl, Q.of_eq rfl rfl⟩
    · exact ⟨rfl, Q.of_eq rfl rfl⟩
  -- the window logic
  have key : ∃ r : Int × St M, R env G st2 r.2 ∧
      pvsChild G rec p m alpha beta depth pvs updSel st = (r.1, { r.2 with ply := r.2.ply - 1 }) := by
    cases pvs with
    | false => exact ⟨(satNeg (rec _ _ _ _ st2).1, (rec _ _ _ _ st2).2), hrec _ _ _ _ _, rfl⟩
    | true =>
      by_cases hre : (alpha < satNeg (rec (G.play p m) (satNeg alpha - 1) (satNeg alpha) (depth - 1) st2).1
          && satNeg (rec (G.play p m) (satNeg alpha - 1) (satNeg alpha) (depth - 1) st2).1 < beta) = true
      · refine ⟨(satNeg (rec (G.play p m) (satNeg beta) (satNeg alpha) (depth - 1)
            (rec (G.play p m) (satNeg alpha - 1) (satNeg alpha) (depth - 1) st2).2).1,
            (rec (G.play p m) (satNeg beta) (satNeg alpha) (depth - 1)
            (rec (G.play p m) (satNeg alpha - 1) (satNeg alpha) (depth - 1) st2).2).2), (hrec _ _ _ _ _).trans (hrec _ _ _ _ _), ?_⟩
        simp only [pvsChild, ↓reduceIte]
        rw [if_pos hre]
      · refine ⟨(satNeg (rec (G.play p m) (satNeg alpha - 1) (satNeg alpha) (depth - 1) st2).1,
            (rec (G.play p m) (satNeg alpha - 1) (satNeg alpha) (depth - 1) st2).2), hrec _ _ _ _ _, ?_⟩
        simp only [pvsChild, ↓reduceIte]
        rw [if_neg hre]
  obtain ⟨r, hr, heq⟩ := key
  rw [heq]
  refine ⟨?_, ?_⟩
  · show r.2.ply - 1 = st.ply
    rw [hr.1, h2.1]; rfl
  · exact h2.2.trans (hr.2.trans (Q.of_eq rfl rfl))

theorem R_qKids (env : Env) (G : Game P M) (rec : P → Int → Int → St M → Int × St M)
    (hrec : ∀ c a b s, R env G s (rec c a b s).2) (p : P) :
    ∀ (ms : List M) (alpha beta : Int) (st : St M), R env G st (qKids G rec p ms alpha beta st).st := by
  intro ms
  induction ms with
  | nil => intro alpha beta st; exact R.refl _ _ _
  | cons m ms ih =>
    intro alpha beta st
    simp only [qKids]
    split
    · exact ih _ _ _
    · let st1 : St M := { st with nodes := st.nodes + 1, ply := st.ply + 1 }
      let st2 : St M := { st1 with seldepth := max st1.seldepth st1.ply }
      have hr := hrec (G.play p m) (satNeg beta) (satNeg alpha) st2
      have h3 : R env G st { (rec (G.play p m) (satNeg beta) (satNeg alpha) st2).2 with
          ply := (rec (G.play p m) (satNeg beta) (satNeg alpha) st2).2.ply - 1 } := by
        refine ⟨?_, ?_⟩
        · show (rec (G.play p m) (satNeg beta) (satNeg alpha) st2).2.ply - 1 = st.ply
          rw [hr.1]; rfl
        · exact (Q.of_eq (s := st) (t := st2) rfl rfl).trans (hr.2.trans (Q.of_eq rfl rfl))
      split
      · exact h3
      · split
        · exact h3.trans (ih _ _ _)
        · exact h3.trans (ih _ _ _)

theorem R_quiesce (env : Env) (G : Game P M) :
    ∀ (fuel : Nat) (p : P) (alpha beta : Int) (st : St M), R env G st (quiesce env G fuel p alpha beta st).2 := by
  intro fuel
  induction fuel with
  | zero => intro p alpha beta st; exact R.refl _ _ _
  | succ fuel ih =>
    intro p alpha beta st
    simp only [quiesce]
    have ha := R_abortCheck env G st
    rcases hac : abortCheck env st with ⟨a, st'⟩
    rw [hac] at ha
    simp only
    split
    · exact ha
    · split
      · exact ha
      · have hq := R_qKids env G (quiesce env G fuel) ih p
          (orderMoves G ((st'.tt[G.key p]?).map (·.best)) (st'.killers.getD st'.ply (none, none))
            ((G.allMoves p).filter G.isCapture))
          (if G.eval p > alpha then G.eval p else alpha) beta st'
        revert hq
        cases qKids G (quiesce env G fuel) p _ _ beta st' with
        | cut st'' => intro hq; exact ha.trans hq
        | done alpha' st'' => intro hq; exact ha.trans hq

theorem R_abKids (env : Env) (G : Game P M) (rec : P → Int → Int → Nat → St M → Int × St M)
    (hrec : ∀ c a b d s, R env G s (rec c a b d s).2) (p : P) (depth : Nat) :
    ∀ (ms : List M) (alpha beta : Int) (best : M) (pvs : Bool) (n : Nat) (st : St M),
      (∀ m ∈ ms, m ∈ G.allMoves p) → (n ≠ 0 ∨ ms ≠ [] → best ∈ G.allMoves p) →
      R env G st (abKids env G rec p depth ms alpha beta best pvs n st).st ∧
      ∀ alpha' best' n' st', abKids env G rec p depth ms alpha beta best pvs n st = .done alpha' best' n' st' →
        n' ≠ 0 → best' ∈ G.allMoves p := by
  intro ms
  induction ms with
  | nil =>
    intro alpha beta best pvs n st _ hb
    refine ⟨R.refl _ _ _, ?_⟩
    intro alpha' best' n' st' h hn
    simp only [abKids] at h
    cases h
    exact hb (Or.inl hn)
  | cons m ms ih =>
    intro alpha beta best pvs n st hms hb
    have hm : m ∈ G.allMoves p := hms m List.mem_cons_self
    have hms' : ∀ x ∈ ms, x ∈ G.allMoves p := fun x hx => hms x (List.mem_cons_of_mem _ hx)
    have hbest : best ∈ G.allMoves p := hb (Or.inr (List.cons_ne_nil _ _))
    simp only [abKids]
    split
    · exact ih _ _ _ _ _ _ hms' (fun _ => hbest)
    · have h1 := R_pvsChild env G rec hrec p m alpha beta depth pvs true st
      rcases hpc : pvsChild G rec p m alpha beta depth pvs true st with ⟨score, st1⟩
      rw [hpc] at h1
      have h2 := R_abortCheck env G st1
      rcases hac : abortCheck env st1 with ⟨a, st2⟩
      rw [hac] at h2
      simp only
      have h12 := h1.trans h2
      split
      · exact ⟨h12, fun _ _ _ _ h => by cases h⟩
      · split
        · refine ⟨?_, fun _ _ _ _ h => by cases h⟩
          exact h12.trans ((R_insert env G st2 p ⟨score, depth, .lower, m⟩ 2 hm).trans (R_storeKillers env G m _))
        · split
          · have := ih score beta m true (n + 1) st2 hms' (fun _ => hm)
            exact ⟨h12.trans this.1, this.2⟩
          · have := ih alpha beta best pvs (n + 1) st2 hms' (fun _ => hbest)
            exact ⟨h12.trans this.1, this.2⟩

theorem R_ab (env : Env) (G : Game P M) :
    ∀ (fuel : Nat) (p : P) (alpha beta : Int) (depth : Nat) (st : St M),
      R env G st (ab env G fuel p alpha beta depth st).2 := by
  intro fuel
  induction fuel with
  | zero => intro p alpha beta depth st; exact R.refl _ _ _
  | succ fuel ih =>
    intro p alpha0 beta0 depth st
    simp only [ab]
    have ha := R_abortCheck env G st
    rcases hac : abortCheck env st with ⟨a, st'⟩
    rw [hac] at ha
    simp only
    split
    · exact ha
    · split
      · exact ha
      · split
        · exact ha
        · -- the cache switch
          have hc : R env G st' (if env.cacheOff then { st' with tt := {} } else st') := by
            split
            · exact ⟨rfl, fun _ => rfl, fun _ _ => tableOK_empty G⟩
            · exact R.refl _ _ _
          generalize (if env.cacheOff then { st' with tt := {} } else st') = st2 at hc
          have h02 := ha.trans hc
          split
          · exact h02
          · rename_i alpha beta _
            generalize (if G.inCheck p then depth + 1 else depth) = dep
            split
            · exact h02.trans (R_quiesce env G _ _ _ _ _)
            · have hk := R_abKids env G (ab env G fuel) ih p dep
                (orderMoves G ((st2.tt[G.key p]?).map (·.best)) (st2.killers.getD st2.ply (none, none)) (G.allMoves p))
                alpha beta ((G.allMoves p).headD G.defaultMove) false 0 st2
                (fun m hm => orderMoves_mem _ _ _ _ _ hm)
                (by
                  intro h
                  rcases h with h | h
                  · exact absurd rfl h
                  · cases hmv : G.allMoves p with
                    | nil => rw [hmv, orderMoves_nil] at h; exact absurd rfl h
                    | cons x xs => simp)
              revert hk
              cases abKids env G (ab env G fuel) p _ _ alpha beta _ false 0 st2 with
              | abort st3 => intro hk; exact h02.trans hk.1
              | cut st3 => intro hk; exact h02.trans hk.1
              | done alpha' best n st3 =>
                intro hk
                have h03 := h02.trans hk.1
                dsimp only
                split
                · split
                  · exact h03
                  · exact h03
                · rename_i hn
                  exact h03.trans (R_insert env G st3 p _ 3 (hk.2 _ _ _ _ rfl hn))

theorem R_rootKids (env : Env) (G : Game P M) (rec : P → Int → Int → Nat → St M → Int × St M)
    (hrec : ∀ c a b d s, R env G s (rec c a b d s).2) (p : P) (depth : Nat) :
    ∀ (ms : List M) (alpha : Int) (best : M) (pvs : Bool) (n : Nat) (st : St M),
      (∀ m ∈ ms, m ∈ G.allMoves p) → best ∈ G.allMoves p →
      R env G st (rootKids env G rec p depth ms alpha best pvs n st).st ∧
      ∀ alpha' best' n' st', rootKids env G rec p depth ms alpha best pvs n st = .done alpha' best' n' st' →
        best' ∈ G.allMoves p := by
  intro ms
  induction ms with
  | nil =>
    intro alpha best pvs n st _ hb
    refine ⟨R.refl _ _ _, ?_⟩
    intro alpha' best' n' st' h
    simp only [rootKids] at h
    cases h
    exact hb
  | cons m ms ih =>
    intro alpha best pvs n st hms hbest
    have hm : m ∈ G.allMoves p := hms m List.mem_cons_self
    have hms' : ∀ x ∈ ms, x ∈ G.allMoves p := fun x hx => hms x (List.mem_cons_of_mem _ hx)
    simp only [rootKids]
    split
    · exact ih _ _ _ _ _ hms' hbest
    · have h1 := R_pvsChild env G rec hrec p m alpha MAXS depth pvs false st
      rcases hpc : pvsChild G rec p m alpha MAXS depth pvs false st with ⟨score, st1⟩
      rw [hpc] at h1
      have h2 := R_abortCheck env G st1
      rcases hac : abortCheck env st1 with ⟨a, st2⟩
      rw [hac] at h2
      simp only
      have h12 := h1.trans h2
      split
      · refine ⟨?_, fun _ _ _ _ h => by cases h⟩
        refine h12.trans ?_
        exact R_ite (R.of_eq rfl rfl rfl)
      · split
        · have := ih score m true (n + 1) st2 hms' hm
          exact ⟨h12.trans this.1, this.2⟩
        · have := ih alpha best pvs (n + 1) st2 hms' hbest
          exact ⟨h12.trans this.1, this.2⟩

theorem R_abStart (env : Env) (G : Game P M) (p : P) (depth : Nat) (st : St M) :
    R env G st (abStart env G p depth st) := by
  simp only [abStart]
  split
  · exact R.refl _ _ _
  · rename_i m0 rest hmv
    have hk := R_rootKids env G (ab env G 255) (R_ab env G 255) p depth
      (orderMoves G ((st.tt[G.key p]?).map (·.best)) (st.killers.getD st.ply (none, none)) (G.allMoves p))
      MINS m0 false 0 st
      (fun m hm => orderMoves_mem _ _ _ _ _ hm)
      (by rw [hmv]; exact List.mem_cons_self)
    revert hk
    cases rootKids env G (ab env G 255) p depth _ MINS m0 false 0 st with
    | abort st1 => intro hk; exact hk.1
    | done alpha best n st1 =>
      intro hk
      dsimp only
      split
      · exact hk.1
      · have h2 := R_abortCheck env G st1
        rcases hac : abortCheck env st1 with ⟨a, st2⟩
        rw [hac] at h2
        dsimp only
        split
        · exact hk.1.trans h2
        · refine hk.1.trans (h2.trans ((R_insert env G st2 p ⟨alpha, depth, .exact, best⟩ 1 (hk.2 _ _ _ _ rfl)).trans ?_))
          exact R.of_eq rfl rfl rfl

/-! ### 5. the principal variation read from a good cache is a legal line -/

theorem getPv_legal (G : Game P M) (tt : Table M) (h : TableMovesOK G tt) :
    ∀ (n : Nat) (p : P), LegalLine G p (getPv G tt n p) := by
  intro n
  induction n with
  | zero => intro p; simp [getPv, LegalLine]
  | succ n ih =>
    intro p
    simp only [getPv]
    split
    · rename_i e he
      split
      · rename_i hl
        refine ⟨?_, ih _⟩
        simp only [legalMovesOf, List.mem_filter]
        exact ⟨h p e he, hl⟩
      · simp [LegalLine]
    · simp [LegalLine]

theorem iterate_pv_legal (env : Env) (G : Game P M) (p : P) (md : Nat) (hk : KeyMoves G) :
    ∀ (fuel d : Nat) (st : St M) (infos : List (InfoLine M)), TableMovesOK G st.tt →
      (∀ i ∈ infos, LegalLine G p i.pv) →
      ∀ i ∈ (iterate env G p md fuel d st infos).2, LegalLine G p i.pv := by
  intro fuel
  induction fuel with
  | zero => intro d st infos _ h; simpa [iterate] using h
  | succ fuel ih =>
    intro d st infos ht h
    simp only [iterate]
    split
    · exact h
    · have h1 := (R_abStart env G p d st).trans (R_abortCheck env G _)
      rcases hac : abortCheck env (abStart env G p d st) with ⟨a, st'⟩
      rw [hac] at h1
      simp only
      split
      · exact h
      · have ht' : TableMovesOK G st'.tt := h1.2.2 hk ht
        apply ih _ _ _ ht'
        intro i hi
        rcases List.mem_append.1 hi with hi | hi
        · exact h i hi
        · rw [List.mem_singleton] at hi
          subst hi
          exact getPv_legal G st'.tt ht' d p

theorem pv_legal' (env : Env) (G : Game P M) (p : P) (maxDepth : Option Nat) (tt0 : Table M)
    (hk : KeyMoves G) (ht : TableMovesOK G tt0) :
    ∀ i ∈ (search env G p maxDepth tt0).infos, LegalLine G p i.pv := by
  have := iterate_pv_legal env G p (maxDepth.getD 255) hk (maxDepth.getD 255) 1 { tt := tt0 } [] ht (by simp)
  simp only [search]
  exact this

/-! ### 6. a pure depth limit: every iteration completes -/

theorem iterate_complete (env : Env) (G : Game P M) (p : P) (n : Nat) (hu : Unlimited env) :
    ∀ (fuel d : Nat) (st : St M) (infos : List (InfoLine M)), st.ply = 0 → st.running = true →
      d + fuel = n + 1 → 1 ≤ d → infos.map (·.depth) = List.range' 1 (d - 1) →
      (iterate env G p n fuel d st infos).2.map (·.depth) = List.range' 1 n := by
  intro fuel
  induction fuel with
  | zero =>
    intro d st infos _ _ hd _ h
    have : d - 1 = n := by omega
    simpa [iterate, this] using h
  | succ fuel ih =>
    intro d st infos hp hr hd hd1 h
    simp only [iterate]
    have hle : ¬ d > n := by omega
    rw [if_neg hle]
    have h0 := R_abStart env G p d st
    have h1 := abortCheck_unl env (abStart env G p d st) hu
    have h2 := R_abortCheck env G (abStart env G p d st)
    rcases hac : abortCheck env (abStart env G p d st) with ⟨a, st'⟩
    rw [hac] at h1 h2
    have hply : (abStart env G p d st).ply = 0 := h0.1.trans hp
    have hrun : (abStart env G p d st).running = true := (h0.2.1 hu).trans hr
    have ha : a = false := by
      have := h1.2 hrun
      rw [hply] at this
      simpa using this
    subst ha
    simp only [Bool.false_eq_true, ↓reduceIte]
    apply ih
    · exact h2.1.trans hply
    · exact ((h2.2.1 hu).trans hrun)
    · omega
    · omega
    · rw [List.map_append, h, Nat.add_sub_cancel]
      have : d = (d - 1) + 1 := by omega
      conv => rhs; rw [this, List.range'_concat]
      simp [infoLine]; omega

theorem depth_limit_complete' (env : Env) (G : Game P M) (p : P) (n : Nat) (tt0 : Table M)
    (hu : Unlimited env) (_hn : n ≤ 255) :
    (search env G p (some n) tt0).infos.map (·.depth) = List.range' 1 n := by
  have := iterate_complete env G p n hu n 1 { tt := tt0 } [] rfl rfl (by omega) (by omega) (by simp)
  simp only [search]
  exact this

end RCE.Proofs.SearchInfo
