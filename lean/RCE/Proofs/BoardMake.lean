import RCE.Proofs.BoardGen
/-! `make_move` analysed: the key as an XOR sum, `move_piece` as a point update of the mailbox,
    the castling-rights bookkeeping, and `make_move` restated field by field. -/
namespace RCE.Proofs.BoardMake
open RCE RCE.Proofs.BoardBits RCE.Proofs.BoardWF RCE.Proofs.BoardPBB RCE.Proofs.BoardGen

set_option linter.unusedSimpArgs false
attribute [local irreducible] zPiece zCastle zEp zTurn

theorem xor_cancel_left (a b : UInt64) : a ^^^ (a ^^^ b) = b := by
  rw [← UInt64.xor_assoc, UInt64.xor_self, UInt64.zero_xor]

/-- decide an identity of the XOR group: sort both sides, cancel equal neighbours -/
macro "xor_solve" : tactic =>
  `(tactic| (ac_nf; try simp only [xor_cancel_left, UInt64.xor_self, UInt64.xor_zero, UInt64.zero_xor]; try ac_rfl))

/-! ### XOR sums over an index range -/

def xs (w : Nat → UInt64) (n : Nat) : UInt64 := (List.range n).foldl (fun k i => k ^^^ w i) 0

theorem xs_succ (w : Nat → UInt64) (n : Nat) : xs w (n + 1) = xs w n ^^^ w n := by
  unfold xs; rw [List.range_succ, List.foldl_append]; rfl

theorem xs_congr (w w' : Nat → UInt64) (n : Nat) (h : ∀ i, i < n → w' i = w i) : xs w' n = xs w n := by
  induction n with
  | zero => rfl
  | succ n ih =>
    rw [xs_succ, xs_succ, ih (fun i hi => h i (by omega)), h n (by omega)]

theorem xs_update (w w' : Nat → UInt64) (n j : Nat) (hj : j < n) (h : ∀ i, i < n → i ≠ j → w' i = w i) :
    xs w' n = xs w n ^^^ w j ^^^ w' j := by
  induction n with
  | zero => omega
  | succ n ih =>
    rw [xs_succ, xs_succ]
    by_cases e : j = n
    · subst e
      rw [xs_congr w w' j (fun i hi => h i (by omega) (by omega))]
      xor_solve
    · rw [ih (by omega) (fun i hi => h i (by omega)), h n (by omega) (fun e' => e e'.symm)]
      xor_solve

/-- the word of the content of a square -/
def ow (o : Option Kind) (s : Square) : UInt64 := match o with | some k => zPiece k s | none => 0

def pieceKey (p : PBB) : UInt64 := xs (fun i => ow (p.pieceAt (Square.ofIdx i)) (Square.ofIdx i)) 64

def rw' (r : Rights) : UInt64 :=
  (if r.wk then zCastle 0 else 0) ^^^ (if r.wq then zCastle 1 else 0) ^^^
  (if r.bk then zCastle 2 else 0) ^^^ (if r.bq then zCastle 3 else 0)
def ew (e : Option Nat) : UInt64 := match e with | some f => zEp f | none => 0
def tw (t : Color) : UInt64 := match t with | .white => zTurn | .black => 0

theorem ite_xor (c : Bool) (k z : UInt64) : (if c = true then k ^^^ z else k) = k ^^^ (if c = true then z else 0) := by
  cases c <;> simp

theorem fold_pieceKey (f : UInt64 → Nat → UInt64) (p : PBB)
    (hf : ∀ k i, f k i = k ^^^ ow (p.pieceAt (Square.ofIdx i)) (Square.ofIdx i)) :
    List.foldl f 0 (List.range 64) = pieceKey p := by
  have : f = fun k i => k ^^^ ow (p.pieceAt (Square.ofIdx i)) (Square.ofIdx i) := by
    funext k i; exact hf k i
  rw [this]; rfl

theorem scratchKey_eq (b : Board) :
    b.scratchKey = pieceKey b.bbs ^^^ rw' b.rights ^^^ ew b.ep ^^^ tw b.turn := by
  unfold Board.scratchKey
  rw [fold_pieceKey (p := b.bbs)]
  · simp only [ite_xor]
    unfold rw' ew tw
    cases b.ep <;> cases b.turn <;> simp [UInt64.xor_assoc]
  · intro k i
    show _ = k ^^^ ow (b.pieceAt (Square.ofIdx i)) (Square.ofIdx i)
    cases b.pieceAt (Square.ofIdx i) <;> simp [ow]

theorem pieceKey_update (p q : PBB) (s : Square) (hs : IR s)
    (h : ∀ s', IR s' → s' ≠ s → q.pieceAt s' = p.pieceAt s') :
    pieceKey q = pieceKey p ^^^ ow (p.pieceAt s) s ^^^ ow (q.pieceAt s) s := by
  unfold pieceKey
  have := xs_update (fun i => ow (p.pieceAt (Square.ofIdx i)) (Square.ofIdx i))
    (fun i => ow (q.pieceAt (Square.ofIdx i)) (Square.ofIdx i)) 64 s.idx (idx_lt s hs)
    (fun i hi hne => by
      show ow (q.pieceAt (Square.ofIdx i)) (Square.ofIdx i) = ow (p.pieceAt (Square.ofIdx i)) (Square.ofIdx i)
      rw [h _ (ofIdx_IR i hi) (fun e => hne (by rw [← e, ofIdx_idx]))])
  simp only [ofIdx_of_idx s hs] at this
  exact this

/-! ### `move_piece` / `undo_move_piece` on the bitboards and on the key -/

def capSq (start dest : Square) (ep : Bool) : Square := if ep then ⟨start.rank, dest.file⟩ else dest

def pmove (p : PBB) (start dest : Square) (mv : Kind) (pr cap : Option Kind) (ep : Bool) : PBB :=
  let p := p.removePiece start mv
  let p := match cap with
    | some c => p.removePiece (capSq start dest ep) c
    | none => p
  p.addPiece dest (pr.getD mv)

def pundo (p : PBB) (start dest : Square) (mv : Kind) (pr cap : Option Kind) (ep : Bool) : PBB :=
  let p := p.removePiece dest (pr.getD mv)
  let p := match cap with
    | some c => p.addPiece (capSq start dest ep) c
    | none => p
  p.addPiece start mv

def wmove (start dest : Square) (mv : Kind) (pr cap : Option Kind) (ep : Bool) : UInt64 :=
  zPiece mv start ^^^ ow cap (capSq start dest ep) ^^^ zPiece (pr.getD mv) dest

theorem movePiece_eq (b : Board) (start dest : Square) (mv : Kind) (pr cap : Option Kind) (ep : Bool) :
    b.movePiece start dest mv pr cap ep =
      { b with bbs := pmove b.bbs start dest mv pr cap ep, zkey := b.zkey ^^^ wmove start dest mv pr cap ep } := by
  cases cap <;> cases ep <;>
    simp [Board.movePiece, Board.removePiece, Board.addPiece, pmove, wmove, capSq, ow, UInt64.xor_assoc]

theorem undoMovePiece_eq (b : Board) (start dest : Square) (mv : Kind) (pr cap : Option Kind) (ep : Bool) :
    b.undoMovePiece start dest mv pr cap ep =
      { b with bbs := pundo b.bbs start dest mv pr cap ep, zkey := b.zkey ^^^ wmove start dest mv pr cap ep } := by
  cases cap <;> cases ep <;>
    simp [Board.undoMovePiece, Board.removePiece, Board.addPiece, pundo, wmove, capSq, ow] <;> xor_solve

/-- the mailbox after `move_piece` -/
def viewMove (v : Square → Option Kind) (start dest : Square) (mv : Kind) (pr : Option Kind) (ep : Bool) :
    Square → Option Kind :=
  fun s => if s = dest then some (pr.getD mv) else if s = start then none
    else if s = capSq start dest ep then none else v s

theorem pmove_ok (p : PBB) (hw : PBB.WF p) (start dest : Square) (hs : IR start) (hd : IR dest) (hne : start ≠ dest)
    (mv : Kind) (pr cap : Option Kind) (ep : Bool)
    (hmv : p.pieceAt start = some mv)
    (hcap : cap = p.pieceAt (capSq start dest ep))
    (hep : ep = true → p.pieceAt dest = none ∧ capSq start dest ep ≠ start ∧ capSq start dest ep ≠ dest) :
    PBB.WF (pmove p start dest mv pr cap ep) ∧
    (∀ s, IR s → (pmove p start dest mv pr cap ep).pieceAt s = viewMove p.pieceAt start dest mv pr ep s) ∧
    pieceKey (pmove p start dest mv pr cap ep) = pieceKey p ^^^ wmove start dest mv pr cap ep := by
  have hc : IR (capSq start dest ep) := by
    unfold capSq; split
    · exact ⟨hs.1, hd.2⟩
    · exact hd
  have hcs : capSq start dest ep ≠ start := by
    cases ep
    · exact fun e => hne e.symm
    · exact (hep rfl).2.1
  -- step 1
  obtain ⟨w1, v1⟩ := remove_ok p hw start hs mv hmv
  have k1 : pieceKey (p.removePiece start mv) = pieceKey p ^^^ zPiece mv start := by
    have := pieceKey_update p (p.removePiece start mv) start hs (fun s' h' hn => by rw [v1 s' h', if_neg hn])
    rw [this, v1 start hs, if_pos rfl, hmv]
    simp [ow]
  have hd1 : ∀ c, p.pieceAt dest = c → (p.removePiece start mv).pieceAt dest = c := by
    intro c h; rw [v1 dest hd, if_neg (fun e => hne e.symm), h]
  cases hcc : cap with
  | none =>
    rw [hcc] at hcap
    have hdn : p.pieceAt dest = none := by
      cases ep
      · exact hcap.symm
      · exact (hep rfl).1
    obtain ⟨w2, v2⟩ := add_ok _ w1 dest hd (pr.getD mv) (hd1 _ hdn)
    refine ⟨w2, ?_, ?_⟩
    · intro s h
      show ((p.removePiece start mv).addPiece dest (pr.getD mv)).pieceAt s = _
      rw [v2 s h, v1 s h]; unfold viewMove
      by_cases e1 : s = dest
      · simp [e1]
      · by_cases e2 : s = start
        · simp [e1, e2]
        · by_cases e3 : s = capSq start dest ep
          · simp [e1, e2, e3, ← hcap]
          · simp [e1, e2, e3]
    · show pieceKey ((p.removePiece start mv).addPiece dest (pr.getD mv)) = _
      have := pieceKey_update (p.removePiece start mv) _ dest hd (fun s' h' hn => by rw [v2 s' h', if_neg hn])
      rw [this, v2 dest hd, if_pos rfl, hd1 _ hdn, k1]
      simp only [wmove, ow]; xor_solve
  | some c =>
    rw [hcc] at hcap
    have hc1 : (p.removePiece start mv).pieceAt (capSq start dest ep) = some c := by
      rw [v1 _ hc, if_neg hcs, ← hcap]
    obtain ⟨w2, v2⟩ := remove_ok _ w1 _ hc c hc1
    have hd2 : ((p.removePiece start mv).removePiece (capSq start dest ep) c).pieceAt dest = none := by
      rw [v2 dest hd]
      cases ep
      · simp [capSq]
      · rw [if_neg (fun e => (hep rfl).2.2 e.symm)]; exact hd1 _ (hep rfl).1
    obtain ⟨w3, v3⟩ := add_ok _ w2 dest hd (pr.getD mv) hd2
    have k2 : pieceKey ((p.removePiece start mv).removePiece (capSq start dest ep) c) =
        pieceKey p ^^^ zPiece mv start ^^^ zPiece c (capSq start dest ep) := by
      have := pieceKey_update (p.removePiece start mv) _ _ hc (fun s' h' hn => by rw [v2 s' h', if_neg hn])
      rw [this, v2 _ hc, if_pos rfl, hc1, k1]
      simp [ow]
    refine ⟨w3, ?_, ?_⟩
    · intro s h
      show (((p.removePiece start mv).removePiece (capSq start dest ep) c).addPiece dest (pr.getD mv)).pieceAt s = _
      rw [v3 s h, v2 s h, v1 s h]; unfold viewMove
      by_cases e1 : s = dest
      · simp [e1]
      · by_cases e2 : s = start
        · simp [e1, e2]
        · by_cases e3 : s = capSq start dest ep
          · simp [e1, e3]
          · simp [e1, e2, e3]
    · show pieceKey (((p.removePiece start mv).removePiece (capSq start dest ep) c).addPiece dest (pr.getD mv)) = _
      have := pieceKey_update ((p.removePiece start mv).removePiece (capSq start dest ep) c) _ dest hd
        (fun s' h' hn => by rw [v3 s' h', if_neg hn])
      rw [this, v3 dest hd, if_pos rfl, hd2, k2]
      simp only [wmove, ow]; xor_solve
/-- clearing right `i` -/
def clr (i : Nat) (r : Rights) : Rights :=
  match i with
  | 0 => { r with wk := false } | 1 => { r with wq := false } | 2 => { r with bk := false } | _ => { r with bq := false }

/-- a key/rights transformer that is "clear some rights and toggle their words" -/
def KR (f : UInt64 × Rights → UInt64 × Rights) (g : Rights → Rights) : Prop :=
  ∀ k r, f (k, r) = (k ^^^ rw' r ^^^ rw' (g r), g r)

theorem KR_id : KR (fun st => st) (fun r => r) := by
  intro k r; simp [UInt64.xor_assoc]

theorem KR_comp {f f' g g'} (h : KR f g) (h' : KR f' g') : KR (fun st => f' (f st)) (fun r => g' (g r)) := by
  intro k r
  show f' (f (k, r)) = _
  rw [h k r, h' _ _]
  congr 1
  xor_solve

theorem KR_revoke (i : Nat) : KR (revoke i) (clr i) := by
  intro k r
  obtain ⟨a, b, c, d⟩ := r
  unfold revoke clr
  rcases i with _ | _ | _ | i <;> cases a <;> cases b <;> cases c <;> cases d <;> simp [rw'] <;> xor_solve

/-- the castling rights after a move -/
def newRights' (piece : Kind) (start dest : Square) (captured : Option Kind) (r : Rights) : Rights :=
  let m : Ply := { start := start, dest := dest, piece := piece, captured := captured }
  let r :=
    match m.piece.pk, m.piece.color with
    | .king, .white => clr 1 (clr 0 r)
    | .king, .black => clr 3 (clr 2 r)
    | .rook, .white =>
      if m.start = ⟨0, 0⟩ then clr 1 r else if m.start = ⟨0, 7⟩ then clr 0 r else r
    | .rook, .black =>
      if m.start = ⟨7, 0⟩ then clr 3 r else if m.start = ⟨7, 7⟩ then clr 2 r else r
    | _, _ => r
  match m.captured with
  | some ⟨.rook, .white⟩ =>
    if m.dest = ⟨0, 0⟩ then clr 1 r else if m.dest = ⟨0, 7⟩ then clr 0 r else r
  | some ⟨.rook, .black⟩ =>
    if m.dest = ⟨7, 0⟩ then clr 3 r else if m.dest = ⟨7, 7⟩ then clr 2 r else r
  | _ => r

def newRights (m : Ply) (r : Rights) : Rights := newRights' m.piece m.start m.dest m.captured r

theorem KR_castling (m : Ply) : KR (castlingRevocations m) (newRights m) := by
  have h1 : KR (fun st => 
      match m.piece.pk, m.piece.color with
      | .king, .white => revoke 1 (revoke 0 st)
      | .king, .black => revoke 3 (revoke 2 st)
      | .rook, .white =>
        if m.start = ⟨0, 0⟩ then revoke 1 st else if m.start = ⟨0, 7⟩ then revoke 0 st else st
      | .rook, .black =>
        if m.start = ⟨7, 0⟩ then revoke 3 st else if m.start = ⟨7, 7⟩ then revoke 2 st else st
      | _, _ => st)
     (fun r => match m.piece.pk, m.piece.color with
      | .king, .white => clr 1 (clr 0 r)
      | .king, .black => clr 3 (clr 2 r)
      | .rook, .white =>
        if m.start = ⟨0, 0⟩ then clr 1 r else if m.start = ⟨0, 7⟩ then clr 0 r else r
      | .rook, .black =>
        if m.start = ⟨7, 0⟩ then clr 3 r else if m.start = ⟨7, 7⟩ then clr 2 r else r
      | _, _ => r) := by
    cases m.piece.pk <;> cases m.piece.color <;> simp only <;>
      first
      | exact KR_id
      | exact KR_comp (KR_revoke _) (KR_revoke _)
      | (split
         · exact KR_revoke _
         · split
           · exact KR_revoke _
           · exact KR_id)
  have h2 : KR (fun st => 
      match m.captured with
      | some ⟨.rook, .white⟩ =>
        if m.dest = ⟨0, 0⟩ then revoke 1 st else if m.dest = ⟨0, 7⟩ then revoke 0 st else st
      | some ⟨.rook, .black⟩ =>
        if m.dest = ⟨7, 0⟩ then revoke 3 st else if m.dest = ⟨7, 7⟩ then revoke 2 st else st
      | _ => st)
      (fun r => match m.captured with
      | some ⟨.rook, .white⟩ =>
        if m.dest = ⟨0, 0⟩ then clr 1 r else if m.dest = ⟨0, 7⟩ then clr 0 r else r
      | some ⟨.rook, .black⟩ =>
        if m.dest = ⟨7, 0⟩ then clr 3 r else if m.dest = ⟨7, 7⟩ then clr 2 r else r
      | _ => r) := by
    rcases m.captured with _ | ⟨pk, c⟩
    · exact KR_id
    · cases pk <;> cases c <;> simp only <;>
      first
      | exact KR_id
      | (split
         · exact KR_revoke _
         · split
           · exact KR_revoke _
           · exact KR_id)
  have h3 := KR_comp h1 h2
  intro k r
  exact h3 k r

/-! ### `make_move` restated -/

def newEp (m : Ply) : Option Nat := if m.isDoublePush then some m.dest.file else none

def castleBBS (t : Color) (m : Ply) (p : PBB) : PBB :=
  if m.isCastles then
    match castleRookSquares m.dest with
    | some (rs, rd) => pmove p rs rd ⟨.rook, t⟩ none none false
    | none => p
  else p

def castleW (t : Color) (m : Ply) : UInt64 :=
  if m.isCastles then
    match castleRookSquares m.dest with
    | some (rs, rd) => wmove rs rd ⟨.rook, t⟩ none none false
    | none => 0
  else 0

def newClock (b : Board) (m : Ply) : Nat :=
  if m.piece.pk == .pawn || m.captured.isSome then 0 else b.top.clock + 1

theorem makeMove_eq (b : Board) (m : Ply) :
    b.makeMove m =
      { turn := b.turn.opp,
        fullmove := if b.turn.opp == .white then b.fullmove + 1 else b.fullmove,
        ep := newEp m,
        history := { m with clock := newClock b m, rights := newRights m b.top.rights } :: b.history,
        posHist := b.zkey :: b.posHist,
        bbs := castleBBS b.turn m (pmove b.bbs m.start m.dest m.piece m.promoted m.captured m.enPassant),
        zkey := b.zkey ^^^ ew b.ep ^^^ ew (newEp m) ^^^ wmove m.start m.dest m.piece m.promoted m.captured m.enPassant
                  ^^^ castleW b.turn m ^^^ rw' b.top.rights ^^^ rw' (newRights m b.top.rights) ^^^ zTurn } := by
  unfold Board.makeMove
  simp only [movePiece_eq]
  have hkr := fun m k r => KR_castling m k r
  rcases hcr : castleRookSquares m.dest with _ | ⟨rs, rd⟩ <;>
  cases hdp : m.isDoublePush <;> cases hep : b.ep <;> cases hc : m.isCastles <;>
    simp only [hkr, newEp, castleBBS, castleW, ew, hdp, hep, hc, hcr, Board.switchTurn, Bool.false_eq_true, if_false, if_true]
  all_goals cases ht : b.turn <;> simp [Color.opp, newRights, newClock] <;> xor_solve

/-! ### the board after `make_move` -/

def castleView (t : Color) (m : Ply) (v : Square → Option Kind) : Square → Option Kind :=
  if m.isCastles then
    match castleRookSquares m.dest with
    | some (rs, rd) => viewMove v rs rd ⟨.rook, t⟩ none false
    | none => v
  else v

/-- the mailbox after `make_move` -/
def finalView (b : Board) (m : Ply) : Square → Option Kind :=
  castleView b.turn m (viewMove b.bbs.pieceAt m.start m.dest m.piece m.promoted m.enPassant)

def newBBS (b : Board) (m : Ply) : PBB :=
  castleBBS b.turn m (pmove b.bbs m.start m.dest m.piece m.promoted m.captured m.enPassant)

theorem gen_cap (b : Board) (m : Ply) (g : Gen b m) : m.captured = b.bbs.pieceAt (capSq m.start m.dest m.enPassant) := by
  rw [g.cap]; unfold capSq; split <;> rfl

theorem gen_ep (b : Board) (m : Ply) (g : Gen b m) (h : m.enPassant = true) :
    b.bbs.pieceAt m.dest = none ∧ capSq m.start m.dest m.enPassant ≠ m.start ∧ capSq m.start m.dest m.enPassant ≠ m.dest := by
  obtain ⟨h1, h2, h3, h4, -⟩ := g.shape.ep h
  refine ⟨h1, ?_, ?_⟩
  · rw [h]; unfold capSq; simp only [if_true]
    intro e; apply h4; rw [← e]
  · rw [h]; unfold capSq; simp only [if_true]
    intro e; apply h3; rw [← e]

theorem main_ok (b : Board) (hw : WF b) (m : Ply) (g : Gen b m) :
    PBB.WF (pmove b.bbs m.start m.dest m.piece m.promoted m.captured m.enPassant) ∧
    (∀ s, IR s → (pmove b.bbs m.start m.dest m.piece m.promoted m.captured m.enPassant).pieceAt s =
      viewMove b.bbs.pieceAt m.start m.dest m.piece m.promoted m.enPassant s) ∧
    pieceKey (pmove b.bbs m.start m.dest m.piece m.promoted m.captured m.enPassant) =
      pieceKey b.bbs ^^^ wmove m.start m.dest m.piece m.promoted m.captured m.enPassant :=
  pmove_ok b.bbs hw.bbs m.start m.dest g.irs g.ird g.ne m.piece m.promoted m.captured m.enPassant
    g.shape.piece (gen_cap b m g) (gen_ep b m g)

/-- the four castling cases with their rook squares -/
theorem castle_squares (b : Board) (hw : WF b) (m : Ply) (g : Gen b m) (hc : m.isCastles = true) :
    ∃ rs rd, castleRookSquares m.dest = some (rs, rd) ∧ IR rs ∧ IR rd ∧ rs ≠ rd ∧
      rs ≠ m.start ∧ rs ≠ m.dest ∧ rd ≠ m.start ∧ rd ≠ m.dest ∧
      b.bbs.pieceAt rs = some ⟨.rook, b.turn⟩ ∧ b.bbs.pieceAt rd = none ∧ b.bbs.pieceAt m.dest = none ∧
      m.enPassant = false ∧ m.promoted = none ∧ m.piece = ⟨.king, b.turn⟩ ∧ rs.rank = m.start.rank ∧ rd.rank = m.start.rank ∧
      (m.start.rank = if b.turn = .white then 0 else 7) := by
  obtain ⟨h1, h2, h3, h4, h5⟩ := g.shape.castle hc
  have hcol := g.shape.color
  have hpiece : m.piece = ⟨.king, b.turn⟩ := by
    cases hp : m.piece with
    | mk pk c => rw [hp] at h4 hcol; simp only at h4 hcol; subst h4; subst hcol; rfl
  obtain ⟨r1, r2, r3, r4⟩ := hw.rights
  rcases h5 with ⟨t, s, d, r, e1, e2⟩ | ⟨t, s, d, r, e1, e2⟩ | ⟨t, s, d, r, e1, e2⟩ | ⟨t, s, d, r, e1, e2⟩
  · exact ⟨⟨0,7⟩, ⟨0,5⟩, by rw [d]; rfl, by decide, by decide, by decide, by rw [s]; decide, by rw [d]; decide,
      by rw [s]; decide, by rw [d]; decide, by rw [t]; exact r1 r, e1, by rw [d]; exact e2, h1, h3, hpiece,
      by rw [s], by rw [s], by rw [s, t]; rfl⟩
  · exact ⟨⟨0,0⟩, ⟨0,3⟩, by rw [d]; rfl, by decide, by decide, by decide, by rw [s]; decide, by rw [d]; decide,
      by rw [s]; decide, by rw [d]; decide, by rw [t]; exact r2 r, e1, by rw [d]; exact e2, h1, h3, hpiece,
      by rw [s], by rw [s], by rw [s, t]; rfl⟩
  · exact ⟨⟨7,7⟩, ⟨7,5⟩, by rw [d]; rfl, by decide, by decide, by decide, by rw [s]; decide, by rw [d]; decide,
      by rw [s]; decide, by rw [d]; decide, by rw [t]; exact r3 r, e1, by rw [d]; exact e2, h1, h3, hpiece,
      by rw [s], by rw [s], by rw [s, t]; rfl⟩
  · exact ⟨⟨7,0⟩, ⟨7,3⟩, by rw [d]; rfl, by decide, by decide, by decide, by rw [s]; decide, by rw [d]; decide,
      by rw [s]; decide, by rw [d]; decide, by rw [t]; exact r4 r, e1, by rw [d]; exact e2, h1, h3, hpiece,
      by rw [s], by rw [s], by rw [s, t]; rfl⟩

theorem bbs_ok (b : Board) (hw : WF b) (m : Ply) (g : Gen b m) :
    PBB.WF (newBBS b m) ∧ (∀ s, IR s → (newBBS b m).pieceAt s = finalView b m s) ∧
    pieceKey (newBBS b m) = pieceKey b.bbs ^^^ wmove m.start m.dest m.piece m.promoted m.captured m.enPassant
      ^^^ castleW b.turn m := by
  obtain ⟨w1, v1, k1⟩ := main_ok b hw m g
  unfold newBBS finalView castleBBS castleView castleW
  cases hc : m.isCastles
  · simp only [Bool.false_eq_true, if_false, UInt64.xor_zero]
    exact ⟨w1, v1, k1⟩
  · obtain ⟨rs, rd, hcr, irs, ird, hne, n1, n2, n3, n4, hr, hrd, hdn, hep, hpr, hpc, -, -, -⟩ := castle_squares b hw m g hc
    simp only [if_true, hcr]
    have hv : ∀ s, IR s → s ≠ m.start → s ≠ m.dest →
        (pmove b.bbs m.start m.dest m.piece m.promoted m.captured m.enPassant).pieceAt s = b.bbs.pieceAt s := by
      intro s hs e1 e2
      rw [v1 s hs]; unfold viewMove; rw [if_neg e2, if_neg e1, hep]; simp [capSq, e2]
    obtain ⟨w2, v2, k2⟩ := pmove_ok _ w1 rs rd irs ird hne ⟨.rook, b.turn⟩ none none false
      (by rw [hv rs irs n1 n2, hr]) (by simp only [capSq, Bool.false_eq_true, if_false]; rw [hv rd ird n3 n4, hrd]) (by intro h; cases h)
    refine ⟨w2, ?_, ?_⟩
    · intro s hs
      rw [v2 s hs]
      unfold viewMove
      by_cases e1 : s = rd
      · simp [e1]
      · by_cases e2 : s = rs
        · simp [e1, e2]
        · simp only [if_neg e1, if_neg e2, capSq, Bool.false_eq_true, if_false]
          exact v1 s hs
    · rw [k2, k1]

theorem tw_opp (t : Color) : zTurn = tw t ^^^ tw t.opp := by
  cases t <;> simp [tw, Color.opp]

theorem makeMove_key (b : Board) (m : Ply) (hw : WF b) (hk : b.zkey = b.scratchKey) (g : Gen b m) :
    (b.makeMove m).zkey = (b.makeMove m).scratchKey := by
  have hb := (bbs_ok b hw m g).2.2
  unfold newBBS at hb
  rw [scratchKey_eq (b.makeMove m), makeMove_eq]
  simp only [Board.rights, Board.top, List.headD_cons]
  rw [hb, hk, scratchKey_eq b, tw_opp b.turn]
  simp only [Board.rights, Board.top]
  xor_solve

/-- a right that survives a move was there before, and the move neither moved the king or that rook
    nor captured that rook -/
theorem newRights_sub (m : Ply) (r : Rights) :
    ((newRights m r).wk = true → r.wk = true ∧ m.piece ≠ ⟨.king, .white⟩ ∧
      (m.piece = ⟨.rook, .white⟩ → m.start ≠ ⟨0,7⟩) ∧ (m.captured = some ⟨.rook, .white⟩ → m.dest ≠ ⟨0,7⟩)) ∧
    ((newRights m r).wq = true → r.wq = true ∧ m.piece ≠ ⟨.king, .white⟩ ∧
      (m.piece = ⟨.rook, .white⟩ → m.start ≠ ⟨0,0⟩) ∧ (m.captured = some ⟨.rook, .white⟩ → m.dest ≠ ⟨0,0⟩)) ∧
    ((newRights m r).bk = true → r.bk = true ∧ m.piece ≠ ⟨.king, .black⟩ ∧
      (m.piece = ⟨.rook, .black⟩ → m.start ≠ ⟨7,7⟩) ∧ (m.captured = some ⟨.rook, .black⟩ → m.dest ≠ ⟨7,7⟩)) ∧
    ((newRights m r).bq = true → r.bq = true ∧ m.piece ≠ ⟨.king, .black⟩ ∧
      (m.piece = ⟨.rook, .black⟩ → m.start ≠ ⟨7,0⟩) ∧ (m.captured = some ⟨.rook, .black⟩ → m.dest ≠ ⟨7,0⟩)) := by
  unfold newRights newRights'
  cases hp : m.piece with
  | mk pk c =>
    rcases hcap : m.captured with _ | ⟨pk', c'⟩
    · cases pk <;> cases c <;> simp only [clr] <;> (repeat' split) <;> simp_all
    · cases pk <;> cases c <;> cases pk' <;> cases c' <;> simp only [clr] <;> (repeat' split) <;> simp_all


theorem corner_kept (b : Board) (hw : WF b) (m : Ply) (g : Gen b m) (c : Square) (hc : IR c) (rk : Kind)
    (hcr : c.rank = (if rk.color = .white then 0 else 7))
    (hb : b.bbs.pieceAt c = some rk)
    (h0 : m.piece ≠ ⟨.king, rk.color⟩)
    (h1 : m.piece = rk → m.start ≠ c) (h2 : m.captured = some rk → m.dest ≠ c) :
    finalView b m c = some rk := by
  have n1 : c ≠ m.start := by
    intro e; subst e
    have := g.shape.piece
    unfold Board.pieceAt at this
    rw [hb] at this; injection this with this
    exact h1 this.symm rfl
  have n2 : c ≠ m.dest := by
    intro e; subst e
    cases he : m.enPassant
    · have := g.cap; rw [he] at this; simp only [Bool.false_eq_true, if_false] at this
      unfold Board.pieceAt at this; rw [hb] at this
      exact h2 this rfl
    · have := (g.shape.ep he).1
      unfold Board.pieceAt at this; rw [hb] at this; cases this
  have n3 : c ≠ capSq m.start m.dest m.enPassant := by
    cases he : m.enPassant
    · simpa [capSq] using n2
    · have := (g.shape.ep he).2.1
      intro e
      have e' : c.rank = m.start.rank := by rw [e]; simp [capSq]
      rw [hcr, this] at e'
      revert e'; split <;> split <;> decide
  have v1 : viewMove b.bbs.pieceAt m.start m.dest m.piece m.promoted m.enPassant c = some rk := by
    unfold viewMove; rw [if_neg n2, if_neg n1, if_neg n3, hb]
  unfold finalView castleView
  cases hcs : m.isCastles
  · simpa using v1
  · obtain ⟨rs, rd, hcr', -, -, -, -, -, -, -, -, -, -, -, -, hpc, hr1, hr2, hr3⟩ := castle_squares b hw m g hcs
    simp only [if_true, hcr']
    have hcol : ¬ b.turn = rk.color := by
      intro e; apply h0; rw [hpc, e]
    have m1 : c ≠ rs := by
      intro e; rw [e, hr1, hr3] at hcr
      revert hcr hcol; cases b.turn <;> cases rk.color <;> simp
    have m2 : c ≠ rd := by
      intro e; rw [e, hr2, hr3] at hcr
      revert hcr hcol; cases b.turn <;> cases rk.color <;> simp
    unfold viewMove
    rw [if_neg m2, if_neg m1]
    simp only [capSq, Bool.false_eq_true, if_false, if_neg m2]
    exact v1

theorem viewMove_some (v : Square → Option Kind) (st d : Square) (mv : Kind) (pr : Option Kind) (ep : Bool)
    (s : Square) (k : Kind) (h : viewMove v st d mv pr ep s = some k) :
    (s = d ∧ k = pr.getD mv) ∨ v s = some k := by
  unfold viewMove at h
  split at h
  · rename_i e; injection h with h; exact Or.inl ⟨e, h.symm⟩
  · split at h
    · cases h
    · split at h
      · cases h
      · exact Or.inr h

theorem finalView_some (b : Board) (m : Ply) (s : Square) (k : Kind) (h : finalView b m s = some k) :
    (s = m.dest ∧ k = m.promoted.getD m.piece) ∨ k = ⟨.rook, b.turn⟩ ∨ b.bbs.pieceAt s = some k := by
  unfold finalView castleView at h
  split at h
  · rcases hcr : castleRookSquares m.dest with _ | ⟨rs, rd⟩ <;> rw [hcr] at h <;> simp only at h
    · rcases viewMove_some _ _ _ _ _ _ _ _ h with e | e
      · exact Or.inl e
      · exact Or.inr (Or.inr e)
    · rcases viewMove_some _ _ _ _ _ _ _ _ h with ⟨_, e⟩ | h'
      · exact Or.inr (Or.inl e)
      · rcases viewMove_some _ _ _ _ _ _ _ _ h' with e | e
        · exact Or.inl e
        · exact Or.inr (Or.inr e)
  · rcases viewMove_some _ _ _ _ _ _ _ _ h with e | e
    · exact Or.inl e
    · exact Or.inr (Or.inr e)

/-- no king appears off its home square while the side keeps a right -/
theorem kings_kept (b : Board) (m : Ply) (g : Gen b m) (c : Color) (home : Square)
    (hb : ∀ s : Square, s.rank < 8 → s.file < 8 → b.pieceAt s = some ⟨.king, c⟩ → s = home)
    (h0 : m.piece ≠ ⟨.king, c⟩)
    (s : Square) (hs : IR s) (h : finalView b m s = some ⟨.king, c⟩) : s = home := by
  rcases finalView_some b m s _ h with ⟨_, e⟩ | e | e
  · exfalso
    cases hp : m.promoted with
    | none => rw [hp] at e; exact h0 e.symm
    | some q =>
      rw [hp] at e
      have := g.shape.promo q hp
      simp only [Option.getD_some] at e
      rw [← e] at this; exact this rfl
  · cases e
  · exact hb s hs.1 hs.2 e

theorem makeMove_wf (b : Board) (m : Ply) (hw : WF b) (g : Gen b m) : WF (b.makeMove m) := by
  obtain ⟨wb, vb, -⟩ := bbs_ok b hw m g
  have hbbs : (b.makeMove m).bbs = newBBS b m := by rw [makeMove_eq]; rfl
  have hrt : (b.makeMove m).rights = newRights m b.rights := by rw [makeMove_eq]; rfl
  have hep : (b.makeMove m).ep = newEp m := by rw [makeMove_eq]
  have hturn : (b.makeMove m).turn = b.turn.opp := by rw [makeMove_eq]
  have htop1 : (b.makeMove m).top.isDoublePush = m.isDoublePush := by rw [makeMove_eq]; rfl
  have htop2 : (b.makeMove m).top.dest = m.dest := by rw [makeMove_eq]; rfl
  refine ⟨by rw [hbbs]; exact wb, by rw [makeMove_eq]; simp, ?_, ?_, ?_⟩
  · obtain ⟨s1, s2, s3, s4⟩ := newRights_sub m b.rights
    obtain ⟨r1, r2, r3, r4⟩ := hw.rights
    unfold RightsConsistent Board.pieceAt; rw [hrt, hbbs]
    refine ⟨fun h => ?_, fun h => ?_, fun h => ?_, fun h => ?_⟩
    · obtain ⟨a1, a2, a3, a4⟩ := s1 h
      rw [vb _ (by decide)]
      exact corner_kept b hw m g ⟨0,7⟩ (by decide) ⟨.rook, .white⟩ rfl (r1 a1) a2 a3 a4
    · obtain ⟨a1, a2, a3, a4⟩ := s2 h
      rw [vb _ (by decide)]
      exact corner_kept b hw m g ⟨0,0⟩ (by decide) ⟨.rook, .white⟩ rfl (r2 a1) a2 a3 a4
    · obtain ⟨a1, a2, a3, a4⟩ := s3 h
      rw [vb _ (by decide)]
      exact corner_kept b hw m g ⟨7,7⟩ (by decide) ⟨.rook, .black⟩ rfl (r3 a1) a2 a3 a4
    · obtain ⟨a1, a2, a3, a4⟩ := s4 h
      rw [vb _ (by decide)]
      exact corner_kept b hw m g ⟨7,0⟩ (by decide) ⟨.rook, .black⟩ rfl (r4 a1) a2 a3 a4
  · obtain ⟨s1, s2, s3, s4⟩ := newRights_sub m b.rights
    obtain ⟨k1, k2⟩ := hw.kings
    unfold KingsHome Board.pieceAt; rw [hrt, hbbs]
    refine ⟨fun h s hs1 hs2 hk => ?_, fun h s hs1 hs2 hk => ?_⟩
    · rw [vb s ⟨hs1, hs2⟩] at hk
      rcases h with h | h
      · obtain ⟨a1, a2, -, -⟩ := s1 h
        exact kings_kept b m g .white _ (k1 (Or.inl a1)) a2 s ⟨hs1, hs2⟩ hk
      · obtain ⟨a1, a2, -, -⟩ := s2 h
        exact kings_kept b m g .white _ (k1 (Or.inr a1)) a2 s ⟨hs1, hs2⟩ hk
    · rw [vb s ⟨hs1, hs2⟩] at hk
      rcases h with h | h
      · obtain ⟨a1, a2, -, -⟩ := s3 h
        exact kings_kept b m g .black _ (k2 (Or.inl a1)) a2 s ⟨hs1, hs2⟩ hk
      · obtain ⟨a1, a2, -, -⟩ := s4 h
        exact kings_kept b m g .black _ (k2 (Or.inr a1)) a2 s ⟨hs1, hs2⟩ hk
  · unfold EpConsistent
    rw [hep, htop1, htop2, hturn]
    refine ⟨rfl, ?_⟩
    intro f hf
    unfold newEp at hf
    cases hdp : m.isDoublePush
    · rw [hdp] at hf; simp at hf
    · rw [hdp] at hf; simp only [if_true] at hf; injection hf with hf
      obtain ⟨d1, d2, d3, d4, d5, d6⟩ := g.shape.dp hdp
      have hcol := g.shape.color
      have hfin : ∀ s, IR s → (b.makeMove m).pieceAt s =
          viewMove b.bbs.pieceAt m.start m.dest m.piece m.promoted m.enPassant s := by
        intro s hs
        unfold Board.pieceAt; rw [hbbs, vb s hs]
        unfold finalView castleView; rw [d2]; simp
      have hf8 : f < 8 := by rw [← hf]; exact g.ird.2
      have hpc : m.piece = ⟨.pawn, b.turn⟩ := by
        cases hp : m.piece with
        | mk pk c => rw [hp] at d1 hcol; simp only at d1 hcol; subst d1; subst hcol; rfl
      refine ⟨hf8, ?_, ?_⟩
      · cases ht : b.turn
        · rw [ht] at d6; simp only [if_true] at d6
          have hd : m.dest = ⟨3, f⟩ := by
            cases hd' : m.dest with
            | mk r fl => rw [hd'] at d6 hf; simp only at d6 hf; rw [d6.2.1, hf]
          show (b.makeMove m).pieceAt ⟨3, f⟩ = some ⟨.pawn, .white⟩
          rw [hfin _ ⟨by show (3:Nat) < 8; omega, hf8⟩]
          unfold viewMove; rw [← hd, if_pos rfl, d4, hpc, ht]; rfl
        · rw [ht] at d6; simp only [if_false, reduceCtorEq] at d6
          have hd : m.dest = ⟨4, f⟩ := by
            cases hd' : m.dest with
            | mk r fl => rw [hd'] at d6 hf; simp only at d6 hf; rw [d6.2.1, hf]
          show (b.makeMove m).pieceAt ⟨4, f⟩ = some ⟨.pawn, .black⟩
          rw [hfin _ ⟨by show (4:Nat) < 8; omega, hf8⟩]
          unfold viewMove; rw [← hd, if_pos rfl, d4, hpc, ht]; rfl
      · cases ht : b.turn
        · rw [ht] at d6; simp only [if_true] at d6
          show (b.makeMove m).pieceAt ⟨2, f⟩ = none
          rw [hfin _ ⟨by show (2:Nat) < 8; omega, hf8⟩]
          unfold viewMove
          have e1 : (⟨2, f⟩ : Square) ≠ m.dest := by intro e; rw [← e] at d6; simp at d6
          have e2 : (⟨2, f⟩ : Square) ≠ m.start := by intro e; rw [← e] at d6; simp at d6
          rw [if_neg e1, if_neg e2, d3]
          simp only [capSq, Bool.false_eq_true, if_false, if_neg e1]
          rw [← hf, d5]; exact d6.2.2
        · rw [ht] at d6; simp only [if_false, reduceCtorEq] at d6
          show (b.makeMove m).pieceAt ⟨5, f⟩ = none
          rw [hfin _ ⟨by show (5:Nat) < 8; omega, hf8⟩]
          unfold viewMove
          have e1 : (⟨5, f⟩ : Square) ≠ m.dest := by intro e; rw [← e] at d6; simp at d6
          have e2 : (⟨5, f⟩ : Square) ≠ m.start := by intro e; rw [← e] at d6; simp at d6
          rw [if_neg e1, if_neg e2, d3]
          simp only [capSq, Bool.false_eq_true, if_false, if_neg e1]
          rw [← hf, d5]; exact d6.2.2

theorem makeMove_ok (b : Board) (m : Ply) (hw : WF b) (hk : b.zkey = b.scratchKey) (hm : m ∈ b.allMoves) :
    (b.makeMove m).zkey = (b.makeMove m).scratchKey ∧ WF (b.makeMove m) :=
  have g := gen_of_mem b hw m hm
  ⟨makeMove_key b m hw hk g, makeMove_wf b m hw g⟩

end RCE.Proofs.BoardMake
