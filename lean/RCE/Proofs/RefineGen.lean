import RCE.Proofs.BoardMake
/-! More of what the pseudo-legal generator guarantees (`Gen2`): destinations lie in the attack set of the
    moving piece or are empty, are never occupied by the mover's side, and the flags of a move are
    determined by its geometry. -/
namespace RCE.Proofs.RefineGen
set_option linter.unusedSimpArgs false
open RCE RCE.Proofs.BoardBits RCE.Proofs.BoardWF RCE.Proofs.BoardPBB RCE.Proofs.BoardGen

theorem mem_bitIndices (x : BB) (s : Nat) (h : s ∈ bitIndices x) : s < 64 ∧ testBit x s = true := by
  unfold bitIndices at h; rw [List.mem_filter, List.mem_range] at h; exact h

/-- the colour unions as seen from the mailbox -/
theorem sameColor_iff (b : Board) (hw : PBB.WF b.bbs) (s : Square) (hs : IR s) (c : Color) :
    testBit (sameColorBB b c) s.idx = true ↔ ∃ k, b.pieceAt s = some k ∧ k.color = c := by
  have hi := idx_lt s hs
  constructor
  · intro h
    cases c
    · have h' : testBit b.bbs.white s.idx = true := h
      rw [white_bits _ hw _ hi] at h'
      simp only [Bool.or_eq_true] at h'
      rcases h' with ((((h'|h')|h')|h')|h')|h' <;>
        exact ⟨_, (pieceAt_iff _ hw s hs _).mpr h', rfl⟩
    · have h' : testBit b.bbs.black s.idx = true := h
      rw [black_bits _ hw _ hi] at h'
      simp only [Bool.or_eq_true] at h'
      rcases h' with ((((h'|h')|h')|h')|h')|h' <;>
        exact ⟨_, (pieceAt_iff _ hw s hs _).mpr h', rfl⟩
  · rintro ⟨⟨pk, c'⟩, hk, rfl⟩
    have := (pieceAt_iff _ hw s hs _).mp hk
    cases c'
    · show testBit b.bbs.white s.idx = true
      rw [white_bits _ hw _ hi]
      cases pk <;> simp [this]
    · show testBit b.bbs.black s.idx = true
      rw [black_bits _ hw _ hi]
      cases pk <;> simp [this]

theorem all_iff (b : Board) (hw : PBB.WF b.bbs) (s : Square) (hs : IR s) :
    testBit b.bbs.all s.idx = false ↔ b.pieceAt s = none := by
  have hi := idx_lt s hs
  constructor
  · exact pieceAt_none_of_all _ hw s hs
  · intro h
    rw [hw.all, testBit_or _ _ _ hi]
    have h1 : testBit (sameColorBB b .white) s.idx = false := by
      cases h1 : testBit (sameColorBB b .white) s.idx
      · rfl
      · obtain ⟨k, hk, _⟩ := (sameColor_iff b hw s hs _).mp h1
        rw [h] at hk; cases hk
    have h2 : testBit (sameColorBB b .black) s.idx = false := by
      cases h2 : testBit (sameColorBB b .black) s.idx
      · rfl
      · obtain ⟨k, hk, _⟩ := (sameColor_iff b hw s hs _).mp h2
        rw [h] at hk; cases hk
    have h1' : testBit b.bbs.white s.idx = false := h1
    have h2' : testBit b.bbs.black s.idx = false := h2
    rw [h1', h2']; rfl

/-- extra facts about generated moves (none mentions `captured`) -/
structure Gen2 (b : Board) (m : Ply) : Prop where
  att : b.pieceAt m.dest ≠ none → testBit (kindAttacks m.piece m.start.idx b.bbs.all) m.dest.idx = true
  notown : ∀ k, b.pieceAt m.dest = some k → k.color ≠ b.turn
  kingAdj : m.piece.pk = .king → m.isCastles = false → testBit (kingAttacks m.start.idx) m.dest.idx = true
  nonpawn : m.piece.pk ≠ .pawn → m.enPassant = false ∧ m.isDoublePush = false ∧ m.promoted = none
  prank : m.piece.pk = .pawn → m.isDoublePush = false →
    (if b.turn = .white then m.dest.rank = m.start.rank + 1 else m.start.rank = m.dest.rank + 1)
  pdiag : m.piece.pk = .pawn → m.enPassant = false → m.dest.file ≠ m.start.file → b.pieceAt m.dest ≠ none
  epf : m.enPassant = true → b.ep = some m.dest.file ∧ m.piece.pk = .pawn
  promo : ∀ q, m.promoted = some q → q.color = b.turn

/-- moves built by `mkPly` from a bit of `att &&& ~~~own` -/
theorem gen2_bits (b : Board) (hw : WF b) (A : BB) (sq : Square) (pc : Kind) (s : Nat)
    (hc : pc.color = b.turn) (hp : pc.pk ≠ .pawn)
    (hA : A = kindAttacks pc sq.idx b.bbs.all)
    (hs : s ∈ bitIndices (A &&& ~~~sameColorBB b pc.color)) :
    Gen2 b (mkPly sq (Square.ofIdx s) pc) := by
  obtain ⟨h64, hb⟩ := mem_bitIndices _ _ hs
  rw [testBit_and _ _ _ h64, testBit_not _ _ h64] at hb
  simp only [Bool.and_eq_true, Bool.not_eq_true'] at hb
  have hir := ofIdx_IR s h64
  refine ⟨fun _ => ?_, fun k hk e => ?_, fun hk _ => ?_, fun _ => ⟨rfl, rfl, rfl⟩, fun h => absurd h hp,
    fun h => absurd h hp, fun h => by simp [mkPly] at h, fun q h => by simp [mkPly] at h⟩
  · show testBit (kindAttacks pc sq.idx b.bbs.all) (Square.ofIdx s).idx = true
    rw [ofIdx_idx, ← hA]; exact hb.1
  · have : testBit (sameColorBB b pc.color) (Square.ofIdx s).idx = true :=
      (sameColor_iff b hw.bbs _ hir _).mpr ⟨k, hk, by rw [hc]; exact e⟩
    rw [ofIdx_idx, hb.2] at this; cases this
  · show testBit (kingAttacks sq.idx) (Square.ofIdx s).idx = true
    have hk' : pc.pk = .king := hk
    have : kindAttacks pc sq.idx b.bbs.all = kingAttacks sq.idx := by unfold kindAttacks; rw [hk']
    rw [ofIdx_idx, ← this, ← hA]; exact hb.1

theorem gen2_simple (b : Board) (hw : WF b) (A : BB) (sq : Square) (pc : Kind) (m : Ply)
    (hc : pc.color = b.turn) (hp : pc.pk ≠ .pawn) (hA : A = kindAttacks pc sq.idx b.bbs.all)
    (hm : m ∈ simpleMoveset A sq b pc) : Gen2 b m := by
  unfold simpleMoveset at hm
  rw [List.mem_map] at hm
  obtain ⟨s, hs, rfl⟩ := hm
  exact gen2_bits b hw A sq pc s hc hp hA hs

/-- castling moves, from their `Shape` -/
theorem gen2_castle (b : Board) (m : Ply) (hs : Shape b m) (hc : m.isCastles = true) : Gen2 b m := by
  obtain ⟨h1, h2, h3, h4, h5⟩ := hs.castle hc
  have hd : b.pieceAt m.dest = none := by
    rcases h5 with ⟨-, -, d, -, -, e⟩ | ⟨-, -, d, -, -, e⟩ | ⟨-, -, d, -, -, e⟩ | ⟨-, -, d, -, -, e⟩ <;> (rw [d]; exact e)
  refine ⟨fun h => absurd hd h, fun k hk => (by rw [hd] at hk; cases hk), fun _ h => (by rw [hc] at h; cases h),
    fun _ => ⟨h1, h2, h3⟩, fun h => (by rw [h4] at h; cases h), fun h => (by rw [h4] at h; cases h),
    fun h => (by rw [h1] at h; cases h), fun q h => (by rw [h3] at h; cases h)⟩

theorem gen2_king (b : Board) (hw : WF b) (sq : Square) (c : Color) (m : Ply)
    (hc : c = b.turn) (hs : Shape b m) (hm : m ∈ kingMoveset sq b c) : Gen2 b m := by
  cases hcs : m.isCastles
  · unfold kingMoveset at hm
    simp only [List.mem_append] at hm
    rcases hm with (hm | hm) | hm
    · rw [List.mem_map] at hm
      obtain ⟨s, hs', rfl⟩ := hm
      exact gen2_bits b hw _ sq ⟨.king, c⟩ s hc (fun h => by cases h) rfl hs'
    · exfalso
      split at hm
      · simp only [List.mem_append] at hm
        rcases hm with hm | hm <;> split at hm <;> simp at hm <;> (subst hm; simp at hcs)
      · simp at hm
    · exfalso
      split at hm
      · simp only [List.mem_append] at hm
        rcases hm with hm | hm <;> split at hm <;> simp at hm <;> (subst hm; simp at hcs)
      · simp at hm
  · exact gen2_castle b m hs hcs

/-! ### pawns -/

def fwd (c : Color) (s d : Square) : Prop :=
  match c with | .white => d.rank = s.rank + 1 | .black => s.rank = d.rank + 1

def dpRank : Color → Nat | .white => 3 | .black => 4
def epRank : Color → Nat | .white => 5 | .black => 2

/-- facts about an element of `caps ++ single ++ double ++ eps` -/
structure PF (b : Board) (sq : Square) (c : Color) (p : Ply) : Prop where
  start : p.start = sq
  piece : p.piece = ⟨.pawn, c⟩
  promoted : p.promoted = none
  rank : IR p.dest → p.isDoublePush = false → fwd c sq p.dest
  dprank : p.isDoublePush = true → p.dest.rank = dpRank c
  eprank : p.enPassant = true → p.dest.rank = epRank c
  att : IR p.dest → b.pieceAt p.dest ≠ none → testBit (pawnAttacks (c == .white) sq.idx) p.dest.idx = true
  notown : IR p.dest → ∀ k, b.pieceAt p.dest = some k → k.color ≠ c
  diag : IR p.dest → p.enPassant = false → p.dest.file ≠ sq.file → b.pieceAt p.dest ≠ none
  epf : p.enPassant = true → b.ep = some p.dest.file

theorem pf_empty (b : Board) (sq : Square) (c : Color) (p : Ply)
    (h1 : p.start = sq) (h2 : p.piece = ⟨.pawn, c⟩) (h3 : p.promoted = none)
    (hr : IR p.dest → p.isDoublePush = false → fwd c sq p.dest)
    (hdp : p.isDoublePush = true → p.dest.rank = dpRank c)
    (hep : p.enPassant = true → p.dest.rank = epRank c)
    (he : IR p.dest → b.pieceAt p.dest = none)
    (hd : p.enPassant = false → p.dest.file = sq.file)
    (hf : p.enPassant = true → b.ep = some p.dest.file) : PF b sq c p :=
  ⟨h1, h2, h3, hr, hdp, hep, fun i h => absurd (he i) h, fun i k hk => (by rw [he i] at hk; cases hk),
    fun _ e h => absurd (hd e) h, hf⟩

set_option maxRecDepth 100000 in
theorem pawnW_geo : ∀ i s : Fin 64, testBit (pawnAttacks true i.val) s.val = true → s.val / 8 = i.val / 8 + 1 := by
  decide +kernel

set_option maxRecDepth 100000 in
theorem pawnB_geo : ∀ i s : Fin 64, testBit (pawnAttacks false i.val) s.val = true → i.val / 8 = s.val / 8 + 1 := by
  decide +kernel

theorem pf_caps (b : Board) (hw : WF b) (sq : Square) (hsq : IR sq) (c : Color) (s : Nat)
    (hs : s ∈ bitIndices (pawnAttacks (c == .white) sq.idx &&& sameColorBB b c.opp)) :
    PF b sq c (mkPly sq (Square.ofIdx s) ⟨.pawn, c⟩) := by
  obtain ⟨h64, hb⟩ := mem_bitIndices _ _ hs
  rw [testBit_and _ _ _ h64] at hb
  simp only [Bool.and_eq_true] at hb
  have hir := ofIdx_IR s h64
  obtain ⟨k, hk, hkc⟩ := (sameColor_iff b hw.bbs _ hir c.opp).mp (by rw [ofIdx_idx]; exact hb.2)
  have hsi := idx_lt sq hsq
  refine ⟨rfl, rfl, rfl, fun _ _ => ?_, fun h => by simp [mkPly] at h, fun h => by simp [mkPly] at h,
    fun _ _ => ?_, fun _ k' hk' e => ?_, fun _ _ _ => ?_, fun h => by simp [mkPly] at h⟩
  · show fwd c sq (Square.ofIdx s)
    cases c
    · have := pawnW_geo ⟨sq.idx, hsi⟩ ⟨s, h64⟩ hb.1
      simp only [Square.idx] at this
      show s / 8 = sq.rank + 1
      have := hsq.2; omega
    · have := pawnB_geo ⟨sq.idx, hsi⟩ ⟨s, h64⟩ hb.1
      simp only [Square.idx] at this
      show sq.rank = s / 8 + 1
      have := hsq.2; omega
  · show testBit _ (Square.ofIdx s).idx = true
    rw [ofIdx_idx]; exact hb.1
  · have hk'' : b.pieceAt (Square.ofIdx s) = some k' := hk'
    rw [hk] at hk''; injection hk'' with hk''; subst hk''
    rw [hkc] at e; cases c <;> cases e
  · show b.pieceAt (Square.ofIdx s) ≠ none
    rw [hk]; exact fun h => by cases h

theorem bit_and_all_zero (b : Board) (hw : WF b) (s : Square) (hs : IR s) (i : Nat) (hi : i = s.idx)
    (h : (bit i &&& b.bbs.all == 0) = true) : b.pieceAt s = none := by
  apply pieceAt_none_of_all _ hw.bbs _ hs
  rw [← hi]
  exact bit_and_eq_zero _ _ (by rw [hi]; exact idx_lt s hs) h


theorem pf_pawn_white (b : Board) (hw : WF b) (sq : Square) (hsq : IR sq) (m : Ply)
    (h2 : Color.white = b.turn) (hm : m ∈ pawnMoveset sq b .white) :
    ∃ p, PF b sq .white p ∧ (m = p ∨ (p.dest.rank = 7 ∧ ∃ q : Kind, q.color = .white ∧
      m = { mkPly p.start p.dest p.piece with promoted := some q })) := by
  have hg := pawnGeom sq hsq
  obtain ⟨g1, g2, g3, g4, -, -, -, -, g9, g10, -, -⟩ := hg
  simp only [pawnMoveset] at hm
  rw [List.mem_flatMap] at hm
  obtain ⟨p, hp, hm⟩ := hm
  refine ⟨p, ?_, ?_⟩
  · clear hm
    simp only [List.mem_append] at hp
    rcases hp with ((hp | hp) | hp) | hp
    · rw [List.mem_map] at hp
      obtain ⟨s, hs, rfl⟩ := hp
      exact pf_caps b hw sq hsq .white s hs
    · split at hp
      · rename_i hn
        simp only [List.mem_singleton] at hp; subst hp
        refine pf_empty b sq .white _ rfl rfl rfl (fun _ _ => ?_) (fun h => by simp [mkPly] at h) (fun h => by simp [mkPly] at h)
          (fun hd => ?_) (fun _ => ?_) (fun h => by simp [mkPly] at h)
        · show (sq.add 1 0).rank = sq.rank + 1
          rw [g1]
        · have hd' : IR (sq.add 1 0) := hd
          show b.pieceAt (sq.add 1 0) = none
          rw [g1] at hd' ⊢
          rw [g9 hd'.1] at hn
          exact bit_and_all_zero b hw _ hd' (sq.idx + 8) (by simp only [Square.idx]; omega) hn
        · show (sq.add 1 0).file = sq.file
          rw [g1]
      · simp at hp
    · split at hp
      · rename_i hc
        simp only [Bool.and_eq_true, beq_iff_eq] at hc
        obtain ⟨⟨hr, _⟩, hn2⟩ := hc
        simp only [List.mem_singleton] at hp; subst hp
        refine pf_empty b sq .white _ rfl rfl rfl (fun _ h => by simp [mkPly] at h) (fun _ => ?_) (fun h => by simp [mkPly] at h)
          (fun hd => ?_) (fun _ => ?_) (fun h => by simp [mkPly] at h)
        · show ((sq.add 1 0).add 1 0).rank = 3
          rw [g2]; simp only; omega
        · have hd' : IR ((sq.add 1 0).add 1 0) := hd
          show b.pieceAt ((sq.add 1 0).add 1 0) = none
          rw [g2] at hd' ⊢
          rw [g10 hd'.1] at hn2
          exact bit_and_all_zero b hw _ hd' (sq.idx + 16) (by simp only [Square.idx]; omega) (by simpa using hn2)
        · show ((sq.add 1 0).add 1 0).file = sq.file
          rw [g2]
      · simp at hp
    · split at hp
      · rename_i hr
        simp only [beq_iff_eq] at hr
        simp only [List.mem_append] at hp
        have hep := hw.ep.2
        rcases hp with hp | hp <;> split at hp
        · rename_i he
          simp only [beq_iff_eq] at he
          simp only [List.mem_singleton] at hp; subst hp
          have := (hep _ he).2.2
          rw [if_pos h2.symm] at this
          refine pf_empty b sq .white _ rfl rfl rfl (fun _ _ => ?_) (fun h => by simp [mkPly] at h) (fun _ => ?_)
            (fun _ => ?_) (fun h => by simp [mkPly] at h) (fun _ => he)
          · show ((sq.add 1 0).add 0 1).rank = sq.rank + 1
            rw [g3]
          · show ((sq.add 1 0).add 0 1).rank = 5
            rw [g3]; simp only; omega
          · show b.pieceAt ((sq.add 1 0).add 0 1) = none
            rw [g3] at this ⊢; simp only at this; rw [hr]; exact this
        · simp at hp
        · rename_i he
          simp only [beq_iff_eq] at he
          simp only [List.mem_singleton] at hp; subst hp
          have := (hep _ he).2.2
          rw [if_pos h2.symm] at this
          refine pf_empty b sq .white _ rfl rfl rfl (fun _ _ => ?_) (fun h => by simp [mkPly] at h) (fun _ => ?_)
            (fun _ => ?_) (fun h => by simp [mkPly] at h) (fun _ => he)
          · show ((sq.add 1 0).add 0 (-1)).rank = sq.rank + 1
            rw [g4]
          · show ((sq.add 1 0).add 0 (-1)).rank = 5
            rw [g4]; simp only; omega
          · show b.pieceAt ((sq.add 1 0).add 0 (-1)) = none
            rw [g4] at this ⊢; simp only at this; rw [hr]; exact this
        · simp at hp
      · simp at hp
  · split at hm
    · rename_i hr
      simp only [beq_iff_eq] at hr
      right
      refine ⟨hr, ?_⟩
      simp only [List.mem_cons, List.not_mem_nil, or_false] at hm
      rcases hm with rfl | rfl | rfl | rfl
      · exact ⟨_, rfl, rfl⟩
      · exact ⟨_, rfl, rfl⟩
      · exact ⟨_, rfl, rfl⟩
      · exact ⟨_, rfl, rfl⟩
    · simp only [List.mem_singleton] at hm; left; exact hm


theorem pf_pawn_black (b : Board) (hw : WF b) (sq : Square) (hsq : IR sq) (m : Ply)
    (h2 : Color.black = b.turn) (hm : m ∈ pawnMoveset sq b .black) :
    ∃ p, PF b sq .black p ∧ (m = p ∨ (p.dest.rank = 0 ∧ ∃ q : Kind, q.color = .black ∧
      m = { mkPly p.start p.dest p.piece with promoted := some q })) := by
  have hg := pawnGeom sq hsq
  obtain ⟨-, -, -, -, g1, g2, g3, g4, -, -, g9, g10⟩ := hg
  have hnw : ¬ b.turn = Color.white := by rw [← h2]; decide
  simp only [pawnMoveset] at hm
  rw [List.mem_flatMap] at hm
  obtain ⟨p, hp, hm⟩ := hm
  refine ⟨p, ?_, ?_⟩
  · clear hm
    simp only [List.mem_append] at hp
    rcases hp with ((hp | hp) | hp) | hp
    · rw [List.mem_map] at hp
      obtain ⟨s, hs, rfl⟩ := hp
      exact pf_caps b hw sq hsq .black s hs
    · split at hp
      · rename_i hn
        simp only [List.mem_singleton] at hp; subst hp
        refine pf_empty b sq .black _ rfl rfl rfl (fun hd _ => ?_) (fun h => by simp [mkPly] at h) (fun h => by simp [mkPly] at h)
          (fun hd => ?_) (fun _ => ?_) (fun h => by simp [mkPly] at h)
        · have hd' : IR (sq.add (-1) 0) := hd
          show sq.rank = (sq.add (-1) 0).rank + 1
          rw [g1] at hd' ⊢
          have := hd'.1; simp only at this ⊢
          split at this <;> simp_all <;> omega
        · have hd' : IR (sq.add (-1) 0) := hd
          show b.pieceAt (sq.add (-1) 0) = none
          rw [g1] at hd' ⊢
          have h1 : 1 ≤ sq.rank := by
            have := hd'.1; simp only at this
            split at this <;> omega
          rw [g9 h1] at hn
          exact bit_and_all_zero b hw _ hd' (sq.idx - 8) (by simp only [Square.idx]; split <;> omega) hn
        · show (sq.add (-1) 0).file = sq.file
          rw [g1]
      · simp at hp
    · split at hp
      · rename_i hc
        simp only [Bool.and_eq_true, beq_iff_eq] at hc
        obtain ⟨⟨hr, _⟩, hn2⟩ := hc
        simp only [List.mem_singleton] at hp; subst hp
        refine pf_empty b sq .black _ rfl rfl rfl (fun _ h => by simp [mkPly] at h) (fun _ => ?_) (fun h => by simp [mkPly] at h)
          (fun hd => ?_) (fun _ => ?_) (fun h => by simp [mkPly] at h)
        · show ((sq.add (-1) 0).add (-1) 0).rank = 4
          rw [g2]; simp [hr]
        · have hd' : IR ((sq.add (-1) 0).add (-1) 0) := hd
          show b.pieceAt ((sq.add (-1) 0).add (-1) 0) = none
          rw [g2] at hd' ⊢
          rw [g10 (by omega)] at hn2
          exact bit_and_all_zero b hw _ hd' (sq.idx - 16) (by simp only [Square.idx, hr]; simp; omega) (by simpa using hn2)
        · show ((sq.add (-1) 0).add (-1) 0).file = sq.file
          rw [g2]
      · simp at hp
    · split at hp
      · rename_i hr
        simp only [beq_iff_eq] at hr
        simp only [List.mem_append] at hp
        have hep := hw.ep.2
        rcases hp with hp | hp <;> split at hp
        · rename_i he
          simp only [beq_iff_eq] at he
          simp only [List.mem_singleton] at hp; subst hp
          have := (hep _ he).2.2
          rw [if_neg hnw] at this
          refine pf_empty b sq .black _ rfl rfl rfl (fun _ _ => ?_) (fun h => by simp [mkPly] at h) (fun _ => ?_)
            (fun _ => ?_) (fun h => by simp [mkPly] at h) (fun _ => he)
          · show sq.rank = ((sq.add (-1) 0).add 0 1).rank + 1
            rw [g3]; simp [hr]
          · show ((sq.add (-1) 0).add 0 1).rank = 2
            rw [g3]; simp [hr]
          · show b.pieceAt ((sq.add (-1) 0).add 0 1) = none
            rw [g3] at this ⊢; simp only at this; rw [hr]; exact this
        · simp at hp
        · rename_i he
          simp only [beq_iff_eq] at he
          simp only [List.mem_singleton] at hp; subst hp
          have := (hep _ he).2.2
          rw [if_neg hnw] at this
          refine pf_empty b sq .black _ rfl rfl rfl (fun _ _ => ?_) (fun h => by simp [mkPly] at h) (fun _ => ?_)
            (fun _ => ?_) (fun h => by simp [mkPly] at h) (fun _ => he)
          · show sq.rank = ((sq.add (-1) 0).add 0 (-1)).rank + 1
            rw [g4]; simp [hr]
          · show ((sq.add (-1) 0).add 0 (-1)).rank = 2
            rw [g4]; simp [hr]
          · show b.pieceAt ((sq.add (-1) 0).add 0 (-1)) = none
            rw [g4] at this ⊢; simp only at this; rw [hr]; exact this
        · simp at hp
      · simp at hp
  · split at hm
    · rename_i hr
      simp only [beq_iff_eq] at hr
      right
      refine ⟨hr, ?_⟩
      simp only [List.mem_cons, List.not_mem_nil, or_false] at hm
      rcases hm with rfl | rfl | rfl | rfl
      · exact ⟨_, rfl, rfl⟩
      · exact ⟨_, rfl, rfl⟩
      · exact ⟨_, rfl, rfl⟩
      · exact ⟨_, rfl, rfl⟩
    · simp only [List.mem_singleton] at hm; left; exact hm


def backRank : Color → Nat | .white => 7 | .black => 0

theorem gen2_of_pf (b : Board) (sq : Square) (c : Color) (hc : c = b.turn) (m p : Ply) (pf : PF b sq c p)
    (hd : IR m.dest)
    (hm : m = p ∨ (p.dest.rank = backRank c ∧ ∃ q : Kind, q.color = c ∧
      m = { mkPly p.start p.dest p.piece with promoted := some q })) : Gen2 b m := by
  have key : m.start = p.start ∧ m.dest = p.dest ∧ m.piece = p.piece ∧ m.enPassant = p.enPassant ∧
      m.isDoublePush = p.isDoublePush ∧ (∀ q, m.promoted = some q → q.color = c) := by
    rcases hm with rfl | ⟨hr, q, hq, rfl⟩
    · exact ⟨rfl, rfl, rfl, rfl, rfl, fun q h => by rw [pf.promoted] at h; cases h⟩
    · refine ⟨rfl, rfl, rfl, ?_, ?_, fun q' h => ?_⟩
      · cases h : p.enPassant
        · rfl
        · have := pf.eprank h; rw [hr] at this; cases c <;> simp [epRank, backRank] at this
      · cases h : p.isDoublePush
        · rfl
        · have := pf.dprank h; rw [hr] at this; cases c <;> simp [dpRank, backRank] at this
      · have h' : some q = some q' := h
        injection h' with h'; rw [← h']; exact hq
  obtain ⟨k1, k2, k3, k4, k5, k6⟩ := key
  rw [k2] at hd
  have hpk : m.piece.pk = .pawn := by rw [k3, pf.piece]
  refine ⟨fun h => ?_, fun k hk => ?_, fun h => (by rw [hpk] at h; cases h), fun h => absurd hpk h,
    fun _ h => ?_, fun _ h hf => ?_, fun h => ⟨?_, hpk⟩, fun q h => (by rw [← hc]; exact k6 q h)⟩
  · rw [k1, k2, k3, pf.start, pf.piece]
    rw [k2] at h
    exact pf.att hd h
  · rw [k2] at hk; rw [← hc]; exact pf.notown hd k hk
  · rw [k5] at h
    have := pf.rank hd h
    rw [k1, k2, pf.start, ← hc]
    cases c
    · simpa [fwd] using this
    · simpa [fwd] using this
  · rw [k4] at h; rw [k2] at hf ⊢; rw [k1, pf.start] at hf
    exact pf.diag hd h hf
  · rw [k4] at h; rw [k2]; exact pf.epf h

theorem gen2_kind (b : Board) (hw : WF b) (sq : Square) (hsq : IR sq) (p : Kind) (m : Ply)
    (h1 : b.pieceAt sq = some p) (h2 : p.color = b.turn) (hm : m ∈ kindMoveset p sq b) : Gen2 b m := by
  obtain ⟨hs, -, hd, -⟩ := shape_kind b hw sq hsq p m h1 h2 hm
  unfold kindMoveset at hm
  rw [List.mem_filter] at hm
  obtain ⟨hm, -⟩ := hm
  obtain ⟨pk, c⟩ := p
  cases pk <;> simp only at hm
  · cases c
    · obtain ⟨p, pf, h⟩ := pf_pawn_white b hw sq hsq m h2 hm
      exact gen2_of_pf b sq .white h2 m p pf hd h
    · obtain ⟨p, pf, h⟩ := pf_pawn_black b hw sq hsq m h2 hm
      exact gen2_of_pf b sq .black h2 m p pf hd h
  · exact gen2_king b hw sq c m h2 hs hm
  all_goals exact gen2_simple b hw _ sq _ m h2 (fun h => by cases h) rfl hm

theorem gen2_of_mem (b : Board) (hw : WF b) (m : Ply) (hm : m ∈ b.allMoves) : Gen2 b m := by
  unfold Board.allMoves at hm
  rw [List.mem_flatMap] at hm
  obtain ⟨i, hi, hm⟩ := hm
  rw [List.mem_range] at hi
  have hsq := ofIdx_IR i hi
  dsimp only at hm
  split at hm
  · rename_i p hp
    split at hm
    · simp at hm
    · rename_i ht
      simp only [bne_iff_ne, ne_eq, Decidable.not_not] at ht
      rw [List.mem_map] at hm
      obtain ⟨m0, hm0, rfl⟩ := hm
      have g := gen2_kind b hw _ hsq p m0 hp ht.symm hm0
      split
      · exact ⟨g.att, g.notown, g.kingAdj, g.nonpawn, g.prank, g.pdiag, g.epf, g.promo⟩
      · exact ⟨g.att, g.notown, g.kingAdj, g.nonpawn, g.prank, g.pdiag, g.epf, g.promo⟩
  · simp at hm

end RCE.Proofs.RefineGen
