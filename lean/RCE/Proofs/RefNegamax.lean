import RCE.Proofs.SearchNegamaxBase
/-! The executable reference with textbook fail-soft alpha-beta pruning (`refNegamax`, `refQuiesce`,
    `refRootValue`, `refRootMoveValue` of `Spec/Negamax.lean`) computes the plain minimax value.

    * `FS r v a b` — the fail-soft contract of a result `r` for a node of true value `v` searched with
      the window `(a, b)`;
    * `refKids_spec` — the move loop, under the contract for the children;
    * `sortByScore_perm` — the capture-score ordering is a permutation, so it does not change the maximum;
    * `refQuiesce_fs`, `refNegamax_fs` — the contract for inner nodes, by induction on the fuel;
    * at the root the window `(−INF, INF)` strictly contains every value, so the result is exact. -/
namespace RCE.Proofs.RefNegamax
open RCE.Search RCE.Proofs.SearchDefs RCE.Proofs.SearchNegamax

variable {P M : Type}

/-- fail-soft contract: at or below `a` the result is an upper bound, at or above `b` a lower bound,
    strictly inside the window it is exact -/
def FS (r v a b : Int) : Prop := (r ≤ a → v ≤ r) ∧ (b ≤ r → r ≤ v) ∧ (a < r → r < b → r = v)

theorem FS_refl (v a b : Int) : FS v v a b := ⟨fun _ => Int.le_refl _, fun _ => Int.le_refl _, fun _ _ => rfl⟩

/-! ### the ordering is a permutation -/

theorem insertByScore_perm (G : Game P M) (m : M) : ∀ l : List M, List.Perm (insertByScore G m l) (m :: l)
  | [] => by simp [insertByScore]
  | x :: xs => by
    simp only [insertByScore]
    split
    · exact List.Perm.refl _
    · exact ((insertByScore_perm G m xs).cons x).trans (List.Perm.swap m x xs)

theorem sortByScore_perm (G : Game P M) : ∀ l : List M, List.Perm (sortByScore G l) l
  | [] => by simp [sortByScore]
  | x :: xs => by
    have ih := sortByScore_perm G xs
    have h : sortByScore G (x :: xs) = insertByScore G x (sortByScore G xs) := rfl
    rw [h]
    exact (insertByScore_perm G x _).trans (ih.cons x)

theorem maxList_sort (G : Game P M) (f : M → Int) (l : List M) (a : Int) :
    maxList a ((sortByScore G l).map f) = maxList a (l.map f) :=
  maxList_perm ((sortByScore_perm G l).map f) a

theorem maxList_max' (l : List Int) (a b : Int) : maxList (max a b) l = max b (maxList a l) := by
  rw [Int.max_comm, maxList_max]

/-! ### the move loop -/

theorem refKids_spec (G : Game P M) (p : P) (rec : P → Int → Int → Int) (V : P → Int) :
    ∀ (ms : List M) (best a b : Int), a < b →
      (∀ m ∈ ms, ∀ x y : Int, x < y → FS (rec (G.play p m) x y) (V (G.play p m)) x y) →
      best ≤ refKids rec G p ms best a b ∧
      (b ≤ refKids rec G p ms best a b →
        refKids rec G p ms best a b ≤ maxList best (ms.map fun m => - V (G.play p m))) ∧
      (refKids rec G p ms best a b < b → refKids rec G p ms best a b ≤ max a best →
        maxList best (ms.map fun m => - V (G.play p m)) ≤ refKids rec G p ms best a b) ∧
      (refKids rec G p ms best a b < b → max a best < refKids rec G p ms best a b →
        refKids rec G p ms best a b = maxList best (ms.map fun m => - V (G.play p m)))
  | [], best, a, b, _, _ => by
    simp only [refKids, List.map_nil, maxList_nil]
    omega
  | m :: ms, best, a, b, hab, hrec => by
    have hc := hrec m List.mem_cons_self (-b) (-a) (by omega)
    have ih := fun best' a' h => refKids_spec G p rec V ms best' a' b h
      (fun m' hm' => hrec m' (List.mem_cons_of_mem _ hm'))
    simp only [refKids, List.map_cons, maxList_cons]
    generalize rec (G.play p m) (-b) (-a) = rc at hc ⊢
    generalize V (G.play p m) = cv at hc ⊢
    unfold FS at hc
    rw [maxList_max']
    have hge := maxList_ge (ms.map fun m => - V (G.play p m)) best
    split
    · rename_i hcut
      generalize maxList best (ms.map fun m => - V (G.play p m)) = S at hge ⊢
      omega
    · rename_i hcut
      have ih' := ih (max best (-rc)) (max a (max best (-rc))) (by omega)
      rw [maxList_max'] at ih'
      generalize refKids rec G p ms (max best (-rc)) (max a (max best (-rc))) b = r at ih' ⊢
      generalize maxList best (ms.map fun m => - V (G.play p m)) = S at hge ih' ⊢
      omega

/-! ### quiescence -/

theorem refQuiesce_fs (G : Game P M) : ∀ (fuel : Nat) (p : P) (ply : Nat) (a b : Int), a < b →
    FS (refQuiesce G fuel p ply a b) (nmQuiesce G fuel p ply) a b
  | 0, p, ply, a, b, _ => by simp only [refQuiesce, nmQuiesce]; exact FS_refl _ _ _
  | fuel + 1, p, ply, a, b, hab => by
    simp only [refQuiesce, nmQuiesce]
    split
    · exact FS_refl _ _ _
    · have hge := maxList_ge (((legalMovesOf G p).filter G.isCapture).map
        fun m => - nmQuiesce G fuel (G.play p m) (ply + 1)) (G.eval p)
      split
      · rename_i hs
        unfold FS
        generalize maxList _ _ = v at hge ⊢
        omega
      · rename_i hs
        have hk := refKids_spec G p (fun c x y => refQuiesce G fuel c (ply + 1) x y)
          (fun c => nmQuiesce G fuel c (ply + 1))
          (sortByScore G ((legalMovesOf G p).filter G.isCapture)) (G.eval p) (max a (G.eval p)) b (by omega)
          (fun m _ x y hxy => refQuiesce_fs G fuel (G.play p m) (ply + 1) x y hxy)
        rw [maxList_sort G (fun m => - nmQuiesce G fuel (G.play p m) (ply + 1))] at hk
        unfold FS
        generalize refKids _ G p _ _ _ _ = r at hk ⊢
        generalize maxList _ _ = v at hge hk ⊢
        omega

/-! ### inner nodes -/

theorem refNegamax_fs (G : Game P M) : ∀ (fuel : Nat) (p : P) (depth ply : Nat) (a b : Int),
    EvalBoundedFrom G p → 1 ≤ ply → ply ≤ 255 → a < b →
    FS (refNegamax G fuel p depth ply a b) (negamax G fuel p depth ply) a b
  | 0, p, depth, ply, a, b, _, _, _, _ => by simp only [refNegamax, negamax]; exact FS_refl _ _ _
  | fuel + 1, p, depth, ply, a, b, he, h1, h2, hab => by
    haveI : DecidableEq M := fun x y => Classical.propDecidable (x = y)
    simp only [refNegamax, negamax]
    generalize (if G.inCheck p = true then depth + 1 else depth) = dep
    split
    · exact FS_refl _ _ _
    · rename_i hply
      split
      · exact FS_refl _ _ _
      · split
        · exact refQuiesce_fs G (fuel + 1) p ply a b hab
        · cases hl : legalMovesOf G p with
          | nil => exact FS_refl _ _ _
          | cons m0 ms0 =>
            simp only []
            rw [← hl]
            have hrange : ∀ m ∈ legalMovesOf G p,
                -32767 ≤ - negamax G fuel (G.play p m) (dep - 1) (ply + 1) ∧
                - negamax G fuel (G.play p m) (dep - 1) (ply + 1) ≤ 32767 := by
              intro m hm
              have := negamax_range G fuel (G.play p m) (dep - 1) (ply + 1)
                (evalBounded_step he (mem_legalMovesOf.1 hm).1) (by omega) (by omega)
              omega
            have hk := refKids_spec G p (fun c x y => refNegamax G fuel c (dep - 1) (ply + 1) x y)
              (fun c => negamax G fuel c (dep - 1) (ply + 1))
              (sortByScore G (legalMovesOf G p)) (MINS - 1) a b hab
              (fun m hm x y hxy => refNegamax_fs G fuel (G.play p m) (dep - 1) (ply + 1) x y
                (evalBounded_step he (mem_legalMovesOf.1 (((sortByScore_perm G _).mem_iff).1 hm)).1)
                (by omega) (by omega) hxy)
            rw [maxList_sort G (fun m => - negamax G fuel (G.play p m) (dep - 1) (ply + 1))] at hk
            have hmem : m0 ∈ legalMovesOf G p := by rw [hl]; exact List.mem_cons_self
            have hlow := maxList_ge_mem ((legalMovesOf G p).map
              fun m => - negamax G fuel (G.play p m) (dep - 1) (ply + 1)) (MINS - 1) _
              (List.mem_map_of_mem hmem)
            have hm0 := (hrange m0 hmem).1
            have hv : maxList MINS ((legalMovesOf G p).map
                fun m => - negamax G fuel (G.play p m) (dep - 1) (ply + 1)) =
                max MINS (maxList (MINS - 1) ((legalMovesOf G p).map
                fun m => - negamax G fuel (G.play p m) (dep - 1) (ply + 1))) := by
              rw [← maxList_max]
              congr 1
            rw [hv]
            unfold FS
            generalize refKids _ G p _ _ _ _ = r at hk ⊢
            generalize maxList (MINS - 1) _ = T at hk hlow ⊢
            unfold MINS at *
            omega

/-! ### the root -/

theorem ref_root_move_value_eq' (G : Game P M) (p : P) (d : Nat) (m : M) (he : EvalBoundedFrom G p)
    (_hd : 1 ≤ d) (hm : m ∈ legalMovesOf G p) : refRootMoveValue G p d m = rootMoveValue G p d m := by
  haveI : DecidableEq M := fun x y => Classical.propDecidable (x = y)
  have hb := evalBounded_step he (mem_legalMovesOf.1 hm).1
  have hfs := refNegamax_fs G 255 (G.play p m) (d - 1) 1 (-INF) INF hb (by omega) (by omega)
    (by unfold INF; omega)
  have hr := negamax_range G 255 (G.play p m) (d - 1) 1 hb (by omega) (by omega)
  unfold refRootMoveValue rootMoveValue
  unfold FS at hfs
  generalize refNegamax G 255 (G.play p m) (d - 1) 1 (-INF) INF = r at hfs ⊢
  generalize negamax G 255 (G.play p m) (d - 1) 1 = v at hfs hr ⊢
  unfold INF at hfs
  omega

theorem ref_root_value_eq' (G : Game P M) (p : P) (d : Nat) (he : EvalBoundedFrom G p) (_hd : 1 ≤ d)
    (hl : legalMovesOf G p ≠ []) : refRootValue G p d = rootValue G p d := by
  haveI : DecidableEq M := fun x y => Classical.propDecidable (x = y)
  have hrange : ∀ m ∈ legalMovesOf G p,
      -32767 ≤ rootMoveValue G p d m ∧ rootMoveValue G p d m ≤ 32767 := by
    intro m hm
    have := negamax_range G 255 (G.play p m) (d - 1) 1
      (evalBounded_step he (mem_legalMovesOf.1 hm).1) (by omega) (by omega)
    unfold rootMoveValue
    omega
  have hk := refKids_spec G p (fun c x y => refNegamax G 255 c (d - 1) 1 x y)
    (fun c => negamax G 255 c (d - 1) 1) (legalMovesOf G p) (MINS - 1) (-INF) INF
    (by unfold INF; omega)
    (fun m hm x y hxy => refNegamax_fs G 255 (G.play p m) (d - 1) 1 x y
      (evalBounded_step he (mem_legalMovesOf.1 hm).1) (by omega) (by omega) hxy)
  have hmap : ((legalMovesOf G p).map fun m => - negamax G 255 (G.play p m) (d - 1) 1) =
      (legalMovesOf G p).map (rootMoveValue G p d) := rfl
  rw [hmap] at hk
  obtain ⟨m0, hm0⟩ := List.exists_mem_of_ne_nil _ hl
  have hlow := maxList_ge_mem ((legalMovesOf G p).map (rootMoveValue G p d)) (MINS - 1) _
    (List.mem_map_of_mem hm0)
  have hhigh : maxList (MINS - 1) ((legalMovesOf G p).map (rootMoveValue G p d)) ≤ 32767 := by
    apply maxList_le _ _ _ _ (by unfold MINS; omega)
    intro x hx
    obtain ⟨m, hm, rfl⟩ := List.mem_map.1 hx
    exact (hrange m hm).2
  have h0 := (hrange m0 hm0).1
  have hv : rootValue G p d = max MINS (maxList (MINS - 1) ((legalMovesOf G p).map (rootMoveValue G p d))) := by
    unfold rootValue
    rw [← maxList_max]
    congr 1
  rw [hv]
  unfold refRootValue
  generalize refKids _ G p _ _ _ _ = r at hk ⊢
  generalize maxList (MINS - 1) _ = T at hk hlow hhigh ⊢
  unfold MINS INF at *
  omega

end RCE.Proofs.RefNegamax
