import RCE.Proofs.SearchUnfold
namespace RCE.Proofs.SearchAbort
open RCE.Search RCE.Proofs.SearchDefs RCE.Proofs.SearchUnfold
variable {P M : Type} [DecidableEq M]
set_option linter.unusedSectionVars false

def Interrupted (env : Env) (st : St M) : Prop :=
  st.running = false ∨
  (∃ n, env.limits.nodes = some n ∧ st.nodes ≥ n) ∨
  (∃ i, i < st.clockReads ∧
     ((∃ mt, env.limits.movetime = some mt ∧ env.clock i ≥ mt) ∨
      (env.limits.timeControl = true ∧ env.clock i ≥ env.limits.timer)))

def Le (st st' : St M) : Prop :=
  st.nodes ≤ st'.nodes ∧ st.clockReads ≤ st'.clockReads ∧ (st.running = false → st'.running = false)

theorem Le.refl (st : St M) : Le st st := ⟨Nat.le_refl _, Nat.le_refl _, id⟩
theorem Le.trans {a b c : St M} (h1 : Le a b) (h2 : Le b c) : Le a c :=
  ⟨Nat.le_trans h1.1 h2.1, Nat.le_trans h1.2.1 h2.2.1, fun h => h2.2.2 (h1.2.2 h)⟩

theorem Interrupted.mono {env : Env} {st st' : St M} (h : Interrupted env st) (hle : Le st st') :
    Interrupted env st' := by
  rcases h with h | ⟨n, h1, h2⟩ | ⟨i, hi, h⟩
  · exact .inl (hle.2.2 h)
  · exact .inr (.inl ⟨n, h1, Nat.le_trans h2 hle.1⟩)
  · exact .inr (.inr ⟨i, Nat.lt_of_lt_of_le hi hle.2.1, h⟩)

theorem poll_le (env : Env) (st : St M) : Le st (poll env st).2 := by
  unfold poll Le
  simp only
  refine ⟨Nat.le_refl _, Nat.le_refl _, ?_⟩
  intro h; split <;> simp [h]

theorem limitsExceeded_le (env : Env) (st : St M) : Le st (limitsExceeded env st).2 := by
  unfold limitsExceeded Le
  by_cases hp : st.ply = 255
  · simp [hp]
  rcases hn : env.limits.nodes with _ | n <;> rcases hm : env.limits.movetime with _ | mt <;>
    simp only [hp, beq_iff_eq, if_false, Bool.false_eq_true]
  · simp
  · split <;> simp <;> omega
  · split <;> simp
  · split
    · simp
    · split <;> simp <;> omega

theorem abortCheck_le (env : Env) (st : St M) : Le st (abortCheck env st).2 := by
  have h1 := poll_le env st
  have h2 := limitsExceeded_le env (poll env st).2
  unfold abortCheck
  simp only
  split
  · exact h1
  split
  · exact h1
  · split <;> exact h1.trans h2

theorem limitsExceeded_aborted (env : Env) (st : St M) : (limitsExceeded env st).2.aborted = st.aborted := by
  unfold limitsExceeded
  by_cases hp : st.ply = 255
  · simp [hp]
  rcases hn : env.limits.nodes with _ | n <;> rcases hm : env.limits.movetime with _ | mt <;>
    simp only [hp, beq_iff_eq, if_false, Bool.false_eq_true]
  · split <;> simp
  · split <;> simp
  · split
    · simp
    · split <;> simp

theorem limitsExceeded_interrupts (env : Env) (st : St M) (hp : st.ply ≠ 255)
    (h : (limitsExceeded env st).1 = true) : Interrupted env (limitsExceeded env st).2 := by
  revert h
  unfold limitsExceeded Interrupted
  rcases hn : env.limits.nodes with _ | n <;> rcases hm : env.limits.movetime with _ | mt <;>
    simp only [hp, beq_iff_eq, if_false, Bool.false_eq_true]
  · simp only [Bool.and_eq_true, decide_eq_true_eq]
    intro h
    exact .inr (.inr ⟨st.clockReads, Nat.lt_succ_self _, .inr h⟩)
  · split
    · intro _; exact .inl rfl
    · simp only [Bool.or_eq_true, Bool.and_eq_true, decide_eq_true_eq]
      intro h
      refine .inr (.inr ⟨st.clockReads + 1, Nat.lt_succ_self _, ?_⟩)
      rcases h with h | h
      · exact .inl ⟨mt, rfl, h⟩
      · exact .inr h
  · split
    · intro _; exact .inl rfl
    · simp only [Bool.and_eq_true, decide_eq_true_eq]
      intro h
      exact .inr (.inr ⟨st.clockReads, Nat.lt_succ_self _, .inr h⟩)
  · split
    · intro _; exact .inl rfl
    · split
      · intro _; exact .inl rfl
      · simp only [Bool.or_eq_true, Bool.and_eq_true, decide_eq_true_eq]
        intro h
        refine .inr (.inr ⟨st.clockReads + 1, Nat.lt_succ_self _, ?_⟩)
        rcases h with h | h
        · exact .inl ⟨mt, rfl, h⟩
        · exact .inr h

/-- the limit part of `Interrupted` -/
def LimitHit (env : Env) (st : St M) : Prop :=
  (∃ n, env.limits.nodes = some n ∧ st.nodes ≥ n) ∨
  (∃ i, i < st.clockReads ∧
     ((∃ mt, env.limits.movetime = some mt ∧ env.clock i ≥ mt) ∨
      (env.limits.timeControl = true ∧ env.clock i ≥ env.limits.timer)))

theorem limitsExceeded_of_limitHit (env : Env) (st : St M) (hc : MonoClock env) (h : LimitHit env st) :
    (limitsExceeded env st).1 = true := by
  unfold limitsExceeded
  by_cases hp : st.ply = 255
  · simp [hp]
  rcases h with ⟨n, hn, hge⟩ | ⟨i, hi, h⟩
  · simp [hp, hn, hge]
  · have h0 : env.clock i ≤ env.clock st.clockReads := hc _ _ (Nat.le_of_lt hi)
    have h1 : env.clock i ≤ env.clock (st.clockReads + 1) := hc _ _ (by omega)
    rcases hn : env.limits.nodes with _ | n <;> rcases hm : env.limits.movetime with _ | mt <;>
      simp only [hp, beq_iff_eq, if_false, Bool.false_eq_true]
    · rcases h with ⟨mt, h, _⟩ | ⟨h2, h3⟩
      · simp [hm] at h
      · simp [h2]; omega
    · split
      · rfl
      · rcases h with ⟨mt', h, h3⟩ | ⟨h2, h3⟩
        · simp [hm] at h; subst h; simp; omega
        · simp [h2]; omega
    · split
      · rfl
      · rcases h with ⟨mt, h, _⟩ | ⟨h2, h3⟩
        · simp [hm] at h
        · simp [h2]; omega
    · split
      · rfl
      · split
        · rfl
        · rcases h with ⟨mt', h, h3⟩ | ⟨h2, h3⟩
          · simp [hm] at h; subst h; simp; omega
          · simp [h2]; omega

theorem interrupted_iff (env : Env) (st : St M) : Interrupted env st ↔ (st.running = false ∨ LimitHit env st) := Iff.rfl

theorem poll_fst (env : Env) (st : St M) : (poll env st).1 = (poll env st).2.running := rfl
theorem poll_aborted (env : Env) (st : St M) : (poll env st).2.aborted = st.aborted := rfl
theorem poll_of_stopped (env : Env) (st : St M) (h : st.running = false) : (poll env st).1 = false := by
  unfold poll; simp [h]

/-- what an abort check does to the model flag -/
theorem abortCheck_aborted (env : Env) (st : St M) (h : (abortCheck env st).2.aborted = true) :
    st.aborted = true ∨ ((abortCheck env st).1 = true ∧ Interrupted env (abortCheck env st).2) := by
  have h3 := limitsExceeded_interrupts env (poll env st).2
  have h4 := limitsExceeded_aborted env (poll env st).2
  revert h
  unfold abortCheck
  simp only
  split
  · rename_i hr
    intro _
    refine .inr ⟨rfl, .inl ?_⟩
    rw [poll_fst] at hr
    simpa using hr
  split
  · intro h; exact .inl h
  · rename_i hp
    split
    · rename_i hx
      intro _
      exact .inr ⟨hx, (h3 (by simpa using hp) hx).mono ⟨Nat.le_refl _, Nat.le_refl _, id⟩⟩
    · intro h; rw [h4] at h; exact .inl h

theorem abortCheck_of_interrupted (env : Env) (st : St M) (hc : MonoClock env) (h : Interrupted env st) :
    (abortCheck env st).1 = true := by
  unfold abortCheck
  simp only
  split
  · rfl
  split
  · rfl
  · rename_i hr hp
    rcases h with h | h
    · rw [poll_of_stopped env st h] at hr; simp at hr
    · have : LimitHit env (poll env st).2 := h
      exact limitsExceeded_of_limitHit env _ hc this

theorem abortCheck_interrupts' (env : Env) (st : St M) (_hc : MonoClock env) (hp : st.ply < 255)
    (h : (abortCheck env st).1 = true) : Interrupted env (abortCheck env st).2 := by
  have h3 := limitsExceeded_interrupts env (poll env st).2
  revert h
  unfold abortCheck
  simp only
  split
  · rename_i hr
    intro _
    refine .inl ?_
    rw [poll_fst] at hr
    simpa using hr
  split
  · rename_i hp'
    have : (poll env st).2.ply = st.ply := rfl
    simp [this] at hp'; omega
  · rename_i hp'
    intro hx
    rw [if_pos hx]
    exact (h3 (by simpa using hp') hx).mono ⟨Nat.le_refl _, Nat.le_refl _, id⟩

def Inv (env : Env) (st : St M) : Prop :=
  (st.aborted = true → Interrupted env st) ∧ ∀ w ∈ st.writes, w.afterAbort = false

theorem Inv.congr {env : Env} {st st' : St M} (h : Inv env st) (hle : Le st st') (ha : st'.aborted = st.aborted)
    (hw : st'.writes = st.writes) : Inv env st' :=
  ⟨fun h' => (h.1 (ha ▸ h')).mono hle, hw ▸ h.2⟩

theorem abortCheck_inv {env : Env} {st : St M} (hc : MonoClock env) (h : Inv env st) :
    Inv env (abortCheck env st).2 ∧ ((abortCheck env st).1 = false → (abortCheck env st).2.aborted = false) := by
  have hf := abortCheck_frame env st
  have hle := abortCheck_le env st
  have ha := abortCheck_aborted env st
  refine ⟨⟨fun h' => ?_, ?_⟩, fun h' => ?_⟩
  · rcases ha h' with h1 | h1
    · exact (h.1 h1).mono hle
    · exact h1.2
  · rw [hf.2.2.2.2.2.2.2]; exact h.2
  · cases hab : (abortCheck env st).2.aborted with
    | false => rfl
    | true =>
      rcases ha hab with h1 | h1
      · have := abortCheck_of_interrupted env st hc (h.1 h1)
        rw [this] at h'; cases h'
      · rw [h1.1] at h'; cases h'

theorem insert_inv {env : Env} {st : St M} (h : Inv env st) (ha : st.aborted = false) (k : UInt64) (e : Entry M) (site : Nat) :
    Inv env (st.insert k e site) := by
  refine ⟨fun h' => h.1 h', ?_⟩
  intro w hw
  simp only [St.insert, List.mem_cons] at hw
  rcases hw with rfl | hw
  · exact ha
  · exact h.2 w hw

theorem storeKillers_inv {env : Env} {st : St M} (G : Game P M) (m : M) (h : Inv env st) : Inv env (storeKillers G m st) := by
  unfold storeKillers
  split
  · exact h
  · simp only; split
    · exact h
    · exact h

def RecInv (env : Env) (rec : P → Int → Int → Nat → St M → Int × St M) : Prop :=
  ∀ c a b d st, Inv env st → Inv env (rec c a b d st).2
def QRecInv (env : Env) (rec : P → Int → Int → St M → Int × St M) : Prop :=
  ∀ c a b st, Inv env st → Inv env (rec c a b st).2

theorem enter_inv {env : Env} {st : St M} (b : Bool) (h : Inv env st) : Inv env (enter b st) := by
  unfold enter
  cases b <;> exact h.congr ⟨Nat.le_succ _, Nat.le_refl _, id⟩ rfl rfl

theorem leave_inv {env : Env} {st : St M} (h : Inv env st) : Inv env (leave st) := h

theorem probeSt_inv {env : Env} {st : St M} (h : Inv env st) : Inv env (probeSt env st) := by
  unfold probeSt; split
  · exact h
  · exact h

theorem probeSt_aborted (env : Env) (st : St M) : (probeSt env st).aborted = st.aborted := by
  unfold probeSt; split <;> rfl

theorem pvsCore_inv {env : Env} {rec : P → Int → Int → Nat → St M → Int × St M} (hrec : RecInv env rec)
    (c : P) (alpha beta : Int) (depth : Nat) (pvs : Bool) {st : St M} (h : Inv env st) :
    Inv env (pvsCore rec c alpha beta depth pvs st).2 := by
  unfold pvsCore
  split
  · split
    · exact hrec _ _ _ _ _ (hrec _ _ _ _ _ h)
    · exact hrec _ _ _ _ _ h
  · exact hrec _ _ _ _ _ h

theorem pvsChild_inv {env : Env} {rec : P → Int → Int → Nat → St M → Int × St M} (hrec : RecInv env rec)
    (G : Game P M) (p : P) (m : M) (alpha beta : Int) (depth : Nat) (pvs updSel : Bool) {st : St M} (h : Inv env st) :
    Inv env (pvsChild G rec p m alpha beta depth pvs updSel st).2 := by
  rw [pvsChild_eq]
  exact leave_inv (pvsCore_inv hrec _ _ _ _ _ (enter_inv _ h))

theorem qKids_inv {env : Env} {rec : P → Int → Int → St M → Int × St M} (hrec : QRecInv env rec) (G : Game P M) (p : P) :
    ∀ (ms : List M) (alpha beta : Int) (st : St M), Inv env st → Inv env (qKids G rec p ms alpha beta st).st := by
  intro ms
  induction ms with
  | nil => intro alpha beta st h; exact h
  | cons m ms ih =>
    intro alpha beta st h
    rw [qKids_cons]
    have hr := leave_inv (hrec (G.play p m) (satNeg beta) (satNeg alpha) _ (enter_inv true h))
    split
    · exact ih _ _ _ h
    · simp only []
      split
      · exact hr
      · split
        · exact ih _ _ _ hr
        · exact ih _ _ _ hr

theorem quiesce_inv {env : Env} (hc : MonoClock env) (G : Game P M) :
    ∀ (fuel : Nat) (p : P) (alpha beta : Int) (st : St M), Inv env st → Inv env (quiesce env G fuel p alpha beta st).2 := by
  intro fuel
  induction fuel with
  | zero => intro p alpha beta st h; exact h
  | succ fuel ih =>
    intro p alpha beta st h
    rw [quiesce_succ]
    have hc1 := (abortCheck_inv hc h).1
    simp only []
    split
    · exact hc1
    · split
      · exact hc1
      · have hq := qKids_inv (rec := quiesce env G fuel) (fun c a b st h => ih c a b st h) G p
          (orderMoves G (((abortCheck env st).2.tt[G.key p]?).map (·.best))
            ((abortCheck env st).2.killers.getD (abortCheck env st).2.ply (none, none))
            ((G.allMoves p).filter G.isCapture))
          (if G.eval p > alpha then G.eval p else alpha) beta _ hc1
        split
        · rename_i heq; rw [heq] at hq; exact hq
        · rename_i heq; rw [heq] at hq; exact hq

theorem abKids_inv {env : Env} (hc : MonoClock env) {rec : P → Int → Int → Nat → St M → Int × St M} (hrec : RecInv env rec)
    (G : Game P M) (p : P) (depth : Nat) :
    ∀ (ms : List M) (alpha beta : Int) (best : M) (pvs : Bool) (n : Nat) (st : St M),
      Inv env st → (n > 0 → st.aborted = false) →
      Inv env (abKids env G rec p depth ms alpha beta best pvs n st).st ∧
      ∀ a b n' st', abKids env G rec p depth ms alpha beta best pvs n st = .done a b n' st' → n' > 0 → st'.aborted = false := by
  intro ms
  induction ms with
  | nil =>
    intro alpha beta best pvs n st h hn
    rw [abKids_nil]
    refine ⟨h, ?_⟩
    intro a b n' st' heq
    cases heq
    exact hn
  | cons m ms ih =>
    intro alpha beta best pvs n st h hn
    rw [abKids_cons]
    split
    · exact ih _ _ _ _ _ _ h hn
    · have hp := pvsChild_inv hrec G p m alpha beta depth pvs true h
      have hc1 := abortCheck_inv hc hp
      simp only []
      split
      · exact ⟨hc1.1, fun a b n' st' heq => by cases heq⟩
      · rename_i hab
        have hna := hc1.2 (by simpa using hab)
        split
        · exact ⟨storeKillers_inv G m (insert_inv hc1.1 hna _ _ _), fun a b n' st' heq => by cases heq⟩
        · split
          · exact ih _ _ _ _ _ _ hc1.1 (fun _ => hna)
          · exact ih _ _ _ _ _ _ hc1.1 (fun _ => hna)

theorem ab_inv {env : Env} (hc : MonoClock env) (G : Game P M) :
    ∀ (fuel : Nat) (p : P) (alpha beta : Int) (depth : Nat) (st : St M),
      Inv env st → Inv env (ab env G fuel p alpha beta depth st).2 := by
  intro fuel
  induction fuel with
  | zero => intro p alpha beta depth st h; exact h
  | succ fuel ih =>
    intro p alpha0 beta0 depth st h
    rw [ab_succ]
    have hc1 := (abortCheck_inv hc h).1
    have hps := probeSt_inv hc1
    simp only []
    split
    · exact hc1
    split
    · exact hc1
    split
    · exact hc1
    split
    · exact hps
    · rename_i alpha beta _
      unfold abBody
      simp only []
      generalize (if G.inCheck p = true then depth + 1 else depth) = d
      by_cases hd : d = 0
      · rw [if_pos hd]; exact quiesce_inv hc G _ _ _ _ _ hps
      · rw [if_neg hd]
        have hk := abKids_inv hc (rec := ab env G fuel) (fun c a b d st h => ih c a b d st h) G p
          d
          (orderMoves G (((probeSt env (abortCheck env st).2).tt[G.key p]?).map (·.best))
            ((probeSt env (abortCheck env st).2).killers.getD (probeSt env (abortCheck env st).2).ply (none, none))
            (G.allMoves p))
          alpha beta ((G.allMoves p).headD G.defaultMove) false 0 _ hps (fun h => absurd h (Nat.lt_irrefl 0))
        split
        · rename_i heq; rw [heq] at hk; exact hk.1
        · rename_i heq; rw [heq] at hk; exact hk.1
        · rename_i a b n st' heq
          rw [heq] at hk
          split
          · split
            · exact hk.1
            · exact hk.1
          · rename_i hn
            exact insert_inv hk.1 (hk.2 a b n st' rfl (Nat.pos_of_ne_zero hn)) _ _ _

theorem rootAbort_inv {env : Env} {st : St M} (alpha : Int) (best : M) (h : Inv env st) :
    Inv env (rootAbort alpha best st) := by
  unfold rootAbort
  exact ite_pred (Inv env) h h

theorem rootKids_inv {env : Env} (hc : MonoClock env) {rec : P → Int → Int → Nat → St M → Int × St M} (hrec : RecInv env rec)
    (G : Game P M) (p : P) (depth : Nat) :
    ∀ (ms : List M) (alpha : Int) (best : M) (pvs : Bool) (n : Nat) (st : St M),
      Inv env st → Inv env (rootKids env G rec p depth ms alpha best pvs n st).st := by
  intro ms
  induction ms with
  | nil => intro alpha best pvs n st h; exact h
  | cons m ms ih =>
    intro alpha best pvs n st h
    rw [rootKids_cons]
    split
    · exact ih _ _ _ _ _ h
    · have hp := pvsChild_inv hrec G p m alpha MAXS depth pvs false h
      have hc1 := (abortCheck_inv hc hp).1
      simp only []
      split
      · exact rootAbort_inv _ _ hc1
      · split
        · exact ih _ _ _ _ _ hc1
        · exact ih _ _ _ _ _ hc1

theorem rootSave_inv {env : Env} (hc : MonoClock env) (G : Game P M) (p : P) (depth : Nat) (alpha : Int) (best : M)
    {st : St M} (h : Inv env st) : Inv env (rootSave env G p depth alpha best st) := by
  unfold rootSave
  have hc1 := abortCheck_inv hc h
  split
  · exact hc1.1
  · rename_i hab
    exact insert_inv hc1.1 (hc1.2 (by simpa using hab)) (G.key p) ⟨alpha, depth, .exact, best⟩ 1

theorem abStart_inv {env : Env} (hc : MonoClock env) (G : Game P M) (p : P) (depth : Nat) {st : St M} (h : Inv env st) :
    Inv env (abStart env G p depth st) := by
  rw [abStart_eq]
  split
  · exact h
  · rename_i m0 t _
    have hk := rootKids_inv hc (rec := ab env G 255) (fun c a b d st h => ab_inv hc G 255 c a b d st h) G p depth
      (orderMoves G ((st.tt[G.key p]?).map (·.best)) (st.killers.getD st.ply (none, none)) (G.allMoves p))
      MINS m0 false 0 st h
    split
    · rename_i heq; rw [heq] at hk; exact hk
    · rename_i heq; rw [heq] at hk
      split
      · exact hk
      · exact rootSave_inv hc G p depth _ _ hk

theorem iterate_inv {env : Env} (hc : MonoClock env) (G : Game P M) (p : P) (maxDepth : Nat) :
    ∀ (fuel d : Nat) (st : St M) (infos : List (InfoLine M)), Inv env st →
      Inv env (iterate env G p maxDepth fuel d st infos).1 := by
  intro fuel
  induction fuel with
  | zero => intro d st infos h; exact h
  | succ fuel ih =>
    intro d st infos h
    rw [iterate_succ]
    have hc1 := (abortCheck_inv hc (abStart_inv hc G p d h)).1
    split
    · exact h
    · simp only []
      split
      · exact hc1
      · exact ih _ _ _ hc1

theorem writes_only_complete' (env : Env) (G : Game P M) (p : P) (maxDepth : Option Nat) (tt0 : Table M)
    (hc : MonoClock env) :
    ∀ w ∈ (search env G p maxDepth tt0).st.writes, w.afterAbort = false := by
  have h0 : Inv env ({ tt := tt0 } : St M) := by
    refine ⟨fun h => ?_, fun w hw => ?_⟩
    · exact Bool.noConfusion h
    · exact absurd hw List.not_mem_nil
  have h := iterate_inv hc G p (maxDepth.getD 255) (maxDepth.getD 255) 1 _ [] h0
  exact h.2

theorem no_nodes_after_abort' (env : Env) (G : Game P M) (fuel : Nat) (p : P) (a b : Int) (depth : Nat) (st : St M)
    (hc : MonoClock env) (hs : Interrupted env st) :
    (ab env G fuel p a b depth st).1 = 0 ∧ (ab env G fuel p a b depth st).2.nodes = st.nodes ∧
    (ab env G fuel p a b depth st).2.tt = st.tt ∧ Interrupted env (ab env G fuel p a b depth st).2 := by
  cases fuel with
  | zero => exact ⟨rfl, rfl, rfl, hs⟩
  | succ fuel =>
    rw [ab_succ]
    have h1 := abortCheck_of_interrupted env st hc hs
    have hf := abortCheck_frame env st
    simp only [h1, if_true]
    exact ⟨trivial, hf.2.1, hf.1, hs.mono (abortCheck_le env st)⟩

/-! ### C16: the clock is not consulted without a time limit -/

theorem limitsExceeded_clock_indep (env : Env) (clock' : Nat → Nat) (h : NoTimeLimit env) (st : St M) :
    limitsExceeded { env with clock := clock' } st = limitsExceeded env st := by
  unfold limitsExceeded
  simp only [h.1, h.2, Bool.false_and]

theorem abortCheck_clock_indep (env : Env) (clock' : Nat → Nat) (h : NoTimeLimit env) :
    abortCheck (M := M) { env with clock := clock' } = abortCheck env := by
  funext st
  unfold abortCheck
  have hp : poll { env with clock := clock' } st = poll env st := rfl
  rw [hp]
  simp only [limitsExceeded_clock_indep env clock' h]

section congr
variable {env env' : Env} (hac : abortCheck (M := M) env' = abortCheck env) (hco : env'.cacheOff = env.cacheOff)
include hac

theorem quiesce_congr (G : Game P M) : ∀ fuel, quiesce env' G fuel = quiesce env G fuel := by
  intro fuel
  induction fuel with
  | zero => rfl
  | succ fuel ih =>
    funext p alpha beta st
    simp only [quiesce_succ, hac, ih]

theorem abKids_congr (G : Game P M) (rec : P → Int → Int → Nat → St M → Int × St M) (p : P) (depth : Nat) :
    ∀ ms, abKids env' G rec p depth ms = abKids env G rec p depth ms := by
  intro ms
  induction ms with
  | nil => rfl
  | cons m ms ih =>
    funext alpha beta best pvs n st
    simp only [abKids_cons, hac, ih]

theorem rootKids_congr (G : Game P M) (rec : P → Int → Int → Nat → St M → Int × St M) (p : P) (depth : Nat) :
    ∀ ms, rootKids env' G rec p depth ms = rootKids env G rec p depth ms := by
  intro ms
  induction ms with
  | nil => rfl
  | cons m ms ih =>
    funext alpha best pvs n st
    simp only [rootKids_cons, hac, ih]

include hco

theorem ab_congr (G : Game P M) : ∀ fuel, ab env' G fuel = ab env G fuel := by
  intro fuel
  induction fuel with
  | zero => rfl
  | succ fuel ih =>
    funext p alpha beta depth st
    simp only [ab_succ, abBody, probeSt, hac, hco, ih, quiesce_congr hac, abKids_congr hac]

theorem abStart_congr (G : Game P M) (p : P) (depth : Nat) (st : St M) :
    abStart env' G p depth st = abStart env G p depth st := by
  simp only [abStart_eq, rootSave, hac, ab_congr hac hco, rootKids_congr hac]

theorem iterate_congr (G : Game P M) (p : P) (maxDepth : Nat) :
    ∀ fuel d st infos, iterate env' G p maxDepth fuel d st infos = iterate env G p maxDepth fuel d st infos := by
  intro fuel
  induction fuel with
  | zero => intro d st infos; rfl
  | succ fuel ih =>
    intro d st infos
    simp only [iterate_succ, hac, abStart_congr hac hco, ih]

theorem search_congr (G : Game P M) (p : P) (maxDepth : Option Nat) (tt0 : Table M) :
    search env' G p maxDepth tt0 = search env G p maxDepth tt0 := by
  unfold search
  simp only [iterate_congr hac hco]

end congr

theorem search_clock_indep' (env : Env) (G : Game P M) (p : P) (maxDepth : Option Nat) (tt0 : Table M)
    (clock' : Nat → Nat) (h : NoTimeLimit env) :
    search { env with clock := clock' } G p maxDepth tt0 = search env G p maxDepth tt0 :=
  search_congr (abortCheck_clock_indep env clock' h) rfl G p maxDepth tt0

end RCE.Proofs.SearchAbort
