import RCE.Model.Eval
/-! Helper definitions and lemmas for C17. -/
namespace RCE.Proofs.EvalSym
open RCE Gen

/-- total material of colour `c`, in centipawns, as an unbounded natural number -/
def material (b : Board) (c : Color) : Nat :=
  evalLoop0.foldl (fun acc kv => acc + popcount (b.bbs.get ⟨pkOfIdx kv.1, c⟩) * kv.2) 0

def MaterialBounded (b : Board) : Prop := material b .white ≤ 32767 ∧ material b .black ≤ 32767

instance (b : Board) : Decidable (MaterialBounded b) := by unfold MaterialBounded; infer_instance

end RCE.Proofs.EvalSym
