import RCE.Proofs.PopcountBswap
/-! Helper definitions and lemmas for C17. -/
namespace RCE.Proofs.EvalSym
open RCE Gen RCE.Proofs.PopcountBswap

/-- total material of colour `c`, in centipawns, as an unbounded natural number -/
def material (b : Board) (c : Color) : Nat :=
  evalLoop0.foldl (fun acc kv => acc + popcount (b.bbs.get ⟨pkOfIdx kv.1, c⟩) * kv.2) 0

def MaterialBounded (b : Board) : Prop := material b .white ≤ 32767 ∧ material b .black ≤ 32767

instance (b : Board) : Decidable (MaterialBounded b) := by unfold MaterialBounded; infer_instance

/-! ### mirror -/

theorem opp_opp (c : Color) : c.opp.opp = c := by cases c <;> rfl

theorem get_mirror (b : Board) (k : PK) (c : Color) :
    popcount ((mirrorBoard b).bbs.get ⟨k, c.opp⟩) = popcount (b.bbs.get ⟨k, c⟩) := by
  cases c <;> cases k <;> simp only [mirrorBoard, PBB.get, Color.opp, popcount_bswap]

theorem evalLoop_mirror (b : Board) (c : Color) (loop : List (Nat × Nat)) (op : Int → Int → Int) (init : Int) :
    evalLoop (mirrorBoard b) c.opp loop op init = evalLoop b c loop op init := by
  unfold evalLoop
  simp only [get_mirror]

theorem eval_mirror' (b : Board) : (mirrorBoard b).evaluate = b.evaluate := by
  unfold Board.evaluate
  have ht : (mirrorBoard b).turn = b.turn.opp := rfl
  simp only [ht, evalLoop_mirror]

/-! ### no saturation under `MaterialBounded` -/

/-- material over an arbitrary loop list, with accumulator -/
def mat (b : Board) (c : Color) (loop : List (Nat × Nat)) (acc : Nat) : Nat :=
  loop.foldl (fun acc kv => acc + popcount (b.bbs.get ⟨pkOfIdx kv.1, c⟩) * kv.2) acc

theorem material_eq (b : Board) (c : Color) : material b c = mat b c evalLoop0 0 := rfl

theorem mat_cons (b : Board) (c : Color) (kv : Nat × Nat) (loop : List (Nat × Nat)) :
    mat b c (kv :: loop) 0 = popcount (b.bbs.get ⟨pkOfIdx kv.1, c⟩) * kv.2 + mat b c loop 0 := by
  have acc_lemma : ∀ (l : List (Nat × Nat)) (acc : Nat), mat b c l acc = acc + mat b c l 0 := by
    intro l
    induction l with
    | nil => intro acc; simp [mat]
    | cons kv l ih =>
      intro acc
      simp only [mat, List.foldl_cons] at ih ⊢
      rw [ih, ih (0 + _)]; omega
  simp only [mat, List.foldl_cons] at acc_lemma ⊢
  rw [acc_lemma]; omega

theorem wrapI16_id (x : Int) (h0 : 0 ≤ x) (h1 : x ≤ 32767) : wrapI16 x = x := by
  unfold wrapI16; omega

theorem satI16_id (x : Int) (h0 : -32768 ≤ x) (h1 : x ≤ 32767) : satI16 x = x := by
  unfold satI16 i16Max i16Min
  rw [if_neg (by omega), if_neg (by omega)]

theorem evalLoop_cons (b : Board) (c : Color) (kv : Nat × Nat) (loop : List (Nat × Nat))
    (op : Int → Int → Int) (init : Int) :
    evalLoop b c (kv :: loop) op init =
      evalLoop b c loop op (op init (wrapI16 ((popcount (b.bbs.get ⟨pkOfIdx kv.1, c⟩) : Int) * (kv.2 : Int)))) := rfl

theorem evalLoop_add (b : Board) (c : Color) (loop : List (Nat × Nat)) :
    ∀ s : Int, 0 ≤ s → s + mat b c loop 0 ≤ 32767 → evalLoop b c loop satAdd s = s + mat b c loop 0 := by
  induction loop with
  | nil => intro s _ _; simp [evalLoop, mat]
  | cons kv loop ih =>
    intro s h0 h1
    rw [evalLoop_cons, mat_cons, ← Int.natCast_mul] at *
    generalize popcount (b.bbs.get ⟨pkOfIdx kv.1, c⟩) * kv.2 = t at *
    rw [wrapI16_id _ (by omega) (by omega), satAdd, satI16_id _ (by omega) (by omega),
      ih _ (by omega) (by omega)]
    omega

theorem evalLoop_sub (b : Board) (c : Color) (loop : List (Nat × Nat)) :
    ∀ s : Int, s ≤ 32767 → -32768 ≤ s - mat b c loop 0 → mat b c loop 0 ≤ 32767 →
      evalLoop b c loop satSub s = s - mat b c loop 0 := by
  induction loop with
  | nil => intro s _ _ _; simp [evalLoop, mat]
  | cons kv loop ih =>
    intro s h0 h1 h2
    rw [evalLoop_cons, mat_cons, ← Int.natCast_mul] at *
    generalize popcount (b.bbs.get ⟨pkOfIdx kv.1, c⟩) * kv.2 = t at *
    rw [wrapI16_id _ (by omega) (by omega), satSub, satI16_id _ (by omega) (by omega),
      ih _ (by omega) (by omega) (by omega)]
    omega

theorem material_opp_le (b : Board) (h : MaterialBounded b) (c : Color) : material b c ≤ 32767 := by
  cases c
  · exact h.1
  · exact h.2

/-- under `MaterialBounded` no step saturates or wraps: the result is the integer difference -/
theorem evaluate_eq_material_diff (b : Board) (h : MaterialBounded b) :
    b.evaluate = (material b b.turn : Int) - (material b b.turn.opp : Int) := by
  have h1 := material_opp_le b h b.turn
  have h2 := material_opp_le b h b.turn.opp
  have hl : evalLoop1 = evalLoop0 := by decide
  unfold Board.evaluate
  simp only [hl]
  simp only [material_eq] at *
  rw [evalLoop_add b _ _ 0 (by omega) (by omega), evalLoop_sub b _ _ _ (by omega) (by omega) (by omega)]
  omega

theorem eval_range' (b : Board) (h : MaterialBounded b) : -32767 ≤ b.evaluate ∧ b.evaluate ≤ 32767 := by
  have h1 := material_opp_le b h b.turn
  have h2 := material_opp_le b h b.turn.opp
  rw [evaluate_eq_material_diff b h]
  omega

theorem eval_swap' (b : Board) (h : MaterialBounded b) : (swapTurn b).evaluate = - b.evaluate := by
  have hs : MaterialBounded (swapTurn b) := h
  rw [evaluate_eq_material_diff b h, evaluate_eq_material_diff _ hs]
  have e1 : ∀ c, material (swapTurn b) c = material b c := fun _ => rfl
  have e2 : (swapTurn b).turn = b.turn.opp := rfl
  rw [e1, e1, e2, opp_opp]
  omega

/-- 36 white queens and a white rook against a bare board: White to move saturates at 32767,
    Black to move at −32768 -/
def satBoard : Board :=
  { turn := .white, fullmove := 1, ep := none, history := [], posHist := [],
    bbs := { PBB.empty with wq := 0xFFFFFFFFF, wr := 0x1000000000 }, zkey := 0 }

theorem saturation_witness : ∃ b : Board, (swapTurn b).evaluate ≠ - b.evaluate :=
  ⟨satBoard, by decide +kernel⟩

end RCE.Proofs.EvalSym
