import RCE.Model.Attacks
/-! Bit-level lemmas on `UInt64` bitboards used by the slider proofs (C06). -/
namespace RCE.Proofs.Bits
open RCE

theorem bne_zero_toNat (x : UInt64) : (x != 0) = (x.toNat != 0) := by
  by_cases h : x = 0
  · subst h; rfl
  · have h2 : x.toNat ≠ 0 := fun h' => h (UInt64.toNat_inj.mp h')
    have h3 : (x != 0) = true := by simpa using h
    have h4 : (x.toNat != 0) = true := by simpa using h2
    rw [h3, h4]

theorem testBit_eq (b : BB) (i : Nat) (h : i < 64) : testBit b i = b.toBitVec.getLsbD i := by
  unfold testBit
  rw [bne_zero_toNat]
  simp only [UInt64.toNat_and, UInt64.toNat_shiftRight]
  have : i.toUInt64.toNat % 64 = i := by
    show (i % 2^64) % 64 = i
    omega
  rw [this]
  show _ = b.toNat.testBit i
  unfold Nat.testBit
  rw [Nat.and_comm]
  rfl

theorem ext_testBit {a b : BB} (h : ∀ i, i < 64 → testBit a i = testBit b i) : a = b := by
  apply UInt64.toBitVec_inj.mp
  apply BitVec.eq_of_getLsbD_eq
  intro i hi
  rw [← testBit_eq a i hi, ← testBit_eq b i hi]
  exact h i hi

theorem testBit_and (a b : BB) (i : Nat) (h : i < 64) : testBit (a &&& b) i = (testBit a i && testBit b i) := by
  simp [testBit_eq, h]
theorem testBit_or (a b : BB) (i : Nat) (h : i < 64) : testBit (a ||| b) i = (testBit a i || testBit b i) := by
  simp [testBit_eq, h]
theorem testBit_not (a : BB) (i : Nat) (h : i < 64) : testBit (~~~a) i = !testBit a i := by
  simp [testBit_eq, h]
theorem testBit_zero (i : Nat) (h : i < 64) : testBit 0 i = false := by
  simp [testBit_eq, h]
theorem testBit_bit (p i : Nat) (hp : p < 64) (h : i < 64) : testBit (bit p) i = decide (i = p) := by
  rw [testBit_eq _ _ h]
  show ((1 : UInt64) <<< p.toUInt64).toNat.testBit i = _
  rw [UInt64.toNat_shiftLeft]
  have : p.toUInt64.toNat % 64 = p := by
    show (p % 2^64) % 64 = p
    omega
  rw [this]
  show ((1 <<< p) % 2^64).testBit i = _
  rw [Nat.one_shiftLeft, Nat.testBit_mod_two_pow, Nat.testBit_two_pow]
  simp [h]
  exact eq_comm

end RCE.Proofs.Bits
