import RCE.Proofs.SliderSound
/-! From a successful per-square check to the statement about `rookLookup?` / `bishopLookup?`. -/
namespace RCE.Proofs.SliderCheck
open RCE RCE.Proofs.Bits

theorem rookSlow_eq (sq : Nat) : rookSlow sq = slow4 sq (rookCfg sq).D1 (rookCfg sq).D2 (rookCfg sq).D3 (rookCfg sq).D4 := rfl
theorem bishopSlow_eq (sq : Nat) : bishopSlow sq = slow4 sq (bishopCfg sq).D1 (bishopCfg sq).D2 (bishopCfg sq).D3 (bishopCfg sq).D4 := rfl

theorem getD_map_range {α : Type} (f : Nat → α) (sq : Nat) (d : α) (h : sq < 64) :
    ((Array.range 64).map f).getD sq d = f sq := by
  rw [Array.getD_eq_getD_getElem?]
  simp [h]

/-- the fast lookup agrees with the slow ray walk on the masked occupancy -/
theorem rook_lookup_of_ok (sq : Nat) (hsq : sq < 64) (h : sliderOK (rookCfg sq) = true) (occ : BB) :
    rookLookup? sq occ = some (rookSlow sq (occ &&& rookMask sq)) := by
  unfold rookLookup? rookTable rookMaskTable
  simp only [getD_map_range _ _ _ hsq, rookSlow_eq]
  exact sliderOK_lookup (rookCfg sq) h occ

theorem bishop_lookup_of_ok (sq : Nat) (hsq : sq < 64) (h : sliderOK (bishopCfg sq) = true) (occ : BB) :
    bishopLookup? sq occ = some (bishopSlow sq (occ &&& bishopMask sq)) := by
  unfold bishopLookup? bishopTable bishopMaskTable
  simp only [getD_map_range _ _ _ hsq, bishopSlow_eq]
  exact sliderOK_lookup (bishopCfg sq) h occ

theorem rookSlow_fast (sq : Nat) (x : BB) :
    rookSlow sq x = slowFast sq (rookCfg sq).D1 (rookCfg sq).D2 (rookCfg sq).D3 (rookCfg sq).D4 x := by
  rw [rookSlow_eq]
  exact slow4_fast _ _ _ _ _ _ (by simp [rookCfg, dN]) (by simp [rookCfg, dE]) (by simp [rookCfg, dS]) (by simp [rookCfg, dW])

theorem bishopSlow_fast (sq : Nat) (x : BB) :
    bishopSlow sq x = slowFast sq (bishopCfg sq).D1 (bishopCfg sq).D2 (bishopCfg sq).D3 (bishopCfg sq).D4 x := by
  rw [bishopSlow_eq]
  exact slow4_fast _ _ _ _ _ _ (by simp [bishopCfg, dNW]) (by simp [bishopCfg, dNE]) (by simp [bishopCfg, dSW]) (by simp [bishopCfg, dSE])

theorem rook_of_ok (sq : Nat) (hsq : sq < 64) (h : sliderOK (rookCfg sq) = true) (occ : BB) :
    ∃ a, rookLookup? sq occ = some a ∧ ∀ t, t < 64 → (testBit a t = true ↔
      t ∈ Rules.rookDirs.flatMap fun d => Rules.slideOcc (fun t => testBit occ t) sq d 7) := by
  obtain ⟨a, ha, hex⟩ := sliderOK_sound (rookCfg sq) h occ
  refine ⟨a, ?_, ?_⟩
  · unfold rookLookup? rookTable rookMaskTable
    simp only [getD_map_range _ _ _ hsq, rookSlow_eq]
    exact ha
  · intro t ht
    rw [hex t ht]
    simp only [rookCfg, Rules.rookDirs, List.flatMap_cons, List.flatMap_nil, List.mem_append, List.append_nil]
    constructor
    · rintro (h | h | h | h) <;> simp [h]
    · rintro (h | h | h | h) <;> simp [h]

theorem bishop_of_ok (sq : Nat) (hsq : sq < 64) (h : sliderOK (bishopCfg sq) = true) (occ : BB) :
    ∃ a, bishopLookup? sq occ = some a ∧ ∀ t, t < 64 → (testBit a t = true ↔
      t ∈ Rules.bishopDirs.flatMap fun d => Rules.slideOcc (fun t => testBit occ t) sq d 7) := by
  obtain ⟨a, ha, hex⟩ := sliderOK_sound (bishopCfg sq) h occ
  refine ⟨a, ?_, ?_⟩
  · unfold bishopLookup? bishopTable bishopMaskTable
    simp only [getD_map_range _ _ _ hsq, bishopSlow_eq]
    exact ha
  · intro t ht
    rw [hex t ht]
    simp only [bishopCfg, Rules.bishopDirs, List.flatMap_cons, List.flatMap_nil, List.mem_append, List.append_nil]
    constructor
    · rintro (h | h | h | h) <;> simp [h]
    · rintro (h | h | h | h) <;> simp [h]

end RCE.Proofs.SliderCheck
