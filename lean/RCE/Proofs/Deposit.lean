import RCE.Proofs.BitLemmas
/-! `blockersFromIndex` ranges over exactly the submasks of the mask: theory of the bit deposit, phrased over
    the list of bit positions that the kernel computes from the mask (no theory of `bsf`/`popcount` needed). -/
namespace RCE.Proofs.Deposit
open RCE RCE.Proofs.Bits

/-- the successive `bsf` positions visited by `blockersFromIndexAux` -/
def posList : Nat → BB → List Nat
  | 0, _ => []
  | n+1, mask => bsf mask :: posList n (mask &&& (mask - 1))

/-- `blockersFromIndexAux` over an explicit position list -/
def dep (idx : Nat) : Nat → List Nat → BB → BB
  | _, [], acc => acc
  | i, p :: ps, acc => dep idx (i+1) ps (if idx &&& (1 <<< i) != 0 then acc ||| bit p else acc)

theorem bfiAux_eq_dep (idx : Nat) : ∀ (n i : Nat) (mask acc : BB),
    blockersFromIndexAux idx n i mask acc = dep idx i (posList n mask) acc := by
  intro n
  induction n with
  | zero => intro i mask acc; rfl
  | succ n ih => intro i mask acc; simp only [blockersFromIndexAux, posList, dep]; exact ih _ _ _

theorem bfi_eq_dep (idx : Nat) (mask : BB) :
    blockersFromIndex idx mask = dep idx 0 (posList (popcount mask) mask) 0 :=
  bfiAux_eq_dep idx _ _ _ _

def orBits : List Nat → BB
  | [] => 0
  | p :: ps => bit p ||| orBits ps

/-- all OR-combinations of the bits at the listed positions -/
def subsOf : List Nat → List BB
  | [] => [0]
  | p :: ps => subsOf ps ++ (subsOf ps).map (bit p ||| ·)

theorem and_one_shiftLeft (idx i : Nat) : (idx &&& (1 <<< i) != 0) = idx.testBit i := by
  rw [Nat.one_shiftLeft]
  cases h : idx.testBit i
  · have : idx &&& 2^i = 0 := by
      apply Nat.eq_of_testBit_eq
      intro j
      rw [Nat.testBit_and, Nat.testBit_two_pow]
      by_cases hj : i = j
      · subst hj; simp [h]
      · simp [hj]
    simp [this]
  · have : (idx &&& 2^i).testBit i = true := by
      rw [Nat.testBit_and, Nat.testBit_two_pow]; simp [h]
    have : idx &&& 2^i ≠ 0 := by
      intro h0; rw [h0] at this; simp at this
    simpa using this

theorem dep_shift (idx : Nat) : ∀ (ps : List Nat) (i : Nat) (acc : BB),
    dep idx (i+1) ps acc = dep (idx / 2) i ps acc := by
  intro ps
  induction ps with
  | nil => intro i acc; rfl
  | cons p ps ih =>
    intro i acc
    simp only [dep, and_one_shiftLeft, Nat.testBit_succ]
    exact ih _ _

theorem dep_acc (idx : Nat) : ∀ (ps : List Nat) (i : Nat) (acc : BB),
    ∃ z ∈ subsOf ps, dep idx i ps acc = acc ||| z := by
  intro ps
  induction ps with
  | nil => intro i acc; exact ⟨0, by simp [subsOf], by simp [dep]⟩
  | cons p ps ih =>
    intro i acc
    simp only [dep, subsOf]
    split
    · obtain ⟨z, hz, he⟩ := ih (i+1) (acc ||| bit p)
      refine ⟨bit p ||| z, ?_, ?_⟩
      · exact List.mem_append_right _ (List.mem_map.mpr ⟨z, hz, rfl⟩)
      · rw [he, UInt64.or_assoc]
    · obtain ⟨z, hz, he⟩ := ih (i+1) acc
      exact ⟨z, List.mem_append_left _ hz, he⟩

theorem dep_mem (idx : Nat) (ps : List Nat) : dep idx 0 ps 0 ∈ subsOf ps := by
  obtain ⟨z, hz, he⟩ := dep_acc idx ps 0 0
  rw [he]; simpa using hz

theorem dep_surj : ∀ (ps : List Nat) (z : BB), z ∈ subsOf ps →
    ∃ idx, idx < 2 ^ ps.length ∧ ∀ acc, dep idx 0 ps acc = acc ||| z := by
  intro ps
  induction ps with
  | nil =>
    intro z hz
    simp [subsOf] at hz
    subst hz
    exact ⟨0, by simp, by intro acc; simp [dep]⟩
  | cons p ps ih =>
    intro z hz
    simp only [subsOf, List.mem_append, List.mem_map] at hz
    rcases hz with hz | ⟨z', hz', rfl⟩
    · obtain ⟨idx, hlt, h⟩ := ih z hz
      refine ⟨2 * idx, ?_, ?_⟩
      · simp only [List.length_cons, Nat.pow_succ]; omega
      · intro acc
        simp only [dep, and_one_shiftLeft, dep_shift]
        have h1 : (2 * idx).testBit 0 = false := by simp [Nat.testBit_zero]
        have h2 : 2 * idx / 2 = idx := by omega
        simp only [h1, h2]
        exact h acc
    · obtain ⟨idx, hlt, h⟩ := ih z' hz'
      refine ⟨2 * idx + 1, ?_, ?_⟩
      · simp only [List.length_cons, Nat.pow_succ]; omega
      · intro acc
        simp only [dep, and_one_shiftLeft, dep_shift]
        have h1 : (2 * idx + 1).testBit 0 = true := by simp [Nat.testBit_zero]
        have h2 : (2 * idx + 1) / 2 = idx := by omega
        simp only [h1, h2, if_true]
        rw [h, UInt64.or_assoc]

/-- every member of `subsOf ps` is a submask of `orBits ps` -/
theorem subsOf_sub : ∀ (ps : List Nat) (z : BB), z ∈ subsOf ps → z &&& orBits ps = z := by
  intro ps
  induction ps with
  | nil => intro z hz; simp [subsOf] at hz; subst hz; simp
  | cons p ps ih =>
    intro z hz
    simp only [subsOf, List.mem_append, List.mem_map] at hz
    simp only [orBits]
    rcases hz with hz | ⟨z', hz', rfl⟩
    · have := ih z hz
      apply ext_testBit; intro i hi
      have hi' := congrArg (testBit · i) this
      simp only [testBit_and _ _ _ hi, testBit_or _ _ _ hi] at hi' ⊢
      revert hi'
      cases testBit z i <;> cases testBit (orBits ps) i <;> cases testBit (bit p) i <;> decide
    · have := ih z' hz'
      apply ext_testBit; intro i hi
      have hi' := congrArg (testBit · i) this
      simp only [testBit_and _ _ _ hi, testBit_or _ _ _ hi] at hi' ⊢
      revert hi'
      cases testBit z' i <;> cases testBit (orBits ps) i <;> cases testBit (bit p) i <;> decide

/-- `bit p` is a single bit (whatever `p`): `x &&& bit p` is `0` or `bit p` -/
theorem and_bit_cases (x : BB) (p : Nat) : x &&& bit p = 0 ∨ x &&& bit p = bit p := by
  have hq : ∃ q, q < 64 ∧ bit p = bit q := by
    refine ⟨p % 64, Nat.mod_lt _ (by omega), ?_⟩
    unfold bit
    apply UInt64.toNat_inj.mp
    rw [UInt64.toNat_shiftLeft, UInt64.toNat_shiftLeft]
    have h1 : p.toUInt64.toNat % 64 = p % 64 := by
      show (p % 2^64) % 64 = p % 64
      omega
    have h2 : (p % 64).toUInt64.toNat % 64 = p % 64 := by
      show ((p % 64) % 2^64) % 64 = p % 64
      omega
    rw [h1, h2]
  obtain ⟨q, hq, he⟩ := hq
  rw [he]
  cases hx : testBit x q
  · left
    apply ext_testBit; intro i hi
    rw [testBit_and _ _ _ hi, testBit_bit _ _ hq hi, testBit_zero _ hi]
    by_cases hiq : i = q
    · subst hiq; simp [hx]
    · simp [hiq]
  · right
    apply ext_testBit; intro i hi
    rw [testBit_and _ _ _ hi, testBit_bit _ _ hq hi]
    by_cases hiq : i = q
    · subst hiq; simp [hx]
    · simp [hiq]

/-- every submask of `orBits ps` is listed in `subsOf ps` -/
theorem mem_subsOf : ∀ (ps : List Nat) (x : BB), x &&& orBits ps = x → x ∈ subsOf ps := by
  intro ps
  induction ps with
  | nil =>
    intro x hx
    simp only [orBits, UInt64.and_zero] at hx
    simp [subsOf, ← hx]
  | cons p ps ih =>
    intro x hx
    simp only [orBits] at hx
    simp only [subsOf, List.mem_append, List.mem_map]
    have hx' : (x &&& ~~~bit p) &&& orBits ps = x &&& ~~~bit p := by
      apply ext_testBit; intro i hi
      have hi' := congrArg (testBit · i) hx
      simp only [testBit_and _ _ _ hi, testBit_or _ _ _ hi, testBit_not _ _ hi] at hi' ⊢
      revert hi'
      cases testBit x i <;> cases testBit (orBits ps) i <;> cases testBit (bit p) i <;> decide
    have hmem := ih _ hx'
    rcases and_bit_cases x p with h0 | h1
    · left
      have : x = x &&& ~~~bit p := by
        apply ext_testBit; intro i hi
        have hi' := congrArg (testBit · i) h0
        simp only [testBit_and _ _ _ hi, testBit_not _ _ hi, testBit_zero _ hi] at hi' ⊢
        revert hi'
        cases testBit x i <;> cases testBit (bit p) i <;> decide
      rw [this]; exact hmem
    · right
      refine ⟨_, hmem, ?_⟩
      apply ext_testBit; intro i hi
      have hi' := congrArg (testBit · i) h1
      simp only [testBit_and _ _ _ hi, testBit_or _ _ _ hi, testBit_not _ _ hi] at hi' ⊢
      revert hi'
      cases testBit x i <;> cases testBit (bit p) i <;> decide

end RCE.Proofs.Deposit
