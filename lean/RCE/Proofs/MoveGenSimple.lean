import RCE.Proofs.MoveGenAttacks
/-! C01, part 2: the spec's attack lists are duplicate-free and in range; the moves of a knight, bishop,
    rook, queen (and the non-castling moves of a king) are exactly the spec's. -/
namespace RCE.Proofs.MoveGen
open RCE RCE.Proofs.BoardWF RCE.Proofs.Abs RCE.Proofs.BoardPBB RCE.Proofs.BoardBits RCE.Proofs.Sliders
open RCE.Proofs.MoveGenList

/-! ### the spec's attack lists: in range, no duplicates -/

theorem slideOcc_lt (occ : Nat → Bool) (d : Int × Int) (n : Nat) :
    ∀ sq t, t ∈ Rules.slideOcc occ sq d n → t < 64 := by
  induction n with
  | zero => intro sq t h; cases h
  | succ n ih =>
    intro sq t h
    unfold Rules.slideOcc at h
    cases hs : Rules.step sq d.1 d.2 with
    | none => rw [hs] at h; cases h
    | some u =>
      rw [hs] at h
      simp only at h
      have hu := step_lt _ _ _ _ hs
      split at h
      · rw [List.mem_singleton] at h; subst h; exact hu
      · rcases List.mem_cons.mp h with e | h'
        · subst e; exact hu
        · exact ih u t h'

theorem filterMap_step_lt (offs : List (Int × Int)) (sq t : Nat)
    (h : t ∈ offs.filterMap fun d => Rules.step sq d.1 d.2) : t < 64 := by
  rw [List.mem_filterMap] at h
  obtain ⟨d, _, hd⟩ := h
  exact step_lt _ _ _ _ hd

theorem attacksFrom_lt (p : Rules.Pos) (sq : Nat) (pc : Rules.Piece) (t : Nat)
    (h : t ∈ Rules.attacksFrom p sq pc) : t < 64 := by
  unfold Rules.attacksFrom at h
  rcases pc with ⟨c, k⟩
  cases k <;> simp only at h
  all_goals first
    | exact filterMap_step_lt _ _ _ h
    | (rw [List.mem_flatMap] at h
       obtain ⟨d, _, hd⟩ := h
       exact slideOcc_lt _ _ _ _ _ hd)

/-- a slide over any occupancy is an initial segment of the slide over the empty board -/
theorem slideOcc_prefix (occ : Nat → Bool) (d : Int × Int) (n : Nat) :
    ∀ sq, Rules.slideOcc occ sq d n <+: Rules.slideOcc (fun _ => false) sq d n := by
  induction n with
  | zero => intro sq; exact List.prefix_refl _
  | succ n ih =>
    intro sq
    unfold Rules.slideOcc
    cases hs : Rules.step sq d.1 d.2 with
    | none => exact List.prefix_refl _
    | some u =>
      simp only
      split
      · exact List.prefix_cons_inj u |>.mpr (List.nil_prefix)
      · simp only [Bool.false_eq_true, if_false]
        exact List.prefix_cons_inj u |>.mpr (ih u)

theorem sublist_flatMap_left {α β} (f : α → List β) {l₁ l₂ : List α} (h : l₁.Sublist l₂) :
    (l₁.flatMap f).Sublist (l₂.flatMap f) := by
  induction h with
  | slnil => exact List.Sublist.refl _
  | cons a _ ih => rw [List.flatMap_cons]; exact ih.trans (List.sublist_append_right _ _)
  | cons_cons a _ ih => rw [List.flatMap_cons, List.flatMap_cons]; exact List.Sublist.append (List.Sublist.refl _) ih

def emptyQueen (sq : Nat) : List Nat :=
  (Rules.rookDirs ++ Rules.bishopDirs).flatMap fun d => Rules.slideOcc (fun _ => false) sq d 7

set_option maxRecDepth 100000 in
theorem emptyQueen_nodup_fin : ∀ sq : Fin 64, (emptyQueen sq.val).Nodup := by decide +kernel

set_option maxRecDepth 100000 in
theorem knight_nodup_fin : ∀ sq : Fin 64,
    (Rules.knightOff.filterMap fun d => Rules.step sq.val d.1 d.2).Nodup := by decide +kernel

set_option maxRecDepth 100000 in
theorem king_nodup_fin : ∀ sq : Fin 64,
    (Rules.kingOff.filterMap fun d => Rules.step sq.val d.1 d.2).Nodup := by decide +kernel

set_option maxRecDepth 100000 in
theorem pawn_nodup_fin : ∀ sq : Fin 64, ∀ dr : Fin 2,
    ([((1 : Int), (if dr.val = 0 then (1 : Int) else -1)), (-1, (if dr.val = 0 then (1 : Int) else -1))].filterMap
      fun d => Rules.step sq.val d.1 d.2).Nodup := by decide +kernel

theorem slider_nodup (occ : Nat → Bool) (dirs : List (Int × Int))
    (hd : dirs.Sublist (Rules.rookDirs ++ Rules.bishopDirs)) (sq : Nat) (h : sq < 64) :
    (dirs.flatMap fun d => Rules.slideOcc occ sq d 7).Nodup := by
  apply nodup_of_sublist _ (emptyQueen_nodup_fin ⟨sq, h⟩)
  unfold emptyQueen
  exact (sublist_flatMap _ _ _ fun d _ => (slideOcc_prefix occ d 7 sq).sublist).trans
    (sublist_flatMap_left _ hd)

theorem attacksFrom_nodup (p : Rules.Pos) (sq : Nat) (h : sq < 64) (pc : Rules.Piece) :
    (Rules.attacksFrom p sq pc).Nodup := by
  unfold Rules.attacksFrom
  rcases pc with ⟨c, k⟩
  cases k <;> simp only
  · cases c
    · exact pawn_nodup_fin ⟨sq, h⟩ ⟨0, by decide⟩
    · exact pawn_nodup_fin ⟨sq, h⟩ ⟨1, by decide⟩
  · exact knight_nodup_fin ⟨sq, h⟩
  · exact slider_nodup _ _ (List.sublist_append_right _ _) sq h
  · exact slider_nodup _ _ (List.sublist_append_left _ _) sq h
  · exact slider_nodup _ _ (List.Sublist.refl _) sq h
  · exact king_nodup_fin ⟨sq, h⟩

/-! ### moves of the pieces whose moveset is "attack set minus own pieces" -/

/-- the range / identity filter at the end of `Kind::get_moveset` -/
def rangeOK (m : Ply) : Bool :=
  m.start.rank < 8 && m.start.file < 8 && m.dest.rank < 8 && m.dest.file < 8 && m.start != m.dest

theorem kindMoveset_eq (k : Kind) (sq : Square) (b : Board) :
    kindMoveset k sq b = (match k.pk with
      | .pawn => pawnMoveset sq b k.color
      | .king => kingMoveset sq b k.color
      | .queen => simpleMoveset (queenAttacks sq.idx b.bbs.all) sq b k
      | .rook => simpleMoveset (rookAttacks sq.idx b.bbs.all) sq b k
      | .bishop => simpleMoveset (bishopAttacks sq.idx b.bbs.all) sq b k
      | .knight => simpleMoveset (knightAttacks sq.idx) sq b k).filter rangeOK := rfl

/-- the spec's destination filter: not a piece of my own colour -/
def notOwn (p : Rules.Pos) (c : Rules.Color) (t : Nat) : Bool :=
  match p.at t with | some q => q.color != c | none => true

theorem notOwn_abs (b : Board) (hw : PBB.WF b.bbs) (c : Color) (t : Nat) (ht : t < 64) :
    notOwn (abs b) (absColor c) t = !testBit (sameColorBB b c) t := by
  have h := sameColor_bit b hw c (Square.ofIdx t) (ofIdx_IR t ht)
  rw [ofIdx_idx] at h
  unfold notOwn
  rw [h, abs_at b t ht]
  cases b.pieceAt (Square.ofIdx t) with
  | none => rfl
  | some k =>
    show (absColor k.color != absColor c) = !(k.color == c)
    unfold bne
    rw [absColor_beq]

theorem own_bit (b : Board) (hw : PBB.WF b.bbs) (i : Nat) (hi : i < 64) (p : Kind)
    (hp : b.pieceAt (Square.ofIdx i) = some p) : testBit (sameColorBB b p.color) i = true := by
  have h := sameColor_bit b hw p.color (Square.ofIdx i) (ofIdx_IR i hi)
  rw [ofIdx_idx, hp] at h
  rw [h]; simp

theorem simple_perm (b : Board) (hw : WF b) (i : Nat) (hi : i < 64) (p : Kind)
    (hp : b.pieceAt (Square.ofIdx i) = some p) (att : BB)
    (hex : Exact att (Rules.attacksFrom (abs b) i (absPiece p))) :
    (((simpleMoveset att (Square.ofIdx i) b p).filter rangeOK).map absMove).Perm
      (((Rules.attacksFrom (abs b) i (absPiece p)).filter (notOwn (abs b) (absPiece p).color)).map
        fun t => (⟨i, t, none⟩ : Rules.Move)) ∧
    (((simpleMoveset att (Square.ofIdx i) b p).filter rangeOK).map absMove).Nodup ∧
    (∀ mv ∈ ((simpleMoveset att (Square.ofIdx i) b p).filter rangeOK).map absMove,
      mv.src = i ∧ mv.promo = none ∧ mv.dst < 64 ∧ testBit att mv.dst = true) := by
  have hown := own_bit b hw.bbs i hi p hp
  -- the filter keeps everything
  have hfilt : (simpleMoveset att (Square.ofIdx i) b p).filter rangeOK = simpleMoveset att (Square.ofIdx i) b p := by
    apply filter_eq_self_of_all
    intro m hm
    unfold simpleMoveset at hm
    rw [List.mem_map] at hm
    obtain ⟨s, hs, rfl⟩ := hm
    rw [mem_bitIndices] at hs
    obtain ⟨hs64, hsb⟩ := hs
    rw [testBit_and _ _ _ hs64, testBit_not _ _ hs64] at hsb
    have hne : s ≠ i := by
      intro e; subst e; rw [hown] at hsb; simp at hsb
    have h1 := ofIdx_IR i hi
    have h2 := ofIdx_IR s hs64
    unfold rangeOK mkPly
    simp only [Bool.and_eq_true, decide_eq_true_eq, bne_iff_ne, ne_eq]
    refine ⟨⟨⟨⟨h1.1, h1.2⟩, h2.1⟩, h2.2⟩, ?_⟩
    intro e
    apply hne
    have := congrArg Square.idx e
    rw [ofIdx_idx, ofIdx_idx] at this
    exact this.symm
  have hmap : (simpleMoveset att (Square.ofIdx i) b p).map absMove =
      (bitIndices (att &&& ~~~sameColorBB b p.color)).map fun t => (⟨i, t, none⟩ : Rules.Move) := by
    unfold simpleMoveset
    rw [List.map_map]
    apply List.map_congr_left
    intro s _
    show (⟨(Square.ofIdx i).idx, (Square.ofIdx s).idx, none⟩ : Rules.Move) = _
    rw [ofIdx_idx, ofIdx_idx]
  rw [hfilt, hmap]
  have hlt : ∀ t ∈ Rules.attacksFrom (abs b) i (absPiece p), t < 64 := fun t h => attacksFrom_lt _ _ _ _ h
  have hperm := bitIndices_perm att (~~~sameColorBB b p.color) _ hex (attacksFrom_nodup _ i hi _) hlt
  have hfe : (Rules.attacksFrom (abs b) i (absPiece p)).filter (fun t => testBit (~~~sameColorBB b p.color) t) =
      (Rules.attacksFrom (abs b) i (absPiece p)).filter (notOwn (abs b) (absPiece p).color) := by
    apply List.filter_congr
    intro t ht
    rw [testBit_not _ _ (hlt t ht)]
    exact (notOwn_abs b hw.bbs p.color t (hlt t ht)).symm
  rw [hfe] at hperm
  refine ⟨hperm.map _, ?_, ?_⟩
  · apply nodup_map_of_inj _ _ (nodup_bitIndices _)
    intro a _ a' _ e
    injection e
  · intro mv hmv
    rw [List.mem_map] at hmv
    obtain ⟨s, hs, rfl⟩ := hmv
    rw [mem_bitIndices] at hs
    obtain ⟨hs64, hsb⟩ := hs
    rw [testBit_and _ _ _ hs64, Bool.and_eq_true] at hsb
    exact ⟨rfl, rfl, hs64, hsb.1⟩

end RCE.Proofs.MoveGen
