import RCE.Proofs.SliderCheck
/-! Soundness of the per-square slider checker (C06). -/
namespace RCE.Proofs.SliderCheck
open RCE RCE.Proofs.Bits RCE.Proofs.Deposit

theorem rayT_eq (idx dir : Nat) (hd : dir < 8) : rayT idx dir = rayT' idx dir := by
  unfold rayT rayT' rayTable
  by_cases h : idx < 64
  · have hlt : idx * 8 + dir < 512 := by omega
    simp only [h, if_true]
    rw [Array.getD_eq_getD_getElem?]
    simp only [Array.getElem?_map, Array.getElem?_range, hlt, if_true, Option.map_some, Option.getD_some]
    have h1 : (idx * 8 + dir) / 8 = idx := by omega
    have h2 : (idx * 8 + dir) % 8 = dir := by omega
    rw [h1, h2]
  · have hge : ¬ idx * 8 + dir < 512 := by omega
    simp only [h, if_false]
    rw [Array.getD_eq_getD_getElem?]
    simp [hge]

theorem cutRay_eq (a : BB) (sq dir : Nat) (fwd : Bool) (x : BB) (hd : dir < 8) :
    cutRay a sq dir fwd x = a &&& ~~~ cc dir fwd (rayT' sq dir &&& x) := by
  unfold cutRay cc
  simp only [rayT_eq _ _ hd]
  split
  · rfl
  · simp

/-- `slow4` without the 512-entry ray array (cheap to evaluate in the kernel) -/
def slowFast (sq : Nat) (D1 D2 D3 D4 : Dir) (x : BB) : BB :=
  (rayT' sq D1.d ||| rayT' sq D2.d ||| rayT' sq D3.d ||| rayT' sq D4.d)
    &&& ~~~ cc D1.d D1.fwd (rayT' sq D1.d &&& x) &&& ~~~ cc D2.d D2.fwd (rayT' sq D2.d &&& x)
    &&& ~~~ cc D3.d D3.fwd (rayT' sq D3.d &&& x) &&& ~~~ cc D4.d D4.fwd (rayT' sq D4.d &&& x)

theorem slow4_fast (sq : Nat) (D1 D2 D3 D4 : Dir) (x : BB)
    (hd1 : D1.d < 8) (hd2 : D2.d < 8) (hd3 : D3.d < 8) (hd4 : D4.d < 8) :
    slow4 sq D1 D2 D3 D4 x = slowFast sq D1 D2 D3 D4 x := by
  unfold slow4 slowFast
  simp only [cutRay_eq _ _ _ _ _ hd1, cutRay_eq _ _ _ _ _ hd2, cutRay_eq _ _ _ _ _ hd3, cutRay_eq _ _ _ _ _ hd4,
    rayT_eq _ _ hd1, rayT_eq _ _ hd2, rayT_eq _ _ hd3, rayT_eq _ _ hd4]

theorem bool_claimA : ∀ r1 r2 r3 r4 c1 c2 c3 c4 : Bool,
    (c1 && r2) = false → (c1 && r3) = false → (c1 && r4) = false →
    (c2 && r1) = false → (c2 && r3) = false → (c2 && r4) = false →
    (c3 && r1) = false → (c3 && r2) = false → (c3 && r4) = false →
    (c4 && r1) = false → (c4 && r2) = false → (c4 && r3) = false →
    ((((r1 || r2 || r3 || r4) && !c1) && !c2) && !c3 && !c4) =
      ((r1 && !c1) || (r2 && !c2) || (r3 && !c3) || (r4 && !c4)) := by
  decide

theorem slow4_eq (sq : Nat) (D1 D2 D3 D4 : Dir) (x : BB)
    (hd1 : D1.d < 8) (hd2 : D2.d < 8) (hd3 : D3.d < 8) (hd4 : D4.d < 8)
    (h12 : cc D1.d D1.fwd (rayT' sq D1.d &&& x) &&& rayT' sq D2.d = 0)
    (h13 : cc D1.d D1.fwd (rayT' sq D1.d &&& x) &&& rayT' sq D3.d = 0)
    (h14 : cc D1.d D1.fwd (rayT' sq D1.d &&& x) &&& rayT' sq D4.d = 0)
    (h21 : cc D2.d D2.fwd (rayT' sq D2.d &&& x) &&& rayT' sq D1.d = 0)
    (h23 : cc D2.d D2.fwd (rayT' sq D2.d &&& x) &&& rayT' sq D3.d = 0)
    (h24 : cc D2.d D2.fwd (rayT' sq D2.d &&& x) &&& rayT' sq D4.d = 0)
    (h31 : cc D3.d D3.fwd (rayT' sq D3.d &&& x) &&& rayT' sq D1.d = 0)
    (h32 : cc D3.d D3.fwd (rayT' sq D3.d &&& x) &&& rayT' sq D2.d = 0)
    (h34 : cc D3.d D3.fwd (rayT' sq D3.d &&& x) &&& rayT' sq D4.d = 0)
    (h41 : cc D4.d D4.fwd (rayT' sq D4.d &&& x) &&& rayT' sq D1.d = 0)
    (h42 : cc D4.d D4.fwd (rayT' sq D4.d &&& x) &&& rayT' sq D2.d = 0)
    (h43 : cc D4.d D4.fwd (rayT' sq D4.d &&& x) &&& rayT' sq D3.d = 0) :
    slow4 sq D1 D2 D3 D4 x =
      seg sq D1 (rayT' sq D1.d &&& x) ||| seg sq D2 (rayT' sq D2.d &&& x) |||
      seg sq D3 (rayT' sq D3.d &&& x) ||| seg sq D4 (rayT' sq D4.d &&& x) := by
  unfold slow4 seg
  simp only [cutRay_eq _ _ _ _ _ hd1, cutRay_eq _ _ _ _ _ hd2, cutRay_eq _ _ _ _ _ hd3, cutRay_eq _ _ _ _ _ hd4,
    rayT_eq _ _ hd1, rayT_eq _ _ hd2, rayT_eq _ _ hd3, rayT_eq _ _ hd4]
  apply ext_testBit; intro i hi
  have e12 := congrArg (testBit · i) h12
  have e13 := congrArg (testBit · i) h13
  have e14 := congrArg (testBit · i) h14
  have e21 := congrArg (testBit · i) h21
  have e23 := congrArg (testBit · i) h23
  have e24 := congrArg (testBit · i) h24
  have e31 := congrArg (testBit · i) h31
  have e32 := congrArg (testBit · i) h32
  have e34 := congrArg (testBit · i) h34
  have e41 := congrArg (testBit · i) h41
  have e42 := congrArg (testBit · i) h42
  have e43 := congrArg (testBit · i) h43
  simp only [testBit_and _ _ _ hi, testBit_or _ _ _ hi, testBit_not _ _ hi, testBit_zero _ hi] at *
  exact bool_claimA _ _ _ _ _ _ _ _ e12 e13 e14 e21 e23 e24 e31 e32 e34 e41 e42 e43


/-! ### radix check -/

theorem part_acc (j : Nat) : ∀ (l a b : List (Nat × Nat)) (e : Nat × Nat),
    (e ∈ a → e ∈ (part j l a b).1) ∧ (e ∈ b → e ∈ (part j l a b).2) := by
  intro l
  induction l with
  | nil => intro a b e; exact ⟨id, id⟩
  | cons x t ih =>
    intro a b e
    simp only [part]
    split
    · exact ⟨fun h => (ih _ _ e).1 h, fun h => (ih _ _ e).2 (List.mem_cons_of_mem _ h)⟩
    · exact ⟨fun h => (ih _ _ e).1 (List.mem_cons_of_mem _ h), fun h => (ih _ _ e).2 h⟩

theorem part_mem (j : Nat) : ∀ (l a b : List (Nat × Nat)) (e : Nat × Nat), e ∈ l →
    (Nat.mod (Nat.shiftRight e.1 j) 2 = 0 → e ∈ (part j l a b).2) ∧
    (Nat.mod (Nat.shiftRight e.1 j) 2 ≠ 0 → e ∈ (part j l a b).1) := by
  intro l
  induction l with
  | nil => intro a b e he; cases he
  | cons x t ih =>
    intro a b e he
    simp only [part]
    rcases List.mem_cons.mp he with rfl | he'
    · split
      · rename_i h0
        exact ⟨fun _ => (part_acc j t _ _ e).2 List.mem_cons_self, fun h => absurd h0 h⟩
      · rename_i n h1
        exact ⟨fun h => by rw [h] at h1; exact absurd h1 (by simp), fun _ => (part_acc j t _ _ e).1 List.mem_cons_self⟩
    · split
      · exact ih _ _ e he'
      · exact ih _ _ e he'

theorem radix_sound : ∀ (d j : Nat) (l : List (Nat × Nat)), radix d j l = true →
    ∀ e1 ∈ l, ∀ e2 ∈ l, e1.1 = e2.1 → e1.2 = e2.2 := by
  intro d
  induction d with
  | zero =>
    intro j l h e1 h1 e2 h2 _
    cases l with
    | nil => cases h1
    | cons e t =>
      simp only [radix, List.all_eq_true, Bool.and_eq_true] at h
      have key : ∀ x ∈ e :: t, x.2 = e.2 := by
        intro x hx
        rcases List.mem_cons.mp hx with rfl | hx'
        · rfl
        · exact Nat.eq_of_beq_eq_true (h x hx').2
      rw [key e1 h1, key e2 h2]
  | succ d ih =>
    intro j l h e1 h1 e2 h2 heq
    cases l with
    | nil => cases h1
    | cons e t =>
      simp only [radix, Bool.and_eq_true] at h
      by_cases hb : Nat.mod (Nat.shiftRight e1.1 j) 2 = 0
      · have m1 := (part_mem j (e :: t) [] [] e1 h1).1 hb
        have m2 := (part_mem j (e :: t) [] [] e2 h2).1 (by rw [← heq]; exact hb)
        exact ih _ _ h.2 e1 m1 e2 m2 heq
      · have m1 := (part_mem j (e :: t) [] [] e1 h1).2 hb
        have m2 := (part_mem j (e :: t) [] [] e2 h2).2 (by rw [← heq]; exact hb)
        exact ih _ _ h.1 e1 m1 e2 m2 heq

/-! ### the spec side -/

theorem slideOcc_none (o : Nat → Bool) (t : Nat) (d : Int × Int) (fuel : Nat)
    (h : Rules.step t d.1 d.2 = none) : Rules.slideOcc o t d fuel = [] := by
  cases fuel with
  | zero => rfl
  | succ f => simp only [Rules.slideOcc, h]

/-- two occupancies that agree on every ray square having a successor give the same slide -/
theorem slide_agree (o1 o2 : Nat → Bool) (d : Int × Int) : ∀ (fuel sq : Nat),
    (∀ t ∈ Rules.slideOcc (fun _ => false) sq d fuel, (Rules.step t d.1 d.2).isSome = true → o1 t = o2 t) →
    Rules.slideOcc o1 sq d fuel = Rules.slideOcc o2 sq d fuel := by
  intro fuel
  induction fuel with
  | zero => intro sq _; rfl
  | succ f ih =>
    intro sq h
    simp only [Rules.slideOcc] at h ⊢
    cases hs : Rules.step sq d.1 d.2 with
    | none => rfl
    | some t =>
      simp only [hs] at h ⊢
      simp only [Bool.false_eq_true, if_false, List.mem_cons] at h
      cases hs2 : Rules.step t d.1 d.2 with
      | none =>
        rw [slideOcc_none _ _ _ _ hs2, slideOcc_none _ _ _ _ hs2]
        cases o1 t <;> cases o2 t <;> rfl
      | some u =>
        have ht : o1 t = o2 t := h t (Or.inl rfl) (by rw [hs2]; rfl)
        have hrec := ih t (fun x hx => h x (Or.inr hx))
        rw [ht, hrec]

theorem testBit_orBits : ∀ (l : List Nat), (∀ t ∈ l, t < 64) → ∀ i, i < 64 →
    (testBit (orBits l) i = true ↔ i ∈ l) := by
  intro l
  induction l with
  | nil => intro _ i hi; simp [orBits, testBit_zero _ hi]
  | cons a l ih =>
    intro hl i hi
    have ha : a < 64 := hl a List.mem_cons_self
    have ih' := ih (fun t ht => hl t (List.mem_cons_of_mem _ ht)) i hi
    simp only [orBits, testBit_or _ _ _ hi, testBit_bit _ _ ha hi, Bool.or_eq_true, decide_eq_true_eq,
      List.mem_cons, ih']


/-! ### one ray -/

theorem rayOK_sound (c : Cfg) (D o1 o2 o3 : Dir) (h : rayOK c D o1 o2 o3 = true) (occ : BB) :
    D.d < 8 ∧
    (occ &&& rmask c D) ∈ subsOf (bitIndices (rmask c D)) ∧
    (∀ t, t < 64 → (testBit (seg c.sq D (occ &&& rmask c D)) t = true ↔
        t ∈ Rules.slideOcc (fun t => testBit occ t) c.sq D.v 7)) ∧
    cc D.d D.fwd (occ &&& rmask c D) &&& rayT' c.sq o1.d = 0 ∧
    cc D.d D.fwd (occ &&& rmask c D) &&& rayT' c.sq o2.d = 0 ∧
    cc D.d D.fwd (occ &&& rmask c D) &&& rayT' c.sq o3.d = 0 := by
  unfold rayOK at h
  simp only [Bool.and_eq_true, List.all_eq_true, decide_eq_true_eq, beq_iff_eq, Bool.or_eq_true,
    Bool.not_eq_true'] at h
  obtain ⟨⟨⟨hd, hor⟩, hfull⟩, hall⟩ := h
  have hy : (occ &&& rmask c D) ∈ subsOf (bitIndices (rmask c D)) := by
    apply mem_subsOf
    rw [hor, UInt64.and_assoc, UInt64.and_self]
  obtain ⟨⟨⟨⟨hlt, heq⟩, h1⟩, h2⟩, h3⟩ := hall _ hy
  refine ⟨hd, hy, ?_, h1, h2, h3⟩
  intro t ht
  rw [← heq, testBit_orBits _ hlt t ht]
  have hag : Rules.slideOcc (fun t => testBit (occ &&& rmask c D) t) c.sq D.v 7
      = Rules.slideOcc (fun t => testBit occ t) c.sq D.v 7 := by
    apply slide_agree
    intro u hu hs
    obtain ⟨hu64, hm⟩ := hfull u hu
    rcases hm with hm | hm
    · rw [hs] at hm; cases hm
    · show testBit (occ &&& rmask c D) u = testBit occ u
      rw [testBit_and _ _ _ hu64, hm, Bool.and_true]
  rw [hag]


/-! ### the enumeration covers every submask of the mask, with the right value -/

theorem mem_cross {E L : List (BB × BB)} {e l : BB × BB} (he : e ∈ E) (hl : l ∈ L) :
    (e.1 ||| l.1, e.2 ||| l.2) ∈ cross E L := by
  unfold cross
  exact List.mem_flatMap.mpr ⟨e, he, List.mem_map.mpr ⟨l, hl, rfl⟩⟩

theorem ray_and_eq (c : Cfg) (D : Dir) (x : BB) (hx : x &&& c.mask = x) :
    rayT' c.sq D.d &&& x = x &&& rmask c D := by
  unfold rmask
  apply ext_testBit; intro i hi
  have e := congrArg (testBit · i) hx
  simp only [testBit_and _ _ _ hi] at e ⊢
  revert e
  cases testBit x i <;> cases testBit c.mask i <;> cases testBit (rayT' c.sq D.d) i <;> decide

theorem split4 (x m m1 m2 m3 m4 : BB) (hm : m1 ||| m2 ||| m3 ||| m4 = m) (hx : x &&& m = x) :
    x = x &&& m1 ||| x &&& m2 ||| x &&& m3 ||| x &&& m4 := by
  subst hm
  apply ext_testBit; intro i hi
  have e := congrArg (testBit · i) hx
  simp only [testBit_and _ _ _ hi, testBit_or _ _ _ hi] at e ⊢
  revert e
  cases testBit x i <;> cases testBit m1 i <;> cases testBit m2 i <;> cases testBit m3 i <;>
    cases testBit m4 i <;> decide

structure RaysOK (c : Cfg) : Prop where
  hm : rmask c c.D1 ||| rmask c c.D2 ||| rmask c c.D3 ||| rmask c c.D4 = c.mask
  r1 : rayOK c c.D1 c.D2 c.D3 c.D4 = true
  r2 : rayOK c c.D2 c.D1 c.D3 c.D4 = true
  r3 : rayOK c c.D3 c.D1 c.D2 c.D4 = true
  r4 : rayOK c c.D4 c.D1 c.D2 c.D3 = true

theorem slow4_split (c : Cfg) (R : RaysOK c) (x : BB) (hx : x &&& c.mask = x) :
    slow4 c.sq c.D1 c.D2 c.D3 c.D4 x =
      seg c.sq c.D1 (x &&& rmask c c.D1) ||| seg c.sq c.D2 (x &&& rmask c c.D2) |||
      seg c.sq c.D3 (x &&& rmask c c.D3) ||| seg c.sq c.D4 (x &&& rmask c c.D4) := by
  obtain ⟨hd1, _, _, h12, h13, h14⟩ := rayOK_sound c _ _ _ _ R.r1 x
  obtain ⟨hd2, _, _, h21, h23, h24⟩ := rayOK_sound c _ _ _ _ R.r2 x
  obtain ⟨hd3, _, _, h31, h32, h34⟩ := rayOK_sound c _ _ _ _ R.r3 x
  obtain ⟨hd4, _, _, h41, h42, h43⟩ := rayOK_sound c _ _ _ _ R.r4 x
  have e1 := ray_and_eq c c.D1 x hx
  have e2 := ray_and_eq c c.D2 x hx
  have e3 := ray_and_eq c c.D3 x hx
  have e4 := ray_and_eq c c.D4 x hx
  have := slow4_eq c.sq c.D1 c.D2 c.D3 c.D4 x hd1 hd2 hd3 hd4
    (by rw [e1]; exact h12) (by rw [e1]; exact h13) (by rw [e1]; exact h14)
    (by rw [e2]; exact h21) (by rw [e2]; exact h23) (by rw [e2]; exact h24)
    (by rw [e3]; exact h31) (by rw [e3]; exact h32) (by rw [e3]; exact h34)
    (by rw [e4]; exact h41) (by rw [e4]; exact h42) (by rw [e4]; exact h43)
  rw [this, e1, e2, e3, e4]

theorem mem_layer (c : Cfg) (D o1 o2 o3 : Dir) (h : rayOK c D o1 o2 o3 = true) (x : BB) :
    (x &&& rmask c D, seg c.sq D (x &&& rmask c D)) ∈ layer c D := by
  obtain ⟨_, hy, _⟩ := rayOK_sound c _ _ _ _ h x
  exact List.mem_map.mpr ⟨_, hy, rfl⟩

theorem mem_pairs (c : Cfg) (R : RaysOK c) (x : BB) (hx : x &&& c.mask = x) :
    (x, slow4 c.sq c.D1 c.D2 c.D3 c.D4 x) ∈ pairs c := by
  have hs := split4 x c.mask _ _ _ _ R.hm hx
  have hv := slow4_split c R x hx
  have := mem_cross (mem_cross (mem_cross (mem_layer c _ _ _ _ R.r1 x) (mem_layer c _ _ _ _ R.r2 x))
    (mem_layer c _ _ _ _ R.r3 x)) (mem_layer c _ _ _ _ R.r4 x)
  simp only at this
  rw [← hs, ← hv] at this
  exact this


/-! ### the collision check -/

def toN (e : BB × BB) : Nat × Nat := (e.1.toNat, e.2.toNat)

theorem crossN_map (E L : List (BB × BB)) : crossN (E.map toN) (L.map toN) = (cross E L).map toN := by
  unfold crossN cross
  rw [List.flatMap_map, List.map_flatMap]
  congr 1
  funext e
  rw [List.map_map, List.map_map]
  apply List.map_congr_left
  intro l _
  simp [toN]

theorem keyN_eq (x magic : BB) (bits : Nat) :
    keyN x.toNat magic.toNat ((64 - bits).toUInt64.toNat % 64) = magicIndex x magic bits := by
  unfold keyN magicIndex
  rw [UInt64.toNat_shiftRight, UInt64.toNat_mul]

theorem mainOK_sound (c : Cfg) (h : mainOK c = true) :
    ∀ e ∈ pairs c, magicIndex e.1 c.magic c.bits < c.size ∧
      ∀ e' ∈ pairs c, magicIndex e.1 c.magic c.bits = magicIndex e'.1 c.magic c.bits → e.2 = e'.2 := by
  unfold mainOK at h
  simp only [forceList_eq, forceNat_eq] at h
  have hl : ∀ D, layerN c D = (layer c D).map toN := fun D => rfl
  simp only [hl, crossN_map, List.map_map, Bool.and_eq_true, List.all_eq_true, decide_eq_true_eq] at h
  obtain ⟨hlt, hr⟩ := h
  have hmem : ∀ e ∈ pairs c, (magicIndex e.1 c.magic c.bits, e.2.toNat) ∈
      List.map ((fun e => (keyN e.1 c.magic.toNat ((64 - c.bits).toUInt64.toNat % 64), e.2)) ∘ toN)
        (cross (cross (cross (layer c c.D1) (layer c c.D2)) (layer c c.D3)) (layer c c.D4)) := by
    intro e he
    refine List.mem_map.mpr ⟨e, he, ?_⟩
    simp only [Function.comp, toN, keyN_eq]
  intro e he
  refine ⟨hlt _ (hmem e he), ?_⟩
  intro e' he' hk
  have := radix_sound _ _ _ hr _ (hmem e he) _ (hmem e' he') hk
  exact UInt64.toNat_inj.mp this


/-! ### the main soundness theorem -/

theorem and_mask_rmask (c : Cfg) (D : Dir) (occ : BB) :
    (occ &&& c.mask) &&& rmask c D = occ &&& rmask c D := by
  unfold rmask
  apply ext_testBit; intro i hi
  simp only [testBit_and _ _ _ hi]
  cases testBit occ i <;> cases testBit c.mask i <;> cases testBit (rayT' c.sq D.d) i <;> decide

/-- a successful check: the table entry found for `occ` is the slow attack set of the masked occupancy -/
theorem sliderOK_lookup (c : Cfg) (h : sliderOK c = true) (occ : BB) :
    (fillTable c.size c.bits c.magic c.mask (slow4 c.sq c.D1 c.D2 c.D3 c.D4))[
        magicIndex (occ &&& c.mask) c.magic c.bits]? = some (slow4 c.sq c.D1 c.D2 c.D3 c.D4 (occ &&& c.mask)) := by
  unfold sliderOK at h
  simp only [Bool.and_eq_true, decide_eq_true_eq, beq_iff_eq] at h
  obtain ⟨⟨⟨⟨⟨⟨⟨hlen, hor⟩, hm⟩, r1⟩, r2⟩, r3⟩, r4⟩, hmain⟩ := h
  have R : RaysOK c := ⟨hm, r1, r2, r3, r4⟩
  have hxm : (occ &&& c.mask) &&& c.mask = occ &&& c.mask := by
    rw [UInt64.and_assoc, UInt64.and_self]
  -- the masked occupancy is produced by some index
  have hx_mem : (occ &&& c.mask) ∈ subsOf (posList (popcount c.mask) c.mask) :=
    mem_subsOf _ _ (by rw [hor]; exact hxm)
  obtain ⟨idx, hidx, hdep⟩ := dep_surj _ _ hx_mem
  have hbfi : blockersFromIndex idx c.mask = occ &&& c.mask := by
    rw [bfi_eq_dep, hdep 0]; simp
  have hidx' : idx < 2 ^ c.bits := Nat.lt_of_lt_of_le hidx (Nat.pow_le_pow_right (by omega) hlen)
  -- every index produces a submask, hence an enumerated pair
  have hsub : ∀ i, blockersFromIndex i c.mask &&& c.mask = blockersFromIndex i c.mask := by
    intro i
    rw [bfi_eq_dep]
    have := subsOf_sub _ _ (dep_mem i (posList (popcount c.mask) c.mask))
    rw [hor] at this
    exact this
  have hpair : ∀ i, (blockersFromIndex i c.mask, slow4 c.sq c.D1 c.D2 c.D3 c.D4 (blockersFromIndex i c.mask)) ∈ pairs c :=
    fun i => mem_pairs c R _ (hsub i)
  have hms := mainOK_sound c hmain
  have hget := Fill.fillTable_get c.size c.bits c.magic c.mask (slow4 c.sq c.D1 c.D2 c.D3 c.D4)
    (fun i _ => (hms _ (hpair i)).1)
    (fun i _ j _ hk => (hms _ (hpair i)).2 _ (hpair j) hk)
    idx hidx'
  rw [hbfi] at hget
  exact hget

/-- a successful check: the slow attack set of the masked occupancy is exactly the spec's sliding set for `occ` -/
theorem sliderOK_exact (c : Cfg) (h : sliderOK c = true) (occ : BB) :
    ∀ t, t < 64 → (testBit (slow4 c.sq c.D1 c.D2 c.D3 c.D4 (occ &&& c.mask)) t = true ↔
      t ∈ [c.D1.v, c.D2.v, c.D3.v, c.D4.v].flatMap fun d => Rules.slideOcc (fun t => testBit occ t) c.sq d 7) := by
  unfold sliderOK at h
  simp only [Bool.and_eq_true, decide_eq_true_eq, beq_iff_eq] at h
  obtain ⟨⟨⟨⟨⟨⟨⟨_, _⟩, hm⟩, r1⟩, r2⟩, r3⟩, r4⟩, _⟩ := h
  have R : RaysOK c := ⟨hm, r1, r2, r3, r4⟩
  have hxm : (occ &&& c.mask) &&& c.mask = occ &&& c.mask := by
    rw [UInt64.and_assoc, UInt64.and_self]
  intro t ht
  rw [slow4_split c R _ hxm]
  simp only [and_mask_rmask]
  obtain ⟨_, _, x1, _⟩ := rayOK_sound c _ _ _ _ r1 occ
  obtain ⟨_, _, x2, _⟩ := rayOK_sound c _ _ _ _ r2 occ
  obtain ⟨_, _, x3, _⟩ := rayOK_sound c _ _ _ _ r3 occ
  obtain ⟨_, _, x4, _⟩ := rayOK_sound c _ _ _ _ r4 occ
  simp only [testBit_or _ _ _ ht, Bool.or_eq_true, x1 t ht, x2 t ht, x3 t ht, x4 t ht,
    List.flatMap_cons, List.flatMap_nil, List.mem_append, List.append_nil, or_assoc]

theorem sliderOK_sound (c : Cfg) (h : sliderOK c = true) (occ : BB) :
    ∃ a, (fillTable c.size c.bits c.magic c.mask (slow4 c.sq c.D1 c.D2 c.D3 c.D4))[
            magicIndex (occ &&& c.mask) c.magic c.bits]? = some a ∧
      ∀ t, t < 64 → (testBit a t = true ↔
        t ∈ [c.D1.v, c.D2.v, c.D3.v, c.D4.v].flatMap fun d => Rules.slideOcc (fun t => testBit occ t) c.sq d 7) :=
  ⟨_, sliderOK_lookup c h occ, sliderOK_exact c h occ⟩

end RCE.Proofs.SliderCheck
