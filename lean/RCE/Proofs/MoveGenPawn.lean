import RCE.Proofs.MoveGenAttacks
import RCE.Proofs.BoardGen
namespace RCE.Proofs.MoveGen
open RCE RCE.Proofs.BoardWF RCE.Proofs.Abs RCE.Proofs.BoardPBB RCE.Proofs.BoardBits RCE.Proofs.Sliders
open RCE.Proofs.MoveGenList RCE.Proofs.BoardGen

/-! C01, pawns: `Pawn::get_moveset` followed by the range filter of `Kind::get_moveset`, read as
    (from, to, promotion) triples, is a permutation of the spec's `Rules.pawnMoves`.

    Both generators are first brought into the shape `dests.flatMap expand` (`explode_abs`, `pawnMoves_eq`);
    the two destination lists are then shown to be duplicate-free with the same members (`Dest`), the
    geometry of the up-to-four squares a pawn looks at being checked once per colour and square (`PG`).
    Helper names live in `RCE.Proofs.MoveGen.Pawn`. -/
namespace Pawn

def pdr : Color → Int | .white => 1 | .black => -1
def pStart : Color → Nat | .white => 1 | .black => 6
def pEp : Color → Nat | .white => 4 | .black => 3
def pBack : Color → Nat | .white => 7 | .black => 0
def pEpT : Color → Nat | .white => 5 | .black => 2
def nextMask (c : Color) (sq : Square) (k : Nat) : BB :=
  match c with
  | .white => shlChecked (shlChecked 1 sq.idx) k
  | .black => shr (shlChecked 1 sq.idx) k

def inR (s : Square) : Bool := decide (s.rank < 8) && decide (s.file < 8)

def sq1 (c : Color) (i : Nat) : Square := (Square.ofIdx i).add (pdr c) 0
def sq2 (c : Color) (i : Nat) : Square := (sq1 c i).add (pdr c) 0
def sqE (c : Color) (i : Nat) : Square := (sq1 c i).add 0 1
def sqW (c : Color) (i : Nat) : Square := (sq1 c i).add 0 (-1)

def PG (c : Color) (i : Nat) : Prop :=
  Rules.step i 0 (pdr c) = (if inR (sq1 c i) then some (sq1 c i).idx else none) ∧
  (i / 8 = pStart c → inR (sq1 c i) = true ∧ inR (sq2 c i) = true ∧ Rules.step (sq1 c i).idx 0 (pdr c) = some (sq2 c i).idx) ∧
  Rules.step i 1 (pdr c) = (if inR (sqE c i) then some (sqE c i).idx else none) ∧
  Rules.step i (-1) (pdr c) = (if inR (sqW c i) then some (sqW c i).idx else none) ∧
  nextMask c (Square.ofIdx i) 8 = (if inR (sq1 c i) then bit (sq1 c i).idx else 0) ∧
  (i / 8 = pStart c → nextMask c (Square.ofIdx i) 16 = bit (sq2 c i).idx) ∧
  (i / 8 = pEp c → (sqE c i).rank = pEpT c ∧ (sqW c i).rank = pEpT c) ∧
  [(sq1 c i).idx, (sq2 c i).idx, (sqE c i).idx, (sqW c i).idx, i].Nodup

instance (c : Color) (i : Nat) : Decidable (PG c i) := by unfold PG; infer_instance

set_option maxRecDepth 100000 in
theorem pg_fin : ∀ i : Fin 64, PG .white i.val ∧ PG .black i.val := by decide +kernel


theorem pg (c : Color) (i : Nat) (hi : i < 64) : PG c i := by
  have := pg_fin ⟨i, hi⟩
  cases c
  · exact this.1
  · exact this.2

/-! ### the model generator restated over the colour parameters -/

def promoExplode (c : Color) (p : Ply) : List Ply :=
  if p.dest.rank == pBack c then
    [{ mkPly p.start p.dest p.piece with promoted := some ⟨.queen, c⟩ },
     { mkPly p.start p.dest p.piece with promoted := some ⟨.rook, c⟩ },
     { mkPly p.start p.dest p.piece with promoted := some ⟨.knight, c⟩ },
     { mkPly p.start p.dest p.piece with promoted := some ⟨.bishop, c⟩ }]
  else [p]

def mCaps (sq : Square) (b : Board) (c : Color) : List Ply :=
  (bitIndices (pawnAttacks (c == .white) sq.idx &&& sameColorBB b c.opp)).map fun s => mkPly sq (Square.ofIdx s) ⟨.pawn, c⟩
def mSingle (sq : Square) (b : Board) (c : Color) : List Ply :=
  if nextMask c sq 8 &&& b.bbs.all == 0 then [mkPly sq (sq.add (pdr c) 0) ⟨.pawn, c⟩] else []
def mDouble (sq : Square) (b : Board) (c : Color) : List Ply :=
  if sq.rank == pStart c && nextMask c sq 8 &&& b.bbs.all == 0 && nextMask c sq 16 &&& b.bbs.all == 0
    then [{ mkPly sq ((sq.add (pdr c) 0).add (pdr c) 0) ⟨.pawn, c⟩ with isDoublePush := true }] else []
def mEps (sq : Square) (b : Board) (c : Color) : List Ply :=
  if sq.rank == pEp c then
      (if b.ep == some ((sq.add (pdr c) 0).add 0 1).file then [{ mkPly sq ((sq.add (pdr c) 0).add 0 1) ⟨.pawn, c⟩ with enPassant := true, captured := some ⟨.pawn, c.opp⟩ }] else [])
      ++ (if b.ep == some ((sq.add (pdr c) 0).add 0 (-1)).file then [{ mkPly sq ((sq.add (pdr c) 0).add 0 (-1)) ⟨.pawn, c⟩ with enPassant := true, captured := some ⟨.pawn, c.opp⟩ }] else [])
    else []

theorem pawnMoveset_eq (sq : Square) (b : Board) (c : Color) :
    pawnMoveset sq b c = (mCaps sq b c ++ mSingle sq b c ++ mDouble sq b c ++ mEps sq b c).flatMap (promoExplode c) := by
  cases c <;> rfl

def rangeOk (m : Ply) : Bool :=
  m.start.rank < 8 && m.start.file < 8 && m.dest.rank < 8 && m.dest.file < 8 && m.start != m.dest

theorem kindMoveset_pawn (sq : Square) (b : Board) (c : Color) :
    kindMoveset ⟨.pawn, c⟩ sq b = (pawnMoveset sq b c).filter rangeOk := rfl

/-! ### the spec generator restated -/

def sExpand (sq lastRank t : Nat) : List Rules.Move :=
  if t / 8 == lastRank then Rules.promoKinds.map fun k => ⟨sq, t, some k⟩ else [⟨sq, t, none⟩]

def sPushes (p : Rules.Pos) (sq : Nat) (dr : Int) (startRank : Nat) : List Nat :=
  match Rules.step sq 0 dr with
  | some t1 => if (p.at t1).isNone then
      t1 :: (if sq / 8 == startRank then
               match Rules.step t1 0 dr with
               | some t2 => if (p.at t2).isNone then [t2] else []
               | none => []
             else [])
      else []
  | none => []

def sCapF (p : Rules.Pos) (sq : Nat) (dr : Int) (c : Rules.Color) (epRank : Nat) (df : Int) : Option Nat :=
  match Rules.step sq df dr with
  | some t => match p.at t with
    | some q => if q.color != c then some t else none
    | none => if sq / 8 == epRank && p.ep == some (t % 8) then some t else none
  | none => none

def sCaps (p : Rules.Pos) (sq : Nat) (dr : Int) (c : Rules.Color) (epRank : Nat) : List Nat :=
  [(1 : Int), -1].filterMap (sCapF p sq dr c epRank)

theorem pawnMoves_eq (p : Rules.Pos) (sq : Nat) (c : Color) :
    Rules.pawnMoves p sq (absColor c) =
      (sPushes p sq (pdr c) (pStart c) ++ sCaps p sq (pdr c) (absColor c) (pEp c)).flatMap (sExpand sq (pBack c)) := by
  cases c <;> rfl


/-! ### promotion explosion + range filter + `absMove` = the spec's `expand` on in-range destinations -/

theorem inR_iff (s : Square) : inR s = true ↔ IR s := by
  unfold inR IR; simp

theorem rangeOk_eq (i : Nat) (hi : i < 64) (m : Ply) (hs : m.start = Square.ofIdx i) (hne : m.dest.idx ≠ i) :
    rangeOk m = inR m.dest := by
  have hir := ofIdx_IR i hi
  have hne' : (Square.ofIdx i != m.dest) = true := by
    rw [bne_iff_ne]; intro e; apply hne; rw [← e, ofIdx_idx]
  unfold rangeOk inR
  rw [hs, hne', decide_eq_true hir.1, decide_eq_true hir.2]
  simp

theorem idx_div (s : Square) (h : inR s = true) : s.idx / 8 = s.rank := by
  rw [inR_iff] at h
  have := h.2
  unfold Square.idx; omega

theorem explode_one (c : Color) (i : Nat) (hi : i < 64) (p : Ply) (h1 : p.start = Square.ofIdx i)
    (h2 : p.promoted = none) (h3 : p.dest.idx ≠ i) :
    ((promoExplode c p).filter rangeOk).map absMove =
      if inR p.dest then sExpand i (pBack c) p.dest.idx else [] := by
  have hr : ∀ q : Option Kind, rangeOk { mkPly p.start p.dest p.piece with promoted := q } = inR p.dest :=
    fun q => rangeOk_eq i hi _ h1 h3
  have hp : rangeOk p = inR p.dest := rangeOk_eq i hi p h1 h3
  unfold promoExplode
  cases hd : inR p.dest
  · split
    · simp only [List.filter_cons, hr, hd, List.filter_nil]
      simp
    · simp only [List.filter_cons, hp, hd, List.filter_nil]
      simp
  · unfold sExpand
    rw [idx_div _ hd]
    split
    · simp only [List.filter_cons, hr, hd, ↓reduceIte, List.filter_nil, List.map_cons, List.map_nil]
      simp [absMove, mkPly, Rules.promoKinds, absPK, h1, ofIdx_idx]
    · simp only [List.filter_cons, hp, hd, ↓reduceIte, List.filter_nil, List.map_cons, List.map_nil]
      simp [absMove, h1, h2, ofIdx_idx]

theorem explode_abs (c : Color) (i : Nat) (hi : i < 64) (L : List Ply)
    (h : ∀ p ∈ L, p.start = Square.ofIdx i ∧ p.promoted = none ∧ p.dest.idx ≠ i) :
    ((L.flatMap (promoExplode c)).filter rangeOk).map absMove =
      ((L.filter fun p => inR p.dest).map fun p => p.dest.idx).flatMap (sExpand i (pBack c)) := by
  induction L with
  | nil => rfl
  | cons p L ih =>
    obtain ⟨h1, h2, h3⟩ := h p List.mem_cons_self
    rw [List.flatMap_cons, List.filter_append, List.map_append, explode_one c i hi p h1 h2 h3,
      ih fun q hq => h q (List.mem_cons_of_mem _ hq), List.filter_cons]
    cases inR p.dest <;> simp


/-! ### the in-range destinations of the model generator -/

def one (s : Square) : List Nat := if inR s then [s.idx] else []

def dOf (L : List Ply) : List Nat := (L.filter fun p => inR p.dest).map fun p => p.dest.idx

theorem dOf_append (L M : List Ply) : dOf (L ++ M) = dOf L ++ dOf M := by
  unfold dOf; rw [List.filter_append, List.map_append]

theorem dOf_single (p : Ply) : dOf [p] = one p.dest := by
  unfold dOf one
  rw [List.filter_cons]
  cases inR p.dest <;> rfl

theorem dOf_nil : dOf [] = [] := rfl

theorem dOf_caps (sq : Square) (pc : Kind) (l : List Nat) (h : ∀ s ∈ l, s < 64) :
    dOf (l.map fun s => mkPly sq (Square.ofIdx s) pc) = l := by
  induction l with
  | nil => rfl
  | cons a l ih =>
    have ha := h a List.mem_cons_self
    have : inR (Square.ofIdx a) = true := (inR_iff _).mpr (ofIdx_IR a ha)
    have ih' := ih fun x hx => h x (List.mem_cons_of_mem _ hx)
    have hd : (mkPly sq (Square.ofIdx a) pc).dest = Square.ofIdx a := rfl
    unfold dOf at ih' ⊢
    rw [List.map_cons, List.filter_cons, hd, this, if_pos rfl, List.map_cons, ih', hd, ofIdx_idx]

def mDests (b : Board) (c : Color) (i : Nat) : List Nat :=
  bitIndices (pawnAttacks (c == .white) i &&& sameColorBB b c.opp) ++
  (if nextMask c (Square.ofIdx i) 8 &&& b.bbs.all == 0 then one (sq1 c i) else []) ++
  (if i / 8 == pStart c && nextMask c (Square.ofIdx i) 8 &&& b.bbs.all == 0 &&
      nextMask c (Square.ofIdx i) 16 &&& b.bbs.all == 0 then one (sq2 c i) else []) ++
  (if i / 8 == pEp c then
     (if b.ep == some (sqE c i).file then one (sqE c i) else []) ++
     (if b.ep == some (sqW c i).file then one (sqW c i) else [])
   else [])

theorem mDests_eq (b : Board) (c : Color) (i : Nat) :
    dOf (mCaps (Square.ofIdx i) b c ++ mSingle (Square.ofIdx i) b c ++ mDouble (Square.ofIdx i) b c ++
      mEps (Square.ofIdx i) b c) = mDests b c i := by
  rw [dOf_append, dOf_append, dOf_append]
  unfold mDests
  congr 1
  congr 1
  congr 1
  · unfold mCaps
    rw [ofIdx_idx]
    exact dOf_caps _ _ _ fun s hs => ((mem_bitIndices _ _).mp hs).1
  · unfold mSingle
    split
    · exact dOf_single _
    · rfl
  · unfold mDouble
    show dOf (if (i / 8 == pStart c && _ && _) = true then _ else _) = _
    split
    · exact dOf_single _
    · rfl
  · unfold mEps
    show dOf (if (i / 8 == pEp c) = true then _ else _) = _
    split
    · rw [dOf_append]
      congr 1
      · show dOf (if (b.ep == some (sqE c i).file) = true then _ else _) = _
        split
        · exact dOf_single _
        · rfl
      · show dOf (if (b.ep == some (sqW c i).file) = true then _ else _) = _
        split
        · exact dOf_single _
        · rfl
    · rfl


/-! ### membership -/

def enemyAt (b : Board) (c : Color) (s : Square) : Prop := ∃ k, b.pieceAt s = some k ∧ k.color = c.opp
def epAt (b : Board) (c : Color) (i : Nat) (s : Square) : Prop := i / 8 = pEp c ∧ b.ep = some s.file

theorem mem_one (s : Square) (t : Nat) : t ∈ one s ↔ inR s = true ∧ t = s.idx := by
  unfold one
  cases inR s <;> simp

theorem pawnDir_eq (c : Color) : Rules.pawnDir (if (c == Color.white) = true then .white else .black) = pdr c := by
  cases c <;> rfl

theorem attacks_mem (c : Color) (i : Nat) (hi : i < 64) (t : Nat) (ht : t < 64) :
    testBit (pawnAttacks (c == .white) i) t = true ↔
      (inR (sqE c i) = true ∧ t = (sqE c i).idx) ∨ (inR (sqW c i) = true ∧ t = (sqW c i).idx) := by
  obtain ⟨-, -, g3, g4, -⟩ := pg c i hi
  rw [pawn_exact (c == .white) i hi t ht, pawnDir_eq]
  simp only [List.filterMap_cons, List.filterMap_nil, g3, g4]
  cases inR (sqE c i) <;> cases inR (sqW c i) <;> simp

theorem enemy_bit (b : Board) (hw : WF b) (c : Color) (s : Square) (h : inR s = true) :
    testBit (sameColorBB b c.opp) s.idx = true ↔ enemyAt b c s := by
  rw [sameColor_bit b hw.bbs c.opp s ((inR_iff s).mp h)]
  unfold enemyAt
  cases b.pieceAt s with
  | none => simp
  | some k => simp

theorem mem_mcaps (b : Board) (hw : WF b) (c : Color) (i : Nat) (hi : i < 64) (t : Nat) :
    t ∈ bitIndices (pawnAttacks (c == .white) i &&& sameColorBB b c.opp) ↔
      (inR (sqE c i) = true ∧ t = (sqE c i).idx ∧ enemyAt b c (sqE c i)) ∨
      (inR (sqW c i) = true ∧ t = (sqW c i).idx ∧ enemyAt b c (sqW c i)) := by
  rw [mem_bitIndices]
  constructor
  · rintro ⟨ht, hb⟩
    rw [testBit_and _ _ _ ht, Bool.and_eq_true, attacks_mem c i hi t ht] at hb
    obtain ⟨h1 | h1, h2⟩ := hb
    · left; obtain ⟨h1, rfl⟩ := h1; exact ⟨h1, rfl, (enemy_bit b hw c _ h1).mp h2⟩
    · right; obtain ⟨h1, rfl⟩ := h1; exact ⟨h1, rfl, (enemy_bit b hw c _ h1).mp h2⟩
  · rintro (⟨h1, rfl, h2⟩ | ⟨h1, rfl, h2⟩)
    · have ht := idx_lt _ ((inR_iff _).mp h1)
      refine ⟨ht, ?_⟩
      rw [testBit_and _ _ _ ht, Bool.and_eq_true, attacks_mem c i hi _ ht]
      exact ⟨Or.inl ⟨h1, rfl⟩, (enemy_bit b hw c _ h1).mpr h2⟩
    · have ht := idx_lt _ ((inR_iff _).mp h1)
      refine ⟨ht, ?_⟩
      rw [testBit_and _ _ _ ht, Bool.and_eq_true, attacks_mem c i hi _ ht]
      exact ⟨Or.inr ⟨h1, rfl⟩, (enemy_bit b hw c _ h1).mpr h2⟩

theorem bit_and_eqz (b : Board) (hw : WF b) (s : Square) (h : inR s = true) :
    (bit s.idx &&& b.bbs.all == 0) = true ↔ b.pieceAt s = none := by
  have hir := (inR_iff s).mp h
  rw [UInt64.and_comm, and_bit_eq_zero _ _ (idx_lt s hir), all_bit b hw.bbs s hir]
  cases b.pieceAt s <;> simp

theorem next_zero (b : Board) (hw : WF b) (c : Color) (i : Nat) (hi : i < 64) (h : inR (sq1 c i) = true) :
    (nextMask c (Square.ofIdx i) 8 &&& b.bbs.all == 0) = true ↔ b.pieceAt (sq1 c i) = none := by
  obtain ⟨-, -, -, -, g5, -⟩ := pg c i hi
  rw [g5, if_pos h]
  exact bit_and_eqz b hw _ h

theorem mem_msingle (b : Board) (hw : WF b) (c : Color) (i : Nat) (hi : i < 64) (t : Nat) :
    t ∈ (if nextMask c (Square.ofIdx i) 8 &&& b.bbs.all == 0 then one (sq1 c i) else []) ↔
      inR (sq1 c i) = true ∧ t = (sq1 c i).idx ∧ b.pieceAt (sq1 c i) = none := by
  constructor
  · intro h
    split at h
    · rename_i hz
      rw [mem_one] at h
      exact ⟨h.1, h.2, (next_zero b hw c i hi h.1).mp hz⟩
    · cases h
  · rintro ⟨h1, h2, h3⟩
    rw [if_pos ((next_zero b hw c i hi h1).mpr h3), mem_one]
    exact ⟨h1, h2⟩

theorem mem_mdouble (b : Board) (hw : WF b) (c : Color) (i : Nat) (hi : i < 64) (t : Nat) :
    t ∈ (if i / 8 == pStart c && nextMask c (Square.ofIdx i) 8 &&& b.bbs.all == 0 &&
      nextMask c (Square.ofIdx i) 16 &&& b.bbs.all == 0 then one (sq2 c i) else []) ↔
      i / 8 = pStart c ∧ t = (sq2 c i).idx ∧ b.pieceAt (sq1 c i) = none ∧ b.pieceAt (sq2 c i) = none := by
  obtain ⟨-, g2, -, -, -, g6, -⟩ := pg c i hi
  constructor
  · intro h
    split at h
    · rename_i hz
      simp only [Bool.and_eq_true, beq_iff_eq] at hz
      obtain ⟨⟨hs, hz1⟩, hz2⟩ := hz
      obtain ⟨r1, r2, -⟩ := g2 hs
      rw [mem_one] at h
      rw [g6 hs] at hz2
      refine ⟨hs, h.2, (next_zero b hw c i hi r1).mp (by simpa using hz1), (bit_and_eqz b hw _ r2).mp (by simpa using hz2)⟩
    · cases h
  · rintro ⟨hs, h2, h3, h4⟩
    obtain ⟨r1, r2, -⟩ := g2 hs
    have e1 := (next_zero b hw c i hi r1).mpr h3
    have e2 := (bit_and_eqz b hw _ r2).mpr h4
    rw [← g6 hs] at e2
    have hs' : (i / 8 == pStart c) = true := by simpa using hs
    rw [hs', e1, e2]
    show t ∈ one (sq2 c i)
    rw [mem_one]
    exact ⟨r2, h2⟩

theorem mem_meps (b : Board) (c : Color) (i : Nat) (t : Nat) :
    t ∈ (if i / 8 == pEp c then
       (if b.ep == some (sqE c i).file then one (sqE c i) else []) ++
       (if b.ep == some (sqW c i).file then one (sqW c i) else [])
     else []) ↔
      (inR (sqE c i) = true ∧ t = (sqE c i).idx ∧ epAt b c i (sqE c i)) ∨
      (inR (sqW c i) = true ∧ t = (sqW c i).idx ∧ epAt b c i (sqW c i)) := by
  unfold epAt
  by_cases hr : i / 8 = pEp c
  · have hr' : (i / 8 == pEp c) = true := by simpa using hr
    rw [hr', if_pos rfl, List.mem_append]
    have e1 : ∀ s : Square, t ∈ (if b.ep == some s.file then one s else []) ↔
        inR s = true ∧ t = s.idx ∧ (i / 8 = pEp c ∧ b.ep = some s.file) := by
      intro s
      by_cases h : b.ep = some s.file
      · have : (b.ep == some s.file) = true := by simpa using h
        rw [this, if_pos rfl, mem_one]
        exact ⟨fun ⟨a, b⟩ => ⟨a, b, hr, h⟩, fun ⟨a, b, _⟩ => ⟨a, b⟩⟩
      · have : (b.ep == some s.file) = false := by simpa using h
        rw [this]
        simp [h]
    rw [e1, e1]
  · have hr' : (i / 8 == pEp c) = false := by simpa using hr
    rw [hr']
    simp [hr]


/-- the squares the generator looks at are pairwise different (as indices) and different from the origin -/
theorem pg_ne (c : Color) (i : Nat) (hi : i < 64) :
    (sq1 c i).idx ≠ (sq2 c i).idx ∧ (sq1 c i).idx ≠ (sqE c i).idx ∧ (sq1 c i).idx ≠ (sqW c i).idx ∧
    (sq2 c i).idx ≠ (sqE c i).idx ∧ (sq2 c i).idx ≠ (sqW c i).idx ∧ (sqE c i).idx ≠ (sqW c i).idx ∧
    (sq1 c i).idx ≠ i ∧ (sq2 c i).idx ≠ i ∧ (sqE c i).idx ≠ i ∧ (sqW c i).idx ≠ i := by
  obtain ⟨-, -, -, -, -, -, -, g8⟩ := pg c i hi
  simp only [List.nodup_cons, List.mem_cons, List.not_mem_nil, or_false, not_or] at g8
  obtain ⟨⟨a1, a2, a3, a4⟩, ⟨b1, b2, b3⟩, ⟨c1, c2⟩, d1, -⟩ := g8
  exact ⟨a1, a2, a3, b1, b2, c1, a4, b3, c2, d1⟩

theorem pEpT_eq (c : Color) : (if c = Color.white then 5 else 2) = pEpT c := by cases c <;> rfl

/-- on the en-passant rank, a diagonal target on the recorded file is in range and empty -/
theorem ep_empty (b : Board) (hw : WF b) (c : Color) (hc : c = b.turn) (s : Square)
    (hr : s.rank = pEpT c) (he : b.ep = some s.file) : inR s = true ∧ b.pieceAt s = none := by
  obtain ⟨hf, -, hn⟩ := hw.ep.2 _ he
  rw [← hc, pEpT_eq, ← hr] at hn
  refine ⟨?_, hn⟩
  rw [inR_iff]
  refine ⟨?_, hf⟩
  rw [hr]; cases c <;> decide

theorem ep_not_enemy (b : Board) (hw : WF b) (c : Color) (hc : c = b.turn) (i : Nat) (s : Square)
    (hr : i / 8 = pEp c → s.rank = pEpT c) (he : epAt b c i s) (hen : enemyAt b c s) : False := by
  obtain ⟨k, hk, -⟩ := hen
  have := (ep_empty b hw c hc s (hr he.1) he.2).2
  rw [hk] at this
  cases this

theorem nodup_one (s : Square) : (one s).Nodup := by
  unfold one
  cases inR s <;> simp

theorem nodup_ite_one (p : Bool) (s : Square) : (if p then one s else []).Nodup := by
  cases p
  · exact List.nodup_nil
  · exact nodup_one s

theorem mem_ite_one (p : Bool) (s : Square) (t : Nat) (h : t ∈ (if p then one s else [])) : t = s.idx := by
  cases p
  · cases h
  · exact ((mem_one s t).mp h).2

theorem nodup_mDests (b : Board) (hw : WF b) (c : Color) (hc : c = b.turn) (i : Nat) (hi : i < 64) :
    (mDests b c i).Nodup := by
  obtain ⟨n12, n1e, n1w, n2e, n2w, new, -⟩ := pg_ne c i hi
  obtain ⟨-, -, -, -, -, -, g7, -⟩ := pg c i hi
  unfold mDests
  rw [List.nodup_append]
  refine ⟨?_, ?_, ?_⟩
  · rw [List.nodup_append]
    refine ⟨?_, nodup_ite_one _ _, ?_⟩
    · rw [List.nodup_append]
      refine ⟨nodup_bitIndices _, nodup_ite_one _ _, ?_⟩
      intro x hx y hy
      rw [mem_mcaps b hw c i hi] at hx
      have hy := mem_ite_one _ _ _ hy
      subst hy
      rcases hx with ⟨-, rfl, -⟩ | ⟨-, rfl, -⟩
      · exact fun e => n1e e.symm
      · exact fun e => n1w e.symm
    · intro x hx y hy
      have hy := mem_ite_one _ _ _ hy
      subst hy
      rw [List.mem_append] at hx
      rcases hx with hx | hx
      · rw [mem_mcaps b hw c i hi] at hx
        rcases hx with ⟨-, rfl, -⟩ | ⟨-, rfl, -⟩
        · exact fun e => n2e e.symm
        · exact fun e => n2w e.symm
      · rw [mem_ite_one _ _ _ hx]; exact n12
  · split
    · rw [List.nodup_append]
      refine ⟨nodup_ite_one _ _, nodup_ite_one _ _, ?_⟩
      intro x hx y hy
      rw [mem_ite_one _ _ _ hx, mem_ite_one _ _ _ hy]; exact new
    · exact List.nodup_nil
  · intro x hx y hy
    rw [mem_meps] at hy
    rw [List.mem_append, List.mem_append] at hx
    rcases hx with (hx | hx) | hx
    · rw [mem_mcaps b hw c i hi] at hx
      rcases hx with ⟨-, rfl, h1⟩ | ⟨-, rfl, h1⟩ <;> rcases hy with ⟨-, rfl, h2⟩ | ⟨-, rfl, h2⟩
      · exact fun _ => ep_not_enemy b hw c hc i _ (fun h => (g7 h).1) h2 h1
      · exact new
      · exact fun e => new e.symm
      · exact fun _ => ep_not_enemy b hw c hc i _ (fun h => (g7 h).2) h2 h1
    · rw [mem_ite_one _ _ _ hx]
      rcases hy with ⟨-, rfl, -⟩ | ⟨-, rfl, -⟩
      · exact n1e
      · exact n1w
    · rw [mem_ite_one _ _ _ hx]
      rcases hy with ⟨-, rfl, -⟩ | ⟨-, rfl, -⟩
      · exact n2e
      · exact n2w

def capOK (b : Board) (c : Color) (i : Nat) (s : Square) : Prop := enemyAt b c s ∨ epAt b c i s

/-- the destinations of a pawn on `i`, described once for both generators -/
def Dest (b : Board) (c : Color) (i t : Nat) : Prop :=
  (inR (sq1 c i) = true ∧ t = (sq1 c i).idx ∧ b.pieceAt (sq1 c i) = none) ∨
  (i / 8 = pStart c ∧ t = (sq2 c i).idx ∧ b.pieceAt (sq1 c i) = none ∧ b.pieceAt (sq2 c i) = none) ∨
  (inR (sqE c i) = true ∧ t = (sqE c i).idx ∧ capOK b c i (sqE c i)) ∨
  (inR (sqW c i) = true ∧ t = (sqW c i).idx ∧ capOK b c i (sqW c i))

theorem mem_mDests (b : Board) (hw : WF b) (c : Color) (i : Nat) (hi : i < 64) (t : Nat) :
    t ∈ mDests b c i ↔ Dest b c i t := by
  unfold mDests Dest capOK
  rw [List.mem_append, List.mem_append, List.mem_append, mem_mcaps b hw c i hi, mem_msingle b hw c i hi,
    mem_mdouble b hw c i hi, mem_meps]
  constructor
  · rintro ((((h | h) | h) | h) | (h | h))
    · exact Or.inr (Or.inr (Or.inl ⟨h.1, h.2.1, Or.inl h.2.2⟩))
    · exact Or.inr (Or.inr (Or.inr ⟨h.1, h.2.1, Or.inl h.2.2⟩))
    · exact Or.inl h
    · exact Or.inr (Or.inl h)
    · exact Or.inr (Or.inr (Or.inl ⟨h.1, h.2.1, Or.inr h.2.2⟩))
    · exact Or.inr (Or.inr (Or.inr ⟨h.1, h.2.1, Or.inr h.2.2⟩))
  · rintro (h | h | ⟨h1, h2, h3 | h3⟩ | ⟨h1, h2, h3 | h3⟩)
    · exact Or.inl (Or.inl (Or.inr h))
    · exact Or.inl (Or.inr h)
    · exact Or.inl (Or.inl (Or.inl (Or.inl ⟨h1, h2, h3⟩)))
    · exact Or.inr (Or.inl ⟨h1, h2, h3⟩)
    · exact Or.inl (Or.inl (Or.inl (Or.inr ⟨h1, h2, h3⟩)))
    · exact Or.inr (Or.inr ⟨h1, h2, h3⟩)


/-! ### the spec's destinations -/

theorem idx_mod (s : Square) (h : inR s = true) : s.idx % 8 = s.file := by
  rw [inR_iff] at h
  have := h.2
  unfold Square.idx; omega

theorem at_isNone (b : Board) (s : Square) (h : inR s = true) :
    ((abs b).at s.idx).isNone = (b.pieceAt s).isNone := by
  rw [abs_at_sq b s ((inR_iff s).mp h)]
  cases b.pieceAt s <;> rfl

theorem sPushes_eq (b : Board) (c : Color) (i : Nat) (hi : i < 64) :
    sPushes (abs b) i (pdr c) (pStart c) =
      if inR (sq1 c i) && (b.pieceAt (sq1 c i)).isNone then
        (sq1 c i).idx :: (if i / 8 == pStart c && (b.pieceAt (sq2 c i)).isNone then [(sq2 c i).idx] else [])
      else [] := by
  obtain ⟨g1, g2, -⟩ := pg c i hi
  unfold sPushes
  rw [g1]
  cases h1 : inR (sq1 c i)
  · rfl
  · simp only [if_pos, Bool.true_and]
    rw [at_isNone b _ h1]
    cases h2 : (b.pieceAt (sq1 c i)).isNone
    · rfl
    · simp only [if_pos]
      cases h3 : (i / 8 == pStart c)
      · rfl
      · obtain ⟨-, r2, e⟩ := g2 (by simpa using h3)
        simp only [if_pos, Bool.true_and]
        rw [e]
        simp only
        rw [at_isNone b _ r2]

theorem isNone_iff {α} (o : Option α) : o.isNone = true ↔ o = none := by cases o <;> simp

theorem mem_sPushes (b : Board) (c : Color) (i : Nat) (hi : i < 64) (t : Nat) :
    t ∈ sPushes (abs b) i (pdr c) (pStart c) ↔
      (inR (sq1 c i) = true ∧ t = (sq1 c i).idx ∧ b.pieceAt (sq1 c i) = none) ∨
      (i / 8 = pStart c ∧ t = (sq2 c i).idx ∧ b.pieceAt (sq1 c i) = none ∧ b.pieceAt (sq2 c i) = none) := by
  obtain ⟨-, g2, -⟩ := pg c i hi
  rw [sPushes_eq b c i hi]
  constructor
  · intro h
    split at h
    · rename_i h1
      rw [Bool.and_eq_true, isNone_iff] at h1
      rcases List.mem_cons.mp h with h | h
      · exact Or.inl ⟨h1.1, h, h1.2⟩
      · split at h
        · rename_i h2
          rw [Bool.and_eq_true, isNone_iff, beq_iff_eq] at h2
          exact Or.inr ⟨h2.1, by simpa using h, h1.2, h2.2⟩
        · cases h
    · cases h
  · rintro (⟨h1, h2, h3⟩ | ⟨h1, h2, h3, h4⟩)
    · rw [h1, h3, h2]
      exact List.mem_cons_self
    · have h1' : (i / 8 == pStart c) = true := by simpa using h1
      rw [(g2 h1).1, h3, h4, h1', h2]
      exact List.mem_cons_of_mem _ List.mem_cons_self

theorem nodup_sPushes (b : Board) (c : Color) (i : Nat) (hi : i < 64) :
    (sPushes (abs b) i (pdr c) (pStart c)).Nodup := by
  obtain ⟨n12, -⟩ := pg_ne c i hi
  rw [sPushes_eq b c i hi]
  split
  · split
    · simp [n12]
    · simp
  · exact List.nodup_nil

/-- the spec's capture test on a diagonal target, read on the board -/
def capB (b : Board) (c : Color) (i : Nat) (s : Square) : Bool :=
  match b.pieceAt s with
  | some k => k.color != c
  | none => i / 8 == pEp c && b.ep == some s.file

theorem sCapF_eq (b : Board) (c : Color) (i : Nat) (df : Int) (s : Square)
    (hstep : Rules.step i df (pdr c) = if inR s then some s.idx else none) :
    sCapF (abs b) i (pdr c) (absColor c) (pEp c) df = if inR s && capB b c i s then some s.idx else none := by
  unfold sCapF
  rw [hstep]
  cases h : inR s
  · rfl
  · simp only [if_pos, Bool.true_and]
    rw [abs_at_sq b s ((inR_iff s).mp h), idx_mod s h]
    unfold capB
    cases b.pieceAt s with
    | none => rfl
    | some k =>
      show (if ((absColor k.color != absColor c) = true) then _ else _) = _
      have : (absColor k.color != absColor c) = (k.color != c) := by
        unfold bne; rw [absColor_beq]
      rw [this]

theorem capB_iff (b : Board) (hw : WF b) (c : Color) (hc : c = b.turn) (i : Nat) (s : Square)
    (hr : i / 8 = pEp c → s.rank = pEpT c) : capB b c i s = true ↔ capOK b c i s := by
  unfold capB capOK
  constructor
  · intro h
    cases hp : b.pieceAt s with
    | none =>
      rw [hp] at h
      simp only [Bool.and_eq_true, beq_iff_eq] at h
      exact Or.inr h
    | some k =>
      rw [hp] at h
      refine Or.inl ⟨k, hp, ?_⟩
      simp only at h
      obtain ⟨pk, kc⟩ := k
      revert h
      cases kc <;> cases c <;> simp [Color.opp]
  · rintro (⟨k, hk, hcol⟩ | he)
    · rw [hk]
      simp only
      rw [hcol]
      cases c <;> decide
    · have := (ep_empty b hw c hc s (hr he.1) he.2).2
      rw [this]
      simp only [Bool.and_eq_true, beq_iff_eq]
      exact he

theorem sCaps_eq (b : Board) (c : Color) (i : Nat) (hi : i < 64) :
    sCaps (abs b) i (pdr c) (absColor c) (pEp c) =
      (if inR (sqE c i) && capB b c i (sqE c i) then [(sqE c i).idx] else []) ++
      (if inR (sqW c i) && capB b c i (sqW c i) then [(sqW c i).idx] else []) := by
  obtain ⟨-, -, g3, g4, -⟩ := pg c i hi
  unfold sCaps
  rw [List.filterMap_cons, List.filterMap_cons, List.filterMap_nil, sCapF_eq b c i 1 _ g3, sCapF_eq b c i (-1) _ g4]
  cases (inR (sqE c i) && capB b c i (sqE c i)) <;> cases (inR (sqW c i) && capB b c i (sqW c i)) <;> rfl

theorem mem_sCaps (b : Board) (hw : WF b) (c : Color) (hc : c = b.turn) (i : Nat) (hi : i < 64) (t : Nat) :
    t ∈ sCaps (abs b) i (pdr c) (absColor c) (pEp c) ↔
      (inR (sqE c i) = true ∧ t = (sqE c i).idx ∧ capOK b c i (sqE c i)) ∨
      (inR (sqW c i) = true ∧ t = (sqW c i).idx ∧ capOK b c i (sqW c i)) := by
  obtain ⟨-, -, -, -, -, -, g7, -⟩ := pg c i hi
  rw [sCaps_eq b c i hi, List.mem_append, ← capB_iff b hw c hc i _ (fun h => (g7 h).1),
    ← capB_iff b hw c hc i _ (fun h => (g7 h).2)]
  have e : ∀ (p q : Bool) (x : Nat), t ∈ (if p && q then [x] else []) ↔ p = true ∧ t = x ∧ q = true := by
    intro p q x
    cases p <;> cases q <;> simp
  rw [e, e]

theorem nodup_sCaps (b : Board) (c : Color) (i : Nat) (hi : i < 64) :
    (sCaps (abs b) i (pdr c) (absColor c) (pEp c)).Nodup := by
  obtain ⟨-, -, -, -, -, new, -⟩ := pg_ne c i hi
  rw [sCaps_eq b c i hi]
  split <;> split <;> simp [new]

def sDests (b : Board) (c : Color) (i : Nat) : List Nat :=
  sPushes (abs b) i (pdr c) (pStart c) ++ sCaps (abs b) i (pdr c) (absColor c) (pEp c)

theorem mem_sDests (b : Board) (hw : WF b) (c : Color) (hc : c = b.turn) (i : Nat) (hi : i < 64) (t : Nat) :
    t ∈ sDests b c i ↔ Dest b c i t := by
  unfold sDests Dest
  rw [List.mem_append, mem_sPushes b c i hi, mem_sCaps b hw c hc i hi, or_assoc]

theorem nodup_sDests (b : Board) (hw : WF b) (c : Color) (hc : c = b.turn) (i : Nat) (hi : i < 64) :
    (sDests b c i).Nodup := by
  obtain ⟨-, n1e, n1w, n2e, n2w, -⟩ := pg_ne c i hi
  unfold sDests
  rw [List.nodup_append]
  refine ⟨nodup_sPushes b c i hi, nodup_sCaps b c i hi, ?_⟩
  intro x hx y hy
  rw [mem_sPushes b c i hi] at hx
  rw [mem_sCaps b hw c hc i hi] at hy
  rcases hx with ⟨-, rfl, -⟩ | ⟨-, rfl, -⟩ <;> rcases hy with ⟨-, rfl, -⟩ | ⟨-, rfl, -⟩ <;> assumption


/-! ### assembling -/

theorem base_facts (b : Board) (hw : WF b) (c : Color) (i : Nat) (hi : i < 64) :
    ∀ p ∈ mCaps (Square.ofIdx i) b c ++ mSingle (Square.ofIdx i) b c ++ mDouble (Square.ofIdx i) b c ++
      mEps (Square.ofIdx i) b c, p.start = Square.ofIdx i ∧ p.promoted = none ∧ p.dest.idx ≠ i := by
  obtain ⟨-, -, -, -, -, -, n1, n2, ne, nw⟩ := pg_ne c i hi
  intro p hp
  rw [List.mem_append, List.mem_append, List.mem_append] at hp
  rcases hp with ((hp | hp) | hp) | hp
  · unfold mCaps at hp
    rw [List.mem_map] at hp
    obtain ⟨s, hs, rfl⟩ := hp
    refine ⟨rfl, rfl, ?_⟩
    show (Square.ofIdx s).idx ≠ i
    rw [ofIdx_idx]
    rw [ofIdx_idx, mem_mcaps b hw c i hi] at hs
    rcases hs with ⟨-, rfl, -⟩ | ⟨-, rfl, -⟩
    · exact ne
    · exact nw
  · unfold mSingle at hp
    split at hp
    · rw [List.mem_singleton] at hp; subst hp; exact ⟨rfl, rfl, n1⟩
    · cases hp
  · unfold mDouble at hp
    split at hp
    · rw [List.mem_singleton] at hp; subst hp; exact ⟨rfl, rfl, n2⟩
    · cases hp
  · unfold mEps at hp
    split at hp
    · rw [List.mem_append] at hp
      rcases hp with hp | hp <;> split at hp
      · rw [List.mem_singleton] at hp; subst hp; exact ⟨rfl, rfl, ne⟩
      · cases hp
      · rw [List.mem_singleton] at hp; subst hp; exact ⟨rfl, rfl, nw⟩
      · cases hp
    · cases hp

theorem mem_sExpand (i l t : Nat) (x : Rules.Move) (h : x ∈ sExpand i l t) : x.src = i ∧ x.dst = t := by
  unfold sExpand at h
  split at h
  · rw [List.mem_map] at h
    obtain ⟨k, -, rfl⟩ := h
    exact ⟨rfl, rfl⟩
  · rw [List.mem_singleton] at h; subst h; exact ⟨rfl, rfl⟩

theorem nodup_sExpand (i l t : Nat) : (sExpand i l t).Nodup := by
  unfold sExpand
  split
  · simp [Rules.promoKinds]
  · simp

theorem nodup_expand (i l : Nat) (ds : List Nat) (h : ds.Nodup) : (ds.flatMap (sExpand i l)).Nodup := by
  apply nodup_flatMap _ _ h (fun a _ => nodup_sExpand i l a)
  intro a _ a' _ hne x hx y hy e
  apply hne
  rw [← (mem_sExpand _ _ _ _ hx).2, ← (mem_sExpand _ _ _ _ hy).2, e]

end Pawn
open Pawn

set_option linter.unusedVariables false in
/-- the pawn moves the engine generates from one square are, as (from,to,promotion) triples, exactly the spec's -/
theorem pawn_perm (b : Board) (hw : WF b) (i : Nat) (hi : i < 64) (c : Color)
    (hp : b.pieceAt (Square.ofIdx i) = some ⟨.pawn, c⟩) (hc : c = b.turn) :
    ((kindMoveset ⟨.pawn, c⟩ (Square.ofIdx i) b).map absMove).Perm (Rules.pawnMoves (abs b) i (absColor c)) ∧
    ((kindMoveset ⟨.pawn, c⟩ (Square.ofIdx i) b).map absMove).Nodup ∧
    (∀ mv ∈ (kindMoveset ⟨.pawn, c⟩ (Square.ofIdx i) b).map absMove, mv.src = i) := by
  have hm : (kindMoveset ⟨.pawn, c⟩ (Square.ofIdx i) b).map absMove =
      (mDests b c i).flatMap (sExpand i (pBack c)) := by
    rw [kindMoveset_pawn, pawnMoveset_eq, explode_abs c i hi _ (base_facts b hw c i hi)]
    show (dOf _).flatMap _ = _
    rw [mDests_eq]
  have hs : Rules.pawnMoves (abs b) i (absColor c) = (sDests b c i).flatMap (sExpand i (pBack c)) :=
    pawnMoves_eq (abs b) i c
  have hnm := nodup_mDests b hw c hc i hi
  have hns := nodup_sDests b hw c hc i hi
  have hperm : (mDests b c i).Perm (sDests b c i) :=
    perm_of_nodup_of_mem_iff hnm hns fun t => (mem_mDests b hw c i hi t).trans (mem_sDests b hw c hc i hi t).symm
  rw [hm, hs]
  refine ⟨hperm.flatMap_right _, nodup_expand _ _ _ hnm, ?_⟩
  intro mv hmv
  rw [List.mem_flatMap] at hmv
  obtain ⟨t, -, ht⟩ := hmv
  exact (mem_sExpand _ _ _ _ ht).1

end RCE.Proofs.MoveGen
