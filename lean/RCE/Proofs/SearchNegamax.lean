import RCE.Proofs.SearchNegamaxBase
/-! C11: the fail-hard PVS search with the cache neutralised and nothing limiting it arrives at the
    plain minimax value of the engine's look-ahead game. -/
namespace RCE.Proofs.SearchNegamax
open RCE.Search RCE.Proofs.SearchDefs

variable {P M : Type} [DecidableEq M]
set_option linter.unusedSectionVars false

/-- what a value `r` returned for the window `(a, b)` says about the true value `v` -/
def Good (v a b r : Int) : Prop :=
  (r ≤ a → v ≤ r) ∧ (r ≥ b → v ≥ r) ∧ (a < r ∧ r < b → v = r)

theorem good_self (v a b : Int) : Good v a b v := ⟨fun _ => Int.le_refl _, fun _ => Int.le_refl _, fun _ => rfl⟩

/-- specification of the child search of an inner node, children at ply `ply` -/
def RecSpec (G : Game P M) (rec : P → Int → Int → Nat → St M → Int × St M) (val : P → Nat → Int) (ply : Nat) : Prop :=
  ∀ c a b depth st, st.running = true → st.ply = ply → EvalBoundedFrom G c →
    (rec c a b depth st).2.running = true ∧ (rec c a b depth st).2.ply = ply ∧
    (-32767 ≤ a → a < b → b ≤ 32767 → Good (val c depth) a b (rec c a b depth st).1)

def ValRange (G : Game P M) (val : P → Nat → Int) : Prop :=
  ∀ c depth, EvalBoundedFrom G c → -32767 ≤ val c depth ∧ val c depth ≤ 32767

/-- specification of the child search of a quiescence node -/
def RecSpecQ (G : Game P M) (rec : P → Int → Int → St M → Int × St M) (val : P → Int) (ply : Nat) : Prop :=
  ∀ c a b st, st.running = true → st.ply = ply → EvalBoundedFrom G c →
    (rec c a b st).2.running = true ∧ (rec c a b st).2.ply = ply ∧
    (-32767 ≤ a → a < b → b ≤ 32767 → Good (val c) a b (rec c a b st).1)

def ValRangeQ (G : Game P M) (val : P → Int) : Prop :=
  ∀ c, EvalBoundedFrom G c → -32767 ≤ val c ∧ val c ≤ 32767

/-! ### one child with the PVS window logic -/

def pvsCore (rec : P → Int → Int → Nat → St M → Int × St M) (c : P) (alpha beta : Int) (depth : Nat)
    (pvs : Bool) (st : St M) : Int × St M :=
  if pvs then
    let r1 := rec c (satNeg alpha - 1) (satNeg alpha) (depth - 1) st
    let s := satNeg r1.1
    if alpha < s ∧ s < beta then
      let r2 := rec c (satNeg beta) (satNeg alpha) (depth - 1) r1.2
      (satNeg r2.1, r2.2)
    else (s, r1.2)
  else
    let r := rec c (satNeg beta) (satNeg alpha) (depth - 1) st
    (satNeg r.1, r.2)

def enter (updSel : Bool) (st : St M) : St M :=
  let st0 : St M := { st with nodes := st.nodes + 1, ply := st.ply + 1 }
  if updSel then { st0 with seldepth := max st0.seldepth st0.ply } else st0

def leave (st : St M) : St M := { st with ply := st.ply - 1 }

theorem enter_running (u : Bool) (st : St M) : (enter u st).running = st.running := by
  unfold enter; cases u <;> rfl
theorem enter_ply (u : Bool) (st : St M) : (enter u st).ply = st.ply + 1 := by
  unfold enter; cases u <;> rfl
theorem leave_running (st : St M) : (leave st).running = st.running := rfl
theorem leave_ply (st : St M) : (leave st).ply = st.ply - 1 := rfl

theorem pvsChild_eq (G : Game P M) (rec) (p : P) (m : M) (alpha beta : Int) (depth : Nat) (pvs updSel : Bool) (st : St M) :
    pvsChild G rec p m alpha beta depth pvs updSel st =
      ((pvsCore rec (G.play p m) alpha beta depth pvs (enter updSel st)).1,
       leave (pvsCore rec (G.play p m) alpha beta depth pvs (enter updSel st)).2) := by
  unfold pvsChild pvsCore enter leave
  cases pvs <;> simp

theorem pvsCore_spec {G : Game P M} {rec} {val : P → Nat → Int} {ply : Nat}
    (hrec : RecSpec G rec val ply) (hv : ValRange G val)
    (c : P) (alpha beta : Int) (depth : Nat) (pvs : Bool) (st : St M)
    (hr : st.running = true) (hp : st.ply = ply) (hc : EvalBoundedFrom G c) :
    (pvsCore rec c alpha beta depth pvs st).2.running = true ∧
    (pvsCore rec c alpha beta depth pvs st).2.ply = ply ∧
    (pvsCore rec c alpha beta depth pvs st).1 ≤ 32767 ∧
    (-32768 ≤ alpha → alpha < beta → beta ≤ 32767 → (pvs = true → -32767 ≤ alpha) →
      (alpha = -32768 → -32767 < beta) →
      Good (- val c (depth - 1)) alpha beta (pvsCore rec c alpha beta depth pvs st).1) := by
  have hvr := hv c (depth - 1) hc
  cases pvs with
  | false =>
    have h := hrec c (satNeg beta) (satNeg alpha) (depth - 1) st hr hp hc
    simp only [pvsCore, Bool.false_eq_true, if_false]
    refine ⟨h.1, h.2.1, satNeg_le _, ?_⟩
    intro h1 h2 h3 _ h5
    have hb := satNeg_eq_neg (x := beta) (by omega) h3
    have hg := h.2.2
    generalize (rec c (satNeg beta) (satNeg alpha) (depth - 1) st).1 = r at *
    rcases satNeg_cases alpha with ha | ha | ha <;> rcases satNeg_cases r with hs | hs | hs <;>
      (have hg' := hg (by omega) (by omega) (by omega); unfold Good at *; omega)
  | true =>
    have h0 := hrec c (satNeg alpha - 1) (satNeg alpha) (depth - 1) st hr hp hc
    simp only [pvsCore, if_true]
    by_cases hcond : alpha < satNeg (rec c (satNeg alpha - 1) (satNeg alpha) (depth - 1) st).1 ∧
        satNeg (rec c (satNeg alpha - 1) (satNeg alpha) (depth - 1) st).1 < beta
    · have h1 := hrec c (satNeg beta) (satNeg alpha) (depth - 1) _ h0.1 h0.2.1 hc
      simp only [hcond, and_self, if_true]
      refine ⟨h1.1, h1.2.1, satNeg_le _, ?_⟩
      intro g1 g2 g3 g4 _
      have g4 := g4 trivial
      have hb := satNeg_eq_neg (x := beta) (by omega) g3
      have ha := satNeg_eq_neg (x := alpha) g4 (by omega)
      have hg := h1.2.2 (by omega) (by omega) (by omega)
      generalize (rec c (satNeg beta) (satNeg alpha) (depth - 1) _).1 = r at *
      rcases satNeg_cases r with hs | hs | hs <;> (unfold Good at *; omega)
    · simp only [hcond, if_false]
      refine ⟨h0.1, h0.2.1, satNeg_le _, ?_⟩
      intro g1 g2 g3 g4 _
      have g4 := g4 trivial
      have ha := satNeg_eq_neg (x := alpha) g4 (by omega)
      have hg := h0.2.2 (by omega) (by omega) (by omega)
      generalize (rec c (satNeg alpha - 1) (satNeg alpha) (depth - 1) st).1 = r at *
      rcases satNeg_cases r with hs | hs | hs <;> (unfold Good at *; omega)

theorem pvsChild_spec {G : Game P M} {rec} {val : P → Nat → Int} {ply : Nat}
    (hrec : RecSpec G rec val (ply + 1)) (hv : ValRange G val)
    (p : P) (m : M) (alpha beta : Int) (depth : Nat) (pvs updSel : Bool) (st : St M)
    (hr : st.running = true) (hp : st.ply = ply) (hc : EvalBoundedFrom G (G.play p m)) :
    (pvsChild G rec p m alpha beta depth pvs updSel st).2.running = true ∧
    (pvsChild G rec p m alpha beta depth pvs updSel st).2.ply = ply ∧
    (pvsChild G rec p m alpha beta depth pvs updSel st).1 ≤ 32767 ∧
    (-32768 ≤ alpha → alpha < beta → beta ≤ 32767 → (pvs = true → -32767 ≤ alpha) →
      (alpha = -32768 → -32767 < beta) →
      Good (- val (G.play p m) (depth - 1)) alpha beta (pvsChild G rec p m alpha beta depth pvs updSel st).1) := by
  have h := pvsCore_spec hrec hv (G.play p m) alpha beta depth pvs (enter updSel st)
    (by rw [enter_running]; exact hr) (by rw [enter_ply, hp]) hc
  rw [pvsChild_eq]
  refine ⟨by rw [leave_running]; exact h.1, by rw [leave_ply, h.2.1]; rfl, h.2.2.1, h.2.2.2⟩

/-! ### the quiescence loop -/

def QPost (ply : Nat) (beta v : Int) : QLoop M → Prop
  | .cut st' => st'.running = true ∧ st'.ply = ply ∧ beta ≤ v
  | .done a st' => st'.running = true ∧ st'.ply = ply ∧ a = v ∧ a < beta

theorem qKids_cons (G : Game P M) (rec) (p : P) (m : M) (ms : List M) (alpha beta : Int) (st : St M) :
    qKids G rec p (m :: ms) alpha beta st =
      if G.legal p m = true then
        if satNeg (rec (G.play p m) (satNeg beta) (satNeg alpha) (enter true st)).1 ≥ beta then
          .cut (leave (rec (G.play p m) (satNeg beta) (satNeg alpha) (enter true st)).2)
        else if satNeg (rec (G.play p m) (satNeg beta) (satNeg alpha) (enter true st)).1 > alpha then
          qKids G rec p ms (satNeg (rec (G.play p m) (satNeg beta) (satNeg alpha) (enter true st)).1) beta
            (leave (rec (G.play p m) (satNeg beta) (satNeg alpha) (enter true st)).2)
        else qKids G rec p ms alpha beta (leave (rec (G.play p m) (satNeg beta) (satNeg alpha) (enter true st)).2)
      else qKids G rec p ms alpha beta st := by
  rw [qKids]
  cases G.legal p m <;> simp [enter, leave]

theorem qKids_spec {G : Game P M} {rec} {val : P → Int} {ply : Nat}
    (hrec : RecSpecQ G rec val (ply + 1)) (hv : ValRangeQ G val) (p : P) (hp : EvalBoundedFrom G p) :
    ∀ (ks : List M) (alpha beta : Int) (st : St M), (∀ m ∈ ks, m ∈ G.allMoves p) →
      st.running = true → st.ply = ply → -32767 ≤ alpha → alpha < beta → beta ≤ 32767 →
      QPost ply beta (maxList alpha ((ks.filter (G.legal p)).map fun m => - val (G.play p m)))
        (qKids G rec p ks alpha beta st) := by
  intro ks
  induction ks with
  | nil => intro alpha beta st _ hr hpl _ hab _; exact ⟨hr, hpl, rfl, hab⟩
  | cons m ms ih =>
    intro alpha beta st hsub hr hpl ha hab hb
    have hsub' : ∀ m' ∈ ms, m' ∈ G.allMoves p := fun m' h => hsub m' (List.mem_cons_of_mem _ h)
    rw [qKids_cons]
    by_cases hl : G.legal p m = true
    · have hc : EvalBoundedFrom G (G.play p m) := evalBounded_step hp (hsub m List.mem_cons_self)
      have hvr := hv _ hc
      have h := hrec (G.play p m) (satNeg beta) (satNeg alpha) (enter true st)
        (by rw [enter_running]; exact hr) (by rw [enter_ply, hpl]) hc
      have h1 : (leave (rec (G.play p m) (satNeg beta) (satNeg alpha) (enter true st)).2).running = true := by
        rw [leave_running]; exact h.1
      have h2 : (leave (rec (G.play p m) (satNeg beta) (satNeg alpha) (enter true st)).2).ply = ply := by
        rw [leave_ply, h.2.1]; rfl
      have hg := h.2.2
      rw [satNeg_eq_neg (x := beta) (by omega) hb, satNeg_eq_neg (x := alpha) ha (by omega)] at hg h1 h2 ⊢
      have hg := hg (by omega) (by omega) (by omega)
      generalize (leave (rec (G.play p m) (-beta) (-alpha) (enter true st)).2) = st2 at *
      generalize (rec (G.play p m) (-beta) (-alpha) (enter true st)).1 = r at *
      simp only [hl, if_true, List.filter_cons_of_pos, List.map_cons, maxList_cons]
      have hs : satNeg r = -r := by
        rcases satNeg_cases r with hs | hs | hs <;> (unfold Good at hg; omega)
      rw [hs]
      by_cases hcut : -r ≥ beta
      · simp only [hcut, if_true]
        refine ⟨h1, h2, ?_⟩
        have := maxList_ge ((ms.filter (G.legal p)).map fun m => - val (G.play p m)) (max alpha (- val (G.play p m)))
        unfold Good at hg; omega
      · simp only [hcut, if_false]
        by_cases hgt : -r > alpha
        · simp only [hgt, if_true]
          have : max alpha (- val (G.play p m)) = -r := by unfold Good at hg; omega
          rw [this]
          exact ih (-r) beta st2 hsub' h1 h2 (by omega) (by omega) hb
        · simp only [hgt, if_false]
          have : max alpha (- val (G.play p m)) = alpha := by unfold Good at hg; omega
          rw [this]
          exact ih alpha beta st2 hsub' h1 h2 ha hab hb
    · simp only [hl, if_false, Bool.false_eq_true]
      rw [List.filter_cons_of_neg (by simpa using hl)]
      exact ih alpha beta st hsub' hr hpl ha hab hb

/-! ### quiescence -/

/-- state part of the quiescence loop, for arbitrary windows -/
def QSt (ply : Nat) : QLoop M → Prop
  | .cut st' => st'.running = true ∧ st'.ply = ply
  | .done _ st' => st'.running = true ∧ st'.ply = ply

theorem qKids_st {G : Game P M} {rec} {val : P → Int} {ply : Nat}
    (hrec : RecSpecQ G rec val (ply + 1)) (p : P) (hp : EvalBoundedFrom G p) :
    ∀ (ks : List M) (alpha beta : Int) (st : St M), (∀ m ∈ ks, m ∈ G.allMoves p) →
      st.running = true → st.ply = ply → QSt ply (qKids G rec p ks alpha beta st) := by
  intro ks
  induction ks with
  | nil => intro alpha beta st _ hr hpl; exact ⟨hr, hpl⟩
  | cons m ms ih =>
    intro alpha beta st hsub hr hpl
    have hsub' : ∀ m' ∈ ms, m' ∈ G.allMoves p := fun m' h => hsub m' (List.mem_cons_of_mem _ h)
    rw [qKids_cons]
    split
    · have hc : EvalBoundedFrom G (G.play p m) := evalBounded_step hp (hsub m List.mem_cons_self)
      have h := hrec (G.play p m) (satNeg beta) (satNeg alpha) (enter true st)
        (by rw [enter_running]; exact hr) (by rw [enter_ply, hpl]) hc
      have h1 : (leave (rec (G.play p m) (satNeg beta) (satNeg alpha) (enter true st)).2).running = true := by
        rw [leave_running]; exact h.1
      have h2 : (leave (rec (G.play p m) (satNeg beta) (satNeg alpha) (enter true st)).2).ply = ply := by
        rw [leave_ply, h.2.1]; rfl
      split
      · exact ⟨h1, h2⟩
      · split
        · exact ih _ _ _ hsub' h1 h2
        · exact ih _ _ _ hsub' h1 h2
    · exact ih _ _ _ hsub' hr hpl

theorem filter_filter_comm {α : Type} (f g : α → Bool) (l : List α) :
    (l.filter f).filter g = (l.filter g).filter f := by
  simp [List.filter_filter, Bool.and_comm]

theorem quiesce_spec {env : Env} (hu : Unlimited env) (G : Game P M) :
    ∀ fuel ply, RecSpecQ G (quiesce env G fuel) (fun c => nmQuiesce G fuel c ply) ply := by
  intro fuel
  induction fuel with
  | zero =>
    intro ply c a b st hr hpl _
    simp only [quiesce, nmQuiesce]
    exact ⟨hr, hpl, fun _ _ _ => good_self _ _ _⟩
  | succ fuel ih =>
    intro ply p a b st hr hpl hc
    obtain ⟨st1, hac, hr1, hp1, _, _⟩ := abortCheck_unlimited hu st hr
    rw [hpl] at hp1 hac
    simp only [quiesce, hac, nmQuiesce]
    by_cases h255 : ply = 255
    · simp only [h255, decide_true, if_true]
      exact ⟨hr1, by omega, fun _ _ _ => good_self _ _ _⟩
    · simp only [h255, decide_false, if_false, Bool.false_eq_true]
      have hev := hc p Reach.refl
      generalize hV : maxList (G.eval p) (((legalMovesOf G p).filter G.isCapture).map
        fun m => - nmQuiesce G fuel (G.play p m) (ply + 1)) = V
      by_cases hsp : G.eval p ≥ b
      · simp only [hsp, if_true]
        refine ⟨hr1, hp1, fun _ hab _ => ?_⟩
        have := maxList_ge (((legalMovesOf G p).filter G.isCapture).map
          fun m => - nmQuiesce G fuel (G.play p m) (ply + 1)) (G.eval p)
        unfold Good; omega
      · simp only [hsp, if_false]
        generalize hord : orderMoves G _ _ (List.filter G.isCapture (G.allMoves p)) = ord
        have hperm : List.Perm ord (List.filter G.isCapture (G.allMoves p)) := hord ▸ orderMoves_perm G _ _ _
        have hsub : ∀ m ∈ ord, m ∈ G.allMoves p := fun m hm => (List.mem_filter.1 (hperm.mem_iff.1 hm)).1
        have hvr : ValRangeQ G (fun c => nmQuiesce G fuel c (ply + 1)) := fun c hc => nmQuiesce_range G fuel c _ hc
        have hlist : maxList (G.eval p) ((ord.filter (G.legal p)).map fun m => - nmQuiesce G fuel (G.play p m) (ply + 1)) = V := by
          rw [← hV]
          apply maxList_perm
          apply List.Perm.map
          have := hperm.filter (G.legal p)
          rw [filter_filter_comm] at this
          exact this
        by_cases hwin : -32767 ≤ a ∧ a < b ∧ b ≤ 32767
        · obtain ⟨ha, hab, hb⟩ := hwin
          have hq := qKids_spec (ih (ply + 1)) hvr p hc ord (if G.eval p > a then G.eval p else a) b st1 hsub hr1 hp1
            (by split <;> omega) (by split <;> omega) hb
          have hmax : (if G.eval p > a then G.eval p else a) = max a (G.eval p) := by split <;> omega
          rw [hmax, maxList_max, hlist] at hq
          rw [hmax]
          generalize qKids G (quiesce env G fuel) p ord (max a (G.eval p)) b st1 = res at hq ⊢
          cases res with
          | cut st' =>
            obtain ⟨g1, g2, g3⟩ := hq
            refine ⟨g1, g2, fun _ _ _ => ?_⟩
            show Good V a b b
            unfold Good; omega
          | done al st' =>
            obtain ⟨g1, g2, g3, g4⟩ := hq
            refine ⟨g1, g2, fun _ _ _ => ?_⟩
            show Good V a b al
            unfold Good; omega
        · have hq := qKids_st (ih (ply + 1)) p hc ord (if G.eval p > a then G.eval p else a) b st1 hsub hr1 hp1
          generalize qKids G (quiesce env G fuel) p ord (if G.eval p > a then G.eval p else a) b st1 = res at hq ⊢
          cases res with
          | cut st' => exact ⟨hq.1, hq.2, fun h1 h2 h3 => absurd ⟨h1, h2, h3⟩ hwin⟩
          | done al st' => exact ⟨hq.1, hq.2, fun h1 h2 h3 => absurd ⟨h1, h2, h3⟩ hwin⟩
/-! ### the move loop of an inner node -/

theorem insert_running (st : St M) (k : UInt64) (e : Entry M) (s : Nat) : (st.insert k e s).running = st.running := rfl
theorem insert_ply (st : St M) (k : UInt64) (e : Entry M) (s : Nat) : (st.insert k e s).ply = st.ply := rfl
theorem storeKillers_running (G : Game P M) (m : M) (st : St M) : (storeKillers G m st).running = st.running := by
  unfold storeKillers; split
  · rfl
  · simp only []; split <;> rfl
theorem storeKillers_ply (G : Game P M) (m : M) (st : St M) : (storeKillers G m st).ply = st.ply := by
  unfold storeKillers; split
  · rfl
  · simp only []; split <;> rfl

def abTail (env : Env) (G : Game P M) (rec : P → Int → Int → Nat → St M → Int × St M) (p : P) (depth : Nat)
    (m : M) (ms : List M) (alpha beta : Int) (best : M) (pvs : Bool) (n : Nat) (r : Int × St M) : Loop M :=
  if (abortCheck env r.2).1 = true then .abort (abortCheck env r.2).2 else
  if r.1 ≥ beta then .cut (storeKillers G m ((abortCheck env r.2).2.insert (G.key p) ⟨r.1, depth, .lower, m⟩ 2))
  else if r.1 > alpha then abKids env G rec p depth ms r.1 beta m true (n + 1) (abortCheck env r.2).2
  else abKids env G rec p depth ms alpha beta best pvs (n + 1) (abortCheck env r.2).2

theorem abKids_cons (env : Env) (G : Game P M) (rec) (p : P) (depth : Nat) (m : M) (ms : List M)
    (alpha beta : Int) (best : M) (pvs : Bool) (n : Nat) (st : St M) :
    abKids env G rec p depth (m :: ms) alpha beta best pvs n st =
      if G.legal p m = true then
        abTail env G rec p depth m ms alpha beta best pvs n (pvsChild G rec p m alpha beta depth pvs true st)
      else abKids env G rec p depth ms alpha beta best pvs n st := by
  rw [abKids]
  cases G.legal p m <;> simp [abTail]

def LPost (ply : Nat) (beta v : Int) (cnt : Nat) : Loop M → Prop
  | .abort _ => False
  | .cut st' => st'.running = true ∧ st'.ply = ply ∧ beta ≤ v
  | .done a _ n st' => st'.running = true ∧ st'.ply = ply ∧ a = v ∧ a < beta ∧ n = cnt

def LSt (ply : Nat) : Loop M → Prop
  | .abort _ => False
  | .cut st' => st'.running = true ∧ st'.ply = ply
  | .done _ _ _ st' => st'.running = true ∧ st'.ply = ply

theorem abKids_st {env : Env} (hu : Unlimited env) {G : Game P M} {rec} {val : P → Nat → Int} {ply : Nat}
    (hrec : RecSpec G rec val (ply + 1)) (hv : ValRange G val) (h255 : ply ≠ 255)
    (p : P) (hp : EvalBoundedFrom G p) (depth : Nat) :
    ∀ (ks : List M) (alpha beta : Int) (best : M) (pvs : Bool) (n : Nat) (st : St M),
      (∀ m ∈ ks, m ∈ G.allMoves p) → st.running = true → st.ply = ply →
      LSt ply (abKids env G rec p depth ks alpha beta best pvs n st) := by
  intro ks
  induction ks with
  | nil => intro alpha beta best pvs n st _ hr hpl; exact ⟨hr, hpl⟩
  | cons m ms ih =>
    intro alpha beta best pvs n st hsub hr hpl
    have hsub' : ∀ m' ∈ ms, m' ∈ G.allMoves p := fun m' h => hsub m' (List.mem_cons_of_mem _ h)
    rw [abKids_cons]
    split
    · have hc : EvalBoundedFrom G (G.play p m) := evalBounded_step hp (hsub m List.mem_cons_self)
      have h := pvsChild_spec hrec hv p m alpha beta depth pvs true st hr hpl hc
      generalize pvsChild G rec p m alpha beta depth pvs true st = r at h ⊢
      obtain ⟨st2, hac, hr2, hp2, _, _⟩ := abortCheck_unlimited hu r.2 h.1
      rw [h.2.1] at hp2 hac
      simp only [abTail, hac, h255, decide_false, Bool.false_eq_true, if_false]
      split
      · exact ⟨by rw [storeKillers_running, insert_running]; exact hr2,
          by rw [storeKillers_ply, insert_ply]; exact hp2⟩
      · split
        · exact ih _ _ _ _ _ _ hsub' hr2 hp2
        · exact ih _ _ _ _ _ _ hsub' hr2 hp2
    · exact ih _ _ _ _ _ _ hsub' hr hpl

theorem abKids_spec {env : Env} (hu : Unlimited env) {G : Game P M} {rec} {val : P → Nat → Int} {ply : Nat}
    (hrec : RecSpec G rec val (ply + 1)) (hv : ValRange G val) (h255 : ply ≠ 255)
    (p : P) (hp : EvalBoundedFrom G p) (depth : Nat) :
    ∀ (ks : List M) (alpha beta : Int) (best : M) (pvs : Bool) (n : Nat) (st : St M),
      (∀ m ∈ ks, m ∈ G.allMoves p) → st.running = true → st.ply = ply →
      -32767 ≤ alpha → alpha < beta → beta ≤ 32767 →
      LPost ply beta (maxList alpha ((ks.filter (G.legal p)).map fun m => - val (G.play p m) (depth - 1)))
        (n + (ks.filter (G.legal p)).length)
        (abKids env G rec p depth ks alpha beta best pvs n st) := by
  intro ks
  induction ks with
  | nil => intro alpha beta best pvs n st _ hr hpl _ hab _; exact ⟨hr, hpl, rfl, hab, rfl⟩
  | cons m ms ih =>
    intro alpha beta best pvs n st hsub hr hpl ha hab hb
    have hsub' : ∀ m' ∈ ms, m' ∈ G.allMoves p := fun m' h => hsub m' (List.mem_cons_of_mem _ h)
    rw [abKids_cons]
    by_cases hl : G.legal p m = true
    · have hc : EvalBoundedFrom G (G.play p m) := evalBounded_step hp (hsub m List.mem_cons_self)
      have hvr := hv _ (depth - 1) hc
      have h := pvsChild_spec hrec hv p m alpha beta depth pvs true st hr hpl hc
      generalize pvsChild G rec p m alpha beta depth pvs true st = r at h ⊢
      obtain ⟨st2, hac, hr2, hp2, _, _⟩ := abortCheck_unlimited hu r.2 h.1
      rw [h.2.1] at hp2 hac
      have hg := h.2.2.2 (by omega) hab hb (fun _ => ha) (by omega)
      simp only [hl, if_true, abTail, hac, h255, decide_false, Bool.false_eq_true, if_false,
        List.filter_cons_of_pos, List.map_cons, maxList_cons, List.length_cons]
      by_cases hcut : r.1 ≥ beta
      · simp only [hcut, if_true]
        refine ⟨by rw [storeKillers_running, insert_running]; exact hr2,
          by rw [storeKillers_ply, insert_ply]; exact hp2, ?_⟩
        have := maxList_ge ((ms.filter (G.legal p)).map fun m => - val (G.play p m) (depth - 1))
          (max alpha (- val (G.play p m) (depth - 1)))
        unfold Good at hg; omega
      · simp only [hcut, if_false]
        by_cases hgt : r.1 > alpha
        · simp only [hgt, if_true]
          have : max alpha (- val (G.play p m) (depth - 1)) = r.1 := by unfold Good at hg; omega
          rw [this]
          have := ih r.1 beta m true (n + 1) st2 hsub' hr2 hp2 (by omega) (by omega) hb
          rwa [Nat.add_right_comm, Nat.add_assoc] at this
        · simp only [hgt, if_false]
          have : max alpha (- val (G.play p m) (depth - 1)) = alpha := by unfold Good at hg; omega
          rw [this]
          have := ih alpha beta best pvs (n + 1) st2 hsub' hr2 hp2 ha hab hb
          rwa [Nat.add_right_comm, Nat.add_assoc] at this
    · simp only [hl, if_false, Bool.false_eq_true]
      rw [List.filter_cons_of_neg (by simpa using hl)]
      exact ih alpha beta best pvs n st hsub' hr hpl ha hab hb

/-! ### an inner node -/

def clearTT (st : St M) : St M := { st with tt := {} }

/-- `alpha_beta` after the abort check, the draw tests and the (neutralised) cache probe -/
def abBody (env : Env) (G : Game P M) (fuel : Nat) (p : P) (a b : Int) (dep : Nat) (st : St M) : Int × St M :=
  if dep = 0 then quiesce env G (fuel + 1) p a b st else
  match abKids env G (ab env G fuel) p dep
      (orderMoves G ((st.tt[G.key p]?).map (·.best)) (st.killers.getD st.ply (none, none)) (G.allMoves p))
      a b ((G.allMoves p).headD G.defaultMove) false 0 st with
  | .abort st => (0, st)
  | .cut st => (b, st)
  | .done alpha best n st =>
    if n = 0 then (if G.inCheck p then (MINS + st.ply, st) else (0, st))
    else (alpha, st.insert (G.key p) ⟨alpha, dep, if alpha ≤ a then .upper else .exact, best⟩ 3)

theorem ab_succ (env : Env) (hoff : env.cacheOff = true) (G : Game P M) (fuel : Nat) (p : P) (a b : Int)
    (depth : Nat) (st : St M) :
    ab env G (fuel + 1) p a b depth st =
      if (abortCheck env st).1 = true then (0, (abortCheck env st).2) else
      if G.fifty p = true then (0, (abortCheck env st).2) else
      if G.repeated p = true then (0, (abortCheck env st).2) else
      abBody env G fuel p a b (if G.inCheck p = true then depth + 1 else depth) (clearTT (abortCheck env st).2) := by
  have hprobe : ∀ (k : UInt64) (d : Nat), probe ({} : Table M) k d a b = .inr (a, b) := by
    intro k d; simp [probe]
  rw [ab]
  simp only [hoff, if_true, hprobe]
  rcases abortCheck env st with ⟨x, st1⟩
  cases x <;> cases G.fifty p <;> cases G.repeated p <;> simp [abBody, clearTT] <;> rfl

/-- the value of a node once the ply cap and the draw tests are passed -/
def nodeValue (G : Game P M) (fuel : Nat) (p : P) (dep ply : Nat) : Int :=
  if dep = 0 then nmQuiesce G (fuel + 1) p ply else
  if (legalMovesOf G p).isEmpty = true then (if G.inCheck p = true then MINS + ply else 0) else
  maxList MINS ((legalMovesOf G p).map fun m => - negamax G fuel (G.play p m) (dep - 1) (ply + 1))

theorem abBody_spec {env : Env} (hu : Unlimited env) (G : Game P M) (fuel ply : Nat) (h255 : ply ≠ 255) (hply : ply ≤ 255)
    (hrec : RecSpec G (ab env G fuel) (fun c d => negamax G fuel c d (ply + 1)) (ply + 1))
    (p : P) (a b : Int) (dep : Nat) (st : St M) (hr : st.running = true) (hpl : st.ply = ply)
    (hc : EvalBoundedFrom G p) :
    (abBody env G fuel p a b dep st).2.running = true ∧ (abBody env G fuel p a b dep st).2.ply = ply ∧
    (-32767 ≤ a → a < b → b ≤ 32767 → Good (nodeValue G fuel p dep ply) a b (abBody env G fuel p a b dep st).1) := by
  unfold abBody nodeValue
  by_cases hd0 : dep = 0
  · simp only [hd0, if_true]
    exact quiesce_spec hu G (fuel + 1) ply p a b st hr hpl hc
  · simp only [hd0, if_false]
    generalize hord : orderMoves G _ _ (G.allMoves p) = ord
    have hperm : List.Perm ord (G.allMoves p) := hord ▸ orderMoves_perm G _ _ _
    have hsub : ∀ m ∈ ord, m ∈ G.allMoves p := fun m hm => hperm.mem_iff.1 hm
    have hvr : ValRange G (fun c d => negamax G fuel c d (ply + 1)) :=
      fun c d hc => negamax_range G fuel c d _ hc (by omega) (by omega)
    have hpl' : List.Perm (ord.filter (G.legal p)) (legalMovesOf G p) := hperm.filter _
    generalize hbest : (G.allMoves p).headD G.defaultMove = best0
    by_cases hwin : -32767 ≤ a ∧ a < b ∧ b ≤ 32767
    · obtain ⟨ha, hab, hb⟩ := hwin
      have hk := abKids_spec hu hrec hvr h255 p hc dep ord a b best0 false 0 st hsub hr hpl ha hab hb
      have hlist : maxList a ((ord.filter (G.legal p)).map fun m => - negamax G fuel (G.play p m) (dep - 1) (ply + 1))
          = max a (maxList MINS ((legalMovesOf G p).map fun m => - negamax G fuel (G.play p m) (dep - 1) (ply + 1))) := by
        rw [← maxList_max, maxList_perm (hpl'.map _)]
        congr 1; simp only [MINS]; omega
      rw [hlist, hpl'.length_eq, Nat.zero_add] at hk
      generalize abKids env G (ab env G fuel) p dep ord a b best0 false 0 st = res at hk ⊢
      cases res with
      | abort st' => exact hk.elim
      | cut st' =>
        obtain ⟨g1, g2, g3⟩ := hk
        refine ⟨g1, g2, fun _ _ _ => ?_⟩
        show Good _ a b b
        have hne : (legalMovesOf G p).isEmpty = false := by
          cases hl : legalMovesOf G p with
          | nil => rw [hl] at g3; simp only [List.map_nil, maxList_nil, MINS] at g3; omega
          | cons _ _ => rfl
        simp only [hne, Bool.false_eq_true, if_false]
        unfold Good; omega
      | done al bst n st' =>
        obtain ⟨g1, g2, g3, g4, g5⟩ := hk
        by_cases hn : n = 0
        · simp only [hn, if_true]
          have hemp : (legalMovesOf G p).isEmpty = true := by
            rw [List.isEmpty_iff_length_eq_zero]; omega
          simp only [hemp, if_true]
          split
          · refine ⟨g1, g2, fun _ _ _ => ?_⟩
            show Good _ a b (MINS + st'.ply)
            rw [g2]; exact good_self _ _ _
          · exact ⟨g1, g2, fun _ _ _ => good_self _ _ _⟩
        · simp only [hn, if_false]
          have hne : (legalMovesOf G p).isEmpty = false := by
            cases hl : legalMovesOf G p with
            | nil => rw [hl] at g5; simp at g5; omega
            | cons _ _ => rfl
          simp only [hne, Bool.false_eq_true, if_false]
          refine ⟨g1, g2, fun _ _ _ => ?_⟩
          show Good _ a b al
          unfold Good; omega
    · have hk := abKids_st hu hrec hvr h255 p hc dep ord a b best0 false 0 st hsub hr hpl
      generalize abKids env G (ab env G fuel) p dep ord a b best0 false 0 st = res at hk ⊢
      cases res with
      | abort st' => exact hk.elim
      | cut st' => exact ⟨hk.1, hk.2, fun h1 h2 h3 => absurd ⟨h1, h2, h3⟩ hwin⟩
      | done al bst n st' =>
        refine ⟨?_, ?_, fun h1 h2 h3 => absurd ⟨h1, h2, h3⟩ hwin⟩
        · show (if n = 0 then _ else _ : Int × St M).2.running = true
          split
          · split <;> exact hk.1
          · exact hk.1
        · show (if n = 0 then _ else _ : Int × St M).2.ply = ply
          split
          · split <;> exact hk.2
          · exact hk.2

theorem ab_spec {env : Env} (hu : Unlimited env) (hoff : env.cacheOff = true) (G : Game P M) :
    ∀ fuel ply, ply ≤ 255 → RecSpec G (ab env G fuel) (fun c d => negamax G fuel c d ply) ply := by
  intro fuel
  induction fuel with
  | zero =>
    intro ply _ c a b d st hr hpl _
    simp only [ab, negamax]
    exact ⟨hr, hpl, fun _ _ _ => good_self _ _ _⟩
  | succ fuel ih =>
    intro ply hply p a b depth st hr hpl hc
    obtain ⟨st1, hac, hr1, hp1, _, _⟩ := abortCheck_unlimited hu st hr
    rw [hpl] at hp1 hac
    rw [ab_succ env hoff]
    dsimp only
    rw [negamax_succ G fuel p depth ply _ rfl, hac]
    by_cases h255 : ply = 255
    · simp only [h255, decide_true, if_true]
      exact ⟨hr1, by omega, fun _ _ _ => good_self _ _ _⟩
    · simp only [h255, decide_false, if_false, Bool.false_eq_true, Bool.or_eq_true]
      by_cases hf : G.fifty p = true
      · simp only [hf, if_true, true_or]
        exact ⟨hr1, hp1, fun _ _ _ => good_self _ _ _⟩
      · by_cases hrp : G.repeated p = true
        · simp only [hf, hrp, if_true, or_true]
          exact ⟨hr1, hp1, fun _ _ _ => good_self _ _ _⟩
        · simp only [hf, hrp, or_self]
          exact abBody_spec hu G fuel ply h255 hply (ih (ply + 1) (by omega)) p a b _ (clearTT st1) hr1 hp1 hc

/-! ### the root -/

theorem rootKids_cons_illegal (env : Env) (G : Game P M) (rec) (p : P) (depth : Nat) (m : M) (ms : List M)
    (alpha : Int) (best : M) (pvs : Bool) (n : Nat) (st : St M) (hl : ¬ G.legal p m = true) :
    rootKids env G rec p depth (m :: ms) alpha best pvs n st = rootKids env G rec p depth ms alpha best pvs n st := by
  rw [rootKids]; simp [hl]

theorem rootKids_cons_legal (env : Env) (G : Game P M) (rec) (p : P) (depth : Nat) (m : M) (ms : List M)
    (alpha : Int) (best : M) (pvs : Bool) (n : Nat) (st : St M) (hl : G.legal p m = true) (st2 : St M)
    (hac : abortCheck env (pvsChild G rec p m alpha MAXS depth pvs false st).2 = (false, st2)) :
    rootKids env G rec p depth (m :: ms) alpha best pvs n st =
      if (pvsChild G rec p m alpha MAXS depth pvs false st).1 > alpha then
        rootKids env G rec p depth ms (pvsChild G rec p m alpha MAXS depth pvs false st).1 m true (n + 1) st2
      else rootKids env G rec p depth ms alpha best pvs (n + 1) st2 := by
  rw [rootKids]
  simp [hl, hac]

def RPost (G : Game P M) (p : P) (x : M → Int) (alpha0 : Int) (best0 : M) (ks : List M) (v : Int) (cnt : Nat) :
    RootLoop M → Prop
  | .abort _ => False
  | .done a best n st' => st'.running = true ∧ st'.ply = 0 ∧ a = v ∧ n = cnt ∧
      ((best = best0 ∧ a = alpha0) ∨ (best ∈ ks ∧ G.legal p best = true ∧ x best = a))

theorem RPost_cons {G : Game P M} {p : P} {x : M → Int} {alpha0 : Int} {best0 : M} {ks : List M} {v : Int} {cnt : Nat}
    (m : M) {res : RootLoop M} (h : RPost G p x alpha0 best0 ks v cnt res) :
    RPost G p x alpha0 best0 (m :: ks) v cnt res := by
  cases res with
  | abort _ => exact h
  | done a best n st' =>
    obtain ⟨g1, g2, g3, g4, g5⟩ := h
    refine ⟨g1, g2, g3, g4, ?_⟩
    rcases g5 with g5 | g5
    · exact Or.inl g5
    · exact Or.inr ⟨List.mem_cons_of_mem _ g5.1, g5.2⟩

theorem RPost_new {G : Game P M} {p : P} {x : M → Int} {alpha0 sc : Int} {best0 : M} {ks : List M} {v : Int} {cnt : Nat}
    (m : M) (hl : G.legal p m = true) (hx : x m = sc) {res : RootLoop M} (h : RPost G p x sc m ks v cnt res) :
    RPost G p x alpha0 best0 (m :: ks) v cnt res := by
  cases res with
  | abort _ => exact h
  | done a best n st' =>
    obtain ⟨g1, g2, g3, g4, g5⟩ := h
    refine ⟨g1, g2, g3, g4, ?_⟩
    rcases g5 with g5 | g5
    · right; rw [g5.1, g5.2]; exact ⟨List.mem_cons_self, hl, hx⟩
    · exact Or.inr ⟨List.mem_cons_of_mem _ g5.1, g5.2⟩

theorem rootKids_spec {env : Env} (hu : Unlimited env) {G : Game P M} {rec} {val : P → Nat → Int}
    (hrec : RecSpec G rec val 1) (hv : ValRange G val)
    (p : P) (hp : EvalBoundedFrom G p) (depth : Nat) :
    ∀ (ks : List M) (alpha : Int) (best : M) (pvs : Bool) (n : Nat) (st : St M),
      (∀ m ∈ ks, m ∈ G.allMoves p) → st.running = true → st.ply = 0 →
      ((alpha = -32768 ∧ pvs = false) ∨ (-32767 ≤ alpha ∧ alpha ≤ 32767)) →
      RPost G p (fun m => - val (G.play p m) (depth - 1)) alpha best ks
        (maxList alpha ((ks.filter (G.legal p)).map fun m => - val (G.play p m) (depth - 1)))
        (n + (ks.filter (G.legal p)).length)
        (rootKids env G rec p depth ks alpha best pvs n st) := by
  intro ks
  induction ks with
  | nil => intro alpha best pvs n st _ hr hpl _; exact ⟨hr, hpl, rfl, rfl, Or.inl ⟨rfl, rfl⟩⟩
  | cons m ms ih =>
    intro alpha best pvs n st hsub hr hpl hal
    have hsub' : ∀ m' ∈ ms, m' ∈ G.allMoves p := fun m' h => hsub m' (List.mem_cons_of_mem _ h)
    by_cases hl : G.legal p m = true
    · have hc : EvalBoundedFrom G (G.play p m) := evalBounded_step hp (hsub m List.mem_cons_self)
      have hvr := hv _ (depth - 1) hc
      have h := pvsChild_spec hrec hv p m alpha MAXS depth pvs false st hr hpl hc
      obtain ⟨st2, hac, hr2, hp2, _, _⟩ := abortCheck_unlimited hu _ h.1
      rw [h.2.1] at hp2 hac
      simp only [Nat.zero_ne_add_one, decide_false] at hac
      rw [rootKids_cons_legal env G rec p depth m ms alpha best pvs n st hl st2 hac]
      have hM : MAXS = 32767 := rfl
      rw [hM] at h ⊢
      generalize pvsChild G rec p m alpha 32767 depth pvs false st = r at h ⊢
      simp only [List.filter_cons_of_pos hl, List.map_cons, maxList_cons, List.length_cons]
      have hcnt : n + ((ms.filter (G.legal p)).length + 1) = n + 1 + (ms.filter (G.legal p)).length := by omega
      rw [hcnt]
      by_cases hmax : alpha = 32767
      · have hng : ¬ r.1 > alpha := by omega
        simp only [hng, if_false]
        have : max alpha (- val (G.play p m) (depth - 1)) = alpha := by omega
        rw [this]
        exact RPost_cons m (ih alpha best pvs (n + 1) st2 hsub' hr2 hp2 hal)
      · have hg := h.2.2.2 (by omega) (by omega) (by omega)
          (by intro hpv; rcases hal with hal | hal
              · rw [hal.2] at hpv; cases hpv
              · exact hal.1)
          (by omega)
        by_cases hgt : r.1 > alpha
        · simp only [hgt, if_true]
          have hx : - val (G.play p m) (depth - 1) = r.1 := by unfold Good at hg; omega
          have : max alpha (- val (G.play p m) (depth - 1)) = r.1 := by omega
          rw [this]
          exact RPost_new m hl hx (ih r.1 m true (n + 1) st2 hsub' hr2 hp2 (Or.inr (by omega)))
        · simp only [hgt, if_false]
          have : max alpha (- val (G.play p m) (depth - 1)) = alpha := by unfold Good at hg; omega
          rw [this]
          exact RPost_cons m (ih alpha best pvs (n + 1) st2 hsub' hr2 hp2 hal)
    · rw [rootKids_cons_illegal env G rec p depth m ms alpha best pvs n st hl,
        List.filter_cons_of_neg (by simpa using hl)]
      exact RPost_cons m (ih alpha best pvs n st hsub' hr hpl hal)

/-! ### `alpha_beta_start`, the iterations, `search` -/

/-- what one completed iteration leaves behind -/
def IterOK (G : Game P M) (p : P) (depth : Nat) (st : St M) : Prop :=
  st.running = true ∧ st.ply = 0 ∧ st.bestScore = some (rootValue G p depth) ∧
  ∃ m, st.bestMove = some m ∧ m ∈ legalMovesOf G p ∧ rootMoveValue G p depth m = rootValue G p depth

theorem abStart_spec {env : Env} (hu : Unlimited env) (hoff : env.cacheOff = true) (G : Game P M) (p : P)
    (he : EvalBoundedFrom G p) (hl : legalMovesOf G p ≠ []) (depth : Nat) (st : St M)
    (hr : st.running = true) (hpl : st.ply = 0) :
    IterOK G p depth (abStart env G p depth st) := by
  unfold abStart
  cases hm : G.allMoves p with
  | nil => exact absurd (by simp [legalMovesOf, hm]) hl
  | cons m0 rest =>
    simp only []
    rw [← hm]
    generalize hord : orderMoves G _ _ (G.allMoves p) = ord
    have hperm : List.Perm ord (G.allMoves p) := hord ▸ orderMoves_perm G _ _ _
    have hsub : ∀ m ∈ ord, m ∈ G.allMoves p := fun m hm => hperm.mem_iff.1 hm
    have hpl' : List.Perm (ord.filter (G.legal p)) (legalMovesOf G p) := hperm.filter _
    have hrec := ab_spec hu hoff G 255 1 (by omega)
    have hvr : ValRange G (fun c d => negamax G 255 c d 1) :=
      fun c d hc => negamax_range G 255 c d _ hc (by omega) (by omega)
    have hk := rootKids_spec hu hrec hvr p he depth ord MINS m0 false 0 st hsub hr hpl (Or.inl ⟨rfl, rfl⟩)
    have hlist : maxList MINS ((ord.filter (G.legal p)).map fun m => - negamax G 255 (G.play p m) (depth - 1) 1)
        = rootValue G p depth := maxList_perm (hpl'.map _) _
    rw [hlist, hpl'.length_eq, Nat.zero_add] at hk
    have hlen : (legalMovesOf G p).length ≠ 0 := by
      intro h; exact hl (List.eq_nil_of_length_eq_zero h)
    have hrange : -32767 ≤ rootValue G p depth := by
      cases hlm : legalMovesOf G p with
      | nil => exact absurd hlm hl
      | cons m ms =>
        unfold rootValue; rw [hlm]
        have h1 := maxList_ge_mem ((m :: ms).map (rootMoveValue G p depth)) MINS _ (List.mem_map_of_mem List.mem_cons_self)
        have hmem : m ∈ legalMovesOf G p := by rw [hlm]; exact List.mem_cons_self
        have h2 := hvr (G.play p m) (depth - 1) (evalBounded_step he (mem_legalMovesOf.1 hmem).1)
        unfold rootMoveValue at h1 ⊢
        simp only [] at h2
        omega
    generalize rootKids env G (ab env G 255) p depth ord MINS m0 false 0 st = res at hk ⊢
    cases res with
    | abort st' => exact hk.elim
    | done a best n st' =>
      obtain ⟨g1, g2, g3, g4, g5⟩ := hk
      obtain ⟨st2, hac, hr2, hp2, _, _⟩ := abortCheck_unlimited hu st' g1
      rw [g2] at hac hp2
      simp only [Nat.zero_ne_add_one, decide_false] at hac
      have hn : ¬ n = 0 := by omega
      simp only [hn, if_false, hac, Bool.false_eq_true]
      refine ⟨hr2, hp2, by rw [g3], ?_⟩
      rcases g5 with g5 | g5
      · exfalso; have : MINS = -32768 := rfl; omega
      · refine ⟨best, rfl, ?_, ?_⟩
        · exact mem_legalMovesOf.2 ⟨hsub _ g5.1, g5.2.1⟩
        · rw [← g3]; exact g5.2.2


theorem iterate_spec {env : Env} (hu : Unlimited env) (hoff : env.cacheOff = true) (G : Game P M) (p : P)
    (he : EvalBoundedFrom G p) (hl : legalMovesOf G p ≠ []) (maxDepth : Nat) :
    ∀ (fuel d : Nat) (st : St M) (infos : List (InfoLine M)), 1 ≤ fuel → d + fuel = maxDepth + 1 →
      st.running = true → st.ply = 0 →
      IterOK G p maxDepth (iterate env G p maxDepth fuel d st infos).1 := by
  intro fuel
  induction fuel with
  | zero => intro d st infos h; omega
  | succ fuel ih =>
    intro d st infos _ hd hr hpl
    have hA := abStart_spec hu hoff G p he hl d st hr hpl
    obtain ⟨st2, hac, hr2, hp2, hs2, hm2⟩ := abortCheck_unlimited hu _ hA.1
    rw [hA.2.1] at hac hp2
    simp only [Nat.zero_ne_add_one, decide_false] at hac
    have hnd : ¬ d > maxDepth := by omega
    simp only [iterate, hnd, if_false, hac, Bool.false_eq_true]
    by_cases hf : fuel = 0
    · subst hf
      have hdm : d = maxDepth := by omega
      subst hdm
      simp only [iterate]
      exact ⟨hr2, hp2, hs2 ▸ hA.2.2.1, hm2 ▸ hA.2.2.2⟩
    · exact ih (d + 1) st2 _ (by omega) (by omega) hr2 hp2

theorem ab_eq_negamax' (env : Env) (G : Game P M) (p : P) (d : Nat) (tt0 : Table M)
    (hu : Unlimited env) (hoff : env.cacheOff = true) (he : EvalBoundedFrom G p) (hd : 1 ≤ d ∧ d ≤ 255)
    (hl : legalMovesOf G p ≠ []) :
    let r := search env G p (some d) tt0
    r.st.bestScore = some (rootValue G p d) ∧
    ∃ m, r.best = some m ∧ m ∈ legalMovesOf G p ∧ rootMoveValue G p d m = rootValue G p d := by
  have h := iterate_spec hu hoff G p he hl d d 1 { tt := tt0 } [] hd.1 (by omega) rfl rfl
  simp only [search, Option.getD_some]
  generalize iterate env G p d d 1 { tt := tt0 } [] = res at h ⊢
  obtain ⟨st, infos⟩ := res
  obtain ⟨_, _, h3, m, h4, h5, h6⟩ := h
  simp only [] at h3 h4
  refine ⟨h3, m, ?_, h5, h6⟩
  simp only [h4]

#print axioms ab_eq_negamax'

end RCE.Proofs.SearchNegamax
