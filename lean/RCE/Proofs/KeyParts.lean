import RCE.Proofs.ZobristTable
import RCE.Proofs.KeyPartsDef
/-! The from-scratch key as an XOR of independent parts, and what a single-component change does to it (C05). -/
namespace RCE.Proofs.KeyParts
open RCE RCE.Proofs.ZobristTable

theorem foldl_sq (pa : Nat → Option Kind) (l : List Nat) (k : UInt64) :
    l.foldl (fun k i => match pa i with | some p => k ^^^ zPiece p (Square.ofIdx i) | none => k) k
      = k ^^^ xorSum (sqWord pa) l := by
  induction l generalizing k with
  | nil => simp [xorSum]
  | cons i l ih =>
    simp only [List.foldl_cons, xorSum]
    rw [ih]
    unfold sqWord
    cases pa i <;> simp [UInt64.xor_assoc]

theorem chain_eq (K : UInt64) (r : Rights) (ep : Option Nat) (t : Color) :
    (let k := K
     let k := if r.wk then k ^^^ zCastle 0 else k
     let k := if r.wq then k ^^^ zCastle 1 else k
     let k := if r.bk then k ^^^ zCastle 2 else k
     let k := if r.bq then k ^^^ zCastle 3 else k
     let k := match ep with | some f => k ^^^ zEp f | none => k
     if t == .white then k ^^^ zTurn else k) = K ^^^ rightsWord r ^^^ epWord ep ^^^ turnWord t := by
  unfold rightsWord epWord turnWord
  cases r.wk <;> cases r.wq <;> cases r.bk <;> cases r.bq <;>
    cases ep <;> cases hb : (t == Color.white) <;> simp [UInt64.xor_assoc]

theorem scratchKey_eq (b : Board) :
    b.scratchKey = keyOfParts (fun i => b.pieceAt (Square.ofIdx i)) b.rights b.ep b.turn := by
  have hf := foldl_sq (fun i => b.pieceAt (Square.ofIdx i)) (List.range 64) 0
  simp only [UInt64.zero_xor] at hf
  unfold keyOfParts
  rw [← hf]
  exact chain_eq _ b.rights b.ep b.turn

theorem xor_cancel_left {a x y : UInt64} (h : a ^^^ x = a ^^^ y) : x = y := by
  have : a ^^^ (a ^^^ x) = a ^^^ (a ^^^ y) := by rw [h]
  simpa [← UInt64.xor_assoc] using this

theorem xor_cancel_right {a x y : UInt64} (h : x ^^^ a = y ^^^ a) : x = y := by
  rw [UInt64.xor_comm x a, UInt64.xor_comm y a] at h
  exact xor_cancel_left h

/-- two square assignments that agree everywhere except at `sq`: the sums differ by the two contributions -/
theorem xorSum_single (f g : Nat → UInt64) (sq : Nat) (l : List Nat) (hl : l.Nodup)
    (hfg : ∀ i, i ≠ sq → f i = g i) :
    xorSum f l ^^^ xorSum g l = if sq ∈ l then f sq ^^^ g sq else 0 := by
  induction l with
  | nil => simp [xorSum]
  | cons i l ih =>
    have hn := List.nodup_cons.mp hl
    simp only [xorSum]
    by_cases h : i = sq
    · subst h
      have : i ∉ l := hn.1
      have ih' := ih hn.2
      simp only [this, if_false] at ih'
      simp only [List.mem_cons, true_or, if_true]
      calc f i ^^^ xorSum f l ^^^ (g i ^^^ xorSum g l)
          = (f i ^^^ g i) ^^^ (xorSum f l ^^^ xorSum g l) := by ac_rfl
        _ = f i ^^^ g i := by rw [ih']; simp
    · rw [hfg i h]
      have ih' := ih hn.2
      have hmem : (sq ∈ i :: l) ↔ (sq ∈ l) := by simp [Ne.symm h]
      have e1 : g i ^^^ xorSum f l ^^^ (g i ^^^ xorSum g l)
          = (g i ^^^ g i) ^^^ (xorSum f l ^^^ xorSum g l) := by ac_rfl
      rw [e1, ih']
      by_cases hs : sq ∈ l
      · simp [hs]
      · simp [hs, Ne.symm h]

/-! ### table words behind the accessors -/

theorem ofIdx_idx (i : Nat) : (Square.ofIdx i).idx = i := by
  unfold Square.ofIdx Square.idx; simp only; omega

theorem getD_append_left' (a b : List Nat) (i : Nat) (h : i < a.length) : (a ++ b).getD i 0 = a.getD i 0 := by
  simp [List.getD_eq_getElem?_getD, List.getElem?_append_left h]

theorem getD_append_right' (a b : List Nat) (i : Nat) (h : a.length ≤ i) : (a ++ b).getD i 0 = b.getD (i - a.length) 0 := by
  simp [List.getD_eq_getElem?_getD, List.getElem?_append_right h]

theorem arr_getD (l : List Nat) (i : Nat) : ((l.map Nat.toUInt64).toArray).getD i 0 = (l.getD i 0).toUInt64 := by
  simp only [Array.getD_eq_getD_getElem?, List.getElem?_toArray, List.getElem?_map, List.getD_eq_getElem?_getD]
  cases l[i]? <;> simp

theorem zPiece_word (p : Kind) (i : Nat) (hi : i < 64) : zPiece p (Square.ofIdx i) = word (p.code * 64 + i) := by
  unfold zPiece word
  rw [ofIdx_idx]
  have hc : p.code < 12 := by
    unfold Kind.code Color.idx PK.idx; cases p.color <;> cases p.pk <;> simp
  have hk : p.code * 64 + i < Gen.zPiecesL.length := by rw [pieces_length]; omega
  unfold Gen.zPieces Gen.zAllWords
  rw [arr_getD, List.append_assoc, List.append_assoc, getD_append_left' _ _ _ hk]

theorem zCastle_word (j : Nat) (hj : j < 4) : zCastle j = word (768 + j) := by
  unfold zCastle word
  have h1 : Gen.zPiecesL.length ≤ 768 + j := by rw [pieces_length]; omega
  have h2 : 768 + j - Gen.zPiecesL.length < Gen.zCastlingL.length := by rw [pieces_length, castling_length]; omega
  unfold Gen.zCastling Gen.zAllWords
  rw [arr_getD, List.append_assoc, List.append_assoc, getD_append_right' _ _ _ h1, getD_append_left' _ _ _ h2, pieces_length]
  have e : 768 + j - 768 = j := by omega
  rw [e]

theorem zEp_word (f : Nat) (hf : f < 8) : zEp f = word (772 + f) := by
  unfold zEp word
  have h1 : Gen.zPiecesL.length ≤ 772 + f := by rw [pieces_length]; omega
  have h2 : Gen.zCastlingL.length ≤ 772 + f - Gen.zPiecesL.length := by rw [pieces_length, castling_length]; omega
  have h3 : 772 + f - Gen.zPiecesL.length - Gen.zCastlingL.length < Gen.zEnPassantL.length := by
    rw [pieces_length, castling_length, ep_length]; omega
  unfold Gen.zEnPassant Gen.zAllWords
  rw [arr_getD, List.append_assoc, List.append_assoc, getD_append_right' _ _ _ h1, getD_append_right' _ _ _ h2,
    getD_append_left' _ _ _ h3, pieces_length, castling_length]
  have e : 772 + f - 768 - 4 = f := by omega
  rw [e]

theorem zTurn_word : zTurn = word 780 := by
  unfold zTurn word
  have h1 : Gen.zPiecesL.length ≤ 780 := by rw [pieces_length]; omega
  have h2 : Gen.zCastlingL.length ≤ 780 - Gen.zPiecesL.length := by rw [pieces_length, castling_length]; omega
  have h3 : Gen.zEnPassantL.length ≤ 780 - Gen.zPiecesL.length - Gen.zCastlingL.length := by
    rw [pieces_length, castling_length, ep_length]; omega
  unfold Gen.zWhiteTurn Gen.zAllWords
  rw [List.append_assoc, List.append_assoc, getD_append_right' _ _ _ h1, getD_append_right' _ _ _ h2,
    getD_append_right' _ _ _ h3, pieces_length, castling_length, ep_length]
  rfl

end RCE.Proofs.KeyParts
