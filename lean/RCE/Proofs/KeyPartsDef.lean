import RCE.Model.Board
/-! The from-scratch key as an XOR of independent parts (definitions; lemmas in `KeyParts.lean`). -/
namespace RCE.Proofs.KeyParts
open RCE

/-- contribution of square `i` holding `pa i` -/
def sqWord (pa : Nat → Option Kind) (i : Nat) : UInt64 :=
  match pa i with | some p => zPiece p (Square.ofIdx i) | none => 0

def xorSum (f : Nat → UInt64) : List Nat → UInt64
  | [] => 0
  | i :: l => f i ^^^ xorSum f l

def rightsWord (r : Rights) : UInt64 :=
  (if r.wk then zCastle 0 else 0) ^^^ (if r.wq then zCastle 1 else 0) ^^^
  (if r.bk then zCastle 2 else 0) ^^^ (if r.bq then zCastle 3 else 0)

def epWord (ep : Option Nat) : UInt64 := match ep with | some f => zEp f | none => 0
def turnWord (t : Color) : UInt64 := if t == .white then zTurn else 0

/-- the key of a position given by its components -/
def keyOfParts (pa : Nat → Option Kind) (r : Rights) (ep : Option Nat) (t : Color) : UInt64 :=
  xorSum (sqWord pa) (List.range 64) ^^^ rightsWord r ^^^ epWord ep ^^^ turnWord t

end RCE.Proofs.KeyParts
