import RCE.Model.Attacks
import RCE.Gen.Translated
/-! Kernel-evaluated equalities between the definitions TRANSLATED from the Rust source on this run
    (`RCE/Gen/Translated.lean`, written by `tools/gen_translate.py`) and the hand-written model
    (`RCE/Model/Attacks.lean`), on every square (and direction / colour).  Each statement is guarded by the
    translator's `…Avail` flag: when a function no longer has a shape the translator understands the flag is
    `false`, the statement is trivially true, and the tie for that function is the exhaustive table stream alone.
    `…OK` collects the side conditions under which the Rust arithmetic cannot overflow (debug-build panics). -/
namespace RCE.Proofs.TranslatedChk
open RCE RCE.Gen

set_option maxRecDepth 100000 in
theorem knight_src : Tr.knightInitAvail = true →
    (List.range 64).all (fun i => Tr.knightInit i == knightAttacks i && Tr.knightInitOK i) = true := by
  decide +kernel

set_option maxRecDepth 100000 in
theorem king_src : Tr.kingInitAvail = true →
    (List.range 64).all (fun i => Tr.kingInit i == kingAttacks i && Tr.kingInitOK i) = true := by
  decide +kernel

set_option maxRecDepth 100000 in
theorem pawn_src : Tr.pawnInitAvail = true →
    [true, false].all (fun w => (List.range 64).all (fun i => Tr.pawnInit w i == pawnAttacks w i && Tr.pawnInitOK w i)) = true := by
  decide +kernel

set_option maxRecDepth 100000 in
theorem ray_src : Tr.rayInitAvail = true →
    (List.range 64).all (fun i => (List.range 8).all (fun d => Tr.rayInit i d == ray i d && Tr.rayInitOK i d)) = true := by
  decide +kernel

set_option maxRecDepth 100000 in
theorem rook_mask_src : Tr.rookMaskInitAvail = true →
    (List.range 64).all (fun i => Tr.rookMaskInit i == rookMask i && Tr.rookMaskInitOK i) = true := by
  decide +kernel

set_option maxRecDepth 100000 in
theorem bishop_mask_src : Tr.bishopMaskInitAvail = true →
    (List.range 64).all (fun i => Tr.bishopMaskInit i == bishopMask i && Tr.bishopMaskInitOK i) = true := by
  decide +kernel

end RCE.Proofs.TranslatedChk

namespace RCE.Proofs.TranslatedChk
open RCE RCE.Gen

private theorem fileA_val : fileA = (0x0101010101010101 : UInt64) := by decide +kernel
private theorem fileH_val : fileH = (0x8080808080808080 : UInt64) := by decide +kernel
private theorem rank1_val : rank1 = (0x00000000000000ff : UInt64) := by decide +kernel
private theorem rank8_val : rank8 = (0xff00000000000000 : UInt64) := by decide +kernel

/-- `Bitboard::shift_east` as translated equals the model's, for every board and every count -/
theorem shiftEast_src (ha : Tr.shiftEastAvail = true) (b : BB) (n : Nat) : Tr.shiftEast b n = shiftEast b n := by
  first
  | exact absurd ha (by decide)
  | (induction n generalizing b with
     | zero => rfl
     | succ n ih =>
       show Tr.shiftEast _ n = shiftEast _ n
       rw [ih]
       try (congr 1 <;> simp [shlChecked, fileA_val]))

theorem shiftWest_src (ha : Tr.shiftWestAvail = true) (b : BB) (n : Nat) : Tr.shiftWest b n = shiftWest b n := by
  first
  | exact absurd ha (by decide)
  | (induction n generalizing b with
     | zero => rfl
     | succ n ih =>
       show Tr.shiftWest _ n = shiftWest _ n
       rw [ih]
       try (congr 1 <;> simp [shr, fileH_val]))

theorem trimEdges_src (_ha : Tr.trimEdgesAvail = true) (b : BB) : Tr.trimEdges b = trimEdges b := by
  first
  | rfl
  | (simp only [Tr.trimEdges, trimEdges, rank1_val, rank8_val, fileA_val, fileH_val])

end RCE.Proofs.TranslatedChk
