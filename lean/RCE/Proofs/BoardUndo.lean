import RCE.Proofs.BoardMake
/-! `unmake_move` analysed, and C02: taking back a generated move restores the board exactly. -/
namespace RCE.Proofs.BoardUndo
open RCE RCE.Proofs.BoardBits RCE.Proofs.BoardWF RCE.Proofs.BoardPBB RCE.Proofs.BoardGen RCE.Proofs.BoardMake
set_option linter.unusedSimpArgs false
attribute [local irreducible] zPiece zCastle zEp zTurn

def epOf (rest : List Ply) : Option Nat :=
  match rest.head? with
  | some t => if t.isDoublePush then some t.dest.file else none
  | none => none

def castleUndoBBS (t : Color) (old : Ply) (p : PBB) : PBB :=
  if old.isCastles then
    match castleRookSquares old.dest with
    | some (rs, rd) => pundo p rs rd ⟨.rook, t⟩ none none false
    | none => p
  else p

theorem ite_bne_xor (a c : Bool) (k z : UInt64) :
    (if (a != c) = true then k ^^^ z else k) = k ^^^ (if a = true then z else 0) ^^^ (if c = true then z else 0) := by
  cases a <;> cases c <;> simp [UInt64.xor_assoc]

def unmakeKey (b : Board) (old : Ply) (rest : List Ply) : UInt64 :=
  b.zkey ^^^ wmove old.start old.dest old.piece old.promoted old.captured old.enPassant
    ^^^ castleW b.turn.opp old ^^^ rw' old.rights ^^^ rw' (rest.headD Ply.default).rights
    ^^^ ew b.ep ^^^ ew (epOf rest) ^^^ zTurn

theorem unmakeMove?_eq (b : Board) (old : Ply) (rest : List Ply) (h : b.history = old :: rest) :
    b.unmakeMove? = some
      { turn := b.turn.opp,
        fullmove := if b.turn == .white then b.fullmove - 1 else b.fullmove,
        ep := epOf rest,
        history := rest,
        posHist := b.posHist.erase (unmakeKey b old rest),
        bbs := castleUndoBBS b.turn.opp old (pundo b.bbs old.start old.dest old.piece old.promoted old.captured old.enPassant),
        zkey := unmakeKey b old rest } := by
  unfold Board.unmakeMove?
  rw [h]
  simp only [undoMovePiece_eq, ite_bne_xor]
  rcases hcr : castleRookSquares old.dest with _ | ⟨rs, rd⟩ <;>
  cases hc : old.isCastles <;> cases hep : b.ep <;> rcases hr : rest with _ | ⟨t, rest'⟩ <;>
    simp only [castleUndoBBS, castleW, unmakeKey, epOf, ew, hc, hep, hcr, Board.switchTurn, Board.rights, Board.top,
      List.head?_nil, List.head?_cons, List.headD_nil, List.headD_cons, Bool.false_eq_true, if_false, if_true]
  all_goals cases ht : b.turn <;> (try cases hdp : t.isDoublePush) <;> simp [Color.opp, rw']
  all_goals xor_solve


/-- the mailbox after `undo_move_piece` -/
def viewUndo (v : Square → Option Kind) (start dest : Square) (mv : Kind) (cap : Option Kind) (ep : Bool) :
    Square → Option Kind :=
  fun s => if s = start then some mv else if s = capSq start dest ep then cap else if s = dest then none else v s

theorem pundo_ok (q : PBB) (hw : PBB.WF q) (start dest : Square) (hs : IR start) (hd : IR dest) (hne : start ≠ dest)
    (mv : Kind) (pr cap : Option Kind) (ep : Bool)
    (h1 : q.pieceAt dest = some (pr.getD mv)) (h2 : q.pieceAt start = none)
    (h3 : ep = true → q.pieceAt (capSq start dest ep) = none ∧ capSq start dest ep ≠ start ∧ capSq start dest ep ≠ dest) :
    PBB.WF (pundo q start dest mv pr cap ep) ∧
    ∀ s, IR s → (pundo q start dest mv pr cap ep).pieceAt s = viewUndo q.pieceAt start dest mv cap ep s := by
  have hc : IR (capSq start dest ep) := by
    unfold capSq; split
    · exact ⟨hs.1, hd.2⟩
    · exact hd
  have hcs : capSq start dest ep ≠ start := by
    cases ep
    · exact fun e => hne e.symm
    · exact (h3 rfl).2.1
  obtain ⟨w1, v1⟩ := remove_ok q hw dest hd _ h1
  have hs1 : (q.removePiece dest (pr.getD mv)).pieceAt start = none := by
    rw [v1 start hs, if_neg hne, h2]
  cases hcc : cap with
  | none =>
    obtain ⟨w2, v2⟩ := add_ok _ w1 start hs mv hs1
    refine ⟨w2, ?_⟩
    intro s h
    show ((q.removePiece dest (pr.getD mv)).addPiece start mv).pieceAt s = _
    rw [v2 s h, v1 s h]; unfold viewUndo
    by_cases e1 : s = start
    · simp [e1]
    · by_cases e2 : s = capSq start dest ep
      · cases ep
        · simp [capSq] at e2; simp [e1, e2, capSq]
        · rw [if_neg e1, if_neg e1, if_pos e2, e2, if_neg (h3 rfl).2.2]; exact (h3 rfl).1
      · simp [e1, e2]
  | some c =>
    have hc1 : (q.removePiece dest (pr.getD mv)).pieceAt (capSq start dest ep) = none := by
      rw [v1 _ hc]
      cases ep
      · simp [capSq]
      · rw [if_neg (h3 rfl).2.2]; exact (h3 rfl).1
    obtain ⟨w2, v2⟩ := add_ok _ w1 _ hc c hc1
    have hs2 : ((q.removePiece dest (pr.getD mv)).addPiece (capSq start dest ep) c).pieceAt start = none := by
      rw [v2 start hs, if_neg (fun e => hcs e.symm), hs1]
    obtain ⟨w3, v3⟩ := add_ok _ w2 start hs mv hs2
    refine ⟨w3, ?_⟩
    intro s h
    show (((q.removePiece dest (pr.getD mv)).addPiece (capSq start dest ep) c).addPiece start mv).pieceAt s = _
    rw [v3 s h, v2 s h, v1 s h]; unfold viewUndo
    by_cases e1 : s = start
    · simp [e1]
    · by_cases e2 : s = capSq start dest ep
      · simp [e1, e2]
      · simp [e1, e2]

/-- undoing a move on the bitboards restores them exactly -/
theorem pundo_pmove (p : PBB) (hw : PBB.WF p) (start dest : Square) (hs : IR start) (hd : IR dest) (hne : start ≠ dest)
    (mv : Kind) (pr cap : Option Kind) (ep : Bool)
    (hmv : p.pieceAt start = some mv)
    (hcap : cap = p.pieceAt (capSq start dest ep))
    (hep : ep = true → p.pieceAt dest = none ∧ capSq start dest ep ≠ start ∧ capSq start dest ep ≠ dest) :
    pundo (pmove p start dest mv pr cap ep) start dest mv pr cap ep = p := by
  obtain ⟨w1, v1, -⟩ := pmove_ok p hw start dest hs hd hne mv pr cap ep hmv hcap hep
  have hc : IR (capSq start dest ep) := by
    unfold capSq; split
    · exact ⟨hs.1, hd.2⟩
    · exact hd
  obtain ⟨w2, v2⟩ := pundo_ok _ w1 start dest hs hd hne mv pr cap ep
    (by rw [v1 dest hd]; simp [viewMove])
    (by rw [v1 start hs]; simp [viewMove, hne])
    (by intro h; refine ⟨?_, (hep h).2⟩
        rw [v1 _ hc]; unfold viewMove; rw [if_neg (hep h).2.2, if_neg (hep h).2.1, if_pos rfl])
  apply pbb_ext _ _ w2 hw
  intro s h
  rw [v2 s h]; unfold viewUndo
  by_cases e1 : s = start
  · rw [if_pos e1, e1, hmv]
  · rw [if_neg e1]
    by_cases e2 : s = capSq start dest ep
    · rw [if_pos e2, e2, hcap]
    · rw [if_neg e2]
      by_cases e3 : s = dest
      · rw [if_pos e3, e3]
        cases ep
        · simp [capSq] at e2; exact absurd e3 e2
        · exact (hep rfl).1.symm
      · rw [if_neg e3, v1 s h]; unfold viewMove; rw [if_neg e3, if_neg e1, if_neg e2]

theorem castle_roundtrip (p : PBB) (hw : PBB.WF p) (ks kd rs rd : Square)
    (iks : IR ks) (ikd : IR kd) (irs : IR rs) (ird : IR rd)
    (n1 : ks ≠ kd) (n2 : rs ≠ rd) (n3 : rs ≠ ks) (n4 : rs ≠ kd) (n5 : rd ≠ ks) (n6 : rd ≠ kd)
    (k r : Kind) (hk : p.pieceAt ks = some k) (hkd : p.pieceAt kd = none)
    (hr : p.pieceAt rs = some r) (hrd : p.pieceAt rd = none) :
    pundo (pundo (pmove (pmove p ks kd k none none false) rs rd r none none false) ks kd k none none false)
      rs rd r none none false = p := by
  obtain ⟨w1, v1, -⟩ := pmove_ok p hw ks kd iks ikd n1 k none none false hk (by simp [capSq, hkd]) (by intro h; cases h)
  have hv1 : ∀ s, IR s → (pmove p ks kd k none none false).pieceAt s =
      if s = kd then some k else if s = ks then none else p.pieceAt s := by
    intro s hs; rw [v1 s hs]; unfold viewMove; by_cases e : s = kd <;> simp [capSq, e]
  obtain ⟨w2, v2, -⟩ := pmove_ok _ w1 rs rd irs ird n2 r none none false
    (by rw [hv1 rs irs, if_neg n4, if_neg n3, hr]) (by simp only [capSq, Bool.false_eq_true, if_false]; rw [hv1 rd ird, if_neg n6, if_neg n5, hrd])
    (by intro h; cases h)
  have hv2 : ∀ s, IR s → (pmove (pmove p ks kd k none none false) rs rd r none none false).pieceAt s =
      if s = rd then some r else if s = rs then none else if s = kd then some k else if s = ks then none else p.pieceAt s := by
    intro s hs; rw [v2 s hs]; unfold viewMove; rw [hv1 s hs]; by_cases e : s = rd <;> simp [capSq, e]
  obtain ⟨w3, v3⟩ := pundo_ok _ w2 ks kd iks ikd n1 k none none false
    (by rw [hv2 kd ikd, if_neg (Ne.symm n6), if_neg (Ne.symm n4), if_pos rfl]; rfl)
    (by rw [hv2 ks iks, if_neg (Ne.symm n5), if_neg (Ne.symm n3), if_neg n1, if_pos rfl])
    (by intro h; cases h)
  have hv3 : ∀ s, IR s → (pundo (pmove (pmove p ks kd k none none false) rs rd r none none false) ks kd k none none false).pieceAt s =
      if s = ks then some k else if s = kd then none else if s = rd then some r else if s = rs then none else p.pieceAt s := by
    intro s hs; rw [v3 s hs]; unfold viewUndo; rw [hv2 s hs]
    by_cases e1 : s = ks
    · simp [e1]
    · by_cases e2 : s = kd
      · simp [e1, e2, capSq]
      · simp [e1, e2, capSq]
  obtain ⟨w4, v4⟩ := pundo_ok _ w3 rs rd irs ird n2 r none none false
    (by rw [hv3 rd ird, if_neg n5, if_neg n6, if_pos rfl]; rfl)
    (by rw [hv3 rs irs, if_neg n3, if_neg n4, if_neg n2, if_pos rfl])
    (by intro h; cases h)
  apply pbb_ext _ _ w4 hw
  intro s hs
  rw [v4 s hs]; unfold viewUndo; rw [hv3 s hs]
  have n1' := n1.symm; have n2' := n2.symm; have n3' := n3.symm; have n4' := n4.symm
  have n5' := n5.symm; have n6' := n6.symm
  by_cases e1 : s = rs
  · rw [if_pos e1, e1, hr]
  · by_cases e2 : s = rd
    · subst e2; simp [capSq, hrd, n2', n5, n6]
    · by_cases e3 : s = ks
      · subst e3; simp [e1, e2, capSq, hk]
      · by_cases e4 : s = kd
        · subst e4; simp [e1, e2, e3, capSq, hkd]
        · simp [e1, e2, e3, e4, capSq]

theorem board_ext (a b : Board) (h1 : a.turn = b.turn) (h2 : a.fullmove = b.fullmove) (h3 : a.ep = b.ep)
    (h4 : a.history = b.history) (h5 : a.posHist = b.posHist) (h6 : a.bbs = b.bbs) (h7 : a.zkey = b.zkey) : a = b := by
  cases a; cases b; simp_all

theorem opp_opp (t : Color) : t.opp.opp = t := by cases t <;> rfl

theorem epOf_eq (b : Board) (hw : WF b) : epOf b.history = b.ep := by
  rw [hw.ep.1]
  have := hw.hist
  unfold epOf Board.top
  cases h : b.history with
  | nil => exact absurd h this
  | cons t rest => rfl

theorem unmake_make_gen (b : Board) (m : Ply) (hw : WF b) (g : Gen b m) : (b.makeMove m).unmakeMove? = some b := by
  have hh : (b.makeMove m).history =
      { m with clock := newClock b m, rights := newRights m b.top.rights } :: b.history := by rw [makeMove_eq]
  have hturn : (b.makeMove m).turn = b.turn.opp := by rw [makeMove_eq]
  have hkey : unmakeKey (b.makeMove m) { m with clock := newClock b m, rights := newRights m b.top.rights } b.history
      = b.zkey := by
    unfold unmakeKey
    rw [epOf_eq b hw]
    rw [makeMove_eq]
    simp only [opp_opp]
    show b.zkey ^^^ ew b.ep ^^^ ew (newEp m) ^^^ wmove m.start m.dest m.piece m.promoted m.captured m.enPassant ^^^
        castleW b.turn m ^^^ rw' b.top.rights ^^^ rw' (newRights m b.top.rights) ^^^ zTurn ^^^
        wmove m.start m.dest m.piece m.promoted m.captured m.enPassant ^^^ castleW b.turn m ^^^
        rw' (newRights m b.top.rights) ^^^ rw' b.top.rights ^^^ ew (newEp m) ^^^ ew b.ep ^^^ zTurn = b.zkey
    xor_solve
  rw [unmakeMove?_eq _ _ _ hh, hkey]
  refine congrArg some (board_ext _ b ?_ ?_ ?_ ?_ ?_ ?_ ?_)
  · show (b.makeMove m).turn.opp = b.turn
    rw [hturn, opp_opp]
  · show (if (b.makeMove m).turn == Color.white then (b.makeMove m).fullmove - 1 else (b.makeMove m).fullmove) = b.fullmove
    rw [makeMove_eq]
    cases b.turn <;> simp [Color.opp]
  · exact epOf_eq b hw
  · rfl
  · show (b.makeMove m).posHist.erase b.zkey = b.posHist
    rw [makeMove_eq]
    simp
  · show castleUndoBBS (b.makeMove m).turn.opp _ (pundo (b.makeMove m).bbs m.start m.dest m.piece m.promoted m.captured m.enPassant) = b.bbs
    rw [hturn, opp_opp]
    have hbbs : (b.makeMove m).bbs = newBBS b m := by rw [makeMove_eq]; rfl
    rw [hbbs]
    unfold newBBS castleUndoBBS castleBBS
    show (if m.isCastles = true then _ else _) = _
    cases hc : m.isCastles
    · simp only [Bool.false_eq_true, if_false]
      exact pundo_pmove b.bbs hw.bbs m.start m.dest g.irs g.ird g.ne m.piece m.promoted m.captured m.enPassant
        g.shape.piece (gen_cap b m g) (gen_ep b m g)
    · obtain ⟨rs, rd, hcr, irs, ird, hne, n1, n2, n3, n4, hr, hrd, hdn, hep, hpr, hpc, -, -, -⟩ := castle_squares b hw m g hc
      simp only [if_true]
      show (match castleRookSquares m.dest with | some (rs, rd) => _ | none => _) = _
      rw [hcr]
      simp only
      have hcap : m.captured = none := by
        have := gen_cap b m g; rw [hep] at this; simp only [capSq, Bool.false_eq_true, if_false] at this
        rw [this, hdn]
      rw [hcap, hep, hpr]
      exact castle_roundtrip b.bbs hw.bbs m.start m.dest rs rd g.irs g.ird irs ird g.ne hne n1 n2 n3 n4
        m.piece ⟨.rook, b.turn⟩ g.shape.piece hdn hr hrd
  · rfl

/-! ### the statements used by `RCE.Props.C02` -/

theorem unmake_make' (b : Board) (m : Ply) (hw : WF b) (hm : m ∈ b.allMoves) :
    (b.makeMove m).unmakeMove? = some b :=
  unmake_make_gen b m hw (gen_of_mem b hw m hm)

theorem unmakeMove_makeMove (b : Board) (m : Ply) (hw : WF b) (hm : m ∈ b.allMoves) :
    (b.makeMove m).unmakeMove = b := by
  unfold Board.unmakeMove; rw [unmake_make' b m hw hm]; rfl

theorem isLegalMove_pure' (b : Board) (m : Ply) (hw : WF b) (hm : m ∈ b.allMoves) :
    (b.isLegalMove m).2 = b := by
  unfold Board.isLegalMove; exact unmakeMove_makeMove b m hw hm

theorem legalMoves_fold (b : Board) (hw : WF b) (l : List Ply) (hl : ∀ m ∈ l, m ∈ b.allMoves) (acc : List Ply) :
    l.foldl (fun (acc : List Ply × Board) m =>
      let (ok, b') := acc.2.isLegalMove m
      (if ok then acc.1 ++ [m] else acc.1, b')) (acc, b) =
    (acc ++ l.filter (fun m => !(b.makeMove m).isInCheck m.piece.color), b) := by
  induction l generalizing acc with
  | nil => simp
  | cons m l ih =>
    have hm := hl m (List.mem_cons_self)
    rw [List.foldl_cons]
    have h2 : (b.isLegalMove m).2 = b := isLegalMove_pure' b m hw hm
    have h1 : (b.isLegalMove m).1 = !(b.makeMove m).isInCheck m.piece.color := rfl
    have step : (let (ok, b') := (acc, b).2.isLegalMove m
        ((if ok then (acc, b).1 ++ [m] else (acc, b).1), b')) =
        ((if (!(b.makeMove m).isInCheck m.piece.color) = true then acc ++ [m] else acc), b) := by
      show ((if (b.isLegalMove m).1 = true then acc ++ [m] else acc), (b.isLegalMove m).2) = _
      rw [h2, h1]
    rw [step, ih (fun x hx => hl x (List.mem_cons_of_mem _ hx))]
    rw [List.filter_cons]
    cases hc : (!(b.makeMove m).isInCheck m.piece.color) <;> simp

theorem legalMoves_pure' (b : Board) (hw : WF b) :
    (b.legalMoves).2 = b ∧ (b.legalMoves).1 = b.legalMovesPure := by
  unfold Board.legalMoves Board.legalMovesPure
  rw [legalMoves_fold b hw b.allMoves (fun m h => h) []]
  simp

theorem nested_aux (ms : List Ply) : ∀ (b : Board), WF b →
    (∀ i (h : i < ms.length), ms[i] ∈ ((ms.take i).foldl Board.makeMove b).allMoves) →
    WF (ms.foldl Board.makeMove b) ∧
    (List.range ms.length).foldl (fun acc _ => acc.unmakeMove) (ms.foldl Board.makeMove b) = b := by
  induction ms with
  | nil => intro b hw _; exact ⟨hw, rfl⟩
  | cons m ms ih =>
    intro b hw hms
    have hm : m ∈ b.allMoves := hms 0 (by simp)
    have hw1 : WF (b.makeMove m) := makeMove_wf b m hw (gen_of_mem b hw m hm)
    have htl : ∀ i (h : i < ms.length), ms[i] ∈ ((ms.take i).foldl Board.makeMove (b.makeMove m)).allMoves := by
      intro i h
      have := hms (i + 1) (by simp; omega)
      simpa using this
    obtain ⟨w, e⟩ := ih (b.makeMove m) hw1 htl
    refine ⟨w, ?_⟩
    rw [List.length_cons, List.range_succ, List.foldl_append, List.foldl_cons, List.foldl_cons, List.foldl_nil, e]
    exact unmakeMove_makeMove b m hw hm

theorem nested_make_unmake' (b : Board) (ms : List Ply) (hw : WF b)
    (hms : ∀ i (h : i < ms.length), ms[i] ∈ ((ms.take i).foldl Board.makeMove b).allMoves) :
    (List.range ms.length).foldl (fun acc _ => acc.unmakeMove) (ms.foldl Board.makeMove b) = b :=
  (nested_aux ms b hw hms).2

end RCE.Proofs.BoardUndo
