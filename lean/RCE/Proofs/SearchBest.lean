import RCE.Proofs.SearchUnfold
/-! C09: the ply counter is restored by every subtree search, search values stay inside `i16`, and the
    move answered by `search` is a legal move of the root position. -/
namespace RCE.Proofs.SearchBest
open RCE.Search RCE.Proofs.SearchDefs RCE.Proofs.SearchUnfold

variable {P M : Type} [DecidableEq M]
set_option linter.unusedSectionVars false

/-! ### the move ordering only permutes -/

theorem orderAux_mem : ∀ (n : Nat) (l : List (M × Nat)) (m : M), m ∈ orderAux n l → ∃ x ∈ l, x.1 = m := by
  intro n
  induction n with
  | zero => intro l m h; simp [orderAux] at h
  | succ n ih =>
    intro l m h
    cases l with
    | nil => simp [orderAux] at h
    | cons hd t =>
      simp only [orderAux] at h
      split at h
      · rcases List.mem_cons.1 h with rfl | h
        · exact ⟨hd, List.mem_cons_self, rfl⟩
        · obtain ⟨x, hx, rfl⟩ := ih t m h
          exact ⟨x, List.mem_cons_of_mem _ hx, rfl⟩
      · split at h
        · rename_i x hx
          rcases List.mem_cons.1 h with rfl | h
          · exact ⟨x, List.mem_cons_of_mem _ (List.mem_of_getElem? hx), rfl⟩
          · obtain ⟨y, hy, rfl⟩ := ih _ m h
            rcases List.mem_or_eq_of_mem_set hy with hy | rfl
            · exact ⟨y, List.mem_cons_of_mem _ hy, rfl⟩
            · exact ⟨y, List.mem_cons_self, rfl⟩
        · rcases List.mem_cons.1 h with rfl | h
          · exact ⟨hd, List.mem_cons_self, rfl⟩
          · obtain ⟨x, hx, rfl⟩ := ih t m h
            exact ⟨x, List.mem_cons_of_mem _ hx, rfl⟩

theorem orderMoves_mem (G : Game P M) (ttMove : Option M) (killers : Option M × Option M) (ms : List M) (m : M)
    (h : m ∈ orderMoves G ttMove killers ms) : m ∈ ms := by
  unfold orderMoves at h
  obtain ⟨x, hx, rfl⟩ := orderAux_mem _ _ _ h
  obtain ⟨y, hy, rfl⟩ := List.mem_map.1 hx
  exact hy

/-! ### `i16` range -/

def InR (x : Int) : Prop := MINS ≤ x ∧ x ≤ MAXS

theorem satNeg_inR (x : Int) : InR (satNeg x) := by
  unfold InR satNeg satI16 MINS MAXS
  split
  · omega
  · split <;> omega

theorem satNeg_pred_inR {a : Int} (h : a ≤ MAXS) : InR (satNeg a - 1) := by
  revert h
  unfold InR satNeg satI16 MINS MAXS
  intro h
  split
  · omega
  · split <;> omega

theorem satNeg_gt_mins {r : Int} (h : r ≤ MAXS) : MINS < satNeg r := by
  revert h
  unfold satNeg satI16 MINS MAXS
  intro h
  split
  · omega
  · split <;> omega

theorem inR_zero : InR 0 := by unfold InR MINS MAXS; omega

theorem inR_mate {n : Nat} (h : n ≤ 256) : InR (MINS + n) := by
  unfold InR MINS MAXS; omega

/-! ### what a subtree search keeps; the cache invariant -/

def Keep (st st' : St M) : Prop :=
  st'.ply = st.ply ∧ st'.bestMove = st.bestMove ∧ st'.bestScore = st.bestScore

theorem Keep.refl (st : St M) : Keep st st := ⟨rfl, rfl, rfl⟩
theorem Keep.trans {a b c : St M} (h1 : Keep a b) (h2 : Keep b c) : Keep a c :=
  ⟨h2.1.trans h1.1, h2.2.1.trans h1.2.1, h2.2.2.trans h1.2.2⟩
theorem keep_of_frame {st st' : St M} (h : Frame st st') : Keep st st' := ⟨h.2.2.1, h.2.2.2.2.2.1, h.2.2.2.2.2.2.1⟩

theorem insert_keep (st : St M) (k : UInt64) (e : Entry M) (site : Nat) : Keep st (st.insert k e site) := ⟨rfl, rfl, rfl⟩

theorem storeKillers_keep (G : Game P M) (m : M) (st : St M) : Keep st (storeKillers G m st) := by
  unfold storeKillers
  split
  · exact Keep.refl st
  · simp only []; split
    · exact ⟨rfl, rfl, rfl⟩
    · exact Keep.refl st

theorem storeKillers_tt (G : Game P M) (m : M) (st : St M) : (storeKillers G m st).tt = st.tt := by
  unfold storeKillers
  split
  · rfl
  · simp only []; split <;> rfl

theorem probeSt_keep (env : Env) (st : St M) : Keep st (probeSt env st) := by
  unfold probeSt; split
  · exact ⟨rfl, rfl, rfl⟩
  · exact Keep.refl st

theorem tableOK_empty : TableScoresOK ({} : Table M) := by
  intro k e h
  simp at h

theorem tableOK_insert {st : St M} (h : TableScoresOK st.tt) (k : UInt64) {e : Entry M} (he : InR e.score) (site : Nat) :
    TableScoresOK (st.insert k e site).tt := by
  intro k' e' hk
  simp only [St.insert] at hk
  rw [Std.HashMap.getElem?_insert] at hk
  split at hk
  · cases hk; exact he
  · exact h k' e' hk

theorem probeSt_tableOK (env : Env) {st : St M} (h : TableScoresOK st.tt) : TableScoresOK (probeSt env st).tt := by
  unfold probeSt; split
  · exact tableOK_empty
  · exact h

theorem probe_spec {tt : Table M} (h : TableScoresOK tt) (key : UInt64) (depth : Nat) {a b : Int} (ha : InR a) (hb : InR b) :
    (∀ s, probe tt key depth a b = .inl s → InR s) ∧
    (∀ a' b', probe tt key depth a b = .inr (a', b') → InR a' ∧ InR b') := by
  unfold probe
  cases he : tt[key]? with
  | none =>
    simp only []
    exact ⟨fun s hs => (by cases hs), fun a' b' hs => by cases hs; exact ⟨ha, hb⟩⟩
  | some e =>
    have hs : InR e.score := h key e he
    simp only []
    by_cases hd : e.depth ≥ depth
    · rw [if_pos hd]
      cases e.bound with
      | exact =>
        simp only []
        exact ⟨fun s h => (by cases h; exact hs), fun a' b' h => by cases h⟩
      | lower =>
        simp only []
        split
        · exact ⟨fun s h => (by cases h; exact hs), fun a' b' h => by cases h⟩
        · refine ⟨fun s h => (by cases h), fun a' b' h => ?_⟩
          cases h
          refine ⟨?_, hb⟩
          unfold InR at *; omega
      | upper =>
        simp only []
        split
        · exact ⟨fun s h => (by cases h; exact hs), fun a' b' h => by cases h⟩
        · refine ⟨fun s h => (by cases h), fun a' b' h => ?_⟩
          cases h
          refine ⟨ha, ?_⟩
          unfold InR at *; omega
    · rw [if_neg hd]
      exact ⟨fun s hs => (by cases hs), fun a' b' hs => by cases hs; exact ⟨ha, hb⟩⟩

theorem enter_ply (b : Bool) (st : St M) : (enter b st).ply = st.ply + 1 := by unfold enter; cases b <;> rfl
theorem enter_tt (b : Bool) (st : St M) : (enter b st).tt = st.tt := by unfold enter; cases b <;> rfl
theorem enter_bestMove (b : Bool) (st : St M) : (enter b st).bestMove = st.bestMove := by unfold enter; cases b <;> rfl
theorem enter_bestScore (b : Bool) (st : St M) : (enter b st).bestScore = st.bestScore := by unfold enter; cases b <;> rfl

theorem keep_enter_leave {b : Bool} {st st' : St M} (h : Keep (enter b st) st') : Keep st (leave st') := by
  refine ⟨?_, ?_, ?_⟩
  · show st'.ply - 1 = st.ply
    rw [h.1, enter_ply]; omega
  · show st'.bestMove = st.bestMove
    rw [h.2.1, enter_bestMove]
  · show st'.bestScore = st.bestScore
    rw [h.2.2, enter_bestScore]

/-! ### the child-search specification and the loops -/

/-- specification of a child search entered at ply `k`: it keeps ply / best move / best score, and in the
    tree below `root`, on an `i16` window and an `i16` cache, it returns an `i16` value and an `i16` cache -/
def RecB (G : Game P M) (root : P) (k : Nat) (rec : P → Int → Int → Nat → St M → Int × St M) : Prop :=
  ∀ c a b d st, st.ply = k →
    Keep st (rec c a b d st).2 ∧
    (EvalBoundedFrom G root → Reach G root c → InR a → InR b → TableScoresOK st.tt →
      InR (rec c a b d st).1 ∧ TableScoresOK (rec c a b d st).2.tt)

def QRecB (G : Game P M) (root : P) (k : Nat) (rec : P → Int → Int → St M → Int × St M) : Prop :=
  ∀ c a b st, st.ply = k →
    Keep st (rec c a b st).2 ∧
    (EvalBoundedFrom G root → Reach G root c → InR a → InR b → TableScoresOK st.tt →
      InR (rec c a b st).1 ∧ TableScoresOK (rec c a b st).2.tt)

theorem pvsCore_B {G : Game P M} {root : P} {k : Nat} {rec : P → Int → Int → Nat → St M → Int × St M}
    (hrec : RecB G root k rec) (c : P) (alpha beta : Int) (depth : Nat) (pvs : Bool) (st : St M) (hk : st.ply = k) :
    Keep st (pvsCore rec c alpha beta depth pvs st).2 ∧ InR (pvsCore rec c alpha beta depth pvs st).1 ∧
    (EvalBoundedFrom G root → Reach G root c → alpha ≤ MAXS → TableScoresOK st.tt →
      TableScoresOK (pvsCore rec c alpha beta depth pvs st).2.tt ∧
      (alpha = MINS → MINS < (pvsCore rec c alpha beta depth pvs st).1)) := by
  unfold pvsCore
  split
  · have h1 := hrec c (satNeg alpha - 1) (satNeg alpha) (depth - 1) st hk
    split
    · have h2 := hrec c (satNeg beta) (satNeg alpha) (depth - 1) _ (h1.1.1.trans hk)
      refine ⟨h1.1.trans h2.1, satNeg_inR _, ?_⟩
      intro he hr ha ht
      have t1 := h1.2 he hr (satNeg_pred_inR ha) (satNeg_inR _) ht
      have t2 := h2.2 he hr (satNeg_inR _) (satNeg_inR _) t1.2
      exact ⟨t2.2, fun _ => satNeg_gt_mins t2.1.2⟩
    · refine ⟨h1.1, satNeg_inR _, ?_⟩
      intro he hr ha ht
      have t1 := h1.2 he hr (satNeg_pred_inR ha) (satNeg_inR _) ht
      exact ⟨t1.2, fun _ => satNeg_gt_mins t1.1.2⟩
  · have h1 := hrec c (satNeg beta) (satNeg alpha) (depth - 1) st hk
    refine ⟨h1.1, satNeg_inR _, ?_⟩
    intro he hr ha ht
    have t1 := h1.2 he hr (satNeg_inR _) (satNeg_inR _) ht
    exact ⟨t1.2, fun _ => satNeg_gt_mins t1.1.2⟩

theorem pvsChild_B {G : Game P M} {root : P} {k : Nat} {rec : P → Int → Int → Nat → St M → Int × St M}
    (hrec : RecB G root k rec) (p : P) (m : M) (alpha beta : Int) (depth : Nat) (pvs updSel : Bool) (st : St M)
    (hk : st.ply + 1 = k) :
    Keep st (pvsChild G rec p m alpha beta depth pvs updSel st).2 ∧
    InR (pvsChild G rec p m alpha beta depth pvs updSel st).1 ∧
    (EvalBoundedFrom G root → Reach G root (G.play p m) → alpha ≤ MAXS → TableScoresOK st.tt →
      TableScoresOK (pvsChild G rec p m alpha beta depth pvs updSel st).2.tt ∧
      (alpha = MINS → MINS < (pvsChild G rec p m alpha beta depth pvs updSel st).1)) := by
  rw [pvsChild_eq]
  have h := pvsCore_B hrec (G.play p m) alpha beta depth pvs (enter updSel st) ((enter_ply _ _).trans hk)
  refine ⟨keep_enter_leave h.1, h.2.1, ?_⟩
  intro he hr ha ht
  exact h.2.2 he hr ha (by rw [enter_tt]; exact ht)

theorem abKids_B (env : Env) {G : Game P M} {root : P} {k : Nat} {rec : P → Int → Int → Nat → St M → Int × St M}
    (hrec : RecB G root (k + 1) rec) (p : P) (depth : Nat) :
    ∀ (ms : List M) (alpha beta : Int) (best : M) (pvs : Bool) (n : Nat) (st : St M), st.ply = k →
      Keep st (abKids env G rec p depth ms alpha beta best pvs n st).st ∧
      (EvalBoundedFrom G root → Reach G root p → (∀ m ∈ ms, m ∈ G.allMoves p) → InR alpha → TableScoresOK st.tt →
        TableScoresOK (abKids env G rec p depth ms alpha beta best pvs n st).st.tt ∧
        ∀ a b n' st', abKids env G rec p depth ms alpha beta best pvs n st = .done a b n' st' → InR a) := by
  intro ms
  induction ms with
  | nil =>
    intro alpha beta best pvs n st hk
    rw [abKids_nil]
    refine ⟨Keep.refl st, ?_⟩
    intro _ _ _ ha ht
    refine ⟨ht, ?_⟩
    intro a b n' st' heq
    cases heq
    exact ha
  | cons m ms ih =>
    intro alpha beta best pvs n st hk
    rw [abKids_cons]
    split
    · have h := ih alpha beta best pvs n st hk
      refine ⟨h.1, ?_⟩
      intro he hr hms ha ht
      exact h.2 he hr (fun x hx => hms x (List.mem_cons_of_mem _ hx)) ha ht
    · have hp := pvsChild_B hrec p m alpha beta depth pvs true st (by omega)
      have hf := abortCheck_frame env (pvsChild G rec p m alpha beta depth pvs true st).2
      have hkeep : Keep st (abortCheck env (pvsChild G rec p m alpha beta depth pvs true st).2).2 := hp.1.trans (keep_of_frame hf)
      have hk' : (abortCheck env (pvsChild G rec p m alpha beta depth pvs true st).2).2.ply = k := hkeep.1.trans hk
      simp only []
      split
      · refine ⟨hkeep, ?_⟩
        intro he hr hms ha ht
        have t := hp.2.2 he (Reach.step hr (hms m List.mem_cons_self)) ha.2 ht
        refine ⟨by show TableScoresOK (abortCheck env _).2.tt; rw [hf.1]; exact t.1, ?_⟩
        intro a b n' st' heq
        cases heq
      · split
        · refine ⟨hkeep.trans ((insert_keep _ _ _ _).trans (storeKillers_keep _ _ _)), ?_⟩
          intro he hr hms ha ht
          have t := hp.2.2 he (Reach.step hr (hms m List.mem_cons_self)) ha.2 ht
          refine ⟨?_, ?_⟩
          · show TableScoresOK (storeKillers G m _).tt
            rw [storeKillers_tt]
            apply tableOK_insert
            · rw [hf.1]; exact t.1
            · exact hp.2.1
          · intro a b n' st' heq
            cases heq
        · split
          · have h := ih (pvsChild G rec p m alpha beta depth pvs true st).1 beta m true (n + 1) _ hk'
            refine ⟨hkeep.trans h.1, ?_⟩
            intro he hr hms ha ht
            have t := hp.2.2 he (Reach.step hr (hms m List.mem_cons_self)) ha.2 ht
            exact h.2 he hr (fun x hx => hms x (List.mem_cons_of_mem _ hx)) hp.2.1 (by rw [hf.1]; exact t.1)
          · have h := ih alpha beta best pvs (n + 1) _ hk'
            refine ⟨hkeep.trans h.1, ?_⟩
            intro he hr hms ha ht
            have t := hp.2.2 he (Reach.step hr (hms m List.mem_cons_self)) ha.2 ht
            exact h.2 he hr (fun x hx => hms x (List.mem_cons_of_mem _ hx)) ha (by rw [hf.1]; exact t.1)

theorem qKids_B {G : Game P M} {root : P} {k : Nat} {rec : P → Int → Int → St M → Int × St M}
    (hrec : QRecB G root (k + 1) rec) (p : P) :
    ∀ (ms : List M) (alpha beta : Int) (st : St M), st.ply = k →
      Keep st (qKids G rec p ms alpha beta st).st ∧
      (EvalBoundedFrom G root → Reach G root p → (∀ m ∈ ms, m ∈ G.allMoves p) → InR alpha → TableScoresOK st.tt →
        TableScoresOK (qKids G rec p ms alpha beta st).st.tt ∧
        ∀ a st', qKids G rec p ms alpha beta st = .done a st' → InR a) := by
  intro ms
  induction ms with
  | nil =>
    intro alpha beta st hk
    rw [qKids_nil]
    refine ⟨Keep.refl st, ?_⟩
    intro _ _ _ ha ht
    refine ⟨ht, ?_⟩
    intro a st' heq
    cases heq
    exact ha
  | cons m ms ih =>
    intro alpha beta st hk
    rw [qKids_cons]
    split
    · have h := ih alpha beta st hk
      refine ⟨h.1, ?_⟩
      intro he hr hms ha ht
      exact h.2 he hr (fun x hx => hms x (List.mem_cons_of_mem _ hx)) ha ht
    · have hp := hrec (G.play p m) (satNeg beta) (satNeg alpha) (enter true st) (by rw [enter_ply]; omega)
      have hkeep : Keep st (leave (rec (G.play p m) (satNeg beta) (satNeg alpha) (enter true st)).2) :=
        keep_enter_leave hp.1
      have hk' : (leave (rec (G.play p m) (satNeg beta) (satNeg alpha) (enter true st)).2).ply = k := hkeep.1.trans hk
      simp only []
      split
      · refine ⟨hkeep, ?_⟩
        intro he hr hms ha ht
        have t := hp.2 he (Reach.step hr (hms m List.mem_cons_self)) (satNeg_inR _) (satNeg_inR _)
          (by rw [enter_tt]; exact ht)
        refine ⟨t.2, ?_⟩
        intro a st' heq
        cases heq
      · split
        · have h := ih (satNeg (rec (G.play p m) (satNeg beta) (satNeg alpha) (enter true st)).1) beta _ hk'
          refine ⟨hkeep.trans h.1, ?_⟩
          intro he hr hms ha ht
          have t := hp.2 he (Reach.step hr (hms m List.mem_cons_self)) (satNeg_inR _) (satNeg_inR _)
            (by rw [enter_tt]; exact ht)
          exact h.2 he hr (fun x hx => hms x (List.mem_cons_of_mem _ hx)) (satNeg_inR _) t.2
        · have h := ih alpha beta _ hk'
          refine ⟨hkeep.trans h.1, ?_⟩
          intro he hr hms ha ht
          have t := hp.2 he (Reach.step hr (hms m List.mem_cons_self)) (satNeg_inR _) (satNeg_inR _)
            (by rw [enter_tt]; exact ht)
          exact h.2 he hr (fun x hx => hms x (List.mem_cons_of_mem _ hx)) ha t.2

theorem evalBounded_inR {G : Game P M} {root p : P} (he : EvalBoundedFrom G root) (hr : Reach G root p) : InR (G.eval p) := by
  have := he p hr
  unfold InR MINS MAXS; omega

theorem quiesce_B (env : Env) (G : Game P M) (root : P) :
    ∀ (fuel : Nat) (p : P) (a b : Int) (st : St M), st.ply + fuel = 256 →
      Keep st (quiesce env G fuel p a b st).2 ∧
      (EvalBoundedFrom G root → Reach G root p → InR a → InR b → TableScoresOK st.tt →
        InR (quiesce env G fuel p a b st).1 ∧ TableScoresOK (quiesce env G fuel p a b st).2.tt) := by
  intro fuel
  induction fuel with
  | zero =>
    intro p a b st _
    exact ⟨Keep.refl st, fun _ _ _ _ ht => ⟨inR_zero, ht⟩⟩
  | succ fuel ih =>
    intro p a b st hk
    rw [quiesce_succ]
    have hf := abortCheck_frame env st
    have hkeep := keep_of_frame hf
    simp only []
    split
    · exact ⟨hkeep, fun _ _ _ _ ht => ⟨inR_zero, by rw [hf.1]; exact ht⟩⟩
    · split
      · exact ⟨hkeep, fun _ _ _ hb ht => ⟨hb, by rw [hf.1]; exact ht⟩⟩
      · have hrec : QRecB G root (st.ply + 1) (quiesce env G fuel) :=
          fun c a b st' hk' => ih c a b st' (by omega)
        have hq := qKids_B hrec p
          (orderMoves G (((abortCheck env st).2.tt[G.key p]?).map (·.best))
            ((abortCheck env st).2.killers.getD (abortCheck env st).2.ply (none, none))
            ((G.allMoves p).filter G.isCapture))
          (if G.eval p > a then G.eval p else a) b (abortCheck env st).2 hkeep.1
        have hsub : ∀ m ∈ orderMoves G (((abortCheck env st).2.tt[G.key p]?).map (·.best))
            ((abortCheck env st).2.killers.getD (abortCheck env st).2.ply (none, none))
            ((G.allMoves p).filter G.isCapture), m ∈ G.allMoves p :=
          fun m hm => (List.mem_filter.1 (orderMoves_mem _ _ _ _ _ hm)).1
        split
        · rename_i st' heq
          rw [heq] at hq
          refine ⟨hkeep.trans hq.1, ?_⟩
          intro he hr ha hb ht
          have t := hq.2 he hr hsub (ite_pred InR (evalBounded_inR he hr) ha) (by rw [hf.1]; exact ht)
          exact ⟨hb, t.1⟩
        · rename_i a' st' heq
          rw [heq] at hq
          refine ⟨hkeep.trans hq.1, ?_⟩
          intro he hr ha hb ht
          have t := hq.2 he hr hsub (ite_pred InR (evalBounded_inR he hr) ha) (by rw [hf.1]; exact ht)
          exact ⟨t.2 a' st' rfl, t.1⟩

theorem ab_B (env : Env) (G : Game P M) (root : P) :
    ∀ (fuel : Nat) (p : P) (a b : Int) (depth : Nat) (st : St M), st.ply + fuel = 256 →
      Keep st (ab env G fuel p a b depth st).2 ∧
      (EvalBoundedFrom G root → Reach G root p → InR a → InR b → TableScoresOK st.tt →
        InR (ab env G fuel p a b depth st).1 ∧ TableScoresOK (ab env G fuel p a b depth st).2.tt) := by
  intro fuel
  induction fuel with
  | zero =>
    intro p a b depth st _
    exact ⟨Keep.refl st, fun _ _ _ _ ht => ⟨inR_zero, ht⟩⟩
  | succ fuel ih =>
    intro p alpha0 beta0 depth st hk
    rw [ab_succ]
    have hf := abortCheck_frame env st
    have hkeep := keep_of_frame hf
    have hkeep2 := hkeep.trans (probeSt_keep env (abortCheck env st).2)
    have ht2 : TableScoresOK st.tt → TableScoresOK (probeSt env (abortCheck env st).2).tt :=
      fun ht => probeSt_tableOK env (by rw [hf.1]; exact ht)
    simp only []
    split
    · exact ⟨hkeep, fun _ _ _ _ ht => ⟨inR_zero, by rw [hf.1]; exact ht⟩⟩
    split
    · exact ⟨hkeep, fun _ _ _ _ ht => ⟨inR_zero, by rw [hf.1]; exact ht⟩⟩
    split
    · exact ⟨hkeep, fun _ _ _ _ ht => ⟨inR_zero, by rw [hf.1]; exact ht⟩⟩
    split
    · rename_i s heq
      exact ⟨hkeep2, fun _ _ ha hb ht => ⟨(probe_spec (ht2 ht) _ _ ha hb).1 s heq, ht2 ht⟩⟩
    · rename_i alpha beta heq
      have hwin : TableScoresOK st.tt → InR alpha0 → InR beta0 → InR alpha ∧ InR beta :=
        fun ht ha hb => (probe_spec (ht2 ht) _ _ ha hb).2 alpha beta heq
      have hk2 : (probeSt env (abortCheck env st).2).ply + (fuel + 1) = 256 := by rw [hkeep2.1]; exact hk
      generalize probeSt env (abortCheck env st).2 = st2 at hkeep2 ht2 hk2
      clear heq
      unfold abBody
      simp only []
      generalize (if G.inCheck p = true then depth + 1 else depth) = d
      by_cases hd : d = 0
      · rw [if_pos hd]
        have hq := quiesce_B env G root (fuel + 1) p alpha beta st2 hk2
        refine ⟨hkeep2.trans hq.1, ?_⟩
        intro he hr ha hb ht
        have hw := hwin ht ha hb
        exact hq.2 he hr hw.1 hw.2 (ht2 ht)
      · rw [if_neg hd]
        have hrec : RecB G root (st2.ply + 1) (ab env G fuel) :=
          fun c a b d st' hk' => ih c a b d st' (by omega)
        have hkids := abKids_B env hrec p d
          (orderMoves G ((st2.tt[G.key p]?).map (·.best)) (st2.killers.getD st2.ply (none, none)) (G.allMoves p))
          alpha beta ((G.allMoves p).headD G.defaultMove) false 0 st2 rfl
        have hsub : ∀ m ∈ orderMoves G ((st2.tt[G.key p]?).map (·.best)) (st2.killers.getD st2.ply (none, none))
            (G.allMoves p), m ∈ G.allMoves p :=
          fun m hm => orderMoves_mem _ _ _ _ _ hm
        split
        · rename_i st' heq
          rw [heq] at hkids
          refine ⟨hkeep2.trans hkids.1, ?_⟩
          intro he hr ha hb ht
          have hw := hwin ht ha hb
          exact ⟨inR_zero, (hkids.2 he hr hsub hw.1 (ht2 ht)).1⟩
        · rename_i st' heq
          rw [heq] at hkids
          refine ⟨hkeep2.trans hkids.1, ?_⟩
          intro he hr ha hb ht
          have hw := hwin ht ha hb
          exact ⟨hw.2, (hkids.2 he hr hsub hw.1 (ht2 ht)).1⟩
        · rename_i a' b' n st' heq
          rw [heq] at hkids
          have hply : st'.ply ≤ 256 := by
            have := hkids.1.1
            simp only [Loop.st] at this
            omega
          split
          · split
            · refine ⟨hkeep2.trans hkids.1, ?_⟩
              intro he hr ha hb ht
              have hw := hwin ht ha hb
              exact ⟨inR_mate hply, (hkids.2 he hr hsub hw.1 (ht2 ht)).1⟩
            · refine ⟨hkeep2.trans hkids.1, ?_⟩
              intro he hr ha hb ht
              have hw := hwin ht ha hb
              exact ⟨inR_zero, (hkids.2 he hr hsub hw.1 (ht2 ht)).1⟩
          · refine ⟨hkeep2.trans (hkids.1.trans (insert_keep _ _ _ _)), ?_⟩
            intro he hr ha hb ht
            have hw := hwin ht ha hb
            have t := hkids.2 he hr hsub hw.1 (ht2 ht)
            have hia : InR a' := t.2 a' b' n st' rfl
            exact ⟨hia, tableOK_insert t.1 _ hia _⟩

theorem ply_restored' (env : Env) (G : Game P M) (fuel : Nat) (p : P) (a b : Int) (depth : Nat) (st : St M)
    (h : st.ply + fuel = 256) : (ab env G fuel p a b depth st).2.ply = st.ply :=
  (ab_B env G p fuel p a b depth st h).1.1

/-! ### the root -/

structure RootInv (G : Game P M) (root : P) (st : St M) : Prop where
  ply : st.ply = 0
  tbl : TableScoresOK st.tt
  bm : ∀ m, st.bestMove = some m → m ∈ legalMovesOf G root
  bs : ∀ s, st.bestScore = some s → MINS ≤ s

theorem RootInv.of_keep {G : Game P M} {root : P} {st st' : St M} (h : RootInv G root st) (hk : Keep st st')
    (ht : TableScoresOK st'.tt) : RootInv G root st' :=
  ⟨hk.1.trans h.ply, ht, fun m hm => h.bm m (hk.2.1 ▸ hm), fun s hs => h.bs s (hk.2.2 ▸ hs)⟩

/-- the loop invariant of the root loop: either nothing was searched yet, or alpha was raised by a legal move -/
def RootJ (G : Game P M) (root : P) (alpha : Int) (best : M) (n : Nat) : Prop :=
  (n = 0 ∧ alpha = MINS) ∨ (MINS < alpha ∧ best ∈ legalMovesOf G root)

theorem rootAbort_B {G : Game P M} {root : P} {st : St M} {alpha : Int} {best : M} {n : Nat}
    (h : RootInv G root st) (ha : InR alpha) (hj : RootJ G root alpha best n) :
    RootInv G root (rootAbort alpha best st) := by
  cases hbs : st.bestScore with
  | none =>
    simp only [rootAbort, hbs]
    exact h
  | some s =>
    simp only [rootAbort, hbs]
    split
    · rename_i hgt
      have hgt' : alpha > s := by simpa using hgt
      have hs := h.bs s hbs
      refine ⟨h.ply, h.tbl, ?_, ?_⟩
      · intro m hm
        cases hm
        rcases hj with ⟨_, h2⟩ | ⟨_, h2⟩
        · omega
        · exact h2
      · intro s' hs'
        cases hs'
        exact ha.1
    · exact h

theorem rootKids_B (env : Env) {G : Game P M} {root : P} (he : EvalBoundedFrom G root)
    {rec : P → Int → Int → Nat → St M → Int × St M} (hrec : RecB G root 1 rec) (depth : Nat) :
    ∀ (ms : List M) (alpha : Int) (best : M) (pvs : Bool) (n : Nat) (st : St M),
      (∀ m ∈ ms, m ∈ G.allMoves root) → RootInv G root st → InR alpha → RootJ G root alpha best n →
      RootInv G root (rootKids env G rec root depth ms alpha best pvs n st).st ∧
      ∀ a b n' st', rootKids env G rec root depth ms alpha best pvs n st = .done a b n' st' →
        InR a ∧ (n' ≠ 0 → b ∈ legalMovesOf G root) := by
  intro ms
  induction ms with
  | nil =>
    intro alpha best pvs n st _ h ha hj
    rw [rootKids_nil]
    refine ⟨h, ?_⟩
    intro a b n' st' heq
    cases heq
    refine ⟨ha, fun hn => ?_⟩
    rcases hj with ⟨h1, _⟩ | ⟨_, h2⟩
    · exact absurd h1 hn
    · exact h2
  | cons m ms ih =>
    intro alpha best pvs n st hms h ha hj
    have hms' : ∀ x ∈ ms, x ∈ G.allMoves root := fun x hx => hms x (List.mem_cons_of_mem _ hx)
    rw [rootKids_cons]
    split
    · exact ih alpha best pvs n st hms' h ha hj
    · rename_i hl
      have hlegal : m ∈ legalMovesOf G root :=
        List.mem_filter.2 ⟨hms m List.mem_cons_self, by simpa using hl⟩
      have hp := pvsChild_B hrec root m alpha MAXS depth pvs false st (by rw [h.ply])
      have t := hp.2.2 he (Reach.step Reach.refl (hms m List.mem_cons_self)) ha.2 h.tbl
      have hf := abortCheck_frame env (pvsChild G rec root m alpha MAXS depth pvs false st).2
      have hc : RootInv G root (abortCheck env (pvsChild G rec root m alpha MAXS depth pvs false st).2).2 :=
        h.of_keep (hp.1.trans (keep_of_frame hf)) (by rw [hf.1]; exact t.1)
      simp only []
      split
      · refine ⟨rootAbort_B hc ha hj, ?_⟩
        intro a b n' st' heq
        cases heq
      · split
        · rename_i hgt
          refine ih _ m true (n + 1) _ hms' hc hp.2.1 (.inr ⟨?_, hlegal⟩)
          have := ha.1
          omega
        · rename_i hgt
          refine ih alpha best pvs (n + 1) _ hms' hc ha ?_
          rcases hj with ⟨_, h2⟩ | hj
          · have := t.2 h2
            omega
          · exact .inr hj

theorem rootSave_B (env : Env) {G : Game P M} {root : P} (depth : Nat) {alpha : Int} {best : M} {st : St M}
    (h : RootInv G root st) (ha : InR alpha) (hb : best ∈ legalMovesOf G root) :
    RootInv G root (rootSave env G root depth alpha best st) := by
  unfold rootSave
  have hf := abortCheck_frame env st
  have hc : RootInv G root (abortCheck env st).2 := h.of_keep (keep_of_frame hf) (by rw [hf.1]; exact h.tbl)
  split
  · exact hc
  · refine ⟨hc.ply, tableOK_insert (e := ⟨alpha, depth, .exact, best⟩) hc.tbl (G.key root) ha 1, ?_, ?_⟩
    · intro m hm; cases hm; exact hb
    · intro s hs; cases hs; exact ha.1

theorem abStart_B (env : Env) {G : Game P M} {root : P} (he : EvalBoundedFrom G root) (depth : Nat) {st : St M}
    (h : RootInv G root st) : RootInv G root (abStart env G root depth st) := by
  rw [abStart_eq]
  split
  · exact h
  · rename_i m0 t _
    have hrec : RecB G root 1 (ab env G 255) := fun c a b d st' hk => ab_B env G root 255 c a b d st' (by omega)
    have hk := rootKids_B env he hrec depth
      (orderMoves G ((st.tt[G.key root]?).map (·.best)) (st.killers.getD st.ply (none, none)) (G.allMoves root))
      MINS m0 false 0 st (fun m hm => orderMoves_mem _ _ _ _ _ hm) h (by unfold InR MINS MAXS; omega) (.inl ⟨rfl, rfl⟩)
    split
    · rename_i heq; rw [heq] at hk; exact hk.1
    · rename_i a b n st' heq
      rw [heq] at hk
      split
      · exact hk.1
      · rename_i hn
        have t := hk.2 a b n st' rfl
        exact rootSave_B env depth hk.1 t.1 (t.2 hn)

theorem iterate_B (env : Env) {G : Game P M} {root : P} (he : EvalBoundedFrom G root) (maxDepth : Nat) :
    ∀ (fuel d : Nat) (st : St M) (infos : List (InfoLine M)), RootInv G root st →
      RootInv G root (iterate env G root maxDepth fuel d st infos).1 := by
  intro fuel
  induction fuel with
  | zero => intro d st infos h; exact h
  | succ fuel ih =>
    intro d st infos h
    rw [iterate_succ]
    have h1 := abStart_B env he d h
    have hf := abortCheck_frame env (abStart env G root d st)
    have hc : RootInv G root (abortCheck env (abStart env G root d st)).2 :=
      h1.of_keep (keep_of_frame hf) (by rw [hf.1]; exact h1.tbl)
    split
    · exact h
    · simp only []
      split
      · exact hc
      · exact ih _ _ _ hc

theorem one_legal_bestmove' (env : Env) (G : Game P M) (p : P) (maxDepth : Option Nat) (tt0 : Table M)
    (hl : legalMovesOf G p ≠ []) (he : EvalBoundedFrom G p) (ht : TableScoresOK tt0) :
    ∃ m, (search env G p maxDepth tt0).best = some m ∧ m ∈ legalMovesOf G p := by
  have h0 : RootInv G p ({ tt := tt0 } : St M) :=
    ⟨rfl, ht, fun m hm => (by cases hm), fun s hs => (by cases hs)⟩
  have h := iterate_B env he (maxDepth.getD 255) (maxDepth.getD 255) 1 _ [] h0
  unfold search
  simp only []
  cases hbm : (iterate env G p (maxDepth.getD 255) (maxDepth.getD 255) 1 { tt := tt0 } []).1.bestMove with
  | some m => exact ⟨m, rfl, h.bm m hbm⟩
  | none =>
    simp only []
    unfold legalMovesOf at hl ⊢
    cases hf : (G.allMoves p).filter (G.legal p) with
    | nil => exact absurd hf hl
    | cons m t => exact ⟨m, rfl, List.mem_cons_self⟩

end RCE.Proofs.SearchBest
