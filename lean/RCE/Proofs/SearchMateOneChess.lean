import RCE.Proofs.SearchMateOne
import RCE.Proofs.SearchInfo
import RCE.Model.Search
/-! # `mate_in_one_played`: the chess instance of `OrderScoresOK`, and a witness that its hypotheses are satisfiable

1. `chess_orderScoresOK`: for the chess game the static ordering score of *every* move (not only the generated ones)
   stays far below the score `2^64 − 1` reserved for the cached move.  The bound is stated in terms of the generated
   constants (`Gen.bonusCapture`, …) and re-checked by `decide` whenever they are regenerated.
2. `mate_in_one_nonvacuous`: a five-position game (`G5`) for which every hypothesis of `mate_in_one_played` is proved,
   so the theorem is not vacuous; its conclusion is instantiated for a depth-2 search from the empty cache. -/
namespace RCE.Proofs.SearchMateOneChess
open RCE RCE.Search RCE.Gen RCE.Proofs.SearchDefs RCE.Proofs.SearchMateOne
open RCE.Proofs.SearchMate (Mated)
open RCE.Proofs.SearchMate.Counter (mkGame key_inj keyMate evalBounded legalMoves_eq)

/-! ## 1. the chess ordering scores -/

theorem kindPos_victims_le (k : Kind) : kindPos victimsAscending k ≤ victimsAscending.length := by
  rcases k with ⟨pk, c⟩
  cases pk <;> cases c <;> decide

theorem kindPos_attackers_le (k : Kind) : kindPos attackersDescending k ≤ attackersDescending.length := by
  rcases k with ⟨pk, c⟩
  cases pk <;> cases c <;> decide

/-- the uniform bound: capture bonus + the largest victim/attacker index + promotion bonus -/
def scoreBound : Nat :=
  bonusCapture + (victimsAscending.length * attackersDescending.length + attackersDescending.length) + bonusPromotion

theorem plyStaticScore_le (m : Ply) : plyStaticScore m ≤ scoreBound := by
  have hcap : (match m.captured with
      | some v => bonusCapture + (kindPos victimsAscending v * attackersDescending.length + kindPos attackersDescending m.piece)
      | none => 0) ≤ bonusCapture + (victimsAscending.length * attackersDescending.length + attackersDescending.length) := by
    cases m.captured with
    | none => exact Nat.zero_le _
    | some v =>
      have h1 := Nat.mul_le_mul_right attackersDescending.length (kindPos_victims_le v)
      have h2 := kindPos_attackers_le m.piece
      show bonusCapture + (kindPos victimsAscending v * attackersDescending.length + kindPos attackersDescending m.piece) ≤ _
      omega
  have hpro : (if m.promoted.isSome then bonusPromotion else 0) ≤ bonusPromotion := by
    split
    · exact Nat.le_refl _
    · exact Nat.zero_le _
  show (match m.captured with
      | some v => bonusCapture + (kindPos victimsAscending v * attackersDescending.length + kindPos attackersDescending m.piece)
      | none => 0) + (if m.promoted.isSome then bonusPromotion else 0) ≤ scoreBound
  unfold scoreBound
  omega

/-- re-checked against the regenerated constants -/
theorem scoreBound_small : scoreBound + 2000 < 18446744073709551615 := by decide

theorem plyStaticScore_small (m : Ply) : plyStaticScore m + 2000 < 18446744073709551615 := by
  have h1 := plyStaticScore_le m
  have h2 := scoreBound_small
  omega

theorem chess_orderScoresOK (b : Board) : OrderScoresOK chessGame b :=
  fun m _ => plyStaticScore_small m

/-! ## 2. the hypotheses of `mate_in_one_played` are satisfiable -/

/-- 0 = root: 2, 1 (in this order: the mating move is not generated first);  1 has no move and is in check (mated);
    2 → 3, a quiet leaf -/
def G5 : Game (Fin 8) (Fin 8) :=
  mkGame (fun p => match p with | 0 => [2, 1] | 2 => [3] | _ => []) (fun p => p == 1)

theorem G5_mates : Mates G5 0 1 := by
  refine ⟨?_, ?_, ?_⟩
  · rw [G5, legalMoves_eq]; decide
  · show legalMovesOf G5 1 = []
    rw [G5, legalMoves_eq]
    rfl
  · decide

theorem G5_matedKeysFresh : MatedKeysFresh G5 0 :=
  matedKeysFresh_of_inj fun _ _ q _ h => key_inj _ _ q _ h

theorem G5_noDrawAtMate : NoDrawAtMate G5 0 := fun _ _ => ⟨rfl, rfl⟩

theorem G5_orderScoresOK : OrderScoresOK G5 0 := by
  intro m _
  show (0 : Nat) + 2000 < 18446744073709551615
  omega

theorem monoClock_default : MonoClock ({} : Env) := fun _ _ _ => Nat.le_refl _

theorem unlimited_default : Unlimited ({} : Env) := ⟨rfl, rfl, rfl, rfl⟩

/-- a depth-2 search without limits prints the info lines of depths 1 and 2 -/
theorem G5_infos : (search {} G5 0 (some 2) {}).infos ≠ [] := by
  intro h
  have hd := RCE.Proofs.SearchInfo.depth_limit_complete' {} G5 0 2 {} unlimited_default (by omega)
  rw [h] at hd
  exact absurd hd (by decide)

/-- all hypotheses of `mate_in_one_played` hold for `G5` at root 0, and its conclusion follows -/
theorem mate_in_one_nonvacuous : ∃ m, (search {} G5 0 (some 2) {}).st.bestMove = some m ∧ Mates G5 0 m :=
  (mate_in_one_played {} G5 0 (some 2) {} monoClock_default rfl (evalBounded _ _ 0) (keyMate _ _)
    G5_matedKeysFresh G5_noDrawAtMate G5_orderScoresOK ⟨1, G5_mates⟩ (mateOneInv_empty G5 0) G5_infos).1

/-- the only mating move is 1: the search plays it -/
theorem mate_in_one_nonvacuous' : (search {} G5 0 (some 2) {}).st.bestMove = some 1 := by
  obtain ⟨m, h1, h2⟩ := mate_in_one_nonvacuous
  have hm := h2.1
  rw [G5, legalMoves_eq] at hm
  have hnil := h2.2.1
  simp only [List.mem_cons, List.not_mem_nil, or_false] at hm
  rcases hm with rfl | rfl
  · exact absurd hnil (by rw [G5]; show legalMovesOf (mkGame _ _) 2 ≠ []; rw [legalMoves_eq]; decide)
  · exact h1

end RCE.Proofs.SearchMateOneChess

#print axioms RCE.Proofs.SearchMateOneChess.chess_orderScoresOK
#print axioms RCE.Proofs.SearchMateOneChess.mate_in_one_nonvacuous
#print axioms RCE.Proofs.SearchMateOneChess.mate_in_one_nonvacuous'
