import RCE.Model.Eval
/-! `popcount (bswap x) = popcount x`: `bswap` permutes the 64 bit positions
    (`i ↦ 8 * (7 - i / 8) + i % 8`), and `popcount` is the sum of the 64 indicator bits. -/
namespace RCE.Proofs.PopcountBswap
open RCE

theorem ne_zero_eq (y : UInt64) : (y != 0) = (y.toNat != 0) := by
  rw [Bool.eq_iff_iff]; simp [← UInt64.toNat_inj]

/-- the model's `testBit` is `BitVec.getLsbD` on the underlying bit-vector -/
theorem testBit_eq (x : BB) (i : Nat) (h : i < 64) : testBit x i = x.toBitVec.getLsbD i := by
  unfold testBit
  rw [BitVec.getLsbD, Nat.testBit, ne_zero_eq]
  simp [UInt64.toNat_and, UInt64.toNat_shiftRight, Nat.mod_eq_of_lt h, Nat.and_comm 1]

theorem ff_getLsbD (j : Nat) : (255#64).getLsbD j = decide (j < 8) := by
  have : (255 : Nat) = 2 ^ 8 - 1 := by decide
  rw [BitVec.getLsbD_ofNat, this, Nat.testBit_two_pow_sub_one]
  by_cases h : j < 8 <;> simp [h]; omega

/-- `bswap` moves bit `i` of the result from bit `8 * (7 - i / 8) + i % 8` of the argument -/
theorem bswap_getLsbD (x : BB) (i : Nat) (h : i < 64) :
    (bswap x).toBitVec.getLsbD i = x.toBitVec.getLsbD (8 * (7 - i / 8) + i % 8) := by
  simp only [bswap, List.range, List.range.loop, List.foldl]
  simp [ff_getLsbD]
  iterate 64 (rcases i with _ | i; · simp)
  omega

theorem testBit_bswap (x : BB) (i : Nat) (h : i < 64) :
    testBit (bswap x) i = testBit x (8 * (7 - i / 8) + i % 8) := by
  rw [testBit_eq _ _ h, testBit_eq _ _ (by omega), bswap_getLsbD _ _ h]

/-- indicator of bit `i` -/
def ind (x : BB) (i : Nat) : Nat := if testBit x i then 1 else 0

theorem popcountAux_acc (x : BB) (n acc : Nat) : popcountAux x n acc = acc + popcountAux x n 0 := by
  induction n generalizing acc with
  | zero => simp [popcountAux]
  | succ n ih =>
    simp only [popcountAux]
    rw [ih, ih (if testBit x n then 0 + 1 else 0)]
    split <;> simp <;> omega

def sumInd (x : BB) : Nat → Nat
  | 0 => 0
  | n+1 => ind x n + sumInd x n

theorem popcountAux_eq_sumInd (x : BB) (n : Nat) : popcountAux x n 0 = sumInd x n := by
  induction n with
  | zero => rfl
  | succ n ih =>
    simp only [popcountAux, sumInd, ind]
    rw [popcountAux_acc, ih]

theorem ind_bswap (x : BB) (i : Nat) (h : i < 64) : ind (bswap x) i = ind x (8 * (7 - i / 8) + i % 8) := by
  simp only [ind, testBit_bswap x i h]

theorem popcount_bswap (x : BB) : popcount (bswap x) = popcount x := by
  unfold popcount
  simp only [popcountAux_eq_sumInd, sumInd]
  simp (disch := decide) only [ind_bswap]
  simp only [Nat.reduceMul, Nat.reduceDiv, Nat.reduceMod, Nat.reduceSub, Nat.reduceAdd]
  omega

end RCE.Proofs.PopcountBswap
