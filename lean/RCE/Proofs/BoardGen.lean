import RCE.Proofs.BoardPBB
/-! What the pseudo-legal generator guarantees about every move it returns (`Gen`), derived from the
    definitions of the movesets.  Nothing here depends on the contents of the attack tables: destinations
    come from `bitIndices`, the explicit pawn clauses or the castling clauses, and the range filter. -/
namespace RCE.Proofs.BoardGen
open RCE RCE.Proofs.BoardBits RCE.Proofs.BoardWF RCE.Proofs.BoardPBB

/-- everything the pawn generator computes from an in-range square, by exhaustion over the 64 squares -/
def PawnGeom (s : Square) : Prop :=
  s.add 1 0 = ⟨s.rank + 1, s.file⟩ ∧
  (s.add 1 0).add 1 0 = ⟨s.rank + 2, s.file⟩ ∧
  (s.add 1 0).add 0 1 = ⟨s.rank + 1, s.file + 1⟩ ∧
  (s.add 1 0).add 0 (-1) = ⟨s.rank + 1, if s.file = 0 then 255 else s.file - 1⟩ ∧
  s.add (-1) 0 = ⟨if s.rank = 0 then 255 else s.rank - 1, s.file⟩ ∧
  (s.add (-1) 0).add (-1) 0 = ⟨if s.rank = 0 then 254 else if s.rank = 1 then 255 else s.rank - 2, s.file⟩ ∧
  (s.add (-1) 0).add 0 1 = ⟨if s.rank = 0 then 255 else s.rank - 1, s.file + 1⟩ ∧
  (s.add (-1) 0).add 0 (-1) = ⟨if s.rank = 0 then 255 else s.rank - 1, if s.file = 0 then 255 else s.file - 1⟩ ∧
  (s.rank + 1 < 8 → shlChecked (shlChecked 1 s.idx) 8 = bit (s.idx + 8)) ∧
  (s.rank + 2 < 8 → shlChecked (shlChecked 1 s.idx) 16 = bit (s.idx + 16)) ∧
  (1 ≤ s.rank → shr (shlChecked 1 s.idx) 8 = bit (s.idx - 8)) ∧
  (2 ≤ s.rank → shr (shlChecked 1 s.idx) 16 = bit (s.idx - 16))

instance (s : Square) : Decidable (PawnGeom s) := by unfold PawnGeom; infer_instance

set_option maxRecDepth 100000 in
theorem pawnGeom_fin : ∀ r f : Fin 8, PawnGeom ⟨r.val, f.val⟩ := by decide +kernel

theorem pawnGeom (s : Square) (h : IR s) : PawnGeom s := by
  obtain ⟨r, f⟩ := s
  exact pawnGeom_fin ⟨r, h.1⟩ ⟨f, h.2⟩

theorem pieceAt_none_of_all (p : PBB) (hw : PBB.WF p) (s : Square) (h : IR s) (ha : testBit p.all s.idx = false) :
    p.pieceAt s = none := by
  have hi := idx_lt s h
  rw [hw.all, testBit_or _ _ _ hi] at ha
  have h1 : testBit p.white s.idx = false := by cases h1 : testBit p.white s.idx <;> simp_all
  have h2 : testBit p.black s.idx = false := by cases h2 : testBit p.black s.idx <;> simp_all
  unfold PBB.pieceAt; rw [pieceAt?_eq p s h, h1, h2]; rfl

theorem bit_and_eq_zero (x : UInt64) (i : Nat) (h : i < 64) (hz : (bit i &&& x == 0) = true) : testBit x i = false := by
  rw [← bit_and_ne_zero x i h]
  simp only [beq_iff_eq] at hz
  simp [hz]

theorem and_const_zero (x c : UInt64) (h : (x &&& c == 0) = true) (i : Nat) (hi : i < 64) (hc : testBit c i = true) :
    testBit x i = false := by
  simp only [beq_iff_eq] at h
  have := (eq_zero_iff _).mp h i hi
  rw [testBit_and _ _ _ hi, hc] at this
  simpa using this

def CastleCase (b : Board) (m : Ply) : Prop :=
  (b.turn = .white ∧ m.start = ⟨0,4⟩ ∧ m.dest = ⟨0,6⟩ ∧ b.rights.wk = true ∧ b.pieceAt ⟨0,5⟩ = none ∧ b.pieceAt ⟨0,6⟩ = none) ∨
  (b.turn = .white ∧ m.start = ⟨0,4⟩ ∧ m.dest = ⟨0,2⟩ ∧ b.rights.wq = true ∧ b.pieceAt ⟨0,3⟩ = none ∧ b.pieceAt ⟨0,2⟩ = none) ∨
  (b.turn = .black ∧ m.start = ⟨7,4⟩ ∧ m.dest = ⟨7,6⟩ ∧ b.rights.bk = true ∧ b.pieceAt ⟨7,5⟩ = none ∧ b.pieceAt ⟨7,6⟩ = none) ∨
  (b.turn = .black ∧ m.start = ⟨7,4⟩ ∧ m.dest = ⟨7,2⟩ ∧ b.rights.bq = true ∧ b.pieceAt ⟨7,3⟩ = none ∧ b.pieceAt ⟨7,2⟩ = none)

/-- what the generator guarantees about a move, apart from the range filter and the `captured` field -/
structure Shape (b : Board) (m : Ply) : Prop where
  piece : b.pieceAt m.start = some m.piece
  color : m.piece.color = b.turn
  ep : m.enPassant = true →
    b.pieceAt m.dest = none ∧ m.start.rank = (if b.turn = .white then 4 else 3) ∧ m.dest.rank ≠ m.start.rank ∧
    m.dest.file ≠ m.start.file ∧ m.isCastles = false ∧ m.isDoublePush = false ∧ m.promoted = none
  dp : m.isDoublePush = true →
    m.piece.pk = .pawn ∧ m.isCastles = false ∧ m.enPassant = false ∧ m.promoted = none ∧ m.dest.file = m.start.file ∧
    (if b.turn = .white then m.start.rank = 1 ∧ m.dest.rank = 3 ∧ b.pieceAt ⟨2, m.start.file⟩ = none
     else m.start.rank = 6 ∧ m.dest.rank = 4 ∧ b.pieceAt ⟨5, m.start.file⟩ = none)
  castle : m.isCastles = true →
    m.enPassant = false ∧ m.isDoublePush = false ∧ m.promoted = none ∧ m.piece.pk = .king ∧ CastleCase b m
  promo : ∀ q, m.promoted = some q → q.pk ≠ .king

theorem shape_plain (b : Board) (s d : Square) (k : Kind) (q : Option Kind)
    (h1 : b.pieceAt s = some k) (h2 : k.color = b.turn) (h3 : ∀ q', q = some q' → q'.pk ≠ .king) :
    Shape b { mkPly s d k with promoted := q } :=
  ⟨h1, h2, (fun h => by simp [mkPly] at h), (fun h => by simp [mkPly] at h), (fun h => by simp [mkPly] at h), h3⟩

theorem castlingAbility_facts (b : Board) (hw : WF b) (i : Nat) (h : b.castlingAbility i = true) :
    b.rights.get i = true ∧ 
    (i = 0 → b.pieceAt ⟨0,5⟩ = none ∧ b.pieceAt ⟨0,6⟩ = none) ∧
    (i = 1 → b.pieceAt ⟨0,3⟩ = none ∧ b.pieceAt ⟨0,2⟩ = none) ∧
    (i = 2 → b.pieceAt ⟨7,5⟩ = none ∧ b.pieceAt ⟨7,6⟩ = none) ∧
    (i = 3 → b.pieceAt ⟨7,3⟩ = none ∧ b.pieceAt ⟨7,2⟩ = none) := by
  unfold Board.castlingAbility at h
  simp only [Bool.and_eq_true] at h
  obtain ⟨⟨h1, h2⟩, _⟩ := h
  refine ⟨h1, ?_, ?_, ?_, ?_⟩ <;> intro e <;> subst e <;> simp only at h2 <;> constructor <;>
    (apply pieceAt_none_of_all _ hw.bbs _ (by decide)
     exact and_const_zero _ _ h2 _ (by decide) (by decide))

theorem shape_mk (b : Board) (s d : Square) (k : Kind)
    (h1 : b.pieceAt s = some k) (h2 : k.color = b.turn) : Shape b (mkPly s d k) :=
  shape_plain b s d k none h1 h2 (fun _ h => by cases h)

theorem shape_simple (b : Board) (att : BB) (sq : Square) (pc : Kind) (m : Ply)
    (h1 : b.pieceAt sq = some pc) (h2 : pc.color = b.turn) (hm : m ∈ simpleMoveset att sq b pc) : Shape b m := by
  unfold simpleMoveset at hm
  rw [List.mem_map] at hm
  obtain ⟨s, _, rfl⟩ := hm
  exact shape_mk b sq _ pc h1 h2

theorem shape_king (b : Board) (hw : WF b) (sq : Square) (c : Color) (m : Ply)
    (h1 : b.pieceAt sq = some ⟨.king, c⟩) (h2 : c = b.turn) (hm : m ∈ kingMoveset sq b c) : Shape b m := by
  unfold kingMoveset at hm
  simp only [List.mem_append] at hm
  rcases hm with (hm | hm) | hm
  · rw [List.mem_map] at hm
    obtain ⟨s, _, rfl⟩ := hm
    exact shape_mk b sq _ _ h1 h2
  · split at hm
    · rename_i hc
      simp only [Bool.and_eq_true, decide_eq_true_eq, beq_iff_eq] at hc
      obtain ⟨rfl, rfl⟩ := hc
      simp only [List.mem_append] at hm
      rcases hm with hm | hm <;> split at hm
      · rename_i ha
        have := castlingAbility_facts b hw 0 ha
        simp only [List.mem_singleton] at hm; subst hm
        refine ⟨h1, h2, (fun h => by simp [mkPly] at h), (fun h => by simp [mkPly] at h), fun _ => ⟨rfl, rfl, rfl, rfl, ?_⟩, (fun _ h => by simp [mkPly] at h)⟩
        left; exact ⟨h2.symm, rfl, rfl, this.1, (this.2.1 rfl).1, (this.2.1 rfl).2⟩
      · simp at hm
      · rename_i ha
        have := castlingAbility_facts b hw 1 ha
        simp only [List.mem_singleton] at hm; subst hm
        refine ⟨h1, h2, (fun h => by simp [mkPly] at h), (fun h => by simp [mkPly] at h), fun _ => ⟨rfl, rfl, rfl, rfl, ?_⟩, (fun _ h => by simp [mkPly] at h)⟩
        right; left; exact ⟨h2.symm, rfl, rfl, this.1, (this.2.2.1 rfl).1, (this.2.2.1 rfl).2⟩
      · simp at hm
    · simp at hm
  · split at hm
    · rename_i hc
      simp only [Bool.and_eq_true, decide_eq_true_eq, beq_iff_eq] at hc
      obtain ⟨rfl, rfl⟩ := hc
      simp only [List.mem_append] at hm
      rcases hm with hm | hm <;> split at hm
      · rename_i ha
        have := castlingAbility_facts b hw 2 ha
        simp only [List.mem_singleton] at hm; subst hm
        refine ⟨h1, h2, (fun h => by simp [mkPly] at h), (fun h => by simp [mkPly] at h), fun _ => ⟨rfl, rfl, rfl, rfl, ?_⟩, (fun _ h => by simp [mkPly] at h)⟩
        right; right; left; exact ⟨h2.symm, rfl, rfl, this.1, (this.2.2.2.1 rfl).1, (this.2.2.2.1 rfl).2⟩
      · simp at hm
      · rename_i ha
        have := castlingAbility_facts b hw 3 ha
        simp only [List.mem_singleton] at hm; subst hm
        refine ⟨h1, h2, (fun h => by simp [mkPly] at h), (fun h => by simp [mkPly] at h), fun _ => ⟨rfl, rfl, rfl, rfl, ?_⟩, (fun _ h => by simp [mkPly] at h)⟩
        right; right; right; exact ⟨h2.symm, rfl, rfl, this.1, (this.2.2.2.2 rfl).1, (this.2.2.2.2 rfl).2⟩
      · simp at hm
    · simp at hm

theorem shape_pawn_white (b : Board) (hw : WF b) (sq : Square) (hsq : IR sq) (m : Ply)
    (h1 : b.pieceAt sq = some ⟨.pawn, .white⟩) (h2 : Color.white = b.turn) (hm : m ∈ pawnMoveset sq b .white) :
    Shape b m := by
  have hg := pawnGeom sq hsq
  obtain ⟨g1, g2, g3, g4, -, -, -, -, g9, g10, -, -⟩ := hg
  simp only [pawnMoveset] at hm
  rw [List.mem_flatMap] at hm
  obtain ⟨p, hp, hm⟩ := hm
  have hs : Shape b p := by
    simp only [List.mem_append] at hp
    rcases hp with ((hp | hp) | hp) | hp
    · rw [List.mem_map] at hp
      obtain ⟨s, _, rfl⟩ := hp
      exact shape_mk b sq _ _ h1 h2
    · split at hp
      · simp only [List.mem_singleton] at hp; subst hp
        exact shape_mk b sq _ _ h1 h2
      · simp at hp
    · split at hp
      · rename_i hc
        simp only [Bool.and_eq_true, beq_iff_eq] at hc
        obtain ⟨⟨hr, hn⟩, _⟩ := hc
        simp only [List.mem_singleton] at hp; subst hp
        refine ⟨h1, h2, (fun h => by simp [mkPly] at h), fun _ => ?_, (fun h => by simp [mkPly] at h), (fun _ h => by simp [mkPly] at h)⟩
        refine ⟨rfl, rfl, rfl, rfl, ?_, ?_⟩
        · show ((sq.add 1 0).add 1 0).file = sq.file
          rw [g2]
        · rw [if_pos h2.symm]
          refine ⟨hr, ?_, ?_⟩
          · show ((sq.add 1 0).add 1 0).rank = 3
            rw [g2]; simp only; omega
          · show b.bbs.pieceAt ⟨2, sq.file⟩ = none
            have hir : IR ⟨2, sq.file⟩ := ⟨by show 2 < 8; omega, hsq.2⟩
            apply pieceAt_none_of_all _ hw.bbs _ hir
            rw [g9 (by omega)] at hn
            have : (⟨2, sq.file⟩ : Square).idx = sq.idx + 8 := by simp only [Square.idx]; omega
            rw [this]
            exact bit_and_eq_zero _ _ (by have := hsq.2; simp only [Square.idx]; omega) (by simpa using hn)
      · simp at hp
    · split at hp
      · rename_i hr
        simp only [beq_iff_eq] at hr
        simp only [List.mem_append] at hp
        have hep := hw.ep.2
        rcases hp with hp | hp <;> split at hp
        · rename_i he
          simp only [beq_iff_eq] at he
          simp only [List.mem_singleton] at hp; subst hp
          refine ⟨h1, h2, fun _ => ?_, (fun h => by simp [mkPly] at h), (fun h => by simp [mkPly] at h), (fun _ h => by simp [mkPly] at h)⟩
          have := (hep _ he).2.2
          rw [if_pos h2.symm] at this
          rw [if_pos h2.symm]
          refine ⟨?_, hr, ?_, ?_, rfl, rfl, rfl⟩
          · show b.pieceAt ((sq.add 1 0).add 0 1) = none
            rw [g3] at this ⊢; simp only at this; rw [hr]; exact this
          · show ((sq.add 1 0).add 0 1).rank ≠ sq.rank
            rw [g3]; simp only; omega
          · show ((sq.add 1 0).add 0 1).file ≠ sq.file
            rw [g3]; simp only; omega
        · simp at hp
        · rename_i he
          simp only [beq_iff_eq] at he
          simp only [List.mem_singleton] at hp; subst hp
          refine ⟨h1, h2, fun _ => ?_, (fun h => by simp [mkPly] at h), (fun h => by simp [mkPly] at h), (fun _ h => by simp [mkPly] at h)⟩
          have := (hep _ he).2.2
          rw [if_pos h2.symm] at this
          rw [if_pos h2.symm]
          refine ⟨?_, hr, ?_, ?_, rfl, rfl, rfl⟩
          · show b.pieceAt ((sq.add 1 0).add 0 (-1)) = none
            rw [g4] at this ⊢; simp only at this; rw [hr]; exact this
          · show ((sq.add 1 0).add 0 (-1)).rank ≠ sq.rank
            rw [g4]; simp only; omega
          · show ((sq.add 1 0).add 0 (-1)).file ≠ sq.file
            rw [g4]; simp only; have := hsq.2; split <;> omega
        · simp at hp
      · simp at hp
  split at hm
  · simp only [List.mem_cons, List.not_mem_nil, or_false] at hm
    rcases hm with rfl | rfl | rfl | rfl <;>
      exact shape_plain b _ _ _ _ hs.piece hs.color (fun _ h => by injection h with h; subst h; decide)
  · simp only [List.mem_singleton] at hm; subst hm; exact hs

theorem shape_pawn_black (b : Board) (hw : WF b) (sq : Square) (hsq : IR sq) (m : Ply)
    (h1 : b.pieceAt sq = some ⟨.pawn, .black⟩) (h2 : Color.black = b.turn) (hm : m ∈ pawnMoveset sq b .black) :
    Shape b m := by
  have hg := pawnGeom sq hsq
  obtain ⟨-, -, -, -, g1, g2, g3, g4, -, -, g9, g10⟩ := hg
  have hnw : ¬ b.turn = Color.white := by rw [← h2]; decide
  simp only [pawnMoveset] at hm
  rw [List.mem_flatMap] at hm
  obtain ⟨p, hp, hm⟩ := hm
  have hs : Shape b p := by
    simp only [List.mem_append] at hp
    rcases hp with ((hp | hp) | hp) | hp
    · rw [List.mem_map] at hp
      obtain ⟨s, _, rfl⟩ := hp
      exact shape_mk b sq _ _ h1 h2
    · split at hp
      · simp only [List.mem_singleton] at hp; subst hp
        exact shape_mk b sq _ _ h1 h2
      · simp at hp
    · split at hp
      · rename_i hc
        simp only [Bool.and_eq_true, beq_iff_eq] at hc
        obtain ⟨⟨hr, hn⟩, _⟩ := hc
        simp only [List.mem_singleton] at hp; subst hp
        refine ⟨h1, h2, (fun h => by simp [mkPly] at h), fun _ => ?_, (fun h => by simp [mkPly] at h), (fun _ h => by simp [mkPly] at h)⟩
        refine ⟨rfl, rfl, rfl, rfl, ?_, ?_⟩
        · show ((sq.add (-1) 0).add (-1) 0).file = sq.file
          rw [g2]
        · rw [if_neg hnw]
          refine ⟨hr, ?_, ?_⟩
          · show ((sq.add (-1) 0).add (-1) 0).rank = 4
            rw [g2]; simp [hr]
          · show b.bbs.pieceAt ⟨5, sq.file⟩ = none
            have hir : IR ⟨5, sq.file⟩ := ⟨by show 5 < 8; omega, hsq.2⟩
            apply pieceAt_none_of_all _ hw.bbs _ hir
            rw [g9 (by omega)] at hn
            have : (⟨5, sq.file⟩ : Square).idx = sq.idx - 8 := by simp only [Square.idx]; omega
            rw [this]
            exact bit_and_eq_zero _ _ (by have := hsq.2; simp only [Square.idx]; omega) (by simpa using hn)
      · simp at hp
    · split at hp
      · rename_i hr
        simp only [beq_iff_eq] at hr
        simp only [List.mem_append] at hp
        have hep := hw.ep.2
        rcases hp with hp | hp <;> split at hp
        · rename_i he
          simp only [beq_iff_eq] at he
          simp only [List.mem_singleton] at hp; subst hp
          refine ⟨h1, h2, fun _ => ?_, (fun h => by simp [mkPly] at h), (fun h => by simp [mkPly] at h), (fun _ h => by simp [mkPly] at h)⟩
          have := (hep _ he).2.2
          rw [if_neg hnw] at this
          rw [if_neg hnw]
          refine ⟨?_, hr, ?_, ?_, rfl, rfl, rfl⟩
          · show b.pieceAt ((sq.add (-1) 0).add 0 1) = none
            rw [g3] at this ⊢; simp only at this; rw [hr]; exact this
          · show ((sq.add (-1) 0).add 0 1).rank ≠ sq.rank
            rw [g3]; simp [hr]
          · show ((sq.add (-1) 0).add 0 1).file ≠ sq.file
            rw [g3]; simp only; omega
        · simp at hp
        · rename_i he
          simp only [beq_iff_eq] at he
          simp only [List.mem_singleton] at hp; subst hp
          refine ⟨h1, h2, fun _ => ?_, (fun h => by simp [mkPly] at h), (fun h => by simp [mkPly] at h), (fun _ h => by simp [mkPly] at h)⟩
          have := (hep _ he).2.2
          rw [if_neg hnw] at this
          rw [if_neg hnw]
          refine ⟨?_, hr, ?_, ?_, rfl, rfl, rfl⟩
          · show b.pieceAt ((sq.add (-1) 0).add 0 (-1)) = none
            rw [g4] at this ⊢; simp only at this; rw [hr]; exact this
          · show ((sq.add (-1) 0).add 0 (-1)).rank ≠ sq.rank
            rw [g4]; simp [hr]
          · show ((sq.add (-1) 0).add 0 (-1)).file ≠ sq.file
            rw [g4]; simp only; have := hsq.2; split <;> omega
        · simp at hp
      · simp at hp
  split at hm
  · simp only [List.mem_cons, List.not_mem_nil, or_false] at hm
    rcases hm with rfl | rfl | rfl | rfl <;>
      exact shape_plain b _ _ _ _ hs.piece hs.color (fun _ h => by injection h with h; subst h; decide)
  · simp only [List.mem_singleton] at hm; subst hm; exact hs

theorem shape_kind (b : Board) (hw : WF b) (sq : Square) (hsq : IR sq) (p : Kind) (m : Ply)
    (h1 : b.pieceAt sq = some p) (h2 : p.color = b.turn) (hm : m ∈ kindMoveset p sq b) :
    Shape b m ∧ IR m.start ∧ IR m.dest ∧ m.start ≠ m.dest := by
  unfold kindMoveset at hm
  rw [List.mem_filter] at hm
  obtain ⟨hm, hf⟩ := hm
  simp only [Bool.and_eq_true, decide_eq_true_eq, bne_iff_ne, ne_eq] at hf
  refine ⟨?_, ⟨hf.1.1.1.1, hf.1.1.1.2⟩, ⟨hf.1.1.2, hf.1.2⟩, hf.2⟩
  obtain ⟨pk, c⟩ := p
  cases pk <;> simp only at hm
  · cases c
    · exact shape_pawn_white b hw sq hsq m h1 h2 hm
    · exact shape_pawn_black b hw sq hsq m h1 h2 hm
  · exact shape_king b hw sq c m h1 h2 hm
  all_goals exact shape_simple b _ sq _ m h1 h2 hm

/-- what `get_all_moves` guarantees about each move it returns -/
structure Gen (b : Board) (m : Ply) : Prop where
  shape : Shape b m
  irs : IR m.start
  ird : IR m.dest
  ne : m.start ≠ m.dest
  cap : m.captured = if m.enPassant then b.pieceAt ⟨m.start.rank, m.dest.file⟩ else b.pieceAt m.dest

theorem gen_of_mem (b : Board) (hw : WF b) (m : Ply) (hm : m ∈ b.allMoves) : Gen b m := by
  unfold Board.allMoves at hm
  rw [List.mem_flatMap] at hm
  obtain ⟨i, hi, hm⟩ := hm
  rw [List.mem_range] at hi
  have hsq := ofIdx_IR i hi
  dsimp only at hm
  split at hm
  · rename_i p hp
    split at hm
    · simp at hm
    · rename_i ht
      simp only [bne_iff_ne, ne_eq, Decidable.not_not] at ht
      rw [List.mem_map] at hm
      obtain ⟨m0, hm0, rfl⟩ := hm
      obtain ⟨hs, h1, h2, h3⟩ := shape_kind b hw _ hsq p m0 hp ht.symm hm0
      split
      · rename_i he
        exact ⟨⟨hs.piece, hs.color, hs.ep, hs.dp, hs.castle, hs.promo⟩, h1, h2, h3, by simp [he]⟩
      · rename_i he
        exact ⟨⟨hs.piece, hs.color, hs.ep, hs.dp, hs.castle, hs.promo⟩, h1, h2, h3, by simp [he]⟩
  · simp at hm

end RCE.Proofs.BoardGen
