/-! List lemmas (core only) used by the C01 move-generation proofs: `Perm` / `Nodup` through
    `flatMap`, `map`, `filter`, and "same members + no duplicates ⇒ permutation". -/
namespace RCE.Proofs.MoveGenList

theorem perm_of_nodup_of_mem_iff {α} {l₁ l₂ : List α} (h₁ : l₁.Nodup) (h₂ : l₂.Nodup)
    (h : ∀ a, a ∈ l₁ ↔ a ∈ l₂) : l₁.Perm l₂ :=
  (List.perm_ext_iff_of_nodup h₁ h₂).mpr h

theorem perm_flatMap_congr {α β} (l : List α) (f g : α → List β) (h : ∀ a ∈ l, (f a).Perm (g a)) :
    (l.flatMap f).Perm (l.flatMap g) := by
  induction l with
  | nil => exact List.Perm.refl _
  | cons a l ih =>
    rw [List.flatMap_cons, List.flatMap_cons]
    exact List.Perm.append (h a List.mem_cons_self) (ih fun x hx => h x (List.mem_cons_of_mem _ hx))

theorem nodup_flatMap {α β} (l : List α) (f : α → List β) (hl : l.Nodup)
    (h1 : ∀ a ∈ l, (f a).Nodup)
    (h2 : ∀ a ∈ l, ∀ a' ∈ l, a ≠ a' → ∀ x ∈ f a, ∀ y ∈ f a', x ≠ y) : (l.flatMap f).Nodup := by
  unfold List.Nodup
  rw [List.pairwise_flatMap]
  refine ⟨h1, ?_⟩
  unfold List.Nodup at hl
  induction l with
  | nil => exact List.Pairwise.nil
  | cons a l ih =>
    rw [List.pairwise_cons] at hl ⊢
    refine ⟨?_, ih hl.2 (fun x hx => h1 x (List.mem_cons_of_mem _ hx))
      (fun x hx y hy => h2 x (List.mem_cons_of_mem _ hx) y (List.mem_cons_of_mem _ hy))⟩
    intro a' ha'
    exact h2 a List.mem_cons_self a' (List.mem_cons_of_mem _ ha') (hl.1 a' ha')

theorem nodup_map_of_inj {α β} (l : List α) (f : α → β) (hl : l.Nodup)
    (hf : ∀ a ∈ l, ∀ a' ∈ l, f a = f a' → a = a') : (l.map f).Nodup := by
  induction l with
  | nil => exact List.Pairwise.nil
  | cons a l ih =>
    rw [List.nodup_cons] at hl
    rw [List.map_cons, List.nodup_cons]
    refine ⟨?_, ih hl.2 (fun x hx y hy => hf x (List.mem_cons_of_mem _ hx) y (List.mem_cons_of_mem _ hy))⟩
    intro hm
    rw [List.mem_map] at hm
    obtain ⟨a', ha', e⟩ := hm
    have := hf a' (List.mem_cons_of_mem _ ha') a List.mem_cons_self e
    subst this
    exact hl.1 ha'

theorem nodup_filter {α} (p : α → Bool) {l : List α} (h : l.Nodup) : (l.filter p).Nodup :=
  List.Pairwise.filter p h

theorem nodup_of_sublist {α} {l₁ l₂ : List α} (h : l₁.Sublist l₂) (h2 : l₂.Nodup) : l₁.Nodup :=
  List.Nodup.sublist h h2

theorem sublist_flatMap {α β} (l : List α) (f g : α → List β) (h : ∀ a ∈ l, (f a).Sublist (g a)) :
    (l.flatMap f).Sublist (l.flatMap g) := by
  induction l with
  | nil => exact List.Sublist.refl _
  | cons a l ih =>
    rw [List.flatMap_cons, List.flatMap_cons]
    exact List.Sublist.append (h a List.mem_cons_self) (ih fun x hx => h x (List.mem_cons_of_mem _ hx))

/-- filtering before mapping = mapping then filtering, when the predicates agree on the list -/
theorem map_filter_of_agree {α β} (l : List α) (f : α → β) (p : α → Bool) (q : β → Bool)
    (h : ∀ a ∈ l, p a = q (f a)) : (l.filter p).map f = (l.map f).filter q := by
  induction l with
  | nil => rfl
  | cons a l ih =>
    have ha := h a List.mem_cons_self
    have ih' := ih fun x hx => h x (List.mem_cons_of_mem _ hx)
    rw [List.filter_cons, List.map_cons, List.filter_cons, ← ha]
    cases p a
    · simpa using ih'
    · simp [ih']

theorem filter_eq_self_of_all {α} (l : List α) (p : α → Bool) (h : ∀ a ∈ l, p a = true) : l.filter p = l :=
  List.filter_eq_self.mpr h

theorem find?_unique {α} (l : List α) (p : α → Bool) (k : α) (hk : k ∈ l) (hp : p k = true)
    (hu : ∀ x ∈ l, p x = true → x = k) : l.find? p = some k := by
  induction l with
  | nil => cases hk
  | cons a l ih =>
    rw [List.find?_cons]
    cases hpa : p a
    · simp only
      rcases List.mem_cons.mp hk with e | hk'
      · subst e; rw [hp] at hpa; cases hpa
      · exact ih hk' fun x hx => hu x (List.mem_cons_of_mem _ hx)
    · simp only
      rw [hu a List.mem_cons_self hpa]

theorem find?_none_of_all {α} (l : List α) (p : α → Bool) (h : ∀ x ∈ l, p x = false) : l.find? p = none := by
  rw [List.find?_eq_none]
  intro x hx; rw [h x hx]; simp

end RCE.Proofs.MoveGenList
