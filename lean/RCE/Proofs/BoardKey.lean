import RCE.Proofs.BoardUndo
/-! C04: the incrementally maintained key equals the from-scratch key — after every generated move,
    for positions loaded from FEN, for the start position, and along every make / unmake interleaving.
    Nothing here depends on the values of the Zobrist words (they are kept irreducible): only on the
    algebra of XOR. -/
namespace RCE.Proofs.BoardKey
open RCE RCE.Proofs.BoardBits RCE.Proofs.BoardWF RCE.Proofs.BoardPBB RCE.Proofs.BoardGen RCE.Proofs.BoardMake
  RCE.Proofs.BoardUndo
attribute [local irreducible] zPiece zCastle zEp zTurn

/-- making any generated move keeps "incremental key = from-scratch key" and well-formedness -/
theorem key_incremental' (b : Board) (m : Ply) (hw : WF b) (hk : b.zkey = b.scratchKey) (hm : m ∈ b.allMoves) :
    (b.makeMove m).zkey = (b.makeMove m).scratchKey ∧ WF (b.makeMove m) :=
  makeMove_ok b m hw hk hm

theorem scratchKey_zkey (b : Board) (k : UInt64) : ({ b with zkey := k }).scratchKey = b.scratchKey := rfl

def KeyOk (o : Option Board) : Prop := ∀ b, o = some b → b.zkey = b.scratchKey

theorem KeyOk_none : KeyOk none := by intro b h; cases h
theorem KeyOk_some (b0 : Board) (h0 : b0.zkey = b0.scratchKey) : KeyOk (some b0) := by
  intro b h; injection h with h; subst h; exact h0
theorem KeyOk_bind {α} (x : Option α) (f : α → Option Board) (h : ∀ a, KeyOk (f a)) : KeyOk (x.bind f) := by
  intro b hb
  cases x with
  | none => cases hb
  | some a => exact h a b hb

theorem fromFen_keyOk (s : List Char) : KeyOk (Board.fromFen? s) := by
  unfold Board.fromFen?
  simp only [bind, pure]
  repeat' first
    | exact KeyOk_none
    | (apply KeyOk_some; rfl)
    | (apply KeyOk_bind; intro _)
    | split

theorem fromFen_key' (s : List Char) (b : Board) (h : Board.fromFen? s = some b) : b.zkey = b.scratchKey :=
  fromFen_keyOk s b h

theorem scratchKey_congr (b b' : Board)
    (hp : ∀ i, i < 64 → b.pieceAt (Square.ofIdx i) = b'.pieceAt (Square.ofIdx i))
    (hr : b.rights = b'.rights) (he : b.ep = b'.ep) (ht : b.turn = b'.turn) :
    b.scratchKey = b'.scratchKey := by
  have : pieceKey b.bbs = pieceKey b'.bbs := by
    unfold pieceKey
    apply xs_congr
    intro i hi
    show ow (b.pieceAt (Square.ofIdx i)) _ = ow (b'.pieceAt (Square.ofIdx i)) _
    rw [hp i hi]
  rw [scratchKey_eq, scratchKey_eq, hr, he, ht, this]

theorem start_bbs_wf : PBB.WF PBB.start := by
  refine ⟨?_, by decide, by decide, by decide⟩
  rintro ⟨pk, c⟩ ⟨pk', c'⟩ h
  cases pk <;> cases c <;> cases pk' <;> cases c' <;> first | (exact absurd rfl h) | decide

set_option maxRecDepth 100000 in
theorem start_kings_fin : ∀ r f : Fin 8,
    (PBB.start.pieceAt ⟨r.val, f.val⟩ = some ⟨.king, .white⟩ → (⟨r.val, f.val⟩ : Square) = ⟨0, 4⟩) ∧
    (PBB.start.pieceAt ⟨r.val, f.val⟩ = some ⟨.king, .black⟩ → (⟨r.val, f.val⟩ : Square) = ⟨7, 4⟩) := by
  decide +kernel

theorem start_ok' : Board.start.zkey = Board.start.scratchKey ∧ WF Board.start := by
  refine ⟨?_, ?_⟩
  · exact (scratchKey_zkey ⟨.white, 1, none, [Ply.default], [], PBB.start, 0⟩ _).symm
  · refine ⟨start_bbs_wf, by unfold Board.start; simp, ?_, ?_, ?_⟩
    · refine ⟨fun _ => ?_, fun _ => ?_, fun _ => ?_, fun _ => ?_⟩ <;>
        (show PBB.start.pieceAt _ = _; decide)
    · refine ⟨fun _ s h1 h2 hk => ?_, fun _ s h1 h2 hk => ?_⟩
      · obtain ⟨r, f⟩ := s
        exact (start_kings_fin ⟨r, h1⟩ ⟨f, h2⟩).1 hk
      · obtain ⟨r, f⟩ := s
        exact (start_kings_fin ⟨r, h1⟩ ⟨f, h2⟩).2 hk
    · refine ⟨rfl, ?_⟩
      intro f hf
      have : Board.start.ep = none := rfl
      rw [this] at hf; cases hf

/-- an operation of a game with take-backs -/
inductive Op | make (m : Ply) | unmake

/-- run a sequence of operations; a `make` must name a generated move, an `unmake` needs a move to take back
    (`depth` counts the moves made since the start of the run) -/
def run : Board → Nat → List Op → Option (Board × Nat)
  | b, d, [] => some (b, d)
  | b, d, .make m :: ops => if m ∈ b.allMoves then run (b.makeMove m) (d + 1) ops else none
  | b, d, .unmake :: ops => match d with
    | 0 => none
    | d + 1 => run b.unmakeMove d ops

/-- the boards below the current one on the make / unmake stack: each is well-formed with a correct key
    and the next one up arises from it by a generated move -/
def Chain : List Board → Board → Prop
  | [], b => WF b ∧ b.zkey = b.scratchKey
  | p :: rest, b => (∃ m, m ∈ p.allMoves ∧ b = p.makeMove m) ∧ Chain rest p

theorem chain_ok : ∀ (stk : List Board) (b : Board), Chain stk b → WF b ∧ b.zkey = b.scratchKey
  | [], _, h => h
  | p :: rest, b, ⟨⟨m, hm, e⟩, hc⟩ => by
    have ⟨w, k⟩ := chain_ok rest p hc
    subst e
    have := makeMove_ok p m w k hm
    exact ⟨this.2, this.1⟩

theorem run_chain (ops : List Op) : ∀ (stk : List Board) (b b' : Board) (d : Nat), Chain stk b →
    run b stk.length ops = some (b', d) → ∃ stk', Chain stk' b' := by
  induction ops with
  | nil =>
    intro stk b b' d hc h
    simp only [run] at h
    injection h with h; injection h with h1 h2
    subst h1; exact ⟨stk, hc⟩
  | cons op ops ih =>
    intro stk b b' d hc h
    cases op with
    | make m =>
      simp only [run] at h
      split at h
      · rename_i hm
        exact ih (b :: stk) (b.makeMove m) b' d ⟨⟨m, hm, rfl⟩, hc⟩ h
      · cases h
    | unmake =>
      cases stk with
      | nil => simp [run] at h
      | cons p rest =>
        simp only [run, List.length_cons] at h
        obtain ⟨⟨m, hm, e⟩, hc'⟩ := hc
        have hp := chain_ok rest p hc'
        rw [e, unmakeMove_makeMove p m hp.1 hm] at h
        exact ih rest p b' d hc' h

theorem key_ok_run' (b : Board) (ops : List Op) (b' : Board) (d : Nat) (hw : WF b) (hk : b.zkey = b.scratchKey)
    (h : run b 0 ops = some (b', d)) : b'.zkey = b'.scratchKey := by
  obtain ⟨stk', hc⟩ := run_chain ops [] b b' d ⟨hw, hk⟩ h
  exact (chain_ok stk' b' hc).2

end RCE.Proofs.BoardKey
