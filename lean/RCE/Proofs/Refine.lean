import RCE.Proofs.RefineAtt
import RCE.Proofs.BoardKey
import RCE.Proofs.Sliders
/-! C03: `make_move` refines `Rules.apply` on legal-game positions. -/
namespace RCE.Proofs.Refine
open RCE RCE.Proofs.BoardBits RCE.Proofs.BoardWF RCE.Proofs.BoardPBB RCE.Proofs.BoardGen RCE.Proofs.BoardMake
  RCE.Proofs.RefineGen RCE.Proofs.RefineAtt RCE.Proofs.Abs

theorem newRights_iff (m : Ply) (r : Rights) :
    ((newRights m r).wk = true ↔ r.wk = true ∧ (m.piece ≠ ⟨.king, .white⟩ ∧
      (m.piece = ⟨.rook, .white⟩ → m.start ≠ ⟨0,7⟩) ∧ (m.captured = some ⟨.rook, .white⟩ → m.dest ≠ ⟨0,7⟩))) ∧
    ((newRights m r).wq = true ↔ r.wq = true ∧ (m.piece ≠ ⟨.king, .white⟩ ∧
      (m.piece = ⟨.rook, .white⟩ → m.start ≠ ⟨0,0⟩) ∧ (m.captured = some ⟨.rook, .white⟩ → m.dest ≠ ⟨0,0⟩))) ∧
    ((newRights m r).bk = true ↔ r.bk = true ∧ (m.piece ≠ ⟨.king, .black⟩ ∧
      (m.piece = ⟨.rook, .black⟩ → m.start ≠ ⟨7,7⟩) ∧ (m.captured = some ⟨.rook, .black⟩ → m.dest ≠ ⟨7,7⟩))) ∧
    ((newRights m r).bq = true ↔ r.bq = true ∧ (m.piece ≠ ⟨.king, .black⟩ ∧
      (m.piece = ⟨.rook, .black⟩ → m.start ≠ ⟨7,0⟩) ∧ (m.captured = some ⟨.rook, .black⟩ → m.dest ≠ ⟨7,0⟩))) := by
  unfold newRights newRights'
  cases hp : m.piece with
  | mk pk c =>
    rcases hcap : m.captured with _ | ⟨pk', c'⟩
    · cases pk <;> cases c <;> simp only [clr] <;> (repeat' split) <;> simp_all
    · cases pk <;> cases c <;> cases pk' <;> cases c' <;> simp only [clr] <;> (repeat' split) <;> simp_all

theorem touch_iff (b : Board) (hl : Legal b) (m : Ply) (g : Gen b m) (g2 : Gen2 b m)
    (c : Color) (home corner : Square)
    (hking : b.pieceAt home = some ⟨.king, c⟩)
    (hhome : ∀ s : Square, s.rank < 8 → s.file < 8 → b.pieceAt s = some ⟨.king, c⟩ → s = home)
    (hrook : b.pieceAt corner = some ⟨.rook, c⟩) :
    (m.piece ≠ ⟨.king, c⟩ ∧ (m.piece = ⟨.rook, c⟩ → m.start ≠ corner) ∧ (m.captured = some ⟨.rook, c⟩ → m.dest ≠ corner)) ↔
    (m.start ≠ home ∧ m.dest ≠ home ∧ m.start ≠ corner ∧ m.dest ≠ corner) := by
  have hp := g.shape.piece
  constructor
  · rintro ⟨h1, h2, h3⟩
    refine ⟨fun e => ?_, fun e => ?_, fun e => ?_, fun e => ?_⟩
    · rw [e, hking] at hp; injection hp with hp; exact h1 hp.symm
    · rw [← e] at hking; exact no_king_capture b hl m g g2 c hking
    · rw [e, hrook] at hp; injection hp with hp; exact h2 hp.symm e
    · rw [← e] at hrook
      cases he : m.enPassant
      · have := g.cap; rw [he] at this; simp only [Bool.false_eq_true, if_false] at this
        rw [hrook] at this
        exact h3 this e
      · have := (g.shape.ep he).1; rw [hrook] at this; cases this
  · rintro ⟨h1, h2, h3, h4⟩
    refine ⟨fun e => ?_, fun _ => h3, fun _ => h4⟩
    rw [e] at hp
    exact h1 (hhome _ g.irs.1 g.irs.2 hp)

theorem idx_eq_iff (s t : Square) (hs : IR s) (ht : IR t) : s.idx = t.idx ↔ s = t :=
  ⟨idx_inj s t hs ht, fun e => by rw [e]⟩

theorem king_home_w (b : Board) (hl : Legal b) (h : b.rights.wk = true ∨ b.rights.wq = true) :
    b.pieceAt ⟨0,4⟩ = some ⟨.king, .white⟩ := by
  obtain ⟨s, h1, h2, h3⟩ := hl.kings.1
  have := hl.wf.kings.1 h s h1 h2 h3
  rw [← this]; exact h3

theorem king_home_b (b : Board) (hl : Legal b) (h : b.rights.bk = true ∨ b.rights.bq = true) :
    b.pieceAt ⟨7,4⟩ = some ⟨.king, .black⟩ := by
  obtain ⟨s, h1, h2, h3⟩ := hl.kings.2.1
  have := hl.wf.kings.2 h s h1 h2 h3
  rw [← this]; exact h3

def touch (m : Ply) (s : Nat) : Bool := m.start.idx == s || m.dest.idx == s

theorem touch_false {b : Board} (m : Ply) (g : Gen b m) (s : Square) (hs : IR s) :
    ((!touch m s.idx) = true) ↔ (m.start ≠ s ∧ m.dest ≠ s) := by
  unfold touch
  simp only [Bool.not_eq_true', Bool.or_eq_false_iff, beq_eq_false_iff_ne, ne_eq,
    idx_eq_iff _ _ g.irs hs, idx_eq_iff _ _ g.ird hs]

theorem rights_wk (b : Board) (hl : Legal b) (m : Ply) (g : Gen b m) (g2 : Gen2 b m) :
    (newRights m b.rights).wk = (b.rights.wk && !touch m 4 && !touch m 7) := by
  rw [Bool.eq_iff_iff, (newRights_iff m b.rights).1]
  simp only [Bool.and_eq_true]
  have t1 : ((!touch m 4) = true) ↔ _ := touch_false m g ⟨0,4⟩ (by decide)
  have t2 : ((!touch m 7) = true) ↔ _ := touch_false m g ⟨0,7⟩ (by decide)
  rw [t1, t2]
  constructor
  · rintro ⟨hr, h⟩
    have := (touch_iff b hl m g g2 .white ⟨0,4⟩ ⟨0,7⟩ (king_home_w b hl (Or.inl hr)) (hl.wf.kings.1 (Or.inl hr))
      (hl.wf.rights.1 hr)).mp h
    exact ⟨⟨hr, this.1, this.2.1⟩, this.2.2⟩
  · rintro ⟨⟨hr, h1, h2⟩, h3, h4⟩
    exact ⟨hr, (touch_iff b hl m g g2 .white ⟨0,4⟩ ⟨0,7⟩ (king_home_w b hl (Or.inl hr)) (hl.wf.kings.1 (Or.inl hr))
      (hl.wf.rights.1 hr)).mpr ⟨h1, h2, h3, h4⟩⟩

theorem rights_wq (b : Board) (hl : Legal b) (m : Ply) (g : Gen b m) (g2 : Gen2 b m) :
    (newRights m b.rights).wq = (b.rights.wq && !touch m 4 && !touch m 0) := by
  rw [Bool.eq_iff_iff, (newRights_iff m b.rights).2.1]
  simp only [Bool.and_eq_true]
  have t1 : ((!touch m 4) = true) ↔ _ := touch_false m g ⟨0,4⟩ (by decide)
  have t2 : ((!touch m 0) = true) ↔ _ := touch_false m g ⟨0,0⟩ (by decide)
  rw [t1, t2]
  constructor
  · rintro ⟨hr, h⟩
    have := (touch_iff b hl m g g2 .white ⟨0,4⟩ ⟨0,0⟩ (king_home_w b hl (Or.inr hr)) (hl.wf.kings.1 (Or.inr hr))
      (hl.wf.rights.2.1 hr)).mp h
    exact ⟨⟨hr, this.1, this.2.1⟩, this.2.2⟩
  · rintro ⟨⟨hr, h1, h2⟩, h3, h4⟩
    exact ⟨hr, (touch_iff b hl m g g2 .white ⟨0,4⟩ ⟨0,0⟩ (king_home_w b hl (Or.inr hr)) (hl.wf.kings.1 (Or.inr hr))
      (hl.wf.rights.2.1 hr)).mpr ⟨h1, h2, h3, h4⟩⟩

theorem rights_bk (b : Board) (hl : Legal b) (m : Ply) (g : Gen b m) (g2 : Gen2 b m) :
    (newRights m b.rights).bk = (b.rights.bk && !touch m 60 && !touch m 63) := by
  rw [Bool.eq_iff_iff, (newRights_iff m b.rights).2.2.1]
  simp only [Bool.and_eq_true]
  have t1 : ((!touch m 60) = true) ↔ _ := touch_false m g ⟨7,4⟩ (by decide)
  have t2 : ((!touch m 63) = true) ↔ _ := touch_false m g ⟨7,7⟩ (by decide)
  rw [t1, t2]
  constructor
  · rintro ⟨hr, h⟩
    have := (touch_iff b hl m g g2 .black ⟨7,4⟩ ⟨7,7⟩ (king_home_b b hl (Or.inl hr)) (hl.wf.kings.2 (Or.inl hr))
      (hl.wf.rights.2.2.1 hr)).mp h
    exact ⟨⟨hr, this.1, this.2.1⟩, this.2.2⟩
  · rintro ⟨⟨hr, h1, h2⟩, h3, h4⟩
    exact ⟨hr, (touch_iff b hl m g g2 .black ⟨7,4⟩ ⟨7,7⟩ (king_home_b b hl (Or.inl hr)) (hl.wf.kings.2 (Or.inl hr))
      (hl.wf.rights.2.2.1 hr)).mpr ⟨h1, h2, h3, h4⟩⟩

theorem rights_bq (b : Board) (hl : Legal b) (m : Ply) (g : Gen b m) (g2 : Gen2 b m) :
    (newRights m b.rights).bq = (b.rights.bq && !touch m 60 && !touch m 56) := by
  rw [Bool.eq_iff_iff, (newRights_iff m b.rights).2.2.2]
  simp only [Bool.and_eq_true]
  have t1 : ((!touch m 60) = true) ↔ _ := touch_false m g ⟨7,4⟩ (by decide)
  have t2 : ((!touch m 56) = true) ↔ _ := touch_false m g ⟨7,0⟩ (by decide)
  rw [t1, t2]
  constructor
  · rintro ⟨hr, h⟩
    have := (touch_iff b hl m g g2 .black ⟨7,4⟩ ⟨7,0⟩ (king_home_b b hl (Or.inr hr)) (hl.wf.kings.2 (Or.inr hr))
      (hl.wf.rights.2.2.2 hr)).mp h
    exact ⟨⟨hr, this.1, this.2.1⟩, this.2.2⟩
  · rintro ⟨⟨hr, h1, h2⟩, h3, h4⟩
    exact ⟨hr, (touch_iff b hl m g g2 .black ⟨7,4⟩ ⟨7,0⟩ (king_home_b b hl (Or.inr hr)) (hl.wf.kings.2 (Or.inr hr))
      (hl.wf.rights.2.2.2 hr)).mpr ⟨h1, h2, h3, h4⟩⟩


/-! ### the rules side -/

theorem pos_ext (p q : Rules.Pos) (h1 : p.board = q.board) (h2 : p.turn = q.turn) (h3 : p.wk = q.wk) (h4 : p.wq = q.wq)
    (h5 : p.bk = q.bk) (h6 : p.bq = q.bq) (h7 : p.ep = q.ep) (h8 : p.half = q.half) (h9 : p.full = q.full) : p = q := by
  cases p; cases q; simp only at *; subst_vars; rfl

def tab (f : Nat → Option Rules.Piece) : Array (Option Rules.Piece) := (Array.range 64).map f

theorem tab_congr (f g : Nat → Option Rules.Piece) (h : ∀ i, i < 64 → f i = g i) : tab f = tab g := by
  unfold tab
  apply Array.ext
  · simp
  · intro i h1 h2
    simp only [Array.size_map, Array.size_range] at h1
    simp [h i h1]

theorem tab_get? (f : Nat → Option Rules.Piece) (i : Nat) : (tab f)[i]? = if i < 64 then some (f i) else none := by
  unfold tab
  by_cases h : i < 64 <;> simp [h]

theorem tab_set (f : Nat → Option Rules.Piece) (j : Nat) (v : Option Rules.Piece) :
    (tab f).setIfInBounds j v = tab (fun i => if i = j then v else f i) := by
  apply Array.ext_getElem?
  intro i
  rw [Array.getElem?_setIfInBounds, tab_get?, tab_get?]
  have : (tab f).size = 64 := by simp [tab]
  rw [this]
  by_cases e : j = i
  · subst e; simp
  · have e' : ¬ i = j := fun h => e h.symm
    simp [e, e']

theorem tab_getD (f : Nat → Option Rules.Piece) (i : Nat) (hi : i < 64) : (tab f).getD i none = f i := by
  unfold tab
  rw [Array.getD_eq_getD_getElem?]
  simp [hi]

def absFn (b : Board) : Nat → Option Rules.Piece := fun i => (b.pieceAt (Square.ofIdx i)).map absPiece

theorem abs_board (b : Board) : (abs b).board = tab (absFn b) := rfl

theorem abs_at (b : Board) (s : Square) (hs : IR s) : (abs b).at s.idx = (b.pieceAt s).map absPiece := by
  unfold Rules.Pos.at
  rw [abs_board, tab_getD _ _ (idx_lt s hs)]
  unfold absFn
  rw [ofIdx_of_idx s hs]

theorem apply_eq (p : Rules.Pos) (m : Rules.Move) (pc : Rules.Piece) (h : p.at m.src = some pc) :
    Rules.apply p m =
      (let c := pc.color
      let isPawn := pc.kind == .pawn
      let isEp := isPawn && m.src % 8 != m.dst % 8 && (p.at m.dst).isNone
      let isCapture := (p.at m.dst).isSome || isEp
      let isCastle := pc.kind == .king && (m.dst == m.src + 2 || m.dst + 2 == m.src)
      let b := p.board.setIfInBounds m.src none
      let b := if isEp then b.setIfInBounds ((m.src / 8) * 8 + m.dst % 8) none else b
      let placed : Rules.Piece := match m.promo with | some k => ⟨c, k⟩ | none => pc
      let b := b.setIfInBounds m.dst (some placed)
      let b := if isCastle then
          if m.dst > m.src then (b.setIfInBounds (m.src + 3) none).setIfInBounds (m.src + 1) (some ⟨c, .rook⟩)
          else (b.setIfInBounds (m.src - 4) none).setIfInBounds (m.src - 1) (some ⟨c, .rook⟩)
        else b
      let touch (s : Nat) := m.src == s || m.dst == s
      { board := b
        turn := c.opp
        wk := p.wk && !touch 4 && !touch 7
        wq := p.wq && !touch 4 && !touch 0
        bk := p.bk && !touch 60 && !touch 63
        bq := p.bq && !touch 60 && !touch 56
        ep := if isPawn && (m.dst == m.src + 16 || m.dst + 16 == m.src) then some (m.src % 8) else none
        half := if isPawn || isCapture then 0 else p.half + 1
        full := if c == .black then p.full + 1 else p.full }) := by
  unfold Rules.apply
  rw [h]
  rfl


theorem isPawn_eq (k : Kind) : ((absPiece k).kind == Rules.Kind.pawn) = (k.pk == .pawn) := by
  obtain ⟨pk, c⟩ := k; cases pk <;> rfl
theorem isKing_eq (k : Kind) : ((absPiece k).kind == Rules.Kind.king) = (k.pk == .king) := by
  obtain ⟨pk, c⟩ := k; cases pk <;> rfl
theorem idx_mod (s : Square) (hs : IR s) : s.idx % 8 = s.file := by
  unfold Square.idx; have := hs.2; omega
theorem idx_div (s : Square) (hs : IR s) : s.idx / 8 = s.rank := by
  unfold Square.idx; have := hs.2; omega

theorem ofIdx_eq_iff (i : Nat) (_hi : i < 64) (s : Square) (hs : IR s) : Square.ofIdx i = s ↔ i = s.idx := by
  constructor
  · intro e; rw [← e, ofIdx_idx]
  · intro e; rw [e, ofIdx_of_idx s hs]

theorem isEp_eq (b : Board) (m : Ply) (g : Gen b m) (g2 : Gen2 b m) :
    ((absPiece m.piece).kind == Rules.Kind.pawn && m.start.idx % 8 != m.dest.idx % 8 &&
      ((abs b).at m.dest.idx).isNone) = m.enPassant := by
  rw [isPawn_eq, abs_at b _ g.ird, idx_mod _ g.irs, idx_mod _ g.ird]
  cases he : m.enPassant
  · by_cases hp : m.piece.pk = .pawn
    · by_cases hf : m.dest.file = m.start.file
      · simp [hf]
      · have := g2.pdiag hp he hf
        cases h : b.pieceAt m.dest
        · exact absurd h this
        · simp
    · have h1 : (m.piece.pk == PK.pawn) = false := by simpa using hp
      rw [h1]; rfl
  · obtain ⟨h1, -, -, h4, -⟩ := g.shape.ep he
    have hp := (g2.epf he).2
    rw [hp, h1]
    simp
    exact fun e => h4 e.symm

set_option maxRecDepth 100000 in
theorem king_geo : ∀ i s : Fin 64, testBit (kingAttacks i.val) s.val = true → s.val ≠ i.val + 2 ∧ s.val + 2 ≠ i.val := by
  decide +kernel

theorem isCastle_eq (b : Board) (m : Ply) (g : Gen b m) (g2 : Gen2 b m) :
    ((absPiece m.piece).kind == Rules.Kind.king && (m.dest.idx == m.start.idx + 2 || m.dest.idx + 2 == m.start.idx))
      = m.isCastles := by
  rw [isKing_eq]
  cases hc : m.isCastles
  · by_cases hk : m.piece.pk = .king
    · have := g2.kingAdj hk hc
      have := king_geo ⟨_, idx_lt _ g.irs⟩ ⟨_, idx_lt _ g.ird⟩ this
      simp only at this
      simp [hk, this.1, this.2]
    · have h1 : (m.piece.pk == PK.king) = false := by simpa using hk
      rw [h1]; rfl
  · obtain ⟨-, -, -, h4, h5⟩ := g.shape.castle hc
    rw [h4]
    rcases h5 with ⟨-, s, d, -⟩ | ⟨-, s, d, -⟩ | ⟨-, s, d, -⟩ | ⟨-, s, d, -⟩ <;> rw [s, d] <;> decide

theorem placed_eq (b : Board) (m : Ply) (g : Gen b m) (g2 : Gen2 b m) :
    (match (absMove m).promo with
      | some k => ({ color := (absPiece m.piece).color, kind := k } : Rules.Piece)
      | none => absPiece m.piece) = absPiece (m.promoted.getD m.piece) := by
  show (match m.promoted.map (fun k => absPK k.pk) with
      | some k => ({ color := (absPiece m.piece).color, kind := k } : Rules.Piece)
      | none => absPiece m.piece) = absPiece (m.promoted.getD m.piece)
  cases hp : m.promoted with
  | none => rfl
  | some q =>
    simp only [Option.map_some, Option.getD_some]
    have := g2.promo q hp
    unfold absPiece
    rw [g.shape.color, this]

theorem castle_pointwise (old : Square → Option Kind) (ks kd rs rd : Square)
    (h1 : IR ks) (h2 : IR kd) (h3 : IR rs) (h4 : IR rd) (king rook : Kind) (i : Nat) (hi : i < 64) :
    (viewMove (viewMove old ks kd king none false) rs rd rook none false (Square.ofIdx i)).map absPiece =
      if i = rd.idx then some (absPiece rook) else if i = rs.idx then none else
      if i = kd.idx then some (absPiece king) else if i = ks.idx then none else (old (Square.ofIdx i)).map absPiece := by
  unfold viewMove capSq
  simp only [ofIdx_eq_iff i hi _ h1, ofIdx_eq_iff i hi _ h2, ofIdx_eq_iff i hi _ h3, ofIdx_eq_iff i hi _ h4,
    Bool.false_eq_true, if_false, Option.getD_none]
  by_cases e1 : i = rd.idx
  · simp [e1]
  · by_cases e2 : i = rs.idx
    · subst e2; simp [e1]
    · by_cases e3 : i = kd.idx
      · subst e3; simp [e1, e2]
      · by_cases e4 : i = ks.idx
        · subst e4; simp [e1, e2, e3]
        · simp [e1, e2, e3, e4]

theorem normal_pointwise (old : Square → Option Kind) (st d : Square) (h1 : IR st) (h2 : IR d)
    (mv : Kind) (pr : Option Kind) (i : Nat) (hi : i < 64) :
    (viewMove old st d mv pr false (Square.ofIdx i)).map absPiece =
      if i = d.idx then some (absPiece (pr.getD mv)) else if i = st.idx then none else (old (Square.ofIdx i)).map absPiece := by
  unfold viewMove capSq
  simp only [ofIdx_eq_iff i hi _ h1, ofIdx_eq_iff i hi _ h2, Bool.false_eq_true, if_false]
  by_cases e1 : i = d.idx
  · simp [e1]
  · by_cases e2 : i = st.idx
    · subst e2; simp [e1]
    · simp [e1, e2]

theorem ep_pointwise (old : Square → Option Kind) (st d : Square) (h1 : IR st) (h2 : IR d)
    (mv : Kind) (pr : Option Kind) (i : Nat) (hi : i < 64) :
    (viewMove old st d mv pr true (Square.ofIdx i)).map absPiece =
      if i = d.idx then some (absPiece (pr.getD mv)) else if i = st.idx / 8 * 8 + d.idx % 8 then none
      else if i = st.idx then none else (old (Square.ofIdx i)).map absPiece := by
  unfold viewMove capSq
  have h3 : IR ⟨st.rank, d.file⟩ := ⟨h1.1, h2.2⟩
  have : (⟨st.rank, d.file⟩ : Square).idx = st.idx / 8 * 8 + d.idx % 8 := by
    rw [idx_div _ h1, idx_mod _ h2]; rfl
  simp only [ofIdx_eq_iff i hi _ h1, ofIdx_eq_iff i hi _ h2, ofIdx_eq_iff i hi _ h3, if_true, this]
  by_cases e1 : i = d.idx
  · simp [e1]
  · by_cases e2 : i = st.idx
    · subst e2; simp [e1]
    · by_cases e3 : i = st.idx / 8 * 8 + d.idx % 8
      · subst e3; simp [e1, e2]
      · simp [e1, e2, e3]


theorem ep_eq (b : Board) (m : Ply) (g : Gen b m) (g2 : Gen2 b m) :
    newEp m = if (m.piece.pk == .pawn && (m.dest.idx == m.start.idx + 16 || m.dest.idx + 16 == m.start.idx)) = true
      then some (m.start.idx % 8) else none := by
  have hs := g.irs.2
  have hd := g.ird.2
  unfold newEp
  cases hdp : m.isDoublePush
  · simp only [Bool.false_eq_true, if_false]
    rw [if_neg]
    intro h
    simp only [Bool.and_eq_true, Bool.or_eq_true, beq_iff_eq] at h
    have := g2.prank h.1 hdp
    have h2 := h.2
    unfold Square.idx at h2
    split at this <;> omega
  · obtain ⟨d1, -, -, -, d5, d6⟩ := g.shape.dp hdp
    simp only [if_true]
    rw [if_pos, idx_mod _ g.irs, d5]
    simp only [Bool.and_eq_true, Bool.or_eq_true, beq_iff_eq]
    refine ⟨d1, ?_⟩
    unfold Square.idx
    split at d6 <;> omega

theorem half_eq (b : Board) (m : Ply) (g : Gen b m) (g2 : Gen2 b m) :
    newClock b m = if (m.piece.pk == .pawn || (((b.pieceAt m.dest).map absPiece).isSome ||
        (m.piece.pk == .pawn && m.start.idx % 8 != m.dest.idx % 8 && ((b.pieceAt m.dest).map absPiece).isNone))) = true
      then 0 else b.halfmove + 1 := by
  unfold newClock
  by_cases hp : m.piece.pk = .pawn
  · simp [hp]
  · have h1 : (m.piece.pk == PK.pawn) = false := by simpa using hp
    have := g.cap
    rw [(g2.nonpawn hp).1] at this
    simp only [Bool.false_eq_true, if_false] at this
    rw [h1, this]
    simp [Board.halfmove]

theorem crs06 : castleRookSquares ⟨0,6⟩ = some (⟨0,7⟩, ⟨0,5⟩) := by decide
theorem crs02 : castleRookSquares ⟨0,2⟩ = some (⟨0,0⟩, ⟨0,3⟩) := by decide
theorem crs76 : castleRookSquares ⟨7,6⟩ = some (⟨7,7⟩, ⟨7,5⟩) := by decide
theorem crs72 : castleRookSquares ⟨7,2⟩ = some (⟨7,0⟩, ⟨7,3⟩) := by decide

theorem board_eq (b : Board) (m : Ply) (hl : Legal b) (g : Gen b m) (P : Rules.Piece)
    (hP : P = absPiece (m.promoted.getD m.piece)) :
    (abs (b.makeMove m)).board =
      if m.isCastles = true then
        if (absMove m).dst > (absMove m).src then
          (((if m.enPassant = true then
              ((abs b).board.setIfInBounds (absMove m).src none).setIfInBounds
                ((absMove m).src / 8 * 8 + (absMove m).dst % 8) none
            else (abs b).board.setIfInBounds (absMove m).src none).setIfInBounds (absMove m).dst
              (some P)).setIfInBounds ((absMove m).src + 3) none).setIfInBounds
            ((absMove m).src + 1) (some { color := (absPiece m.piece).color, kind := Rules.Kind.rook })
        else
          (((if m.enPassant = true then
              ((abs b).board.setIfInBounds (absMove m).src none).setIfInBounds
                ((absMove m).src / 8 * 8 + (absMove m).dst % 8) none
            else (abs b).board.setIfInBounds (absMove m).src none).setIfInBounds (absMove m).dst
              (some P)).setIfInBounds ((absMove m).src - 4) none).setIfInBounds
            ((absMove m).src - 1) (some { color := (absPiece m.piece).color, kind := Rules.Kind.rook })
      else
        (if m.enPassant = true then
            ((abs b).board.setIfInBounds (absMove m).src none).setIfInBounds
              ((absMove m).src / 8 * 8 + (absMove m).dst % 8) none
          else (abs b).board.setIfInBounds (absMove m).src none).setIfInBounds (absMove m).dst
            (some P) := by
  subst hP
  have hw := hl.wf
  obtain ⟨-, vb, -⟩ := bbs_ok b hw m g
  have hbbs : (b.makeMove m).bbs = newBBS b m := by rw [makeMove_eq]; rfl
  have hfin : ∀ i, i < 64 → absFn (b.makeMove m) i = (finalView b m (Square.ofIdx i)).map absPiece := by
    intro i hi
    unfold absFn Board.pieceAt
    rw [hbbs, vb _ (ofIdx_IR i hi)]
  have hsrc : (absMove m).src = m.start.idx := rfl
  have hdst : (absMove m).dst = m.dest.idx := rfl
  rw [abs_board, abs_board, hsrc, hdst]
  cases hc : m.isCastles
  · have hfv : finalView b m = viewMove b.bbs.pieceAt m.start m.dest m.piece m.promoted m.enPassant := by
      unfold finalView castleView; rw [hc]; rfl
    simp only [Bool.false_eq_true, if_false]
    cases he : m.enPassant
    · simp only [Bool.false_eq_true, if_false, tab_set]
      apply tab_congr
      intro i hi
      rw [hfin i hi, hfv, he, normal_pointwise _ _ _ g.irs g.ird _ _ i hi]
      rfl
    · simp only [if_true, tab_set]
      apply tab_congr
      intro i hi
      rw [hfin i hi, hfv, he, ep_pointwise _ _ _ g.irs g.ird _ _ i hi]
      rfl
  · obtain ⟨h1, -, h3, h4, h5⟩ := g.shape.castle hc
    have hcol := g.shape.color
    have hrook : ({ color := (absPiece m.piece).color, kind := Rules.Kind.rook } : Rules.Piece) = absPiece ⟨.rook, b.turn⟩ := by
      unfold absPiece; rw [hcol]; rfl
    rw [h1, h3, hrook]
    simp only [Bool.false_eq_true, if_false, if_true, Option.getD_none]
    rcases h5 with ⟨-, s, d, -⟩ | ⟨-, s, d, -⟩ | ⟨-, s, d, -⟩ | ⟨-, s, d, -⟩
    · have hfv : finalView b m = viewMove (viewMove b.bbs.pieceAt ⟨0,4⟩ ⟨0,6⟩ m.piece none false) ⟨0,7⟩ ⟨0,5⟩ ⟨.rook, b.turn⟩ none false := by
        unfold finalView castleView; rw [hc, d, s, h1, h3]; rfl
      rw [s, d, if_pos (by decide)]
      simp only [tab_set]
      apply tab_congr
      intro i hi
      rw [hfin i hi, hfv, castle_pointwise _ _ _ _ _ (by decide) (by decide) (by decide) (by decide) _ _ i hi]
      rfl
    · have hfv : finalView b m = viewMove (viewMove b.bbs.pieceAt ⟨0,4⟩ ⟨0,2⟩ m.piece none false) ⟨0,0⟩ ⟨0,3⟩ ⟨.rook, b.turn⟩ none false := by
        unfold finalView castleView; rw [hc, d, s, h1, h3]; rfl
      rw [s, d, if_neg (by decide)]
      simp only [tab_set]
      apply tab_congr
      intro i hi
      rw [hfin i hi, hfv, castle_pointwise _ _ _ _ _ (by decide) (by decide) (by decide) (by decide) _ _ i hi]
      rfl
    · have hfv : finalView b m = viewMove (viewMove b.bbs.pieceAt ⟨7,4⟩ ⟨7,6⟩ m.piece none false) ⟨7,7⟩ ⟨7,5⟩ ⟨.rook, b.turn⟩ none false := by
        unfold finalView castleView; rw [hc, d, s, h1, h3]; rfl
      rw [s, d, if_pos (by decide)]
      simp only [tab_set]
      apply tab_congr
      intro i hi
      rw [hfin i hi, hfv, castle_pointwise _ _ _ _ _ (by decide) (by decide) (by decide) (by decide) _ _ i hi]
      rfl
    · have hfv : finalView b m = viewMove (viewMove b.bbs.pieceAt ⟨7,4⟩ ⟨7,2⟩ m.piece none false) ⟨7,0⟩ ⟨7,3⟩ ⟨.rook, b.turn⟩ none false := by
        unfold finalView castleView; rw [hc, d, s, h1, h3]; rfl
      rw [s, d, if_neg (by decide)]
      simp only [tab_set]
      apply tab_congr
      intro i hi
      rw [hfin i hi, hfv, castle_pointwise _ _ _ _ _ (by decide) (by decide) (by decide) (by decide) _ _ i hi]
      rfl

theorem make_refines'  (b : Board) (m : Ply) (hl : Legal b) (hm : m ∈ b.allMoves) :
    abs (b.makeMove m) = Rules.apply (abs b) (absMove m) := by
  have hw := hl.wf
  have g := gen_of_mem b hw m hm
  have g2 := gen2_of_mem b hw m hm
  have hat : (abs b).at (absMove m).src = some (absPiece m.piece) := by
    show (abs b).at m.start.idx = _
    rw [abs_at b _ g.irs, g.shape.piece]; rfl
  have hturn : (b.makeMove m).turn = b.turn.opp := by rw [makeMove_eq]
  have hfull : (b.makeMove m).fullmove = if b.turn.opp == .white then b.fullmove + 1 else b.fullmove := by rw [makeMove_eq]
  have hep : (b.makeMove m).ep = newEp m := by rw [makeMove_eq]
  have hrt : (b.makeMove m).rights = newRights m b.rights := by rw [makeMove_eq]; rfl
  have hclk : (b.makeMove m).halfmove = newClock b m := by rw [makeMove_eq]; rfl
  rw [apply_eq _ _ _ hat]
  apply pos_ext <;> dsimp only
  · have hC : ((absPiece m.piece).kind == Rules.Kind.king &&
        ((absMove m).dst == (absMove m).src + 2 || (absMove m).dst + 2 == (absMove m).src)) = m.isCastles :=
      isCastle_eq b m g g2
    have hE : ((absPiece m.piece).kind == Rules.Kind.pawn && (absMove m).src % 8 != (absMove m).dst % 8 &&
        ((abs b).at (absMove m).dst).isNone) = m.enPassant := isEp_eq b m g g2
    rw [hC, hE]
    exact board_eq b m hl g _ (placed_eq b m g g2)
  · show absColor (b.makeMove m).turn = (absColor m.piece.color).opp
    rw [hturn, g.shape.color]; cases b.turn <;> rfl
  · show (b.makeMove m).rights.wk = (b.rights.wk && !touch m 4 && !touch m 7)
    rw [hrt]; exact rights_wk b hl m g g2
  · show (b.makeMove m).rights.wq = (b.rights.wq && !touch m 4 && !touch m 0)
    rw [hrt]; exact rights_wq b hl m g g2
  · show (b.makeMove m).rights.bk = (b.rights.bk && !touch m 60 && !touch m 63)
    rw [hrt]; exact rights_bk b hl m g g2
  · show (b.makeMove m).rights.bq = (b.rights.bq && !touch m 60 && !touch m 56)
    rw [hrt]; exact rights_bq b hl m g g2
  · show (b.makeMove m).ep = _
    rw [hep, isPawn_eq]
    exact ep_eq b m g g2
  · show (b.makeMove m).halfmove = _
    rw [hclk, isPawn_eq]
    have : (abs b).at (absMove m).dst = (b.pieceAt m.dest).map absPiece := abs_at b _ g.ird
    rw [this]
    exact half_eq b m g g2
  · show (b.makeMove m).fullmove = if (absColor m.piece.color == Rules.Color.black) = true then b.fullmove + 1 else b.fullmove
    rw [hfull, g.shape.color]; cases b.turn <;> rfl

/-! ### legality is preserved -/

theorem finalView_dest (b : Board) (hw : WF b) (m : Ply) (g : Gen b m) :
    finalView b m m.dest = some (m.promoted.getD m.piece) := by
  unfold finalView castleView
  cases hc : m.isCastles
  · simp only [Bool.false_eq_true, if_false]
    unfold viewMove; rw [if_pos rfl]
  · obtain ⟨rs, rd, hcr, -, -, -, -, n2, -, n4, -⟩ := castle_squares b hw m g hc
    simp only [if_true, hcr]
    unfold viewMove
    rw [if_neg (Ne.symm n4), if_neg (Ne.symm n2)]
    simp only [capSq, Bool.false_eq_true, if_false, if_neg (Ne.symm n4), if_true]

theorem finalView_start (b : Board) (hw : WF b) (m : Ply) (g : Gen b m) :
    finalView b m m.start = none := by
  unfold finalView castleView
  cases hc : m.isCastles
  · simp only [Bool.false_eq_true, if_false]
    unfold viewMove; rw [if_neg g.ne, if_pos rfl]
  · obtain ⟨rs, rd, hcr, -, -, -, n1, -, n3, -, -⟩ := castle_squares b hw m g hc
    simp only [if_true, hcr]
    unfold viewMove
    rw [if_neg (Ne.symm n3), if_neg (Ne.symm n1)]
    simp only [capSq, Bool.false_eq_true, if_false, if_neg (Ne.symm n3), if_neg g.ne, if_true]

theorem finalView_keep (b : Board) (hw : WF b) (m : Ply) (g : Gen b m) (s : Square) (k : Kind)
    (hk : b.pieceAt s = some k) (h1 : s ≠ m.start) (h2 : s ≠ m.dest)
    (h3 : m.enPassant = true → s ≠ ⟨m.start.rank, m.dest.file⟩) (h4 : k ≠ ⟨.rook, b.turn⟩) :
    finalView b m s = some k := by
  have hv : viewMove b.bbs.pieceAt m.start m.dest m.piece m.promoted m.enPassant s = some k := by
    unfold viewMove
    rw [if_neg h2, if_neg h1]
    cases he : m.enPassant
    · simp only [capSq, Bool.false_eq_true, if_false, if_neg h2]; exact hk
    · simp only [capSq, if_true, if_neg (h3 he)]; exact hk
  unfold finalView castleView
  cases hc : m.isCastles
  · simpa using hv
  · obtain ⟨rs, rd, hcr, -, -, -, -, -, -, -, hr, hrd, -⟩ := castle_squares b hw m g hc
    simp only [if_true, hcr]
    have m1 : s ≠ rs := by
      intro e; rw [e] at hk
      have : b.bbs.pieceAt rs = some k := hk
      rw [hr] at this; injection this with this; exact h4 this.symm
    have m2 : s ≠ rd := by
      intro e; rw [e] at hk
      have : b.bbs.pieceAt rd = some k := hk
      rw [hrd] at this; cases this
    unfold viewMove
    rw [if_neg m2, if_neg m1]
    simp only [capSq, Bool.false_eq_true, if_false, if_neg m2]
    exact hv

/-- the king of colour `c` after a generated move from a legal-game position -/
theorem king_after (b : Board) (hl : Legal b) (m : Ply) (g : Gen b m) (g2 : Gen2 b m) (c : Color)
    (hex : ∃ s : Square, s.rank < 8 ∧ s.file < 8 ∧ b.pieceAt s = some ⟨.king, c⟩)
    (hun : ∀ s t : Square, s.rank < 8 → s.file < 8 → t.rank < 8 → t.file < 8 →
      b.pieceAt s = some ⟨.king, c⟩ → b.pieceAt t = some ⟨.king, c⟩ → s = t) :
    (∃ s : Square, s.rank < 8 ∧ s.file < 8 ∧ finalView b m s = some ⟨.king, c⟩) ∧
    (∀ s t : Square, s.rank < 8 → s.file < 8 → t.rank < 8 → t.file < 8 →
      finalView b m s = some ⟨.king, c⟩ → finalView b m t = some ⟨.king, c⟩ → s = t) := by
  have hw := hl.wf
  obtain ⟨s0, a1, a2, a3⟩ := hex
  have hp := g.shape.piece
  -- a move whose new occupant of `dest` is the king of colour c is a move of that king
  have mover : m.promoted.getD m.piece = ⟨.king, c⟩ → m.piece = ⟨.king, c⟩ := by
    intro h
    cases hq : m.promoted with
    | none => rw [hq] at h; exact h
    | some q =>
      rw [hq] at h; simp only [Option.getD_some] at h
      have := g.shape.promo q hq
      rw [h] at this; exact absurd rfl this
  have old_or : ∀ s : Square, finalView b m s = some ⟨.king, c⟩ →
      (s = m.dest ∧ m.piece = ⟨.king, c⟩) ∨ b.pieceAt s = some ⟨.king, c⟩ := by
    intro s h
    rcases finalView_some b m s _ h with ⟨e1, e2⟩ | e | e
    · exact Or.inl ⟨e1, mover e2.symm⟩
    · cases e
    · exact Or.inr e
  constructor
  · by_cases hk : m.piece = ⟨.king, c⟩
    · refine ⟨m.dest, g.ird.1, g.ird.2, ?_⟩
      rw [finalView_dest b hw m g]
      have : m.promoted = none := (g2.nonpawn (by rw [hk]; exact fun h => by cases h)).2.2
      rw [this, hk]; rfl
    · refine ⟨s0, a1, a2, ?_⟩
      apply finalView_keep b hw m g s0 _ a3
      · intro e; rw [e, hp] at a3; injection a3 with a3; exact hk a3
      · intro e; rw [e] at a3; exact no_king_capture b hl m g g2 c a3
      · intro he e
        obtain ⟨f1, f2⟩ := g2.epf he
        obtain ⟨-, f3, -⟩ := hw.ep.2 _ f1
        obtain ⟨-, f4, -⟩ := g.shape.ep he
        rw [← f4, ← e, a3] at f3
        cases f3
      · exact fun h => by cases h
  · intro s t s1 s2 t1 t2 hs ht
    rcases old_or s hs with ⟨e1, k1⟩ | e1 <;> rcases old_or t ht with ⟨e2, k2⟩ | e2
    · rw [e1, e2]
    · exfalso
      rw [k1] at hp
      have := hun _ _ t1 t2 g.irs.1 g.irs.2 e2 hp
      rw [this, finalView_start b hw m g] at ht; cases ht
    · exfalso
      rw [k2] at hp
      have := hun _ _ s1 s2 g.irs.1 g.irs.2 e1 hp
      rw [this, finalView_start b hw m g] at hs; cases hs
    · exact hun s t s1 s2 t1 t2 e1 e2

theorem make_legal' (b : Board) (m : Ply) (hl : Legal b) (hm : m ∈ b.legalMovesPure) : Legal (b.makeMove m) := by
  unfold Board.legalMovesPure at hm
  rw [List.mem_filter] at hm
  obtain ⟨hm, hchk⟩ := hm
  have hw := hl.wf
  have g := gen_of_mem b hw m hm
  have g2 := gen2_of_mem b hw m hm
  obtain ⟨-, vb, -⟩ := bbs_ok b hw m g
  have hbbs : (b.makeMove m).bbs = newBBS b m := by rw [makeMove_eq]; rfl
  have hturn : (b.makeMove m).turn = b.turn.opp := by rw [makeMove_eq]
  have hv : ∀ s : Square, s.rank < 8 → s.file < 8 → (b.makeMove m).pieceAt s = finalView b m s := by
    intro s h1 h2
    unfold Board.pieceAt; rw [hbbs]; exact vb s ⟨h1, h2⟩
  refine ⟨makeMove_wf b m hw g, ?_, ?_⟩
  · obtain ⟨k1, k2, k3⟩ := hl.kings
    obtain ⟨w1, w2⟩ := king_after b hl m g g2 .white k1 (fun s t a b c d => k3 s t a b c d .white)
    obtain ⟨b1, b2⟩ := king_after b hl m g g2 .black k2 (fun s t a b c d => k3 s t a b c d .black)
    refine ⟨?_, ?_, ?_⟩
    · obtain ⟨s, a1, a2, a3⟩ := w1
      exact ⟨s, a1, a2, by rw [hv s a1 a2]; exact a3⟩
    · obtain ⟨s, a1, a2, a3⟩ := b1
      exact ⟨s, a1, a2, by rw [hv s a1 a2]; exact a3⟩
    · intro s t s1 s2 t1 t2 c hs ht
      rw [hv s s1 s2] at hs; rw [hv t t1 t2] at ht
      cases c
      · exact w2 s t s1 s2 t1 t2 hs ht
      · exact b2 s t s1 s2 t1 t2 hs ht
  · rw [hturn, RefineAtt.opp_opp, ← g.shape.color]
    simpa using hchk

/-! ### the start position, the repetition record -/

section
open RCE.Proofs.SliderCheck

def rookF (sq : Nat) (occ : BB) : BB :=
  slowFast sq (rookCfg sq).D1 (rookCfg sq).D2 (rookCfg sq).D3 (rookCfg sq).D4 (occ &&& rookMask sq)
def bishopF (sq : Nat) (occ : BB) : BB :=
  slowFast sq (bishopCfg sq).D1 (bishopCfg sq).D2 (bishopCfg sq).D3 (bishopCfg sq).D4 (occ &&& bishopMask sq)

theorem rookAttacks_eq (sq : Nat) (h : sq < 64) (occ : BB) : rookAttacks sq occ = rookF sq occ := by
  unfold rookAttacks rookF
  rw [Sliders.rook_lookup_eq sq occ h, Sliders.rookSlow_fast]; rfl
theorem bishopAttacks_eq (sq : Nat) (h : sq < 64) (occ : BB) : bishopAttacks sq occ = bishopF sq occ := by
  unfold bishopAttacks bishopF
  rw [Sliders.bishop_lookup_eq sq occ h, Sliders.bishopSlow_fast]; rfl

/-- `kindAttacks` with the magic lookups replaced by the table-free ray walk (kernel-evaluable) -/
def kindAttacksF (k : Kind) (sq : Nat) (occ : BB) : BB :=
  match k.pk with
  | .pawn => pawnAttacks (k.color == .white) sq
  | .king => kingAttacks sq
  | .queen => rookF sq occ ||| bishopF sq occ
  | .rook => rookF sq occ
  | .bishop => bishopF sq occ
  | .knight => knightAttacks sq

theorem kindAttacks_eq (k : Kind) (sq : Nat) (h : sq < 64) (occ : BB) : kindAttacks k sq occ = kindAttacksF k sq occ := by
  obtain ⟨pk, c⟩ := k
  cases pk <;> simp only [kindAttacks, kindAttacksF, queenAttacks, rookAttacks_eq sq h, bishopAttacks_eq sq h]

def contribF (b : Board) (c : Color) (sq : Nat) : BB :=
  if attackersBB b c &&& bit sq == 0 then 0
  else match b.pieceAt (Square.ofIdx sq) with
    | some p => kindAttacksF p sq b.bbs.all
    | none => 0

theorem contrib_eq (b : Board) (c : Color) (sq : Nat) (h : sq < 64) : contrib b c sq = contribF b c sq := by
  unfold contrib contribF
  split
  · rfl
  · cases b.pieceAt (Square.ofIdx sq) with
    | none => rfl
    | some p => simp only [kindAttacks_eq p sq h]

set_option maxRecDepth 100000 in
theorem start_contrib : ∀ sq : Fin 64, testBit (contribF Board.start .black sq.val) 60 = false := by decide +kernel


theorem start_att60 : testBit (Board.start.attackedSquares .black) 60 = false := by
  cases h : testBit (Board.start.attackedSquares .black) 60
  · rfl
  · obtain ⟨sq, h1, h2⟩ := (attacked_iff _ _ 60 (by decide)).mp h
    rw [contrib_eq _ _ _ h1, start_contrib ⟨sq, h1⟩] at h2; cases h2

set_option maxRecDepth 100000 in
theorem start_bk : ∀ i : Fin 64, i.val ≠ 60 → testBit Board.start.bbs.bk i.val = false := by decide +kernel

theorem start_safe : Board.start.isInCheck .black = false := by
  show (Board.start.bbs.bk &&& Board.start.attackedSquares .black != 0) = false
  simp only [bne_eq_false_iff_eq]
  rw [eq_zero_iff]
  intro i hi
  rw [testBit_and _ _ _ hi]
  by_cases e : i = 60
  · subst e; rw [start_att60]; simp
  · rw [start_bk ⟨i, hi⟩ e]; rfl

theorem start_legal' : Legal Board.start := by
  refine ⟨BoardKey.start_ok'.2, ⟨?_, ?_, ?_⟩, start_safe⟩
  · exact ⟨⟨0,4⟩, by decide, by decide, by show PBB.start.pieceAt _ = _; decide⟩
  · exact ⟨⟨7,4⟩, by decide, by decide, by show PBB.start.pieceAt _ = _; decide⟩
  · intro s t s1 s2 t1 t2 c hs ht
    obtain ⟨sr, sf⟩ := s
    obtain ⟨tr, tf⟩ := t
    have a := BoardKey.start_kings_fin ⟨sr, s1⟩ ⟨sf, s2⟩
    have b := BoardKey.start_kings_fin ⟨tr, t1⟩ ⟨tf, t2⟩
    cases c
    · rw [a.1 hs, b.1 ht]
    · rw [a.2 hs, b.2 ht]

theorem posHist_make (b : Board) (m : Ply) : (b.makeMove m).posHist = b.zkey :: b.posHist := by
  rw [makeMove_eq]

theorem repetition_record' (b : Board) (ms : List Ply) :
    (ms.foldl Board.makeMove b).posHist =
      ((List.range ms.length).map fun i => ((ms.take i).foldl Board.makeMove b).zkey).reverse ++ b.posHist := by
  induction ms generalizing b with
  | nil => simp
  | cons m ms ih =>
    rw [List.foldl_cons, ih, posHist_make, List.length_cons, List.range_succ_eq_map]
    simp [List.map_map, Function.comp_def]


end

end RCE.Proofs.Refine
