import RCE.Model.Board
/-! Bit-level lemmas: `testBit` as the observation of a `UInt64`, extensionality, and the
    behaviour of `&&&`, `|||`, `~~~`, `bit` under it. -/
namespace RCE.Proofs.BoardBits
open RCE

theorem toBV_idx (i : Nat) : (i.toUInt64).toBitVec = BitVec.ofNat 64 i := rfl

theorem shiftAmt (i : Nat) (h : i < 64) : (BitVec.ofNat 64 i % 64 : BitVec 64).toNat = i := by
  simp [BitVec.toNat_umod]; omega

theorem testBit_eq (x : UInt64) (i : Nat) (h : i < 64) : testBit x i = x.toBitVec.getLsbD i := by
  unfold testBit
  have h1 : ((x >>> i.toUInt64) &&& 1 != 0) = (((x >>> i.toUInt64) &&& 1).toBitVec != 0#64) := by
    rw [Bool.eq_iff_iff]; simp [← UInt64.toBitVec_inj]
  rw [h1, UInt64.toBitVec_and, UInt64.toBitVec_shiftRight, toBV_idx]
  have : (x.toBitVec >>> (BitVec.ofNat 64 i % 64)) = x.toBitVec >>> i := by
    rw [BitVec.ushiftRight_eq' , shiftAmt i h]
  rw [this]
  have h2 : (1 : UInt64).toBitVec = BitVec.twoPow 64 0 := by decide
  have h3 : ¬ BitVec.twoPow 64 0 = 0#64 := by decide
  rw [h2, BitVec.and_twoPow]
  simp
  cases x.toBitVec.getLsbD i <;> simp [h3]

theorem bit_toBV (i : Nat) (h : i < 64) : (bit i).toBitVec = BitVec.twoPow 64 i := by
  unfold bit
  rw [UInt64.toBitVec_shiftLeft, toBV_idx, BitVec.shiftLeft_eq', shiftAmt i h]
  simp [BitVec.twoPow]

theorem testBit_and (x y : UInt64) (i : Nat) (h : i < 64) :
    testBit (x &&& y) i = (testBit x i && testBit y i) := by
  simp [testBit_eq, h]

theorem testBit_or (x y : UInt64) (i : Nat) (h : i < 64) :
    testBit (x ||| y) i = (testBit x i || testBit y i) := by
  simp [testBit_eq, h]

theorem testBit_not (x : UInt64) (i : Nat) (h : i < 64) :
    testBit (~~~x) i = !testBit x i := by
  simp [testBit_eq, h]

theorem testBit_zero (i : Nat) (h : i < 64) : testBit 0 i = false := by
  simp [testBit_eq, h]

theorem testBit_bit (i j : Nat) (hi : i < 64) (hj : j < 64) : testBit (bit j) i = decide (i = j) := by
  rw [testBit_eq _ _ hi, bit_toBV _ hj, BitVec.getLsbD_twoPow]
  by_cases h : i = j
  · subst h; simp [hi]
  · have h' : ¬ j = i := fun e => h e.symm
    simp [h, h', hj]

theorem eq_of_testBit (x y : UInt64) (h : ∀ i, i < 64 → testBit x i = testBit y i) : x = y := by
  apply UInt64.toBitVec_inj.mp
  apply BitVec.eq_of_getLsbD_eq
  intro i hi
  rw [← testBit_eq _ _ hi, ← testBit_eq _ _ hi]; exact h i hi

theorem eq_zero_iff (x : UInt64) : x = 0 ↔ ∀ i, i < 64 → testBit x i = false := by
  constructor
  · intro h i hi; rw [h]; exact testBit_zero i hi
  · intro h; apply eq_of_testBit; intro i hi; rw [h i hi, testBit_zero i hi]

/-- the test `mask & x != 0` of `get_piece_kind` is the bit test -/
theorem bit_and_ne_zero (x : UInt64) (i : Nat) (h : i < 64) : (bit i &&& x != 0) = testBit x i := by
  rw [Bool.eq_iff_iff]
  simp only [bne_iff_ne, ne_eq]
  rw [eq_zero_iff]
  constructor
  · intro hn
    cases hx : testBit x i
    · exfalso; apply hn; intro j hj
      rw [testBit_and _ _ _ hj, testBit_bit _ _ hj h]
      by_cases hji : j = i
      · subst hji; simp [hx]
      · simp [hji]
    · rfl
  · intro hx hall
    have := hall i h
    rw [testBit_and _ _ _ h, testBit_bit _ _ h h, hx] at this
    simp at this

theorem and_bit_eq_zero (x : UInt64) (i : Nat) (h : i < 64) : (x &&& bit i == 0) = !testBit x i := by
  rw [UInt64.and_comm, ← bit_and_ne_zero x i h]
  cases hb : (bit i &&& x == 0) <;> simp [bne, hb]

end RCE.Proofs.BoardBits
