import RCE.Proofs.FenFields
import RCE.Proofs.BoardPBB
/-! C07, part 2: the placement field.  `renderPlacement` (ranks 8→1, run-length digits) is consumed by
    `placementAux` into a `PBB` that has, for every square, exactly the bit of the piece standing there. -/
namespace RCE.Proofs.FenPlacement
open RCE RCE.Proofs.Abs RCE.Proofs.FenFields RCE.Proofs.BoardBits RCE.Proofs.BoardWF RCE.Proofs.BoardPBB

/-! ### pieces and piece letters -/

def concPK : Rules.Kind → PK
  | .pawn => .pawn | .king => .king | .queen => .queen | .rook => .rook | .bishop => .bishop | .knight => .knight

def concPiece (pc : Rules.Piece) : Kind := ⟨concPK pc.kind, concColor pc.color⟩

theorem abs_conc (pc : Rules.Piece) : absPiece (concPiece pc) = pc := by
  rcases pc with ⟨c, k⟩; cases c <;> cases k <;> rfl

theorem conc_abs (k : Kind) : concPiece (absPiece k) = k := by
  rcases k with ⟨pk, c⟩; cases c <;> cases pk <;> rfl

theorem eq_abs_iff (pc : Rules.Piece) (k : Kind) : pc = absPiece k ↔ concPiece pc = k := by
  constructor
  · intro h; rw [h, conc_abs]
  · intro h; rw [← h, abs_conc]

theorem pieceChar_read (pc : Rules.Piece) :
    pieceOfChar (Rules.pieceChar pc) = some (concPiece pc) ∧ isAsciiWs (Rules.pieceChar pc) = false := by
  rcases pc with ⟨c, k⟩; cases c <;> cases k <;> decide

/-- the run-length digit -/
def dch (e : Nat) : Char := Char.ofNat (48 + e)

theorem dch_fin : ∀ e : Fin 9, 0 < e.val →
    pieceOfChar (dch e.val) = none ∧ ('1' ≤ dch e.val ∧ dch e.val ≤ '8') ∧ (dch e.val).toNat - 48 = e.val ∧
    isAsciiWs (dch e.val) = false := by decide

theorem dch_ok (e : Nat) (h0 : 0 < e) (h8 : e ≤ 8) :
    pieceOfChar (dch e) = none ∧ ('1' ≤ dch e ∧ dch e ≤ '8') ∧ (dch e).toNat - 48 = e ∧ isAsciiWs (dch e) = false :=
  dch_fin ⟨e, by omega⟩ h0

/-! ### one rank as a recursion -/

/-- run-length encoding of the `n` squares `sq, sq+1, …` with `e` empty squares pending -/
def rr (g : Nat → Option Rules.Piece) : Nat → Nat → Nat → List Char
  | _, 0, e => if e > 0 then [dch e] else []
  | sq, n+1, e => match g sq with
    | some pc => (if e > 0 then [dch e] else []) ++ Rules.pieceChar pc :: rr g (sq+1) n 0
    | none => rr g (sq+1) n (e+1)

def rankFin (x : List Char × Nat) : List Char := if x.2 > 0 then x.1 ++ [dch x.2] else x.1

theorem rank_fold (g : Nat → Option Rules.Piece) (step : List Char × Nat → Nat → List Char × Nat) (base : Nat)
    (hs : ∀ acc f pc, g (base + f) = some pc →
      step acc f = ((if acc.2 > 0 then acc.1 ++ [dch acc.2] else acc.1) ++ [Rules.pieceChar pc], 0))
    (hn : ∀ acc f, g (base + f) = none → step acc f = (acc.1, acc.2 + 1)) :
    ∀ (n f : Nat) (cs : List Char) (e : Nat),
    rankFin ((List.range' f n).foldl step (cs, e)) = cs ++ rr g (base + f) n e := by
  intro n
  induction n with
  | zero =>
    intro f cs e
    simp only [List.range'_zero, List.foldl_nil, rankFin, rr]
    split <;> simp
  | succ n ih =>
    intro f cs e
    rw [List.range'_succ, List.foldl_cons, rr]
    cases h : g (base + f) with
    | none =>
      rw [hn _ _ h]
      simp only
      rw [ih]; rfl
    | some pc =>
      rw [hs _ _ _ h]
      simp only
      rw [ih]
      split <;> simp [Nat.add_assoc]

theorem renderRank_rr (p : Rules.Pos) (r : Nat) : Rules.renderRank p r = rr p.at (r * 8) 8 0 := by
  unfold Rules.renderRank
  simp only
  rw [List.range_eq_range']
  have key := fun step hs hn => rank_fold p.at step (r * 8) hs hn 8 0 [] 0
  simp only [rankFin, List.nil_append, Nat.add_zero] at key
  apply key
  · intro acc f pc h; simp only [h]; rfl
  · intro acc f h; simp only [h]

theorem rr_noWs (g : Nat → Option Rules.Piece) : ∀ (n sq e : Nat), e + n ≤ 8 → NoWs (rr g sq n e) := by
  intro n
  induction n with
  | zero =>
    intro sq e h
    unfold rr
    split
    · exact NoWs.cons (dch_ok e (by omega) (by omega)).2.2.2 NoWs.nil
    · exact NoWs.nil
  | succ n ih =>
    intro sq e h
    rw [rr]
    cases hg : g sq with
    | none => exact ih _ _ (by omega)
    | some pc =>
      simp only
      refine NoWs.append ?_ (NoWs.cons (pieceChar_read pc).2 (ih _ _ (by omega)))
      split
      · exact NoWs.cons (dch_ok e (by omega) (by omega)).2.2.2 NoWs.nil
      · exact NoWs.nil

/-! ### `placementAux`, character by character -/

theorem place_piece (c : Char) (cs : List Char) (idx : Nat) (b : PBB) (k : Kind)
    (hi : idx / 8 ≤ 7) (hc : pieceOfChar c = some k) :
    placementAux (c :: cs) idx b =
      placementAux cs (idx + 1) (b.set k (b.get k ||| bit (8 * (7 - idx / 8) + idx % 8))) := by
  rw [placementAux]
  have : ¬ idx / 8 > 7 := by omega
  simp only [this, if_false, hc]

theorem place_digit (c : Char) (cs : List Char) (idx : Nat) (b : PBB)
    (hi : idx / 8 ≤ 7) (hc : pieceOfChar c = none) (hd : '1' ≤ c ∧ c ≤ '8') :
    placementAux (c :: cs) idx b = placementAux cs (idx + (c.toNat - 48)) b := by
  rw [placementAux]
  have : ¬ idx / 8 > 7 := by omega
  simp only [this, if_false, hc, hd, and_self, if_true]

theorem place_slash (cs : List Char) (idx : Nat) (b : PBB) (hi : idx / 8 ≤ 7) (h0 : idx ≠ 0) :
    placementAux ('/' :: cs) idx b = placementAux cs idx b := by
  rw [placementAux]
  have : ¬ idx / 8 > 7 := by omega
  have h1 : pieceOfChar '/' = none := by decide
  have h2 : ¬ ('1' ≤ '/' ∧ '/' ≤ '8') := by decide
  have h3 : (idx == 0) = false := by simpa using h0
  simp only [this, if_false, h1, h2, h3, beq_self_eq_true, if_true]
  rfl

/-- the boards after writing the pieces of the `n` squares `sq, sq+1, …` -/
def putRange (g : Nat → Option Rules.Piece) : Nat → Nat → PBB → PBB
  | _, 0, b => b
  | sq, n+1, b => putRange g (sq+1) n (match g sq with
    | some pc => b.set (concPiece pc) (b.get (concPiece pc) ||| bit sq)
    | none => b)

theorem place_dch (e : Nat) (cs : List Char) (row f : Nat) (b : PBB) (hr : row ≤ 7) (hf : f + e ≤ 8) :
    placementAux ((if e > 0 then [dch e] else []) ++ cs) (8 * row + f) b = placementAux cs (8 * row + f + e) b := by
  split
  · rename_i h0
    obtain ⟨h1, h2, h3, _⟩ := dch_ok e h0 (by omega)
    show placementAux (dch e :: cs) _ _ = _
    rw [place_digit _ _ _ _ (by omega) h1 h2, h3]
  · have : e = 0 := by omega
    subst this; rfl

theorem place_rr (g : Nat → Option Rules.Piece) (rest : List Char) (row : Nat) (hr : row ≤ 7) :
    ∀ (n f e : Nat) (b : PBB), f + e + n ≤ 8 →
    placementAux (rr g (8 * (7 - row) + f + e) n e ++ rest) (8 * row + f) b =
      placementAux rest (8 * row + f + e + n) (putRange g (8 * (7 - row) + f + e) n b) := by
  intro n
  induction n with
  | zero =>
    intro f e b h
    rw [rr, putRange]
    exact place_dch e rest row f b hr (by omega)
  | succ n ih =>
    intro f e b h
    rw [rr, putRange]
    cases hg : g (8 * (7 - row) + f + e) with
    | none =>
      simp only
      have := ih f (e + 1) b (by omega)
      rw [show 8 * (7 - row) + f + (e + 1) = 8 * (7 - row) + f + e + 1 from by omega] at this
      rw [this]
      congr 1; omega
    | some pc =>
      simp only
      rw [List.append_assoc, place_dch e _ row f b hr (by omega)]
      show placementAux (Rules.pieceChar pc :: (rr g _ n 0 ++ rest)) _ _ = _
      rw [place_piece _ _ _ _ (concPiece pc) (by omega) (pieceChar_read pc).1]
      have e1 : 8 * (7 - (8 * row + f + e) / 8) + (8 * row + f + e) % 8 = 8 * (7 - row) + f + e := by omega
      rw [e1]
      have := ih (f + e + 1) 0 (b.set (concPiece pc) (b.get (concPiece pc) ||| bit (8 * (7 - row) + f + e))) (by omega)
      rw [show 8 * (7 - row) + (f + e + 1) + 0 = 8 * (7 - row) + f + e + 1 from by omega,
        show 8 * row + (f + e + 1) = 8 * row + f + e + 1 from by omega] at this
      rw [this]
      congr 1; omega

/-- one whole rank (`r` counted from rank 1 = 0), read at `idx = 8 * (7 - r)` -/
theorem place_rank (p : Rules.Pos) (r : Nat) (hr : r ≤ 7) (rest : List Char) (b : PBB) :
    placementAux (Rules.renderRank p r ++ rest) (8 * (7 - r)) b =
      placementAux rest (8 * (7 - r) + 8) (putRange p.at (8 * r) 8 b) := by
  have := place_rr p.at rest (7 - r) (by omega) 8 0 0 b (by omega)
  rw [show 8 * (7 - (7 - r)) + 0 + 0 = 8 * r from by omega] at this
  rw [renderRank_rr, Nat.mul_comm r 8]
  exact this

/-! ### the bits written -/

theorem putRange_bits (g : Nat → Option Rules.Piece) (k : Kind) (i : Nat) (hi : i < 64) :
    ∀ (n sq : Nat) (b : PBB), sq + n ≤ 64 →
    testBit ((putRange g sq n b).get k) i =
      (testBit (b.get k) i || (decide (sq ≤ i ∧ i < sq + n) && decide (g i = some (absPiece k)))) := by
  intro n
  induction n with
  | zero =>
    intro sq b h
    have : ¬ (sq ≤ i ∧ i < sq + 0) := by omega
    rw [putRange, decide_eq_false this]
    simp
  | succ n ih =>
    intro sq b h
    rw [putRange, ih _ _ (by omega)]
    cases hg : g sq with
    | none =>
      simp only
      by_cases e : i = sq
      · subst e
        have : ¬ (i + 1 ≤ i ∧ i < i + 1 + n) := by omega
        simp [this, hg]
      · have : (sq + 1 ≤ i ∧ i < sq + 1 + n) ↔ (sq ≤ i ∧ i < sq + (n + 1)) := by omega
        simp [this]
    | some pc =>
      simp only
      rw [get_set]
      by_cases e : i = sq
      · subst e
        have h1 : ¬ (i + 1 ≤ i ∧ i < i + 1 + n) := by omega
        have h2 : (i ≤ i ∧ i < i + (n + 1)) := by omega
        by_cases ek : k = concPiece pc
        · subst ek
          simp [h1, h2, hg, abs_conc, testBit_or, testBit_bit, hi]
        · have : ¬ pc = absPiece k := fun h => ek ((eq_abs_iff pc k).mp h).symm
          simp [h1, h2, hg, ek, this]
      · have h3 : (sq + 1 ≤ i ∧ i < sq + 1 + n) ↔ (sq ≤ i ∧ i < sq + (n + 1)) := by omega
        by_cases ek : k = concPiece pc
        · subst ek
          simp [h3, testBit_or, testBit_bit, hi, e, show sq < 64 by omega]
        · simp [h3, ek]

/-! ### the whole field -/

/-- the twelve boards `placementAux` builds from the rendered placement -/
def placed (p : Rules.Pos) : PBB :=
  putRange p.at 0 8 (putRange p.at 8 8 (putRange p.at 16 8 (putRange p.at 24 8
    (putRange p.at 32 8 (putRange p.at 40 8 (putRange p.at 48 8 (putRange p.at 56 8 PBB.empty)))))))

theorem renderPlacement_eq (p : Rules.Pos) :
    Rules.renderPlacement p =
      Rules.renderRank p 7 ++ '/' :: (Rules.renderRank p 6 ++ '/' :: (Rules.renderRank p 5 ++ '/' ::
      (Rules.renderRank p 4 ++ '/' :: (Rules.renderRank p 3 ++ '/' :: (Rules.renderRank p 2 ++ '/' ::
      (Rules.renderRank p 1 ++ '/' :: (Rules.renderRank p 0 ++ []))))))) := by
  unfold Rules.renderPlacement
  have : (List.range 8).reverse = [7, 6, 5, 4, 3, 2, 1, 0] := by decide
  rw [this]
  simp [List.intercalate]

theorem placement_read (p : Rules.Pos) :
    placementAux (Rules.renderPlacement p) 0 PBB.empty = some (placed p) := by
  rw [renderPlacement_eq]
  have h7 := place_rank p 7 (by omega)
  have h6 := place_rank p 6 (by omega)
  have h5 := place_rank p 5 (by omega)
  have h4 := place_rank p 4 (by omega)
  have h3 := place_rank p 3 (by omega)
  have h2 := place_rank p 2 (by omega)
  have h1 := place_rank p 1 (by omega)
  have h0 := place_rank p 0 (by omega)
  simp only [Nat.sub_self, Nat.mul_zero, Nat.zero_add, Nat.reduceSub, Nat.reduceMul, Nat.reduceAdd] at h7 h6 h5 h4 h3 h2 h1 h0
  rw [h7, place_slash _ _ _ (by omega) (by omega), h6, place_slash _ _ _ (by omega) (by omega),
    h5, place_slash _ _ _ (by omega) (by omega), h4, place_slash _ _ _ (by omega) (by omega),
    h3, place_slash _ _ _ (by omega) (by omega), h2, place_slash _ _ _ (by omega) (by omega),
    h1, place_slash _ _ _ (by omega) (by omega), h0]
  rfl

theorem renderRank_noWs (p : Rules.Pos) (r : Nat) : NoWs (Rules.renderRank p r) := by
  rw [renderRank_rr]; exact rr_noWs _ _ _ _ (by omega)

theorem placement_noWs (p : Rules.Pos) : NoWs (Rules.renderPlacement p) := by
  rw [renderPlacement_eq]
  have hs : isAsciiWs '/' = false := by decide
  repeat' first
    | exact NoWs.nil
    | apply NoWs.append (renderRank_noWs p _)
    | apply NoWs.cons hs

theorem placement_ne (p : Rules.Pos) : Rules.renderPlacement p ≠ [] := by
  rw [renderPlacement_eq]
  intro h
  have := congrArg List.length h
  simp at this

theorem placed_bits (p : Rules.Pos) (k : Kind) (i : Nat) (hi : i < 64) :
    testBit ((placed p).get k) i = decide (p.at i = some (absPiece k)) := by
  unfold placed
  simp only [putRange_bits p.at k i hi _ _ _ (by omega : (0:Nat) + 8 ≤ 64),
    putRange_bits p.at k i hi _ _ _ (by omega : (8:Nat) + 8 ≤ 64),
    putRange_bits p.at k i hi _ _ _ (by omega : (16:Nat) + 8 ≤ 64),
    putRange_bits p.at k i hi _ _ _ (by omega : (24:Nat) + 8 ≤ 64),
    putRange_bits p.at k i hi _ _ _ (by omega : (32:Nat) + 8 ≤ 64),
    putRange_bits p.at k i hi _ _ _ (by omega : (40:Nat) + 8 ≤ 64),
    putRange_bits p.at k i hi _ _ _ (by omega : (48:Nat) + 8 ≤ 64),
    putRange_bits p.at k i hi _ _ _ (by omega : (56:Nat) + 8 ≤ 64)]
  have he : testBit (PBB.empty.get k) i = false := by
    have : PBB.empty.get k = 0 := by rcases k with ⟨pk, c⟩; cases pk <;> cases c <;> rfl
    rw [this]; exact testBit_zero i hi
  rw [he]
  cases hx : decide (p.at i = some (absPiece k))
  · simp
  · simp only [Bool.and_true, Bool.false_or]
    have : (56 ≤ i ∧ i < 56 + 8) ∨ (48 ≤ i ∧ i < 48 + 8) ∨ (40 ≤ i ∧ i < 40 + 8) ∨ (32 ≤ i ∧ i < 32 + 8) ∨
        (24 ≤ i ∧ i < 24 + 8) ∨ (16 ≤ i ∧ i < 16 + 8) ∨ (8 ≤ i ∧ i < 8 + 8) ∨ (0 ≤ i ∧ i < 0 + 8) := by omega
    rcases this with h | h | h | h | h | h | h | h <;> simp [h]

/-! ### `withUnions`: the invariant and the mailbox view -/

theorem get_withUnions (b : PBB) (k : Kind) : b.withUnions.get k = b.get k := by
  unfold PBB.withUnions; rw [get_recompute, get_recompute]

theorem placed_wf (p : Rules.Pos) : PBB.WF (placed p).withUnions := by
  refine ⟨?_, rfl, rfl, rfl⟩
  intro k k' hne
  rw [get_withUnions, get_withUnions]
  apply (eq_zero_iff _).mpr
  intro i hi
  rw [testBit_and _ _ _ hi, placed_bits p k i hi, placed_bits p k' i hi]
  cases h1 : decide (p.at i = some (absPiece k))
  · rfl
  · cases h2 : decide (p.at i = some (absPiece k'))
    · rfl
    · exfalso
      have e1 := of_decide_eq_true h1
      have e2 := of_decide_eq_true h2
      rw [e1] at e2
      injection e2 with e2
      apply hne
      rw [← conc_abs k, e2, conc_abs]

theorem placed_pieceAt (p : Rules.Pos) (i : Nat) (hi : i < 64) :
    ((placed p).withUnions.pieceAt (Square.ofIdx i)).map absPiece = p.at i := by
  apply opt_ext
  intro pc
  have hs := ofIdx_IR i hi
  constructor
  · intro h
    cases hk : (placed p).withUnions.pieceAt (Square.ofIdx i) with
    | none => rw [hk] at h; cases h
    | some k =>
      rw [hk] at h
      injection h with h
      have := (pieceAt_iff _ (placed_wf p) _ hs k).mp hk
      unfold has at this
      rw [get_withUnions, ofIdx_idx, placed_bits p k i hi] at this
      rw [of_decide_eq_true this, h]
  · intro h
    have : (placed p).withUnions.pieceAt (Square.ofIdx i) = some (concPiece pc) := by
      apply (pieceAt_iff _ (placed_wf p) _ hs _).mpr
      unfold has
      rw [get_withUnions, ofIdx_idx, placed_bits p _ i hi, abs_conc]
      exact decide_eq_true h
    rw [this]; simp [abs_conc]

theorem placed_pieceAt' (p : Rules.Pos) (i : Nat) (hi : i < 64) :
    (placed p).withUnions.pieceAt (Square.ofIdx i) = (p.at i).map concPiece := by
  rw [← placed_pieceAt p i hi]
  cases (placed p).withUnions.pieceAt (Square.ofIdx i) <;> simp [conc_abs]

end RCE.Proofs.FenPlacement
