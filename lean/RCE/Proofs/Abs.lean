import RCE.Model.Board
import RCE.Model.Fen
import RCE.Spec.Rules
import RCE.Spec.FenRender
import RCE.Proofs.BoardWF
/-! The abstraction from the bitboard model to the mailbox rules spec. -/
namespace RCE.Proofs.Abs
open RCE RCE.Proofs.BoardWF

def absColor : Color → Rules.Color | .white => .white | .black => .black
def absPK : PK → Rules.Kind
  | .pawn => .pawn | .king => .king | .queen => .queen | .rook => .rook | .bishop => .bishop | .knight => .knight
def absPiece (k : Kind) : Rules.Piece := ⟨absColor k.color, absPK k.pk⟩

/-- the rules position a board stands for: placement, side to move, four rights, en-passant file, both counters -/
def abs (b : Board) : Rules.Pos :=
  { board := (Array.range 64).map fun i => (b.pieceAt (Square.ofIdx i)).map absPiece
    turn := absColor b.turn
    wk := b.rights.wk, wq := b.rights.wq, bk := b.rights.bk, bq := b.rights.bq
    ep := b.ep
    half := b.halfmove
    full := b.fullmove }

/-- a generated move as the rules see it: from, to, promotion piece -/
def absMove (m : Ply) : Rules.Move := ⟨m.start.idx, m.dest.idx, m.promoted.map fun k => absPK k.pk⟩

/-- each side has exactly one king -/
def KingsPresent (b : Board) : Prop :=
  (∃ s : Square, s.rank < 8 ∧ s.file < 8 ∧ b.pieceAt s = some ⟨.king, .white⟩) ∧
  (∃ s : Square, s.rank < 8 ∧ s.file < 8 ∧ b.pieceAt s = some ⟨.king, .black⟩) ∧
  (∀ s t : Square, s.rank < 8 → s.file < 8 → t.rank < 8 → t.file < 8 → ∀ c,
     b.pieceAt s = some ⟨.king, c⟩ → b.pieceAt t = some ⟨.king, c⟩ → s = t)

/-- a position of a legal game: well-formed, both kings on the board, the side that just moved is not in check -/
structure Legal (b : Board) : Prop where
  wf : WF b
  kings : KingsPresent b
  safe : b.isInCheck b.turn.opp = false

end RCE.Proofs.Abs
