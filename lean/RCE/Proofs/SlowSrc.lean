import RCE.Proofs.TranslatedChk
import RCE.Proofs.SliderSound
/-! The slow ray walks (`Rook::get_attacks_slow`, `Bishop::get_attacks_slow`) as TRANSLATED from the source on this run
    (`RCE.Gen.Tr.rookSlow`, `bishopSlow`: which ray guards each block, which ray is scanned, the scan direction, which ray is cut —
    all read from the Rust text) equal the hand-written model's `rookSlow` / `bishopSlow` for EVERY occupancy, and the index
    handed to `rays[..]` is always a square (the Rust indexing cannot panic).  Statements fixed beforehand. -/
namespace RCE.Proofs.SlowSrc
open RCE RCE.Gen RCE.Proofs.SliderCheck

private theorem bsfAux_cases (b : BB) : ∀ (fuel i : Nat), i + fuel = 64 →
    bsfAux b fuel i < 64 ∨ (∀ j, i ≤ j → j < 64 → testBit b j = false) := by
  intro fuel
  induction fuel with
  | zero => intro i hi; right; intro j h1 h2; omega
  | succ n ih =>
    intro i hi
    unfold bsfAux
    by_cases ht : testBit b i = true
    · left; simp only [ht, if_true]; omega
    · simp only [ht]
      rcases ih (i+1) (by omega) with h | h
      · left; exact h
      · right
        intro j h1 h2
        by_cases hj : j = i
        · subst hj; simpa using ht
        · exact h j (by omega) h2

/-- `trailing_zeros` of a non-zero board is a square -/
theorem bsf_lt (y : BB) (h : y ≠ 0) : bsf y < 64 := by
  rcases bsfAux_cases y 64 0 (by omega) with h1 | h1
  · exact h1
  · exfalso
    apply h
    apply RCE.Proofs.Bits.ext_testBit
    intro i hi
    rw [h1 i (Nat.zero_le _) hi, RCE.Proofs.Bits.testBit_zero i hi]

private theorem bsrAux_lt (b : BB) : ∀ n, 0 < n → bsrAux b n < n := by
  intro n
  induction n with
  | zero => intro h; omega
  | succ n ih =>
    intro _
    unfold bsrAux
    by_cases ht : testBit b n = true
    · simp only [ht, if_true]; omega
    · simp only [ht]
      cases n with
      | zero => unfold bsrAux; simp
      | succ m => have := ih (by omega); simp only [Bool.false_eq_true, if_false]; omega

/-- `63 - leading_zeros` as modelled is always below 64 -/
theorem bsr_lt (y : BB) : bsr y < 64 := bsrAux_lt y 64 (by omega)

private theorem all_at {p : Nat → Bool} {n : Nat} (h : (List.range n).all p = true) (i : Nat) (hi : i < n) : p i = true := by
  rw [List.all_eq_true] at h
  exact h i (List.mem_range.mpr hi)

private theorem ray_eq (ha : Tr.rayInitAvail = true) (sq dir : Nat) (h : sq < 64) (hd : dir < 8) :
    Tr.rayInit sq dir = ray sq dir := by
  have := all_at (all_at (RCE.Proofs.TranslatedChk.ray_src ha) sq h) dir hd
  simp only [Bool.and_eq_true, beq_iff_eq] at this
  exact this.1

private theorem rayT_ray (sq dir : Nat) (h : sq < 64) (hd : dir < 8) : rayT sq dir = ray sq dir := by
  rw [rayT_eq sq dir hd]; unfold rayT'; simp only [h, if_true]

/-- one block of the translated walk is the model's `cutRay` when guard, scanned ray and cut ray are the same direction -/
theorem cutTr_eq (ha : Tr.rayInitAvail = true) (a : BB) (sq dir : Nat) (hs : sq < 64) (hd : dir < 8) (fwd : Bool) (bl : BB) :
    Tr.cutTr a sq dir dir dir fwd bl = cutRay a sq dir fwd bl ∧ Tr.cutTrOK sq dir dir fwd bl = true := by
  unfold Tr.cutTr Tr.cutTrOK cutRay
  simp only [rayT_ray sq dir hs hd, ray_eq ha sq dir hs hd]
  by_cases hg : (ray sq dir &&& bl != 0) = true
  · have hne : ray sq dir &&& bl ≠ 0 := by simpa using hg
    have hi : (if fwd = true then bsf (ray sq dir &&& bl) else bsr (ray sq dir &&& bl)) < 64 := by
      cases fwd
      · simpa using bsr_lt _
      · simpa using bsf_lt _ hne
    simp only [hg, if_true]
    refine ⟨?_, by simpa using hi⟩
    rw [ray_eq ha _ dir hi hd, rayT_ray _ dir hi hd]
  · simp only [hg]
    simp

theorem rook_slow_src (ha : Tr.rookSlowAvail = true) (hr : Tr.rayInitAvail = true) (sq : Nat) (hs : sq < 64) (bl : BB) :
    Tr.rookSlow sq bl = rookSlow sq bl ∧ Tr.rookSlowOK sq bl = true := by
  first
  | exact absurd ha (by decide)
  | (have _ := ha
     unfold Tr.rookSlow Tr.rookSlowOK rookSlow
     have e0 : dN = 0 := rfl
     have e2 : dE = 2 := rfl
     have e4 : dS = 4 := rfl
     have e6 : dW = 6 := rfl
     simp only [e0, e2, e4, e6]
     simp only [(cutTr_eq hr _ sq 0 hs (by omega) _ bl).1, (cutTr_eq hr _ sq 2 hs (by omega) _ bl).1,
       (cutTr_eq hr _ sq 4 hs (by omega) _ bl).1, (cutTr_eq hr _ sq 6 hs (by omega) _ bl).1,
       (cutTr_eq hr 0 sq 0 hs (by omega) _ bl).2, (cutTr_eq hr 0 sq 2 hs (by omega) _ bl).2,
       (cutTr_eq hr 0 sq 4 hs (by omega) _ bl).2, (cutTr_eq hr 0 sq 6 hs (by omega) _ bl).2,
       ray_eq hr sq _ hs (by omega : 0 < 8), ray_eq hr sq _ hs (by omega : 2 < 8),
       ray_eq hr sq _ hs (by omega : 4 < 8), ray_eq hr sq _ hs (by omega : 6 < 8),
       rayT_ray sq _ hs (by omega : 0 < 8), rayT_ray sq _ hs (by omega : 2 < 8),
       rayT_ray sq _ hs (by omega : 4 < 8), rayT_ray sq _ hs (by omega : 6 < 8), Bool.and_self, and_self])

theorem bishop_slow_src (ha : Tr.bishopSlowAvail = true) (hr : Tr.rayInitAvail = true) (sq : Nat) (hs : sq < 64) (bl : BB) :
    Tr.bishopSlow sq bl = bishopSlow sq bl ∧ Tr.bishopSlowOK sq bl = true := by
  first
  | exact absurd ha (by decide)
  | (have _ := ha
     unfold Tr.bishopSlow Tr.bishopSlowOK bishopSlow
     have e1 : dNE = 1 := rfl
     have e3 : dSE = 3 := rfl
     have e5 : dSW = 5 := rfl
     have e7 : dNW = 7 := rfl
     simp only [e1, e3, e5, e7]
     simp only [(cutTr_eq hr _ sq 7 hs (by omega) _ bl).1, (cutTr_eq hr _ sq 1 hs (by omega) _ bl).1,
       (cutTr_eq hr _ sq 5 hs (by omega) _ bl).1, (cutTr_eq hr _ sq 3 hs (by omega) _ bl).1,
       (cutTr_eq hr 0 sq 7 hs (by omega) _ bl).2, (cutTr_eq hr 0 sq 1 hs (by omega) _ bl).2,
       (cutTr_eq hr 0 sq 5 hs (by omega) _ bl).2, (cutTr_eq hr 0 sq 3 hs (by omega) _ bl).2,
       ray_eq hr sq _ hs (by omega : 7 < 8), ray_eq hr sq _ hs (by omega : 1 < 8),
       ray_eq hr sq _ hs (by omega : 5 < 8), ray_eq hr sq _ hs (by omega : 3 < 8),
       rayT_ray sq _ hs (by omega : 7 < 8), rayT_ray sq _ hs (by omega : 1 < 8),
       rayT_ray sq _ hs (by omega : 5 < 8), rayT_ray sq _ hs (by omega : 3 < 8), Bool.and_self, and_self])

end RCE.Proofs.SlowSrc

#print axioms RCE.Proofs.SlowSrc.bsf_lt
#print axioms RCE.Proofs.SlowSrc.bsr_lt
#print axioms RCE.Proofs.SlowSrc.cutTr_eq
#print axioms RCE.Proofs.SlowSrc.rook_slow_src
#print axioms RCE.Proofs.SlowSrc.bishop_slow_src
