import RCE.Proofs.MoveGenPseudo
import RCE.Proofs.BoardMake
/-! `make_move` over a generated move of a legal position keeps the representation invariant and both kings
    (`MakeKeeps`): no generated move captures a king, because the side that just moved is not in check
    (transferred to the spec through `pseudo_exact'`). -/
namespace RCE.Proofs.MoveGen
open RCE RCE.Proofs.BoardWF RCE.Proofs.Abs RCE.Proofs.BoardPBB RCE.Proofs.BoardBits RCE.Proofs.Sliders
open RCE.Proofs.MoveGenList RCE.Proofs.BoardGen RCE.Proofs.BoardMake

def specPushes (p : Rules.Pos) (sq : Nat) (c : Rules.Color) : List Nat :=
  match Rules.step sq 0 (Rules.pawnDir c) with
  | some t1 => if (p.at t1).isNone then
      t1 :: (if sq / 8 == (if c == .white then 1 else 6) then
               match Rules.step t1 0 (Rules.pawnDir c) with
               | some t2 => if (p.at t2).isNone then [t2] else []
               | none => []
             else [])
      else []
  | none => []

def specCaps (p : Rules.Pos) (sq : Nat) (c : Rules.Color) : List Nat :=
  [(1 : Int), -1].filterMap fun df =>
    match Rules.step sq df (Rules.pawnDir c) with
    | some t => match p.at t with
      | some q => if q.color != c then some t else none
      | none => if sq / 8 == (if c == .white then 4 else 3) && p.ep == some (t % 8) then some t else none
    | none => none

def specExpand (sq : Nat) (c : Rules.Color) (t : Nat) : List Rules.Move :=
  if t / 8 == (if c == .white then 7 else 0) then Rules.promoKinds.map fun k => ⟨sq, t, some k⟩ else [⟨sq, t, none⟩]

theorem pawnMoves_eq (p : Rules.Pos) (sq : Nat) (c : Rules.Color) :
    Rules.pawnMoves p sq c = (specPushes p sq c ++ specCaps p sq c).flatMap (specExpand sq c) := rfl

theorem specExpand_dst (sq : Nat) (c : Rules.Color) (t : Nat) (mv : Rules.Move) (h : mv ∈ specExpand sq c t) :
    mv.dst = t ∧ mv.src = sq := by
  unfold specExpand at h
  cases hb : (t / 8 == (if c == .white then 7 else 0))
  · rw [hb] at h
    simp only [Bool.false_eq_true, if_false, List.mem_singleton] at h
    subst h; exact ⟨rfl, rfl⟩
  · rw [hb] at h
    simp only [if_true, List.mem_map] at h
    obtain ⟨k, _, rfl⟩ := h
    exact ⟨rfl, rfl⟩

theorem specPushes_empty (p : Rules.Pos) (sq : Nat) (c : Rules.Color) (t : Nat) (h : t ∈ specPushes p sq c) :
    (p.at t).isNone = true := by
  unfold specPushes at h
  cases hs : Rules.step sq 0 (Rules.pawnDir c) with
  | none => rw [hs] at h; cases h
  | some t1 =>
    rw [hs] at h
    simp only at h
    cases he : (p.at t1).isNone
    · rw [he] at h; cases h
    · rw [he] at h
      simp only [if_true] at h
      rcases List.mem_cons.mp h with e | h
      · rw [e]; exact he
      · cases hr : (sq / 8 == (if c == .white then 1 else 6))
        · rw [hr] at h; cases h
        · rw [hr] at h
          simp only [if_true] at h
          cases hs2 : Rules.step t1 0 (Rules.pawnDir c) with
          | none => rw [hs2] at h; cases h
          | some t2 =>
            rw [hs2] at h
            simp only at h
            cases he2 : (p.at t2).isNone
            · rw [he2] at h; cases h
            · rw [he2] at h
              simp only [if_true, List.mem_singleton] at h
              rw [h]; exact he2

theorem specCaps_attacks (p : Rules.Pos) (sq : Nat) (c : Rules.Color) (t : Nat) (h : t ∈ specCaps p sq c) :
    t ∈ Rules.attacksFrom p sq ⟨c, .pawn⟩ := by
  unfold specCaps at h
  rw [List.mem_filterMap] at h
  obtain ⟨df, hdf, hcap⟩ := h
  unfold Rules.attacksFrom
  simp only
  rw [List.mem_filterMap]
  refine ⟨(df, Rules.pawnDir c), ?_, ?_⟩
  · simp only [List.mem_cons, List.not_mem_nil, or_false] at hdf ⊢
    rcases hdf with rfl | rfl
    · left; rfl
    · right; rfl
  · simp only
    cases hs : Rules.step sq df (Rules.pawnDir c) with
    | none => rw [hs] at hcap; cases hcap
    | some u =>
      rw [hs] at hcap
      simp only at hcap
      cases hq : p.at u with
      | none =>
        rw [hq] at hcap
        simp only at hcap
        generalize (sq / 8 == (if c == .white then 4 else 3) && p.ep == some (u % 8)) = cond at hcap
        cases cond
        · cases hcap
        · exact hcap
      | some q =>
        rw [hq] at hcap
        simp only at hcap
        split at hcap
        · exact hcap
        · cases hcap

/-- spec level: a pawn move onto an occupied square goes to a square the pawn attacks -/
theorem pawnMoves_occ (p : Rules.Pos) (sq : Nat) (c : Rules.Color) (mv : Rules.Move)
    (h : mv ∈ Rules.pawnMoves p sq c) (hocc : (p.at mv.dst).isSome = true) :
    mv.dst ∈ Rules.attacksFrom p sq ⟨c, .pawn⟩ := by
  rw [pawnMoves_eq, List.mem_flatMap] at h
  obtain ⟨t, ht, hmv⟩ := h
  obtain ⟨hd, _⟩ := specExpand_dst sq c t mv hmv
  subst hd
  rcases List.mem_append.mp ht with hpush | hcap
  · have := specPushes_empty p sq c _ hpush
    cases hh : p.at mv.dst <;> rw [hh] at this hocc <;> simp at this hocc
  · exact specCaps_attacks p sq c _ hcap


theorem castleMoves_empty (p : Rules.Pos) (c : Rules.Color) (mv : Rules.Move) (h : mv ∈ Rules.castleMoves p c) :
    (p.at mv.dst).isNone = true ∧ mv.promo = none := by
  cases c
  · rw [castleMoves_white] at h
    split at h
    · cases h
    · rcases List.mem_append.mp h with h | h <;> split at h
      · rename_i hc
        simp only [Bool.and_eq_true, List.all_cons, List.all_nil, Bool.and_true] at hc
        rw [List.mem_singleton] at h; subst h
        exact ⟨hc.1.2.2, rfl⟩
      · cases h
      · rename_i hc
        simp only [Bool.and_eq_true, List.all_cons, List.all_nil, Bool.and_true] at hc
        rw [List.mem_singleton] at h; subst h
        exact ⟨hc.1.2.2.1, rfl⟩
      · cases h
  · rw [castleMoves_black] at h
    split at h
    · cases h
    · rcases List.mem_append.mp h with h | h <;> split at h
      · rename_i hc
        simp only [Bool.and_eq_true, List.all_cons, List.all_nil, Bool.and_true] at hc
        rw [List.mem_singleton] at h; subst h
        exact ⟨hc.1.2.2, rfl⟩
      · cases h
      · rename_i hc
        simp only [Bool.and_eq_true, List.all_cons, List.all_nil, Bool.and_true] at hc
        rw [List.mem_singleton] at h; subst h
        exact ⟨hc.1.2.2.1, rfl⟩
      · cases h

/-- the flag facts of a generated move that `Shape` does not record -/
def Flags (b : Board) (m : Ply) : Prop :=
  (m.promoted ≠ none → m.piece.pk = .pawn) ∧
  (m.enPassant = true → m.piece.pk = .pawn ∧ b.ep = some m.dest.file)

theorem flags_mk (b : Board) (s d : Square) (k : Kind) : Flags b (mkPly s d k) :=
  ⟨fun h => absurd rfl h, fun h => by simp [mkPly] at h⟩

theorem flags_pawn (b : Board) (sq : Square) (c : Color) (m : Ply) (hm : m ∈ pawnMoveset sq b c) : Flags b m := by
  cases c <;>
  · simp only [pawnMoveset] at hm
    rw [List.mem_flatMap] at hm
    obtain ⟨p, hp, hm⟩ := hm
    have hs : p.piece.pk = .pawn ∧ (p.enPassant = true → b.ep = some p.dest.file) := by
      simp only [List.mem_append] at hp
      rcases hp with ((hp | hp) | hp) | hp
      · rw [List.mem_map] at hp
        obtain ⟨s, _, rfl⟩ := hp
        exact ⟨rfl, fun h => by simp [mkPly] at h⟩
      · split at hp
        · simp only [List.mem_singleton] at hp; subst hp
          exact ⟨rfl, fun h => by simp [mkPly] at h⟩
        · simp at hp
      · split at hp
        · simp only [List.mem_singleton] at hp; subst hp
          exact ⟨rfl, fun h => by simp [mkPly] at h⟩
        · simp at hp
      · split at hp
        · simp only [List.mem_append] at hp
          rcases hp with hp | hp <;> split at hp
          · rename_i he
            simp only [beq_iff_eq] at he
            simp only [List.mem_singleton] at hp; subst hp
            exact ⟨rfl, fun _ => he⟩
          · simp at hp
          · rename_i he
            simp only [beq_iff_eq] at he
            simp only [List.mem_singleton] at hp; subst hp
            exact ⟨rfl, fun _ => he⟩
          · simp at hp
        · simp at hp
    split at hm
    · simp only [List.mem_cons, List.not_mem_nil, or_false] at hm
      rcases hm with rfl | rfl | rfl | rfl <;>
        exact ⟨fun _ => hs.1, fun h => by simp [mkPly] at h⟩
    · simp only [List.mem_singleton] at hm; subst hm
      exact ⟨fun _ => hs.1, fun h => ⟨hs.1, hs.2 h⟩⟩

theorem flags_simple (b : Board) (att : BB) (sq : Square) (pc : Kind) (m : Ply)
    (hm : m ∈ simpleMoveset att sq b pc) : Flags b m := by
  unfold simpleMoveset at hm
  rw [List.mem_map] at hm
  obtain ⟨s, _, rfl⟩ := hm
  exact flags_mk b _ _ _

theorem flags_king (b : Board) (sq : Square) (c : Color) (m : Ply) (hm : m ∈ kingMoveset sq b c) : Flags b m := by
  rw [kingMoveset_eq] at hm
  rcases List.mem_append.mp hm with hm | hm
  · exact flags_simple b _ _ _ m hm
  · unfold castleM at hm
    have key : ∀ d : Square, Flags b { mkPly sq d ⟨.king, c⟩ with isCastles := true } :=
      fun d => ⟨fun h => absurd rfl h, fun h => by simp [mkPly] at h⟩
    rcases List.mem_append.mp hm with hm | hm <;> split at hm
    · rcases List.mem_append.mp hm with hm | hm <;> split at hm
      · rw [List.mem_singleton] at hm; subst hm; exact key _
      · cases hm
      · rw [List.mem_singleton] at hm; subst hm; exact key _
      · cases hm
    · cases hm
    · rcases List.mem_append.mp hm with hm | hm <;> split at hm
      · rw [List.mem_singleton] at hm; subst hm; exact key _
      · cases hm
      · rw [List.mem_singleton] at hm; subst hm; exact key _
      · cases hm
    · cases hm

theorem flags_kind (b : Board) (p : Kind) (sq : Square) (m : Ply) (hm : m ∈ kindMoveset p sq b) : Flags b m := by
  rw [kindMoveset_eq, List.mem_filter] at hm
  obtain ⟨hm, -⟩ := hm
  rcases p with ⟨pk, c⟩
  cases pk <;> simp only at hm
  · exact flags_pawn b sq c m hm
  · exact flags_king b sq c m hm
  all_goals exact flags_simple b _ _ _ m hm

theorem flags_of_mem (b : Board) (m : Ply) (hm : m ∈ b.allMoves) : Flags b m := by
  unfold Board.allMoves at hm
  rw [List.mem_flatMap] at hm
  obtain ⟨i, _, hm⟩ := hm
  dsimp only at hm
  split at hm
  · split at hm
    · cases hm
    · rw [List.mem_map] at hm
      obtain ⟨m0, hm0, rfl⟩ := hm
      have := flags_kind b _ _ m0 hm0
      split <;> exact this
  · cases hm

theorem specCaps_enemy (p : Rules.Pos) (sq : Nat) (c : Rules.Color) (t : Nat) (h : t ∈ specCaps p sq c)
    (q : Rules.Piece) (hq : p.at t = some q) : q.color ≠ c := by
  unfold specCaps at h
  rw [List.mem_filterMap] at h
  obtain ⟨df, _, hcap⟩ := h
  cases hs : Rules.step sq df (Rules.pawnDir c) with
  | none => rw [hs] at hcap; cases hcap
  | some u =>
    rw [hs] at hcap
    simp only at hcap
    cases hu : p.at u with
    | none =>
      rw [hu] at hcap
      simp only at hcap
      generalize (sq / 8 == (if c == .white then 4 else 3) && p.ep == some (u % 8)) = cond at hcap
      cases cond
      · cases hcap
      · injection hcap with e; subst e; rw [hu] at hq; cases hq
    | some q' =>
      rw [hu] at hcap
      simp only at hcap
      cases hc : (q'.color != c)
      · rw [hc] at hcap; cases hcap
      · rw [hc] at hcap
        simp only [if_true] at hcap
        injection hcap with e; subst e
        rw [hu] at hq; injection hq with hq; subst hq
        simpa using hc

/-- spec level: a pseudo-legal move onto an occupied square captures a piece of the other colour standing on
    a square the moving piece attacks -/
theorem specPiece_dst (p : Rules.Pos) (sq : Nat) (pc : Rules.Piece) (mv : Rules.Move)
    (h : mv ∈ specPiece p sq pc) (q : Rules.Piece) (hq : p.at mv.dst = some q) :
    q.color ≠ pc.color ∧ mv.dst ∈ Rules.attacksFrom p sq pc := by
  have simple : ∀ mv : Rules.Move, mv ∈ ((Rules.attacksFrom p sq pc).filter (notOwn p pc.color)).map
      (fun t => (⟨sq, t, none⟩ : Rules.Move)) → p.at mv.dst = some q →
      q.color ≠ pc.color ∧ mv.dst ∈ Rules.attacksFrom p sq pc := by
    intro mv h hq
    rw [List.mem_map] at h
    obtain ⟨t, ht, rfl⟩ := h
    rw [List.mem_filter] at ht
    obtain ⟨h1, h2⟩ := ht
    refine ⟨?_, h1⟩
    unfold notOwn at h2
    simp only at hq
    rw [hq] at h2
    simpa using h2
  rcases pc with ⟨c, k⟩
  cases k
  · -- pawn
    have h' : mv ∈ Rules.pawnMoves p sq c := h
    have hocc : (p.at mv.dst).isSome = true := by rw [hq]; rfl
    refine ⟨?_, pawnMoves_occ p sq c mv h' hocc⟩
    rw [pawnMoves_eq, List.mem_flatMap] at h'
    obtain ⟨t, ht, hmv⟩ := h'
    obtain ⟨hd, _⟩ := specExpand_dst sq c t mv hmv
    subst hd
    rcases List.mem_append.mp ht with hpush | hcap
    · have := specPushes_empty p sq c _ hpush
      rw [hq] at this; cases this
    · exact specCaps_enemy p sq c _ hcap q hq
  · exact simple mv h hq
  · exact simple mv h hq
  · exact simple mv h hq
  · exact simple mv h hq
  · -- king
    rcases List.mem_append.mp h with h | h
    · exact simple mv h hq
    · have := (castleMoves_empty p c mv h).1
      rw [hq] at this; cases this

/-- spec level: every pseudo-legal move belongs to a piece of the side to move -/
theorem pseudoMoves_mem (p : Rules.Pos) (mv : Rules.Move) (h : mv ∈ Rules.pseudoMoves p) :
    ∃ sq pc, sq < 64 ∧ p.at sq = some pc ∧ pc.color = p.turn ∧ mv ∈ specPiece p sq pc := by
  rw [pseudoMoves_eq, List.mem_flatMap] at h
  obtain ⟨sq, hsq, h⟩ := h
  rw [List.mem_range] at hsq
  cases hp : p.at sq with
  | none => rw [hp] at h; cases h
  | some pc =>
    rw [hp] at h
    simp only at h
    cases hc : (pc.color != p.turn)
    · rw [hc] at h
      simp only [Bool.false_eq_true, if_false] at h
      exact ⟨sq, pc, hsq, hp, by simpa using hc, h⟩
    · rw [hc] at h; cases h

theorem opp_opp (c : Color) : c.opp.opp = c := by cases c <;> rfl
theorem opp_ne (c : Color) : c.opp ≠ c := by cases c <;> decide

/-- what a generated move finds on its destination square is never a king, and never a piece of the mover's colour -/
theorem dest_piece (b : Board) (hl : Legal b) (m : Ply) (hm : m ∈ b.allMoves) (k : Kind)
    (hk : b.pieceAt m.dest = some k) : k.color = b.turn.opp ∧ k.pk ≠ .king := by
  have hw := hl.wf
  have g := gen_of_mem b hw m hm
  have hmem : absMove m ∈ Rules.pseudoMoves (abs b) :=
    (pseudo_exact' b hl).1.mem_iff.mp (List.mem_map.mpr ⟨m, hm, rfl⟩)
  obtain ⟨sq, pc, hsq, hat, hcol, hsp⟩ := pseudoMoves_mem _ _ hmem
  have hdst : (abs b).at (absMove m).dst = some (absPiece k) := by
    show (abs b).at m.dest.idx = _
    rw [abs_at_sq b m.dest g.ird, hk]; rfl
  obtain ⟨hne, hatt⟩ := specPiece_dst _ _ _ _ hsp _ hdst
  have hkc : k.color = b.turn.opp := by
    have : absColor k.color ≠ absColor b.turn := by
      intro e; apply hne; rw [hcol]; exact e
    rw [Ne, absColor_inj] at this
    revert this; cases k.color <;> cases b.turn <;> simp [Color.opp]
  refine ⟨hkc, ?_⟩
  intro hking
  have hk' : b.pieceAt m.dest = some ⟨.king, b.turn.opp⟩ := by
    rw [hk]; rcases k with ⟨pk, c⟩; simp only at hking hkc; rw [hking, hkc]
  -- the king of the side that just moved would be attacked
  have hatk : Rules.attacked (abs b) m.dest.idx (absColor b.turn) = true := by
    unfold Rules.attacked Rules.squares
    rw [List.any_eq_true]
    refine ⟨sq, List.mem_range.mpr hsq, ?_⟩
    rw [hat]
    simp only [Bool.and_eq_true, beq_iff_eq, List.contains_eq_mem, decide_eq_true_eq]
    exact ⟨hcol, hatt⟩
  obtain ⟨s, hs, hks, hu⟩ := kings_of_present b hl.kings b.turn.opp
  have hds : m.dest = s := hu m.dest g.ird hk'
  have hchk := inCheck_exact' b hw hl.kings b.turn.opp
  unfold Rules.inCheck at hchk
  rw [kingSq_abs b b.turn.opp s hs hks hu] at hchk
  simp only at hchk
  rw [← absColor_opp, opp_opp, ← hds, hatk, hl.safe] at hchk
  cases hchk

/-! ### the board after `make_move`: where the kings are -/

theorem ep_capture_pawn (b : Board) (hw : WF b) (m : Ply) (g : Gen b m) (fl : Flags b m)
    (he : m.enPassant = true) :
    b.bbs.pieceAt (capSq m.start m.dest m.enPassant) = some ⟨.pawn, b.turn.opp⟩ := by
  obtain ⟨_, hep⟩ := fl.2 he
  obtain ⟨_, h2, _⟩ := hw.ep.2 _ hep
  obtain ⟨_, hr, _⟩ := g.shape.ep he
  rw [he]
  unfold capSq
  simp only [if_true]
  rw [hr]
  exact h2

theorem capSq_noking (b : Board) (hl : Legal b) (m : Ply) (hm : m ∈ b.allMoves) (c : Color) :
    b.bbs.pieceAt (capSq m.start m.dest m.enPassant) ≠ some ⟨.king, c⟩ ∧
    b.bbs.pieceAt m.dest ≠ some ⟨.king, c⟩ := by
  have g := gen_of_mem b hl.wf m hm
  have hd : b.bbs.pieceAt m.dest ≠ some ⟨.king, c⟩ := fun h => (dest_piece b hl m hm _ h).2 rfl
  refine ⟨?_, hd⟩
  cases he : m.enPassant
  · unfold capSq; simp only [Bool.false_eq_true, if_false]; exact hd
  · have := ep_capture_pawn b hl.wf m g (flags_of_mem b m hm) he
    rw [he] at this
    rw [this]
    intro e; injection e with e; injection e with e1 _; cases e1

theorem viewMove_king (b : Board) (hl : Legal b) (m : Ply) (hm : m ∈ b.allMoves) (c : Color) (s : Square)
    (hs : IR s) :
    viewMove b.bbs.pieceAt m.start m.dest m.piece m.promoted m.enPassant s = some ⟨.king, c⟩ ↔
      (if m.piece = ⟨.king, c⟩ then s = m.dest else b.bbs.pieceAt s = some ⟨.king, c⟩) := by
  have g := gen_of_mem b hl.wf m hm
  have fl := flags_of_mem b m hm
  have hstart : b.bbs.pieceAt m.start = some m.piece := g.shape.piece
  obtain ⟨hcs, hdn⟩ := capSq_noking b hl m hm c
  unfold viewMove
  by_cases hpk : m.piece = ⟨.king, c⟩
  · rw [if_pos hpk]
    have hpr : m.promoted = none := by
      cases hq : m.promoted with
      | none => rfl
      | some q =>
        have := fl.1 (by rw [hq]; exact fun e => by cases e)
        rw [hpk] at this; cases this
    constructor
    · intro h
      by_cases e : s = m.dest
      · exact e
      · exfalso
        rw [if_neg e] at h
        by_cases e2 : s = m.start
        · rw [if_pos e2] at h; cases h
        · rw [if_neg e2] at h
          split at h
          · cases h
          · obtain ⟨k, _, _, hu⟩ := kings_of_present b hl.kings c
            have h1 := hu s hs h
            have h2 := hu m.start g.irs (by rw [← hpk]; exact hstart)
            exact e2 (h1.trans h2.symm)
    · intro e
      rw [if_pos e, hpr, hpk]; rfl
  · rw [if_neg hpk]
    constructor
    · intro h
      by_cases e : s = m.dest
      · exfalso
        rw [if_pos e] at h
        cases hq : m.promoted with
        | none => rw [hq] at h; injection h with h; exact hpk h
        | some q =>
          rw [hq] at h; injection h with h
          simp only [Option.getD_some] at h
          have := g.shape.promo q hq
          rw [h] at this; exact this rfl
      · rw [if_neg e] at h
        by_cases e2 : s = m.start
        · rw [if_pos e2] at h; cases h
        · rw [if_neg e2] at h
          split at h
          · cases h
          · exact h
    · intro h
      have e1 : s ≠ m.dest := fun e => hdn (e ▸ h)
      have e2 : s ≠ m.start := by
        intro e; rw [e, hstart] at h; injection h with h; exact hpk h
      have e3 : s ≠ capSq m.start m.dest m.enPassant := fun e => hcs (e ▸ h)
      rw [if_neg e1, if_neg e2, if_neg e3]; exact h

theorem finalView_king (b : Board) (hl : Legal b) (m : Ply) (hm : m ∈ b.allMoves) (c : Color) (s : Square)
    (hs : IR s) :
    finalView b m s = some ⟨.king, c⟩ ↔
      (if m.piece = ⟨.king, c⟩ then s = m.dest else b.bbs.pieceAt s = some ⟨.king, c⟩) := by
  have hw := hl.wf
  have g := gen_of_mem b hw m hm
  rw [← viewMove_king b hl m hm c s hs]
  unfold finalView castleView
  cases hc : m.isCastles
  · simp only [Bool.false_eq_true, if_false]
  · obtain ⟨rs, rd, hcr, irs, ird, hne, n1, n2, n3, n4, hr, hrd, hdn, hep, hpr, hpc, -, -, -⟩ :=
      castle_squares b hw m g hc
    simp only [if_true, hcr]
    -- the inner view at the rook squares
    have hv : ∀ t, t ≠ m.start → t ≠ m.dest →
        viewMove b.bbs.pieceAt m.start m.dest m.piece m.promoted m.enPassant t = b.bbs.pieceAt t := by
      intro t e1 e2
      unfold viewMove; rw [if_neg e2, if_neg e1, hep]; simp [capSq, e2]
    have h1 := hv rs n1 n2
    have h2 := hv rd n3 n4
    generalize viewMove b.bbs.pieceAt m.start m.dest m.piece m.promoted m.enPassant = v1 at h1 h2 ⊢
    unfold viewMove
    by_cases e1 : s = rd
    · subst e1
      rw [if_pos rfl, h2, hrd]
      constructor <;> intro h
      · injection h with h; injection h with h _; cases h
      · cases h
    · rw [if_neg e1]
      by_cases e2 : s = rs
      · subst e2
        rw [if_pos rfl, h1, hr]
        constructor <;> intro h
        · cases h
        · injection h with h; injection h with h _; cases h
      · rw [if_neg e2]
        simp only [capSq, Bool.false_eq_true, if_false, if_neg e1]

/-- `MakeKeeps`, proved: `make_move` over a generated move of a legal position keeps the representation
    invariant and both kings -/
theorem makeKeeps_proved (b : Board) (m : Ply) (hl : Legal b) (hm : m ∈ b.allMoves) :
    WF (b.makeMove m) ∧ KingsPresent (b.makeMove m) := by
  have hw := hl.wf
  have g := gen_of_mem b hw m hm
  refine ⟨makeMove_wf b m hw g, ?_⟩
  obtain ⟨_, vb, -⟩ := bbs_ok b hw m g
  have hbbs : (b.makeMove m).bbs = newBBS b m := by rw [makeMove_eq]; rfl
  have hview : ∀ s, IR s → ∀ c, (b.makeMove m).pieceAt s = some ⟨.king, c⟩ ↔
      (if m.piece = ⟨.king, c⟩ then s = m.dest else b.pieceAt s = some ⟨.king, c⟩) := by
    intro s hs c
    show (b.makeMove m).bbs.pieceAt s = _ ↔ _
    rw [hbbs, vb s hs]
    exact finalView_king b hl m hm c s hs
  have hex : ∀ c, ∃ s : Square, s.rank < 8 ∧ s.file < 8 ∧ (b.makeMove m).pieceAt s = some ⟨.king, c⟩ := by
    intro c
    by_cases hpk : m.piece = ⟨.king, c⟩
    · refine ⟨m.dest, g.ird.1, g.ird.2, ?_⟩
      rw [hview m.dest g.ird c, if_pos hpk]
    · obtain ⟨k, hk, hkk, _⟩ := kings_of_present b hl.kings c
      refine ⟨k, hk.1, hk.2, ?_⟩
      rw [hview k hk c, if_neg hpk]; exact hkk
  refine ⟨hex .white, hex .black, ?_⟩
  intro s t hs1 hs2 ht1 ht2 c h1 h2
  rw [hview s ⟨hs1, hs2⟩ c] at h1
  rw [hview t ⟨ht1, ht2⟩ c] at h2
  by_cases hpk : m.piece = ⟨.king, c⟩
  · rw [if_pos hpk] at h1 h2; rw [h1, h2]
  · rw [if_neg hpk] at h1 h2
    exact hl.kings.2.2 s t hs1 hs2 ht1 ht2 c h1 h2

end RCE.Proofs.MoveGen
