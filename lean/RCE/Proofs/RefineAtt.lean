import RCE.Proofs.RefineGen
import RCE.Proofs.Abs
/-! `get_attacked_squares` as a union over the mailbox, and its consequence for legal-game positions:
    no generated move captures a king. -/
namespace RCE.Proofs.RefineAtt
open RCE RCE.Proofs.BoardBits RCE.Proofs.BoardWF RCE.Proofs.BoardPBB RCE.Proofs.BoardGen RCE.Proofs.RefineGen
  RCE.Proofs.Abs

def attackersBB (b : Board) (c : Color) : BB := match c with | .white => b.bbs.black | .black => b.bbs.white

/-- the contribution of one square to `get_attacked_squares(c)` -/
def contrib (b : Board) (c : Color) (sq : Nat) : BB :=
  if attackersBB b c &&& bit sq == 0 then 0
  else match b.pieceAt (Square.ofIdx sq) with
    | some p => kindAttacks p sq b.bbs.all
    | none => 0

theorem fold_or (g : Nat → BB) (l : List Nat) (acc : BB) (t : Nat) (ht : t < 64) :
    testBit (l.foldl (fun a sq => a ||| g sq) acc) t = (testBit acc t || l.any fun sq => testBit (g sq) t) := by
  induction l generalizing acc with
  | nil => simp
  | cons x xs ih =>
    rw [List.foldl_cons, ih, testBit_or _ _ _ ht, List.any_cons, Bool.or_assoc]

theorem attackedSquares_eq (b : Board) (c : Color) :
    b.attackedSquares c = (List.range 64).foldl (fun a sq => a ||| contrib b c sq) 0 := by
  unfold Board.attackedSquares
  dsimp only
  congr 1
  funext a sq
  show (if (attackersBB b c &&& bit sq == 0) = true then a else _) = _
  unfold contrib
  by_cases h : (attackersBB b c &&& bit sq == 0) = true
  · rw [if_pos h, if_pos h]; simp
  · rw [if_neg h, if_neg h]
    cases b.pieceAt (Square.ofIdx sq) <;> simp

theorem attacked_iff (b : Board) (c : Color) (t : Nat) (ht : t < 64) :
    testBit (b.attackedSquares c) t = true ↔ ∃ sq, sq < 64 ∧ testBit (contrib b c sq) t = true := by
  rw [attackedSquares_eq, fold_or _ _ _ _ ht, testBit_zero _ ht, Bool.false_or, List.any_eq_true]
  constructor
  · rintro ⟨sq, h1, h2⟩; exact ⟨sq, List.mem_range.mp h1, h2⟩
  · rintro ⟨sq, h1, h2⟩; exact ⟨sq, List.mem_range.mpr h1, h2⟩

theorem attackers_same (b : Board) (c : Color) : attackersBB b c.opp = sameColorBB b c := by
  cases c <;> rfl

/-- a piece of the side to move attacks what its attack set says -/
theorem attacked_of_piece (b : Board) (hw : PBB.WF b.bbs) (s : Square) (hs : IR s) (p : Kind)
    (hp : b.pieceAt s = some p) (t : Nat) (ht : t < 64)
    (ha : testBit (kindAttacks p s.idx b.bbs.all) t = true) :
    testBit (b.attackedSquares p.color.opp) t = true := by
  rw [attacked_iff _ _ _ ht]
  refine ⟨s.idx, idx_lt s hs, ?_⟩
  unfold contrib
  rw [attackers_same, and_bit_eq_zero _ _ (idx_lt s hs)]
  have : testBit (sameColorBB b p.color) s.idx = true := (sameColor_iff b hw s hs _).mpr ⟨p, hp, rfl⟩
  rw [this, ofIdx_of_idx s hs, hp]
  simpa using ha

theorem opp_opp (c : Color) : c.opp.opp = c := by cases c <;> rfl
theorem opp_of_ne (c d : Color) (h : c ≠ d) : c = d.opp := by cases c <;> cases d <;> first | rfl | exact absurd rfl h

def kingBB (b : Board) (c : Color) : BB := match c with | .white => b.bbs.wk | .black => b.bbs.bk

theorem inCheck_of (b : Board) (hw : PBB.WF b.bbs) (c : Color) (s : Square) (hs : IR s)
    (hk : b.pieceAt s = some ⟨.king, c⟩) (ha : testBit (b.attackedSquares c) s.idx = true) :
    b.isInCheck c = true := by
  have hi := idx_lt s hs
  have h1 := (pieceAt_iff _ hw s hs _).mp hk
  have h1' : testBit (kingBB b c) s.idx = true := by cases c <;> exact h1
  unfold Board.isInCheck
  show (kingBB b c &&& b.attackedSquares c != 0) = true
  simp only [bne_iff_ne, ne_eq]
  intro h0
  have := (eq_zero_iff _).mp h0 _ hi
  rw [testBit_and _ _ _ hi, h1', ha] at this
  cases this

/-- in a legal-game position no generated move lands on a king -/
theorem no_king_capture (b : Board) (hl : Legal b) (m : Ply) (g : Gen b m) (g2 : Gen2 b m) (c : Color) :
    b.pieceAt m.dest ≠ some ⟨.king, c⟩ := by
  intro hk
  have hc : c = b.turn.opp := opp_of_ne _ _ (g2.notown _ hk)
  have ha := g2.att (by rw [hk]; exact fun h => by cases h)
  have := attacked_of_piece b hl.wf.bbs m.start g.irs m.piece g.shape.piece _ (idx_lt _ g.ird) ha
  rw [g.shape.color, ← hc] at this
  have := inCheck_of b hl.wf.bbs c m.dest g.ird hk this
  rw [hc, hl.safe] at this
  cases this

end RCE.Proofs.RefineAtt
