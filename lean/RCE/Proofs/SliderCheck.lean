import RCE.Proofs.BitLemmas
import RCE.Proofs.Deposit
import RCE.Proofs.Fill
import RCE.Spec.Rules
/-! The per-square checker for magic slider tables and its soundness theorem (C06). -/
namespace RCE.Proofs.SliderCheck
open RCE RCE.Proofs.Bits RCE.Proofs.Deposit

/-- the ray table without the array (kernel-cheap) -/
def rayT' (idx dir : Nat) : BB := if idx < 64 then ray idx dir else 0

/-- what `cutRay` removes, as a function of the blockers on the ray -/
def cc (dir : Nat) (fwd : Bool) (y : BB) : BB :=
  if y != 0 then rayT' (if fwd then bsf y else bsr y) dir else 0

structure Dir where
  d : Nat
  fwd : Bool
  v : Int × Int

def slow4 (sq : Nat) (D1 D2 D3 D4 : Dir) (x : BB) : BB :=
  let a := rayT sq D1.d ||| rayT sq D2.d ||| rayT sq D3.d ||| rayT sq D4.d
  cutRay (cutRay (cutRay (cutRay a sq D1.d D1.fwd x) sq D2.d D2.fwd x) sq D3.d D3.fwd x) sq D4.d D4.fwd x

structure Cfg where
  sq : Nat
  D1 : Dir
  D2 : Dir
  D3 : Dir
  D4 : Dir
  mask : BB
  magic : BB
  bits : Nat
  size : Nat

/-- the attacked part of one ray, as a function of the blockers on the ray -/
def seg (sq : Nat) (D : Dir) (y : BB) : BB := rayT' sq D.d &&& ~~~ cc D.d D.fwd y

def rmask (c : Cfg) (D : Dir) : BB := c.mask &&& rayT' c.sq D.d

def fullRay (sq : Nat) (v : Int × Int) : List Nat := Rules.slideOcc (fun _ => false) sq v 7

def rayOK (c : Cfg) (D o1 o2 o3 : Dir) : Bool :=
  let mi := rmask c D
  let ps := bitIndices mi
  decide (D.d < 8) &&
  (orBits ps == mi) &&
  (fullRay c.sq D.v).all (fun t => decide (t < 64) && (!(Rules.step t D.v.1 D.v.2).isSome || testBit mi t)) &&
  (subsOf ps).all fun y =>
    let l := Rules.slideOcc (fun t => testBit y t) c.sq D.v 7
    l.all (fun t => decide (t < 64)) && (orBits l == seg c.sq D y) &&
    (cc D.d D.fwd y &&& rayT' c.sq o1.d == 0) &&
    (cc D.d D.fwd y &&& rayT' c.sq o2.d == 0) &&
    (cc D.d D.fwd y &&& rayT' c.sq o3.d == 0)

def layer (c : Cfg) (D : Dir) : List (BB × BB) :=
  (subsOf (bitIndices (rmask c D))).map fun y => (y, seg c.sq D y)

def cross (E L : List (BB × BB)) : List (BB × BB) :=
  E.flatMap fun e => L.map fun l => (e.1 ||| l.1, e.2 ||| l.2)

def pairs (c : Cfg) : List (BB × BB) :=
  cross (cross (cross (layer c c.D1) (layer c c.D2)) (layer c c.D3)) (layer c c.D4)

/-! ### kernel-strict evaluation helpers (semantically identities) -/

/-- forces `n` to a literal before continuing (the kernel evaluates the `match` scrutinee) -/
def forceNat {α : Type} (n : Nat) (k : Nat → α) : α :=
  match n with
  | 0 => k 0
  | m+1 => k (m+1)

theorem forceNat_eq {α : Type} (n : Nat) (k : Nat → α) : forceNat n k = k n := by
  cases n <;> rfl

def forceList {α : Type} : List (Nat × Nat) → (List (Nat × Nat) → α) → α
  | [], k => k []
  | e :: t, k => forceNat e.1 fun a => forceNat e.2 fun b => forceList t fun t' => k ((a, b) :: t')

theorem forceList_eq {α : Type} (l : List (Nat × Nat)) (k : List (Nat × Nat) → α) : forceList l k = k l := by
  induction l generalizing k with
  | nil => rfl
  | cons e t ih => simp only [forceList, forceNat_eq, ih]

def layerN (c : Cfg) (D : Dir) : List (Nat × Nat) := (layer c D).map fun e => (e.1.toNat, e.2.toNat)

def crossN (E L : List (Nat × Nat)) : List (Nat × Nat) :=
  E.flatMap fun e => L.map fun l => (e.1 ||| l.1, e.2 ||| l.2)

def keyN (x Mn s : Nat) : Nat := ((x * Mn) % 2 ^ 64) >>> s

/-- one strict partition pass on key bit `j` -/
def part (j : Nat) : List (Nat × Nat) → List (Nat × Nat) → List (Nat × Nat) → List (Nat × Nat) × List (Nat × Nat)
  | [], a, b => (a, b)
  | e :: t, a, b =>
    match Nat.mod (Nat.shiftRight e.1 j) 2 with
    | 0 => part j t a (e :: b)
    | _+1 => part j t (e :: a) b

/-- radix partition on the key bits; at the leaves all entries must be identical -/
def radix : Nat → Nat → List (Nat × Nat) → Bool
  | _, _, [] => true
  | 0, _, e :: t => t.all fun e' => Nat.beq e'.1 e.1 && Nat.beq e'.2 e.2
  | d+1, j, e :: t =>
    match part j (e :: t) [] [] with
    | (a, b) => radix d (j+1) a && radix d (j+1) b

def mainOK (c : Cfg) : Bool :=
  forceList (layerN c c.D1) fun L1 => forceList (layerN c c.D2) fun L2 =>
  forceList (layerN c c.D3) fun L3 => forceList (layerN c c.D4) fun L4 =>
  forceNat c.magic.toNat fun Mn => forceNat ((64 - c.bits).toUInt64.toNat % 64) fun s =>
  forceList ((crossN (crossN (crossN L1 L2) L3) L4).map fun e => (keyN e.1 Mn s, e.2)) fun kv =>
    kv.all (fun e => decide (e.1 < c.size)) && radix c.bits 0 kv

def sliderOK (c : Cfg) : Bool :=
  let ps := posList (popcount c.mask) c.mask
  decide (ps.length ≤ c.bits) && (orBits ps == c.mask) &&
  (rmask c c.D1 ||| rmask c c.D2 ||| rmask c c.D3 ||| rmask c c.D4 == c.mask) &&
  rayOK c c.D1 c.D2 c.D3 c.D4 && rayOK c c.D2 c.D1 c.D3 c.D4 &&
  rayOK c c.D3 c.D1 c.D2 c.D4 && rayOK c c.D4 c.D1 c.D2 c.D3 &&
  mainOK c

def rookCfg (sq : Nat) : Cfg :=
  { sq := sq, D1 := ⟨dN, true, (0, 1)⟩, D2 := ⟨dE, true, (1, 0)⟩, D3 := ⟨dS, false, (0, -1)⟩, D4 := ⟨dW, false, (-1, 0)⟩,
    mask := rookMask sq, magic := rookMagic sq, bits := rookBitsAt sq, size := Gen.rookTableSize }

def bishopCfg (sq : Nat) : Cfg :=
  { sq := sq, D1 := ⟨dNW, true, (-1, 1)⟩, D2 := ⟨dNE, true, (1, 1)⟩, D3 := ⟨dSW, false, (-1, -1)⟩, D4 := ⟨dSE, false, (1, -1)⟩,
    mask := bishopMask sq, magic := bishopMagic sq, bits := bishopBitsAt sq, size := Gen.bishopTableSize }

end RCE.Proofs.SliderCheck
