import RCE.Proofs.SearchMateOne
/-! # "Once a 3-ply iteration has completed, the chosen move keeps a forced mate if a mate in two exists"

Second clause of the mate-finding property (the first, "a mate in one is played", is `SearchMateOne.lean`).  Soundness is
`SearchMate.mate_score_sound_partial`: a final score `≥ MAXS − 255` means the chosen move keeps a forced mate.  What is
proved here is COMPLETENESS: the mate score is reached.

## The statement as specified is FALSE

`Counter.mate_in_two_first_search_refuted`, `Counter.mate_in_two_kept_refuted`: already for the first search of a
position (empty cache, cache on, no limits), with an injective key and a game without draws, a completed 3-ply
iteration can end with a non-mate score and a move that does not keep any forced mate although a mate in two exists.
The game and the run are described at `namespace Counter`.  The cause is the depth accounting of the cache around the
check extension (entries are stored with the extended depth and compared with the asked depth) together with lower
bounds read from the cache; it needs a key move that gives check and a transposition into the position after it.

## What is true (`mate_in_two_found`, `mate_in_two_kept`, `mate_in_two_kept_four`, `mate_in_two_kept_again`)

For every game, root, depth limit, environment (any limits, stop point, monotone clock; cache on or off) and initial
cache satisfying `MateTwoInv` (the empty cache does; every search re-establishes it, completed or not, so the result
extends to any number of successive searches of the position):

* if the key move of a mate in two is QUIET, then once a 3-ply iteration has completed the reported score is a mate
  score and the chosen move keeps a forced mate;
* for ANY key move the same holds once a 4-ply iteration has completed.  (`Counter.mate_in_two_checking_key_refuted`:
  3 plies are not enough for a checking key move.)

Depth budget (question 1): the root asks the key move's child `c` for depth `D − 1`, `c` asks each reply's child `g`
for `D − 2 (+1 if c is in check)`, `g` asks the mated `h` for one less, and `h`, being in check, is extended to
depth ≥ 1 and returns `MINS + ply` from the empty move loop whatever was asked: `D = 3` suffices.

Bounds (question 2): no exact values are needed.  `RetOK`: a mated node returns `MINS + ply`; a node that mates at once
(`W1`) returns `≥ β` or a score in the win band `≥ 32512`; a node that is mated in two (`L2`), asked deep enough,
returns `≤ α` or a score in the loss band `≤ −32512`.  The PVS null windows preserve this (`pvsCore_C`), fail-hard
returns are covered by the `≥ β` / `≤ α` alternatives, and at the root `β = MAXS` is never reached by a sound score
(`SearchMate.Rng`, where `NoMateInOne` enters), so the key move lifts the root's α into the win band.

The cache (question 3): `CInv`, a completeness invariant for the entries under the keys of the three kinds of nodes:
nothing is stored for a mated node; a `W1` node has no upper-bound or exact entry below the win band; an `L2` node has
no lower-bound entry of depth ≥ 2 and no exact entry of depth ≥ `thr` (2, or 3 if it is in check) above the loss band.
Every write of `ab` keeps it (`abKids_C`, `ab_C`); reads are analysed in `probe_inl_C` / `probe_inr_C`.

Mate distances (question 4): a transposed entry misstates the distance by the ply difference; only the bands are
used, and the conclusion is `Lost` (a forced mate of any length) plus "the score is in the win band".

## Hypotheses beyond those of the other search theorems, and why

* `NoMateInOne` — from the soundness development: after a mate in one the windows are empty and the cache is
  polluted (`SearchMate.Counter`); with a mate in one the first clause applies instead.
* the draw tests: a node that is declared a draw (fifty-move rule, repetition) returns 0 before the mate test, so
  the nodes of the mating lines must not be.  The weakest form is built into `M0` / `W1` / `L2` (only the key move's
  child, the children of the replies and one mated grandchild per reply are concerned) and is what
  `mate_in_two_found` takes; `NoDrawBelow3` ("no position within three plies of the root is a draw": no prior
  history, small half-move clock) is the convenient form.  `Counter.mate_in_two_draws_allowed_refuted`: needed.
* `LineKeys` — the key hypothesis, in the style of `SearchMateOne.MatedKeysFresh`: a node of the tree that shares its
  key with a node of one of the three kinds never writes (`Silent`), or is of the same kind (and not deeper than ply
  250: at ply 255 every node returns 0).  This is where the graph-history interaction is assumed away: a position
  with the key of a `W1` node whose own mating move runs into a repetition on its path is not `W1`, would store a
  non-mate score under that key, and the mating line would read it.  `KeyMate` does not give this
  (`Counter.mate_in_two_keyMate_only_refuted`).  `lineKeys_of_inj`: a key that is injective on the tree gives it.
* quiet key move, or one more ply — see the counterexample.

## What is missing

* Checking key move at 3 plies: false in general (`GC`); conjectured true when no other node of the tree has the key
  of the key move's child (then a lower bound of that child never meets a full window — an argument over the order of
  events at the root, not carried out).  In chess the transposition needs the same position at plies 1 and 5 with
  three check extensions in between.
* `Counter.mate_in_two_keyMate_only_refuted` shows that `KeyMate` alone does not suffice; no counterexample is given
  for the ply bound 250 in `LineKeys`.
* The chess instantiation (`LineKeys` for the Zobrist key) is not attempted. -/
namespace RCE.Proofs.SearchMateTwo
open RCE.Search RCE.Proofs.SearchDefs RCE.Proofs.SearchUnfold RCE.Proofs.SearchBest RCE.Proofs.SearchAbort
open RCE.Proofs.SearchMate (Mated TInv StrictScores Rng NoMateInOne)
open RCE.Proofs.SearchMateOne (Mates Silent)

variable {P M : Type} [DecidableEq M]
set_option linter.unusedSectionVars false
set_option linter.unusedVariables false

/-! ## statement-level definitions -/

/-- `m` is the key move of a mate in two: it is legal, the opponent has a reply, and after every legal reply the
    mover mates in one -/
def MateInTwoBy (G : Game P M) (p : P) (m : M) : Prop :=
  m ∈ legalMovesOf G p ∧ legalMovesOf G (G.play p m) ≠ [] ∧
  ∀ r ∈ legalMovesOf G (G.play p m), ∃ x, Mates G (G.play (G.play p m) r) x

/-! ## the positive result: definitions -/

/-- a mated position that the engine sees as such: not declared a draw before the mate test -/
def M0 (G : Game P M) (h : P) : Prop := G.fifty h = false ∧ G.repeated h = false ∧ Mated G h

/-- the side to move mates at once (and the engine sees it) -/
def W1 (G : Game P M) (g : P) : Prop :=
  G.fifty g = false ∧ G.repeated g = false ∧ ∃ x ∈ legalMovesOf G g, M0 G (G.play g x)

/-- the side to move is mated in two whatever it plays (and the engine sees it); `b` = "is in check" -/
def L2 (G : Game P M) (b : Bool) (c : P) : Prop :=
  G.fifty c = false ∧ G.repeated c = false ∧ G.inCheck c = b ∧ legalMovesOf G c ≠ [] ∧
  ∀ r ∈ legalMovesOf G c, W1 G (G.play c r)

/-- the depth that must be requested of an `L2` node for the result to be trusted: one more if it is in check -/
def thr (b : Bool) : Nat := if b then 3 else 2

theorem thr_ge (b : Bool) : 2 ≤ thr b := by unfold thr; split <;> omega

/-- the positions the search can visit at ply `n ≥ 1` (children are entered by legal moves only) -/
inductive TreeAt (G : Game P M) (p : P) : Nat → P → Prop
  | child {m : M} : m ∈ legalMovesOf G p → TreeAt G p 1 (G.play p m)
  | step {n : Nat} {q : P} {m : M} : TreeAt G p n q → m ∈ legalMovesOf G q → TreeAt G p (n + 1) (G.play q m)

theorem TreeAt.reach {G : Game P M} {p : P} {n : Nat} {q : P} (h : TreeAt G p n q) : Reach G p q := by
  induction h with
  | child hm => exact Reach.step Reach.refl (List.mem_filter.1 hm).1
  | step _ hm ih => exact Reach.step ih (List.mem_filter.1 hm).1

theorem TreeAt.pos {G : Game P M} {p : P} {n : Nat} {q : P} (h : TreeAt G p n q) : 1 ≤ n := by
  cases h with
  | child _ => exact Nat.le_refl _
  | step _ _ => omega

/-- The key hypothesis.  Among the positions of the tree below the root, a node `q` that shares its key with a node
    `q'` of one of the three kinds of the mating lines either never writes to the cache (`Silent`) or is of the same
    kind, and then not deeper than ply 250 (at ply 255 every node returns 0, so a `W1` node at ply 254 would store a
    wrong score); and the root's key is not that of a `W1` node of the tree (the root's entry of an early iteration
    carries no mate score).  All of it holds for a key that is injective on the tree and the root, if the tree has no
    such node below ply 250. -/
structure LineKeys (G : Game P M) (p : P) : Prop where
  mated : ∀ {n q n' q'}, TreeAt G p n q → TreeAt G p n' q' → G.key q = G.key q' → M0 G q' → Silent G q
  won : ∀ {n q n' q'}, TreeAt G p n q → TreeAt G p n' q' → G.key q = G.key q' → W1 G q' → Silent G q ∨ (W1 G q ∧ n ≤ 250)
  lost : ∀ {n q n' q'} (b : Bool), TreeAt G p n q → TreeAt G p n' q' → G.key q = G.key q' → L2 G b q' →
    Silent G q ∨ (L2 G b q ∧ n ≤ 250)
  root : ∀ {n' q'}, TreeAt G p n' q' → W1 G q' → G.key q' ≠ G.key p

/-- what the cache may hold for a node of the tree: nothing for a mated node; for a `W1` node no upper bound or exact
    score below the mate band; for an `L2` node no lower bound of depth ≥ 2 and no exact score of depth ≥ `thr`
    above the mated band -/
def EntryOK (G : Game P M) (q : P) (e : Entry M) : Prop :=
  ¬ M0 G q ∧ (W1 G q → e.bound ≠ .lower → 32512 ≤ e.score) ∧
  ∀ b, L2 G b q → (e.bound = .lower → 2 ≤ e.depth → e.score ≤ -32512) ∧
                   (e.bound = .exact → thr b ≤ e.depth → e.score ≤ -32512)

/-- the completeness invariant of the cache -/
def CInv (G : Game P M) (p : P) (tt : Table M) : Prop :=
  ∀ n q, TreeAt G p n q → ∀ e, tt[G.key q]? = some e → EntryOK G q e

theorem cinv_empty (G : Game P M) (p : P) : CInv G p ({} : Table M) := by
  intro n q _ e h; simp at h

theorem not_silent {G : Game P M} {q : P} (hf : G.fifty q = false) (hr : G.repeated q = false) {m : M}
    (hm : m ∈ legalMovesOf G q) : ¬ Silent G q := by
  rintro (h | h | h)
  · rw [hf] at h; cases h
  · rw [hr] at h; cases h
  · rw [h] at hm; exact absurd hm List.not_mem_nil

theorem cinv_insert {G : Game P M} {p : P} (hL : LineKeys G p) {tt : Table M} (hC : CInv G p tt) {n0 : Nat} {q0 : P}
    (hq0 : TreeAt G p n0 q0) (hns : ¬ Silent G q0) (e : Entry M)
    (hw : W1 G q0 → n0 ≤ 250 → e.bound ≠ .lower → 32512 ≤ e.score)
    (hl : ∀ b, L2 G b q0 → n0 ≤ 250 → (e.bound = .lower → 2 ≤ e.depth → e.score ≤ -32512) ∧
      (e.bound = .exact → thr b ≤ e.depth → e.score ≤ -32512)) :
    CInv G p (tt.insert (G.key q0) e) := by
  intro n q hq e' he'
  rw [Std.HashMap.getElem?_insert] at he'
  split at he'
  · rename_i heq
    have heq' : G.key q0 = G.key q := by simpa using heq
    cases he'
    refine ⟨fun hm => hns (hL.mated hq0 hq heq' hm), ?_, ?_⟩
    · intro hw'
      rcases hL.won hq0 hq heq' hw' with hs | ⟨h1, h2⟩
      · exact absurd hs hns
      · exact hw h1 h2
    · intro b hl'
      rcases hL.lost b hq0 hq heq' hl' with hs | ⟨h1, h2⟩
      · exact absurd hs hns
      · exact hl b h1 h2
  · exact hC n q hq e' he'

theorem l2_lost {G : Game P M} {b : Bool} {c : P} (h : L2 G b c) : Lost G c := by
  refine Lost.all h.2.2.2.1 ?_
  intro r hr
  obtain ⟨_, _, x, hx, _, _, hM⟩ := h.2.2.2.2 r hr
  exact Won.some x hx (Lost.mate hM.1 hM.2)

theorem w1_won {G : Game P M} {g : P} (h : W1 G g) : Won G g := by
  obtain ⟨_, _, x, hx, _, _, hM⟩ := h
  exact Won.some x hx (Lost.mate hM.1 hM.2)

theorem m0_lost {G : Game P M} {h : P} (hm : M0 G h) : Lost G h := Lost.mate hm.2.2.1 hm.2.2.2

/-- saving the root's entry -/
theorem cinv_insert_root {G : Game P M} {p : P} (hk : KeyMate G) (hL : LineKeys G p) (hw : Won G p) {tt : Table M}
    (hC : CInv G p tt) (e : Entry M) : CInv G p (tt.insert (G.key p) e) := by
  intro n q hq e' he'
  rw [Std.HashMap.getElem?_insert] at he'
  split at he'
  · rename_i heq
    have heq' : G.key p = G.key q := by simpa using heq
    have hnl : ¬ Lost G q := fun hl => SearchMateOne.not_won_of_lost hl ((hk p q heq').1 hw)
    refine ⟨fun hm => hnl (m0_lost hm), fun hw' => absurd heq'.symm (hL.root hq hw'), fun b hl => absurd (l2_lost hl) hnl⟩
  · exact hC n q hq e' he'

/-! ## the cache probe -/

theorem cinv_none_of_m0 {G : Game P M} {p : P} {tt : Table M} (hC : CInv G p tt) {n : Nat} {q : P} (hq : TreeAt G p n q)
    (hm : M0 G q) : tt[G.key q]? = none := by
  cases he : tt[G.key q]? with
  | none => rfl
  | some e => exact absurd hm (hC n q hq e he).1

theorem probe_inl_C {G : Game P M} {p : P} {tt : Table M} (hC : CInv G p tt) {n : Nat} {q : P} (hq : TreeAt G p n q)
    (d : Nat) (x y s : Int) (hxy : x < y) (h : probe tt (G.key q) d x y = .inl s) :
    (W1 G q → y ≤ s ∨ 32512 ≤ s) ∧ (∀ b, L2 G b q → thr b ≤ d → s ≤ x ∨ s ≤ -32512) := by
  unfold probe at h
  split at h
  · rename_i e he
    obtain ⟨_, hW, hLl⟩ := hC n q hq e he
    split at h
    · rename_i hd
      split at h
      · rename_i hb
        cases h
        refine ⟨fun hw => .inr (hW hw (by rw [hb]; simp)), fun b hl ht => .inr ((hLl b hl).2 hb (by omega))⟩
      · rename_i hb
        dsimp only at h
        split at h
        · cases h
          refine ⟨fun _ => .inl (by omega), fun b hl ht => .inr ((hLl b hl).1 hb ?_)⟩
          have := thr_ge b
          omega
        · cases h
      · rename_i hb
        dsimp only at h
        split at h
        · cases h
          refine ⟨fun hw => .inr (hW hw (by rw [hb]; simp)), fun b hl ht => .inl (by omega)⟩
        · cases h
    · cases h
  · cases h

theorem probe_inr_C {G : Game P M} {p : P} {tt : Table M} (hC : CInv G p tt) {n : Nat} {q : P} (hq : TreeAt G p n q)
    (d : Nat) (x y a b : Int) (hxy : x < y) (h : probe tt (G.key q) d x y = .inr (a, b)) :
    (W1 G q → b = y ∨ 32512 ≤ b) ∧ (∀ bb, L2 G bb q → 2 ≤ d → a = x ∨ a ≤ -32512) := by
  unfold probe at h
  split at h
  · rename_i e he
    obtain ⟨_, hW, hLl⟩ := hC n q hq e he
    split at h
    · rename_i hd
      split at h
      · cases h
      · rename_i hb
        dsimp only at h
        split at h
        · cases h
        · cases h
          refine ⟨fun _ => .inl rfl, fun bb hl h2 => ?_⟩
          have := (hLl bb hl).1 hb (by omega)
          omega
      · rename_i hb
        dsimp only at h
        split at h
        · cases h
        · cases h
          refine ⟨fun hw => ?_, fun bb hl h2 => .inl rfl⟩
          have := hW hw (by rw [hb]; simp)
          omega
    · cases h; exact ⟨fun _ => .inl rfl, fun _ _ _ => .inl rfl⟩
  · cases h; exact ⟨fun _ => .inl rfl, fun _ _ _ => .inl rfl⟩

/-! ## one child with the PVS window logic -/

/-- what the value `r` returned for the node `c` at ply `n`, asked for depth `d` in the window `(x, y)`, must satisfy -/
def RetOK (G : Game P M) (c : P) (n : Nat) (x y : Int) (d : Nat) (r : Int) : Prop :=
  (M0 G c → n ≤ 254 → r = MINS + (n : Int)) ∧
  (W1 G c → n ≤ 250 → (1 ≤ d ∨ G.inCheck c = true) → (y ≤ r ∨ 32512 ≤ r)) ∧
  (∀ b, L2 G b c → n ≤ 250 → thr b ≤ d → (r ≤ x ∨ r ≤ -32512))

/-- the completeness specification of a child search with `F` plies of fuel -/
def RecC (env : Env) (G : Game P M) (p : P) (F : Nat) (rec : P → Int → Int → Nat → St M → Int × St M) : Prop :=
  ∀ n c x y d st, TreeAt G p n c → st.ply = n → n + F = 256 → -32767 ≤ x → x < y → y ≤ 32767 →
    (n = 1 → ¬ Mated G c) → TInv G st.tt → CInv G p st.tt →
    CInv G p (rec c x y d st).2.tt ∧ (Interrupted env (rec c x y d st).2 ∨ RetOK G c n x y d (rec c x y d st).1)

/-- an interruption is not forgotten -/
def RecI (env : Env) (rec : P → Int → Int → Nat → St M → Int × St M) : Prop :=
  ∀ c x y d st, Interrupted env st → Interrupted env (rec c x y d st).2

/-- the same, seen from the parent: the score `sc` of the move leading to `c` (at ply `n1`, asked for depth `d1`),
    searched in the parent's window `(a, b)` -/
def KidOK (G : Game P M) (c : P) (n1 : Nat) (a b : Int) (d1 : Nat) (sc : Int) : Prop :=
  (M0 G c → n1 ≤ 254 → sc = 32768 - (n1 : Int)) ∧
  (W1 G c → n1 ≤ 250 → (1 ≤ d1 ∨ G.inCheck c = true) → (sc ≤ a ∨ sc ≤ -32512)) ∧
  (∀ bb, L2 G bb c → n1 ≤ 250 → thr bb ≤ d1 → (b ≤ sc ∨ 32512 ≤ sc))

theorem kidOK_of_retOK {G : Game P M} {c : P} {n1 : Nat} {a b y r : Int} {d1 : Nat}
    (ha : -32768 ≤ a) (hy : (-32768 < a → y = -a) ∧ (a = -32768 → y = 32767)) (hr : Rng r)
    (h : RetOK G c n1 (-b) y d1 r) : KidOK G c n1 a b d1 (-r) := by
  unfold Rng at hr
  obtain ⟨h1, h2, h3⟩ := h
  refine ⟨fun hm hn => ?_, fun hw hn hd => ?_, fun bb hl hn hd => ?_⟩
  · have := h1 hm hn
    simp only [MINS] at this
    omega
  · have := h2 hw hn hd
    by_cases ha' : a = -32768
    · have := hy.2 ha'; omega
    · have := hy.1 (by omega); omega
  · have := h3 bb hl hn hd
    omega

theorem pvsCore_C {env : Env} {G : Game P M} {p : P} {F : Nat} {rec : P → Int → Int → Nat → St M → Int × St M}
    (hrecC : RecC env G p F rec) (hrecS : SearchMate.RecSpec G p F rec) (hrecI : RecI env rec)
    {n1 : Nat} {c : P} (hc : TreeAt G p n1 c) (a b : Int) (depth : Nat) (pvs : Bool) (st1 : St M)
    (hply : st1.ply = n1) (hF : n1 + F = 256) (ha : -32768 ≤ a) (hab : a < b) (hb : b ≤ 32767) (hb' : -32767 < b)
    (hmate : n1 = 1 → ¬ Mated G c) (hT : TInv G st1.tt) (hC : CInv G p st1.tt) :
    CInv G p (pvsCore rec c a b depth pvs st1).2.tt ∧
    (Interrupted env (pvsCore rec c a b depth pvs st1).2 ∨ KidOK G c n1 a b (depth - 1) (pvsCore rec c a b depth pvs st1).1) := by
  have hreach := hc.reach
  have hn1 := hc.pos
  have hsb : satNeg b = -b := SearchMate.satNeg_eq (by omega) hb
  obtain ⟨hy1, hy2, hy3, hy4⟩ := SearchMate.satNeg_alpha ha (by omega : a ≤ 32766)
  have hmate' : st1.ply = 1 → ¬ Mated G c := fun h => hmate (by omega)
  unfold pvsCore
  rw [hsb]
  generalize satNeg a = y at *
  cases pvs with
  | false =>
    simp only [Bool.false_eq_true, if_false]
    have h1 := hrecC n1 c (-b) y (depth - 1) st1 hc hply hF (by omega) (by omega) (by omega) hmate hT hC
    have h2 := hrecS c (-b) y (depth - 1) st1 hreach (by omega) (by omega) (by omega) (by omega) (by omega) hmate' hT
    generalize rec c (-b) y (depth - 1) st1 = res at h1 h2
    obtain ⟨_, hr, _, _⟩ := h2
    refine ⟨h1.1, ?_⟩
    rcases h1.2 with hI | hR
    · exact .inl hI
    · rw [SearchMate.satNeg_of_rng hr]
      exact .inr (kidOK_of_retOK ha ⟨hy3, hy4⟩ hr hR)
  | true =>
    simp only [if_true]
    have h1 := hrecC n1 c (y - 1) y (depth - 1) st1 hc hply hF (by omega) (by omega) (by omega) hmate hT hC
    have h2 := hrecS c (y - 1) y (depth - 1) st1 hreach (by omega) (by omega) (by omega) (by omega) (by omega) hmate' hT
    generalize rec c (y - 1) y (depth - 1) st1 = res0 at h1 h2
    obtain ⟨_, hr0, hT0, hF0⟩ := h2
    rw [SearchMate.satNeg_of_rng hr0]
    by_cases hcond : (decide (a < -res0.1) && decide (-res0.1 < b)) = true
    · rw [if_pos hcond]
      simp only []
      have hply0 : res0.2.ply = n1 := hF0.1.trans hply
      have g1 := hrecC n1 c (-b) y (depth - 1) res0.2 hc hply0 hF (by omega) (by omega) (by omega) hmate hT0 h1.1
      have g2 := hrecS c (-b) y (depth - 1) res0.2 hreach (by omega) (by omega) (by omega) (by omega) (by omega)
        (fun h => hmate (by omega)) hT0
      have gI := hrecI c (-b) y (depth - 1) res0.2
      generalize rec c (-b) y (depth - 1) res0.2 = res1 at g1 g2 gI
      obtain ⟨_, hr1, _, _⟩ := g2
      refine ⟨g1.1, ?_⟩
      rcases g1.2 with hI | hR
      · exact .inl hI
      · rw [SearchMate.satNeg_of_rng hr1]
        exact .inr (kidOK_of_retOK ha ⟨hy3, hy4⟩ hr1 hR)
    · rw [if_neg hcond]
      simp only []
      refine ⟨h1.1, ?_⟩
      rcases h1.2 with hI | hR
      · exact .inl hI
      · refine .inr ?_
        have hcond' : ¬ (a < -res0.1 ∧ -res0.1 < b) := by
          intro h; apply hcond; simp [h.1, h.2]
        unfold Rng at hr0
        obtain ⟨k1, k2, k3⟩ := hR
        refine ⟨fun hm hn => ?_, fun hw hn hd => ?_, fun bb hl hn hd => ?_⟩
        · have := k1 hm hn
          simp only [MINS] at this
          omega
        · have := k2 hw hn hd
          by_cases ha' : a = -32768
          · have := hy4 ha'; omega
          · have := hy3 (by omega); omega
        · have := k3 bb hl hn hd
          by_cases ha' : a = -32768
          · have := hy4 ha'; omega
          · have := hy3 (by omega); omega

theorem pvsChild_C {env : Env} {G : Game P M} {p : P} {F : Nat} {rec : P → Int → Int → Nat → St M → Int × St M}
    (hrecC : RecC env G p F rec) (hrecS : SearchMate.RecSpec G p F rec) (hrecI : RecI env rec)
    {n : Nat} (q : P) (m : M) (hc : TreeAt G p (n + 1) (G.play q m)) (a b : Int) (depth : Nat) (pvs upd : Bool) (st : St M)
    (hply : st.ply = n) (hF : n + 1 + F = 256) (ha : -32768 ≤ a) (hab : a < b) (hb : b ≤ 32767) (hb' : -32767 < b)
    (hmate : n = 0 → ¬ Mated G (G.play q m)) (hT : TInv G st.tt) (hC : CInv G p st.tt) :
    CInv G p (pvsChild G rec q m a b depth pvs upd st).2.tt ∧
    (Interrupted env (pvsChild G rec q m a b depth pvs upd st).2 ∨
      KidOK G (G.play q m) (n + 1) a b (depth - 1) (pvsChild G rec q m a b depth pvs upd st).1) := by
  rw [pvsChild_eq]
  have h := pvsCore_C hrecC hrecS hrecI hc a b depth pvs (enter upd st) (by rw [enter_ply, hply]) hF ha hab hb hb'
    (fun h => hmate (by omega)) (by rw [enter_tt]; exact hT) (by rw [enter_tt]; exact hC)
  refine ⟨h.1, ?_⟩
  rcases h.2 with hI | hK
  · exact .inl (SearchMateOne.interrupted_leave hI)
  · exact .inr hK

/-! ## the move loop of an inner node -/

theorem abortCheck_false_ply (env : Env) (st : St M) (h : (abortCheck env st).1 = false) : st.ply ≠ 255 := by
  intro hp
  revert h
  unfold abortCheck
  simp only
  split
  · intro h; cases h
  · have : (poll env st).2.ply = st.ply := rfl
    rw [this, hp]
    simp

theorem w1_child_ply {G : Game P M} {p : P} (hL : LineKeys G p) {n : Nat} {c : P} (hc : TreeAt G p n c) (hw : W1 G c) :
    n ≤ 250 := by
  rcases hL.won hc hc rfl hw with hs | ⟨_, h⟩
  · obtain ⟨hf, hr, x, hx, _⟩ := hw
    exact absurd hs (not_silent hf hr hx)
  · exact h

/-- what the loop of the node `q` (ply `n`, depth `dep` after the check extension) leaves behind -/
def PostC (env : Env) (G : Game P M) (p : P) (q : P) (n dep : Nat) (a0 beta : Int) : Loop M → Prop
  | .abort st' => Interrupted env st' ∧ CInv G p st'.tt
  | .cut st' => CInv G p st'.tt ∧ (∀ b, L2 G b q → n ≤ 250 → 2 ≤ dep → beta ≤ -32512)
  | .done a _ _ st' => CInv G p st'.tt ∧ (W1 G q → n ≤ 250 → 32512 ≤ a) ∧
      (∀ b, L2 G b q → n ≤ 250 → 2 ≤ dep → a ≤ a0 ∨ a ≤ -32512)

theorem abKids_C (env : Env) (hc : MonoClock env) {G : Game P M} {p : P} (hL : LineKeys G p) {F : Nat}
    {rec : P → Int → Int → Nat → St M → Int × St M}
    (hrecC : RecC env G p F rec) (hrecS : SearchMate.RecSpec G p F rec) (hrecI : RecI env rec)
    {n : Nat} {q : P} (hq : TreeAt G p n q) (hfr : G.fifty q = false ∧ G.repeated q = false) (dep : Nat)
    (hn : n ≤ 254) (hF : n + 1 + F = 256) (a0 : Int) :
    ∀ (ms : List M) (alpha beta : Int) (best : M) (pvs : Bool) (cnt : Nat) (st : St M),
      (∀ m ∈ ms, m ∈ G.allMoves q) → -32767 ≤ alpha → alpha < beta → beta ≤ 32767 →
      st.ply = n → TInv G st.tt → CInv G p st.tt →
      (W1 G q → n ≤ 250 → (∃ x ∈ ms, G.legal q x = true ∧ M0 G (G.play q x)) ∨ 32512 ≤ alpha) →
      (∀ b, L2 G b q → n ≤ 250 → 2 ≤ dep → alpha ≤ a0 ∨ alpha ≤ -32512) →
      PostC env G p q n dep a0 beta (abKids env G rec q dep ms alpha beta best pvs cnt st) := by
  intro ms
  induction ms with
  | nil =>
    intro alpha beta best pvs cnt st _ _ _ _ _ _ hC hW hLo
    rw [abKids_nil]
    refine ⟨hC, ?_, hLo⟩
    intro hw hn'
    rcases hW hw hn' with ⟨x, hx, _⟩ | h
    · exact absurd hx List.not_mem_nil
    · exact h
  | cons m ms ih =>
    intro alpha beta best pvs cnt st hms ha hab hb hply hT hC hW hLo
    have hms' : ∀ x ∈ ms, x ∈ G.allMoves q := fun x hx => hms x (List.mem_cons_of_mem _ hx)
    have hn1 := hq.pos
    rw [abKids_cons]
    split
    · rename_i hl
      have hl' : G.legal q m = false := by simpa using hl
      refine ih alpha beta best pvs cnt st hms' ha hab hb hply hT hC ?_ hLo
      intro hw hn'
      rcases hW hw hn' with ⟨x, hx, hxl, hxm⟩ | h
      · rcases List.mem_cons.1 hx with rfl | hx
        · rw [hl'] at hxl; cases hxl
        · exact .inl ⟨x, hx, hxl, hxm⟩
      · exact .inr h
    · rename_i hl
      have hl' : G.legal q m = true := by simpa using hl
      have hm : m ∈ G.allMoves q := hms m List.mem_cons_self
      have hlegal : m ∈ legalMovesOf G q := List.mem_filter.2 ⟨hm, hl'⟩
      have hchild : TreeAt G p (n + 1) (G.play q m) := TreeAt.step hq hlegal
      have hpC := pvsChild_C hrecC hrecS hrecI q m hchild alpha beta dep pvs true st hply hF (by omega) hab hb (by omega)
        (fun h => by omega) hT hC
      have hpS := SearchMate.pvsChild_spec hrecS q m hq.reach hm alpha beta dep pvs true st (by omega) hab hb (by omega)
        (by omega) (fun h => by omega) hT
      have hf := abortCheck_frame env (pvsChild G rec q m alpha beta dep pvs true st).2
      generalize pvsChild G rec q m alpha beta dep pvs true st = res at hpC hpS hf
      obtain ⟨hr, _, _, hT1, hF1⟩ := hpS
      unfold Rng at hr
      have hply2 : (abortCheck env res.2).2.ply = n := (hf.2.2.1.trans hF1.1).trans hply
      have hT2 : TInv G (abortCheck env res.2).2.tt := by rw [hf.1]; exact hT1
      have hC2 : CInv G p (abortCheck env res.2).2.tt := by rw [hf.1]; exact hpC.1
      simp only []
      split
      · rename_i hab'
        exact ⟨abortCheck_interrupts' env _ hc (by rw [hF1.1, hply]; omega) hab', hC2⟩
      · rename_i hab'
        have hnI : ¬ Interrupted env res.2 := fun h => hab' (abortCheck_of_interrupted env _ hc h)
        have hK : KidOK G (G.play q m) (n + 1) alpha beta (dep - 1) res.1 := hpC.2.resolve_left hnI
        -- an `L2` node: the reply is answered by a mate
        have hLsc : ∀ b, L2 G b q → n ≤ 250 → 2 ≤ dep → res.1 ≤ alpha ∨ res.1 ≤ -32512 := by
          intro b hl2 _ hd
          have hw1 := hl2.2.2.2.2 m hlegal
          exact hK.2.1 hw1 (w1_child_ply hL hchild hw1) (.inl (by omega))
        -- a `W1` node: the mating move scores a mate
        have hWsc : n ≤ 250 → M0 G (G.play q m) → 32512 ≤ res.1 := by
          intro hn' hm0
          have := hK.1 hm0 (by omega)
          omega
        split
        · rename_i hcut
          have hbl : ∀ b, L2 G b q → n ≤ 250 → 2 ≤ dep → beta ≤ -32512 := by
            intro b hl2 hn' hd
            have := hLsc b hl2 hn' hd
            omega
          refine ⟨?_, hbl⟩
          rw [storeKillers_tt]
          show CInv G p ((abortCheck env res.2).2.tt.insert (G.key q) _)
          refine cinv_insert hL hC2 hq (not_silent hfr.1 hfr.2 hlegal) _ (fun _ _ h => absurd rfl h) ?_
          intro b hl2 hn'
          refine ⟨fun _ hd => ?_, fun h => by cases h⟩
          have := hbl b hl2 hn' hd
          have := hLsc b hl2 hn' hd
          show res.1 ≤ -32512
          omega
        · rename_i hcut
          split
          · rename_i hgt
            refine ih res.1 beta m true (cnt + 1) _ hms' (by omega) (by omega) hb hply2 hT2 hC2 ?_ ?_
            · intro hw hn'
              rcases hW hw hn' with ⟨x, hx, hxl, hxm⟩ | h
              · rcases List.mem_cons.1 hx with rfl | hx
                · exact .inr (hWsc hn' hxm)
                · exact .inl ⟨x, hx, hxl, hxm⟩
              · exact .inr (by omega)
            · intro b hl2 hn' hd
              have := hLsc b hl2 hn' hd
              exact .inr (by omega)
          · rename_i hgt
            refine ih alpha beta best pvs (cnt + 1) _ hms' ha hab hb hply2 hT2 hC2 ?_ hLo
            intro hw hn'
            rcases hW hw hn' with ⟨x, hx, hxl, hxm⟩ | h
            · rcases List.mem_cons.1 hx with rfl | hx
              · have := hWsc hn' hxm
                exact .inr (by omega)
              · exact .inl ⟨x, hx, hxl, hxm⟩
            · exact .inr h

/-! ## an inner node -/

theorem ab_I (env : Env) (hc : MonoClock env) (G : Game P M) (fuel : Nat) : RecI env (ab env G fuel) :=
  fun c x y d st h => (no_nodes_after_abort' env G fuel c x y d st hc h).2.2.2

theorem retOK_vacuous {G : Game P M} {q : P} {n : Nat} (x y : Int) (d : Nat) (r : Int) (h : 254 < n) :
    RetOK G q n x y d r :=
  ⟨fun _ h' => by omega, fun _ h' => by omega, fun _ _ h' => by omega⟩

theorem retOK_of_draw {G : Game P M} {q : P} (n : Nat) (x y : Int) (d : Nat) (r : Int)
    (h : G.fifty q = true ∨ G.repeated q = true) : RetOK G q n x y d r := by
  refine ⟨fun hm _ => ?_, fun hw _ _ => ?_, fun _ hl _ _ => ?_⟩
  · rcases h with h | h
    · rw [hm.1] at h; cases h
    · rw [hm.2.1] at h; cases h
  · rcases h with h | h
    · rw [hw.1] at h; cases h
    · rw [hw.2.1] at h; cases h
  · rcases h with h | h
    · rw [hl.1] at h; cases h
    · rw [hl.2.1] at h; cases h

theorem w1_legal {G : Game P M} {q : P} (h : W1 G q) : legalMovesOf G q ≠ [] := by
  obtain ⟨_, _, x, hx, _⟩ := h
  intro h'; rw [h'] at hx; exact absurd hx List.not_mem_nil

theorem ab_C (env : Env) (hc : MonoClock env) {G : Game P M} {p : P} (hk : KeyMate G) (he : EvalBoundedFrom G p)
    (hL : LineKeys G p) : ∀ fuel, RecC env G p fuel (ab env G fuel) := by
  intro fuel
  induction fuel with
  | zero =>
    intro n q x y d st hq hply hF _ _ _ _ _ hC
    exact ⟨hC, .inr (retOK_vacuous _ _ _ _ (by omega))⟩
  | succ fuel ih =>
    intro n q x y d st hq hply hF hx hxy hy hmate hT hC
    have hn1 := hq.pos
    rw [ab_succ]
    have hf := abortCheck_frame env st
    have hC1 : CInv G p (abortCheck env st).2.tt := by rw [hf.1]; exact hC
    simp only []
    split
    · rename_i hab
      refine ⟨hC1, ?_⟩
      by_cases h255 : n = 255
      · exact .inr (retOK_vacuous _ _ _ _ (by omega))
      · exact .inl (abortCheck_interrupts' env st hc (by omega) hab)
    rename_i hab
    have hn : n ≤ 254 := by
      have := abortCheck_false_ply env st (by simpa using hab)
      omega
    split
    · rename_i hfif
      exact ⟨hC1, .inr (retOK_of_draw _ _ _ _ _ (.inl hfif))⟩
    rename_i hfif
    split
    · rename_i hrep
      exact ⟨hC1, .inr (retOK_of_draw _ _ _ _ _ (.inr hrep))⟩
    rename_i hrep
    have hfr : G.fifty q = false ∧ G.repeated q = false := ⟨by simpa using hfif, by simpa using hrep⟩
    have hT2 : TInv G (probeSt env (abortCheck env st).2).tt := by
      unfold probeSt
      split
      · exact SearchMate.tinv_empty G
      · rw [hf.1]; exact hT
    have hC2 : CInv G p (probeSt env (abortCheck env st).2).tt := by
      unfold probeSt
      split
      · exact cinv_empty G p
      · exact hC1
    have hply2 : (probeSt env (abortCheck env st).2).ply = n :=
      (probeSt_keep env _).1.trans (hf.2.2.1.trans hply)
    generalize probeSt env (abortCheck env st).2 = st2 at hT2 hC2 hply2
    by_cases hM0 : M0 G q
    · -- a mated node
      have hn2 := cinv_none_of_m0 hC2 hq hM0
      have hp : probe st2.tt (G.key q) d x y = .inr (x, y) := by unfold probe; rw [hn2]
      rw [hp]
      simp only []
      unfold abBody
      simp only []
      rw [hM0.2.2.2]
      simp only [if_true]
      rw [if_neg (Nat.succ_ne_zero d)]
      rw [SearchMateOne.abKids_nolegal env G _ q _ _ _ _ _ _ _ _
        (fun m hm => SearchMateOne.mated_nolegal hM0.2.2 m (orderMoves_mem _ _ _ _ _ hm))]
      simp only [if_true]
      refine ⟨hC2, .inr ⟨fun _ _ => by rw [hply2], fun hw => absurd hM0.2.2.1 (w1_legal hw),
        fun _ hl => absurd hM0.2.2.1 hl.2.2.2.1⟩⟩
    split
    · rename_i s heq
      have := probe_inl_C hC2 hq d x y s hxy heq
      exact ⟨hC2, .inr ⟨fun h => absurd h hM0, fun hw _ _ => this.1 hw, fun b hl _ ht => this.2 b hl ht⟩⟩
    · rename_i a b heq
      have hpr := probe_inr_C hC2 hq d x y a b hxy heq
      obtain ⟨haa, hbb, hab', _, _⟩ := SearchMate.probe_inr hT2 q d x y a b hxy heq
      clear heq
      unfold abBody
      simp only []
      generalize hd' : (if G.inCheck q = true then d + 1 else d) = d'
      have hdd : d ≤ d' := by rw [← hd']; split <;> omega
      by_cases hd0 : d' = 0
      · rw [if_pos hd0]
        refine ⟨by rw [SearchMateOne.quiesce_tt]; exact hC2, .inr ⟨fun h => absurd h hM0, ?_, ?_⟩⟩
        · intro _ _ h
          exfalso
          rcases h with h | h
          · omega
          · rw [h] at hd'; simp at hd'; omega
        · intro bb _ _ h
          have := thr_ge bb
          omega
      · rw [if_neg hd0]
        have hrecS := SearchMate.ab_spec hk p he env fuel
        have hsub : ∀ m ∈ orderMoves G ((st2.tt[G.key q]?).map (·.best)) (st2.killers.getD st2.ply (none, none))
            (G.allMoves q), m ∈ G.allMoves q := fun m hm => orderMoves_mem _ _ _ _ _ hm
        have hkC := abKids_C env hc hL ih hrecS (ab_I env hc G fuel) hq hfr d' hn (by omega) a
          (orderMoves G ((st2.tt[G.key q]?).map (·.best)) (st2.killers.getD st2.ply (none, none)) (G.allMoves q))
          a b ((G.allMoves q).headD G.defaultMove) false 0 st2 hsub (by omega) hab' (by omega) hply2 hT2 hC2
          (fun hw _ => by
            obtain ⟨_, _, x', hx', hm'⟩ := hw
            have := List.mem_filter.1 hx'
            exact .inl ⟨x', (SearchMate.mem_orderMoves _ _ _ _ _).2 this.1, this.2, hm'⟩)
          (fun _ _ _ _ => .inl (Int.le_refl _))
        have hkS := SearchMate.abKids_spec hk hrecS env q hq.reach d'
          (orderMoves G ((st2.tt[G.key q]?).map (·.best)) (st2.killers.getD st2.ply (none, none)) (G.allMoves q))
          a b ((G.allMoves q).headD G.defaultMove) false 0 st2 hsub (by omega) hab' (by omega) (by omega) (by omega) hT2
        -- the depth after the check extension, for an `L2` node
        have hthr : ∀ bb, L2 G bb q → thr bb ≤ d' → 2 ≤ d ∧ 2 ≤ d' := by
          intro bb hl ht
          have hb2 := hl.2.2.1
          cases bb with
          | false => rw [hb2] at hd'; simp at hd'; simp only [thr] at ht; simp at ht; omega
          | true => rw [hb2] at hd'; simp at hd'; simp only [thr] at ht; simp at ht; omega
        split
        · rename_i st' heq
          rw [heq] at hkC
          exact ⟨hkC.2, .inl hkC.1⟩
        · rename_i st' heq
          rw [heq] at hkC
          refine ⟨hkC.1, .inr ⟨fun h => absurd h hM0, ?_, ?_⟩⟩
          · intro hw _ _
            rcases hpr.1 hw with h | h
            · exact .inl (by omega)
            · exact .inr h
          · intro bb hl hn' ht
            have h2 := hthr bb hl (by omega)
            exact .inr (hkC.2 bb hl hn' h2.2)
        · rename_i alpha best n' st' heq
          rw [heq] at hkC hkS
          obtain ⟨hCd, hWd, hLd⟩ := hkC
          obtain ⟨_, _, _, _, g5, _, _, _⟩ := hkS
          rw [Nat.zero_add] at g5
          split
          · rename_i hn0
            have hnil : legalMovesOf G q = [] := SearchMate.legal_nil_of_filter (g5.symm.trans hn0)
            have hres : ∀ r, RetOK G q n x y d r :=
              fun r => ⟨fun h => absurd h hM0, fun hw => absurd hnil (w1_legal hw), fun _ hl => absurd hnil hl.2.2.2.1⟩
            split
            · exact ⟨hCd, .inr (hres _)⟩
            · exact ⟨hCd, .inr (hres _)⟩
          · rename_i hn0
            have hne : legalMovesOf G q ≠ [] := SearchMate.legal_ne_nil_of_filter (fun h => hn0 (g5.trans h))
            have hns : ¬ Silent G q := by
              cases hlm : legalMovesOf G q with
              | nil => exact absurd hlm hne
              | cons m0 t => exact not_silent hfr.1 hfr.2 (by rw [hlm]; exact List.mem_cons_self)
            -- the final alpha of an `L2` node that was asked deep enough
            have hLfin : ∀ bb, L2 G bb q → n ≤ 250 → thr bb ≤ d' → alpha ≤ x ∨ alpha ≤ -32512 := by
              intro bb hl hn' ht
              have h2 := hthr bb hl ht
              rcases hLd bb hl hn' h2.2 with h | h
              · rcases hpr.2 bb hl h2.1 with h' | h'
                · exact .inl (by omega)
                · exact .inr (by omega)
              · exact .inr h
            refine ⟨?_, .inr ⟨fun h => absurd h hM0, fun hw hn' _ => .inr (hWd hw hn'), ?_⟩⟩
            · show CInv G p (st'.tt.insert (G.key q) _)
              refine cinv_insert hL hCd hq hns _ (fun hw hn' _ => hWd hw hn') ?_
              intro bb hl hn'
              refine ⟨fun h => ?_, fun h ht => ?_⟩
              · exfalso
                dsimp only at h
                split at h <;> cases h
              · dsimp only at h ht
                have hgt : ¬ alpha ≤ x := by
                  intro hle
                  rw [if_pos hle] at h
                  cases h
                rcases hLfin bb hl hn' ht with h' | h'
                · exact absurd h' hgt
                · exact h'
            · intro bb hl hn' ht
              exact hLfin bb hl hn' (by omega)

/-! ## the root -/

/-- the reported score is a mate score (and a move is reported with it) -/
def HW (st : St M) : Prop := ∃ s m, st.bestScore = some s ∧ 32512 ≤ s ∧ st.bestMove = some m

theorem HW.of_keep {st st' : St M} (h : HW st) (hk : Keep st st') : HW st' := by
  obtain ⟨s, m, h1, h2, h3⟩ := h
  exact ⟨s, m, hk.2.2.trans h1, h2, hk.2.1.trans h3⟩

theorem hw_rootAbort {st : St M} (alpha : Int) (best : M) (h : HW st) : HW (rootAbort alpha best st) := by
  obtain ⟨s, m, h1, h2, h3⟩ := h
  unfold rootAbort
  rw [h1]
  simp only []
  split
  · rename_i hgt
    have hgt' : alpha > s := by simpa using hgt
    exact ⟨alpha, best, rfl, by omega, rfl⟩
  · exact ⟨s, m, h1, h2, h3⟩

/-- what the root loop of the iteration of depth `D` leaves behind; `kb` = "the key move gives check" -/
def PostR (env : Env) (G : Game P M) (p : P) (kb : Bool) (D : Nat) (ms : List M) (cnt : Nat) (st : St M) : RootLoop M → Prop
  | .abort st' => Interrupted env st' ∧ CInv G p st'.tt ∧ (HW st → HW st')
  | .done a _ n' st' => CInv G p st'.tt ∧ (thr kb + 1 ≤ D → 32512 ≤ a) ∧ Keep st st' ∧ cnt ≤ n' ∧
      ((∃ m ∈ ms, G.legal p m = true) → cnt < n')

theorem rootKids_C (env : Env) (hc : MonoClock env) {G : Game P M} {p : P} (hk : KeyMate G) (he : EvalBoundedFrom G p)
    (hL : LineKeys G p) (hno : NoMateInOne G p) (kb : Bool) (D : Nat) :
    ∀ (ms : List M) (alpha : Int) (best : M) (pvs : Bool) (cnt : Nat) (st : St M),
      (∀ m ∈ ms, m ∈ G.allMoves p) → -32768 ≤ alpha → alpha < 32767 → st.ply = 0 → TInv G st.tt → CInv G p st.tt →
      (thr kb + 1 ≤ D → (∃ m ∈ ms, G.legal p m = true ∧ L2 G kb (G.play p m)) ∨ 32512 ≤ alpha) →
      PostR env G p kb D ms cnt st (rootKids env G (ab env G 255) p D ms alpha best pvs cnt st) := by
  intro ms
  induction ms with
  | nil =>
    intro alpha best pvs cnt st _ _ _ _ _ hC hW
    rw [rootKids_nil]
    refine ⟨hC, ?_, Keep.refl st, Nat.le_refl _, ?_⟩
    · intro hD
      rcases hW hD with ⟨x, hx, _⟩ | h
      · exact absurd hx List.not_mem_nil
      · exact h
    · rintro ⟨m, hm, _⟩
      exact absurd hm List.not_mem_nil
  | cons m ms ih =>
    intro alpha best pvs cnt st hms ha hb hply hT hC hW
    have hms' : ∀ x ∈ ms, x ∈ G.allMoves p := fun x hx => hms x (List.mem_cons_of_mem _ hx)
    rw [rootKids_cons]
    split
    · rename_i hl
      have hl' : G.legal p m = false := by simpa using hl
      have h := ih alpha best pvs cnt st hms' ha hb hply hT hC (by
        intro hD
        rcases hW hD with ⟨x, hx, hxl, hxm⟩ | h
        · rcases List.mem_cons.1 hx with rfl | hx
          · rw [hl'] at hxl; cases hxl
          · exact .inl ⟨x, hx, hxl, hxm⟩
        · exact .inr h)
      revert h
      generalize rootKids env G (ab env G 255) p D ms alpha best pvs cnt st = r
      intro h
      cases r with
      | abort s => exact h
      | done a b n' s =>
        obtain ⟨h1, h2, h3, h4, h5⟩ := h
        refine ⟨h1, h2, h3, h4, ?_⟩
        rintro ⟨x, hx, hxl⟩
        rcases List.mem_cons.1 hx with rfl | hx
        · rw [hl'] at hxl; cases hxl
        · exact h5 ⟨x, hx, hxl⟩
    · rename_i hl
      have hl' : G.legal p m = true := by simpa using hl
      have hm : m ∈ G.allMoves p := hms m List.mem_cons_self
      have hlegal : m ∈ legalMovesOf G p := List.mem_filter.2 ⟨hm, hl'⟩
      have hchild : TreeAt G p (0 + 1) (G.play p m) := TreeAt.child hlegal
      have hM : MAXS = 32767 := rfl
      rw [hM]
      have hrecS := SearchMate.ab_spec hk p he env 255
      have hpC := pvsChild_C (ab_C env hc hk he hL 255) hrecS (ab_I env hc G 255) p m hchild alpha 32767 D pvs false st
        hply (by omega) ha hb (by omega) (by omega) (fun _ => hno m hlegal) hT hC
      have hpS := SearchMate.pvsChild_spec hrecS p m Reach.refl hm alpha 32767 D pvs false st ha hb (by omega) (by omega)
        (by omega) (fun _ => hno m hlegal) hT
      have hf := abortCheck_frame env (pvsChild G (ab env G 255) p m alpha 32767 D pvs false st).2
      generalize pvsChild G (ab env G 255) p m alpha 32767 D pvs false st = res at hpC hpS hf
      obtain ⟨hr, _, _, hT1, hF1⟩ := hpS
      unfold Rng at hr
      have hkeep : Keep st (abortCheck env res.2).2 :=
        Keep.trans ⟨hF1.1, hF1.2.1, hF1.2.2⟩ (keep_of_frame hf)
      have hply2 : (abortCheck env res.2).2.ply = 0 := hkeep.1.trans hply
      have hT2 : TInv G (abortCheck env res.2).2.tt := by rw [hf.1]; exact hT1
      have hC2 : CInv G p (abortCheck env res.2).2.tt := by rw [hf.1]; exact hpC.1
      simp only []
      split
      · rename_i hab'
        have hI := abortCheck_interrupts' env _ hc (by rw [hF1.1, hply]; omega) hab'
        have hra := SearchMateOne.rootAbort_props alpha best (abortCheck env res.2).2
        refine ⟨SearchPvNonempty.rootAbort_interrupted _ _ hI, by rw [hra.1]; exact hC2, ?_⟩
        intro hw
        exact hw_rootAbort _ _ (hw.of_keep hkeep)
      · rename_i hab'
        have hnI : ¬ Interrupted env res.2 := fun h => hab' (abortCheck_of_interrupted env _ hc h)
        have hK : KidOK G (G.play p m) (0 + 1) alpha 32767 (D - 1) res.1 := hpC.2.resolve_left hnI
        have hKey : thr kb + 1 ≤ D → L2 G kb (G.play p m) → 32512 ≤ res.1 := by
          intro hD hl2
          have := hK.2.2 kb hl2 (by omega) (by omega)
          omega
        have hfin : ∀ (r : RootLoop M) (ms' : List M), (∀ x ∈ ms', x ∈ ms) →
            PostR env G p kb D ms' (cnt + 1) (abortCheck env res.2).2 r → PostR env G p kb D (m :: ms) cnt st r := by
          intro r ms' _ h
          cases r with
          | abort s =>
            obtain ⟨h1, h2, h3⟩ := h
            exact ⟨h1, h2, fun hw => h3 (hw.of_keep hkeep)⟩
          | done a b n' s =>
            obtain ⟨h1, h2, h3, h4, _⟩ := h
            exact ⟨h1, h2, hkeep.trans h3, by omega, fun _ => by omega⟩
        split
        · rename_i hgt
          refine hfin _ ms (fun _ h => h) (ih res.1 m true (cnt + 1) _ hms' (by omega) hr.2 hply2 hT2 hC2 ?_)
          intro hD
          rcases hW hD with ⟨x, hx, hxl, hxm⟩ | h
          · rcases List.mem_cons.1 hx with rfl | hx
            · exact .inr (hKey hD hxm)
            · exact .inl ⟨x, hx, hxl, hxm⟩
          · exact .inr (by omega)
        · rename_i hgt
          refine hfin _ ms (fun _ h => h) (ih alpha best pvs (cnt + 1) _ hms' ha hb hply2 hT2 hC2 ?_)
          intro hD
          rcases hW hD with ⟨x, hx, hxl, hxm⟩ | h
          · rcases List.mem_cons.1 hx with rfl | hx
            · have := hKey hD hxm
              exact .inr (by omega)
            · exact .inl ⟨x, hx, hxl, hxm⟩
          · exact .inr h

/-- one iteration: the completeness invariant is kept; from depth `thr kb + 1` on a mate score stays reported, and
    is reported unless the iteration was interrupted -/
theorem abStart_C (env : Env) (hc : MonoClock env) {G : Game P M} {p : P} (hk : KeyMate G) (he : EvalBoundedFrom G p)
    (hL : LineKeys G p) (hno : NoMateInOne G p) (kb : Bool) (hex : ∃ m ∈ legalMovesOf G p, L2 G kb (G.play p m))
    (D : Nat) {st : St M} (hply : st.ply = 0) (hT : TInv G st.tt) (hC : CInv G p st.tt) :
    CInv G p (abStart env G p D st).tt ∧
    (thr kb + 1 ≤ D → (HW st → HW (abStart env G p D st)) ∧
      (Interrupted env (abStart env G p D st) ∨ HW (abStart env G p D st))) := by
  obtain ⟨mm, hmm, hl2⟩ := hex
  have hmall : mm ∈ G.allMoves p := (List.mem_filter.1 hmm).1
  have hmleg : G.legal p mm = true := (List.mem_filter.1 hmm).2
  have hwon : Won G p := Won.some mm hmm (l2_lost hl2)
  rw [abStart_eq]
  split
  · rename_i heq
    rw [heq] at hmall
    exact absurd hmall List.not_mem_nil
  · rename_i m0 t _
    have hmo : mm ∈ orderMoves G ((st.tt[G.key p]?).map (·.best)) (st.killers.getD st.ply (none, none)) (G.allMoves p) :=
      (SearchMate.mem_orderMoves _ _ _ _ _).2 hmall
    have hR := rootKids_C env hc hk he hL hno kb D
      (orderMoves G ((st.tt[G.key p]?).map (·.best)) (st.killers.getD st.ply (none, none)) (G.allMoves p))
      MINS m0 false 0 st (fun m hm => orderMoves_mem _ _ _ _ _ hm) (by decide) (by decide) hply hT hC
      (fun _ => .inl ⟨mm, hmo, hmleg, hl2⟩)
    revert hR
    generalize rootKids env G (ab env G 255) p D _ MINS m0 false 0 st = r
    intro hR
    cases r with
    | abort s => exact ⟨hR.2.1, fun _ => ⟨hR.2.2, .inl hR.1⟩⟩
    | done a b n' s =>
      obtain ⟨h1, h2, h3, h4, h5⟩ := hR
      have hn : ¬ (n' = 0) := by
        have := h5 ⟨mm, hmo, hmleg⟩
        omega
      simp only []
      rw [if_neg hn]
      unfold rootSave
      have hf := abortCheck_frame env s
      have hkeep : Keep st (abortCheck env s).2 := h3.trans (keep_of_frame hf)
      split
      · rename_i hab
        refine ⟨by rw [hf.1]; exact h1, fun _ => ⟨fun hw => hw.of_keep hkeep, .inl ?_⟩⟩
        exact abortCheck_interrupts' env s hc (by rw [h3.1, hply]; omega) hab
      · refine ⟨?_, fun hD => ?_⟩
        · show CInv G p ((abortCheck env s).2.tt.insert (G.key p) _)
          rw [hf.1]
          exact cinv_insert_root hk hL hwon h1 _
        · have hw : HW ({ (abortCheck env s).2.insert (G.key p) ⟨a, D, .exact, b⟩ 1 with
              bestScore := some a, bestMove := some b } : St M) := ⟨a, b, rfl, h2 hD, rfl⟩
          exact ⟨fun _ => hw, .inr hw⟩

/-! ## the iterations -/

theorem iterate_C (env : Env) (hc : MonoClock env) {G : Game P M} {p : P} (hk : KeyMate G) (he : EvalBoundedFrom G p)
    (hL : LineKeys G p) (hno : NoMateInOne G p) (kb : Bool) (hex : ∃ m ∈ legalMovesOf G p, L2 G kb (G.play p m))
    (md : Nat) :
    ∀ (fuel d : Nat) (st : St M) (infos : List (InfoLine M)), SearchMate.RootSt G p st → CInv G p st.tt →
      (∀ i ∈ infos, i.depth < d) → ((∃ i ∈ infos, thr kb + 1 ≤ i.depth) → HW st) →
      CInv G p (iterate env G p md fuel d st infos).1.tt ∧
      ((∃ i ∈ (iterate env G p md fuel d st infos).2, thr kb + 1 ≤ i.depth) → HW (iterate env G p md fuel d st infos).1) := by
  intro fuel
  induction fuel with
  | zero => intro d st infos _ hC _ hW; exact ⟨hC, hW⟩
  | succ fuel ih =>
    intro d st infos hR hC hlt hW
    rw [iterate_succ]
    split
    · exact ⟨hC, hW⟩
    · have hA := abStart_C env hc hk he hL hno kb hex d hR.2.1 hR.1 hC
      have hR1 := SearchMate.abStart_spec hk p he hno env d st hR
      have hf := abortCheck_frame env (abStart env G p d st)
      have hkeep : Keep (abStart env G p d st) (abortCheck env (abStart env G p d st)).2 := keep_of_frame hf
      have hR2 : SearchMate.RootSt G p (abortCheck env (abStart env G p d st)).2 :=
        ⟨by rw [hf.1]; exact hR1.1, hkeep.1.trans hR1.2.1, hR1.2.2.frame ⟨hkeep.1, hkeep.2.1, hkeep.2.2⟩⟩
      have hC2 : CInv G p (abortCheck env (abStart env G p d st)).2.tt := by rw [hf.1]; exact hA.1
      simp only []
      split
      · refine ⟨hC2, ?_⟩
        rintro ⟨i, hi, hid⟩
        have hD : thr kb + 1 ≤ d := by have := hlt i hi; omega
        exact ((hA.2 hD).1 (hW ⟨i, hi, hid⟩)).of_keep hkeep
      · rename_i hab
        refine ih (d + 1) _ _ hR2 hC2 ?_ ?_
        · intro i hi
          rcases List.mem_append.1 hi with hi | hi
          · have := hlt i hi; omega
          · rw [List.mem_singleton.1 hi]
            show d < d + 1
            omega
        · rintro ⟨i, hi, hid⟩
          have hD : thr kb + 1 ≤ d := by
            rcases List.mem_append.1 hi with hi | hi
            · have := hlt i hi; omega
            · rw [List.mem_singleton.1 hi] at hid
              exact hid
          have hnI : ¬ Interrupted env (abStart env G p d st) := fun h => hab (abortCheck_of_interrupted env _ hc h)
          exact ((hA.2 hD).2.resolve_left hnI).of_keep hkeep

/-! ## the theorems -/

/-- the cache invariant: mate-sound with scores strictly inside `(−32767, 32767)` (the invariant of `SearchMate.lean`),
    and complete on the nodes of the mating lines (`CInv`) -/
def MateTwoInv (G : Game P M) (p : P) (tt : Table M) : Prop := TInv G tt ∧ CInv G p tt

theorem mateTwoInv_empty (G : Game P M) (p : P) : MateTwoInv G p ({} : Table M) :=
  ⟨SearchMate.tinv_empty G, cinv_empty G p⟩

theorem search_C (env : Env) (G : Game P M) (p : P) (maxDepth : Option Nat) (tt0 : Table M)
    (hc : MonoClock env) (he : EvalBoundedFrom G p) (hk : KeyMate G) (hno : NoMateInOne G p) (hL : LineKeys G p)
    (kb : Bool) (hex : ∃ m ∈ legalMovesOf G p, L2 G kb (G.play p m)) (hinv : MateTwoInv G p tt0) :
    SearchMate.RootSt G p (search env G p maxDepth tt0).st ∧ CInv G p (search env G p maxDepth tt0).st.tt ∧
    ((∃ i ∈ (search env G p maxDepth tt0).infos, thr kb + 1 ≤ i.depth) → HW (search env G p maxDepth tt0).st) := by
  have h0 : SearchMate.RootSt G p ({ tt := tt0 } : St M) := ⟨hinv.1, rfl, fun s m h => by simp at h⟩
  have h1 := SearchMate.search_spec hk p he hno env maxDepth tt0 hinv.1.1 hinv.1.2
  have h2 := iterate_C env hc hk he hL hno kb hex (maxDepth.getD 255) (maxDepth.getD 255) 1 _ [] h0 hinv.2
    (fun i hi => absurd hi List.not_mem_nil) (fun ⟨i, hi, _⟩ => absurd hi List.not_mem_nil)
  refine ⟨h1, ?_, ?_⟩
  · unfold search
    dsimp only
    exact h2.1
  · unfold search
    dsimp only
    exact h2.2

/-- **The mate is found.**  If some legal root move leads to an `L2` node (the opponent is mated in two, on lines the
    engine sees), then once an iteration of depth `thr kb + 1` has completed — 3 plies if the key move is quiet, 4 if
    it gives check — the reported score is a mate score, the reported move keeps a forced mate, and the cache
    satisfies the invariant again.  Any limits, stop point and monotone clock; cache on or off. -/
theorem mate_in_two_found (env : Env) (G : Game P M) (p : P) (maxDepth : Option Nat) (tt0 : Table M)
    (hc : MonoClock env) (he : EvalBoundedFrom G p) (hk : KeyMate G) (hno : NoMateInOne G p) (hL : LineKeys G p)
    (kb : Bool) (hex : ∃ m ∈ legalMovesOf G p, L2 G kb (G.play p m)) (hinv : MateTwoInv G p tt0)
    (hdone : ∃ i ∈ (search env G p maxDepth tt0).infos, thr kb + 1 ≤ i.depth) :
    (∃ m s, (search env G p maxDepth tt0).st.bestMove = some m ∧ (search env G p maxDepth tt0).st.bestScore = some s ∧
      MAXS - 255 ≤ s ∧ Lost G (G.play p m)) ∧
    MateTwoInv G p (search env G p maxDepth tt0).st.tt := by
  obtain ⟨h1, h2, h3⟩ := search_C env G p maxDepth tt0 hc he hk hno hL kb hex hinv
  obtain ⟨s, m, hs, hge, hm⟩ := h3 hdone
  exact ⟨⟨m, s, hm, hs, by simp only [MAXS]; omega, h1.2.2 s m hs hm hge⟩, h1.1, h2⟩

/-- the invariant is re-established by every search, completed or not -/
theorem mateTwoInv_search (env : Env) (G : Game P M) (p : P) (maxDepth : Option Nat) (tt0 : Table M)
    (hc : MonoClock env) (he : EvalBoundedFrom G p) (hk : KeyMate G) (hno : NoMateInOne G p) (hL : LineKeys G p)
    (kb : Bool) (hex : ∃ m ∈ legalMovesOf G p, L2 G kb (G.play p m)) (hinv : MateTwoInv G p tt0) :
    MateTwoInv G p (search env G p maxDepth tt0).st.tt :=
  let h := search_C env G p maxDepth tt0 hc he hk hno hL kb hex hinv
  ⟨h.1.1, h.2.1⟩

/-! ### in terms of the game's rules -/

/-- no position within three plies below the root is declared a draw (fifty-move rule, repetition): "the position is
    given without prior history and with a small half-move clock" -/
def NoDrawBelow3 (G : Game P M) (p : P) : Prop :=
  ∀ n q, TreeAt G p n q → n ≤ 3 → G.fifty q = false ∧ G.repeated q = false

theorem l2_of_mateInTwoBy {G : Game P M} {p : P} {m : M} (h : MateInTwoBy G p m) (hd : NoDrawBelow3 G p) :
    L2 G (G.inCheck (G.play p m)) (G.play p m) := by
  have hc : TreeAt G p 1 (G.play p m) := TreeAt.child h.1
  have hdc := hd 1 _ hc (by omega)
  refine ⟨hdc.1, hdc.2, rfl, h.2.1, ?_⟩
  intro r hr
  have hg : TreeAt G p 2 (G.play (G.play p m) r) := TreeAt.step hc hr
  have hdg := hd 2 _ hg (by omega)
  obtain ⟨x, hx, hM⟩ := h.2.2 r hr
  have hdh := hd 3 _ (TreeAt.step hg hx) (by omega)
  exact ⟨hdg.1, hdg.2, x, hx, hdh.1, hdh.2, hM⟩

/-- **Quiet key move: three plies** (cache on or off). -/
theorem mate_in_two_kept' (env : Env) (G : Game P M) (p : P) (maxDepth : Option Nat) (tt0 : Table M)
    (hc : MonoClock env) (he : EvalBoundedFrom G p) (hk : KeyMate G)
    (hno : NoMateInOne G p) (hL : LineKeys G p) (hd : NoDrawBelow3 G p)
    (hex : ∃ m, MateInTwoBy G p m ∧ G.inCheck (G.play p m) = false) (hinv : MateTwoInv G p tt0)
    (hdone : ∃ i ∈ (search env G p maxDepth tt0).infos, i.depth ≥ 3) :
    (∃ m, (search env G p maxDepth tt0).st.bestMove = some m ∧ Lost G (G.play p m)) ∧
    MateTwoInv G p (search env G p maxDepth tt0).st.tt := by
  obtain ⟨m, hm, hq⟩ := hex
  have hl2 := l2_of_mateInTwoBy hm hd
  rw [hq] at hl2
  obtain ⟨⟨b, s, h1, _, _, h4⟩, h5⟩ := mate_in_two_found env G p maxDepth tt0 hc he hk hno hL false ⟨m, hm.1, hl2⟩ hinv hdone
  exact ⟨⟨b, h1, h4⟩, h5⟩

/-- the same in the requested shape, "with the position cache active" (`hoff` is not used) -/
theorem mate_in_two_kept (env : Env) (G : Game P M) (p : P) (maxDepth : Option Nat) (tt0 : Table M)
    (hc : MonoClock env) (hoff : env.cacheOff = false) (he : EvalBoundedFrom G p) (hk : KeyMate G)
    (hno : NoMateInOne G p) (hL : LineKeys G p) (hd : NoDrawBelow3 G p)
    (hex : ∃ m, MateInTwoBy G p m ∧ G.inCheck (G.play p m) = false) (hinv : MateTwoInv G p tt0)
    (hdone : ∃ i ∈ (search env G p maxDepth tt0).infos, i.depth ≥ 3) :
    (∃ m, (search env G p maxDepth tt0).st.bestMove = some m ∧ Lost G (G.play p m)) ∧
    MateTwoInv G p (search env G p maxDepth tt0).st.tt :=
  mate_in_two_kept' env G p maxDepth tt0 hc he hk hno hL hd hex hinv hdone

/-- **Any key move: four plies.** -/
theorem mate_in_two_kept_four (env : Env) (G : Game P M) (p : P) (maxDepth : Option Nat) (tt0 : Table M)
    (hc : MonoClock env) (he : EvalBoundedFrom G p) (hk : KeyMate G)
    (hno : NoMateInOne G p) (hL : LineKeys G p) (hd : NoDrawBelow3 G p)
    (hex : ∃ m, MateInTwoBy G p m) (hinv : MateTwoInv G p tt0)
    (hdone : ∃ i ∈ (search env G p maxDepth tt0).infos, i.depth ≥ 4) :
    (∃ m, (search env G p maxDepth tt0).st.bestMove = some m ∧ Lost G (G.play p m)) ∧
    MateTwoInv G p (search env G p maxDepth tt0).st.tt := by
  obtain ⟨m, hm⟩ := hex
  have hl2 := l2_of_mateInTwoBy hm hd
  obtain ⟨i, hi, hid⟩ := hdone
  have hdone' : ∃ i ∈ (search env G p maxDepth tt0).infos, thr (G.inCheck (G.play p m)) + 1 ≤ i.depth :=
    ⟨i, hi, by unfold thr; split <;> omega⟩
  obtain ⟨⟨b, s, h1, _, _, h4⟩, h5⟩ := mate_in_two_found env G p maxDepth tt0 hc he hk hno hL _ ⟨m, hm.1, hl2⟩ hinv hdone'
  exact ⟨⟨b, h1, h4⟩, h5⟩

/-- the reported score is a mate score -/
theorem mate_in_two_score (env : Env) (G : Game P M) (p : P) (maxDepth : Option Nat) (tt0 : Table M)
    (hc : MonoClock env) (he : EvalBoundedFrom G p) (hk : KeyMate G)
    (hno : NoMateInOne G p) (hL : LineKeys G p) (hd : NoDrawBelow3 G p)
    (hex : ∃ m, MateInTwoBy G p m ∧ G.inCheck (G.play p m) = false) (hinv : MateTwoInv G p tt0)
    (hdone : ∃ i ∈ (search env G p maxDepth tt0).infos, i.depth ≥ 3) :
    ∃ s, (search env G p maxDepth tt0).st.bestScore = some s ∧ MAXS - 255 ≤ s := by
  obtain ⟨m, hm, hq⟩ := hex
  have hl2 := l2_of_mateInTwoBy hm hd
  rw [hq] at hl2
  obtain ⟨⟨_, s, _, h2, h3, _⟩, _⟩ := mate_in_two_found env G p maxDepth tt0 hc he hk hno hL false ⟨m, hm.1, hl2⟩ hinv hdone
  exact ⟨s, h2, h3⟩

/-! ### successive searches of the same position -/

open RCE.Proofs.SearchMateOne (Go cacheAfter)

/-- after any number of earlier searches of the position (any depths, limits, stop points, monotone clocks, cache on or
    off; completed or interrupted), starting from a cache that satisfies the invariant — the empty one, for instance —
    the invariant holds, so that a further search that completes a 3-ply iteration keeps the mate (quiet key move) -/
theorem mate_in_two_kept_again (G : Game P M) (p : P) (he : EvalBoundedFrom G p) (hk : KeyMate G)
    (hno : NoMateInOne G p) (hL : LineKeys G p) (hd : NoDrawBelow3 G p)
    (hex : ∃ m, MateInTwoBy G p m ∧ G.inCheck (G.play p m) = false) :
    ∀ (gs : List Go) (tt0 : Table M), MateTwoInv G p tt0 → (∀ g ∈ gs, MonoClock g.env) →
      MateTwoInv G p (cacheAfter G p gs tt0) ∧
      ∀ (env : Env) (maxDepth : Option Nat), MonoClock env →
        (∃ i ∈ (search env G p maxDepth (cacheAfter G p gs tt0)).infos, i.depth ≥ 3) →
        ∃ m, (search env G p maxDepth (cacheAfter G p gs tt0)).st.bestMove = some m ∧ Lost G (G.play p m) := by
  intro gs
  induction gs with
  | nil =>
    intro tt0 hinv _
    exact ⟨hinv, fun env md hc hdone =>
      (mate_in_two_kept' env G p md tt0 hc he hk hno hL hd hex hinv hdone).1⟩
  | cons g gs ih =>
    intro tt0 hinv hgs
    obtain ⟨m, hm, hq⟩ := hex
    have hl2 := l2_of_mateInTwoBy hm hd
    have h1 := mateTwoInv_search g.env G p g.maxDepth tt0 (hgs g List.mem_cons_self) he hk hno hL _ ⟨m, hm.1, hl2⟩ hinv
    exact ih _ h1 (fun x hx => hgs x (List.mem_cons_of_mem _ hx))

/-- the first search of a position, from the empty cache -/
theorem mate_in_two_kept_first (env : Env) (G : Game P M) (p : P) (maxDepth : Option Nat)
    (hc : MonoClock env) (he : EvalBoundedFrom G p) (hk : KeyMate G)
    (hno : NoMateInOne G p) (hL : LineKeys G p) (hd : NoDrawBelow3 G p)
    (hex : ∃ m, MateInTwoBy G p m ∧ G.inCheck (G.play p m) = false)
    (hdone : ∃ i ∈ (search env G p maxDepth {}).infos, i.depth ≥ 3) :
    ∃ m, (search env G p maxDepth {}).st.bestMove = some m ∧ Lost G (G.play p m) :=
  (mate_in_two_kept' env G p maxDepth {} hc he hk hno hL hd hex (mateTwoInv_empty G p) hdone).1

/-- `LineKeys` for a key that is injective on the tree and the root, when no node of the mating-line kinds lies below
    ply 250 -/
theorem lineKeys_of_inj {G : Game P M} {p : P} (hno : NoMateInOne G p)
    (hinj : ∀ n q n' q', TreeAt G p n q → TreeAt G p n' q' → G.key q = G.key q' → q = q')
    (hroot : ∀ n q, TreeAt G p n q → G.key q = G.key p → q = p)
    (hdeep : ∀ n q, TreeAt G p n q → (W1 G q ∨ ∃ b, L2 G b q) → n ≤ 250) : LineKeys G p := by
  refine ⟨?_, ?_, ?_, ?_⟩
  · intro n q n' q' hq hq' hkey hm
    cases hinj n q n' q' hq hq' hkey
    exact .inr (.inr hm.2.2.1)
  · intro n q n' q' hq hq' hkey hw
    cases hinj n q n' q' hq hq' hkey
    exact .inr ⟨hw, hdeep n q hq (.inl hw)⟩
  · intro n q n' q' b hq hq' hkey hl
    cases hinj n q n' q' hq hq' hkey
    exact .inr ⟨hl, hdeep n q hq (.inr ⟨b, hl⟩)⟩
  · intro n' q' hq' hw hkey
    cases hroot n' q' hq' hkey
    obtain ⟨_, _, x, hx, _, _, hM⟩ := hw
    exact hno x hx hM

/-! ## the clean statement is false: a counterexample

`GC`, on `Fin 12` (a move is its target square, the key is injective, nothing is ever a draw):

    0 = root:  1 (static score 300), 2 (200), 3 (100)
    1 (in check) → 4, 5;   4 → 2;   5 → 8 → 9          (5 is fine for the defender: 9 is a stalemate)
    2 (in check) → 6 → 7,  7 is mated                    (so the move 2 is the key move of a mate in two)
    3 → 10 → 11                                          (worth 150, 50, 50 at depths 1, 2, 3)

The position 2 occurs at ply 1 and, by transposition, at ply 3 (0 → 1 → 4 → 2).

* iteration 1: the move 1 scores 100; the move 2 is searched in the null window `(−101, −100)`, its only reply is
  answered by the stand-pat score, `−100 ≥ β`: cut, `⟨−100, depth 1, lower⟩` is stored for 2 (depth 1 = asked depth 0
  plus the check extension); the move 3 scores 150.
* iteration 2: 3 drops to 50; the node 1 (in check, asked for depth 1) is answered by its depth-1 entry `−100, exact`
  of iteration 1 and becomes the best move with 100; the move 2, asked for depth 1 in `(−101, −100)`, is answered by
  its lower bound `−100 ≥ β`.  Nothing below 1 or 2 was searched in this iteration.
* iteration 3: 1 → 4 → 2 is the principal variation: 2 is asked for depth 1 in the full window; its depth-1 lower
  bound `−100` is usable and raises α to `−100`; the search at depth 2 (extension) sees the mate — every reply scores
  a mate for the opponent, `≤ α` — and returns α: `⟨−100, depth 2, exact⟩` is stored for a position that is mated in
  two.  Back at the root, the move 2 is asked for depth 2 and answered by that entry: 100, no better than the move 1.

The ingredients: the cache compares the stored depth (after the check extension) with the asked depth (before it), so
an in-check node asked for depth `d` may be answered by a search that was one ply shallower than the one it would
start; and a lower bound read from such an entry survives into the stored "exact" score of the deeper search.  For a
node that is mated in two and in check, the depth-2 entries are therefore unreliable; the depth-3 ones are not (their
lower bounds come from depth ≥ 2 entries, which a cut only writes with a mate score). -/
namespace Counter

def mvC : Fin 12 → List (Fin 12) := fun p => match p with
  | 0 => [1, 2, 3] | 1 => [4, 5] | 4 => [2] | 2 => [6] | 6 => [7] | 5 => [8] | 8 => [9] | 3 => [10] | 10 => [11] | _ => []
def ckC : Fin 12 → Bool := fun p => p == 1 || p == 2 || p == 7
def evC : Fin 12 → Int := fun p => match p with
  | 4 => 100 | 5 => 120 | 9 => 120 | 3 => -150 | 10 => 50 | 11 => -50 | _ => 0

def GC : Game (Fin 12) (Fin 12) where
  allMoves := mvC
  legal _ _ := true
  play _ m := m
  inCheck := ckC
  eval := evC
  fifty _ := false
  repeated _ := false
  key p := UInt64.ofNat p.val
  isCapture _ := false
  isPromotion _ := false
  staticScore m := match m with | 1 => 300 | 2 => 200 | 3 => 100 | _ => 0
  defaultMove := 0

def rC := search {} GC 0 (some 3) {}

/-- info: ([1, 2, 3], some 1, some 100) -/
#guard_msgs in
#eval (rC.infos.map (·.depth), rC.st.bestMove, rC.st.bestScore)

theorem GC_legal (q : Fin 12) : legalMovesOf GC q = mvC q := by
  show (mvC q).filter (fun _ => true) = mvC q
  simp

theorem GC_key_inj : ∀ a b : Fin 12, GC.key a = GC.key b → a = b := by
  show ∀ a b : Fin 12, UInt64.ofNat a.val = UInt64.ofNat b.val → a = b
  decide

theorem GC_keyMate : KeyMate GC := by
  intro a b h; cases GC_key_inj a b h; exact ⟨id, id⟩

theorem GC_evalBounded : EvalBoundedFrom GC 0 := by
  intro q _
  have : ∀ q : Fin 12, -32511 ≤ evC q ∧ evC q ≤ 32511 := by decide
  exact this q

theorem GC_noMateInOne : NoMateInOne GC 0 := by
  intro m hm hmated
  rw [GC_legal] at hm
  have hnil := hmated.1
  rw [GC_legal] at hnil
  change m ∈ [(1 : Fin 12), 2, 3] at hm
  simp only [List.mem_cons, List.not_mem_nil, or_false] at hm
  rcases hm with rfl | rfl | rfl <;> exact absurd hnil (by decide)

/-- the move 2 is the key move of a mate in two: 0 → 2 → 6 → 7, and 7 is mated -/
theorem GC_mateInTwo : MateInTwoBy GC 0 2 := by
  refine ⟨by rw [GC_legal]; decide, by rw [GC_legal]; decide, ?_⟩
  intro r hr
  rw [GC_legal] at hr
  change r ∈ [(6 : Fin 12)] at hr
  simp only [List.mem_singleton] at hr
  subst hr
  refine ⟨7, by rw [GC_legal]; decide, ?_, by decide⟩
  rw [GC_legal]; rfl

/-- the move 1 does not keep a forced mate: the reply 5 leads to 8 → 9, and 9 is a stalemate -/
theorem GC_not_lost_1 : ¬ Lost GC (GC.play 0 1) := by
  intro h
  cases h with
  | mate hnil _ => rw [GC_legal] at hnil; exact absurd hnil (by decide)
  | all _ hall =>
    have hw := hall 5 (by rw [GC_legal]; decide)
    cases hw with
    | some m hm hl =>
      rw [GC_legal] at hm
      change m ∈ [(8 : Fin 12)] at hm
      simp only [List.mem_singleton] at hm
      subst hm
      cases hl with
      | mate hnil _ => rw [GC_legal] at hnil; exact absurd hnil (by decide)
      | all _ hall2 =>
        have hw2 := hall2 9 (by rw [GC_legal]; decide)
        cases hw2 with
        | some m2 hm2 _ =>
          rw [GC_legal] at hm2
          exact absurd hm2 List.not_mem_nil

/-- The clean statement, restricted to the FIRST search of a position (empty cache), with an injective key and a game
    without draws.  FALSE. -/
def mate_in_two_first_search_statement : Prop :=
  ∀ (P M : Type) [DecidableEq M] (env : Env) (G : Game P M) (p : P) (maxDepth : Option Nat),
    MonoClock env → env.cacheOff = false → EvalBoundedFrom G p → KeyMate G →
    (∀ a b, G.key a = G.key b → a = b) → (∀ q, G.fifty q = false ∧ G.repeated q = false) →
    NoMateInOne G p → (∃ m, MateInTwoBy G p m) →
    (∃ i ∈ (search env G p maxDepth {}).infos, i.depth ≥ 3) →
    ∃ m, (search env G p maxDepth {}).st.bestMove = some m ∧ Lost G (G.play p m)

/-- `mate_in_two_first_search_statement` fails, given the run displayed by the `#eval` above -/
theorem mate_in_two_first_search_refuted
    (hrun : (∃ i ∈ rC.infos, i.depth ≥ 3) ∧ rC.st.bestMove = some 1) :
    ¬ mate_in_two_first_search_statement := by
  intro h
  obtain ⟨m, h1, h2⟩ := h (Fin 12) (Fin 12) {} GC 0 (some 3) (fun _ _ _ => Nat.le_refl _) rfl GC_evalBounded
    GC_keyMate GC_key_inj (fun _ => ⟨rfl, rfl⟩) GC_noMateInOne ⟨2, GC_mateInTwo⟩ hrun.1
  have h1' : rC.st.bestMove = some m := h1
  rw [hrun.2] at h1'
  cases h1'
  exact GC_not_lost_1 h2

/-- The full statement as specified: some cache invariant holds of the empty cache, is re-established by every search,
    and guarantees that a mate in two is kept once a 3-ply iteration has completed (cache on; here even with an
    injective key and no draws at all).  FALSE: its instance for the empty cache is the statement above. -/
def mate_in_two_kept_statement : Prop :=
  ∃ Inv : (P M : Type) → [DecidableEq M] → Game P M → P → Table M → Prop,
    (∀ (P M : Type) [DecidableEq M] (G : Game P M) (p : P), Inv P M G p {}) ∧
    ∀ (P M : Type) [DecidableEq M] (env : Env) (G : Game P M) (p : P) (maxDepth : Option Nat) (tt0 : Table M),
      MonoClock env → env.cacheOff = false → EvalBoundedFrom G p → KeyMate G →
      (∀ a b, G.key a = G.key b → a = b) → (∀ q, G.fifty q = false ∧ G.repeated q = false) →
      NoMateInOne G p → (∃ m, MateInTwoBy G p m) → Inv P M G p tt0 →
      (∃ i ∈ (search env G p maxDepth tt0).infos, i.depth ≥ 3) →
      (∃ m, (search env G p maxDepth tt0).st.bestMove = some m ∧ Lost G (G.play p m)) ∧
      Inv P M G p (search env G p maxDepth tt0).st.tt

theorem mate_in_two_kept_refuted (hrun : (∃ i ∈ rC.infos, i.depth ≥ 3) ∧ rC.st.bestMove = some 1) :
    ¬ mate_in_two_kept_statement := by
  rintro ⟨Inv, h0, h⟩
  apply mate_in_two_first_search_refuted hrun
  intro P M _ env G p md hc hoff he hk hinj hnd hno hex hdone
  exact (h P M env G p md {} hc hoff he hk hinj hnd hno hex (h0 P M G p) hdone).1

/-! ### the extra hypotheses of `mate_in_two_kept'` cannot be dropped; and they can be met

`GC` above satisfies every hypothesis of `mate_in_two_kept'` except that its key move gives check: a checking key move
needs the 4-ply iteration (`mate_in_two_kept_four`).  `mkG true` below satisfies every hypothesis except `NoDrawBelow3`:
the mated position is declared a draw by repetition before the mate test.  `mkG false` satisfies them all. -/

def rkC : Fin 12 → Nat := fun p => match p with
  | 0 => 0 | 1 => 1 | 3 => 1 | 4 => 2 | 5 => 2 | 10 => 2 | 2 => 3 | 8 => 3 | 11 => 3 | 6 => 4 | 9 => 4 | _ => 5

theorem GC_tree_le {n : Nat} {q : Fin 12} (h : TreeAt GC 0 n q) : n ≤ rkC q := by
  have hstep : ∀ q m : Fin 12, m ∈ mvC q → rkC q + 1 ≤ rkC m := by decide
  induction h with
  | child hm => rw [GC_legal] at hm; exact hstep 0 _ hm
  | step _ hm ih => rw [GC_legal] at hm; have := hstep _ _ hm; exact Nat.le_trans (Nat.succ_le_succ ih) this

theorem GC_lineKeys : LineKeys GC 0 := by
  refine lineKeys_of_inj GC_noMateInOne (fun _ _ _ _ _ _ h => GC_key_inj _ _ h) (fun _ _ _ h => GC_key_inj _ _ h) ?_
  intro n q hq _
  have h1 := GC_tree_le hq
  have h2 : ∀ q : Fin 12, rkC q ≤ 5 := by decide
  have := h2 q
  omega

theorem GC_noDraw : NoDrawBelow3 GC 0 := fun _ _ _ _ => ⟨rfl, rfl⟩

/-- `mate_in_two_kept'` (first search) without the proviso that the key move is quiet.  FALSE. -/
def mate_in_two_checking_key_statement : Prop :=
  ∀ (P M : Type) [DecidableEq M] (env : Env) (G : Game P M) (p : P) (maxDepth : Option Nat),
    MonoClock env → EvalBoundedFrom G p → KeyMate G → NoMateInOne G p → LineKeys G p → NoDrawBelow3 G p →
    (∃ m, MateInTwoBy G p m) → (∃ i ∈ (search env G p maxDepth {}).infos, i.depth ≥ 3) →
    ∃ m, (search env G p maxDepth {}).st.bestMove = some m ∧ Lost G (G.play p m)

theorem mate_in_two_checking_key_refuted
    (hrun : (∃ i ∈ rC.infos, i.depth ≥ 3) ∧ rC.st.bestMove = some 1) :
    ¬ mate_in_two_checking_key_statement := by
  intro h
  obtain ⟨m, h1, h2⟩ := h (Fin 12) (Fin 12) {} GC 0 (some 3) (fun _ _ _ => Nat.le_refl _) GC_evalBounded
    GC_keyMate GC_noMateInOne GC_lineKeys GC_noDraw ⟨2, GC_mateInTwo⟩ hrun.1
  have h1' : rC.st.bestMove = some m := h1
  rw [hrun.2] at h1'
  cases h1'
  exact GC_not_lost_1 h2

/-- with the 4-ply iteration the mate is kept in `GC` too -/
theorem GC_kept_four (hrun : ∃ i ∈ (search {} GC 0 (some 4) {}).infos, i.depth ≥ 4) :
    ∃ m, (search {} GC 0 (some 4) {}).st.bestMove = some m ∧ Lost GC (GC.play 0 m) :=
  (mate_in_two_kept_four {} GC 0 (some 4) {} (fun _ _ _ => Nat.le_refl _) GC_evalBounded GC_keyMate GC_noMateInOne
    GC_lineKeys GC_noDraw ⟨2, GC_mateInTwo⟩ (mateTwoInv_empty GC 0) hrun).1

/-- info: ([1, 2, 3, 4], some 2, some 32765) -/
#guard_msgs in
#eval ((search {} GC 0 (some 4) {}).infos.map (·.depth), (search {} GC 0 (some 4) {}).st.bestMove,
  (search {} GC 0 (some 4) {}).st.bestScore)

/-! 0 = root: 1 (quiet key move: 1 → 2 → 3, and 3 is mated), 4 (4 → 5 → 6, worth 50);  `rep` = "3 is a repetition" -/

def mvD : Fin 8 → List (Fin 8) := fun p => match p with
  | 0 => [1, 4] | 1 => [2] | 2 => [3] | 4 => [5] | 5 => [6] | _ => []

def mkG (rep : Bool) : Game (Fin 8) (Fin 8) where
  allMoves := mvD
  legal _ _ := true
  play _ m := m
  inCheck p := p == 3
  eval p := match p with | 4 => -50 | 5 => 50 | 6 => -50 | _ => 0
  fifty _ := false
  repeated p := rep && p == 3
  key p := UInt64.ofNat p.val
  isCapture _ := false
  isPromotion _ := false
  staticScore _ := 0
  defaultMove := 0

theorem mkG_legal (rep : Bool) (q : Fin 8) : legalMovesOf (mkG rep) q = mvD q := by
  show (mvD q).filter (fun _ => true) = mvD q
  simp

theorem mkG_key_inj (rep : Bool) : ∀ a b : Fin 8, (mkG rep).key a = (mkG rep).key b → a = b := by
  show ∀ a b : Fin 8, UInt64.ofNat a.val = UInt64.ofNat b.val → a = b
  decide

theorem mkG_keyMate (rep : Bool) : KeyMate (mkG rep) := by
  intro a b h; cases mkG_key_inj rep a b h; exact ⟨id, id⟩

theorem mkG_evalBounded (rep : Bool) : EvalBoundedFrom (mkG rep) 0 := by
  intro q _
  have : ∀ q : Fin 8, -32511 ≤ (match q with | 4 => (-50 : Int) | 5 => 50 | 6 => -50 | _ => 0) ∧
      (match q with | 4 => (-50 : Int) | 5 => 50 | 6 => -50 | _ => 0) ≤ 32511 := by decide
  exact this q

theorem mkG_noMateInOne (rep : Bool) : NoMateInOne (mkG rep) 0 := by
  intro m hm hmated
  rw [mkG_legal] at hm
  have hnil := hmated.1
  rw [mkG_legal] at hnil
  change m ∈ [(1 : Fin 8), 4] at hm
  simp only [List.mem_cons, List.not_mem_nil, or_false] at hm
  rcases hm with rfl | rfl <;> exact absurd hnil (by cases rep <;> decide)

theorem mkG_tree_le (rep : Bool) {n : Nat} {q : Fin 8} (h : TreeAt (mkG rep) 0 n q) : n ≤ q.val := by
  have hstep : ∀ q m : Fin 8, m ∈ mvD q → q.val + 1 ≤ m.val := by decide
  induction h with
  | child hm => rw [mkG_legal] at hm; exact hstep 0 _ hm
  | step _ hm ih => rw [mkG_legal] at hm; have := hstep _ _ hm; exact Nat.le_trans (Nat.succ_le_succ ih) this

theorem mkG_lineKeys (rep : Bool) : LineKeys (mkG rep) 0 := by
  refine lineKeys_of_inj (mkG_noMateInOne rep) (fun _ _ _ _ _ _ h => mkG_key_inj rep _ _ h)
    (fun _ _ _ h => mkG_key_inj rep _ _ h) ?_
  intro n q hq _
  have h1 := mkG_tree_le rep hq
  have := q.isLt
  omega

/-- the move 1 is the quiet key move of a mate in two -/
theorem mkG_mateInTwo (rep : Bool) : MateInTwoBy (mkG rep) 0 1 ∧ (mkG rep).inCheck ((mkG rep).play 0 1) = false := by
  refine ⟨⟨by rw [mkG_legal]; cases rep <;> decide, by rw [mkG_legal]; cases rep <;> decide, ?_⟩, rfl⟩
  intro r hr
  rw [mkG_legal] at hr
  change r ∈ [(2 : Fin 8)] at hr
  simp only [List.mem_singleton] at hr
  subst hr
  refine ⟨3, by rw [mkG_legal]; cases rep <;> decide, ?_, by cases rep <;> decide⟩
  rw [mkG_legal]; rfl

theorem mkG_not_lost_4 (rep : Bool) : ¬ Lost (mkG rep) ((mkG rep).play 0 4) := by
  intro h
  cases h with
  | mate hnil _ => rw [mkG_legal] at hnil; exact absurd hnil (by cases rep <;> decide)
  | all _ hall =>
    have hw := hall 5 (by rw [mkG_legal]; cases rep <;> decide)
    cases hw with
    | some m hm hl =>
      rw [mkG_legal] at hm
      change m ∈ [(6 : Fin 8)] at hm
      simp only [List.mem_singleton] at hm
      subst hm
      cases hl with
      | mate _ hchk => exact absurd hchk (by cases rep <;> decide)
      | all hne _ => rw [mkG_legal] at hne; exact hne rfl

/-- `mate_in_two_kept'` (first search) without `NoDrawBelow3`.  FALSE. -/
def mate_in_two_draws_allowed_statement : Prop :=
  ∀ (P M : Type) [DecidableEq M] (env : Env) (G : Game P M) (p : P) (maxDepth : Option Nat),
    MonoClock env → EvalBoundedFrom G p → KeyMate G → NoMateInOne G p → LineKeys G p →
    (∃ m, MateInTwoBy G p m ∧ G.inCheck (G.play p m) = false) →
    (∃ i ∈ (search env G p maxDepth {}).infos, i.depth ≥ 3) →
    ∃ m, (search env G p maxDepth {}).st.bestMove = some m ∧ Lost G (G.play p m)

def rD := search {} (mkG true) 0 (some 3) {}
def rE := search {} (mkG false) 0 (some 3) {}

/-- info: ([1, 2, 3], some 4, some 50, [1, 2, 3], some 1, some 32765) -/
#guard_msgs in
#eval (rD.infos.map (·.depth), rD.st.bestMove, rD.st.bestScore, rE.infos.map (·.depth), rE.st.bestMove, rE.st.bestScore)

theorem mate_in_two_draws_allowed_refuted (hrun : (∃ i ∈ rD.infos, i.depth ≥ 3) ∧ rD.st.bestMove = some 4) :
    ¬ mate_in_two_draws_allowed_statement := by
  intro h
  obtain ⟨m, h1, h2⟩ := h (Fin 8) (Fin 8) {} (mkG true) 0 (some 3) (fun _ _ _ => Nat.le_refl _) (mkG_evalBounded true)
    (mkG_keyMate true) (mkG_noMateInOne true) (mkG_lineKeys true) ⟨1, mkG_mateInTwo true⟩ hrun.1
  have h1' : rD.st.bestMove = some m := h1
  rw [hrun.2] at h1'
  cases h1'
  exact mkG_not_lost_4 true h2

/-- all hypotheses of `mate_in_two_kept'` hold of `mkG false`: the theorem applies to the run displayed above -/
theorem mkG_false_kept (hrun : ∃ i ∈ rE.infos, i.depth ≥ 3) :
    ∃ m, rE.st.bestMove = some m ∧ Lost (mkG false) ((mkG false).play 0 m) :=
  mate_in_two_kept_first {} (mkG false) 0 (some 3) (fun _ _ _ => Nat.le_refl _) (mkG_evalBounded false)
    (mkG_keyMate false) (mkG_noMateInOne false) (mkG_lineKeys false) (fun _ _ _ _ => ⟨rfl, rfl⟩)
    ⟨1, mkG_mateInTwo false⟩ hrun

/-! ### `KeyMate` does not suffice as key hypothesis

0 = root: 4 (static score 300), 1 (the quiet key move: 1 → 2 → 3, and 3 is mated);  4 → 5, 9;  5 → 6 → 7 → 8 with 8 mated
(so 5 is won, in two); 9 → 10 → 11 is harmless.  The position 5 has the key of the position 2: both are won, `KeyMate`
holds, but 5 does not mate at once (`LineKeys.won` fails).  In the 3-ply iteration 5 is searched one ply deep and
stores `⟨0, depth 1, exact⟩`; the node 2, asked for depth 1 on the mating line, is answered by it. -/

def mvK : Fin 12 → List (Fin 12) := fun p => match p with
  | 0 => [4, 1] | 1 => [2] | 2 => [3] | 4 => [5, 9] | 5 => [6] | 6 => [7] | 7 => [8] | 9 => [10] | 10 => [11] | _ => []

def GK : Game (Fin 12) (Fin 12) where
  allMoves := mvK
  legal _ _ := true
  play _ m := m
  inCheck p := p == 3 || p == 8
  eval _ := 0
  fifty _ := false
  repeated _ := false
  key p := if p = 5 then 2 else UInt64.ofNat p.val
  isCapture _ := false
  isPromotion _ := false
  staticScore m := match m with | 4 => 300 | 1 => 100 | _ => 0
  defaultMove := 0

theorem GK_legal (q : Fin 12) : legalMovesOf GK q = mvK q := by
  show (mvK q).filter (fun _ => true) = mvK q
  simp

theorem GK_key_cases : ∀ a b : Fin 12, GK.key a = GK.key b → a = b ∨ (a = 2 ∧ b = 5) ∨ (a = 5 ∧ b = 2) := by
  show ∀ a b : Fin 12, (if a = 5 then (2 : UInt64) else UInt64.ofNat a.val) = (if b = 5 then 2 else UInt64.ofNat b.val) →
    a = b ∨ (a = 2 ∧ b = 5) ∨ (a = 5 ∧ b = 2)
  decide

theorem GK_lost_3 : Lost GK 3 := Lost.mate (by rw [GK_legal]; rfl) (by decide)
theorem GK_lost_8 : Lost GK 8 := Lost.mate (by rw [GK_legal]; rfl) (by decide)
theorem GK_won_2 : Won GK 2 := Won.some (3 : Fin 12) (by rw [GK_legal]; decide) GK_lost_3
theorem GK_won_7 : Won GK 7 := Won.some (8 : Fin 12) (by rw [GK_legal]; decide) GK_lost_8
theorem GK_lost_6 : Lost GK 6 := by
  refine Lost.all (by rw [GK_legal]; decide) ?_
  intro m hm
  rw [GK_legal] at hm
  change m ∈ [(7 : Fin 12)] at hm
  simp only [List.mem_singleton] at hm
  subst hm
  exact GK_won_7
theorem GK_won_5 : Won GK 5 := Won.some (6 : Fin 12) (by rw [GK_legal]; decide) GK_lost_6

theorem GK_keyMate : KeyMate GK := by
  intro a b h
  rcases GK_key_cases a b h with rfl | ⟨rfl, rfl⟩ | ⟨rfl, rfl⟩
  · exact ⟨id, id⟩
  · exact ⟨fun _ => GK_won_5, fun l => absurd GK_won_2 (SearchMateOne.not_won_of_lost l)⟩
  · exact ⟨fun _ => GK_won_2, fun l => absurd GK_won_5 (SearchMateOne.not_won_of_lost l)⟩

theorem GK_noMateInOne : NoMateInOne GK 0 := by
  intro m hm hmated
  rw [GK_legal] at hm
  have hnil := hmated.1
  rw [GK_legal] at hnil
  change m ∈ [(4 : Fin 12), 1] at hm
  simp only [List.mem_cons, List.not_mem_nil, or_false] at hm
  rcases hm with rfl | rfl <;> exact absurd hnil (by decide)

theorem GK_mateInTwo : MateInTwoBy GK 0 1 ∧ GK.inCheck (GK.play 0 1) = false := by
  refine ⟨⟨by rw [GK_legal]; decide, by rw [GK_legal]; decide, ?_⟩, rfl⟩
  intro r hr
  rw [GK_legal] at hr
  change r ∈ [(2 : Fin 12)] at hr
  simp only [List.mem_singleton] at hr
  subst hr
  refine ⟨3, by rw [GK_legal]; decide, ?_, by decide⟩
  rw [GK_legal]; rfl

theorem GK_not_lost_4 : ¬ Lost GK (GK.play 0 4) := by
  intro h
  cases h with
  | mate hnil _ => rw [GK_legal] at hnil; exact absurd hnil (by decide)
  | all _ hall =>
    have hw := hall 9 (by rw [GK_legal]; decide)
    cases hw with
    | some m hm hl =>
      rw [GK_legal] at hm
      change m ∈ [(10 : Fin 12)] at hm
      simp only [List.mem_singleton] at hm
      subst hm
      cases hl with
      | mate hnil _ => rw [GK_legal] at hnil; exact absurd hnil (by decide)
      | all _ hall2 =>
        have hw2 := hall2 11 (by rw [GK_legal]; decide)
        cases hw2 with
        | some m2 hm2 _ =>
          rw [GK_legal] at hm2
          exact absurd hm2 List.not_mem_nil

/-- `mate_in_two_kept'` (first search) without `LineKeys`.  FALSE. -/
def mate_in_two_keyMate_only_statement : Prop :=
  ∀ (P M : Type) [DecidableEq M] (env : Env) (G : Game P M) (p : P) (maxDepth : Option Nat),
    MonoClock env → EvalBoundedFrom G p → KeyMate G → NoMateInOne G p → NoDrawBelow3 G p →
    (∃ m, MateInTwoBy G p m ∧ G.inCheck (G.play p m) = false) →
    (∃ i ∈ (search env G p maxDepth {}).infos, i.depth ≥ 3) →
    ∃ m, (search env G p maxDepth {}).st.bestMove = some m ∧ Lost G (G.play p m)

def rK := search {} GK 0 (some 3) {}

/-- info: ([1, 2, 3], some 4, some 0) -/
#guard_msgs in
#eval (rK.infos.map (·.depth), rK.st.bestMove, rK.st.bestScore)

theorem mate_in_two_keyMate_only_refuted (hrun : (∃ i ∈ rK.infos, i.depth ≥ 3) ∧ rK.st.bestMove = some 4) :
    ¬ mate_in_two_keyMate_only_statement := by
  intro h
  obtain ⟨m, h1, h2⟩ := h (Fin 12) (Fin 12) {} GK 0 (some 3) (fun _ _ _ => Nat.le_refl _)
    (fun q _ => ⟨by show (-32511 : Int) ≤ 0; omega, by show (0 : Int) ≤ 32511; omega⟩)
    GK_keyMate GK_noMateInOne (fun _ _ _ _ => ⟨rfl, rfl⟩) ⟨1, GK_mateInTwo⟩ hrun.1
  have h1' : rK.st.bestMove = some m := h1
  rw [hrun.2] at h1'
  cases h1'
  exact GK_not_lost_4 h2

end Counter

end RCE.Proofs.SearchMateTwo

#print axioms RCE.Proofs.SearchMateTwo.mate_in_two_found
#print axioms RCE.Proofs.SearchMateTwo.mateTwoInv_search
#print axioms RCE.Proofs.SearchMateTwo.mateTwoInv_empty
#print axioms RCE.Proofs.SearchMateTwo.mate_in_two_kept
#print axioms RCE.Proofs.SearchMateTwo.mate_in_two_kept'
#print axioms RCE.Proofs.SearchMateTwo.mate_in_two_kept_four
#print axioms RCE.Proofs.SearchMateTwo.mate_in_two_score
#print axioms RCE.Proofs.SearchMateTwo.mate_in_two_kept_again
#print axioms RCE.Proofs.SearchMateTwo.mate_in_two_kept_first
#print axioms RCE.Proofs.SearchMateTwo.lineKeys_of_inj
#print axioms RCE.Proofs.SearchMateTwo.Counter.mate_in_two_first_search_refuted
#print axioms RCE.Proofs.SearchMateTwo.Counter.mate_in_two_kept_refuted
#print axioms RCE.Proofs.SearchMateTwo.Counter.mate_in_two_checking_key_refuted
#print axioms RCE.Proofs.SearchMateTwo.Counter.mate_in_two_draws_allowed_refuted
#print axioms RCE.Proofs.SearchMateTwo.Counter.mate_in_two_keyMate_only_refuted
#print axioms RCE.Proofs.SearchMateTwo.Counter.GC_kept_four
#print axioms RCE.Proofs.SearchMateTwo.Counter.mkG_false_kept

