import RCE.Proofs.SearchPvNonempty
/-! C14 (addition): every reported `info` line of a root that has a legal move carries a score.

    An info line for depth `d` is appended by `iterate` only when the abort check right after
    `abStart env G p d st` does not fire.  Under a monotone clock that means `abStart` completed (an interrupted
    state makes the check fire), and a completed `abStart` at a root with a legal move runs its save:
    `bestScore := some alpha` with `alpha` in the `i16` range, and the root entry `⟨alpha, d, exact, best⟩` with
    `best` legal, which is the first move `getPv` reads.  So `infoLine` never takes its `.none` branch, and in
    the two mate bands the printed number `± ⌈pv.length / 2⌉` is non-zero because the PV is non-empty. -/
namespace RCE.Proofs.SearchInfoScore
open RCE.Search RCE.Proofs.SearchDefs RCE.Proofs.SearchUnfold RCE.Proofs.SearchBest RCE.Proofs.SearchAbort
  RCE.Proofs.SearchPvNonempty

variable {P M : Type} [DecidableEq M]
set_option linter.unusedSectionVars false

/-- the state `abStart` returns is interrupted, or the save ran: the best score is the (in-range) score of the
    root entry, whose move is legal -/
def StartPost2 (env : Env) (G : Game P M) (root : P) (S : St M) : Prop :=
  Interrupted env S ∨
    ∃ e, S.tt[G.key root]? = some e ∧ e.best ∈ legalMovesOf G root ∧ S.bestScore = some e.score ∧ InR e.score

theorem abStart_post2 (env : Env) (hc : MonoClock env) {G : Game P M} {root : P} (he : EvalBoundedFrom G root)
    (hl : legalMovesOf G root ≠ []) (depth : Nat) {st : St M} (h : RootInv G root st) :
    StartPost2 env G root (abStart env G root depth st) := by
  rw [abStart_eq]
  split
  · rename_i heq
    unfold legalMovesOf at hl
    rw [heq] at hl
    exact absurd rfl hl
  · rename_i m0 t _
    have hrec : RecB G root 1 (ab env G 255) := fun c a b d st' hk => ab_B env G root 255 c a b d st' (by omega)
    have hk := rootKids_B env he hrec depth
      (orderMoves G ((st.tt[G.key root]?).map (·.best)) (st.killers.getD st.ply (none, none)) (G.allMoves root))
      MINS m0 false 0 st (fun m hm => orderMoves_mem _ _ _ _ _ hm) h (by unfold InR MINS MAXS; omega) (.inl ⟨rfl, rfl⟩)
    have hq := rootKids_post env hc hrec depth
      (orderMoves G ((st.tt[G.key root]?).map (·.best)) (st.killers.getD st.ply (none, none)) (G.allMoves root))
      MINS m0 false 0 st h.ply
    split
    · rename_i heq
      rw [heq] at hq
      exact .inl hq
    · rename_i a b n st' heq
      rw [heq] at hk hq
      have hex : ∃ m ∈ orderMoves G ((st.tt[G.key root]?).map (·.best)) (st.killers.getD st.ply (none, none))
          (G.allMoves root), G.legal root m = true := by
        cases hlm : legalMovesOf G root with
        | nil => exact absurd hlm hl
        | cons x xs =>
          have hx : x ∈ legalMovesOf G root := by rw [hlm]; exact List.mem_cons_self
          have hx' := List.mem_filter.1 hx
          exact ⟨x, (RCE.Proofs.SearchNegamax.orderMoves_perm G _ _ _).mem_iff.2 hx'.1, hx'.2⟩
      have hn : n ≠ 0 := by
        have := hq.2 hex
        omega
      rw [if_neg hn]
      have hst' : RootInv G root st' := hk.1
      have hab := hk.2 a b n st' rfl
      unfold rootSave
      split
      · rename_i hab
        exact .inl (abortCheck_interrupts' env st' hc (by rw [hst'.ply]; omega) hab)
      · refine .inr ⟨⟨a, depth, .exact, b⟩, ?_, hab.2 hn, rfl, hab.1⟩
        show ((abortCheck env st').2.tt.insert (G.key root) ⟨a, depth, .exact, b⟩)[G.key root]? = some _
        exact Std.HashMap.getElem?_insert_self

/-- the score field of an info line, as a function of the best score and the PV length -/
def scoreOf (s : Int) (len : Nat) : ScoreOut :=
  if s ≤ MINS + 255 + 1 then .mate (-(((len + 1) / 2 : Nat) : Int))
  else if s ≥ MAXS - 255 then .mate (((len + 1) / 2 : Nat) : Int) else .cp s

/-- the property of an info line: its score is `scoreOf` of an `i16` value, its PV starts with a legal move -/
def ScoreGood (G : Game P M) (p : P) (i : InfoLine M) : Prop :=
  (∃ s, InR s ∧ i.score = scoreOf s i.pv.length) ∧ ∃ m rest, i.pv = m :: rest ∧ m ∈ legalMovesOf G p

theorem iterate_score (env : Env) (hc : MonoClock env) {G : Game P M} {p : P} (he : EvalBoundedFrom G p)
    (hl : legalMovesOf G p ≠ []) (md : Nat) :
    ∀ (fuel d : Nat) (st : St M) (infos : List (InfoLine M)), 1 ≤ d → RootInv G p st →
      (∀ i ∈ infos, ScoreGood G p i) →
      ∀ i ∈ (iterate env G p md fuel d st infos).2, ScoreGood G p i := by
  intro fuel
  induction fuel with
  | zero => intro d st infos _ _ h; exact h
  | succ fuel ih =>
    intro d st infos hd h hi
    rw [iterate_succ]
    have h1 := abStart_B env he d h
    have hf := abortCheck_frame env (abStart env G p d st)
    have hcI : RootInv G p (abortCheck env (abStart env G p d st)).2 :=
      h1.of_keep (keep_of_frame hf) (by rw [hf.1]; exact h1.tbl)
    have hpost := abStart_post2 env hc he hl d h
    split
    · exact hi
    · simp only []
      split
      · exact hi
      · rename_i hab
        apply ih (d + 1) _ _ (by omega) hcI
        intro i hmem
        rcases List.mem_append.1 hmem with hmem | hmem
        · exact hi i hmem
        · rw [List.mem_singleton] at hmem
          subst hmem
          rcases hpost with hint | ⟨e, hE, hbest, hbs, hr⟩
          · exact absurd (abortCheck_of_interrupted env _ hc hint) hab
          · obtain ⟨d', rfl⟩ : ∃ d', d = d' + 1 := ⟨d - 1, by omega⟩
            have hlegal : G.legal p e.best = true := (List.mem_filter.1 hbest).2
            have hbs' : (abortCheck env (abStart env G p (d' + 1) st)).2.bestScore = some e.score := by
              rw [hf.2.2.2.2.2.2.1, hbs]
            refine ⟨⟨e.score, hr, ?_⟩,
              e.best, getPv G (abortCheck env (abStart env G p (d' + 1) st)).2.tt d' (G.play p e.best), ?_, hbest⟩
            · simp only [infoLine, hbs', scoreOf]
            · show getPv G (abortCheck env (abStart env G p (d' + 1) st)).2.tt (d' + 1) p = _
              simp only [getPv]
              rw [hf.1, hE]
              simp only [hlegal, if_true]

/-- every info line reported for a root that has a legal move: its score is the one `log_uci_info` derives from
    some `i16` value `s` (the best score after the completed iteration) and the length of its PV, and that PV is
    non-empty with a legal first move -/
theorem info_score_shape (env : Env) (G : Game P M) (p : P) (maxDepth : Option Nat) (tt0 : Table M)
    (hc : MonoClock env) (hl : legalMovesOf G p ≠ []) (he : EvalBoundedFrom G p) (ht : TableScoresOK tt0) :
    ∀ i ∈ (search env G p maxDepth tt0).infos,
      (∃ s, (MINS ≤ s ∧ s ≤ MAXS) ∧ i.score = scoreOf s i.pv.length) ∧
      ∃ m rest, i.pv = m :: rest ∧ m ∈ legalMovesOf G p := by
  have h0 : RootInv G p ({ tt := tt0 } : St M) :=
    ⟨rfl, ht, fun m hm => (by cases hm), fun s hs => (by cases hs)⟩
  have h := iterate_score env hc he hl (maxDepth.getD 255) (maxDepth.getD 255) 1 { tt := tt0 } []
    (Nat.le_refl 1) h0 (fun i hi => absurd hi List.not_mem_nil)
  simp only [search]
  exact h

/-- every info line reported for a root that has a legal move carries a score — centipawns or moves-to-mate — never
    the empty score; a centipawn score lies strictly between the mate bands (and so strictly inside `i16`), a mate
    score is a non-zero number of moves, negative ("we are mated") or positive ("we mate"), whose absolute value is
    consistent with the PV length: `|n| = ⌈pv.length / 2⌉` -/
theorem info_score_present (env : Env) (G : Game P M) (p : P) (maxDepth : Option Nat) (tt0 : Table M)
    (hc : MonoClock env) (hl : legalMovesOf G p ≠ []) (he : EvalBoundedFrom G p) (ht : TableScoresOK tt0) :
    ∀ i ∈ (search env G p maxDepth tt0).infos,
      (∃ s, i.score = .cp s ∧ MINS + 255 + 1 < s ∧ s < MAXS - 255) ∨
      (∃ n : Int, i.score = .mate n ∧ n ≠ 0 ∧ n.natAbs = (i.pv.length + 1) / 2 ∧ 1 ≤ n.natAbs ∧
        (n = -(((i.pv.length + 1) / 2 : Nat) : Int) ∨ n = (((i.pv.length + 1) / 2 : Nat) : Int))) := by
  intro i hi
  obtain ⟨⟨s, _, hs⟩, m, rest, hpv, _⟩ := info_score_shape env G p maxDepth tt0 hc hl he ht i hi
  have hlen : 1 ≤ (i.pv.length + 1) / 2 := by
    rw [hpv, List.length_cons]; omega
  rw [hs]
  unfold scoreOf
  split
  · exact .inr ⟨_, rfl, by omega, by omega, by omega, .inl rfl⟩
  · split
    · exact .inr ⟨_, rfl, by omega, by omega, by omega, .inr rfl⟩
    · exact .inl ⟨s, rfl, by omega, by omega⟩

/-- in particular the score is never the empty one -/
theorem info_score_ne_none (env : Env) (G : Game P M) (p : P) (maxDepth : Option Nat) (tt0 : Table M)
    (hc : MonoClock env) (hl : legalMovesOf G p ≠ []) (he : EvalBoundedFrom G p) (ht : TableScoresOK tt0) :
    ∀ i ∈ (search env G p maxDepth tt0).infos, i.score ≠ .none := by
  intro i hi
  rcases info_score_present env G p maxDepth tt0 hc hl he ht i hi with ⟨s, h, _⟩ | ⟨n, h, _⟩ <;>
    (rw [h]; intro hh; cases hh)

end RCE.Proofs.SearchInfoScore

#print axioms RCE.Proofs.SearchInfoScore.info_score_present
