import RCE.Proofs.MoveGenSimple
/-! C01, part 3: the king's moves including castling (`castling_ability` against `Rules.castleMoves`). -/
namespace RCE.Proofs.MoveGen
open RCE RCE.Proofs.BoardWF RCE.Proofs.Abs RCE.Proofs.BoardPBB RCE.Proofs.BoardBits RCE.Proofs.Sliders
open RCE.Proofs.MoveGenList

theorem castleMoves_white (p : Rules.Pos) : Rules.castleMoves p .white =
    if p.at 4 != some ⟨.white, .king⟩ then [] else
      (if p.wk && p.at 7 == some ⟨.white, .rook⟩ && ([5, 6].all fun s => (p.at s).isNone)
          && ([4, 5, 6].all fun s => !Rules.attacked p s .black) then [(⟨4, 6, none⟩ : Rules.Move)] else []) ++
      (if p.wq && p.at 0 == some ⟨.white, .rook⟩ && ([3, 2, 1].all fun s => (p.at s).isNone)
          && ([4, 3, 2].all fun s => !Rules.attacked p s .black) then [(⟨4, 2, none⟩ : Rules.Move)] else []) := rfl

theorem castleMoves_black (p : Rules.Pos) : Rules.castleMoves p .black =
    if p.at 60 != some ⟨.black, .king⟩ then [] else
      (if p.bk && p.at 63 == some ⟨.black, .rook⟩ && ([61, 62].all fun s => (p.at s).isNone)
          && ([60, 61, 62].all fun s => !Rules.attacked p s .white) then [(⟨60, 62, none⟩ : Rules.Move)] else []) ++
      (if p.bq && p.at 56 == some ⟨.black, .rook⟩ && ([59, 58, 57].all fun s => (p.at s).isNone)
          && ([60, 59, 58].all fun s => !Rules.attacked p s .white) then [(⟨60, 58, none⟩ : Rules.Move)] else []) := rfl

/-- a mask test against a constant is a conjunction of bit tests -/
theorem mask_all (x m : BB) (l : List Nat) (hl : ∀ t ∈ l, t < 64)
    (hm : ∀ t, t < 64 → testBit m t = l.contains t) :
    (x &&& m == 0) = l.all fun t => !testBit x t := by
  rw [Bool.eq_iff_iff, beq_iff_eq, eq_zero_iff, List.all_eq_true]
  constructor
  · intro h t ht
    have := h t (hl t ht)
    rw [testBit_and _ _ _ (hl t ht), hm t (hl t ht)] at this
    have hc : l.contains t = true := by simpa using ht
    rw [hc] at this
    simpa using this
  · intro h t ht
    rw [testBit_and _ _ _ ht, hm t ht]
    cases hc : l.contains t
    · simp
    · have := h t (by simpa using hc)
      simp at this
      simp [this]

set_option maxRecDepth 100000 in
theorem masks_fin : ∀ t : Fin 64,
    testBit 0x60 t.val = [5, 6].contains t.val ∧ testBit 0x70 t.val = [4, 5, 6].contains t.val ∧
    testBit 0xE t.val = [3, 2, 1].contains t.val ∧ testBit 0x1C t.val = [4, 3, 2].contains t.val ∧
    testBit 0x6000000000000000 t.val = [61, 62].contains t.val ∧
    testBit 0x7000000000000000 t.val = [60, 61, 62].contains t.val ∧
    testBit 0x0E00000000000000 t.val = [59, 58, 57].contains t.val ∧
    testBit 0x1C00000000000000 t.val = [60, 59, 58].contains t.val := by decide +kernel
theorem all_congr' {α} (l : List α) (p q : α → Bool) (h : ∀ a ∈ l, p a = q a) : l.all p = l.all q := by
  induction l with
  | nil => rfl
  | cons a l ih =>
    rw [List.all_cons, List.all_cons, h a List.mem_cons_self, ih fun x hx => h x (List.mem_cons_of_mem _ hx)]

theorem empty_part (b : Board) (hw : WF b) (m : BB) (l : List Nat) (hl : ∀ t ∈ l, t < 64)
    (hm : ∀ t, t < 64 → testBit m t = l.contains t) :
    (b.bbs.all &&& m == 0) = l.all fun s => ((abs b).at s).isNone := by
  rw [mask_all _ m l hl hm]
  apply all_congr'
  intro t ht
  have := occ_abs b hw.bbs t (hl t ht)
  unfold occOf at this
  rw [← this]
  cases (abs b).at t <;> rfl

theorem safe_part (b : Board) (hw : WF b) (m : BB) (l : List Nat) (hl : ∀ t ∈ l, t < 64)
    (hm : ∀ t, t < 64 → testBit m t = l.contains t) :
    (b.attackedSquares b.turn &&& m == 0) = l.all fun s => !Rules.attacked (abs b) s (absColor b.turn.opp) := by
  rw [mask_all _ m l hl hm]
  apply all_congr'
  intro t ht
  rw [attacked_exact' b hw b.turn t (hl t ht)]

theorem rook_corner (b : Board) (s : Square) (hs : IR s) (c : Color) (h : b.pieceAt s = some ⟨.rook, c⟩) :
    ((abs b).at s.idx == some ⟨absColor c, .rook⟩) = true := by
  rw [abs_at_sq b s hs, h]
  simp [absPiece, absPK]

theorem cond0 (b : Board) (hw : WF b) (ht : b.turn = .white) : b.castlingAbility 0 =
    ((abs b).wk && (abs b).at 7 == some ⟨.white, .rook⟩ && ([5, 6].all fun s => ((abs b).at s).isNone)
      && ([4, 5, 6].all fun s => !Rules.attacked (abs b) s .black)) := by
  have e : b.castlingAbility 0 = (b.rights.wk && (b.bbs.all &&& 0x60 == 0) && (b.attackedSquares b.turn &&& 0x70 == 0)) := rfl
  rw [e, empty_part b hw 0x60 [5, 6] (by decide) (fun t h => (masks_fin ⟨t, h⟩).1),
    safe_part b hw 0x70 [4, 5, 6] (by decide) (fun t h => (masks_fin ⟨t, h⟩).2.1), ht]
  show (b.rights.wk && _ && _) = (b.rights.wk && _ && _ && _)
  cases hr : b.rights.wk
  · rfl
  · have := rook_corner b ⟨0, 7⟩ (by decide) .white (hw.rights.1 hr)
    have e7 : (⟨0, 7⟩ : Square).idx = 7 := rfl
    rw [e7] at this
    rw [show absColor Color.white = Rules.Color.white from rfl] at this
    rw [this]
    rfl

theorem cond1 (b : Board) (hw : WF b) (ht : b.turn = .white) : b.castlingAbility 1 =
    ((abs b).wq && (abs b).at 0 == some ⟨.white, .rook⟩ && ([3, 2, 1].all fun s => ((abs b).at s).isNone)
      && ([4, 3, 2].all fun s => !Rules.attacked (abs b) s .black)) := by
  have e : b.castlingAbility 1 = (b.rights.wq && (b.bbs.all &&& 0xE == 0) && (b.attackedSquares b.turn &&& 0x1C == 0)) := rfl
  rw [e, empty_part b hw 0xE [3, 2, 1] (by decide) (fun t h => (masks_fin ⟨t, h⟩).2.2.1),
    safe_part b hw 0x1C [4, 3, 2] (by decide) (fun t h => (masks_fin ⟨t, h⟩).2.2.2.1), ht]
  show (b.rights.wq && _ && _) = (b.rights.wq && _ && _ && _)
  cases hr : b.rights.wq
  · rfl
  · have := rook_corner b ⟨0, 0⟩ (by decide) .white (hw.rights.2.1 hr)
    have e7 : (⟨0, 0⟩ : Square).idx = 0 := rfl
    rw [e7] at this
    rw [show absColor Color.white = Rules.Color.white from rfl] at this
    rw [this]
    rfl

theorem cond2 (b : Board) (hw : WF b) (ht : b.turn = .black) : b.castlingAbility 2 =
    ((abs b).bk && (abs b).at 63 == some ⟨.black, .rook⟩ && ([61, 62].all fun s => ((abs b).at s).isNone)
      && ([60, 61, 62].all fun s => !Rules.attacked (abs b) s .white)) := by
  have e : b.castlingAbility 2 = (b.rights.bk && (b.bbs.all &&& 0x6000000000000000 == 0) && (b.attackedSquares b.turn &&& 0x7000000000000000 == 0)) := rfl
  rw [e, empty_part b hw _ [61, 62] (by decide) (fun t h => (masks_fin ⟨t, h⟩).2.2.2.2.1),
    safe_part b hw _ [60, 61, 62] (by decide) (fun t h => (masks_fin ⟨t, h⟩).2.2.2.2.2.1), ht]
  show (b.rights.bk && _ && _) = (b.rights.bk && _ && _ && _)
  cases hr : b.rights.bk
  · rfl
  · have := rook_corner b ⟨7, 7⟩ (by decide) .black (hw.rights.2.2.1 hr)
    have e7 : (⟨7, 7⟩ : Square).idx = 63 := rfl
    rw [e7] at this
    rw [show absColor Color.black = Rules.Color.black from rfl] at this
    rw [this]
    rfl

theorem cond3 (b : Board) (hw : WF b) (ht : b.turn = .black) : b.castlingAbility 3 =
    ((abs b).bq && (abs b).at 56 == some ⟨.black, .rook⟩ && ([59, 58, 57].all fun s => ((abs b).at s).isNone)
      && ([60, 59, 58].all fun s => !Rules.attacked (abs b) s .white)) := by
  have e : b.castlingAbility 3 = (b.rights.bq && (b.bbs.all &&& 0x0E00000000000000 == 0) && (b.attackedSquares b.turn &&& 0x1C00000000000000 == 0)) := rfl
  rw [e, empty_part b hw _ [59, 58, 57] (by decide) (fun t h => (masks_fin ⟨t, h⟩).2.2.2.2.2.2.1),
    safe_part b hw _ [60, 59, 58] (by decide) (fun t h => (masks_fin ⟨t, h⟩).2.2.2.2.2.2.2), ht]
  show (b.rights.bq && _ && _) = (b.rights.bq && _ && _ && _)
  cases hr : b.rights.bq
  · rfl
  · have := rook_corner b ⟨7, 0⟩ (by decide) .black (hw.rights.2.2.2 hr)
    have e7 : (⟨7, 0⟩ : Square).idx = 56 := rfl
    rw [e7] at this
    rw [show absColor Color.black = Rules.Color.black from rfl] at this
    rw [this]
    rfl

/-- the castling part of `King::get_moveset` -/
def castleM (sq : Square) (b : Board) (c : Color) : List Ply :=
  (if sq = ⟨0, 4⟩ && c == .white then
      (if b.castlingAbility 0 then [{ mkPly sq ⟨0, 6⟩ ⟨.king, c⟩ with isCastles := true }] else [])
      ++ (if b.castlingAbility 1 then [{ mkPly sq ⟨0, 2⟩ ⟨.king, c⟩ with isCastles := true }] else [])
    else []) ++
  (if sq = ⟨7, 4⟩ && c == .black then
      (if b.castlingAbility 2 then [{ mkPly sq ⟨7, 6⟩ ⟨.king, c⟩ with isCastles := true }] else [])
      ++ (if b.castlingAbility 3 then [{ mkPly sq ⟨7, 2⟩ ⟨.king, c⟩ with isCastles := true }] else [])
    else [])

theorem kingMoveset_eq (sq : Square) (b : Board) (c : Color) :
    kingMoveset sq b c = simpleMoveset (kingAttacks sq.idx) sq b ⟨.king, c⟩ ++ castleM sq b c := by
  unfold kingMoveset castleM simpleMoveset
  simp only [List.append_assoc]

theorem ofIdx_eq_iff (i : Nat) (_hi : i < 64) (s : Square) (hs : IR s) : Square.ofIdx i = s ↔ i = s.idx := by
  constructor
  · intro h; rw [← h, ofIdx_idx]
  · intro h; rw [h, ofIdx_of_idx s hs]

theorem castle_eq_white (b : Board) (hw : WF b) (i : Nat) (hi : i < 64)
    (hp : b.pieceAt (Square.ofIdx i) = some ⟨.king, .white⟩) (hc : Color.white = b.turn) :
    ((castleM (Square.ofIdx i) b .white).filter rangeOK).map absMove = Rules.castleMoves (abs b) .white := by
  rw [castleMoves_white]
  by_cases h4 : i = 4
  · subst h4
    have e4 : Square.ofIdx 4 = ⟨0, 4⟩ := rfl
    rw [e4] at hp ⊢
    have hk : (abs b).at 4 = some ⟨.white, .king⟩ := by
      have := abs_at_sq b ⟨0, 4⟩ (by decide)
      rw [hp] at this; exact this
    rw [hk, ← cond0 b hw hc.symm, ← cond1 b hw hc.symm]
    unfold castleM
    cases b.castlingAbility 0 <;> cases b.castlingAbility 1 <;> rfl
  · have hne : ¬ Square.ofIdx i = ⟨0, 4⟩ := by
      rw [ofIdx_eq_iff i hi _ (by decide)]; exact h4
    have hm : castleM (Square.ofIdx i) b .white = [] := by
      unfold castleM
      simp [hne]
    rw [hm]
    have hr : b.rights.wk = false ∧ b.rights.wq = false := by
      have hh := hw.kings.1
      have hir := ofIdx_IR i hi
      constructor
      · cases h : b.rights.wk
        · rfl
        · exact absurd (hh (Or.inl h) _ hir.1 hir.2 hp) hne
      · cases h : b.rights.wq
        · rfl
        · exact absurd (hh (Or.inr h) _ hir.1 hir.2 hp) hne
    have h1 : (abs b).wk = false := hr.1
    have h2 : (abs b).wq = false := hr.2
    rw [h1, h2]
    simp

theorem castle_eq_black (b : Board) (hw : WF b) (i : Nat) (hi : i < 64)
    (hp : b.pieceAt (Square.ofIdx i) = some ⟨.king, .black⟩) (hc : Color.black = b.turn) :
    ((castleM (Square.ofIdx i) b .black).filter rangeOK).map absMove = Rules.castleMoves (abs b) .black := by
  rw [castleMoves_black]
  by_cases h4 : i = 60
  · subst h4
    have e4 : Square.ofIdx 60 = ⟨7, 4⟩ := rfl
    rw [e4] at hp ⊢
    have hk : (abs b).at 60 = some ⟨.black, .king⟩ := by
      have := abs_at_sq b ⟨7, 4⟩ (by decide)
      rw [hp] at this; exact this
    rw [hk, ← cond2 b hw hc.symm, ← cond3 b hw hc.symm]
    unfold castleM
    cases b.castlingAbility 2 <;> cases b.castlingAbility 3 <;> rfl
  · have hne : ¬ Square.ofIdx i = ⟨7, 4⟩ := by
      rw [ofIdx_eq_iff i hi _ (by decide)]; exact h4
    have hm : castleM (Square.ofIdx i) b .black = [] := by
      unfold castleM
      simp [hne]
    rw [hm]
    have hr : b.rights.bk = false ∧ b.rights.bq = false := by
      have hh := hw.kings.2
      have hir := ofIdx_IR i hi
      constructor
      · cases h : b.rights.bk
        · rfl
        · exact absurd (hh (Or.inl h) _ hir.1 hir.2 hp) hne
      · cases h : b.rights.bq
        · rfl
        · exact absurd (hh (Or.inr h) _ hir.1 hir.2 hp) hne
    have h1 : (abs b).bk = false := hr.1
    have h2 : (abs b).bq = false := hr.2
    rw [h1, h2]
    simp

set_option maxRecDepth 100000 in
theorem king_not_castle_dst : testBit (kingAttacks 4) 6 = false ∧ testBit (kingAttacks 4) 2 = false ∧
    testBit (kingAttacks 60) 62 = false ∧ testBit (kingAttacks 60) 58 = false := by decide +kernel

theorem castleM_facts (b : Board) (i : Nat) (hi : i < 64) (c : Color) :
    (((castleM (Square.ofIdx i) b c).filter rangeOK).map absMove).Nodup ∧
    ∀ mv ∈ ((castleM (Square.ofIdx i) b c).filter rangeOK).map absMove,
      mv.src = i ∧ testBit (kingAttacks i) mv.dst = false := by
  obtain ⟨k1, k2, k3, k4⟩ := king_not_castle_dst
  by_cases h4 : i = 4
  · subst h4
    have e4 : Square.ofIdx 4 = ⟨0, 4⟩ := rfl
    rw [e4]
    unfold castleM
    cases c <;> cases b.castlingAbility 0 <;> cases b.castlingAbility 1 <;>
      simp [rangeOK, mkPly, absMove, Square.idx, k1, k2]
  · by_cases h60 : i = 60
    · subst h60
      have e4 : Square.ofIdx 60 = ⟨7, 4⟩ := rfl
      rw [e4]
      unfold castleM
      cases c <;> cases b.castlingAbility 2 <;> cases b.castlingAbility 3 <;>
        simp [rangeOK, mkPly, absMove, Square.idx, k3, k4]
    · have hne : ¬ Square.ofIdx i = ⟨0, 4⟩ := by
        rw [ofIdx_eq_iff i hi _ (by decide)]; exact h4
      have hne' : ¬ Square.ofIdx i = ⟨7, 4⟩ := by
        rw [ofIdx_eq_iff i hi _ (by decide)]; exact h60
      have hm : castleM (Square.ofIdx i) b c = [] := by
        unfold castleM
        simp [hne, hne']
      rw [hm]
      simp

theorem king_perm (b : Board) (hw : WF b) (i : Nat) (hi : i < 64) (c : Color)
    (hp : b.pieceAt (Square.ofIdx i) = some ⟨.king, c⟩) (hc : c = b.turn) :
    ((kindMoveset ⟨.king, c⟩ (Square.ofIdx i) b).map absMove).Perm
      (((Rules.attacksFrom (abs b) i ⟨absColor c, .king⟩).filter (notOwn (abs b) (absColor c))).map
          (fun t => (⟨i, t, none⟩ : Rules.Move))
        ++ Rules.castleMoves (abs b) (absColor c)) ∧
    ((kindMoveset ⟨.king, c⟩ (Square.ofIdx i) b).map absMove).Nodup ∧
    (∀ mv ∈ (kindMoveset ⟨.king, c⟩ (Square.ofIdx i) b).map absMove, mv.src = i) := by
  have hk : kindMoveset ⟨.king, c⟩ (Square.ofIdx i) b = (kingMoveset (Square.ofIdx i) b c).filter rangeOK := rfl
  rw [hk, kingMoveset_eq, List.filter_append, List.map_append, ofIdx_idx]
  obtain ⟨s1, s2, s3⟩ := simple_perm b hw i hi ⟨.king, c⟩ hp (kingAttacks i)
    (kindAttacks_exact b hw.bbs ⟨.king, c⟩ i hi)
  obtain ⟨c1, c2⟩ := castleM_facts b i hi c
  have hce : ((castleM (Square.ofIdx i) b c).filter rangeOK).map absMove = Rules.castleMoves (abs b) (absColor c) := by
    cases c
    · exact castle_eq_white b hw i hi hp hc
    · exact castle_eq_black b hw i hi hp hc
  refine ⟨?_, ?_, ?_⟩
  · rw [hce]
    exact List.Perm.append s1 (List.Perm.refl _)
  · rw [List.nodup_append]
    refine ⟨s2, c1, ?_⟩
    intro x hx y hy e
    subst e
    have h1 := (s3 x hx).2.2.2
    have h2 := (c2 x hy).2
    rw [h1] at h2; cases h2
  · intro mv hmv
    rcases List.mem_append.mp hmv with h | h
    · exact (s3 mv h).1
    · exact (c2 mv h).1

end RCE.Proofs.MoveGen
