import RCE.Proofs.SearchMate
import RCE.Proofs.SearchBest
import RCE.Proofs.SearchAbort
import RCE.Proofs.SearchPvNonempty
/-! # "With caching on, once an iteration has completed, the chosen move delivers checkmate if a mate in one exists"

`mate_in_one_played`: for every game, root, depth limit, environment (any limits, stop point, monotone clock; cache on)
and initial cache satisfying `MateOneInv`: if a mate in one exists and an info line was printed, the reported move
mates — and the final cache satisfies `MateOneInv` again, so the same holds for the next search of the position
(`mate_in_one_played_again`: after any number of such searches).  `mateOneInv_empty`: the empty cache qualifies.

How it goes.  A mated child at ply 1 returns `MINS + 1`, the root sees `MAXS` = its β.  From then on alpha = `MAXS`,
no later score exceeds it (`InR`), and the windows below are degenerate: the rest of the iteration may fill the cache
with unsound entries (`SearchMate.Counter`), so the clean-cache invariant `TInv` is lost.  What survives, by the frame
lemmas `ab_F` … `rootKids_suffix`, are the entries under the *protected* keys: nothing is ever stored for a mated
child (`MatedKeysFresh`), and the root's entry — exact, at least as deep as anything requested below the root — makes
every node with the root's key leave at the probe.  The completed iteration stores `⟨MAXS, d, exact, mating move⟩` for
the root; the next iteration (or search) orders that move first (`orderMoves_head`), finds no entry for its child
(`pvsChild_mated`), and is at `MAXS` at once, whatever else the cache holds.  On a clean cache without such an entry
(first search) the moves ordered before the first mating move are searched soundly (`SearchMate.pvsChild_spec`) and
score `< MAXS` (`rootKids_prefix`).  Interruptions are sticky (`SearchAbort`): an interrupted first iteration prints
nothing; an interrupted later one keeps the reported move (its score `MAXS` cannot be exceeded) and the root's entry.

`Counter`: `KeyMate` alone is not enough as key hypothesis, and "cache on" is needed for the earlier searches too. -/
namespace RCE.Proofs.SearchMateOne
open RCE.Search RCE.Proofs.SearchDefs RCE.Proofs.SearchUnfold RCE.Proofs.SearchBest RCE.Proofs.SearchAbort
open RCE.Proofs.SearchMate (Mated TInv StrictScores Rng)

variable {P M : Type} [DecidableEq M]
set_option linter.unusedSectionVars false
set_option linter.unusedVariables false

/-! ## statement-level definitions -/

/-- a mating move: legal, and the position after it has no legal move and is in check -/
def Mates (G : Game P M) (p : P) (m : M) : Prop := m ∈ legalMovesOf G p ∧ Mated G (G.play p m)

/-- the positions the search can visit strictly below the root `p` (children are entered by legal moves only) -/
inductive Tree (G : Game P M) (p : P) : P → Prop
  | child {m : M} : m ∈ legalMovesOf G p → Tree G p (G.play p m)
  | step {q : P} {m : M} : Tree G p q → m ∈ legalMovesOf G q → Tree G p (G.play q m)

/-- a node that never writes to the cache under its own key: it is declared a draw before the probe, or it has
    no legal move (`ab` returns before the insert when `legalCount = 0`, and a cut needs a legal move) -/
def Silent (G : Game P M) (q : P) : Prop := G.fifty q = true ∨ G.repeated q = true ∨ legalMovesOf G q = []

/-- the key hypothesis: no *writing* node of the tree below the root carries the key of a mated child of the root.
    For an injective key: a position equal to a mated position is mated.  (`KeyMate` only gives that such a node is
    lost — it may still have legal moves, and then it stores an entry that the mated child's probe would return in
    place of the mate score.) -/
def MatedKeysFresh (G : Game P M) (p : P) : Prop :=
  ∀ m, Mates G p m → ∀ q, Tree G p q → G.key q = G.key (G.play p m) → Silent G q

/-- the suggested form: the key of a mated child differs from the key of every position (of the tree) that has a legal move -/
theorem matedKeysFresh_of_ne {G : Game P M} {p : P}
    (h : ∀ m, Mates G p m → ∀ q, Tree G p q → legalMovesOf G q ≠ [] → G.key q ≠ G.key (G.play p m)) :
    MatedKeysFresh G p := by
  intro m hm q hq hkey
  refine .inr (.inr ?_)
  cases hl : legalMovesOf G q with
  | nil => rfl
  | cons x xs => exact absurd hkey (h m hm q hq (by rw [hl]; exact List.cons_ne_nil _ _))

/-- a key that is injective on the tree and the mated children gives it -/
theorem matedKeysFresh_of_inj {G : Game P M} {p : P}
    (h : ∀ m, Mates G p m → ∀ q, Tree G p q → G.key q = G.key (G.play p m) → q = G.play p m) :
    MatedKeysFresh G p := by
  intro m hm q hq hkey
  rw [h m hm q hq hkey]
  exact .inr (.inr hm.2.1)

/-- the mated children are not declared draws before the mate test ("no prior history, small half-move clock") -/
def NoDrawAtMate (G : Game P M) (p : P) : Prop :=
  ∀ m, Mates G p m → G.fifty (G.play p m) = false ∧ G.repeated (G.play p m) = false

/-- the static ordering scores of the root moves stay below the score reserved for the cached move -/
def OrderScoresOK (G : Game P M) (p : P) : Prop := ∀ m ∈ G.allMoves p, G.staticScore m + 2000 < 18446744073709551615

/-- no entry is stored under the key of a mated child of the root -/
def NoMatedEntry (G : Game P M) (p : P) (tt : Table M) : Prop := ∀ m, Mates G p m → tt[G.key (G.play p m)]? = none

/-- the cache invariant: (a) nothing is stored for a mated child of the root, and (b) the cache is clean in the sense
    of `SearchMate.lean` (mate-sound, no score `≤ −32767` / `≥ 32767`; the root may have any entry or none), or the
    root's entry is an exact one that names a mating move (what `alpha_beta_start` stores; every later probe of a node
    with the root's key then returns at once, so the entry survives until the next save) -/
def MateOneInv (G : Game P M) (p : P) (tt : Table M) : Prop :=
  NoMatedEntry G p tt ∧ (TInv G tt ∨ ∃ e, tt[G.key p]? = some e ∧ e.bound = .exact ∧ Mates G p e.best)

theorem mateOneInv_empty (G : Game P M) (p : P) : MateOneInv G p ({} : Table M) :=
  ⟨fun m _ => by simp, .inl (SearchMate.tinv_empty G)⟩

/-! ## the move ordering puts a dominating cached move first -/

theorem firstMaxAux_spec : ∀ (l : List (M × Nat)) (i bi bs : Nat),
    (firstMaxAux l i bi bs = bi ∧ ∀ y ∈ l, y.2 ≤ bs) ∨
    (∃ j x, l[j]? = some x ∧ firstMaxAux l i bi bs = i + j ∧ bs < x.2 ∧ ∀ y ∈ l, y.2 ≤ x.2) := by
  intro l
  induction l with
  | nil => intro i bi bs; exact .inl ⟨rfl, fun y hy => absurd hy List.not_mem_nil⟩
  | cons x xs ih =>
    intro i bi bs
    unfold firstMaxAux
    by_cases hx : x.2 > bs
    · rw [if_pos hx]
      rcases ih (i + 1) i x.2 with ⟨h1, h2⟩ | ⟨j, x', h1, h2, h3, h4⟩
      · refine .inr ⟨0, x, rfl, by rw [h1]; rfl, hx, ?_⟩
        intro y hy
        rcases List.mem_cons.1 hy with rfl | hy
        · exact Nat.le_refl _
        · exact h2 y hy
      · refine .inr ⟨j + 1, x', by simpa using h1, by rw [h2]; omega, by omega, ?_⟩
        intro y hy
        rcases List.mem_cons.1 hy with rfl | hy
        · omega
        · exact h4 y hy
    · rw [if_neg hx]
      rcases ih (i + 1) bi bs with ⟨h1, h2⟩ | ⟨j, x', h1, h2, h3, h4⟩
      · refine .inl ⟨h1, ?_⟩
        intro y hy
        rcases List.mem_cons.1 hy with rfl | hy
        · omega
        · exact h2 y hy
      · refine .inr ⟨j + 1, x', by simpa using h1, by rw [h2]; omega, h3, ?_⟩
        intro y hy
        rcases List.mem_cons.1 hy with rfl | hy
        · omega
        · exact h4 y hy

/-- the first emitted move carries a maximal score -/
theorem orderAux_head (n : Nat) (h : M × Nat) (t : List (M × Nat)) :
    ∃ x ∈ h :: t, (∀ y ∈ h :: t, y.2 ≤ x.2) ∧ ∃ rest, orderAux (n + 1) (h :: t) = x.1 :: rest := by
  have hj : firstMaxIdx (h :: t) = firstMaxAux t 1 0 h.2 := rfl
  simp only [orderAux]
  rcases firstMaxAux_spec t 1 0 h.2 with ⟨h1, h2⟩ | ⟨j, x, h1, h2, h3, h4⟩
  · refine ⟨h, List.mem_cons_self, ?_, ?_⟩
    · intro y hy
      rcases List.mem_cons.1 hy with rfl | hy
      · exact Nat.le_refl _
      · exact h2 y hy
    · rw [if_pos (hj.trans h1)]
      exact ⟨_, rfl⟩
  · refine ⟨x, List.mem_cons_of_mem _ (List.mem_of_getElem? h1), ?_, ?_⟩
    · intro y hy
      rcases List.mem_cons.1 hy with rfl | hy
      · omega
      · exact h4 y hy
    · have h2' : firstMaxIdx (h :: t) = 1 + j := hj.trans h2
      have hne : ¬ (firstMaxIdx (h :: t) = 0) := by omega
      rw [if_neg hne]
      have h3' : t[firstMaxIdx (h :: t) - 1]? = some x := by
        have : firstMaxIdx (h :: t) - 1 = j := by omega
        rw [this, h1]
      simp only [h3']
      exact ⟨_, rfl⟩

theorem orderMoves_head (G : Game P M) (tm : M) (k : Option M × Option M) (ms : List M) (hm : tm ∈ ms)
    (hs : ∀ m ∈ ms, G.staticScore m + 2000 < 18446744073709551615) :
    ∃ rest, orderMoves G (some tm) k ms = tm :: rest := by
  unfold orderMoves
  cases ms with
  | nil => exact absurd hm List.not_mem_nil
  | cons a as =>
    simp only [List.length_cons, List.map_cons]
    obtain ⟨x, hx, hmax, rest, heq⟩ := orderAux_head (as.length) (a, scoreMove G (some tm) k a)
      (as.map fun m => (m, scoreMove G (some tm) k m))
    rw [heq]
    refine ⟨rest, ?_⟩
    -- `x` is `(m, score m)` for some `m` of the list, with a maximal score
    have hx' : ∃ m ∈ a :: as, x = (m, scoreMove G (some tm) k m) := by
      rcases List.mem_cons.1 hx with rfl | hx
      · exact ⟨a, List.mem_cons_self, rfl⟩
      · obtain ⟨m, hm', rfl⟩ := List.mem_map.1 hx
        exact ⟨m, List.mem_cons_of_mem _ hm', rfl⟩
    obtain ⟨m, hmm, rfl⟩ := hx'
    have htop : scoreMove G (some tm) k tm = 18446744073709551615 := by simp [scoreMove]
    have hle : scoreMove G (some tm) k tm ≤ scoreMove G (some tm) k m := by
      have hmem : (tm, scoreMove G (some tm) k tm) ∈ (a, scoreMove G (some tm) k a) ::
          (as.map fun m => (m, scoreMove G (some tm) k m)) := by
        rcases List.mem_cons.1 hm with rfl | hm
        · exact List.mem_cons_self
        · exact List.mem_cons_of_mem _ (List.mem_map.2 ⟨tm, hm, rfl⟩)
      exact hmax _ hmem
    by_cases hne : m = tm
    · rw [hne]
    · exfalso
      have hb := hs m hmm
      have hlt : scoreMove G (some tm) k m < 18446744073709551615 := by
        unfold scoreMove
        have : ¬ (some tm = some m) := fun h => hne (Option.some.inj h).symm
        rw [if_neg this]
        simp only []
        split
        · split
          · omega
          · split <;> omega
        · omega
      omega

/-! ## a forced mate is not a forced loss: the root's key is not that of a mated child -/

theorem not_won_of_lost {G : Game P M} {q : P} (h : Lost G q) : ¬ Won G q :=
  Lost.rec (motive_1 := fun a _ => ¬ Won G a) (motive_2 := fun a _ => ¬ Lost G a)
    (fun hnil _ hw => by
      cases hw with
      | some m hm _ => rw [hnil] at hm; exact absurd hm List.not_mem_nil)
    (fun _ _ ih hw => by
      cases hw with
      | some m hm hl => exact ih m hm hl)
    (fun m hm _ ih hlost => by
      cases hlost with
      | mate hnil _ => rw [hnil] at hm; exact absurd hm List.not_mem_nil
      | all _ hall => exact ih (hall m hm))
    h

theorem root_key_ne {G : Game P M} (hk : KeyMate G) {p : P} {m : M} (hm : Mates G p m) :
    G.key (G.play p m) ≠ G.key p := by
  intro h
  have hl : Lost G (G.play p m) := Lost.mate hm.2.1 hm.2.2
  exact not_won_of_lost ((hk _ _ h).2 hl) (Won.some m hm.1 hl)

/-! ## the frame: no routine below the root writes under a protected key

The keys of the mated children are protected by `MatedKeysFresh`.  The root's key is protected (flag `R`) while the
root's entry is exact with a depth no smaller than any depth requested below the root (`RootExact`): a node with the
root's key then leaves at the probe. -/

/-- the protected cache keys: those of the mated children, and (if `R`) the root's -/
def ProtR (R : Prop) (G : Game P M) (p : P) (k : UInt64) : Prop :=
  (R ∧ k = G.key p) ∨ ∃ m, Mates G p m ∧ k = G.key (G.play p m)

/-- the entries under the protected keys are the same in both states -/
def KF (R : Prop) (G : Game P M) (p : P) (st st' : St M) : Prop := ∀ k, ProtR R G p k → st'.tt[k]? = st.tt[k]?

/-- the root's entry is exact and at least `D` deep -/
def RootExact (G : Game P M) (p : P) (D : Nat) (tt : Table M) : Prop :=
  ∃ e, tt[G.key p]? = some e ∧ e.bound = .exact ∧ D ≤ e.depth

theorem KF.refl (R : Prop) (G : Game P M) (p : P) (st : St M) : KF R G p st st := fun _ _ => rfl
theorem KF.trans {R : Prop} {G : Game P M} {p : P} {a b c : St M} (h1 : KF R G p a b) (h2 : KF R G p b c) : KF R G p a c :=
  fun k hk => (h2 k hk).trans (h1 k hk)
theorem KF.of_tt {R : Prop} {G : Game P M} {p : P} {st st' : St M} (h : st'.tt = st.tt) : KF R G p st st' :=
  fun k _ => by rw [h]

theorem KF.rootExact {R : Prop} {G : Game P M} {p : P} {D : Nat} {st st' : St M} (h : KF R G p st st')
    (hR : R → RootExact G p D st.tt) : R → RootExact G p D st'.tt := by
  intro r
  obtain ⟨e, he, hb, hd⟩ := hR r
  exact ⟨e, (h _ (.inl ⟨r, rfl⟩)).trans he, hb, hd⟩

theorem KF.insert {R : Prop} {G : Game P M} {p : P} (st : St M) {key : UInt64} (h : ¬ ProtR R G p key) (e : Entry M)
    (site : Nat) : KF R G p st (st.insert key e site) := by
  intro k hk
  show (st.tt.insert key e)[k]? = st.tt[k]?
  rw [Std.HashMap.getElem?_insert]
  have hne : (key == k) = false := by
    rw [beq_eq_false_iff_ne]
    intro h'; subst h'; exact h hk
  rw [hne]
  rfl

theorem not_prot {R : Prop} {G : Game P M} {p : P} (hK : MatedKeysFresh G p) {c : P} (hc : Tree G p c)
    (hf : ¬ G.fifty c = true) (hr : ¬ G.repeated c = true) (hroot : R → G.key c ≠ G.key p)
    (hl : ∃ m ∈ G.allMoves c, G.legal c m = true) :
    ¬ ProtR R G p (G.key c) := by
  rintro (⟨r, h⟩ | ⟨m, hm, h⟩)
  · exact hroot r h
  · rcases hK m hm c hc h with h1 | h1 | h1
    · exact hf h1
    · exact hr h1
    · obtain ⟨x, hx, hlx⟩ := hl
      have : x ∈ legalMovesOf G c := List.mem_filter.2 ⟨hx, hlx⟩
      rw [h1] at this
      exact absurd this List.not_mem_nil

theorem probe_exact {G : Game P M} {p : P} {D : Nat} {tt : Table M} (h : RootExact G p D tt) {d : Nat} (hd : d ≤ D)
    (a b : Int) : ∃ s, probe tt (G.key p) d a b = .inl s := by
  obtain ⟨e, he, hb, hD⟩ := h
  refine ⟨e.score, ?_⟩
  unfold probe
  rw [he]
  simp only []
  rw [if_pos (show e.depth ≥ d by omega), hb]

theorem qKids_tt {G : Game P M} {rec : P → Int → Int → St M → Int × St M}
    (hrec : ∀ c a b st, (rec c a b st).2.tt = st.tt) (p : P) :
    ∀ (ms : List M) (alpha beta : Int) (st : St M), (qKids G rec p ms alpha beta st).st.tt = st.tt := by
  intro ms
  induction ms with
  | nil => intro alpha beta st; rfl
  | cons m ms ih =>
    intro alpha beta st
    rw [qKids_cons]
    have hr : (leave (rec (G.play p m) (satNeg beta) (satNeg alpha) (enter true st)).2).tt = st.tt :=
      (hrec _ _ _ _).trans (enter_tt _ _)
    split
    · exact ih _ _ _
    · simp only []
      split
      · exact hr
      · split
        · exact (ih _ _ _).trans hr
        · exact (ih _ _ _).trans hr

/-- quiescence never writes to the cache -/
theorem quiesce_tt (env : Env) (G : Game P M) :
    ∀ (fuel : Nat) (p : P) (a b : Int) (st : St M), (quiesce env G fuel p a b st).2.tt = st.tt := by
  intro fuel
  induction fuel with
  | zero => intro p a b st; rfl
  | succ fuel ih =>
    intro p a b st
    rw [quiesce_succ]
    have hf := (abortCheck_frame env st).1
    simp only []
    split
    · exact hf
    · split
      · exact hf
      · have hq := qKids_tt (G := G) (rec := quiesce env G fuel) (fun c a b st => ih c a b st) p
          (orderMoves G (((abortCheck env st).2.tt[G.key p]?).map (·.best))
            ((abortCheck env st).2.killers.getD (abortCheck env st).2.ply (none, none))
            ((G.allMoves p).filter G.isCapture))
          (if G.eval p > a then G.eval p else a) b (abortCheck env st).2
        split
        · rename_i heq; rw [heq] at hq; exact hq.trans hf
        · rename_i heq; rw [heq] at hq; exact hq.trans hf

/-- a child search below the root, asked for depth `≤ D`, leaves the protected entries alone -/
def RecF (R : Prop) (D : Nat) (G : Game P M) (p : P) (rec : P → Int → Int → Nat → St M → Int × St M) : Prop :=
  ∀ c a b d st, Tree G p c → d ≤ D → (R → RootExact G p D st.tt) → KF R G p st (rec c a b d st).2

theorem pvsChild_F {R : Prop} {D : Nat} {G : Game P M} {p : P} {rec : P → Int → Int → Nat → St M → Int × St M}
    (hrec : RecF R D G p rec) (q : P) (m : M) (hc : Tree G p (G.play q m)) (alpha beta : Int) (depth : Nat)
    (hd : depth - 1 ≤ D) (pvs upd : Bool) (st : St M) (hR : R → RootExact G p D st.tt) :
    KF R G p st (pvsChild G rec q m alpha beta depth pvs upd st).2 := by
  rw [pvsChild_eq]
  have hR1 : R → RootExact G p D (enter upd st).tt := by rw [enter_tt]; exact hR
  have h : KF R G p (enter upd st) (pvsCore rec (G.play q m) alpha beta depth pvs (enter upd st)).2 := by
    unfold pvsCore
    split
    · split
      · have h1 := hrec (G.play q m) (satNeg alpha - 1) (satNeg alpha) (depth - 1) (enter upd st) hc hd hR1
        exact h1.trans (hrec _ _ _ _ _ hc hd (h1.rootExact hR1))
      · exact hrec _ _ _ _ _ hc hd hR1
    · exact hrec _ _ _ _ _ hc hd hR1
  intro k hk
  show (pvsCore rec (G.play q m) alpha beta depth pvs (enter upd st)).2.tt[k]? = st.tt[k]?
  rw [h k hk, enter_tt]

theorem abKids_F (env : Env) {R : Prop} {D : Nat} {G : Game P M} {p : P} {rec : P → Int → Int → Nat → St M → Int × St M}
    (hrec : RecF R D G p rec) (c : P) (hc : Tree G p c)
    (hins : (∃ m ∈ G.allMoves c, G.legal c m = true) → ¬ ProtR R G p (G.key c)) (depth : Nat) (hd : depth - 1 ≤ D) :
    ∀ (ms : List M) (alpha beta : Int) (best : M) (pvs : Bool) (n : Nat) (st : St M), (∀ m ∈ ms, m ∈ G.allMoves c) →
      (R → RootExact G p D st.tt) →
      KF R G p st (abKids env G rec c depth ms alpha beta best pvs n st).st ∧
      ∀ a b n' st', abKids env G rec c depth ms alpha beta best pvs n st = .done a b n' st' → n' ≠ n →
        ∃ m ∈ ms, G.legal c m = true := by
  intro ms
  induction ms with
  | nil =>
    intro alpha beta best pvs n st _ _
    rw [abKids_nil]
    refine ⟨KF.refl R G p st, ?_⟩
    intro a b n' st' heq hne
    cases heq
    exact absurd rfl hne
  | cons m ms ih =>
    intro alpha beta best pvs n st hms hR
    have hms' : ∀ x ∈ ms, x ∈ G.allMoves c := fun x hx => hms x (List.mem_cons_of_mem _ hx)
    rw [abKids_cons]
    split
    · have h := ih alpha beta best pvs n st hms' hR
      refine ⟨h.1, ?_⟩
      intro a b n' st' heq hne
      obtain ⟨x, hx, hxl⟩ := h.2 a b n' st' heq hne
      exact ⟨x, List.mem_cons_of_mem _ hx, hxl⟩
    · rename_i hl
      have hl' : G.legal c m = true := by simpa using hl
      have hm : m ∈ G.allMoves c := hms m List.mem_cons_self
      have hchild : Tree G p (G.play c m) := Tree.step hc (List.mem_filter.2 ⟨hm, hl'⟩)
      have hp := pvsChild_F hrec c m hchild alpha beta depth hd pvs true st hR
      have hf := abortCheck_frame env (pvsChild G rec c m alpha beta depth pvs true st).2
      have hkf : KF R G p st (abortCheck env (pvsChild G rec c m alpha beta depth pvs true st).2).2 :=
        hp.trans (KF.of_tt hf.1)
      have hR2 := hkf.rootExact hR
      have hex : ∃ x ∈ m :: ms, G.legal c x = true := ⟨m, List.mem_cons_self, hl'⟩
      simp only []
      split
      · exact ⟨hkf, fun a b n' st' heq => by cases heq⟩
      · split
        · refine ⟨?_, fun a b n' st' heq => by cases heq⟩
          exact hkf.trans ((KF.insert _ (hins ⟨m, hm, hl'⟩) _ _).trans (KF.of_tt (storeKillers_tt _ _ _)))
        · split
          · have h := ih (pvsChild G rec c m alpha beta depth pvs true st).1 beta m true (n + 1)
              (abortCheck env (pvsChild G rec c m alpha beta depth pvs true st).2).2 hms' hR2
            exact ⟨hkf.trans h.1, fun _ _ _ _ _ _ => hex⟩
          · have h := ih alpha beta best pvs (n + 1)
              (abortCheck env (pvsChild G rec c m alpha beta depth pvs true st).2).2 hms' hR2
            exact ⟨hkf.trans h.1, fun _ _ _ _ _ _ => hex⟩

theorem probeSt_on {env : Env} (hoff : env.cacheOff = false) (st : St M) : probeSt env st = st := by
  unfold probeSt
  rw [hoff]
  rfl

theorem ab_F (env : Env) (hoff : env.cacheOff = false) (R : Prop) (D : Nat) {G : Game P M} {p : P}
    (hK : MatedKeysFresh G p) : ∀ fuel, RecF R D G p (ab env G fuel) := by
  intro fuel
  induction fuel with
  | zero => intro c a b d st _ _ _; exact KF.refl R G p st
  | succ fuel ih =>
    intro c a0 b0 depth st hc hd hR
    rw [ab_succ]
    have hf := (abortCheck_frame env st).1
    have hkf : KF R G p st (abortCheck env st).2 := KF.of_tt hf
    have hR2 : R → RootExact G p D (abortCheck env st).2.tt := by rw [hf]; exact hR
    simp only []
    rw [probeSt_on hoff]
    split
    · exact hkf
    split
    · exact hkf
    rename_i hfif
    split
    · exact hkf
    rename_i hrep
    split
    · exact hkf
    · rename_i alpha beta heq
      have hroot : R → G.key c ≠ G.key p := by
        intro r hkey
        obtain ⟨s, hs⟩ := probe_exact (hR2 r) hd a0 b0
        rw [hkey, hs] at heq
        cases heq
      clear heq
      generalize (abortCheck env st).2 = st2 at hkf hR2
      unfold abBody
      simp only []
      have hd' : (if G.inCheck c = true then depth + 1 else depth) - 1 ≤ D := by split <;> omega
      generalize (if G.inCheck c = true then depth + 1 else depth) = d at hd'
      by_cases hd0 : d = 0
      · rw [if_pos hd0]
        exact hkf.trans (KF.of_tt (quiesce_tt env G _ _ _ _ _))
      · rw [if_neg hd0]
        have hins : (∃ m ∈ G.allMoves c, G.legal c m = true) → ¬ ProtR R G p (G.key c) :=
          fun h => not_prot hK hc hfif hrep hroot h
        have hk := abKids_F env ih c hc hins d hd'
          (orderMoves G ((st2.tt[G.key c]?).map (·.best)) (st2.killers.getD st2.ply (none, none)) (G.allMoves c))
          alpha beta ((G.allMoves c).headD G.defaultMove) false 0 st2 (fun m hm => orderMoves_mem _ _ _ _ _ hm) hR2
        split
        · rename_i heq; rw [heq] at hk; exact hkf.trans hk.1
        · rename_i heq; rw [heq] at hk; exact hkf.trans hk.1
        · rename_i a' b' n st' heq
          rw [heq] at hk
          split
          · split
            · exact hkf.trans hk.1
            · exact hkf.trans hk.1
          · rename_i hn
            obtain ⟨x, hx, hxl⟩ := hk.2 a' b' n st' rfl hn
            exact hkf.trans (hk.1.trans (KF.insert _ (hins ⟨x, orderMoves_mem _ _ _ _ _ hx, hxl⟩) _ _))

/-! ## the search of a mated child of the root -/

theorem abKids_nolegal (env : Env) (G : Game P M) (rec : P → Int → Int → Nat → St M → Int × St M) (c : P) (depth : Nat) :
    ∀ (ms : List M) (alpha beta : Int) (best : M) (pvs : Bool) (n : Nat) (st : St M), (∀ m ∈ ms, G.legal c m = false) →
      abKids env G rec c depth ms alpha beta best pvs n st = .done alpha best n st := by
  intro ms
  induction ms with
  | nil => intro alpha beta best pvs n st _; rfl
  | cons m ms ih =>
    intro alpha beta best pvs n st h
    rw [abKids_cons, h m List.mem_cons_self]
    simp only [Bool.not_false, if_true]
    exact ih _ _ _ _ _ _ (fun x hx => h x (List.mem_cons_of_mem _ hx))

theorem mated_nolegal {G : Game P M} {c : P} (hM : Mated G c) (m : M) (hm : m ∈ G.allMoves c) : G.legal c m = false := by
  cases hl : G.legal c m with
  | false => rfl
  | true =>
    have : m ∈ legalMovesOf G c := List.mem_filter.2 ⟨hm, hl⟩
    rw [hM.1] at this
    exact absurd this List.not_mem_nil

/-- a mated node without a cache entry: the abort check, then the mate score -/
theorem ab_mated (env : Env) (hoff : env.cacheOff = false) (G : Game P M) (c : P) (hM : Mated G c)
    (hf : G.fifty c = false) (hr : G.repeated c = false) (fuel : Nat) (x y : Int) (d : Nat) (st : St M)
    (hnone : st.tt[G.key c]? = none) :
    ab env G (fuel + 1) c x y d st =
      if (abortCheck env st).1 then (0, (abortCheck env st).2)
      else (MINS + (abortCheck env st).2.ply, (abortCheck env st).2) := by
  rw [ab_succ]
  simp only []
  rw [probeSt_on hoff, hf, hr]
  simp only [Bool.false_eq_true, if_false]
  have hn : (abortCheck env st).2.tt[G.key c]? = none := by rw [(abortCheck_frame env st).1]; exact hnone
  have hp : probe (abortCheck env st).2.tt (G.key c) d x y = .inr (x, y) := by unfold probe; rw [hn]
  rw [hp]
  simp only []
  unfold abBody
  simp only []
  rw [hM.2]
  simp only [if_true]
  rw [if_neg (Nat.succ_ne_zero d)]
  rw [abKids_nolegal env G _ c _ _ _ _ _ _ _ _ (fun m hm => mated_nolegal hM m (orderMoves_mem _ _ _ _ _ hm))]
  simp only [if_true]

theorem satNeg_mate1 : satNeg (MINS + ((1 : Nat) : Int)) = MAXS := by decide

theorem interrupted_leave {env : Env} {st : St M} (h : Interrupted env st) : Interrupted env (leave st) :=
  h.mono ⟨Nat.le_refl _, Nat.le_refl _, id⟩

/-- the PVS logic on a mated child entered at ply 1 writes nothing and yields `MAXS`, unless interrupted -/
theorem pvsCore_mated (env : Env) (hc : MonoClock env) (hoff : env.cacheOff = false) (G : Game P M) (c : P)
    (hM : Mated G c) (hf : G.fifty c = false) (hr : G.repeated c = false) (alpha : Int) (depth : Nat) (pvs : Bool)
    (st1 : St M) (hply : st1.ply = 1) (hnone : st1.tt[G.key c]? = none) :
    (pvsCore (ab env G 255) c alpha MAXS depth pvs st1).2.tt = st1.tt ∧
    ((pvsCore (ab env G 255) c alpha MAXS depth pvs st1).1 = MAXS ∨
      Interrupted env (pvsCore (ab env G 255) c alpha MAXS depth pvs st1).2) := by
  have hfr := abortCheck_frame env st1
  have hab : ∀ x y d, ab env G 255 c x y d st1 =
      if (abortCheck env st1).1 then (0, (abortCheck env st1).2)
      else (MINS + ((abortCheck env st1).2.ply : Int), (abortCheck env st1).2) :=
    fun x y d => ab_mated env hoff G c hM hf hr 254 x y d st1 hnone
  by_cases hA : (abortCheck env st1).1 = true
  · have hI : Interrupted env (abortCheck env st1).2 := abortCheck_interrupts' env st1 hc (by omega) hA
    have hab' : ∀ x y d, ab env G 255 c x y d st1 = (0, (abortCheck env st1).2) :=
      fun x y d => by rw [hab, if_pos hA]
    unfold pvsCore
    simp only [hab']
    cases pvs
    · simp only [Bool.false_eq_true, if_false]
      exact ⟨hfr.1, .inr hI⟩
    · simp only [if_true]
      have h2 := no_nodes_after_abort' env G 255 c (satNeg MAXS) (satNeg alpha) (depth - 1) _ hc hI
      split
      · exact ⟨h2.2.2.1.trans hfr.1, .inr h2.2.2.2⟩
      · exact ⟨hfr.1, .inr hI⟩
  · have hab' : ∀ x y d, ab env G 255 c x y d st1 = (MINS + ((1 : Nat) : Int), (abortCheck env st1).2) :=
      fun x y d => by rw [hab, if_neg hA, hfr.2.2.1, hply]
    unfold pvsCore
    simp only [hab', satNeg_mate1]
    cases pvs
    · simp only [Bool.false_eq_true, if_false]
      exact ⟨hfr.1, .inl trivial⟩
    · simp only [if_true]
      have hcond : (decide (alpha < MAXS) && decide (MAXS < MAXS)) = false := by
        have : ¬ (MAXS < MAXS) := Int.lt_irrefl _
        simp [this]
      rw [hcond]
      simp only [Bool.false_eq_true, if_false]
      exact ⟨hfr.1, .inl trivial⟩

/-- a mating root move, searched from the root with no entry for its child: nothing is written, and the score
    is `MAXS` unless the search was interrupted -/
theorem pvsChild_mated (env : Env) (hc : MonoClock env) (hoff : env.cacheOff = false) (G : Game P M) (p : P) (m : M)
    (hM : Mated G (G.play p m)) (hf : G.fifty (G.play p m) = false) (hr : G.repeated (G.play p m) = false)
    (alpha : Int) (depth : Nat) (pvs upd : Bool) (st : St M) (hply : st.ply = 0)
    (hnone : st.tt[G.key (G.play p m)]? = none) :
    (pvsChild G (ab env G 255) p m alpha MAXS depth pvs upd st).2.tt = st.tt ∧
    ((pvsChild G (ab env G 255) p m alpha MAXS depth pvs upd st).1 = MAXS ∨
      Interrupted env (pvsChild G (ab env G 255) p m alpha MAXS depth pvs upd st).2) := by
  rw [pvsChild_eq]
  have h := pvsCore_mated env hc hoff G (G.play p m) hM hf hr alpha depth pvs (enter upd st)
    (by rw [enter_ply, hply]) (by rw [enter_tt]; exact hnone)
  refine ⟨h.1.trans (enter_tt _ _), ?_⟩
  rcases h.2 with h2 | h2
  · exact .inl h2
  · exact .inr (interrupted_leave h2)

/-! ## the root loop -/

theorem NoMatedEntry.of_KF {R : Prop} {G : Game P M} {p : P} {st st' : St M} (h : NoMatedEntry G p st.tt)
    (hkf : KF R G p st st') : NoMatedEntry G p st'.tt := fun m hm => (hkf _ (.inr ⟨m, hm, rfl⟩)).trans (h m hm)

theorem rootAbort_props (alpha : Int) (best : M) (st : St M) :
    (rootAbort alpha best st).tt = st.tt ∧ (rootAbort alpha best st).ply = st.ply ∧
    (((rootAbort alpha best st).bestMove = st.bestMove ∧ (rootAbort alpha best st).bestScore = st.bestScore) ∨
     ((rootAbort alpha best st).bestMove = some best ∧ (rootAbort alpha best st).bestScore = some alpha)) := by
  unfold rootAbort
  exact ite_pred (fun s : St M => s.tt = st.tt ∧ s.ply = st.ply ∧
    ((s.bestMove = st.bestMove ∧ s.bestScore = st.bestScore) ∨ (s.bestMove = some best ∧ s.bestScore = some alpha)))
    ⟨rfl, rfl, .inr ⟨rfl, rfl⟩⟩ ⟨rfl, rfl, .inl ⟨rfl, rfl⟩⟩

theorem rootAbort_id {alpha : Int} {best : M} {st : St M} (h : ∀ s, st.bestScore = some s → alpha ≤ s) :
    rootAbort alpha best st = st := by
  unfold rootAbort
  cases hbs : st.bestScore with
  | none => simp
  | some s =>
    have := h s hbs
    have hd : decide (alpha > s) = false := by simp; omega
    simp only [hd]
    simp

theorem recB_ab (env : Env) (G : Game P M) (p : P) : RecB G p 1 (ab env G 255) :=
  fun c a b d st' hk => ab_B env G p 255 c a b d st' (by omega)

/-- the root loop once alpha has reached `MAXS` with the move `best`: alpha and `best` stay, nothing protected is
    touched; an abort leaves the reported move as it was or sets it to `best` -/
def PostB (env : Env) (R : Prop) (G : Game P M) (p : P) (best : M) (n : Nat) (st : St M) : RootLoop M → Prop
  | .abort st' => Interrupted env st' ∧ KF R G p st st' ∧ st'.ply = st.ply ∧
      ((st'.bestMove = st.bestMove ∧ st'.bestScore = st.bestScore) ∨
       (st'.bestMove = some best ∧ st'.bestScore = some MAXS))
  | .done a b n' st' => a = MAXS ∧ b = best ∧ n ≤ n' ∧ KF R G p st st' ∧ Keep st st'

theorem rootKids_suffix (env : Env) (hc : MonoClock env) (hoff : env.cacheOff = false) (R : Prop) {G : Game P M} {p : P}
    (hK : MatedKeysFresh G p) (depth : Nat) :
    ∀ (ms : List M) (best : M) (pvs : Bool) (n : Nat) (st : St M), (∀ m ∈ ms, m ∈ G.allMoves p) → st.ply = 0 →
      (R → RootExact G p (depth - 1) st.tt) →
      PostB env R G p best n st (rootKids env G (ab env G 255) p depth ms MAXS best pvs n st) := by
  intro ms
  induction ms with
  | nil =>
    intro best pvs n st _ _ _
    rw [rootKids_nil]
    exact ⟨rfl, rfl, Nat.le_refl _, KF.refl R G p st, Keep.refl st⟩
  | cons m ms ih =>
    intro best pvs n st hms hply hR
    have hms' : ∀ x ∈ ms, x ∈ G.allMoves p := fun x hx => hms x (List.mem_cons_of_mem _ hx)
    rw [rootKids_cons]
    split
    · exact ih best pvs n st hms' hply hR
    · rename_i hl
      have hlegal : m ∈ legalMovesOf G p := List.mem_filter.2 ⟨hms m List.mem_cons_self, by simpa using hl⟩
      have hp := pvsChild_B (recB_ab env G p) p m MAXS MAXS depth pvs false st (by rw [hply])
      have hF := pvsChild_F (ab_F env hoff R (depth - 1) hK 255) p m (Tree.child hlegal) MAXS MAXS depth
        (Nat.le_refl _) pvs false st hR
      have hf := abortCheck_frame env (pvsChild G (ab env G 255) p m MAXS MAXS depth pvs false st).2
      have hkeep : Keep st (abortCheck env (pvsChild G (ab env G 255) p m MAXS MAXS depth pvs false st).2).2 :=
        hp.1.trans (keep_of_frame hf)
      have hkf : KF R G p st (abortCheck env (pvsChild G (ab env G 255) p m MAXS MAXS depth pvs false st).2).2 :=
        hF.trans (KF.of_tt hf.1)
      simp only []
      split
      · rename_i hab
        have hI := abortCheck_interrupts' env _ hc (by rw [hp.1.1, hply]; omega) hab
        have hra := rootAbort_props MAXS best
          (abortCheck env (pvsChild G (ab env G 255) p m MAXS MAXS depth pvs false st).2).2
        refine ⟨SearchPvNonempty.rootAbort_interrupted _ _ hI, ?_, hra.2.1.trans hkeep.1, ?_⟩
        · exact hkf.trans (KF.of_tt hra.1)
        · rcases hra.2.2 with ⟨h1, h2⟩ | ⟨h1, h2⟩
          · exact .inl ⟨h1.trans hkeep.2.1, h2.trans hkeep.2.2⟩
          · exact .inr ⟨h1, h2⟩
      · have hle : ¬ ((pvsChild G (ab env G 255) p m MAXS MAXS depth pvs false st).1 > MAXS) := by
          have := hp.2.1.2
          omega
        rw [if_neg hle]
        have h := ih best pvs (n + 1)
          (abortCheck env (pvsChild G (ab env G 255) p m MAXS MAXS depth pvs false st).2).2 hms' (hkeep.1.trans hply)
          (hkf.rootExact hR)
        revert h
        generalize rootKids env G (ab env G 255) p depth ms MAXS best pvs (n + 1) _ = r
        intro h
        cases r with
        | abort s =>
          obtain ⟨h1, h2, h3, h4⟩ := h
          refine ⟨h1, hkf.trans h2, h3.trans hkeep.1, ?_⟩
          rcases h4 with ⟨g1, g2⟩ | ⟨g1, g2⟩
          · exact .inl ⟨g1.trans hkeep.2.1, g2.trans hkeep.2.2⟩
          · exact .inr ⟨g1, g2⟩
        | done a b n' s =>
          obtain ⟨h1, h2, h3, h4, h5⟩ := h
          exact ⟨h1, h2, by omega, hkf.trans h4, hkeep.trans h5⟩

/-- the root loop before alpha has reached `MAXS`, on a clean cache, with a mating move still to come:
    if it completes, alpha is `MAXS` and the best move mates -/
def PostA (env : Env) (G : Game P M) (p : P) (n : Nat) (st : St M) : RootLoop M → Prop
  | .abort st' => Interrupted env st'
  | .done a b n' st' => a = MAXS ∧ Mates G p b ∧ n < n' ∧ KF False G p st st' ∧ Keep st st'

theorem rootKids_prefix (env : Env) (hc : MonoClock env) (hoff : env.cacheOff = false) {G : Game P M} {p : P}
    (hk : KeyMate G) (he : EvalBoundedFrom G p) (hK : MatedKeysFresh G p) (hD : NoDrawAtMate G p) (depth : Nat) :
    ∀ (ms : List M) (alpha : Int) (best : M) (pvs : Bool) (n : Nat) (st : St M),
      (∀ m ∈ ms, m ∈ G.allMoves p) → (∃ m ∈ ms, Mates G p m) → -32768 ≤ alpha → alpha < 32767 → st.ply = 0 →
      TInv G st.tt → NoMatedEntry G p st.tt →
      PostA env G p n st (rootKids env G (ab env G 255) p depth ms alpha best pvs n st) := by
  intro ms
  induction ms with
  | nil =>
    intro alpha best pvs n st _ hex
    obtain ⟨m, hm, _⟩ := hex
    exact absurd hm List.not_mem_nil
  | cons m ms ih =>
    intro alpha best pvs n st hms hex ha hb hply hT hne
    have hm : m ∈ G.allMoves p := hms m List.mem_cons_self
    have hms' : ∀ x ∈ ms, x ∈ G.allMoves p := fun x hx => hms x (List.mem_cons_of_mem _ hx)
    rw [rootKids_cons]
    split
    · rename_i hl
      have hex' : ∃ x ∈ ms, Mates G p x := by
        obtain ⟨x, hx, hxm⟩ := hex
        rcases List.mem_cons.1 hx with rfl | hx
        · have := (List.mem_filter.1 hxm.1).2
          rw [this] at hl
          simp at hl
        · exact ⟨x, hx, hxm⟩
      exact ih alpha best pvs n st hms' hex' ha hb hply hT hne
    · rename_i hl
      have hl' : G.legal p m = true := by simpa using hl
      have hlegal : m ∈ legalMovesOf G p := List.mem_filter.2 ⟨hm, hl'⟩
      have hp := pvsChild_B (recB_ab env G p) p m alpha MAXS depth pvs false st (by rw [hply])
      have hf := abortCheck_frame env (pvsChild G (ab env G 255) p m alpha MAXS depth pvs false st).2
      have hkeep : Keep st (abortCheck env (pvsChild G (ab env G 255) p m alpha MAXS depth pvs false st).2).2 :=
        hp.1.trans (keep_of_frame hf)
      have hply1 : (pvsChild G (ab env G 255) p m alpha MAXS depth pvs false st).2.ply < 255 := by
        rw [hp.1.1, hply]; omega
      by_cases hM : Mated G (G.play p m)
      · -- the first mating move of the list
        have hMt : Mates G p m := ⟨hlegal, hM⟩
        have hd := hD m hMt
        have hpm := pvsChild_mated env hc hoff G p m hM hd.1 hd.2 alpha depth pvs false st hply (hne m hMt)
        have hkf : KF False G p st (abortCheck env (pvsChild G (ab env G 255) p m alpha MAXS depth pvs false st).2).2 :=
          KF.of_tt (hf.1.trans hpm.1)
        simp only []
        split
        · rename_i hab
          exact SearchPvNonempty.rootAbort_interrupted _ _ (abortCheck_interrupts' env _ hc hply1 hab)
        · rename_i hab
          have hs : (pvsChild G (ab env G 255) p m alpha MAXS depth pvs false st).1 = MAXS := by
            rcases hpm.2 with h | h
            · exact h
            · exact absurd (abortCheck_of_interrupted env _ hc h) hab
          have hgt : (pvsChild G (ab env G 255) p m alpha MAXS depth pvs false st).1 > alpha := by
            rw [hs]; show alpha < 32767; exact hb
          rw [if_pos hgt, hs]
          have hB := rootKids_suffix env hc hoff False hK depth ms m true (n + 1)
            (abortCheck env (pvsChild G (ab env G 255) p m alpha MAXS depth pvs false st).2).2 hms'
            (hkeep.1.trans hply) (fun r => r.elim)
          revert hB
          generalize rootKids env G (ab env G 255) p depth ms MAXS m true (n + 1) _ = r
          intro hB
          cases r with
          | abort s => exact hB.1
          | done a b n' s =>
            obtain ⟨h1, h2, h3, h4, h5⟩ := hB
            exact ⟨h1, h2 ▸ hMt, by omega, hkf.trans h4, hkeep.trans h5⟩
      · -- a move that does not mate: the soundness development applies
        have hex' : ∃ x ∈ ms, Mates G p x := by
          obtain ⟨x, hx, hxm⟩ := hex
          rcases List.mem_cons.1 hx with rfl | hx
          · exact absurd hxm.2 hM
          · exact ⟨x, hx, hxm⟩
        have hsp := SearchMate.pvsChild_spec (SearchMate.ab_spec hk p he env 255) p m Reach.refl hm alpha MAXS depth
          pvs false st ha (show alpha < 32767 from hb) (show (32767 : Int) ≤ 32767 by omega)
          (show (-32767 : Int) < 32767 by omega) (by omega) (fun _ => hM) hT
        obtain ⟨hr, _, _, hT1, _⟩ := hsp
        have hF := pvsChild_F (ab_F env hoff False (depth - 1) hK 255) p m (Tree.child hlegal) alpha MAXS depth
          (Nat.le_refl _) pvs false st (fun r => r.elim)
        have hkf : KF False G p st (abortCheck env (pvsChild G (ab env G 255) p m alpha MAXS depth pvs false st).2).2 :=
          hF.trans (KF.of_tt hf.1)
        have hT2 : TInv G (abortCheck env (pvsChild G (ab env G 255) p m alpha MAXS depth pvs false st).2).2.tt := by
          rw [hf.1]; exact hT1
        unfold Rng at hr
        simp only []
        split
        · rename_i hab
          exact SearchPvNonempty.rootAbort_interrupted _ _ (abortCheck_interrupts' env _ hc hply1 hab)
        · split
          · have h := ih (pvsChild G (ab env G 255) p m alpha MAXS depth pvs false st).1 m true (n + 1)
              (abortCheck env (pvsChild G (ab env G 255) p m alpha MAXS depth pvs false st).2).2 hms' hex'
              (by omega) hr.2 (hkeep.1.trans hply) hT2 (hne.of_KF hkf)
            revert h
            generalize rootKids env G (ab env G 255) p depth ms _ m true (n + 1) _ = r
            intro h
            cases r with
            | abort s => exact h
            | done a b n' s =>
              obtain ⟨h1, h2, h3, h4, h5⟩ := h
              exact ⟨h1, h2, by omega, hkf.trans h4, hkeep.trans h5⟩
          · have h := ih alpha best pvs (n + 1)
              (abortCheck env (pvsChild G (ab env G 255) p m alpha MAXS depth pvs false st).2).2 hms' hex'
              ha hb (hkeep.1.trans hply) hT2 (hne.of_KF hkf)
            revert h
            generalize rootKids env G (ab env G 255) p depth ms alpha best pvs (n + 1) _ = r
            intro h
            cases r with
            | abort s => exact h
            | done a b n' s =>
              obtain ⟨h1, h2, h3, h4, h5⟩ := h
              exact ⟨h1, h2, by omega, hkf.trans h4, hkeep.trans h5⟩

/-! ## one iteration -/

/-- the state before the iteration of depth `d`, once a mating move has been reported with the score `MAXS`:
    the root's entry is exact, names a mating move and is at least `d − 1` deep -/
structure J (G : Game P M) (p : P) (d : Nat) (st : St M) : Prop where
  ply : st.ply = 0
  nme : NoMatedEntry G p st.tt
  entry : ∃ e, st.tt[G.key p]? = some e ∧ e.bound = .exact ∧ Mates G p e.best ∧ d - 1 ≤ e.depth
  bm : ∃ m, st.bestMove = some m ∧ Mates G p m
  bs : st.bestScore = some MAXS

theorem J.of_frame {G : Game P M} {p : P} {d : Nat} {st st' : St M} (h : J G p d st) (hf : Frame st st') : J G p d st' :=
  ⟨hf.2.2.1.trans h.ply, by rw [hf.1]; exact h.nme, by rw [hf.1]; exact h.entry,
   by rw [hf.2.2.2.2.2.1]; exact h.bm, by rw [hf.2.2.2.2.2.2.1]; exact h.bs⟩

theorem J.weaken {G : Game P M} {p : P} {d d' : Nat} {st : St M} (h : J G p d st) (hd : d' ≤ d) : J G p d' st := by
  obtain ⟨e, h1, h2, h3, h4⟩ := h.entry
  exact ⟨h.ply, h.nme, ⟨e, h1, h2, h3, by omega⟩, h.bm, h.bs⟩

/-- saving a completed iteration whose best move mates: interrupted with nothing changed, or `J` holds -/
theorem rootSave_J (env : Env) (hc : MonoClock env) {G : Game P M} {p : P} (hk : KeyMate G) (depth : Nat) {b : M}
    (hb : Mates G p b) {s : St M} (hply : s.ply = 0) (hne : NoMatedEntry G p s.tt) :
    ((rootSave env G p depth MAXS b s).tt = s.tt ∧ Keep s (rootSave env G p depth MAXS b s) ∧
      Interrupted env (rootSave env G p depth MAXS b s)) ∨ J G p (depth + 1) (rootSave env G p depth MAXS b s) := by
  unfold rootSave
  have hf := abortCheck_frame env s
  split
  · rename_i hab
    exact .inl ⟨hf.1, keep_of_frame hf, abortCheck_interrupts' env s hc (by omega) hab⟩
  · refine .inr ⟨hf.2.2.1.trans hply, ?_, ?_, ⟨b, rfl, hb⟩, rfl⟩
    · intro m hm
      show ((abortCheck env s).2.tt.insert (G.key p) _)[G.key (G.play p m)]? = none
      rw [Std.HashMap.getElem?_insert]
      have hne' : (G.key p == G.key (G.play p m)) = false := by
        rw [beq_eq_false_iff_ne]
        exact fun h => root_key_ne hk hm h.symm
      rw [hne', hf.1]
      exact hne m hm
    · refine ⟨⟨MAXS, depth, .exact, b⟩, ?_, rfl, hb, by show depth + 1 - 1 ≤ depth; omega⟩
      show ((abortCheck env s).2.tt.insert (G.key p) _)[G.key p]? = some _
      exact Std.HashMap.getElem?_insert_self

/-- an iteration started with an exact root entry, at least `depth − 1` deep, that names a mating move -/
theorem abStart_b2 (env : Env) (hc : MonoClock env) (hoff : env.cacheOff = false) {G : Game P M} {p : P}
    (hk : KeyMate G) (hK : MatedKeysFresh G p) (hD : NoDrawAtMate G p) (hO : OrderScoresOK G p) (depth : Nat) {st : St M}
    (hply : st.ply = 0) (hne : NoMatedEntry G p st.tt)
    (hent : ∃ e, st.tt[G.key p]? = some e ∧ e.bound = .exact ∧ Mates G p e.best ∧ depth - 1 ≤ e.depth)
    (hbs : ∀ s, st.bestScore = some s → MINS ≤ s) :
    ((abStart env G p depth st).ply = 0 ∧ NoMatedEntry G p (abStart env G p depth st).tt ∧
      (abStart env G p depth st).tt[G.key p]? = st.tt[G.key p]? ∧
      (((abStart env G p depth st).bestMove = st.bestMove ∧ (abStart env G p depth st).bestScore = st.bestScore) ∨
       ((∃ b, (abStart env G p depth st).bestMove = some b ∧ Mates G p b) ∧
         (abStart env G p depth st).bestScore = some MAXS)) ∧
      Interrupted env (abStart env G p depth st)) ∨
    J G p (depth + 1) (abStart env G p depth st) := by
  obtain ⟨e, hE, hEx, hEm, hEd⟩ := hent
  have hEall : e.best ∈ G.allMoves p := (List.mem_filter.1 hEm.1).1
  have hEl : G.legal p e.best = true := (List.mem_filter.1 hEm.1).2
  have hRE : True → RootExact G p (depth - 1) st.tt := fun _ => ⟨e, hE, hEx, hEd⟩
  rw [abStart_eq]
  split
  · rename_i heq
    rw [heq] at hEall
    exact absurd hEall List.not_mem_nil
  · rename_i m0 t _
    obtain ⟨rest, hord⟩ := orderMoves_head G e.best (st.killers.getD st.ply (none, none)) (G.allMoves p) hEall hO
    have hrest : ∀ x ∈ rest, x ∈ G.allMoves p := fun x hx =>
      orderMoves_mem G (some e.best) (st.killers.getD st.ply (none, none)) (G.allMoves p) x
        (by rw [hord]; exact List.mem_cons_of_mem _ hx)
    rw [hE]
    simp only [Option.map_some]
    rw [hord, rootKids_cons]
    have hl0 : ¬ ((!G.legal p e.best) = true) := by rw [hEl]; simp
    rw [if_neg hl0]
    have hd := hD e.best hEm
    have hpm := pvsChild_mated env hc hoff G p e.best hEm.2 hd.1 hd.2 MINS depth false false st hply (hne e.best hEm)
    have hp := pvsChild_B (recB_ab env G p) p e.best MINS MAXS depth false false st (by rw [hply])
    have hf := abortCheck_frame env (pvsChild G (ab env G 255) p e.best MINS MAXS depth false false st).2
    have hkeep : Keep st (abortCheck env (pvsChild G (ab env G 255) p e.best MINS MAXS depth false false st).2).2 :=
      hp.1.trans (keep_of_frame hf)
    have htt : (abortCheck env (pvsChild G (ab env G 255) p e.best MINS MAXS depth false false st).2).2.tt = st.tt :=
      hf.1.trans hpm.1
    have hply1 : (pvsChild G (ab env G 255) p e.best MINS MAXS depth false false st).2.ply < 255 := by
      rw [hp.1.1, hply]; omega
    simp only []
    by_cases hab : (abortCheck env (pvsChild G (ab env G 255) p e.best MINS MAXS depth false false st).2).1 = true
    · rw [if_pos hab]
      simp only []
      rw [rootAbort_id (fun s hs => hbs s (hkeep.2.2 ▸ hs))]
      refine .inl ⟨hkeep.1.trans hply, by rw [htt]; exact hne, by rw [htt]; exact hE, .inl ⟨hkeep.2.1, hkeep.2.2⟩, ?_⟩
      exact abortCheck_interrupts' env _ hc hply1 hab
    · rw [if_neg hab]
      have hs : (pvsChild G (ab env G 255) p e.best MINS MAXS depth false false st).1 = MAXS := by
        rcases hpm.2 with h | h
        · exact h
        · exact absurd (abortCheck_of_interrupted env _ hc h) hab
      have hgt : (pvsChild G (ab env G 255) p e.best MINS MAXS depth false false st).1 > MINS := by
        rw [hs]; decide
      rw [if_pos hgt, hs]
      have hkf0 : KF True G p st (abortCheck env (pvsChild G (ab env G 255) p e.best MINS MAXS depth false false st).2).2 :=
        KF.of_tt htt
      have hB := rootKids_suffix env hc hoff True hK depth rest e.best true (0 + 1)
        (abortCheck env (pvsChild G (ab env G 255) p e.best MINS MAXS depth false false st).2).2 hrest
        (hkeep.1.trans hply) (hkf0.rootExact hRE)
      revert hB
      generalize rootKids env G (ab env G 255) p depth rest MAXS e.best true (0 + 1) _ = r
      intro hB
      cases r with
      | abort s =>
        obtain ⟨h1, h2, h3, h4⟩ := hB
        have hkf := hkf0.trans h2
        have hply' : s.ply = 0 := h3.trans (hkeep.1.trans hply)
        have hne' : NoMatedEntry G p s.tt := hne.of_KF hkf
        have hroot : s.tt[G.key p]? = st.tt[G.key p]? := hkf _ (.inl ⟨trivial, rfl⟩)
        simp only []
        rcases h4 with ⟨g1, g2⟩ | ⟨g1, g2⟩
        · exact .inl ⟨hply', hne', hroot.trans hE, .inl ⟨g1.trans hkeep.2.1, g2.trans hkeep.2.2⟩, h1⟩
        · exact .inl ⟨hply', hne', hroot.trans hE, .inr ⟨⟨e.best, g1, hEm⟩, g2⟩, h1⟩
      | done a b n' s =>
        obtain ⟨h1, h2, h3, h4, h5⟩ := hB
        subst h1 h2
        have hkf := hkf0.trans h4
        have hk2 : Keep st s := hkeep.trans h5
        have hply' : s.ply = 0 := hk2.1.trans hply
        have hne' : NoMatedEntry G p s.tt := hne.of_KF hkf
        have hroot : s.tt[G.key p]? = st.tt[G.key p]? := hkf _ (.inl ⟨trivial, rfl⟩)
        simp only []
        have hn : ¬ (n' = 0) := by omega
        rw [if_neg hn]
        rcases rootSave_J env hc hk depth hEm hply' hne' with ⟨g1, g2, g3⟩ | g
        · exact .inl ⟨g2.1.trans hply', by rw [g1]; exact hne', by rw [g1]; exact hroot.trans hE,
            .inl ⟨g2.2.1.trans hk2.2.1, g2.2.2.trans hk2.2.2⟩, g3⟩
        · exact .inr g

/-- an iteration started on a clean cache -/
theorem abStart_b1 (env : Env) (hc : MonoClock env) (hoff : env.cacheOff = false) {G : Game P M} {p : P}
    (hk : KeyMate G) (he : EvalBoundedFrom G p) (hK : MatedKeysFresh G p) (hD : NoDrawAtMate G p)
    (hex : ∃ m, Mates G p m) (depth : Nat) {st : St M}
    (hply : st.ply = 0) (hT : TInv G st.tt) (hne : NoMatedEntry G p st.tt) :
    Interrupted env (abStart env G p depth st) ∨ J G p (depth + 1) (abStart env G p depth st) := by
  obtain ⟨mm, hmm⟩ := hex
  have hmall : mm ∈ G.allMoves p := (List.mem_filter.1 hmm.1).1
  rw [abStart_eq]
  split
  · rename_i heq
    rw [heq] at hmall
    exact absurd hmall List.not_mem_nil
  · rename_i m0 t _
    have hA := rootKids_prefix env hc hoff hk he hK hD depth
      (orderMoves G ((st.tt[G.key p]?).map (·.best)) (st.killers.getD st.ply (none, none)) (G.allMoves p))
      MINS m0 false 0 st (fun m hm => orderMoves_mem _ _ _ _ _ hm)
      ⟨mm, (SearchMate.mem_orderMoves _ _ _ _ _).2 hmall, hmm⟩ (by decide) (by decide) hply hT hne
    revert hA
    generalize rootKids env G (ab env G 255) p depth _ MINS m0 false 0 st = r
    intro hA
    cases r with
    | abort s => exact .inl hA
    | done a b n' s =>
      obtain ⟨h1, h2, h3, h4, h5⟩ := hA
      subst h1
      simp only []
      have hn : ¬ (n' = 0) := by omega
      rw [if_neg hn]
      rcases rootSave_J env hc hk depth h2 (h5.1.trans hply) (hne.of_KF h4) with ⟨_, _, g3⟩ | g
      · exact .inl g3
      · exact .inr g

/-- a later iteration: interrupted with `J` kept, or completed with `J` for the next depth -/
theorem abStart_J (env : Env) (hc : MonoClock env) (hoff : env.cacheOff = false) {G : Game P M} {p : P}
    (hk : KeyMate G) (hK : MatedKeysFresh G p) (hD : NoDrawAtMate G p) (hO : OrderScoresOK G p) (depth : Nat) {st : St M}
    (h : J G p depth st) :
    (Interrupted env (abStart env G p depth st) ∧ J G p depth (abStart env G p depth st)) ∨
    J G p (depth + 1) (abStart env G p depth st) := by
  rcases abStart_b2 env hc hoff hk hK hD hO depth h.ply h.nme h.entry
      (fun s hs => by rw [h.bs] at hs; cases hs; decide) with ⟨g1, g2, g3, g4, g5⟩ | g
  · refine .inl ⟨g5, g1, g2, by rw [g3]; exact h.entry, ?_, ?_⟩
    · rcases g4 with ⟨k1, _⟩ | ⟨k1, _⟩
      · rw [k1]; exact h.bm
      · exact k1
    · rcases g4 with ⟨_, k2⟩ | ⟨_, k2⟩
      · rw [k2]; exact h.bs
      · exact k2
  · exact .inr g

/-! ## the iterations -/

theorem iterate_J (env : Env) (hc : MonoClock env) (hoff : env.cacheOff = false) {G : Game P M} {p : P}
    (hk : KeyMate G) (hK : MatedKeysFresh G p) (hD : NoDrawAtMate G p) (hO : OrderScoresOK G p) (md : Nat) :
    ∀ (fuel d : Nat) (st : St M) (infos : List (InfoLine M)), J G p d st →
      J G p 0 (iterate env G p md fuel d st infos).1 := by
  intro fuel
  induction fuel with
  | zero => intro d st infos h; exact h.weaken (Nat.zero_le _)
  | succ fuel ih =>
    intro d st infos h
    rw [iterate_succ]
    have hfr := abortCheck_frame env (abStart env G p d st)
    split
    · exact h.weaken (Nat.zero_le _)
    · simp only []
      rcases abStart_J env hc hoff hk hK hD hO d h with ⟨hI, h1⟩ | h1
      · rw [if_pos (abortCheck_of_interrupted env _ hc hI)]
        exact (h1.of_frame hfr).weaken (Nat.zero_le _)
      · split
        · exact (h1.of_frame hfr).weaken (Nat.zero_le _)
        · exact ih _ _ _ (h1.of_frame hfr)

/-- the first iteration: if its info line is printed, `J` holds from then on -/
theorem iterate_first (env : Env) (hc : MonoClock env) (hoff : env.cacheOff = false) {G : Game P M} {p : P}
    (hk : KeyMate G) (he : EvalBoundedFrom G p) (hK : MatedKeysFresh G p) (hD : NoDrawAtMate G p) (hO : OrderScoresOK G p)
    (hex : ∃ m, Mates G p m) (md : Nat) (st : St M) (hply : st.ply = 0) (hbs : st.bestScore = none)
    (hinv : MateOneInv G p st.tt) (hdone : (iterate env G p md md 1 st []).2 ≠ []) :
    J G p 0 (iterate env G p md md 1 st []).1 := by
  cases md with
  | zero => exact absurd rfl hdone
  | succ f =>
    rw [iterate_succ] at hdone ⊢
    have hle : ¬ (1 > f + 1) := by omega
    rw [if_neg hle] at hdone ⊢
    simp only [] at hdone ⊢
    by_cases hab : (abortCheck env (abStart env G p 1 st)).1 = true
    · rw [if_pos hab] at hdone
      exact absurd rfl hdone
    · rw [if_neg hab]
      have hJ : J G p 2 (abStart env G p 1 st) := by
        have hcases : Interrupted env (abStart env G p 1 st) ∨ J G p 2 (abStart env G p 1 st) := by
          rcases hinv.2 with hT | ⟨e, h1, h2, h3⟩
          · exact abStart_b1 env hc hoff hk he hK hD hex 1 hply hT hinv.1
          · rcases abStart_b2 env hc hoff hk hK hD hO 1 hply hinv.1 ⟨e, h1, h2, h3, Nat.zero_le _⟩
                (fun s hs => by rw [hbs] at hs; cases hs) with ⟨_, _, _, _, g⟩ | g
            · exact .inl g
            · exact .inr g
        rcases hcases with h | h
        · exact absurd (abortCheck_of_interrupted env _ hc h) hab
        · exact h
      exact iterate_J env hc hoff hk hK hD hO (f + 1) f 2 _ _ (hJ.of_frame (abortCheck_frame env _))

/-! ## the theorem -/

/-- With the cache on: if a mate in one exists at the root and at least one iteration completed (an info line was
    printed), the chosen move delivers checkmate, and the cache satisfies the invariant again — so the statement
    applies to the next search of the same position (at any depth, under any limits) started with that cache.

    Hypotheses beyond those of the other search theorems:
    * `hoff` — "with caching on" (with the cache off the table is emptied at every inner node, the root's entry is lost
      in mid-iteration, and an interrupted search leaves a cache that does not satisfy the invariant);
    * `hK : MatedKeysFresh G p` — the key hypothesis (`KeyMate` alone does not suffice, see `Counter.G3`): no *writing*
      node of the tree below the root has the key of a mated child of the root.  Needed: an entry under a mated
      child's key is returned by the probe in place of the mate score.  (That the root's own key is not a mated
      child's follows from `KeyMate`: `root_key_ne`.  No hypothesis is needed about nodes that share the root's key:
      they leave at the probe, because the root's entry is exact and deep enough.);
    * `hD : NoDrawAtMate G p` — the mated children are not declared draws (fifty-move rule, repetition) before the
      mate test;
    * `hO : OrderScoresOK G p` — the static ordering scores of the root moves are below the score `2^64 − 1` reserved
      for the cached move, so that the cached move is searched first. -/
theorem mate_in_one_played (env : Env) (G : Game P M) (p : P) (maxDepth : Option Nat) (tt0 : Table M)
    (hc : MonoClock env) (hoff : env.cacheOff = false) (he : EvalBoundedFrom G p) (hk : KeyMate G)
    (hK : MatedKeysFresh G p) (hD : NoDrawAtMate G p) (hO : OrderScoresOK G p)
    (hex : ∃ m, Mates G p m) (hinv : MateOneInv G p tt0) (hdone : (search env G p maxDepth tt0).infos ≠ []) :
    (∃ m, (search env G p maxDepth tt0).st.bestMove = some m ∧ Mates G p m) ∧
    MateOneInv G p (search env G p maxDepth tt0).st.tt := by
  have hJ := iterate_first env hc hoff hk he hK hD hO hex (maxDepth.getD 255) ({ tt := tt0 } : St M) rfl rfl hinv hdone
  obtain ⟨e, h1, h2, h3, _⟩ := hJ.entry
  exact ⟨hJ.bm, hJ.nme, .inr ⟨e, h1, h2, h3⟩⟩

/-- the reported score is that of a mate in one -/
theorem mate_in_one_score (env : Env) (G : Game P M) (p : P) (maxDepth : Option Nat) (tt0 : Table M)
    (hc : MonoClock env) (hoff : env.cacheOff = false) (he : EvalBoundedFrom G p) (hk : KeyMate G)
    (hK : MatedKeysFresh G p) (hD : NoDrawAtMate G p) (hO : OrderScoresOK G p)
    (hex : ∃ m, Mates G p m) (hinv : MateOneInv G p tt0) (hdone : (search env G p maxDepth tt0).infos ≠ []) :
    (search env G p maxDepth tt0).st.bestScore = some MAXS :=
  (iterate_first env hc hoff hk he hK hD hO hex (maxDepth.getD 255) ({ tt := tt0 } : St M) rfl rfl hinv hdone).bs

/-- the move answered on the `bestmove` line -/
theorem mate_in_one_answered (env : Env) (G : Game P M) (p : P) (maxDepth : Option Nat) (tt0 : Table M)
    (hc : MonoClock env) (hoff : env.cacheOff = false) (he : EvalBoundedFrom G p) (hk : KeyMate G)
    (hK : MatedKeysFresh G p) (hD : NoDrawAtMate G p) (hO : OrderScoresOK G p)
    (hex : ∃ m, Mates G p m) (hinv : MateOneInv G p tt0) (hdone : (search env G p maxDepth tt0).infos ≠ []) :
    ∃ m, (search env G p maxDepth tt0).best = some m ∧ Mates G p m := by
  obtain ⟨m, h1, h2⟩ := (mate_in_one_played env G p maxDepth tt0 hc hoff he hk hK hD hO hex hinv hdone).1
  refine ⟨m, ?_, h2⟩
  have h1' : (iterate env G p (maxDepth.getD 255) (maxDepth.getD 255) 1 ({ tt := tt0 } : St M) []).1.bestMove = some m := h1
  show (match (iterate env G p (maxDepth.getD 255) (maxDepth.getD 255) 1 ({ tt := tt0 } : St M) []).1.bestMove with
    | some m => some m
    | none => ((G.allMoves p).filter (G.legal p)).head?) = some m
  rw [h1']

/-! ## successive searches of the same position -/

/-- one `go` command: its environment and depth limit -/
structure Go where
  env : Env
  maxDepth : Option Nat

/-- the cache after a sequence of searches of `p`, each started with the cache the previous one left -/
def cacheAfter (G : Game P M) (p : P) : List Go → Table M → Table M
  | [], tt => tt
  | g :: gs, tt => cacheAfter G p gs (search g.env G p g.maxDepth tt).st.tt

/-- every search of the sequence printed an info line -/
def AllReported (G : Game P M) (p : P) : List Go → Table M → Prop
  | [], _ => True
  | g :: gs, tt => (search g.env G p g.maxDepth tt).infos ≠ [] ∧ AllReported G p gs (search g.env G p g.maxDepth tt).st.tt

/-- after any number of earlier searches of the position (other depths, other limits, monotone clocks, cache on) that
    each completed an iteration, starting from a cache that satisfies the invariant — the empty one, for instance —
    a further search that completes an iteration chooses a mating move -/
theorem mate_in_one_played_again (G : Game P M) (p : P) (he : EvalBoundedFrom G p) (hk : KeyMate G)
    (hK : MatedKeysFresh G p) (hD : NoDrawAtMate G p) (hO : OrderScoresOK G p) (hex : ∃ m, Mates G p m) :
    ∀ (gs : List Go) (tt0 : Table M), MateOneInv G p tt0 →
      (∀ g ∈ gs, MonoClock g.env ∧ g.env.cacheOff = false) → AllReported G p gs tt0 →
      MateOneInv G p (cacheAfter G p gs tt0) ∧
      ∀ (env : Env) (maxDepth : Option Nat), MonoClock env → env.cacheOff = false →
        (search env G p maxDepth (cacheAfter G p gs tt0)).infos ≠ [] →
        ∃ m, (search env G p maxDepth (cacheAfter G p gs tt0)).st.bestMove = some m ∧ Mates G p m := by
  intro gs
  induction gs with
  | nil =>
    intro tt0 hinv _ _
    exact ⟨hinv, fun env md hc hoff hdone =>
      (mate_in_one_played env G p md tt0 hc hoff he hk hK hD hO hex hinv hdone).1⟩
  | cons g gs ih =>
    intro tt0 hinv hgs hrep
    have hg := hgs g List.mem_cons_self
    have h1 := mate_in_one_played g.env G p g.maxDepth tt0 hg.1 hg.2 he hk hK hD hO hex hinv hrep.1
    exact ih _ h1.2 (fun x hx => hgs x (List.mem_cons_of_mem _ hx)) hrep.2

/-- the first search of a position, from the empty cache -/
theorem mate_in_one_played_first (env : Env) (G : Game P M) (p : P) (maxDepth : Option Nat)
    (hc : MonoClock env) (hoff : env.cacheOff = false) (he : EvalBoundedFrom G p) (hk : KeyMate G)
    (hK : MatedKeysFresh G p) (hD : NoDrawAtMate G p) (hO : OrderScoresOK G p)
    (hex : ∃ m, Mates G p m) (hdone : (search env G p maxDepth {}).infos ≠ []) :
    ∃ m, (search env G p maxDepth {}).st.bestMove = some m ∧ Mates G p m :=
  (mate_in_one_played env G p maxDepth {} hc hoff he hk hK hD hO hex (mateOneInv_empty G p) hdone).1

/-! ## why the extra hypotheses: two counterexamples

Games on `Fin 8` in the style of `SearchMate.Counter` (a move is its target square, every evaluation is 0). -/
namespace Counter
open RCE.Proofs.SearchMate.Counter (mkGame key_inj keyMate evalBounded legalMoves_eq)

theorem monoClock_default : MonoClock ({} : Env) := fun _ _ _ => Nat.le_refl _
theorem monoClock_stop (k : Nat) (b : Bool) : MonoClock ({ stopAtPoll := k, cacheOff := b } : Env) :=
  fun _ _ _ => Nat.le_refl _

/-! ### `KeyMate` does not suffice: a lost position with the key of a mated child

0 = root: 2, 1 (mates at once);  2 → 3 → 5 → 6 → 7 with 7 mated, every position from 1 on is in check, so the check
extensions let a depth-1 search see the whole line: the move 2 mates in three.  Position 5 (lost in two) has the key of
position 1 (mated): `KeyMate` holds.  The entry stored for 5 (`−32763`, exact) answers the probe of 1: the move 1 scores
`32763`, no more than the move 2 searched before it. -/

def mv3 : Fin 8 → List (Fin 8) := fun p => match p with | 0 => [2, 1] | 2 => [3] | 3 => [5] | 5 => [6] | 6 => [7] | _ => []
def ck3 : Fin 8 → Bool := fun p => p != 0 && p != 4

def G3 : Game (Fin 8) (Fin 8) :=
  { mkGame mv3 ck3 with key := fun p => if p = 5 then 1 else UInt64.ofNat p.val }

theorem G3_legal (q : Fin 8) : legalMovesOf G3 q = mv3 q := by
  show (mv3 q).filter (fun _ => true) = mv3 q
  simp

theorem G3_key_cases : ∀ p q : Fin 8, G3.key p = G3.key q → p = q ∨ (p = 1 ∧ q = 5) ∨ (p = 5 ∧ q = 1) := by
  show ∀ p q : Fin 8, (if p = 5 then (1 : UInt64) else UInt64.ofNat p.val) = (if q = 5 then 1 else UInt64.ofNat q.val) →
    p = q ∨ (p = 1 ∧ q = 5) ∨ (p = 5 ∧ q = 1)
  decide

theorem G3_lost_1 : Lost G3 1 := Lost.mate (by rw [G3_legal]; rfl) (by decide)
theorem G3_lost_7 : Lost G3 7 := Lost.mate (by rw [G3_legal]; rfl) (by decide)
theorem G3_lost_5 : Lost G3 5 := by
  refine Lost.all (by rw [G3_legal]; exact List.cons_ne_nil _ _) ?_
  intro m hm
  rw [G3_legal] at hm
  change m ∈ [(6 : Fin 8)] at hm
  simp only [List.mem_singleton] at hm
  subst hm
  exact Won.some (7 : Fin 8) (by rw [G3_legal]; exact List.mem_singleton.2 rfl) G3_lost_7

theorem G3_keyMate : KeyMate G3 := by
  intro p q h
  rcases G3_key_cases p q h with rfl | ⟨rfl, rfl⟩ | ⟨rfl, rfl⟩
  · exact ⟨id, id⟩
  · exact ⟨fun w => absurd w (not_won_of_lost G3_lost_1), fun _ => G3_lost_5⟩
  · exact ⟨fun w => absurd w (not_won_of_lost G3_lost_5), fun _ => G3_lost_1⟩

theorem G3_mates_1 : Mates G3 0 1 :=
  ⟨by rw [G3_legal]; exact List.mem_cons_of_mem _ List.mem_cons_self, by rw [Mated, G3_legal]; exact ⟨rfl, by decide⟩⟩

theorem G3_not_mates_2 : ¬ Mates G3 0 2 := by
  intro h
  have := h.2.1
  rw [G3_legal] at this
  exact absurd this (by decide)

/-- the claim without a key hypothesis beyond `KeyMate`, first search from the empty cache.  FALSE. -/
def mate_in_one_keyMate_only_statement : Prop :=
  ∀ (P M : Type) [DecidableEq M] (env : Env) (G : Game P M) (p : P) (maxDepth : Option Nat),
    MonoClock env → env.cacheOff = false → EvalBoundedFrom G p → KeyMate G → NoDrawAtMate G p → OrderScoresOK G p →
    (∃ m, Mates G p m) → (search env G p maxDepth {}).infos ≠ [] →
    ∃ m, (search env G p maxDepth {}).st.bestMove = some m ∧ Mates G p m

def r3 := search {} G3 0 (some 1) {}

/-- info: (1, some 2, some 32763) -/
#guard_msgs in
#eval (r3.infos.length, r3.st.bestMove, r3.st.bestScore)

/-- `mate_in_one_keyMate_only_statement` fails, given the run displayed by the `#eval` above -/
theorem mate_in_one_keyMate_only_refuted (hrun : r3.infos ≠ [] ∧ r3.st.bestMove = some 2) :
    ¬ mate_in_one_keyMate_only_statement := by
  intro h
  obtain ⟨m, h1, h2⟩ := h (Fin 8) (Fin 8) {} G3 0 (some 1) monoClock_default rfl
    (fun q _ => ⟨by show (-32511 : Int) ≤ 0; omega, by show (0 : Int) ≤ 32511; omega⟩) G3_keyMate
    (fun _ _ => ⟨rfl, rfl⟩) (fun _ _ => by show 0 + 2000 < 18446744073709551615; omega) ⟨1, G3_mates_1⟩ hrun.1
  have h1' : r3.st.bestMove = some m := h1
  rw [hrun.2] at h1'
  cases h1'
  exact G3_not_mates_2 h2

/-! ### "with caching on" cannot be dropped for the earlier searches

0 = root: 2, 1 (mates at once);  2 (in check) → 3 → 4, and 4 has no move.  A first search with the cache off is stopped
during its second iteration (at its 17th poll of the stop flag): the root's entry has been emptied away, the bogus
`⟨32767, lower⟩` entry for position 3 is all the cache holds.  The next search (cache on, depth 1) starts with the move 2 and reads "mate". -/

def mv4 : Fin 8 → List (Fin 8) := fun p => match p with | 0 => [2, 1] | 2 => [3] | 3 => [4] | _ => []
def ck4 : Fin 8 → Bool := fun p => p == 1 || p == 2

def G4 : Game (Fin 8) (Fin 8) := mkGame mv4 ck4

theorem G4_mates_1 : Mates G4 0 1 :=
  ⟨by rw [G4, legalMoves_eq]; exact List.mem_cons_of_mem _ List.mem_cons_self,
   by rw [Mated, G4, legalMoves_eq]; exact ⟨rfl, by decide⟩⟩

theorem G4_not_mates_2 : ¬ Mates G4 0 2 := by
  intro h
  have := h.2.1
  rw [G4, legalMoves_eq] at this
  exact absurd this (by decide)

theorem G4_matedKeysFresh : MatedKeysFresh G4 0 := by
  intro m hm q _ hkey
  have : q = G4.play 0 m := key_inj _ _ _ _ hkey
  subst this
  exact .inr (.inr hm.2.1)

/-- the claim for a second search (cache on) after a first one that ran with the cache off.  FALSE. -/
def mate_in_one_any_cache_mode_statement : Prop :=
  ∀ (P M : Type) [DecidableEq M] (env1 env2 : Env) (G : Game P M) (p : P) (d1 d2 : Option Nat),
    MonoClock env1 → MonoClock env2 → env2.cacheOff = false → EvalBoundedFrom G p → KeyMate G → MatedKeysFresh G p →
    NoDrawAtMate G p → OrderScoresOK G p → (∃ m, Mates G p m) →
    (search env1 G p d1 {}).infos ≠ [] → (search env2 G p d2 (search env1 G p d1 {}).st.tt).infos ≠ [] →
    ∃ m, (search env2 G p d2 (search env1 G p d1 {}).st.tt).st.bestMove = some m ∧ Mates G p m

def r41 := search { stopAtPoll := 17, cacheOff := true } G4 0 (some 4) {}
def r42 := search {} G4 0 (some 1) r41.st.tt

/-- info: (1, some 1, [(3, 32767, 1, RCE.Search.Bound.lower, 4)], 1, some 2, some 32767) -/
#guard_msgs in
#eval (r41.infos.length, r41.st.bestMove, r41.st.tt.toList.map (fun (k, e) => (k, e.score, e.depth, e.bound, e.best)),
  r42.infos.length, r42.st.bestMove, r42.st.bestScore)

/-- `mate_in_one_any_cache_mode_statement` fails, given the runs displayed by the `#eval` above -/
theorem mate_in_one_any_cache_mode_refuted (hrun : r41.infos ≠ [] ∧ r42.infos ≠ [] ∧ r42.st.bestMove = some 2) :
    ¬ mate_in_one_any_cache_mode_statement := by
  intro h
  obtain ⟨m, h1, h2⟩ := h (Fin 8) (Fin 8) { stopAtPoll := 17, cacheOff := true } {} G4 0 (some 4) (some 1)
    (monoClock_stop 17 true) monoClock_default rfl (evalBounded _ _ _) (keyMate _ _) G4_matedKeysFresh
    (fun _ _ => ⟨rfl, rfl⟩) (fun _ _ => by show 0 + 2000 < 18446744073709551615; omega) ⟨1, G4_mates_1⟩
    hrun.1 hrun.2.1
  have h1' : r42.st.bestMove = some m := h1
  rw [hrun.2.2] at h1'
  cases h1'
  exact G4_not_mates_2 h2

end Counter

end RCE.Proofs.SearchMateOne

#print axioms RCE.Proofs.SearchMateOne.mate_in_one_played
#print axioms RCE.Proofs.SearchMateOne.mate_in_one_answered
#print axioms RCE.Proofs.SearchMateOne.mate_in_one_played_again
#print axioms RCE.Proofs.SearchMateOne.mateOneInv_empty
#print axioms RCE.Proofs.SearchMateOne.mate_in_one_played_first
#print axioms RCE.Proofs.SearchMateOne.Counter.mate_in_one_keyMate_only_refuted
#print axioms RCE.Proofs.SearchMateOne.Counter.mate_in_one_any_cache_mode_refuted
