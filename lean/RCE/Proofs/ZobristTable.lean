import RCE.Model.Board
/-! Kernel-checked facts about the regenerated Zobrist table (C05). -/
namespace RCE.Proofs.ZobristTable
open RCE

/-- quadratic distinctness test on naturals (cheap for the kernel: GMP-accelerated `Nat.beq`) -/
def allDistinct : List Nat → Bool
  | [] => true
  | x :: xs => xs.all (fun y => y != x) && allDistinct xs

theorem nodup_of_allDistinct : ∀ l : List Nat, allDistinct l = true → l.Nodup
  | [], _ => List.nodup_nil
  | x :: xs, h => by
    simp only [allDistinct, Bool.and_eq_true, List.all_eq_true] at h
    refine List.nodup_cons.mpr ⟨?_, nodup_of_allDistinct xs h.2⟩
    intro hx
    have := h.1 x hx
    simp at this

/-- all 781 words pairwise distinct (305,290 comparisons, evaluated by the kernel on the regenerated table) -/
theorem words_distinct : allDistinct Gen.zAllWords = true := by decide +kernel
theorem words_nodup : Gen.zAllWords.Nodup := nodup_of_allDistinct _ words_distinct

theorem words_nonzero : ∀ w ∈ Gen.zAllWords, w ≠ 0 := by decide +kernel
theorem words_lt : ∀ w ∈ Gen.zAllWords, w < 2 ^ 64 := by decide +kernel
theorem words_length : Gen.zAllWords.length = 781 := by decide +kernel
theorem pieces_length : Gen.zPiecesL.length = 768 := by decide +kernel
theorem castling_length : Gen.zCastlingL.length = 4 := by decide +kernel
theorem ep_length : Gen.zEnPassantL.length = 8 := by decide +kernel

/-- the word at global index `i` of the table (pieces 0..767, castling 768..771, en passant 772..779,
    side to move 780), as the `UInt64` the engine XORs -/
def word (i : Nat) : UInt64 := (Gen.zAllWords.getD i 0).toUInt64

theorem getD_eq (i : Nat) (hi : i < 781) : ∃ h : i < Gen.zAllWords.length, Gen.zAllWords.getD i 0 = Gen.zAllWords[i] := by
  have hli : i < Gen.zAllWords.length := by rw [words_length]; exact hi
  exact ⟨hli, by simp [List.getD_eq_getElem?_getD, hli]⟩

theorem toUInt64_inj {a b : Nat} (ha : a < 2 ^ 64) (hb : b < 2 ^ 64) (h : a.toUInt64 = b.toUInt64) : a = b := by
  have := congrArg UInt64.toNat h
  simp only [Nat.toUInt64, UInt64.toNat_ofNat'] at this
  rwa [Nat.mod_eq_of_lt ha, Nat.mod_eq_of_lt hb] at this

theorem word_inj {i j : Nat} (hi : i < 781) (hj : j < 781) (h : word i = word j) : i = j := by
  obtain ⟨hli, ei⟩ := getD_eq i hi
  obtain ⟨hlj, ej⟩ := getD_eq j hj
  unfold word at h
  have h1 : Gen.zAllWords.getD i 0 < 2 ^ 64 := by rw [ei]; exact words_lt _ (List.getElem_mem hli)
  have h2 : Gen.zAllWords.getD j 0 < 2 ^ 64 := by rw [ej]; exact words_lt _ (List.getElem_mem hlj)
  exact (List.getD_inj hli hlj words_nodup).mp (toUInt64_inj h1 h2 h)

theorem word_ne_zero {i : Nat} (hi : i < 781) : word i ≠ 0 := by
  obtain ⟨hli, ei⟩ := getD_eq i hi
  unfold word
  have h1 : Gen.zAllWords.getD i 0 < 2 ^ 64 := by rw [ei]; exact words_lt _ (List.getElem_mem hli)
  have h0 : Gen.zAllWords.getD i 0 ≠ 0 := by rw [ei]; exact words_nonzero _ (List.getElem_mem hli)
  intro h
  exact h0 (toUInt64_inj h1 (by decide) (by simpa using h))

/-- XOR of two different words is non-zero -/
theorem word_xor_ne_zero {i j : Nat} (hi : i < 781) (hj : j < 781) (hij : i ≠ j) : word i ^^^ word j ≠ 0 := by
  intro h
  apply hij
  apply word_inj hi hj
  have : word i ^^^ word j ^^^ word j = 0 ^^^ word j := by rw [h]
  simpa [UInt64.xor_assoc] using this

end RCE.Proofs.ZobristTable
