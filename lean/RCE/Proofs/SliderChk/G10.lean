import RCE.Proofs.SliderCheck
/-! Kernel-evaluated per-square slider checks (group 10). Generated layout; the checks themselves are `decide +kernel`. -/
namespace RCE.Proofs.SliderChk
open RCE.Proofs.SliderCheck

set_option maxRecDepth 100000 in
theorem bishop_14 : sliderOK (bishopCfg 14) = true := by decide +kernel

set_option maxRecDepth 100000 in
theorem bishop_30 : sliderOK (bishopCfg 30) = true := by decide +kernel

set_option maxRecDepth 100000 in
theorem bishop_46 : sliderOK (bishopCfg 46) = true := by decide +kernel

set_option maxRecDepth 100000 in
theorem bishop_62 : sliderOK (bishopCfg 62) = true := by decide +kernel

set_option maxRecDepth 100000 in
theorem rook_8 : sliderOK (rookCfg 8) = true := by decide +kernel

set_option maxRecDepth 100000 in
theorem rook_17 : sliderOK (rookCfg 17) = true := by decide +kernel

set_option maxRecDepth 100000 in
theorem rook_33 : sliderOK (rookCfg 33) = true := by decide +kernel

set_option maxRecDepth 100000 in
theorem rook_49 : sliderOK (rookCfg 49) = true := by decide +kernel

set_option maxRecDepth 100000 in
theorem rook_57 : sliderOK (rookCfg 57) = true := by decide +kernel

end RCE.Proofs.SliderChk
