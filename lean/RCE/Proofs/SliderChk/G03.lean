import RCE.Proofs.SliderCheck
/-! Kernel-evaluated per-square slider checks (group 3). Generated layout; the checks themselves are `decide +kernel`. -/
namespace RCE.Proofs.SliderChk
open RCE.Proofs.SliderCheck

set_option maxRecDepth 100000 in
theorem bishop_3 : sliderOK (bishopCfg 3) = true := by decide +kernel

set_option maxRecDepth 100000 in
theorem bishop_7 : sliderOK (bishopCfg 7) = true := by decide +kernel

set_option maxRecDepth 100000 in
theorem bishop_23 : sliderOK (bishopCfg 23) = true := by decide +kernel

set_option maxRecDepth 100000 in
theorem bishop_39 : sliderOK (bishopCfg 39) = true := by decide +kernel

set_option maxRecDepth 100000 in
theorem bishop_55 : sliderOK (bishopCfg 55) = true := by decide +kernel

set_option maxRecDepth 100000 in
theorem rook_63 : sliderOK (rookCfg 63) = true := by decide +kernel

end RCE.Proofs.SliderChk
