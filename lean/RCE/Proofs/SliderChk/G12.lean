import RCE.Proofs.SliderCheck
/-! Kernel-evaluated per-square slider checks (group 12). Generated layout; the checks themselves are `decide +kernel`. -/
namespace RCE.Proofs.SliderChk
open RCE.Proofs.SliderCheck

set_option maxRecDepth 100000 in
theorem bishop_16 : sliderOK (bishopCfg 16) = true := by decide +kernel

set_option maxRecDepth 100000 in
theorem bishop_32 : sliderOK (bishopCfg 32) = true := by decide +kernel

set_option maxRecDepth 100000 in
theorem bishop_48 : sliderOK (bishopCfg 48) = true := by decide +kernel

set_option maxRecDepth 100000 in
theorem rook_16 : sliderOK (rookCfg 16) = true := by decide +kernel

set_option maxRecDepth 100000 in
theorem rook_19 : sliderOK (rookCfg 19) = true := by decide +kernel

set_option maxRecDepth 100000 in
theorem rook_35 : sliderOK (rookCfg 35) = true := by decide +kernel

set_option maxRecDepth 100000 in
theorem rook_51 : sliderOK (rookCfg 51) = true := by decide +kernel

set_option maxRecDepth 100000 in
theorem rook_59 : sliderOK (rookCfg 59) = true := by decide +kernel

end RCE.Proofs.SliderChk
