import RCE.Proofs.SliderCheck
/-! Kernel-evaluated per-square slider checks (group 7). Generated layout; the checks themselves are `decide +kernel`. -/
namespace RCE.Proofs.SliderChk
open RCE.Proofs.SliderCheck

set_option maxRecDepth 100000 in
theorem bishop_11 : sliderOK (bishopCfg 11) = true := by decide +kernel

set_option maxRecDepth 100000 in
theorem bishop_27 : sliderOK (bishopCfg 27) = true := by decide +kernel

set_option maxRecDepth 100000 in
theorem bishop_43 : sliderOK (bishopCfg 43) = true := by decide +kernel

set_option maxRecDepth 100000 in
theorem bishop_59 : sliderOK (bishopCfg 59) = true := by decide +kernel

set_option maxRecDepth 100000 in
theorem rook_4 : sliderOK (rookCfg 4) = true := by decide +kernel

set_option maxRecDepth 100000 in
theorem rook_12 : sliderOK (rookCfg 12) = true := by decide +kernel

set_option maxRecDepth 100000 in
theorem rook_28 : sliderOK (rookCfg 28) = true := by decide +kernel

set_option maxRecDepth 100000 in
theorem rook_44 : sliderOK (rookCfg 44) = true := by decide +kernel

set_option maxRecDepth 100000 in
theorem rook_47 : sliderOK (rookCfg 47) = true := by decide +kernel

end RCE.Proofs.SliderChk
