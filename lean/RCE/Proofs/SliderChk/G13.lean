import RCE.Proofs.SliderCheck
/-! Kernel-evaluated per-square slider checks (group 13). Generated layout; the checks themselves are `decide +kernel`. -/
namespace RCE.Proofs.SliderChk
open RCE.Proofs.SliderCheck

set_option maxRecDepth 100000 in
theorem bishop_17 : sliderOK (bishopCfg 17) = true := by decide +kernel

set_option maxRecDepth 100000 in
theorem bishop_33 : sliderOK (bishopCfg 33) = true := by decide +kernel

set_option maxRecDepth 100000 in
theorem bishop_49 : sliderOK (bishopCfg 49) = true := by decide +kernel

set_option maxRecDepth 100000 in
theorem rook_20 : sliderOK (rookCfg 20) = true := by decide +kernel

set_option maxRecDepth 100000 in
theorem rook_23 : sliderOK (rookCfg 23) = true := by decide +kernel

set_option maxRecDepth 100000 in
theorem rook_36 : sliderOK (rookCfg 36) = true := by decide +kernel

set_option maxRecDepth 100000 in
theorem rook_52 : sliderOK (rookCfg 52) = true := by decide +kernel

set_option maxRecDepth 100000 in
theorem rook_60 : sliderOK (rookCfg 60) = true := by decide +kernel

end RCE.Proofs.SliderChk
