import RCE.Proofs.SliderCheck
/-! Kernel-evaluated per-square slider checks (group 14). Generated layout; the checks themselves are `decide +kernel`. -/
namespace RCE.Proofs.SliderChk
open RCE.Proofs.SliderCheck

set_option maxRecDepth 100000 in
theorem bishop_18 : sliderOK (bishopCfg 18) = true := by decide +kernel

set_option maxRecDepth 100000 in
theorem bishop_34 : sliderOK (bishopCfg 34) = true := by decide +kernel

set_option maxRecDepth 100000 in
theorem bishop_50 : sliderOK (bishopCfg 50) = true := by decide +kernel

set_option maxRecDepth 100000 in
theorem rook_21 : sliderOK (rookCfg 21) = true := by decide +kernel

set_option maxRecDepth 100000 in
theorem rook_24 : sliderOK (rookCfg 24) = true := by decide +kernel

set_option maxRecDepth 100000 in
theorem rook_37 : sliderOK (rookCfg 37) = true := by decide +kernel

set_option maxRecDepth 100000 in
theorem rook_53 : sliderOK (rookCfg 53) = true := by decide +kernel

set_option maxRecDepth 100000 in
theorem rook_61 : sliderOK (rookCfg 61) = true := by decide +kernel

end RCE.Proofs.SliderChk
