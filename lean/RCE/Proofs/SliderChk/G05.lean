import RCE.Proofs.SliderCheck
/-! Kernel-evaluated per-square slider checks (group 5). Generated layout; the checks themselves are `decide +kernel`. -/
namespace RCE.Proofs.SliderChk
open RCE.Proofs.SliderCheck

set_option maxRecDepth 100000 in
theorem bishop_9 : sliderOK (bishopCfg 9) = true := by decide +kernel

set_option maxRecDepth 100000 in
theorem bishop_25 : sliderOK (bishopCfg 25) = true := by decide +kernel

set_option maxRecDepth 100000 in
theorem bishop_41 : sliderOK (bishopCfg 41) = true := by decide +kernel

set_option maxRecDepth 100000 in
theorem bishop_57 : sliderOK (bishopCfg 57) = true := by decide +kernel

set_option maxRecDepth 100000 in
theorem rook_2 : sliderOK (rookCfg 2) = true := by decide +kernel

set_option maxRecDepth 100000 in
theorem rook_10 : sliderOK (rookCfg 10) = true := by decide +kernel

set_option maxRecDepth 100000 in
theorem rook_26 : sliderOK (rookCfg 26) = true := by decide +kernel

set_option maxRecDepth 100000 in
theorem rook_39 : sliderOK (rookCfg 39) = true := by decide +kernel

set_option maxRecDepth 100000 in
theorem rook_42 : sliderOK (rookCfg 42) = true := by decide +kernel

end RCE.Proofs.SliderChk
