import RCE.Proofs.SliderCheck
/-! Kernel-evaluated per-square slider checks (group 11). Generated layout; the checks themselves are `decide +kernel`. -/
namespace RCE.Proofs.SliderChk
open RCE.Proofs.SliderCheck

set_option maxRecDepth 100000 in
theorem bishop_15 : sliderOK (bishopCfg 15) = true := by decide +kernel

set_option maxRecDepth 100000 in
theorem bishop_31 : sliderOK (bishopCfg 31) = true := by decide +kernel

set_option maxRecDepth 100000 in
theorem bishop_47 : sliderOK (bishopCfg 47) = true := by decide +kernel

set_option maxRecDepth 100000 in
theorem bishop_63 : sliderOK (bishopCfg 63) = true := by decide +kernel

set_option maxRecDepth 100000 in
theorem rook_15 : sliderOK (rookCfg 15) = true := by decide +kernel

set_option maxRecDepth 100000 in
theorem rook_18 : sliderOK (rookCfg 18) = true := by decide +kernel

set_option maxRecDepth 100000 in
theorem rook_34 : sliderOK (rookCfg 34) = true := by decide +kernel

set_option maxRecDepth 100000 in
theorem rook_50 : sliderOK (rookCfg 50) = true := by decide +kernel

set_option maxRecDepth 100000 in
theorem rook_58 : sliderOK (rookCfg 58) = true := by decide +kernel

end RCE.Proofs.SliderChk
