import RCE.Proofs.SliderCheck
/-! Kernel-evaluated per-square slider checks (group 8). Generated layout; the checks themselves are `decide +kernel`. -/
namespace RCE.Proofs.SliderChk
open RCE.Proofs.SliderCheck

set_option maxRecDepth 100000 in
theorem bishop_12 : sliderOK (bishopCfg 12) = true := by decide +kernel

set_option maxRecDepth 100000 in
theorem bishop_28 : sliderOK (bishopCfg 28) = true := by decide +kernel

set_option maxRecDepth 100000 in
theorem bishop_44 : sliderOK (bishopCfg 44) = true := by decide +kernel

set_option maxRecDepth 100000 in
theorem bishop_60 : sliderOK (bishopCfg 60) = true := by decide +kernel

set_option maxRecDepth 100000 in
theorem rook_5 : sliderOK (rookCfg 5) = true := by decide +kernel

set_option maxRecDepth 100000 in
theorem rook_13 : sliderOK (rookCfg 13) = true := by decide +kernel

set_option maxRecDepth 100000 in
theorem rook_29 : sliderOK (rookCfg 29) = true := by decide +kernel

set_option maxRecDepth 100000 in
theorem rook_45 : sliderOK (rookCfg 45) = true := by decide +kernel

set_option maxRecDepth 100000 in
theorem rook_48 : sliderOK (rookCfg 48) = true := by decide +kernel

end RCE.Proofs.SliderChk
