import RCE.Proofs.SliderCheck
/-! Kernel-evaluated per-square slider checks (group 9). Generated layout; the checks themselves are `decide +kernel`. -/
namespace RCE.Proofs.SliderChk
open RCE.Proofs.SliderCheck

set_option maxRecDepth 100000 in
theorem bishop_13 : sliderOK (bishopCfg 13) = true := by decide +kernel

set_option maxRecDepth 100000 in
theorem bishop_29 : sliderOK (bishopCfg 29) = true := by decide +kernel

set_option maxRecDepth 100000 in
theorem bishop_45 : sliderOK (bishopCfg 45) = true := by decide +kernel

set_option maxRecDepth 100000 in
theorem bishop_61 : sliderOK (bishopCfg 61) = true := by decide +kernel

set_option maxRecDepth 100000 in
theorem rook_6 : sliderOK (rookCfg 6) = true := by decide +kernel

set_option maxRecDepth 100000 in
theorem rook_14 : sliderOK (rookCfg 14) = true := by decide +kernel

set_option maxRecDepth 100000 in
theorem rook_30 : sliderOK (rookCfg 30) = true := by decide +kernel

set_option maxRecDepth 100000 in
theorem rook_46 : sliderOK (rookCfg 46) = true := by decide +kernel

set_option maxRecDepth 100000 in
theorem rook_55 : sliderOK (rookCfg 55) = true := by decide +kernel

end RCE.Proofs.SliderChk
