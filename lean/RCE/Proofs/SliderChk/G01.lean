import RCE.Proofs.SliderCheck
/-! Kernel-evaluated per-square slider checks (group 1). Generated layout; the checks themselves are `decide +kernel`. -/
namespace RCE.Proofs.SliderChk
open RCE.Proofs.SliderCheck

set_option maxRecDepth 100000 in
theorem bishop_1 : sliderOK (bishopCfg 1) = true := by decide +kernel

set_option maxRecDepth 100000 in
theorem bishop_5 : sliderOK (bishopCfg 5) = true := by decide +kernel

set_option maxRecDepth 100000 in
theorem bishop_21 : sliderOK (bishopCfg 21) = true := by decide +kernel

set_option maxRecDepth 100000 in
theorem bishop_37 : sliderOK (bishopCfg 37) = true := by decide +kernel

set_option maxRecDepth 100000 in
theorem bishop_53 : sliderOK (bishopCfg 53) = true := by decide +kernel

set_option maxRecDepth 100000 in
theorem rook_7 : sliderOK (rookCfg 7) = true := by decide +kernel

end RCE.Proofs.SliderChk
