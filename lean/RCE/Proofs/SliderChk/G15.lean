import RCE.Proofs.SliderCheck
/-! Kernel-evaluated per-square slider checks (group 15). Generated layout; the checks themselves are `decide +kernel`. -/
namespace RCE.Proofs.SliderChk
open RCE.Proofs.SliderCheck

set_option maxRecDepth 100000 in
theorem bishop_19 : sliderOK (bishopCfg 19) = true := by decide +kernel

set_option maxRecDepth 100000 in
theorem bishop_35 : sliderOK (bishopCfg 35) = true := by decide +kernel

set_option maxRecDepth 100000 in
theorem bishop_51 : sliderOK (bishopCfg 51) = true := by decide +kernel

set_option maxRecDepth 100000 in
theorem rook_22 : sliderOK (rookCfg 22) = true := by decide +kernel

set_option maxRecDepth 100000 in
theorem rook_31 : sliderOK (rookCfg 31) = true := by decide +kernel

set_option maxRecDepth 100000 in
theorem rook_38 : sliderOK (rookCfg 38) = true := by decide +kernel

set_option maxRecDepth 100000 in
theorem rook_54 : sliderOK (rookCfg 54) = true := by decide +kernel

set_option maxRecDepth 100000 in
theorem rook_62 : sliderOK (rookCfg 62) = true := by decide +kernel

end RCE.Proofs.SliderChk
