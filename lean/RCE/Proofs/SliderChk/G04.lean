import RCE.Proofs.SliderCheck
/-! Kernel-evaluated per-square slider checks (group 4). Generated layout; the checks themselves are `decide +kernel`. -/
namespace RCE.Proofs.SliderChk
open RCE.Proofs.SliderCheck

set_option maxRecDepth 100000 in
theorem bishop_8 : sliderOK (bishopCfg 8) = true := by decide +kernel

set_option maxRecDepth 100000 in
theorem bishop_24 : sliderOK (bishopCfg 24) = true := by decide +kernel

set_option maxRecDepth 100000 in
theorem bishop_40 : sliderOK (bishopCfg 40) = true := by decide +kernel

set_option maxRecDepth 100000 in
theorem bishop_56 : sliderOK (bishopCfg 56) = true := by decide +kernel

set_option maxRecDepth 100000 in
theorem rook_1 : sliderOK (rookCfg 1) = true := by decide +kernel

set_option maxRecDepth 100000 in
theorem rook_9 : sliderOK (rookCfg 9) = true := by decide +kernel

set_option maxRecDepth 100000 in
theorem rook_25 : sliderOK (rookCfg 25) = true := by decide +kernel

set_option maxRecDepth 100000 in
theorem rook_32 : sliderOK (rookCfg 32) = true := by decide +kernel

set_option maxRecDepth 100000 in
theorem rook_41 : sliderOK (rookCfg 41) = true := by decide +kernel

end RCE.Proofs.SliderChk
