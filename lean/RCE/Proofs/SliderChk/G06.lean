import RCE.Proofs.SliderCheck
/-! Kernel-evaluated per-square slider checks (group 6). Generated layout; the checks themselves are `decide +kernel`. -/
namespace RCE.Proofs.SliderChk
open RCE.Proofs.SliderCheck

set_option maxRecDepth 100000 in
theorem bishop_10 : sliderOK (bishopCfg 10) = true := by decide +kernel

set_option maxRecDepth 100000 in
theorem bishop_26 : sliderOK (bishopCfg 26) = true := by decide +kernel

set_option maxRecDepth 100000 in
theorem bishop_42 : sliderOK (bishopCfg 42) = true := by decide +kernel

set_option maxRecDepth 100000 in
theorem bishop_58 : sliderOK (bishopCfg 58) = true := by decide +kernel

set_option maxRecDepth 100000 in
theorem rook_3 : sliderOK (rookCfg 3) = true := by decide +kernel

set_option maxRecDepth 100000 in
theorem rook_11 : sliderOK (rookCfg 11) = true := by decide +kernel

set_option maxRecDepth 100000 in
theorem rook_27 : sliderOK (rookCfg 27) = true := by decide +kernel

set_option maxRecDepth 100000 in
theorem rook_40 : sliderOK (rookCfg 40) = true := by decide +kernel

set_option maxRecDepth 100000 in
theorem rook_43 : sliderOK (rookCfg 43) = true := by decide +kernel

end RCE.Proofs.SliderChk
