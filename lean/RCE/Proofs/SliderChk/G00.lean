import RCE.Proofs.SliderCheck
/-! Kernel-evaluated per-square slider checks (group 0). Generated layout; the checks themselves are `decide +kernel`. -/
namespace RCE.Proofs.SliderChk
open RCE.Proofs.SliderCheck

set_option maxRecDepth 100000 in
theorem bishop_0 : sliderOK (bishopCfg 0) = true := by decide +kernel

set_option maxRecDepth 100000 in
theorem bishop_4 : sliderOK (bishopCfg 4) = true := by decide +kernel

set_option maxRecDepth 100000 in
theorem bishop_20 : sliderOK (bishopCfg 20) = true := by decide +kernel

set_option maxRecDepth 100000 in
theorem bishop_36 : sliderOK (bishopCfg 36) = true := by decide +kernel

set_option maxRecDepth 100000 in
theorem bishop_52 : sliderOK (bishopCfg 52) = true := by decide +kernel

set_option maxRecDepth 100000 in
theorem rook_0 : sliderOK (rookCfg 0) = true := by decide +kernel

end RCE.Proofs.SliderChk
