import RCE.Proofs.SliderCheck
/-! Kernel-evaluated per-square slider checks (group 2). Generated layout; the checks themselves are `decide +kernel`. -/
namespace RCE.Proofs.SliderChk
open RCE.Proofs.SliderCheck

set_option maxRecDepth 100000 in
theorem bishop_2 : sliderOK (bishopCfg 2) = true := by decide +kernel

set_option maxRecDepth 100000 in
theorem bishop_6 : sliderOK (bishopCfg 6) = true := by decide +kernel

set_option maxRecDepth 100000 in
theorem bishop_22 : sliderOK (bishopCfg 22) = true := by decide +kernel

set_option maxRecDepth 100000 in
theorem bishop_38 : sliderOK (bishopCfg 38) = true := by decide +kernel

set_option maxRecDepth 100000 in
theorem bishop_54 : sliderOK (bishopCfg 54) = true := by decide +kernel

set_option maxRecDepth 100000 in
theorem rook_56 : sliderOK (rookCfg 56) = true := by decide +kernel

end RCE.Proofs.SliderChk
